(* C19 — the abstract heap semantics of Model/Effects.v is not vacuous: concrete
   initial states and executions for small programs.  Used by the non-vacuity
   Examples of Props/C19.v: a function that writes its parameter (directly, or
   through a view) HAS an execution that logs a pre-existing location, and an accepted
   function has a complete execution whose log is not empty. *)
From Coq Require Import List NArith PArith Bool String Lia Arith.
Require Import EoNV.Model.Effects.
Import ListNotations.
Open Scope N_scope.

Definition no_kids : loc -> field -> loc -> Prop := fun _ _ _ => False.
(* one pre-existing object (location 0), bound to parameter 1 *)
Definition h_one : heap := mkh no_kids (fun l => l) (fun _ => 1) 1%nat.
Definition e_one : env := fun x => if x =? 1 then Some 0%nat else None.
Definition st_one : state := mkst e_one h_one [].

Definition f_writes_param : fundef := mkfun 1 "f" [(1, "a"%string)] true (SWrite 7 1 0 []).
Definition f_rebinds_first : fundef := mkfun 2 "g" [(1, "a"%string)] true
  (seq [SAssign 1 (EAlloc 5 0 [] [1] [] []); SWrite 8 1 0 []]).
Definition f_writes_view : fundef := mkfun 3 "h" [(1, "a"%string)] true
  (seq [SAssign 2 (EAlloc 6 0 [] [] [] [1]); SWrite 9 2 0 []]).

Lemma initial_one : forall body, initial (mkfun 1 "f" [(1, "a"%string)] true body) 1%nat st_one.
Proof.
  intros body. unfold initial, st_one. cbn [st_heap st_env st_log h_one next kids base fn_params].
  split; [reflexivity|]. split; [reflexivity|]. split; [|split].
  - intros x l Hx. unfold e_one in Hx. destruct (N.eqb_spec x 1) as [->|Hne]; [|discriminate Hx].
    injection Hx as <-. split; [lia|]. exists "a"%string. left. reflexivity.
  - intros l g k Hk. destruct Hk.
  - intros l Hl. exact Hl.
Qed.

Lemma initial_one_any : forall id nm body, initial (mkfun id nm [(1, "a"%string)] true body) 1%nat st_one.
Proof. intros id nm body. exact (initial_one body). Qed.

Lemma write_rel_same : forall h e l f ys, write_rel h h e l f ys.
Proof.
  intros h e l f ys. unfold write_rel. split; [reflexivity|]. split; [reflexivity|]. split; [reflexivity|].
  split; [intros; reflexivity|]. intros g k Hk. left. exact Hk.
Qed.

(* f(a): a[..] = ..   logs the caller's object *)
Lemma writes_param_logs_old :
  exists st', initial f_writes_param 1%nat st_one /\
    exec [] (fn_body f_writes_param) st_one Normal st' /\ In 0%nat (st_log st').
Proof.
  exists (mkst e_one h_one [0%nat]). split; [apply initial_one_any|]. split; [|left; reflexivity].
  refine (ex_write [] 7 1 0 [] st_one 0%nat h_one eq_refl _ (write_rel_same _ _ _ _ _)). discriminate.
Qed.

(* the heap after allocating object 1 at site s, sharing the buffer of [b] *)
Definition h_two (s : site) (b : loc) : heap :=
  mkh no_kids (fun l => if Nat.eqb l 1 then b else l) (fun l => if Nat.eqb l 1 then s else 1) 2%nat.

Lemma alloc_two : forall s b, alloc_rel h_one (h_two s b) 1%nat s.
Proof.
  intros s b. unfold alloc_rel, h_one, h_two. cbn [next site_of base kids].
  split; [reflexivity|]. split; [reflexivity|]. split; [reflexivity|]. split; [|split].
  - intros m Hm. destruct (Nat.eqb_spec m 1); [contradiction|reflexivity].
  - intros m Hm. destruct (Nat.eqb_spec m 1); [contradiction|reflexivity].
  - intros m g k Hm. reflexivity.
Qed.

(* h(a): v = a.T; v[..] = ..   logs the buffer of the caller's object *)
Lemma writes_view_logs_old :
  exists st', initial f_writes_view 1%nat st_one /\
    exec [] (fn_body f_writes_view) st_one Normal st' /\ In 0%nat (st_log st').
Proof.
  exists (mkst (upd e_one 2 (Some 1%nat)) (h_two 6 0%nat) [0%nat]).
  split; [apply initial_one_any|]. split; [|left; reflexivity].
  cbn [fn_body f_writes_view seq fold_right].
  apply (ex_seq [] _ _ st_one (mkst (upd e_one 2 (Some 1%nat)) (h_two 6 0%nat) [])).
  - apply (ex_assign [] 2 _ st_one (h_two 6 0%nat) 1%nat). cbn [st_heap st_env st_one].
    apply ev_alloc.
    + apply alloc_two.
    + right. exists 1, 0%nat. split; [left; reflexivity|]. split; reflexivity.
    + intros g k Hk. destruct Hk.
  - apply (ex_seq [] _ _ _ (mkst (upd e_one 2 (Some 1%nat)) (h_two 6 0%nat) [0%nat])); [|apply ex_skip].
    refine (ex_write [] 9 2 0 [] (mkst (upd e_one 2 (Some 1%nat)) (h_two 6 0%nat) []) 1%nat (h_two 6 0%nat)
             eq_refl _ (write_rel_same _ _ _ _ _)). discriminate.
Qed.

(* g(a): a = a.copy(); a[..] = ..   runs to completion and logs only the copy *)
Lemma rebinds_first_runs :
  exists st', initial f_rebinds_first 1%nat st_one /\
    exec [] (fn_body f_rebinds_first) st_one Normal st' /\ st_log st' = [1%nat].
Proof.
  exists (mkst (upd e_one 1 (Some 1%nat)) (h_two 5 1%nat) [1%nat]).
  split; [apply initial_one_any|]. split; [|reflexivity].
  cbn [fn_body f_rebinds_first seq fold_right].
  apply (ex_seq [] _ _ st_one (mkst (upd e_one 1 (Some 1%nat)) (h_two 5 1%nat) [])).
  - apply (ex_assign [] 1 _ st_one (h_two 5 1%nat) 1%nat). cbn [st_heap st_env st_one].
    apply ev_alloc.
    + apply alloc_two.
    + left. reflexivity.
    + intros g k Hk. destruct Hk.
  - apply (ex_seq [] _ _ _ (mkst (upd e_one 1 (Some 1%nat)) (h_two 5 1%nat) [1%nat])); [|apply ex_skip].
    refine (ex_write [] 8 1 0 [] (mkst (upd e_one 1 (Some 1%nat)) (h_two 5 1%nat) []) 1%nat (h_two 5 1%nat)
             eq_refl _ (write_rel_same _ _ _ _ _)). discriminate.
Qed.

(* ---- why the abstract heap has the component [po] (attribution of writes) ----
   f(a, b): a.append(b); c = a[..]; c[..] = ..   modifies b.  The checker as first
   written reported only a (a pre-existing object was assumed to hold only objects of
   its own region even after the function had stored into it); it now reports a and b. *)
Definition f_attr : fundef := mkfun 1 "f" [(1, "a"%string); (2, "b"%string)] true
  (seq [SWrite 1 1 0 [2]; SAssign 3 (ELoad 1 0); SWrite 2 3 0 []]).
Definition h_ab : heap := mkh no_kids (fun l => l) (fun _ => 1) 2%nat.
Definition e_ab : env := fun x => if x =? 1 then Some 0%nat else if x =? 2 then Some 1%nat else None.
Definition st_ab : state := mkst e_ab h_ab [].
Definition h_ab' : heap :=
  mkh (fun m g k => m = 0%nat /\ g = 0 /\ k = 1%nat) (fun l => l) (fun _ => 1) 2%nat.

Lemma initial_ab : initial f_attr 2%nat st_ab.
Proof.
  unfold initial, st_ab. cbn [st_heap st_env st_log h_ab next kids base fn_params f_attr].
  split; [reflexivity|]. split; [reflexivity|]. split; [|split].
  - intros x l Hx. unfold e_ab in Hx. destruct (N.eqb_spec x 1) as [->|Hne1].
    + injection Hx as <-. split; [lia|]. exists "a"%string. left. reflexivity.
    + destruct (N.eqb_spec x 2) as [->|Hne2]; [|discriminate Hx].
      injection Hx as <-. split; [lia|]. exists "b"%string. right. left. reflexivity.
  - intros l g k Hk. destruct Hk.
  - intros l Hl. exact Hl.
Qed.

Lemma attr_writes_b :
  exists st', initial f_attr 2%nat st_ab /\
    exec [] (fn_body f_attr) st_ab Normal st' /\ In 1%nat (st_log st') /\
    (forall l, reach (st_heap st_ab) 0%nat l -> base (st_heap st_ab) l <> 1%nat).
Proof.
  exists (mkst (upd e_ab 3 (Some 1%nat)) h_ab' [1%nat; 0%nat]).
  split; [exact initial_ab|]. split; [|split; [left; reflexivity|]].
  - cbn [fn_body f_attr seq fold_right].
    apply (ex_seq [] _ _ st_ab (mkst e_ab h_ab' [0%nat])).
    { apply (ex_write [] 1 1 0 [2] st_ab 0%nat h_ab'); [reflexivity|discriminate|].
      unfold write_rel. cbn [st_heap st_env st_ab h_ab h_ab' next site_of base kids].
      split; [reflexivity|]. split; [reflexivity|]. split; [reflexivity|]. split.
      - intros m g k Hm. unfold no_kids. split; [intros [Hm0 _]; contradiction|intros []].
      - intros g k [_ [-> ->]]. right. split; [reflexivity|]. exists 2. split; [left; reflexivity|reflexivity]. }
    apply (ex_seq [] _ _ _ (mkst (upd e_ab 3 (Some 1%nat)) h_ab' [0%nat])).
    { apply (ex_assign [] 3 _ (mkst e_ab h_ab' [0%nat]) h_ab' 1%nat). cbn [st_heap st_env].
      apply (ev_load h_ab' e_ab 1 0 0%nat 0 1%nat); [reflexivity| |reflexivity].
      cbn [kids h_ab']. repeat split. }
    apply (ex_seq [] _ _ _ (mkst (upd e_ab 3 (Some 1%nat)) h_ab' [1%nat; 0%nat])); [|apply ex_skip].
    refine (ex_write [] 2 3 0 [] (mkst (upd e_ab 3 (Some 1%nat)) h_ab' [0%nat]) 1%nat h_ab'
             eq_refl _ (write_rel_same _ _ _ _ _)). discriminate.
  - intros l Hr. cbn [st_heap st_ab h_ab base].
    assert (Hl : forall l0 l1, reach h_ab l0 l1 -> l1 = l0).
    { clear. intros l0 l1 Hr. induction Hr as [|l0 k g m Hr IH Hk]; [reflexivity|]. destruct Hk. }
    rewrite (Hl _ _ Hr). discriminate.
Qed.

(* ---- why a load may yield a new immutable scalar ([ev_load_leaf]) ----
   k(a): for i in range(n): a[i] = 0.   The elements of range(n) are numbers, which the
   translator does not represent as references, so the container r is empty in the
   model; without the scalar rule  i = <element of r>  had no execution and the loop
   body (the write to the caller's array) was unreachable in the semantics. *)
Definition f_loop_scalars : fundef := mkfun 6 "k" [(1, "a"%string)] true
  (seq [SAssign 2 (EAlloc 7 0 [] [] [] []);
        SLoop (seq [SAssign 3 (ELoad 2 0); SWrite 11 1 0 []])]).
Definition h_three : heap :=
  mkh no_kids (fun l => if Nat.eqb l 1 then 1%nat else l)
      (fun l => if Nat.eqb l 2 then LEAF_SITE else if Nat.eqb l 1 then 7 else 1) 3%nat.

Lemma alloc_three : alloc_rel (h_two 7 1%nat) h_three 2%nat LEAF_SITE.
Proof.
  unfold alloc_rel, h_two, h_three. cbn [next site_of base kids].
  split; [reflexivity|]. split; [reflexivity|]. split; [reflexivity|]. split; [|split].
  - intros m Hm. destruct (Nat.eqb_spec m 2); [contradiction|reflexivity].
  - intros m Hm. reflexivity.
  - intros m g k Hm. reflexivity.
Qed.

Lemma loop_over_scalars_reaches_body :
  exists st', initial f_loop_scalars 1%nat st_one /\
    exec [] (fn_body f_loop_scalars) st_one Normal st' /\ In 0%nat (st_log st').
Proof.
  set (e2 := upd e_one 2 (Some 1%nat)). set (e3 := upd e2 3 (Some 2%nat)).
  exists (mkst e3 h_three [0%nat]).
  split; [apply initial_one_any|]. split; [|left; reflexivity].
  cbn [fn_body f_loop_scalars seq fold_right].
  apply (ex_seq [] _ _ st_one (mkst e2 (h_two 7 1%nat) [])).
  { apply (ex_assign [] 2 _ st_one (h_two 7 1%nat) 1%nat). cbn [st_heap st_env st_one].
    apply ev_alloc; [apply alloc_two|left; reflexivity|intros g k Hk; destruct Hk]. }
  apply (ex_seq [] _ _ _ (mkst e3 h_three [0%nat])); [|apply ex_skip].
  apply (ex_loop_step [] _ _ (mkst e3 h_three [0%nat])); [|apply ex_loop_done].
  apply (ex_seq [] _ _ _ (mkst e3 h_three [])).
  { apply (ex_assign [] 3 _ (mkst e2 (h_two 7 1%nat) []) h_three 2%nat). cbn [st_heap st_env].
    apply (ev_load_leaf _ e2 2 0 1%nat); [reflexivity|apply alloc_three|reflexivity|intros g k Hk; destruct Hk]. }
  apply (ex_seq [] _ _ _ (mkst e3 h_three [0%nat])); [|apply ex_skip].
  refine (ex_write [] 11 1 0 [] (mkst e3 h_three []) 0%nat h_three eq_refl _ (write_rel_same _ _ _ _ _)).
  discriminate.
Qed.
