(* C17, symmetric graphs: on a graph whose adjacency is symmetric (an undirected
   network seen as a digraph, e.g. the output of percolate_network) the directed
   estimator estimate_SIR_prob_size_from_dir_perc returns the SAME number twice, and
   that number is the size of the component of the chosen node over N — the tie
   between the two estimators of the property. *)
From EoNV Require Import Prelude Samp Graph Percolation PercolationP.

Definition sym_adj (g : graph) : Prop := forall u v, In v (gadj g u) -> In u (gadj g v).

Lemma reach_sym (succ : node -> list node) :
  (forall a b, In b (succ a) -> In a (succ b)) -> forall x y, reach succ x y -> reach succ y x.
Proof.
  intros S x y H. induction H as [x|x y z Hxy IH Hz]; [apply reach_refl|].
  eapply reach_trans; [|exact IH].
  eapply reach_step; [apply reach_refl|apply S; exact Hz].
Qed.

Lemma card_of_unique (P : node -> Prop) a b : card_of P a -> card_of P b -> a = b.
Proof.
  intros [l [Nl [Hl El]]] [m [Nm [Hm Em]]]. subst a b.
  apply Nat.le_antisymm; apply NoDup_incl_length; try assumption;
    intros x Hx; [apply Hm; apply Hl; exact Hx|apply Hl; apply Hm; exact Hx].
Qed.

Lemma estimator_symmetric g : wfg g -> gnodes g <> [] -> sym_adj g ->
  exists L, sccs g = Ok L /\ largest L <> [] /\
  forall k j c u, nth_error (largest L) k = Some c -> nth_error c j = Some u ->
    exists m,
      estimate_from_dir_perc g k j = Ok (frac m (length (gnodes g)), frac m (length (gnodes g))) /\
      card_of (fun x => exists y, In y c /\ fwd g y x) m /\
      card_of (fun x => fwd g u x) m /\
      (forall x, In x c <-> fwd g u x).
Proof.
  intros W Hne S. destruct (estimator_formula g W Hne) as [L [HL [Hl F]]].
  exists L. split; [exact HL|]. split; [exact Hl|].
  intros k j c u Hk Hj. destruct (F k j c u Hk Hj) as [Hscc [_ [a [b [E [Ca [Cb _]]]]]]].
  destruct Hscc as [Nc [Ic [r [Hr Hm]]]].
  assert (In u c) as Hu by (eapply nth_error_In; exact Hj).
  assert (forall x y, fwd g x y -> fwd g y x) as Sy by (intros x y; apply reach_sym; exact S).
  assert (a = b) as Eab.
  { eapply card_of_unique; [|exact Cb]. eapply card_of_ext; [|exact Ca]. intro x; cbv beta. split.
    - intros [_ [y [Hy Hxy]]]. exists y. split; [exact Hy|apply Sy; exact Hxy].
    - intros [y [Hy Hyx]]. split.
      + eapply fwd_in_nodes; [exact W|apply Ic; exact Hy|exact Hyx].
      + exists y. split; [exact Hy|apply Sy; exact Hyx]. }
  subst a. exists b. split; [exact E|]. split; [exact Cb|].
  assert (forall x, In x c <-> fwd g u x) as Hc.
  { intro x. split.
    - intro Hx. apply Hm in Hx. apply Hm in Hu. destruct Hx as [Hrx _]. destruct Hu as [_ Hur].
      eapply reach_trans; [exact Hur|exact Hrx].
    - intro Hux. apply Hm. apply Hm in Hu. destruct Hu as [Hru Hur].
      split; [eapply reach_trans; [exact Hru|exact Hux]|].
      eapply reach_trans; [apply Sy; exact Hux|exact Hur]. }
  split; [|exact Hc].
  eapply card_of_ext; [|exact Cb]. intro x; cbv beta. split.
  - intros [y [Hy Hyx]]. eapply reach_trans; [apply Hc; exact Hy|exact Hyx].
  - intro Hux. exists u. split; [exact Hu|exact Hux].
Qed.

(* non-vacuity: a symmetric path 1 - 2, 3 isolated *)
Definition sym_ex : graph := graph_of [1%N; 2%N; 3%N] [(1%N, 2%N)] false.
Lemma sym_ex_ok : wf_graphb sym_ex = true /\ gnodes sym_ex <> [] /\ sym_adj sym_ex.
Proof.
  split; [vm_compute; reflexivity|]. split; [discriminate|].
  intros u v. apply graph_of_undirected_sym.
Qed.
Lemma sym_ex_value : estimate_from_dir_perc sym_ex 0 0 = Ok (frac 2 3, frac 2 3).
Proof. vm_compute. reflexivity. Qed.
