(* Event-driven SIS simulators, log-level theory, part 2: the initial phase (the
   queue starts with one source-less transmission per initially infected node,
   all at tmin; [finish] drops the rows they push), the bundle [LL] "the three
   logs are the initial entries followed by lists in lock-step", and what
   [finish] returns for such logs: the rows are the running counts of the event
   log (C04), the transmission list and the per-node histories are views of the
   same log (C09), hence summary(histories) = rows by the log lemma (C10). *)
From EoNV Require Import Prelude Samp Graph ListDict ListDictP Gillespie KldP GillespieInv SampP GillespieP GillespieLog.
From EoNV Require Import Investigation InvestigationP GillespieC10.
From EoNV Require Import EventSIS EventSISP EventSISRows.
From Coq Require Import Lqa.

Lemma skipn_app_exact : forall (A : Type) (a b : list A) n, length a = n -> skipn n (a ++ b) = b.
Proof. intros A a b n <-. rewrite skipn_app, skipn_all, Nat.sub_diag. reflexivity. Qed.

Section Init.
Variable g : graph.
Hypothesis Hnd : NoDup (gnodes g).
Variable tmin : Q.
Variable tmax : xtime.
Hypothesis Hvis : xlt tmin tmax = true.

Definition init_ev (l : list node) : list ev := rev (map (fun u => (tmin, u, stI)) l).
Definition init_tx (l : list node) : list tx := rev (map (fun u => (tmin, None, u)) l).
Definition init_rows (l : list node) : list row :=
  fold_left (fun rs (_ : node) => push2 rs tmin (-1) 1) l [(tmin, [order g; 0%Z])].
Definition linit (l : list node) : logs := mkL (init_rows l) (init_ev l) (init_tx l).

Lemma linit_nil : linit [] = logs0 g tmin.
Proof. reflexivity. Qed.

Lemma linit_snoc : forall l u, log_inf (linit l) tmin None u = linit (l ++ [u]).
Proof.
  intros l u. unfold linit, log_inf, init_ev, init_tx, init_rows. cbn [l_rows l_elog l_tlog].
  rewrite !map_app, !rev_app_distr, fold_left_app. reflexivity.
Qed.

Lemma init_rows_shape : forall l, exists drop,
  init_rows l = (tmin, [order g - Z.of_nat (length l); Z.of_nat (length l)]%Z) :: drop /\ length drop = length l.
Proof.
  intro l. induction l as [|u l IH] using rev_ind.
  - exists []. split; [|reflexivity]. unfold init_rows. cbn [fold_left length].
    replace (order g - Z.of_nat 0)%Z with (order g) by lia. reflexivity.
  - destruct IH as [drop [E Hl]]. unfold init_rows in *. rewrite fold_left_app. cbn [fold_left]. rewrite E.
    exists ((tmin, [(order g - Z.of_nat (length l))%Z; Z.of_nat (length l)]) :: drop). split.
    + unfold push2. cbn [hd_counts cnt nth]. rewrite app_length. cbn [length].
      replace (order g - Z.of_nat (length l) + -1)%Z with (order g - Z.of_nat (length l + 1))%Z by lia.
      replace (Z.of_nat (length l) + 1)%Z with (Z.of_nat (length l + 1)) by lia. reflexivity.
    + cbn [length]. rewrite app_length, Hl. cbn [length]. lia.
Qed.

Lemma set_all_snoc : forall (f : node -> N) l u s, set_all f (l ++ [u]) s = fupdN (set_all f l s) u s.
Proof. intros f l u s. unfold set_all. rewrite fold_left_app. reflexivity. Qed.

Lemma stat_of_init : forall l, stat_of (init_ev l) = st_init l [].
Proof.
  intro l. unfold st_init, init_ev. cbn [set_all fold_left].
  induction l as [|u l IH] using rev_ind; [reflexivity|].
  rewrite map_app, rev_app_distr, set_all_snoc. cbn [map rev app stat_of]. rewrite IH. reflexivity.
Qed.

Variable i0 : list node.
Hypothesis Hi0 : NoDup i0.
Hypothesis Hinc : incl i0 (gnodes g).

Definition st0 : node -> N := st_init i0 [].

Lemma st0_I : forall x, N.eqb (st0 x) stI = mem x i0.
Proof. intro x. apply st_init_I. intros y _ H. exact H. Qed.
Lemma st0_in : forall x, In x i0 -> st0 x = stI.
Proof. intros x H. apply N.eqb_eq. rewrite st0_I. apply mem_In. exact H. Qed.
Lemma st0_out : forall x, ~ In x i0 -> st0 x = stS.
Proof. intros x H. unfold st0, st_init. cbn [set_all fold_left]. apply (set_all_notin i0 (fun _ => stS) stI x H). Qed.
Lemma st0_bin : binst st0.
Proof.
  intro x. destruct (in_dec N.eq_dec x i0) as [H|H]; [right; apply st0_in; exact H|left; apply st0_out; exact H].
Qed.

Lemma st0_census : census2 g st0 = [order g - Z.of_nat (length i0); Z.of_nat (length i0)]%Z.
Proof.
  assert (HI : cntst g st0 stI = Z.of_nat (length i0)).
  { unfold cntst. rewrite <- (count_mem i0 (gnodes g) Hi0 Hnd Hinc). f_equal.
    apply filter_ext_len. intro x. apply st0_I. }
  pose proof (partition2 st0 (gnodes g) st0_bin) as Hp.
  unfold census, cntst in *. unfold order. f_equal; [lia|]. f_equal. exact HI.
Qed.

Definition rows0 : list row := init_rows i0.

Lemma rows0_census : hd_counts rows0 = census2 g st0.
Proof. destruct (init_rows_shape i0) as [drop [E _]]. unfold rows0. rewrite E, st0_census. reflexivity. Qed.
Lemma rows0_ne : rows0 <> [].
Proof. destruct (init_rows_shape i0) as [drop [E _]]. unfold rows0. rewrite E. discriminate. Qed.

(* ---------------- the bundle ---------------- *)
Record LL (chk : bool) (evs : list ev) (txs : list tx) (lg : logs) (st : node -> N) : Prop := mkLL {
  ll_elog : l_elog lg = evs ++ init_ev i0;
  ll_tlog : l_tlog lg = txs ++ init_tx i0;
  ll_lock : elock g tmax chk st0 rows0 evs txs (l_rows lg) st
}.

Lemma LL_start : forall chk, LL chk [] [] (linit i0) st0.
Proof. intro chk. constructor; [reflexivity|reflexivity|]. cbn [linit l_rows]. apply el_nil. Qed.

Lemma LL_inf : forall chk evs txs lg st t u v,
  LL chk evs txs lg st -> (chk = true -> st u = stI) -> st v = stS -> In v (gadj g u) -> In v (gnodes g) ->
  prev_le (l_rows lg) t -> xlt t tmax = true ->
  LL chk ((t, v, stI) :: evs) ((t, Some u, v) :: txs) (log_inf lg t (Some u) v) (fupdN st v stI).
Proof.
  intros chk evs txs lg st t u v [He Ht Hl] Hu Hv Ha Hin Hp Hx. constructor; cbn [log_inf l_elog l_tlog l_rows].
  - rewrite He. reflexivity.
  - rewrite Ht. reflexivity.
  - rewrite (push2_inf g Hnd tmax chk st0 rows0 st0_bin rows0_census rows0_ne evs txs (l_rows lg) st t v Hl Hv Hin).
    apply el_tr; assumption.
Qed.

Lemma LL_rec : forall chk evs txs lg st t u,
  LL chk evs txs lg st -> st u = stI -> In u (gnodes g) -> prev_le (l_rows lg) t -> xlt t tmax = true ->
  LL chk ((t, u, stS) :: evs) txs (log_rec lg t u) (fupdN st u stS).
Proof.
  intros chk evs txs lg st t u [He Ht Hl] Hu Hin Hp Hx. constructor; cbn [log_rec l_elog l_tlog l_rows].
  - rewrite He. reflexivity.
  - exact Ht.
  - rewrite (push2_rec g Hnd tmax chk st0 rows0 rows0_census rows0_ne evs txs (l_rows lg) st t u Hl Hu Hin).
    apply el_rec; assumption.
Qed.

(* the time of the newest row is the time of the newest event *)
Definition lnow (lg : logs) : Q := match l_rows lg with (t, _) :: _ => t | [] => tmin end.
Lemma prev_le_lnow : forall lg t, lnow lg <= t -> prev_le (l_rows lg) t.
Proof. intros lg t H. unfold lnow in H. unfold prev_le. destruct (l_rows lg) as [|[t0 c] r]; [exact I|exact H]. Qed.
Lemma lnow_inf : forall lg t src v, lnow (log_inf lg t src v) = t.
Proof. reflexivity. Qed.
Lemma lnow_rec : forall lg t v, lnow (log_rec lg t v) = t.
Proof. reflexivity. Qed.
Lemma lnow_linit : forall l, lnow (linit l) = tmin.
Proof. intro l. unfold lnow, linit. cbn [l_rows]. destruct (init_rows_shape l) as [drop [E _]]. rewrite E. reflexivity. Qed.

(* ================================================================== *)
(* what [finish] returns *)
Section Out.
Variable chk : bool.
Variables (evs : list ev) (txs : list tx) (lg : logs) (st : node -> N).
Hypothesis HLL : LL chk evs txs lg st.
Variable full : bool.

Let out : simout := finish g tmin full (length i0) lg.
Let cev : list ev := rev evs.      (* the event log after the initial condition, chronological *)
Let ctx : list tx := rev txs.

Lemma out_rows : so_rows out = log_arrays (gnodes g) [stS; stI] tmin st0 cev.
Proof.
  destruct HLL as [He Ht Hl]. unfold out, finish. cbn [so_rows].
  destruct (elock_rows g tmax chk st0 rows0 _ _ _ _ Hl) as [rs [E Hr]].
  destruct (init_rows_shape i0) as [drop [E0 Hd]]. fold rows0 in E0.
  rewrite E, E0, rev_app_distr. cbn [rev]. rewrite <- app_assoc.
  assert (Hlen : length (rev drop) = length i0) by (rewrite rev_length; exact Hd).
  rewrite (skipn_app_exact _ _ _ _ Hlen). cbn [app].
  unfold log_arrays. rewrite Hr. f_equal. f_equal. rewrite <- census2_counts, st0_census. reflexivity.
Qed.

Lemma out_rows_first : exists rs, so_rows out = (tmin, [order g - Z.of_nat (length i0); Z.of_nat (length i0)]%Z) :: rs.
Proof.
  rewrite out_rows. unfold log_arrays. rewrite <- census2_counts, st0_census. eexists. reflexivity.
Qed.

Lemma out_traj : traj g SIS tmin tmax (so_rows out).
Proof.
  destruct HLL as [He Ht Hl]. unfold out, finish. cbn [so_rows].
  destruct (init_rows_shape i0) as [drop [E0 Hd]]. fold rows0 in E0.
  set (h := (tmin, [(order g - Z.of_nat (length i0))%Z; Z.of_nat (length i0)])) in *.
  destruct (elock_traj g Hnd tmin tmax chk st0 rows0 st0_bin rows0_census rows0_ne _ _ _ _ Hl [h]) as [rs [E Htr]].
  - exists h, drop. split; [exact E0|reflexivity].
  - cbn [rev app]. apply traj_init; [reflexivity|]. exists st0. split; [exact st0_bin|]. unfold h. cbn [snd]. symmetry. exact st0_census.
  - rewrite E, E0, rev_app_distr. cbn [rev]. rewrite <- app_assoc.
    assert (Hlen : length (rev drop) = length i0) by (rewrite rev_length; exact Hd).
    rewrite (skipn_app_exact _ _ _ _ Hlen). cbn [app].
    rewrite rev_app_distr in Htr. exact Htr.
Qed.

Lemma out_times : Forall (fun e => xlt (ev_time e) tmax = true) cev /\
  Forall (fun e => In (ev_node e) (gnodes g) /\ (ev_st e = stI \/ ev_st e = stS)) cev.
Proof.
  destruct HLL as [_ _ Hl]. destruct (elock_times g tmax chk st0 rows0 _ _ _ _ Hl) as [A B].
  split; apply Forall_rev; assumption.
Qed.

Lemma out_chain : forall u, GillespieC10.chain SIS (st0 u) (map ev_st (evs_of u cev)) = true.
Proof. intro u. destruct HLL as [_ _ Hl]. apply (elock_chain g tmax chk st0 rows0 _ _ _ _ Hl u). Qed.

(* transmissions: the source-less entries of the initial nodes, then one sourced entry per
   infection event with the event's time and target, in the order of the log *)
Lemma out_trans : full = true -> exists fd, so_full out = Some fd /\
  fd_trans fd = map (fun u => (tmin, None, u)) i0 ++ ctx /\
  map (fun x : tx => (fst (fst x), snd x)) ctx =
    map (fun e : ev => (ev_time e, ev_node e)) (filter (fun e => N.eqb (ev_st e) stI) cev) /\
  Forall (fun x : tx => exists u, snd (fst x) = Some u /\ In (snd x) (gadj g u)) ctx.
Proof.
  intro Hf. destruct HLL as [He Ht Hl]. unfold out, finish. rewrite Hf. eexists. split; [reflexivity|].
  unfold build_full. cbn [fd_trans]. rewrite Ht, rev_app_distr. unfold init_tx. rewrite rev_involutive.
  split; [reflexivity|]. destruct (elock_txs g tmax chk st0 rows0 _ _ _ _ Hl) as [A B]. split.
  - unfold ctx, cev. rewrite <- filter_rev, !map_rev. f_equal. exact A.
  - apply Forall_rev. exact B.
Qed.

(* ---------------- per-node histories ---------------- *)
Lemma times_of_node_events : forall u s log,
  times_of u s log = map fst (filter (fun p : Q * N => N.eqb (snd p) s) (node_events u log)).
Proof.
  intros u s log. unfold times_of, node_events. induction log as [|[[t x] y] log IH]; [reflexivity|].
  cbn [filter map fst snd]. destruct (N.eqb x u); cbn [andb filter map fst snd]; [|exact IH].
  destruct (N.eqb y s); cbn [map fst]; rewrite IH; reflexivity.
Qed.

Lemma interleave_alt : forall n (es : list (Q * N)), (length es <= n)%nat ->
  GillespieC10.chain SIS stS (map snd es) = true ->
  interleave (map fst (filter (fun e => N.eqb (snd e) stI) es)) (map fst (filter (fun e => N.eqb (snd e) stS) es)) = es.
Proof.
  induction n as [|n IH]; intros es Hl Hc.
  - destruct es; [reflexivity|cbn in Hl; lia].
  - destruct es as [|[t x] [|[t2 x2] r]]; [reflexivity| |].
    + cbn [map snd GillespieC10.chain] in Hc. change (N.eqb stS stS) with true in Hc. cbv iota in Hc.
      rewrite andb_true_r in Hc. apply N.eqb_eq in Hc. subst x. reflexivity.
    + cbn [map snd GillespieC10.chain] in Hc. change (rec_status SIS) with stS in Hc.
      change (N.eqb stS stS) with true in Hc. cbv iota in Hc.
      apply andb_true_iff in Hc. destruct Hc as [H1 Hc]. apply N.eqb_eq in H1. subst x.
      change (N.eqb stI stS) with false in Hc. change (N.eqb stI stI) with true in Hc. cbv iota in Hc.
      apply andb_true_iff in Hc. destruct Hc as [H2 Hc]. apply N.eqb_eq in H2. subst x2.
      cbn [filter snd map fst]. change (N.eqb stI stI) with true. change (N.eqb stI stS) with false.
      change (N.eqb stS stI) with false. change (N.eqb stS stS) with true. cbv iota. cbn [map fst interleave].
      rewrite IH; [reflexivity| |exact Hc]. cbn [length] in Hl. lia.
Qed.

Lemma node_events_evs_of : forall u (l : list ev), map snd (node_events u l) = map ev_st (evs_of u l).
Proof. intros u l. unfold node_events, evs_of. rewrite map_map. reflexivity. Qed.

Lemma out_hist : full = true -> increasing tmin cev = true -> exists fd, so_full out = Some fd /\
  fd_hist fd = iv_hist (log_inv (gnodes g) [stS; stI] tmin st0 cev).
Proof.
  intros Hf Hinc2. destruct HLL as [He Ht Hl]. unfold out, finish. rewrite Hf. eexists. split; [reflexivity|].
  unfold build_full, log_inv. cbn [fd_hist iv_hist]. apply map_ext_in. intros u Hu. f_equal.
  rewrite He, rev_app_distr. unfold init_ev. rewrite rev_involutive. fold cev.
  rewrite !times_of_node_events.
  match goal with |- context [node_events u ?l] => set (NE := node_events u l) end.
  assert (ENE : NE = (if mem u i0 then [(tmin, stI)] else []) ++ node_events u cev).
  { unfold NE. rewrite node_events_app, (node_events_map_init tmin u stI i0 Hi0). reflexivity. }
  pose proof (out_chain u) as Hch. rewrite <- node_events_evs_of in Hch.
  assert (Hafter : forall e, In e (node_events u cev) -> tmin < fst e).
  { intros e Hin. unfold node_events in Hin. apply in_map_iff in Hin. destruct Hin as [x [E Hx]]. subst e.
    apply filter_In in Hx. cbn [fst]. apply (increasing_after cev tmin Hinc2 x). apply Hx. }
  assert (HchNE : GillespieC10.chain SIS stS (map snd NE) = true).
  { rewrite ENE. pose proof (st0_I u) as HI. destruct (mem u i0).
    - apply N.eqb_eq in HI. rewrite HI in Hch. cbn [app map snd GillespieC10.chain]. rewrite Hch. reflexivity.
    - cbn [app]. assert (st0 u = stS) as <-; [|exact Hch].
      destruct (st0_bin u) as [E|E]; [exact E|]. rewrite E in HI. discriminate HI. }
  rewrite (interleave_alt (length NE) NE (Nat.le_refl _) HchNE). rewrite ENE.
  unfold hist_sis, project. fold (node_events u cev).
  change (map (fun e : Investigation.event => (ev_t e, ev_s e)) (filter (fun e : Investigation.event => N.eqb (ev_u e) u) cev))
    with (node_events u cev).
  pose proof (st0_I u) as HI. destruct (mem u i0).
  - apply N.eqb_eq in HI. rewrite HI. cbn [app fold_left fst snd]. unfold Qeqb at 1. rewrite Qeq_bool_refl.
    change (N.eqb stI stI) with true. cbn [andb].
    rewrite (hist_of_no_reset SIS tmin _ _ Hafter). reflexivity.
  - assert (st0 u = stS) as ->.
    { destruct (st0_bin u) as [E|E]; [exact E|]. rewrite E in HI. discriminate HI. }
    cbn [app]. rewrite (hist_of_no_reset SIS tmin _ _ Hafter). reflexivity.
Qed.

(* C10: the summary of the histories is the returned rows *)
Lemma out_summary : gnodes g <> [] -> increasing tmin cev = true ->
  summary (log_inv (gnodes g) [stS; stI] tmin st0 cev) None = Ok (so_rows out).
Proof.
  intros Hne Hinc2. rewrite out_rows. apply log_lemma. unfold log_okb. rewrite Hinc2. cbn [andb].
  apply andb_true_iff. split; [apply andb_true_iff; split|].
  - apply forallb_forall. intros e He. destruct out_times as [_ B]. rewrite Forall_forall in B.
    destruct (B e He) as [Hn Hs]. apply andb_true_iff. split; [apply memb_In; exact Hn|].
    unfold ev_s. unfold ev_st in Hs. destruct Hs as [Hs|Hs]; rewrite Hs; reflexivity.
  - apply forallb_forall. intros u Hu. destruct (st0_bin u) as [E|E]; rewrite E; reflexivity.
  - destruct (gnodes g); [contradiction Hne; reflexivity|reflexivity].
Qed.

(* C09, with the source check: the chronological validity checker of the Gillespie component *)
Lemma out_valid : chk = true -> valid_logb g SIS st0 cev ctx = true.
Proof.
  intro Hc. destruct HLL as [_ _ Hl]. rewrite Hc in Hl. apply (lock_valid_log g SIS tmax st0 rows0 evs txs (l_rows lg) st).
  apply elock_lock. exact Hl.
Qed.

End Out.
End Init.
