(* Event-driven SIR, cross-cutting properties, part 6: tie policies that never let an
   entry pushed after set-up overtake a set-up entry of the same time ([init_first]; the
   code's heap order (time, counter) is one).  Under such a policy the |I0| initial
   infections are the first events of the run whatever the delays and durations, so the
   run starts from the requested statuses. *)
From EoNV Require Import Prelude Samp Graph EventSIR EventSIRP EventSIRInv EventSIRMain EventSIRChar EventSIRTop EventSIRPred.
From EoNV Require Import Investigation EventSIRLog EventSIRRows EventSIRTraj EventSIRC04.
Require Import Lqa Permutation.

Lemma fifo_init_first : forall n0, init_first n0 fifo.
Proof. intros n0 e h H1 H2. unfold fifo. apply Nat.ltb_ge. lia. Qed.

Definition QA (n0 : nat) (tmin : Q) (qa : list qent) : Prop :=
  forall e, In e qa -> (qc e < n0)%nat /\ qt e = tmin /\ exists u, qe e = ETrans None u.
Definition QB (n0 : nat) (qb : list qent) : Prop :=
  forall e, In e qb -> (n0 <= qc e)%nat /\ forall u, qe e <> ETrans None u.

Definition isinit (i0 : list node) (e : event) : bool := is_inf e && mem (ev_u e) i0.

Section Phase.
Variable tb : tiepolicy.
Variable n0 : nat.
Variable tmin : Q.
Hypothesis Htb : init_first n0 tb.

Lemma gb_false : forall x h, (qc h < n0)%nat -> (n0 <= qc x)%nat -> qt h <= qt x -> goes_before tb x h = false.
Proof.
  intros x h H1 H2 H3. unfold goes_before.
  assert (E : Qltb (qt x) (qt h) = false) by (apply Qltb_false; exact H3). rewrite E.
  destruct (Qltb (qt h) (qt x)); [reflexivity|]. apply Htb; auto.
Qed.

Lemma qinsert_pass : forall x qa qb, (forall h, In h qa -> goes_before tb x h = false) ->
  qinsert tb x (qa ++ qb) = qa ++ qinsert tb x qb.
Proof.
  intros x qa qb. induction qa as [|h qa IH]; intros H; [reflexivity|].
  cbn [app qinsert]. rewrite (H h (or_introl eq_refl)). f_equal. apply IH. intros y Hy. apply H. right. exact Hy.
Qed.

Lemma qadd_phase : forall tmax time ev qa qb c, QA n0 tmin qa -> QB n0 qb -> (n0 <= c)%nat ->
  (forall t, time = Some t -> tmin <= t) -> (forall u, ev <> ETrans None u) ->
  exists qb', fst (qadd tb tmax time ev (qa ++ qb, c)) = qa ++ qb' /\ QB n0 qb' /\
              (n0 <= snd (qadd tb tmax time ev (qa ++ qb, c)))%nat.
Proof.
  intros tmax time ev qa qb c HA HB Hc Ht Hev. unfold qadd. destruct time as [t|]; cbn [fst snd].
  - destruct (xltb (Some t) tmax); cbn [fst snd]; [|exists qb; auto].
    exists (qinsert tb (mkQ t c ev) qb). split; [|split; [|lia]].
    + apply qinsert_pass. intros h Hh. destruct (HA h Hh) as [H1 [H2 _]].
      apply gb_false; cbn [qc qt]; auto. rewrite H2. apply Ht. reflexivity.
    + intros e He. apply In_qinsert in He. destruct He as [->|He]; [cbn [qc qe]; auto|apply HB; exact He].
  - exists qb. auto.
Qed.

Lemma sched_one_phase : forall tmax time rt tgt qa qb c p v d, QA n0 tmin qa -> QB n0 qb -> (n0 <= c)%nat ->
  tmin <= time -> (forall d', d = Some d' -> 0 <= d') ->
  exists qb', fst (fst (sched_one tb tmax time rt tgt (qa ++ qb, c, p) (v, d))) = qa ++ qb' /\ QB n0 qb' /\
              (n0 <= snd (fst (sched_one tb tmax time rt tgt (qa ++ qb, c, p) (v, d))))%nat.
Proof.
  intros tmax time rt tgt qa qb c p v d HA HB Hc Ht Hd. unfold sched_one.
  destruct (xleb (xadd time d) rt); cbn [fst snd]; [|exists qb; auto].
  destruct (xltb (xadd time d) (pget p v) && xleb (xadd time d) tmax); cbn [fst snd]; [|exists qb; auto].
  apply qadd_phase; auto.
  - intros t Hx. apply xadd_some in Hx. destruct Hx as [d' [Hd' ->]]. pose proof (Hd d' Hd'). lra.
  - intros u. discriminate.
Qed.

Lemma sfold_phase : forall tmax time rt tgt td qa qb c p, QA n0 tmin qa -> QB n0 qb -> (n0 <= c)%nat ->
  tmin <= time -> (forall v d d', In (v, d) td -> d = Some d' -> 0 <= d') ->
  exists qb', fst (fst (sfold tb tmax time rt tgt td (qa ++ qb, c, p))) = qa ++ qb' /\ QB n0 qb' /\
              (n0 <= snd (fst (sfold tb tmax time rt tgt td (qa ++ qb, c, p))))%nat.
Proof.
  intros tmax time rt tgt td. induction td as [|[v d] td IH]; intros qa qb c p HA HB Hc Ht Hd.
  - exists qb. auto.
  - rewrite sfold_cons.
    assert (Hd1 : forall d', d = Some d' -> 0 <= d').
    { intros d' Hd'. apply (Hd v d d'); [left; reflexivity|exact Hd']. }
    destruct (sched_one_phase tmax time rt tgt qa qb c p v d HA HB Hc Ht Hd1) as [qb1 [E1 [HB1 Hc1]]].
    match goal with |- context [sfold _ _ _ _ _ _ ?r] => destruct r as [[q1 c1] p1] eqn:Es end.
    assert (E1' : q1 = qa ++ qb1) by (change q1 with (fst (fst (q1, c1, p1))); rewrite <- Es; exact E1).
    assert (Hc1' : (n0 <= c1)%nat) by (change c1 with (snd (fst (q1, c1, p1))); rewrite <- Es; exact Hc1).
    rewrite E1'.
    apply IH; auto. intros v' d0 d' Hin. apply (Hd v' d0 d'). right. exact Hin.
Qed.

End Phase.

Section PH.
Variable tb : tiepolicy.
Variable g : graph.
Variable tmax : xtime.
Variable delay : node -> node -> xtime.
Variable dur : node -> xtime.
Variable tmin : Q.
Variables i0 r0 : list node.

Hypothesis Hdelay : forall u v d, In u (gnodes g) -> In v (gadj g u) -> delay u v = Some d -> 0 <= d.
Hypothesis Hdur : forall u d, In u (gnodes g) -> dur u = Some d -> 0 <= d.
Hypothesis Hadj : forall u, In u (gnodes g) -> NoDup (gadj g u).
Hypothesis Hdisj : forall u, In u i0 -> ~ In u r0.
Hypothesis Htmin : ltmax tmax tmin.
Hypothesis Hgn : NoDup (gnodes g).
Hypothesis Hi0g : forall u, In u i0 -> In u (gnodes g).
Hypothesis Hadjg : forall u v, In u (gnodes g) -> In v (gadj g u) -> In v (gnodes g).
Hypothesis Htb : init_first (length i0) tb.

Notation n0 := (length i0).
Notation INV := (Inv g tmax delay dur tmin i0 r0).
Notation XINV := (XI g tmax tmin i0 r0).

Definition PH (evs : list event) (s : est) : Prop :=
  (n0 <= ctr s)%nat /\
  exists qa qb B A, qu s = qa ++ qb /\ evs = B ++ A /\ QA n0 tmin qa /\ QB n0 qb /\
    Forall (fun e => isinit i0 e = true) A /\ Forall (fun e => isinit i0 e = false) B /\ (qa = [] \/ B = []).

Lemma ai_ctr : forall time src v td rd calls s,
  ctr (apply_inf tb tmax time src v td rd calls s) =
  snd (fst (sfold tb tmax time (xadd time rd) v td
     (fst (if xleb (xadd time rd) tmax then qadd tb tmax (xadd time rd) (ERec v) (qu s, ctr s) else (qu s, ctr s)),
      snd (if xleb (xadd time rd) tmax then qadd tb tmax (xadd time rd) (ERec v) (qu s, ctr s) else (qu s, ctr s)),
      predt s))).
Proof.
  intros. unfold apply_inf, sfold. destruct (fold_left _ _ _) as [[q2 c2] p2]. reflexivity.
Qed.

Lemma inf_queue_phase : forall t src v sus calls s0 qa qb,
  qu s0 = qa ++ qb -> QA n0 tmin qa -> QB n0 qb -> (n0 <= ctr s0)%nat -> tmin <= t -> In v (gnodes g) ->
  (forall w, In w sus -> In w (gadj g v)) ->
  exists qb', qu (apply_inf tb tmax t src v (det_delays delay v sus) (dur v) calls s0) = qa ++ qb' /\ QB n0 qb' /\
              (n0 <= ctr (apply_inf tb tmax t src v (det_delays delay v sus) (dur v) calls s0))%nat.
Proof.
  intros t src v sus calls s0 qa qb Eq HA HB Hc Ht Hvg Hsus.
  rewrite ai_qu, ai_ctr. rewrite Eq.
  assert (H1 : exists qb1, fst (if xleb (xadd t (dur v)) tmax then qadd tb tmax (xadd t (dur v)) (ERec v) (qa ++ qb, ctr s0) else (qa ++ qb, ctr s0)) = qa ++ qb1 /\
                 QB n0 qb1 /\
                 (n0 <= snd (if xleb (xadd t (dur v)) tmax then qadd tb tmax (xadd t (dur v)) (ERec v) (qa ++ qb, ctr s0) else (qa ++ qb, ctr s0)))%nat).
  { destruct (xleb (xadd t (dur v)) tmax); [|exists qb; auto].
    apply (qadd_phase tb n0 tmin Htb); auto.
    - intros r Hr. apply xadd_some in Hr. destruct Hr as [d' [Hd' ->]]. pose proof (Hdur v d' Hvg Hd'). lra.
    - intros u. discriminate. }
  destruct H1 as [qb1 [E1 [HB1 Hc1]]]. rewrite E1.
  apply (sfold_phase tb n0 tmin Htb); auto.
  intros w d d' Hin Hd. apply det_delays_In in Hin. destruct Hin as [Hw ->].
  apply (Hdelay v w d' Hvg (Hsus w Hw) Hd).
Qed.

Lemma ph_step : forall c s e q' evs,
  INV c s -> fuel_inv g s -> XINV c evs s -> PH evs s -> qu s = e :: q' ->
  PH (gstep e (set_qu s q') evs) (step_det tb g tmax delay dur e (set_qu s q')).
Proof.
  intros c s e q' evs HI HF HX [Hc [qa [qb [B [A [Eq [Ee [HA [HB [FA [FB Hor]]]]]]]]]]] Hq.
  assert (Hin_e : In e (qu s)) by (rewrite Hq; left; auto).
  destruct (i_qtime _ _ _ _ _ _ _ _ _ HI e Hin_e) as [Hce _].
  pose proof (i_clock _ _ _ _ _ _ _ _ _ HI) as Hclk.
  assert (Hte : tmin <= qt e) by lra.
  rewrite Hq in Eq.
  assert (Hsus : forall st v w, In w (sus_nbrs g st v) -> In w (gadj g v)).
  { intros st v w Hw. apply sus_nbrs_In in Hw. apply Hw. }
  assert (Hinf : forall src v qa1 qb1, q' = qa1 ++ qb1 -> QA n0 tmin qa1 -> QB n0 qb1 -> In v (gnodes g) ->
            let sus := sus_nbrs g (fupdN (stat s) v stI) v in
            let s' := apply_inf tb tmax (qt e) src v (det_delays delay v sus) (dur v) (det_calls v sus) (set_qu s q') in
            (n0 <= ctr s')%nat /\ exists qb', qu s' = qa1 ++ qb' /\ QB n0 qb').
  { intros src v qa1 qb1 E1 HA1 HB1 Hvg sus s'.
    destruct (inf_queue_phase (qt e) src v sus (det_calls v sus) (set_qu s q') qa1 qb1) as [qb' [E' [HB' Hc']]]; auto.
    - intros w Hw. apply (Hsus _ _ _ Hw).
    - split; [exact Hc'|]. exists qb'. auto. }
  unfold step_det, gstep, step_ev.
  destruct qa as [|a qa'].
  - (* only entries pushed after set-up are left *)
    cbn [app] in Eq. subst qb.
    destruct (HB e (or_introl eq_refl)) as [Hce0 Hnone].
    assert (HB' : QB n0 q') by (intros x Hx; apply HB; right; exact Hx).
    destruct (qe e) as [src v|u] eqn:He.
    + change (stat (set_qu s q') v) with (stat s v).
      destruct (N.eqb (stat s v) stS) eqn:E.
      * cbv zeta. change (stat (set_qu s q')) with (stat s).
        assert (Hvg : In v (gnodes g)) by (apply (HF e src v); auto).
        assert (HAnil : QA n0 tmin []) by (intros x []).
        destruct (Hinf src v [] q' eq_refl HAnil HB' Hvg) as [Hc' [qb' [E' HB'']]].
        split; [exact Hc'|]. exists [], qb', ((qt e, v, stI) :: B), A. split; [exact E'|]. split; [rewrite Ee; reflexivity|].
        split; [intros x []|]. split; [exact HB''|]. split; [exact FA|]. split; [|left; reflexivity].
        constructor; [|exact FB]. unfold isinit, is_inf. cbn [ev_s ev_u fst snd].
        destruct src as [u|]; [|exfalso; apply (Hnone v); reflexivity].
        assert (Hm : mem v i0 = false).
        { apply mem_false_notin. apply (x_qi0 _ _ _ _ _ _ _ _ HX e u v Hin_e He). }
        rewrite Hm. apply andb_false_r.
      * split; [exact Hc|]. exists [], q', B, A. cbn [set_qu qu].
        split; [reflexivity|]. split; [exact Ee|]. split; [intros x []|]. split; [exact HB'|].
        split; [exact FA|]. split; [exact FB|left; reflexivity].
    + split; [exact Hc|]. exists [], q', ((qt e, u, stR) :: B), A. cbn [apply_rec set_qu qu].
      split; [reflexivity|]. split; [rewrite Ee; reflexivity|]. split; [intros x []|]. split; [exact HB'|].
      split; [exact FA|]. split; [|left; reflexivity]. constructor; [reflexivity|exact FB].
  - (* a set-up entry is served: nothing else has happened yet *)
    cbn [app] in Eq. injection Eq as Ea Eq'. subst a.
    destruct Hor as [Hor|Hor]; [discriminate Hor|]. subst B. cbn [app] in Ee. subst evs.
    destruct (HA e (or_introl eq_refl)) as [_ [_ [u He]]].
    assert (HA' : QA n0 tmin qa') by (intros x Hx; apply HA; right; exact Hx).
    rewrite He. change (stat (set_qu s q') u) with (stat s u).
    destruct (N.eqb (stat s u) stS) eqn:E.
    + cbv zeta. change (stat (set_qu s q')) with (stat s).
      assert (Hug : In u (gnodes g)) by (apply (HF e None u); auto).
      destruct (Hinf None u qa' qb Eq' HA' HB Hug) as [Hc' [qb' [E' HB'']]].
      split; [exact Hc'|]. exists qa', qb', [], ((qt e, u, stI) :: A). split; [exact E'|]. split; [reflexivity|].
      split; [exact HA'|]. split; [exact HB''|]. split; [|split; [constructor|right; reflexivity]].
      constructor; [|exact FA]. unfold isinit, is_inf. cbn [ev_s ev_u fst snd].
      destruct (i_qjust _ _ _ _ _ _ _ _ _ HI e None u Hin_e He) as [_ [Hui _]].
      apply mem_In in Hui. rewrite Hui. reflexivity.
    + split; [exact Hc|]. exists qa', qb, [], A. cbn [set_qu qu].
      split; [exact Eq'|]. split; [reflexivity|]. split; [exact HA'|]. split; [exact HB|].
      split; [exact FA|]. split; [constructor|right; reflexivity].
Qed.

End PH.

Lemma iniF_ctr : forall tb tmax tmin, ltmax tmax tmin -> forall l s,
  ctr (iniF tb tmax tmin l s) = (ctr s + length l)%nat /\
  forall x, In x (qu (iniF tb tmax tmin l s)) -> In x (qu s) \/ (ctr s <= qc x < ctr s + length l)%nat.
Proof.
  intros tb tmax tmin Htmin l. induction l as [|a l IH]; intros s.
  - cbn. split; [lia|auto].
  - unfold iniF. simpl fold_left. fold (iniF tb tmax tmin l (init_inf tb tmin tmax s a)).
    destruct (IH (init_inf tb tmin tmax s a)) as [H1 H2].
    assert (Hc : ctr (init_inf tb tmin tmax s a) = S (ctr s)).
    { unfold init_inf, qadd. cbn [ctr]. unfold ltmax in Htmin. rewrite Htmin. reflexivity. }
    split; [rewrite H1, Hc; cbn [length]; lia|].
    intros x Hx. apply H2 in Hx. rewrite Hc in Hx. destruct Hx as [Hx|Hx]; [|right; cbn [length]; lia].
    apply init_inf_qu in Hx; [|exact Htmin]. destruct Hx as [Hx| ->]; [left; exact Hx|right; cbn [qc length]; lia].
Qed.

Section FifoRun.
Variable tb : tiepolicy.
Variable g : graph.
Variable tmax : xtime.
Variable delay : node -> node -> xtime.
Variable dur : node -> xtime.
Variable tmin : Q.
Variables i0 r0 : list node.

Hypothesis Hdelay : forall u v d, In u (gnodes g) -> In v (gadj g u) -> delay u v = Some d -> 0 <= d.
Hypothesis Hdur : forall u d, In u (gnodes g) -> dur u = Some d -> 0 <= d.
Hypothesis Hadj : forall u, In u (gnodes g) -> NoDup (gadj g u).
Hypothesis Hdisj : forall u, In u i0 -> ~ In u r0.
Hypothesis Htmin : ltmax tmax tmin.
Hypothesis Hgn : NoDup (gnodes g).
Hypothesis Hi0g : forall u, In u i0 -> In u (gnodes g).
Hypothesis Hadjg : forall u v, In u (gnodes g) -> In v (gadj g u) -> In v (gnodes g).
Hypothesis Hr0nd : NoDup r0.
Hypothesis Hr0g : forall u, In u r0 -> In u (gnodes g).
Hypothesis Hi0nd : NoDup i0.
Hypothesis Htb : init_first (length i0) tb.

Notation INV := (Inv g tmax delay dur tmin i0 r0).
Notation XINV := (XI g tmax tmin i0 r0).
Notation PHI := (PH tmin i0).

Lemma init_ph : PHI [] (init_state tb g tmin tmax i0 r0).
Proof.
  unfold init_state. set (s0 := mkE _ _ _ _ _ _ _ _). fold (iniF tb tmax tmin i0 s0).
  destruct (iniF_spec tb tmax tmin Htmin i0 s0) as [_ [_ [_ [_ [_ [_ [H7 _]]]]]]].
  destruct (iniF_ctr tb tmax tmin Htmin i0 s0) as [C1 C2].
  split; [rewrite C1; cbn; lia|].
  exists (qu (iniF tb tmax tmin i0 s0)), [], [], [].
  split; [rewrite app_nil_r; reflexivity|]. split; [reflexivity|]. split.
  - intros x Hx. destruct (H7 x Hx) as [[]|[Ht [u [_ Hq]]]]. destruct (C2 x Hx) as [[]|Hc]. cbn [ctr s0] in Hc.
    split; [lia|]. split; [exact Ht|]. exists u. exact Hq.
  - split; [intros x []|]. split; [constructor|]. split; [constructor|right; reflexivity].
Qed.

(* the run under an [init_first] policy: all three invariants and the phase invariant *)
Theorem esir_xrun_fifo : forall fuel, (esir_fuel g i0 <= fuel)%nat ->
  exists sF cF evs,
    loop_log tb g tmax delay dur fuel (init_state tb g tmin tmax i0 r0) [] = Ok (sF, evs) /\
    esir_run tb g delay dur i0 r0 tmin tmax fuel = Ok sF /\
    qu sF = [] /\ INV cF sF /\ Inv2 tmin r0 sF /\ XINV cF evs sF /\ PHI evs sF.
Proof.
  intros fuel Hf.
  destruct (loop_ghost tb g tmax delay dur tmin i0 r0 Hdelay Hdur Hadj Htmin Hgn Hadjg
              (fun c evs s => Inv2 tmin r0 s /\ XINV c evs s /\ PHI evs s)) with
      (fuel := fuel) (s := init_state tb g tmin tmax i0 r0) (c := tmin) (evs := @nil event)
    as [sF [cF [evs [HL [HD [Hq [HI [H2 [HX HP]]]]]]]]].
  - intros c s e q' evs HI HF [H2 [HX HP]] Hq. split; [|split].
    + assert (Hg : forall src v, qe e = ETrans src v -> In v (gnodes g)).
      { intros src v He. apply (HF e src v); auto. rewrite Hq. left. auto. }
      apply (step2 tb g tmax delay dur tmin i0 r0 Hadj c s e q' HI H2 Hq Hg).
    + apply (xstep tb g tmax delay dur tmin i0 r0 Hdelay Hadj Hgn (row00_census g tmin r0 Hgn Hr0nd Hr0g) c s e q' evs HI HF HX Hq).
    + apply (ph_step tb g tmax delay dur tmin i0 r0 Hdelay Hdur Htb c s e q' evs HI HF HX HP Hq).
  - apply (init_inv tb g tmax delay dur tmin i0 r0 Hdisj Htmin).
  - apply (init_fuel_inv tb g tmax tmin i0 r0 Htmin Hi0g).
  - pose proof (init_phi tb g tmax tmin i0 r0 Htmin). lia.
  - split; [apply (init2 tb g tmax tmin i0 r0 Hdisj Htmin)|]. split; [apply (init_xinv tb g tmax tmin i0 r0 Htmin)|apply init_ph].
  - exists sF, cF, evs. unfold esir_run. auto 10.
Qed.

(* at the end: the phase split gives the start from the requested statuses *)
Lemma start_fifo : forall sF cF evs, INV cF sF -> XINV cF evs sF -> qu sF = [] -> PHI evs sF ->
  starts_ok tmin i0 evs.
Proof.
  intros sF cF evs HI HX Hq [_ [qa [qb [B [A [_ [Ee [_ [_ [FA [FB _]]]]]]]]]]].
  pose proof (x_lock _ _ _ _ _ _ _ _ HX) as HL.
  rewrite Forall_forall in FA, FB.
  assert (HAinf : forall e, In e A -> ev_s e = stI /\ In (ev_u e) i0).
  { intros e He. specialize (FA e He). unfold isinit, is_inf in FA. apply andb_prop in FA. destruct FA as [F1 F2].
    apply N.eqb_eq in F1. apply mem_In in F2. auto. }
  apply (perm_of_len tmin i0 Hi0nd evs B A Ee).
  - intros u Hu. pose proof (fin_i0_ev g tmax delay dur tmin i0 r0 Htmin sF cF evs HI HX Hq u Hu) as Hev.
    rewrite Ee in Hev. apply in_app_or in Hev. destruct Hev as [Hev|Hev]; [|exact Hev].
    exfalso. specialize (FB _ Hev). unfold isinit, is_inf in FB. cbn [ev_s ev_u fst snd] in FB.
    apply mem_In in Hu. rewrite Hu in FB. discriminate FB.
  - destruct (elock_tx g tmax (st00 r0) (row00 g tmin r0) _ _ _ _ HL) as [Etx _].
    assert (HAf : filter is_inf A = A).
    { clear -HAinf. induction A as [|e A' IH]; [reflexivity|]. cbn [filter]. unfold is_inf at 1.
      destruct (HAinf e (or_introl eq_refl)) as [Hs _]. rewrite Hs. cbn. f_equal. apply IH. intros x Hx. apply HAinf. right. exact Hx. }
    assert (HndA : NoDup (map ev_u A)).
    { pose proof (i_nodup _ _ _ _ _ _ _ _ _ HI) as Hnd.
      assert (Hm : map ev_u (filter is_inf evs) = map snd (tlog sF)).
      { rewrite <- Etx, map_map. apply map_ext. intros [[t s] v]. reflexivity. }
      rewrite <- Hm, Ee, filter_app, HAf, map_app in Hnd. apply NoDup_app_r in Hnd. exact Hnd. }
    rewrite <- (map_length ev_u A). apply NoDup_incl_length; [exact HndA|].
    intros u Hu. apply in_map_iff in Hu. destruct Hu as [e [<- He]]. apply (HAinf e He).
Qed.

End FifoRun.

(* C04, first row, for the code's tie policy (and every [init_first] one): no condition on
   delays or durations beyond the domain *)
Theorem esir_rows_start_fifo : forall tb g delay dur i0 r0 tmin tmax full fuel,
  init_first (length i0) tb ->
  esir_okb2 g delay dur i0 r0 tmin tmax = true -> (esir_fuel g i0 <= fuel)%nat ->
  exists evs out cs,
    esir_log tb g delay dur i0 r0 tmin tmax fuel = Ok evs /\
    esir_det tb g delay dur i0 r0 tmin tmax full fuel = Ok (out, cs) /\
    Permutation (firstn (length i0) evs) (init_events tmin i0) /\
    so_rows out = log_arrays (gnodes g) sir_ps tmin (esir_init i0 r0) (skipn (length i0) evs) /\
    exists rest, so_rows out =
      (tmin, [order g - Z.of_nat (length i0) - Z.of_nat (length r0); Z.of_nat (length i0); Z.of_nat (length r0)]%Z) :: rest.
Proof.
  intros tb g delay dur i0 r0 tmin tmax full fuel Htb Hok Hf.
  destruct (okb2_parts _ _ _ _ _ _ _ Hok) as [Hok1 [Hi [Hr Hrg]]].
  destruct (okb_parts g delay dur i0 r0 tmin tmax Hok1) as [H1 [H3 [H4 [H5 [H6 [H7 [H8 H9]]]]]]].
  destruct (esir_xrun_fifo tb g tmax delay dur tmin i0 r0 H6 H5 H3 H8 H9 H1 H7 H4 Hr Hrg Htb fuel Hf)
    as [sF [cF [evs [HL [HR [Hq [HI [H2 [HX HP]]]]]]]]].
  destruct (fin_finish g tmax delay dur tmin i0 r0 sF cF HI H2 full) as [hs [Hfin _]].
  exists (rev evs). eexists. eexists.
  split; [apply (esir_log_of _ _ _ _ _ _ _ _ _ _ _ HL)|].
  split; [unfold esir_det; rewrite HR; cbn [rbind]; exact Hfin|]. cbn [so_rows].
  destruct (start_fifo g tmax delay dur tmin i0 r0 H9 Hi sF cF evs HI HX Hq HP) as [LA [LB [E HPm]]].
  destruct (start_rows g tmax tmin i0 r0 H8 H1 Hr Hrg sF cF evs HX LA LB E HPm) as [Hlen [Hrows _]].
  rewrite E, <- Hlen, firstn_len_app, skipn_len_app. split; [exact HPm|]. rewrite Hlen. split; [exact Hrows|].
  rewrite Hrows. unfold log_arrays. rewrite (esir_init_census g i0 r0 H1 Hi Hr H7 Hrg H8). eexists. reflexivity.
Qed.
