(* Event-driven SIR, cross-cutting properties, part 9 (C10): every full-data run passes the
   decidable consistency checker of Model/Investigation.v ([consistent_b]: histories start at
   tmin, are time-ordered, use possible statuses and legal moves only; summary succeeds and
   defines the same step function as the arrays) — the checker the C10 harness applies to the
   implementation's outputs.  Ties included, every tie policy. *)
From EoNV Require Import Prelude Samp Graph EventSIR EventSIRP EventSIRInv EventSIRMain EventSIRChar EventSIRTop EventSIRPred.
From EoNV Require Import Investigation InvestigationP EventSIRLog EventSIRRows EventSIRTraj EventSIRC04 EventSIRC09 EventSIRC10 EventSIRHist EventSIRC10m.
From EoNV Require Gillespie GillespieP.
From Coq Require Import Sorting.Sorted.
Require Import Lqa.

Definition sir_moves : list (N * N) := [(stS, stI); (stI, stR)].

Lemma step_at_split : forall (a : list row) (r : row) (b : list row) t cur,
  (forall x, In x a -> fst x <= t) -> fst r <= t -> (forall x, In x b -> t < fst x) ->
  step_at (a ++ r :: b) t cur = Some (snd r).
Proof.
  induction a as [|[tx cx] a IH]; intros r b t cur Ha Hr Hb.
  - destruct r as [t' cs]. cbn [app step_at fst snd] in *. rewrite (proj2 (qleb_t t' t) Hr). apply step_at_later. exact Hb.
  - cbn [app step_at]. rewrite (proj2 (qleb_t tx t) (Ha (tx, cx) (or_introl eq_refl))).
    apply IH; auto. intros x Hx. apply Ha. right. exact Hx.
Qed.

Lemma step_at_qeq : forall (rows : list row) t t' cur, t == t' -> step_at rows t cur = step_at rows t' cur.
Proof.
  induction rows as [|[tx cx] rows IH]; intros t t' cur E; [reflexivity|]. cbn [step_at].
  assert (Hq : Qleb tx t = Qleb tx t').
  { destruct (Qleb tx t') eqn:E1.
    - apply qleb_t. apply qleb_t in E1. lra.
    - apply qleb_f. apply qleb_f in E1. lra. }
  rewrite Hq. destruct (Qleb tx t'); apply IH; exact E.
Qed.

Lemma zlist_eqb_refl : forall a, zlist_eqb a a = true.
Proof. induction a as [|x a IH]; [reflexivity|]. cbn. rewrite Z.eqb_refl. exact IH. Qed.

Lemma adjacent_le : forall (a : list row) (r : row) (b : list row),
  (forall (l1 : list row) (x y : row) (l2 : list row), a ++ r :: b = l1 ++ x :: y :: l2 -> fst x <= fst y) ->
  forall x, In x a -> fst x <= fst r.
Proof.
  induction a as [|x0 a IH]; intros r b H x Hx; [destruct Hx|].
  assert (Htail : forall (l1 : list row) (x y : row) (l2 : list row), a ++ r :: b = l1 ++ x :: y :: l2 -> fst x <= fst y).
  { intros l1 x1 y1 l2 E. apply (H (x0 :: l1) x1 y1 l2). cbn [app]. rewrite E. reflexivity. }
  destruct Hx as [<-|Hx]; [|apply (IH r b Htail x Hx)].
  destruct a as [|y a'].
  - apply (H [] x0 r b). reflexivity.
  - pose proof (H [] x0 y (a' ++ r :: b) eq_refl) as H1.
    pose proof (IH r b Htail y (or_introl eq_refl)) as H2. lra.
Qed.

Lemma first_bad_hist_all : forall iv ps mv tmin l,
  (forall u, In u l -> exists h, hist_of iv u = Ok h /\ good_histb ps mv tmin h = true) ->
  first_bad_hist iv ps mv tmin l = None.
Proof.
  intros iv ps mv tmin l. induction l as [|u l IH]; intros H; [reflexivity|]. cbn [first_bad_hist].
  destruct (H u (or_introl eq_refl)) as [h [Eh G]]. rewrite Eh, G. apply IH. intros v Hv. apply H. right. exact Hv.
Qed.

Lemma find_none_all : forall A (f : A -> bool) l, (forall x, In x l -> f x = false) -> find f l = None.
Proof.
  intros A f l. induction l as [|a l IH]; intros H; [reflexivity|]. cbn [find].
  rewrite (H a (or_introl eq_refl)). apply IH. intros x Hx. apply H. right. exact Hx.
Qed.

Section Consistent.
Variable g : graph.
Variable tmax : xtime.
Variable delay : node -> node -> xtime.
Variable dur : node -> xtime.
Variable tmin : Q.
Variables i0 r0 : list node.

Hypothesis Htmin : ltmax tmax tmin.
Hypothesis Hgn : NoDup (gnodes g).
Hypothesis Hr0nd : NoDup r0.
Hypothesis Hr0g : forall u, In u r0 -> In u (gnodes g).
Hypothesis Hi0nd : NoDup i0.

Variables (sF : est) (cF : Q) (evs : list event).
Hypothesis HI : Inv g tmax delay dur tmin i0 r0 cF sF.
Hypothesis HX : XI g tmax tmin i0 r0 cF evs sF.
Hypothesis Hq : qu sF = [].

Notation HOF := (Hof tmin r0 evs).
Notation IV := (iv g tmin r0 evs).

Lemma Hof_legal : forall u, legalb sir_moves (HOF u) = true.
Proof.
  intros u. unfold Hof. rewrite <- filter_rev.
  pose proof (elock_chain g tmax (st00 r0) (row00 g tmin r0) _ _ _ _ (x_lock _ _ _ _ _ _ _ _ HX) (st00_not_I r0) u) as Hch.
  destruct Hch as [[A B]|[[A [B [t C]]]|[A [B [t [t' C]]]]]]; rewrite ?B, ?C; cbn [rev app]; unfold hist_of_chain; cbn [fold_left];
    unfold hstep, hist_step; cbn [ev_t ev_s fst snd]; rewrite ?A.
  - reflexivity.
  - destruct (Qeqb t tmin); reflexivity.
  - destruct (Qeqb t tmin); cbn [fst]; destruct (Qeqb t' tmin); reflexivity.
Qed.

Theorem final_consistent : gnodes g <> [] ->
  consistent_b IV (skipn (length i0) (rev (rows sF))) tmin sir_moves = true.
Proof.
  intros Hne.
  destruct (merged_rows g tmax delay dur tmin i0 r0 Htmin Hgn Hr0nd Hr0g Hi0nd sF cF evs HI HX Hq Hne)
    as [rows' [M1 [M2 [M3 M4]]]].
  set (arr := skipn (length i0) (rev (rows sF))) in *.
  assert (Hadj : forall (l1 : list row) (x y : row) (l2 : list row), arr = l1 ++ x :: y :: l2 -> fst x <= fst y).
  { intros l1 x y l2 E.
    pose proof (fin_out_traj g tmax delay dur tmin i0 r0 Htmin Hgn Hr0nd Hr0g Hi0nd sF cF evs HI HX Hq) as Ht.
    fold arr in Ht. destruct (GillespieP.traj_adjacent g Gillespie.SIR tmin tmax arr Ht l1 x y l2 E) as [A _]. exact A. }
  assert (Hstep : forall t cs, In (t, cs) rows' -> forall t', t == t' -> step_at arr t' None = Some cs).
  { intros t cs Hin t' Et. destruct (M3 t cs Hin) as [a [r [b [E [Hr [Hs Hb]]]]]]. rewrite E, <- Hs.
    apply step_at_split.
    - intros x Hx. rewrite E in Hadj. pose proof (adjacent_le a r b Hadj x Hx). lra.
    - lra.
    - intros x Hx. pose proof (Hb x Hx). lra. }
  unfold consistent_b, consistent. cbn [possible_statuses iv iv_ps iv_nodes].
  rewrite first_bad_hist_all.
  2:{ intros u Hu. exists (HOF u). split; [apply (iv_hist_of g tmin r0 evs u Hu)|].
      unfold good_histb. rewrite (Hof_wf g tmax tmin i0 r0 Hgn Hr0nd Hr0g sF cF evs HX u), (Hof_legal u). reflexivity. }
  change (summary (iv g tmin r0 evs) None) with (summary IV None). rewrite M1.
  unfold first_diff. rewrite find_none_all; [reflexivity|].
  intros t Ht. apply negb_false_iff. apply in_app_or in Ht. destruct Ht as [Ht|Ht].
  - apply in_map_iff in Ht. destruct Ht as [[t1 cs] [E Hin]]. cbn [fst] in E. subst t1.
    rewrite (step_at_row rows' t cs None M2 Hin), (Hstep t cs Hin t (Qeq_refl t)). cbn. apply zlist_eqb_refl.
  - apply in_map_iff in Ht. destruct Ht as [r [E Hin]]. subst t.
    destruct (M4 r Hin) as [t' [Ht' Et']]. apply in_map_iff in Ht'. destruct Ht' as [[t1 cs] [E Hin']]. cbn [fst] in E. subst t1.
    rewrite (step_at_qeq rows' (fst r) t' None (Qeq_sym _ _ Et')), (step_at_row rows' t' cs None M2 Hin'), (Hstep t' cs Hin' (fst r) Et').
    cbn. apply zlist_eqb_refl.
Qed.

End Consistent.

Theorem esir_outputs_consistent : forall tb g delay dur i0 r0 tmin tmax fuel,
  esir_okb2 g delay dur i0 r0 tmin tmax = true -> (esir_fuel g i0 <= fuel)%nat -> gnodes g <> [] ->
  exists out cs fd,
    esir_det tb g delay dur i0 r0 tmin tmax true fuel = Ok (out, cs) /\ so_full out = Some fd /\
    consistent_b (mkInv (gnodes g) (fd_hist fd) None (Some sir_ps)) (so_rows out) tmin sir_moves = true.
Proof.
  intros tb g delay dur i0 r0 tmin tmax fuel Hok Hf Hne.
  destruct (esir_final tb g delay dur i0 r0 tmin tmax fuel Hok Hf) as [sF [cF [evs [HL [HR [Hq [HI [H2 HX]]]]]]]].
  destruct (okb2_parts _ _ _ _ _ _ _ Hok) as [Hok1 [Hi [Hr Hrg]]].
  destruct (okb_parts g delay dur i0 r0 tmin tmax Hok1) as [H1 [H3 [H4 [H5 [H6 [H7 [H8 H9]]]]]]].
  destruct (fin_finish g tmax delay dur tmin i0 r0 sF cF HI H2 true) as [hs0 [Hfin Hhs]].
  eexists. eexists. eexists.
  split; [unfold esir_det; rewrite HR; cbn [rbind]; exact Hfin|]. cbn [so_full so_rows fd_hist]. split; [reflexivity|].
  assert (Ehs : hs0 = hs g tmin r0 evs).
  { specialize (Hhs eq_refl).
    rewrite (all_ok_map_eq _ _ _ (fun u => (u, Hof tmin r0 evs u))) in Hhs.
    - injection Hhs as Hhs. rewrite <- Hhs. reflexivity.
    - intros u _. rewrite (node_hist_chain g tmax tmin i0 r0 sF cF evs H2 HX u). reflexivity. }
  rewrite Ehs. apply (final_consistent g tmax delay dur tmin i0 r0 H9 H1 Hr Hrg Hi sF cF evs HI HX Hq Hne).
Qed.
