(* C05, Gillespie_simple_contagion and Gillespie_complex_contagion: whatever the draw
   script, a run that returns starts from the request: first row = (tmin, the census of IC
   over return_statuses), and with full data every node of the graph has a history whose
   first entry is (tmin, IC[node]).  An IC dict that misses a node of the graph is rejected
   with KeyError before any draw (and before any call of the user's functions). *)
From EoNV Require Import Prelude Samp Graph ListDict Gillespie Simple Complex InitChk SampP.

Lemma reach_lifts : forall A (r : result A) a, reach (lifts r) a -> r = Ok a.
Proof. intros A [x|e] a H; cbn [lifts] in H; inversion H; subst; reflexivity. Qed.

Lemma reach_expo_inv : forall A r (k : Q -> samp A) a, reach (Expo r k) a -> exists d, 0 <= d /\ reach (k d) a.
Proof. intros A r k a H. inversion H as [|? ? d ? Hr Hd Hk| | | | | |]; subst. exists d. split; assumption. Qed.
Lemma reach_fail_inv : forall A e (a : A), reach (Fail e) a -> False.
Proof. intros A e a H. inversion H. Qed.

Lemma zlist_eqb_refl : forall l, zlist_eqb l l = true.
Proof. induction l as [|x l IH]; cbn [zlist_eqb]; [reflexivity|]. rewrite Z.eqb_refl. exact IH. Qed.

Lemma zlist_eqb_eq : forall a b, zlist_eqb a b = true -> a = b.
Proof.
  induction a as [|x a IH]; intros [|y b] H; cbn [zlist_eqb] in H; try discriminate H; [reflexivity|].
  apply andb_true_iff in H. destruct H as [H1 H2]. apply Z.eqb_eq in H1. subst y. rewrite (IH b H2). reflexivity.
Qed.

Lemma hlook_map : forall (f : node -> history) l u, In u l -> hlook u (map (fun v => (v, f v)) l) = Some (f u).
Proof.
  intros f. induction l as [|v l IH]; intros u Hin; [destruct Hin|]. cbn [map hlook].
  destruct (N.eqb u v) eqn:E; [apply N.eqb_eq in E; subst v; reflexivity|].
  destruct Hin as [Hin|Hin]; [subst v; rewrite N.eqb_refl in E; discriminate E|apply IH; exact Hin].
Qed.

(* ================= simple contagion ================= *)
Section SimpleIC.
Variable g : graph.
Variable ic : node -> N.
Variable rstat : list N.
Variable tmin : Q.
Variable tmax : xtime.
Variable full : bool.

Lemma apply_event_rows : forall t sp tr actor s s',
  Simple.apply_event g rstat full t sp tr actor s = Ok s' -> exists r, s_rows s' = r :: s_rows s.
Proof.
  intros t sp tr actor s s' H. unfold Simple.apply_event in H.
  match type of H with rbind ?r _ = _ => destruct r as [[[[src m] old] new]|e] end; cbn [rbind] in H; [|discriminate H].
  destruct (rmap _ (s_sp s)) as [sp'|e]; cbn [rbind] in H; [|discriminate H].
  destruct (rmap _ (s_in s)) as [in'|e]; cbn [rbind] in H; [|discriminate H].
  injection H as <-. cbn [s_rows]. eexists. reflexivity.
Qed.

Lemma jump_rows : forall t s s', reach (Simple.jump g rstat full t s) s' -> exists r, s_rows s' = r :: s_rows s.
Proof.
  intros t s s' H. unfold Simple.jump in H. apply reach_bind in H. destruct H as [ia [_ H]].
  apply reach_lifts in H. unfold fire in H. destruct (nth_error _ (fst ia)) as [sl|]; [|discriminate H].
  eapply apply_event_rows. exact H.
Qed.

(* what the output says about the start, in terms of the state the loop ends in *)
Definition starts_ok (first : row) (out : simout) : Prop :=
  (exists rest, so_rows out = first :: rest) /\
  (full = false -> so_full out = None) /\
  (full = true -> exists fd, so_full out = Some fd /\ map fst (fd_hist fd) = gnodes g /\
     forall u, In u (gnodes g) -> exists rest, hlook u (fd_hist fd) = Some ((tmin, ic u) :: rest)).

Lemma finish_starts : forall first s out, (exists pre, rev (s_rows s) = first :: pre) ->
  finish g ic rstat tmin full s = Ok out -> starts_ok first out.
Proof.
  intros first s out [pre Hpre] H. unfold finish in H. unfold starts_ok. destruct full.
  - destruct (si_constructor rstat _) as [uu|e]; cbn [rbind] in H; [|discriminate H]. injection H as <-.
    cbn [so_rows so_full]. split; [exists pre; exact Hpre|]. split; [intro E; discriminate E|]. intros _.
    eexists. split; [reflexivity|]. cbn [fd_hist]. unfold histories. split.
    + rewrite map_map. cbn [fst]. apply map_id.
    + intros u Hu. eexists.
      exact (hlook_map (fun v => (tmin, ic v) :: node_events v (rev (s_elog s))) (gnodes g) u Hu).
  - injection H as <-. cbn [so_rows so_full]. split; [exists pre; exact Hpre|]. split; [reflexivity|]. intro E; discriminate E.
Qed.

Lemma loop_starts : forall first fuel t s out, (exists pre, rev (s_rows s) = first :: pre) ->
  reach (loop g ic rstat tmin tmax full fuel t s) out -> starts_ok first out.
Proof.
  intros first. induction fuel as [|f IH]; intros t s out Hpre H; cbn [loop] in H;
    (destruct (Qltb 0 (total_rate s)); [|apply reach_lifts in H; eapply finish_starts; eassumption]);
    apply reach_expo_inv in H; destruct H as [d [Hd Hk]];
    (destruct (xlt (t + d) tmax); [|apply reach_lifts in Hk; eapply finish_starts; eassumption]).
  - apply reach_fail_inv in Hk. contradiction.
  - apply reach_bind in Hk. destruct Hk as [s' [Hj Hl]]. apply jump_rows in Hj. destruct Hj as [r Hr'].
    eapply IH; [|exact Hl]. destruct Hpre as [pre Hpre]. rewrite Hr'. cbn [rev]. rewrite Hpre. exists (pre ++ [r]). reflexivity.
Qed.

End SimpleIC.

(* every run that returns starts from the request, for every script *)
Theorem simple_starts_as_requested : forall g sortable spont induced ic rstat tmin tmax full fuel ds out tr,
  exec (simple g sortable spont induced ic rstat tmin tmax full fuel) ds [] = (Ok out, tr) ->
  starts_ok g ic tmin full (tmin, map (Simple.count_status g ic) rstat) out.
Proof.
  intros g sortable spont induced ic rstat tmin tmax full fuel ds out tr H. apply exec_reach in H.
  unfold simple in H. destruct (rbind _ _) as [[sp inn]|e]; [|inversion H].
  eapply loop_starts; [|exact H]. cbn [s_rows rev app]. exists []. reflexivity.
Qed.

Lemma count_status_req : forall g ic rstat, map (Simple.count_status g ic) rstat = req_counts (gnodes g) ic rstat.
Proof. intros. reflexivity. Qed.

(* ... and is accepted by the extracted checker *)
Theorem simple_passes_checker : forall g sortable spont induced ic rstat tmin tmax full fuel ds out tr,
  exec (simple g sortable spont induced ic rstat tmin tmax full fuel) ds [] = (Ok out, tr) ->
  ic_genb (gnodes g) ic rstat tmin (so_rows out) (option_map fd_hist (so_full out)) = true.
Proof.
  intros g sortable spont induced ic rstat tmin tmax full fuel ds out tr H.
  destruct (simple_starts_as_requested _ _ _ _ _ _ _ _ _ _ _ _ _ H) as [[rest Hr] [Hp Hf]].
  unfold ic_genb. rewrite Hr. unfold Qeqb. rewrite (proj2 (Qeq_bool_iff tmin tmin) (Qeq_refl tmin)).
  rewrite count_status_req, zlist_eqb_refl. cbn [andb]. destruct full.
  - destruct (Hf eq_refl) as [fd [Hfd [_ Hh]]]. rewrite Hfd. cbn [option_map]. apply forallb_forall. intros u Hu.
    destruct (Hh u Hu) as [rest' Hl]. rewrite Hl. rewrite (proj2 (Qeq_bool_iff tmin tmin) (Qeq_refl tmin)), N.eqb_refl. reflexivity.
  - rewrite (Hp eq_refl). reflexivity.
Qed.

(* the IC dict: every node of the graph listed -> the run from those statuses; a node
   missing -> KeyError, no draw is made *)
Theorem simple_dict_honoured : forall g sortable spont induced icd rstat tmin tmax full fuel,
  (ic_covers g icd = true ->
     (forall u, In u (gnodes g) -> icd u = Some (ic_total icd u)) /\
     simple_dict g sortable spont induced icd rstat tmin tmax full fuel =
     simple g sortable spont induced (ic_total icd) rstat tmin tmax full fuel) /\
  (ic_covers g icd = false ->
     (exists u, In u (gnodes g) /\ icd u = None) /\
     forall ds, exec (simple_dict g sortable spont induced icd rstat tmin tmax full fuel) ds [] = (Err KeyErr, [])).
Proof.
  intros g sortable spont induced icd rstat tmin tmax full fuel. unfold simple_dict. split; intro H; rewrite H.
  - split; [|reflexivity]. intros u Hu. unfold ic_covers in H. rewrite forallb_forall in H. specialize (H u Hu).
    unfold ic_total. destruct (icd u); [reflexivity|discriminate H].
  - split; [|reflexivity]. unfold ic_covers in H.
    destruct (existsb (fun u => negb match icd u with Some _ => true | None => false end) (gnodes g)) eqn:E.
    + apply existsb_exists in E. destruct E as [u [Hu E]]. exists u. split; [exact Hu|]. destruct (icd u); [discriminate E|reflexivity].
    + exfalso. assert (forallb (fun u => match icd u with Some _ => true | None => false end) (gnodes g) = true); [|congruence].
      apply forallb_forall. intros u Hu. destruct (icd u) eqn:Ei; [reflexivity|].
      assert (existsb (fun u => negb match icd u with Some _ => true | None => false end) (gnodes g) = true); [|congruence].
      apply existsb_exists. exists u. split; [exact Hu|]. rewrite Ei. reflexivity.
Qed.

(* ================= complex contagion ================= *)
Section ComplexIC.
Variable g : graph.
Variable rate : smap -> node -> Q.
Variable choice : smap -> node -> N.
Variable infl : smap -> node -> list node.
Variable rstats : list N.
Variable tmin : Q.
Variable tmax : xtime.
Variable full : bool.

Lemma capply_event_rows : forall t u s s',
  Complex.apply_event g rate choice infl rstats full t u s = Ok s' -> exists r, crows s' = r :: crows s.
Proof.
  intros t u s s' H. unfold Complex.apply_event in H.
  destruct (Complex.refresh g rate _ _ u) as [lc1|e]; cbn [rbind] in H; [|discriminate H].
  destruct (fold_left _ _ _) as [lc2|e]; cbn [rbind] in H; [|discriminate H].
  injection H as <-. cbn [crows]. eexists. reflexivity.
Qed.

Definition cstarts_ok (st0 : smap) (first : row) (o : cout) : Prop :=
  (exists rest, so_rows (fst o) = first :: rest) /\
  (full = false -> so_full (fst o) = None) /\
  (full = true -> exists fd, so_full (fst o) = Some fd /\ map fst (fd_hist fd) = gnodes g /\ fd_trans fd = [] /\
     forall u, In u (gnodes g) -> exists rest, hlook u (fd_hist fd) = Some ((tmin, st0 u) :: rest)).

Lemma cfinish_starts : forall st0 first s o, (exists pre, rev (crows s) = first :: pre) ->
  reach (cfinish g rstats tmin full st0 s) o -> cstarts_ok st0 first o.
Proof.
  intros st0 first s o [pre Hpre] H. unfold cfinish in H. unfold cstarts_ok. destruct full.
  - destruct (full_check g rstats st0 _) as [uu|e]; [|inversion H]. inversion H; subst. cbn [fst so_rows so_full].
    split; [exists pre; exact Hpre|]. split; [intro E; discriminate E|]. intros _.
    eexists. split; [reflexivity|]. cbn [fd_hist fd_trans]. split; [rewrite map_map; cbn [fst]; apply map_id|]. split; [reflexivity|].
    intros u Hu. eexists. exact (hlook_map (fun v => (tmin, st0 v) :: node_events v (rev (celog s))) (gnodes g) u Hu).
  - inversion H; subst. cbn [fst so_rows so_full]. split; [exists pre; exact Hpre|]. split; [reflexivity|]. intro E; discriminate E.
Qed.

Lemma cloop_starts : forall st0 first fuel t s o, (exists pre, rev (crows s) = first :: pre) ->
  reach (cloop g rate choice infl rstats tmin tmax full st0 fuel t s) o -> cstarts_ok st0 first o.
Proof.
  intros st0 first. induction fuel as [|f IH]; intros t s o Hpre H; cbn [cloop] in H;
    (destruct (Qltb 0 (ld_total_weight key (cnbr s))); [|eapply cfinish_starts; eassumption]);
    apply reach_expo_inv in H; destruct H as [d [Hd Hk]];
    (destruct (xlt (t + d) tmax); [|eapply cfinish_starts; eassumption]).
  - apply reach_fail_inv in Hk. contradiction.
  - unfold event in Hk. apply reach_bind in Hk. destruct Hk as [un [_ Hl]].
    destruct (Complex.apply_event g rate choice infl rstats full (t + d) (fst un) s) as [s'|e] eqn:Ea; cbn [liftc] in Hl; [|inversion Hl].
    apply capply_event_rows in Ea. destruct Ea as [r Hr'].
    eapply IH; [|exact Hl]. destruct Hpre as [pre Hpre]. rewrite Hr'. cbn [rev]. rewrite Hpre. exists (pre ++ [r]). reflexivity.
Qed.

End ComplexIC.

(* every run that returns: IC listed every node of the graph, and the run starts from it *)
Theorem complex_starts_as_requested : forall g rate choice infl rstats tmin tmax full ic fuel ds o tr,
  exec (complex g rate choice infl rstats tmin tmax full ic fuel) ds [] = (Ok o, tr) ->
  (forall u, In u (gnodes g) -> ic u = Some (ic_total ic u)) /\
  cstarts_ok g tmin full (ic_total ic) (tmin, counts g rstats (ic_total ic)) o.
Proof.
  intros g rate choice infl rstats tmin tmax full ic fuel ds o tr H. apply exec_reach in H.
  unfold complex in H. destruct (forallb _ (gnodes g)) eqn:Hc; [|inversion H]. split.
  - intros u Hu. rewrite forallb_forall in Hc. specialize (Hc u Hu). unfold ic_total. destruct (ic u); [reflexivity|discriminate Hc].
  - change (fun u => match ic u with Some s => s | None => 0%N end) with (ic_total ic) in H.
    destruct (fill g rate (ic_total ic)) as [lc|e]; cbn [liftc] in H; [|inversion H].
    eapply cloop_starts; [|exact H]. cbn [crows rev app]. exists []. reflexivity.
Qed.

Theorem complex_passes_checker : forall g rate choice infl rstats tmin tmax full ic fuel ds o tr,
  exec (complex g rate choice infl rstats tmin tmax full ic fuel) ds [] = (Ok o, tr) ->
  ic_genb (gnodes g) (ic_total ic) rstats tmin (so_rows (fst o)) (option_map fd_hist (so_full (fst o))) = true.
Proof.
  intros g rate choice infl rstats tmin tmax full ic fuel ds o tr H.
  destruct (complex_starts_as_requested _ _ _ _ _ _ _ _ _ _ _ _ _ H) as [_ [[rest Hr] [Hp Hf]]].
  unfold ic_genb. rewrite Hr. unfold Qeqb. rewrite (proj2 (Qeq_bool_iff tmin tmin) (Qeq_refl tmin)).
  change (counts g rstats (ic_total ic)) with (req_counts (gnodes g) (ic_total ic) rstats).
  rewrite zlist_eqb_refl. cbn [andb]. destruct full.
  - destruct (Hf eq_refl) as [fd [Hfd [_ [_ Hh]]]]. rewrite Hfd. cbn [option_map]. apply forallb_forall. intros u Hu.
    destruct (Hh u Hu) as [rest' Hl]. rewrite Hl. rewrite (proj2 (Qeq_bool_iff tmin tmin) (Qeq_refl tmin)), N.eqb_refl. reflexivity.
  - rewrite (Hp eq_refl). reflexivity.
Qed.

(* a node of the graph that IC does not list: KeyError; no draw, no call of a user function *)
Theorem complex_missing_ic_rejected : forall g rate choice infl rstats tmin tmax full ic fuel u ds,
  In u (gnodes g) -> ic u = None ->
  exec (complex g rate choice infl rstats tmin tmax full ic fuel) ds [] = (Err KeyErr, []).
Proof.
  intros g rate choice infl rstats tmin tmax full ic fuel u ds Hu Hn. unfold complex.
  destruct (forallb _ (gnodes g)) eqn:Hc; [|reflexivity].
  rewrite forallb_forall in Hc. specialize (Hc u Hu). rewrite Hn in Hc. discriminate Hc.
Qed.

(* what the checker's acceptance means *)
Theorem ic_genb_sound : forall nodes req rstat tmin rows hist,
  ic_genb nodes req rstat tmin rows hist = true ->
  (exists t rest, rows = (t, req_counts nodes req rstat) :: rest /\ t == tmin) /\
  (forall hs, hist = Some hs -> forall u, In u nodes ->
     exists t rest, hlook u hs = Some ((t, req u) :: rest) /\ t == tmin).
Proof.
  intros nodes req rstat tmin rows hist H. unfold ic_genb in H. apply andb_true_iff in H. destruct H as [H1 H2]. split.
  - destruct rows as [|[t c] rest]; [discriminate H1|]. apply andb_true_iff in H1. destruct H1 as [Ht Hc].
    apply zlist_eqb_eq in Hc. subst c. exists t, rest. split; [reflexivity|]. apply Qeq_bool_iff. exact Ht.
  - intros hs E u Hu. subst hist. rewrite forallb_forall in H2. specialize (H2 u Hu).
    destruct (hlook u hs) as [[|[t s] rest]|]; try discriminate H2. apply andb_true_iff in H2. destruct H2 as [Ht Hs].
    apply N.eqb_eq in Hs. subst s. exists t, rest. split; [reflexivity|]. apply Qeq_bool_iff. exact Ht.
Qed.
