(* Reproducibility at model level (C18): a sampler program is a FUNCTION of its
   draw script; and two programs that make the same calls with the same
   arguments and whose continuations stay related consume the same draws and
   produce related results.  Instantiated: Gillespie_SIR/SIS with and without
   return_full_data draw the same numbers and return the same arrays. *)
From EoNV Require Import Prelude Samp Graph ListDict ListDictP Gillespie.

Inductive simrel {A B} (R : A -> B -> Prop) : samp A -> samp B -> Prop :=
| sr_ret : forall a b, R a b -> simrel R (Ret a) (Ret b)
| sr_fail : forall e, simrel R (Fail e) (Fail e)
| sr_expo : forall r k1 k2, (forall d, simrel R (k1 d) (k2 d)) -> simrel R (Expo r k1) (Expo r k2)
| sr_flip : forall p a1 b1 a2 b2, simrel R a1 a2 -> simrel R b1 b2 -> simrel R (Flip p a1 b1) (Flip p a2 b2)
| sr_casc : forall ps k1 k2, (forall i, simrel R (k1 i) (k2 i)) -> simrel R (Casc ps k1) (Casc ps k2)
| sr_choose : forall w c k1 k2, (forall x, simrel R (k1 x) (k2 x)) -> simrel R (Choose w c k1) (Choose w c k2)
| sr_unif : forall c k1 k2, (forall x, simrel R (k1 x) (k2 x)) -> simrel R (Unif c k1) (Unif c k2)
| sr_sample : forall pop n k1 k2, (forall l, simrel R (k1 l) (k2 l)) -> simrel R (Sample pop n k1) (Sample pop n k2).

Definition rel_result {A B} (R : A -> B -> Prop) (r1 : result A) (r2 : result B) : Prop :=
  match r1, r2 with Ok a, Ok b => R a b | Err e1, Err e2 => e1 = e2 | _, _ => False end.

(* same script => same calls (the whole trace is equal) and related results *)
Theorem simrel_exec : forall A B (R : A -> B -> Prop) m1 m2, simrel R m1 m2 ->
  forall ds tr, snd (exec m1 ds tr) = snd (exec m2 ds tr) /\
                rel_result R (fst (exec m1 ds tr)) (fst (exec m2 ds tr)).
Proof.
  intros A B R m1 m2 H. induction H as [a b Hab|e|r k1 k2 Hk IH|p a1 b1 a2 b2 Ha IHa Hb IHb|ps k1 k2 Hk IH
                                       |w c k1 k2 Hk IH|c k1 k2 Hk IH|pop n k1 k2 Hk IH]; intros ds tr; cbn [exec].
  - split; [reflexivity|exact Hab].
  - split; reflexivity.
  - destruct (Qeqb r 0); [split; reflexivity|]. destruct ds as [|d ds']; [split; reflexivity|].
    destruct (Qltb d 0); [split; reflexivity|]. apply IH.
  - destruct ds as [|d ds']; [split; reflexivity|]. destruct (unit_draw d); [|split; reflexivity].
    destruct (Qltb d p); [apply IHa|apply IHb].
  - destruct ds as [|d ds']; [split; reflexivity|]. destruct (unit_draw d); [|split; reflexivity]. apply IH.
  - destruct (choose_exec w c ds tr) as [[[x|e] tr1] ds1]; [apply IH|split; reflexivity].
  - destruct c as [|c0 c']; [split; reflexivity|]. destruct ds as [|d ds']; [split; reflexivity|].
    destruct (nth_error (c0 :: c') (rank d)); [apply IH|split; reflexivity].
  - destruct (Nat.ltb (length pop) n); [split; reflexivity|]. destruct ds as [|d ds']; [split; reflexivity|]. apply IH.
Qed.

Lemma simrel_bind : forall A B A' B' (R : A -> B -> Prop) (R' : A' -> B' -> Prop) m1 m2 f1 f2,
  simrel R m1 m2 -> (forall a b, R a b -> simrel R' (f1 a) (f2 b)) -> simrel R' (bind m1 f1) (bind m2 f2).
Proof.
  intros A B A' B' R R' m1 m2 f1 f2 H Hf.
  induction H; cbn [bind]; try (constructor; auto; fail).
  apply Hf. assumption.
Qed.

(* ---------------- Gillespie: the full-data flag ---------------- *)
(* states that differ only in the logs kept for the full-data object *)
Definition same_core (s1 s2 : gst) : Prop :=
  stat s1 = stat s2 /\ infs s1 = infs s2 /\ links s1 = links s2 /\ rows s1 = rows s2.

Lemma liftr_simrel : forall (r1 r2 : result gst),
  rel_result same_core r1 r2 -> simrel same_core (liftr r1) (liftr r2).
Proof.
  intros [a|e1] [b|e2] H; cbn in H; try contradiction; cbn [liftr].
  - constructor. exact H.
  - subst e2. constructor.
Qed.

Lemma simrel_match_kind : forall (A B : Type) (R : A -> B -> Prop) (k : model_kind) (a b : samp A) (a' b' : samp B),
  simrel R a a' -> simrel R b b' ->
  simrel R (match k with SIR => a | SIS => b end) (match k with SIR => a' | SIS => b' end).
Proof. intros A B R k a b a' b' Ha Hb. destruct k; assumption. Qed.

Section Flag.
Variable g : graph.
Variable kind : model_kind.

Lemma rbind_rel : forall (A : Type) (r : result A) (f1 f2 : A -> result gst),
  (forall a, rel_result same_core (f1 a) (f2 a)) -> rel_result same_core (rbind r f1) (rbind r f2).
Proof. intros A [a|e] f1 f2 H; cbn [rbind]; [apply H|reflexivity]. Qed.

Lemma sir_recover_flag : forall f1 f2 t u s1 s2, same_core s1 s2 ->
  rel_result same_core (sir_recover g f1 t u s1) (sir_recover g f2 t u s2).
Proof.
  intros f1 f2 t u s1 s2 [H1 [H2 [H3 H4]]]. unfold sir_recover, push_row. rewrite H1, H2, H3, H4.
  destruct (kl_remove (infs s2) (knode u)) as [i'|e]; cbn [rbind]; [|reflexivity].
  match goal with |- context [fold_left ?f ?l ?a] => destruct (fold_left f l a) as [l'|e] end; cbn [rbind rel_result]; [|reflexivity].
  repeat split.
Qed.

Lemma sis_recover_flag : forall f1 f2 t u s1 s2, same_core s1 s2 ->
  rel_result same_core (sis_recover g f1 t u s1) (sis_recover g f2 t u s2).
Proof.
  intros f1 f2 t u s1 s2 [H1 [H2 [H3 H4]]]. unfold sis_recover, push_row2. rewrite H1, H2, H3, H4.
  destruct (kl_remove (infs s2) (knode u)) as [i'|e]; cbn [rbind]; [|reflexivity].
  match goal with |- context [fold_left ?f ?l ?a] => destruct (fold_left f l a) as [l'|e] end; cbn [rbind rel_result]; [|reflexivity].
  repeat split.
Qed.

Lemma transmit_flag : forall f1 f2 t u v s1 s2, same_core s1 s2 ->
  rel_result same_core (transmit g kind f1 t u v s1) (transmit g kind f2 t u v s2).
Proof.
  intros f1 f2 t u v s1 s2 [H1 [H2 [H3 H4]]]. unfold transmit, push_row, push_row2. rewrite H1, H2, H3, H4.
  destruct (kl_update (infs s2) (knode v) _) as [i'|e]; cbn [rbind]; [|reflexivity].
  match goal with |- context [fold_left ?f ?l ?a] => destruct (fold_left f l a) as [l'|e] end; cbn [rbind rel_result]; [|reflexivity].
  repeat split.
Qed.

Lemma event_st_flag : forall f1 f2 t trec ttot s1 s2, same_core s1 s2 ->
  simrel same_core (event_st g kind f1 t trec ttot s1) (event_st g kind f2 t trec ttot s2).
Proof.
  intros f1 f2 t trec ttot s1 s2 Hs. pose proof Hs as [H1 [H2 [H3 H4]]]. unfold event_st. rewrite H2, H3.
  constructor; constructor; intro c; apply liftr_simrel; apply rbind_rel.
  - intro u. destruct kind; [apply sir_recover_flag|apply sis_recover_flag]; exact Hs.
  - intro uv. apply transmit_flag. exact Hs.
Qed.

Definition same_rows (o1 o2 : simout) : Prop := so_rows o1 = so_rows o2.

Lemma loop_flag : forall tau gamma tmin tmax f1 f2 fuel t s1 s2, same_core s1 s2 ->
  simrel same_rows (loop g kind tau gamma tmin tmax f1 fuel t s1) (loop g kind tau gamma tmin tmax f2 fuel t s2).
Proof.
  intros tau gamma tmin tmax f1 f2. induction fuel as [|f IH]; intros t s1 s2 Hs;
    pose proof Hs as [H1 [H2 [H3 H4]]]; cbn [loop]; unfold total_rec, total_tr; rewrite H2, H3;
    (destruct (Qltb 0 _); [|constructor; unfold same_rows, finish; cbn [so_rows]; rewrite H4; reflexivity]);
    constructor; intro d;
    (destruct (negb (is_empty (infs s2)) && xlt (t + d) tmax);
       [|constructor; unfold same_rows, finish; cbn [so_rows]; rewrite H4; reflexivity]).
  - constructor.
  - unfold event. eapply simrel_bind; [apply event_st_flag; exact Hs|]. intros a b Hab. apply IH. exact Hab.
Qed.

Ltac with_i0 :=
  match goal with
  | |- simrel _ (lift ?r _) (lift ?r _) =>
    destruct r as [il|e]; cbn [lift]; [apply loop_flag; repeat split|constructor]
  end.

(* Gillespie_SIR / Gillespie_SIS consume the same draws and return the same
   arrays whether or not full data is requested *)
Theorem gillespie_flag_indep : forall tau gamma i0 r0 rho tmin tmax fuel ds,
  let r1 := exec (gillespie g kind tau gamma i0 r0 rho tmin tmax true fuel) ds [] in
  let r2 := exec (gillespie g kind tau gamma i0 r0 rho tmin tmax false fuel) ds [] in
  snd r1 = snd r2 /\ rel_result same_rows (fst r1) (fst r2).
Proof.
  intros tau gamma i0 r0 rho tmin tmax fuel ds. cbv zeta. apply simrel_exec.
  unfold gillespie.
  destruct rho as [r|]; destruct i0 as [l|].
  - constructor.
  - destruct r0 as [l0|].
    + apply simrel_match_kind.
      * constructor.
      * destruct (_ <? 0)%Z; [constructor|]. constructor. intro ks. with_i0.
    + destruct (_ <? 0)%Z; [constructor|]. constructor. intro ks. with_i0.
  - with_i0.
  - cbn [Z.ltb Z.compare]. constructor. intro ks. with_i0.
Qed.

End Flag.
