(* C06, output layer: per-entry-point theorems for the solver-level functions whose state holds blocks of degree
   classes and flattened 2-D arrays (heterogeneous mean field, heterogeneous pairwise, effective degree). *)
From EoNV Require Import Prelude Graph Aux Vec IC Wrappers VecP ICP ICEd Outputs OutputsP OutputsE1.
From Coq Require Import Lqa Setoid Morphisms.

(* ---------------- reshape (rows, cols) of a row-major flattening ---------------- *)
Definition rect (c : nat) (M : list vec) : Prop := Forall (fun row => length row = c) M.

Lemma flatten_length c M : rect c M -> length (flatten M) = (length M * c)%nat.
Proof. unfold flatten. induction 1 as [|row M Hr _ IH]; [reflexivity|]. cbn [concat length]. rewrite app_length, IH, Hr. lia. Qed.

Lemma slice_shift (row v : vec) a b : slice (length row + a) (length row + b) (row ++ v) = slice a b v.
Proof.
  unfold slice. replace (length row + b - (length row + a))%nat with (b - a)%nat by lia.
  rewrite skipn_app. rewrite skipn_all2 by lia. cbn [app]. replace (length row + a - length row)%nat with a by lia. reflexivity.
Qed.

Lemma reshape_flatten c M rest : rect c M -> reshape (length M) c (flatten M ++ rest) = M.
Proof.
  unfold reshape, flatten. induction 1 as [|row M Hr HM IH]; [reflexivity|].
  cbn [length concat]. cbn [seq map]. rewrite <- seq_shift, map_map. f_equal.
  - cbn [Nat.mul Nat.add]. rewrite <- app_assoc. unfold slice. rewrite Nat.sub_0_r. cbn [skipn].
    rewrite <- Hr, firstn_app, Nat.sub_diag, firstn_all. cbn [firstn]. apply app_nil_r.
  - rewrite <- IH at 2. apply map_ext. intros i. rewrite <- app_assoc.
    replace (S i * c)%nat with (length row + i * c)%nat by (rewrite Hr; lia).
    replace (length row + i * c + c)%nat with (length row + (i * c + c))%nat by lia. apply slice_shift.
Qed.

Lemma slice_as_app (a b c : vec) n m : length a = n -> length b = (m - n)%nat -> slice n m (a ++ b ++ c) = b.
Proof. apply slice_app_mid. Qed.

(* ---------------- heterogeneous mean field ---------------- *)
Lemma out_SIS_heterogeneous_meanfield sv Sk0 Ik0 full tmin tmax n r :
  msolver_ok sv -> (0 < n)%nat -> run_model (m_SIS_heterogeneous_meanfield Sk0 Ik0 full) tmin tmax n sv = Ok r ->
  length Sk0 = length Ik0 /\
  shaped r tmin tmax n (Sk0 ++ Ik0) (if full then [oS; oI; oSk; oIk] else [oS; oI]) /\
  sval oS 0 r = vsum Sk0 /\ sval oI 0 r = vsum Ik0 /\
  (full = true -> vval oSk 0 r = Sk0 /\ vval oIk 0 r = Ik0) /\
  (forall j, (j < n)%nat -> sval oS j r + sval oI j r == vsum (nth j (sv (Sk0 ++ Ik0) (linspace tmin tmax n)) [])).
Proof.
  intros OK Hn H. inv_run H OK Hn. pose proof (rf_asm F) as HA. unfold viar, SIS_heterogeneous_meanfield in HA.
  destruct (Nat.eqb (length Sk0) (length Ik0)) eqn:EL; cbn [negb] in HA; [|discriminate]. apply Nat.eqb_eq in EL.
  cbn [rbind] in HA. injection HA as <-. split; [exact EL|].
  pose proof (rf_row0 F) as H0. unfold X0_SIS_heterogeneous_meanfield in *. shp F full.
  assert (A0 : slice 0 (length Sk0) (x 0%nat) = Sk0) by (rewrite H0; apply slice_app_l; reflexivity).
  assert (B0 : slice_from (length Sk0) (x 0%nat) = Ik0) by (rewrite H0; apply slice_from_app).
  rd F Hn. unfold sser, vser, vsumt, slc, sfrom.
  destruct full; look; rewrite ?A0, ?B0; fin; rd F H1; unfold sser, vsumt, slc, sfrom; look;
    rewrite (rf_x F); unfold traj_of; apply vsum_split.
Qed.

Lemma out_SIS_heterogeneous_meanfield_conserve sv Sk0 Ik0 full tmin tmax n r :
  msolver_ok sv -> preserves vsum sv -> (0 < n)%nat -> run_model (m_SIS_heterogeneous_meanfield Sk0 Ik0 full) tmin tmax n sv = Ok r ->
  forall j, (j < n)%nat -> sval oS j r + sval oI j r == vsum Sk0 + vsum Ik0.
Proof.
  intros OK PR Hn H j Hj. destruct (out_SIS_heterogeneous_meanfield sv Sk0 Ik0 full tmin tmax n r OK Hn H) as (_ & _ & _ & _ & _ & C).
  rewrite (C j Hj). rewrite (PR (Sk0 ++ Ik0) (linspace tmin tmax n) j) by (rewrite linspace_length; exact Hj). apply vsum_app.
Qed.

Lemma accepts_SIS_heterogeneous_meanfield sv Sk0 Ik0 full tmin tmax n :
  length Sk0 = length Ik0 -> exists r, run_model (m_SIS_heterogeneous_meanfield Sk0 Ik0 full) tmin tmax n sv = Ok r.
Proof.
  intros G. eapply run_ok; [reflexivity|]. intros x. unfold viar, SIS_heterogeneous_meanfield.
  rewrite G, Nat.eqb_refl. cbn [negb rbind]. eauto.
Qed.

Lemma vsub3_cancel a b c d : length a = length b -> length a = length c -> veq d a ->
  veq (vsub (vsub (vadd (vadd a b) c) d) c) b.
Proof.
  intros H1 H2 Hd. revert b c H1 H2. induction Hd as [|y x d a Hy Hd IH]; intros [|z b] [|w c] H1 H2; cbn in H1, H2; try discriminate; [constructor|].
  change (vsub (vsub (vadd (vadd (x :: a) (z :: b)) (w :: c)) (y :: d)) (w :: c))
    with ((x + z + w - y - w) :: vsub (vsub (vadd (vadd a b) c) d) c).
  constructor; [rewrite Hy; ring|apply IH; congruence].
Qed.

Lemma out_SIR_heterogeneous_meanfield sv Sk0 Ik0 Rk0 full tmin tmax n r :
  msolver_ok sv -> (0 < n)%nat -> run_model (m_SIR_heterogeneous_meanfield Sk0 Ik0 Rk0 full) tmin tmax n sv = Ok r ->
  length Sk0 = length Ik0 /\ length Sk0 = length Rk0 /\
  shaped r tmin tmax n (1 :: Rk0) (if full then [oSk; oIk; oRk] else [oS; oI; oR]) /\
  (if full then veq (vval oSk 0 r) Sk0 /\ veq (vval oIk 0 r) Ik0 /\ vval oRk 0 r = Rk0
   else sval oS 0 r == vsum Sk0 /\ sval oI 0 r == vsum Ik0 /\ sval oR 0 r = vsum Rk0) /\
  (forall j, (j < n)%nat ->
     (if full then vsum (vval oSk j r) + vsum (vval oIk j r) + vsum (vval oRk j r) else sval oS j r + sval oI j r + sval oR j r)
     == vsum Sk0 + vsum Ik0 + vsum Rk0).
Proof.
  intros OK Hn H. inv_run H OK Hn. pose proof (rf_asm F) as HA. unfold viar, SIR_heterogeneous_meanfield in HA.
  destruct (Nat.eqb (length Sk0) (length Ik0)) eqn:EL; cbn [negb orb] in HA; [|discriminate]. apply Nat.eqb_eq in EL.
  destruct (Nat.eqb (length Sk0) (length Rk0)) eqn:EL2; cbn [negb] in HA; [|discriminate]. apply Nat.eqb_eq in EL2.
  cbn [rbind] in HA. split; [exact EL|]. split; [exact EL2|].
  pose proof (rf_row0 F) as H0. unfold X0_SIR_heterogeneous_meanfield in *.
  set (Nk := vadd (vadd Sk0 Ik0) Rk0) in *.
  assert (LN : length Nk = length Sk0) by (unfold Nk; rewrite !vadd_length; lia).
  assert (SN : vsum Nk == vsum Sk0 + vsum Ik0 + vsum Rk0).
  { unfold Nk. rewrite vsum_vadd by (rewrite vadd_length; lia). rewrite vsum_vadd by exact EL. reflexivity. }
  set (Sk := fun t => vmul Sk0 (spow_arange (comp x 0 t) (length (sfrom x 1 t)))) in *.
  assert (W : forall j, (j < n)%nat -> length (sfrom x 1 j) = length Rk0).
  { intros j Hj. unfold sfrom. rewrite slice_from_length, (rf_width F j Hj). cbn [length]. lia. }
  assert (LS : forall j, (j < n)%nat -> length (Sk j) = length Sk0).
  { intros j Hj. unfold Sk. rewrite vmul_length, spow_arange_length, (W j Hj). lia. }
  assert (S0v : veq (Sk 0%nat) Sk0).
  { unfold Sk, comp, sfrom. rewrite H0. cbn [vnth nth slice_from skipn].
    rewrite (vmul_veq _ _ _ (spow_arange_1 (length Rk0))). apply vmul_ones. exact EL2. }
  assert (CONS : forall j, (j < n)%nat -> vsum (Sk j) + vsum (vsub (vsub Nk (Sk j)) (sfrom x 1 j)) + vsum (sfrom x 1 j) == vsum Sk0 + vsum Ik0 + vsum Rk0).
  { intros j Hj. rewrite vsum_vsub by (rewrite vsub_length, LN, (LS j Hj), (W j Hj); lia).
    rewrite vsum_vsub by (rewrite LN, (LS j Hj); reflexivity). rewrite SN. ring. }
  assert (R0v : sfrom x 1 0%nat = Rk0) by (unfold sfrom; rewrite H0; reflexivity).
  assert (I0v : veq (vsub (vsub Nk (Sk 0%nat)) (sfrom x 1 0%nat)) Ik0) by (rewrite R0v; unfold Nk; apply vsub3_cancel; assumption).
  destruct full; injection HA as <-; shp F true; rd F Hn; unfold sser, vser, vsumt; look; fold Sk.
  - split.
    + split; [exact S0v|]. split; [exact I0v|exact R0v].
    + intros j Hj. rd F Hj. unfold vser. look. fold Sk. apply CONS. exact Hj.
  - split.
    + split; [apply vsum_veq; exact S0v|]. split; [apply vsum_veq; exact I0v|rewrite R0v; reflexivity].
    + intros j Hj. rd F Hj. unfold sser, vsumt. look. fold Sk. apply CONS. exact Hj.
Qed.

(* ---------------- heterogeneous pairwise ---------------- *)
Lemma out_SIS_heterogeneous_pairwise sv Sk0 Ik0 SkSl0 SkIl0 IkIl0 full tmin tmax n r :
  msolver_ok sv -> (0 < n)%nat ->
  length Sk0 = length Ik0 -> length SkSl0 = length Sk0 -> length SkIl0 = length Sk0 -> rect (length Sk0) SkSl0 -> rect (length Sk0) SkIl0 ->
  run_model (m_SIS_heterogeneous_pairwise Sk0 Ik0 SkSl0 SkIl0 IkIl0 full) tmin tmax n sv = Ok r ->
  shaped r tmin tmax n (Sk0 ++ flatten SkSl0 ++ flatten SkIl0) (if full then [oS; oI; oSk; oIk; oSkIl; oSkSl; oIkIl] else [oS; oI]) /\
  sval oS 0 r = vsum Sk0 /\ sval oI 0 r == vsum Ik0 /\
  (full = true -> vval oSk 0 r = Sk0 /\ veq (vval oIk 0 r) Ik0 /\ mval oSkIl 0 r = SkIl0 /\ mval oSkSl 0 r = SkSl0) /\
  (forall j, (j < n)%nat -> sval oS j r + sval oI j r == vsum Sk0 + vsum Ik0).
Proof.
  intros OK Hn HL L1 L2 R1 R2 H. inv_run H OK Hn. pose proof (rf_asm F) as HA. unfold viar, SIS_heterogeneous_pairwise in HA.
  pose proof (rf_row0 F) as H0. unfold X0_SIS_heterogeneous_pairwise in *.
  assert (LK : length (vadd Sk0 Ik0) = length Sk0) by (rewrite vadd_length; lia). rewrite LK in HA.
  set (k := length Sk0) in *.
  assert (A0 : slice 0 k (x 0%nat) = Sk0) by (rewrite H0; apply slice_app_l; reflexivity).
  assert (FL1 : length (flatten SkSl0) = (k * k)%nat) by (rewrite (flatten_length k) by exact R1; rewrite L1; reflexivity).
  assert (B0 : reshape k k (slice k (k + k * k) (x 0%nat)) = SkSl0).
  { rewrite H0. rewrite slice_app_mid by (try reflexivity; rewrite FL1; lia).
    rewrite <- (app_nil_r (flatten SkSl0)). rewrite <- L1 at 1. apply reshape_flatten. exact R1. }
  assert (C0 : reshape k k (slice_from (k + k * k) (x 0%nat)) = SkIl0).
  { rewrite H0, app_assoc. unfold slice_from. rewrite skipn_app_l by (rewrite app_length, FL1; reflexivity).
    rewrite <- (app_nil_r (flatten SkIl0)). rewrite <- L2 at 1. apply reshape_flatten. exact R2. }
  assert (CONS : forall j, (j < n)%nat -> vsum (slice 0 k (x j)) + vsum (vsub (vadd Sk0 Ik0) (slice 0 k (x j))) == vsum Sk0 + vsum Ik0).
  { intros j Hj. pose proof (rf_width F j Hj) as W. rewrite !app_length in W.
    rewrite vsum_vsub by (rewrite LK, slice_length by lia; lia). rewrite vsum_vadd by exact HL. ring. }
  destruct full; cbn [rbind] in HA; injection HA as <-; shp F true; rd F Hn; unfold sser, vser, mser, vsumt, slc, sfrom; look; rewrite ?A0, ?B0, ?C0.
  - split; [reflexivity|]. split; [apply vsum_veq, vsub_vadd_cancel; exact HL|].
    split; [intros _; repeat split; try reflexivity; apply vsub_vadd_cancel; exact HL|].
    intros j Hj. rd F Hj. unfold sser, vsumt, slc. look. apply CONS. exact Hj.
  - split; [reflexivity|]. split; [apply vsum_veq, vsub_vadd_cancel; exact HL|]. split; [discriminate|].
    intros j Hj. rd F Hj. unfold sser, vsumt, slc. look. apply CONS. exact Hj.
Qed.

Lemma vsub2_cancel a b c : length a = length b -> length a = length c -> veq (vsub (vsub (vadd (vadd a b) c) a) b) c.
Proof.
  revert b c. induction a as [|x a IH]; intros [|y b] [|z c] H1 H2; cbn in H1, H2; try discriminate; [constructor|].
  change (vsub (vsub (vadd (vadd (x :: a) (y :: b)) (z :: c)) (x :: a)) (y :: b)) with ((x + y + z - x - y) :: vsub (vsub (vadd (vadd a b) c) a) b).
  constructor; [ring|apply IH; congruence].
Qed.

Lemma out_SIR_heterogeneous_pairwise sv Sk0 Ik0 Rk0 SkSl0 SkIl0 Ks full tmin tmax n r :
  msolver_ok sv -> (0 < n)%nat ->
  length Sk0 = length Ik0 -> length Sk0 = length Rk0 -> length SkSl0 = length Sk0 -> length SkIl0 = length Sk0 ->
  rect (length Sk0) SkSl0 -> rect (length Sk0) SkIl0 -> match Ks with Some l => length l = length Sk0 | None => True end ->
  run_model (m_SIR_heterogeneous_pairwise Sk0 Ik0 Rk0 SkSl0 SkIl0 Ks full) tmin tmax n sv = Ok r ->
  shaped r tmin tmax n (Sk0 ++ Ik0 ++ flatten SkSl0 ++ flatten SkIl0) (if full then [oS; oI; oR; oSk; oIk; oRk; oSkIl; oSkSl] else [oS; oI; oR]) /\
  sval oS 0 r = vsum Sk0 /\ sval oI 0 r = vsum Ik0 /\ sval oR 0 r == vsum Rk0 /\
  (full = true -> vval oSk 0 r = Sk0 /\ vval oIk 0 r = Ik0 /\ veq (vval oRk 0 r) Rk0 /\ mval oSkIl 0 r = SkIl0 /\ mval oSkSl 0 r = SkSl0) /\
  (forall j, (j < n)%nat -> sval oS j r + sval oI j r + sval oR j r == vsum Sk0 + vsum Ik0 + vsum Rk0).
Proof.
  intros OK Hn HL HL2 L1 L2 R1 R2 HK H. inv_run H OK Hn. pose proof (rf_asm F) as HA. unfold viar, SIR_heterogeneous_pairwise in HA.
  pose proof (rf_row0 F) as H0. unfold X0_SIR_heterogeneous_pairwise in *.
  assert (EK : length (match Ks with Some k => k | None => seq 0 (length Sk0) end) = length Sk0) by (destruct Ks; [exact HK|apply seq_length]).
  rewrite EK in HA. set (k := length Sk0) in *.
  assert (FL1 : length (flatten SkSl0) = (k * k)%nat) by (rewrite (flatten_length k) by exact R1; rewrite L1; reflexivity).
  assert (FL2 : length (flatten SkIl0) = (k * k)%nat) by (rewrite (flatten_length k) by exact R2; rewrite L2; reflexivity).
  assert (A0 : slice 0 k (x 0%nat) = Sk0) by (rewrite H0; apply slice_app_l; reflexivity).
  assert (B0 : slice k (2 * k) (x 0%nat) = Ik0) by (rewrite H0; apply slice_app_mid; [reflexivity|unfold k; lia]).
  assert (C0 : reshape k k (slice (2 * k) (2 * k + k * k) (x 0%nat)) = SkSl0).
  { rewrite H0. rewrite app_assoc. rewrite slice_app_mid by (rewrite ?app_length; unfold k in *; lia).
    rewrite <- (app_nil_r (flatten SkSl0)). rewrite <- L1 at 1. apply reshape_flatten. exact R1. }
  assert (D0 : reshape k k (slice (2 * k + k * k) (2 * k + 2 * (k * k)) (x 0%nat)) = SkIl0).
  { rewrite H0. rewrite !app_assoc. rewrite <- (app_nil_r (flatten SkIl0)) at 1.
    rewrite slice_app_mid by (rewrite ?app_length; unfold k in *; lia).
    rewrite <- (app_nil_r (flatten SkIl0)). rewrite <- L2 at 1. apply reshape_flatten. exact R2. }
  set (Nk := vadd (vadd Sk0 Ik0) Rk0) in *.
  assert (LN : length Nk = k) by (unfold Nk; rewrite !vadd_length; unfold k; lia).
  assert (SN : vsum Nk == vsum Sk0 + vsum Ik0 + vsum Rk0).
  { unfold Nk. rewrite vsum_vadd by (rewrite vadd_length; lia). rewrite vsum_vadd by exact HL. reflexivity. }
  assert (CONS : forall j, (j < n)%nat ->
     vsum (slice 0 k (x j)) + vsum (slice k (2 * k) (x j)) + vsum (vsub (vsub Nk (slice 0 k (x j))) (slice k (2 * k) (x j))) == vsum Sk0 + vsum Ik0 + vsum Rk0).
  { intros j Hj. pose proof (rf_width F j Hj) as W. rewrite !app_length in W. fold k in W. rewrite <- HL in W. fold k in W.
    rewrite vsum_vsub by (rewrite vsub_length, LN, !slice_length by lia; lia).
    rewrite vsum_vsub by (rewrite LN, slice_length by lia; lia). rewrite SN. ring. }
  cbn [rbind] in HA. injection HA as <-. shp F full. rd F Hn. unfold sser, vser, mser, vsumt, slc.
  cbn [Nat.mul] in B0, C0, D0, CONS |- *.
  destruct full; look; rewrite ?A0, ?B0, ?C0, ?D0; fold Nk.
  - split; [reflexivity|]. split; [reflexivity|]. split; [apply vsum_veq; unfold Nk; apply vsub2_cancel; assumption|].
    split; [intros _; repeat split; try reflexivity; unfold Nk; apply vsub2_cancel; assumption|].
    intros j Hj. rd F Hj. unfold sser, vsumt, slc. look. apply CONS. exact Hj.
  - split; [reflexivity|]. split; [reflexivity|]. split; [apply vsum_veq; unfold Nk; apply vsub2_cancel; assumption|]. split; [discriminate|].
    intros j Hj. rd F Hj. unfold sser, vsumt, slc. look. apply CONS. exact Hj.
Qed.

(* ---------------- effective degree ---------------- *)
Lemma out_SIS_effective_degree sv Ssi0 Isi0 full tmin tmax n r :
  msolver_ok sv -> (0 < n)%nat ->
  rect (length (mrow Ssi0 0)) Ssi0 -> rect (length (mrow Ssi0 0)) Isi0 -> length Isi0 = length Ssi0 ->
  run_model (m_SIS_effective_degree Ssi0 Isi0 full) tmin tmax n sv = Ok r ->
  shaped r tmin tmax n (flatten Ssi0 ++ flatten Isi0) (if full then [oS; oI; oSsi; oIsi] else [oS; oI]) /\
  sval oS 0 r == msum Ssi0 /\ sval oI 0 r == msum Isi0 /\
  (full = true -> mval oSsi 0 r = Ssi0 /\ mval oIsi 0 r = Isi0) /\
  (forall j, (j < n)%nat -> sval oS j r + sval oI j r == vsum (nth j (sv (flatten Ssi0 ++ flatten Isi0) (linspace tmin tmax n)) [])).
Proof.
  intros OK Hn R1 R2 LI H. inv_run H OK Hn. pose proof (rf_asm F) as HA. unfold via in HA. injection HA as <-.
  pose proof (rf_row0 F) as H0. unfold X0_SIS_effective_degree in *. shp F full.
  set (c := length (mrow Ssi0 0)) in *. set (rws := length Ssi0) in *.
  assert (FL1 : length (flatten Ssi0) = (rws * c)%nat) by (apply flatten_length; exact R1).
  assert (A0 : slice 0 (rws * c) (x 0%nat) = flatten Ssi0) by (rewrite H0; apply slice_app_l; exact FL1).
  assert (B0 : slice_from (rws * c) (x 0%nat) = flatten Isi0) by (rewrite H0; unfold slice_from; apply skipn_app_l; exact FL1).
  rd F Hn. unfold sser, mser, SIS_effective_degree, vsumt, slc, sfrom. fold c rws.
  destruct full; look; rewrite ?A0, ?B0.
  - split; [apply vsum_flatten|]. split; [apply vsum_flatten|]. split.
    + intros _. split.
      * rewrite <- (app_nil_r (flatten Ssi0)). apply reshape_flatten. exact R1.
      * rewrite <- (app_nil_r (flatten Isi0)). replace rws with (length Isi0) by exact LI. apply reshape_flatten. exact R2.
    + intros j Hj. rd F Hj. unfold sser, SIS_effective_degree, vsumt, slc, sfrom. look. fold c rws. rewrite (rf_x F). unfold traj_of. apply vsum_split.
  - split; [apply vsum_flatten|]. split; [apply vsum_flatten|]. split; [discriminate|].
    intros j Hj. rd F Hj. unfold sser, SIS_effective_degree, vsumt, slc, sfrom. look. fold c rws. rewrite (rf_x F). unfold traj_of. apply vsum_split.
Qed.

Lemma out_SIR_effective_degree sv Ssi0 I0 R0 full tmin tmax n r :
  msolver_ok sv -> (0 < n)%nat -> rect (length (mrow Ssi0 0)) Ssi0 ->
  run_model (m_SIR_effective_degree Ssi0 I0 R0 full) tmin tmax n sv = Ok r ->
  shaped r tmin tmax n (flatten Ssi0 ++ [R0]) (if full then [oS; oI; oR; oSsi] else [oS; oI; oR]) /\
  sval oS 0 r == msum Ssi0 /\ sval oI 0 r == I0 /\ sval oR 0 r = R0 /\
  (full = true -> mval oSsi 0 r = Ssi0) /\
  (forall j, (j < n)%nat -> sval oS j r + sval oI j r + sval oR j r == msum Ssi0 + I0 + R0).
Proof.
  intros OK Hn R1 H. inv_run H OK Hn. pose proof (rf_asm F) as HA. unfold via in HA. injection HA as <-.
  pose proof (rf_row0 F) as H0. unfold X0_SIR_effective_degree in *. shp F full.
  assert (D0 : drop_last 1 (x 0%nat) = flatten Ssi0) by (rewrite H0; apply drop_last_app; reflexivity).
  assert (T0 : take_last 1 (x 0%nat) = [R0]) by (rewrite H0; apply take_last_app; reflexivity).
  rd F Hn. unfold sser, mser, SIR_effective_degree, vsumt, dlast, tlast.
  destruct full; look; rewrite ?D0, ?T0; cbn [vnth nth].
  - split; [apply vsum_flatten|]. split; [rewrite vsum_flatten; ring|]. split; [reflexivity|]. split.
    + intros _. rewrite <- (app_nil_r (flatten Ssi0)). apply reshape_flatten. exact R1.
    + intros j Hj. rd F Hj. unfold sser, SIR_effective_degree, vsumt, dlast, tlast. look. ring.
  - split; [apply vsum_flatten|]. split; [rewrite vsum_flatten; ring|]. split; [reflexivity|]. split; [discriminate|].
    intros j Hj. rd F Hj. unfold sser, SIR_effective_degree, vsumt, dlast, tlast. look. ring.
Qed.
