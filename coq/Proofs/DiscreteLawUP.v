(* One coin per KEY (e.g. per undirected edge): the run of basic_discrete_SIR never asks two
   contacts with the same key when the key of (u, v) is (u, v) or (v, u): a contact (u, v) is
   asked only while u is infectious and v is susceptible at the start of the step, after which
   u is never susceptible or infectious again, so (v, u) is never asked later -- and not
   earlier either, since v was susceptible until now.  Hence (DeferredKP.deferred_k) the law of
   the run is that of flipping one coin per key first. *)
From EoNV Require Import Prelude Samp Graph Discrete DiscreteP DiscreteO DiscreteOP DeferredP DeferredKP DiscreteLawP.
From Coq Require Import Permutation Lqa.

Lemma NoDup_map_inj_on : forall (A B : Type) (f : A -> B) l, NoDup l ->
  (forall x y, In x l -> In y l -> f x = f y -> x = y) -> NoDup (map f l).
Proof.
  intros A B f l H. induction H as [|x l Hx Hn IH]; intro Hinj; cbn [map]; constructor.
  - intro Hin. apply in_map_iff in Hin. destruct Hin as [y [E Hy]].
    assert (Eyx : y = x) by (apply Hinj; [right; exact Hy|left; reflexivity|exact E]).
    subst y. contradiction.
  - apply IH. intros a b Ha Hb. apply Hinj; right; assumption.
Qed.

Lemma picks_noask_k : forall kf k t inf tl pl, fresh_k kf [] (picks_o k t inf tl pl).
Proof.
  intros kf k t inf. induction inf as [|[v c] inf IH]; intros tl pl; [exact I|].
  cbn [picks_o].
  apply (fresh_k_bind node _ kf (fun _ => True) (opick c) _ [] []).
  - unfold fresh_k, opick. cbn [orelabel fresh_in]. intro x. destruct x as [|a [|b x]]; exact I.
  - apply oall_true.
  - intros s _. apply IH.
  - intros e [].
Qed.

Section FreshK.
Variable g : graph.
Variable ord : nat -> list node -> list node.
Variable tmin : Q.
Variable tmax : xtime.
Variable full : bool.
Variable kf : node -> node -> arc.
Variable KEYS : list arc.
Hypothesis Hnd : NoDup (gnodes g).
Hypothesis Hadjnd : forall u, In u (gnodes g) -> NoDup (gadj g u).
Hypothesis Hord : forall k l, Permutation (ord k l) l.
Hypothesis Hkf : forall u v, kf u v = (u, v) \/ kf u v = (v, u).
Hypothesis Hkin : forall u v, In u (gnodes g) -> In v (gadj g u) -> In (kf u v) KEYS.

Definition kfe (e : arc) : arc := kf (fst e) (snd e).
(* the contacts whose target satisfies sus *)
Definition tgt (sus : node -> bool) (cs : list arc) : list arc := filter (fun e => sus (snd e)) cs.

Lemma kf_eq_cases : forall u v u' v', kf u v = kf u' v' -> (u = u' /\ v = v') \/ (u = v' /\ v = u').
Proof.
  intros u v u' v' E. destruct (Hkf u v) as [A|A], (Hkf u' v') as [B|B]; rewrite A, B in E;
    injection E as E1 E2; subst; tauto.
Qed.

Lemma keys_In : forall sus us e,
  In e (map kfe (tgt sus (contacts g us))) <->
  exists u v, e = kf u v /\ In u us /\ In v (gadj g u) /\ sus v = true.
Proof.
  intros sus us e. rewrite in_map_iff. split.
  - intros [[u v] [E H]]. unfold tgt in H. apply filter_In in H. destruct H as [H1 H2].
    apply contacts_In in H1. exists u, v. split; [symmetry; exact E|]. cbn [snd] in H2. tauto.
  - intros [u [v [E [H1 [H2 H3]]]]]. exists (u, v). split; [symmetry; exact E|].
    unfold tgt. apply filter_In. split; [apply contacts_In; split; assumption|exact H3].
Qed.

Lemma cloop_fresh_k : forall sus0 k cs c,
  (forall v, c_sus c v = true -> sus0 v = true) -> (forall v, In v (c_new c) -> sus0 v = true) ->
  NoDup (map kfe (tgt sus0 cs)) ->
  fresh_k kf (map kfe (tgt sus0 cs)) (cloop_o full k cs c).
Proof.
  intros sus0 k cs. induction cs as [|[u v] cs IH]; intros c H1 H2 Hn; [exact I|].
  unfold tgt in *. cbn [filter snd] in *. destruct (sus0 v) eqn:E0.
  - cbn [map] in *. change (kfe (u, v)) with (kf u v) in *.
    inversion Hn as [|x l Hx Hn']; subst.
    assert (Ask : forall c1 c2,
              (forall x, c_sus c1 x = true -> sus0 x = true) -> (forall x, In x (c_new c1) -> sus0 x = true) ->
              (forall x, c_sus c2 x = true -> sus0 x = true) -> (forall x, In x (c_new c2) -> sus0 x = true) ->
              fresh_k kf (kf u v :: map kfe (filter (fun e => sus0 (snd e)) cs))
                (obind (oask u v) (fun b : bool => if b then cloop_o full k cs c1 else cloop_o full k cs c2))).
    { intros c1 c2 A1 A2 B1 B2. cbn [oask obind]. apply fresh_k_ask.
      rewrite rm_cons_same, (rm_notin _ _ Hx). split; [left; reflexivity|]. split; apply IH; assumption. }
    cbn [cloop_o]. destruct (c_sus c v) eqn:Es.
    + apply Ask; cbn [c_sus c_new].
      * intros x Hx'. unfold fupdN in Hx'. destruct (N.eqb x v); [discriminate|apply H1; exact Hx'].
      * intros x [E|Hx']; [subst x; exact E0|apply H2; exact Hx'].
      * exact H1.
      * exact H2.
    + destruct (full && mem v (c_new c)).
      * apply Ask; cbn [c_sus c_new]; assumption.
      * eapply fresh_k_mono; [apply IH; assumption|]. apply incl_tl. apply incl_refl.
  - cbn [cloop_o].
    assert (F1 : c_sus c v = false).
    { destruct (c_sus c v) eqn:Es; [|reflexivity]. apply H1 in Es. congruence. }
    assert (F2 : mem v (c_new c) = false).
    { destruct (mem v (c_new c)) eqn:Em; [|reflexivity]. apply dmem_In in Em. apply H2 in Em. congruence. }
    rewrite F1, F2, andb_false_r. apply IH; assumption.
Qed.

Definition Ek (s : dst) : list arc :=
  map kfe (tgt (d_sus s) (contacts g (filter (fun u => d_sus s u || mem u (d_infs s)) (gnodes g)))).
Definition Ksus (s : dst) : list arc :=
  map kfe (tgt (d_sus s) (contacts g (filter (d_sus s) (gnodes g)))).

Definition spost2 (s s' : dst) : Prop :=
  sinv g s' /\ (forall v, d_sus s' v = true -> d_sus s v = true) /\
  (forall v, In v (d_infs s') -> d_sus s v = true).

Lemma step_post2 : forall k t s, oall (spost2 s) (step_o g ord tmax full k t s).
Proof.
  intros k t s. unfold step_o.
  eapply oall_bind; [apply cloop_post; intros v []|].
  intros c [P1 [P2 P3]]. cbn [c_sus c_new] in P1, P3.
  eapply oall_bind; [apply oall_true|]. intros tp _. cbn [oall]. split; [|split]; cbn [d_infs d_sus].
  - split; cbn [d_infs d_sus].
    + unfold canon. apply NoDup_filter. exact Hnd.
    + intros v Hv. apply canon_In in Hv. destruct Hv as [Hv1 Hv2]. split; [exact Hv1|apply P2; exact Hv2].
  - exact P1.
  - intros v Hv. apply canon_In in Hv. destruct Hv as [_ Hv]. destruct (P3 v Hv) as [[]|H]. exact H.
Qed.

Lemma step_fresh_k : forall k t s,
  NoDup (map kfe (tgt (d_sus s) (contacts g (ord k (d_infs s))))) ->
  fresh_k kf (map kfe (tgt (d_sus s) (contacts g (ord k (d_infs s))))) (step_o g ord tmax full k t s).
Proof.
  intros k t s Hn. unfold step_o.
  eapply fresh_k_mono.
  - apply (fresh_k_bind cst _ kf (fun _ => True) _ _ (map kfe (tgt (d_sus s) (contacts g (ord k (d_infs s))))) []).
    + apply cloop_fresh_k; cbn [c_sus c_new]; [auto|intros v []|exact Hn].
    + apply oall_true.
    + intros c _.
      apply (fresh_k_bind _ _ kf (fun _ => True) _ _ [] []).
      * destruct full; [apply picks_noask_k|exact I].
      * apply oall_true.
      * intros tp _. exact I.
      * intros e [].
    + intros e _ [].
  - rewrite app_nil_r. apply incl_refl.
Qed.

Lemma dloop_fresh_k : forall i0 r0 fuel k t s, sinv g s ->
  fresh_k kf (Ek s) (dloop_o g ord tmin tmax full i0 r0 fuel k t s).
Proof.
  intros i0 r0 fuel. induction fuel as [|f IH]; intros k t s [Hs1 Hs2]; cbn [dloop_o];
    destruct (nonempty (d_infs s) && xlt t tmax); try exact I.
  assert (Hus : forall u, In u (ord k (d_infs s)) -> In u (d_infs s)).
  { intros u Hu. eapply Permutation_in; [apply Hord|exact Hu]. }
  assert (Hns : forall u, In u (ord k (d_infs s)) -> d_sus s u = false).
  { intros u Hu. apply Hs2. apply Hus. exact Hu. }
  eapply fresh_k_mono.
  - apply (fresh_k_bind dst _ kf (spost2 s) _ _ (map kfe (tgt (d_sus s) (contacts g (ord k (d_infs s))))) (Ksus s)).
    + apply step_fresh_k. apply NoDup_map_inj_on.
      * unfold tgt. apply List.NoDup_filter. apply contacts_NoDup.
        -- apply (Permutation_NoDup (Permutation_sym (Hord k (d_infs s)))). exact Hs1.
        -- intros u Hu. apply Hadjnd. apply Hs2. apply Hus. exact Hu.
      * intros [u v] [u' v'] Hx Hy E. unfold tgt in Hx, Hy. apply filter_In in Hx. apply filter_In in Hy.
        destruct Hx as [Hx1 Hx2]. destruct Hy as [Hy1 Hy2]. cbn [snd] in Hx2, Hy2.
        apply contacts_In in Hx1. apply contacts_In in Hy1.
        unfold kfe in E. cbn [fst snd] in E. destruct (kf_eq_cases _ _ _ _ E) as [[E1 E2]|[E1 E2]].
        -- subst. reflexivity.
        -- subst u. destruct Hx1 as [Hx1 _]. apply Hns in Hx1. congruence.
    + apply step_post2.
    + intros s' [Hs' [Q1 Q2]]. eapply fresh_k_mono; [apply IH; exact Hs'|].
      intros e He. unfold Ek in He. apply keys_In in He. destruct He as [u [v [E [Hu [Hv Hsv]]]]].
      unfold Ksus. apply keys_In. exists u, v. split; [exact E|]. split; [|split; [exact Hv|apply Q1; exact Hsv]].
      apply filter_In in Hu. destruct Hu as [Hu1 Hu2]. apply filter_In. split; [exact Hu1|].
      apply orb_true_iff in Hu2. destruct Hu2 as [H|H]; [apply Q1; exact H|apply Q2; apply dmem_In; exact H].
    + intros e H1 H2. apply keys_In in H1. unfold Ksus in H2. apply keys_In in H2.
      destruct H1 as [u [v [E [Hu [_ Hsv]]]]]. destruct H2 as [u' [v' [E' [Hu' [_ Hsv']]]]].
      apply filter_In in Hu'. destruct Hu' as [_ Hu']. apply Hns in Hu.
      rewrite E in E'. destruct (kf_eq_cases _ _ _ _ E') as [[E1 E2]|[E1 E2]]; subst; congruence.
  - intros e Hin. apply in_app_or in Hin. unfold Ek. apply keys_In. destruct Hin as [Hin|Hin].
    + apply keys_In in Hin. destruct Hin as [u [v [E [Hu [Hv Hsv]]]]]. exists u, v. split; [exact E|].
      split; [|split; assumption]. apply Hus in Hu.
      apply filter_In. split; [apply Hs2; exact Hu|]. apply orb_true_iff. right. apply dmem_In. exact Hu.
    + unfold Ksus in Hin. apply keys_In in Hin. destruct Hin as [u [v [E [Hu [Hv Hsv]]]]]. exists u, v. split; [exact E|].
      split; [|split; assumption].
      apply filter_In in Hu. apply filter_In. split; [apply Hu|]. apply orb_true_iff. left. apply Hu.
Qed.

Lemma run_fresh_k : forall i0 r0 fuel,
  fresh_k kf KEYS (dloop_o g ord tmin tmax full i0 r0 fuel O tmin (init_state g tmin full i0 r0)).
Proof.
  intros i0 r0 fuel. eapply fresh_k_mono; [apply dloop_fresh_k; apply init_sinv; exact Hnd|].
  intros e He. unfold Ek in He. apply keys_In in He. destruct He as [u [v [E [Hu [Hv _]]]]]. subst e.
  apply filter_In in Hu. apply Hkin; [apply Hu|exact Hv].
Qed.

(* the law of the run: one coin per key *)
Lemma dsir_law_expect_k : forall p i0 r0o fuel (f : dout -> bool), NoDup KEYS ->
  prob f (law (basic_discrete_SIR g p ord (Some i0) r0o None tmin tmax full fuel)) ==
  expect (clamp01 p) KEYS (fun kept =>
    prob f (law (discrete_SIR g (table_rules (tblk kf kept)) None ord (Some i0) r0o None tmin tmax full fuel))).
Proof.
  intros p i0 r0o fuel f HK.
  unfold basic_discrete_SIR, basic_discrete_SIR_R, discrete_SIR. cbn [with_initial].
  rewrite <- (law_seqv _ _ _ (lazy_dloop g ord tmin tmax full p i0 (opt_list r0o) fuel O tmin _)).
  rewrite (deferred_k p dout f kf _ KEYS HK (run_fresh_k i0 (opt_list r0o) fuel)).
  apply expect_ext. intro kept.
  rewrite (law_seqv _ _ _ (eager_dloop_table g ord tmin tmax full (tblk kf kept) i0 (opt_list r0o) fuel O tmin _)).
  reflexivity.
Qed.

End FreshK.
