(* rnd53 is idempotent: a rounded value is representable (rounding it again changes
   nothing).  With Proofs/ListDictFP4.v this makes "max_weight bounds every stored
   weight" unconditional for binary64. *)
From EoNV Require Import Prelude ListDict ListDictF ListDictFPr.
From Coq Require Import Qabs Qpower Lqa.

Lemma log2_candidate_high : forall (n d : positive),
  Zpos n # d < 2 ^ (Z.log2 (Zpos n) - Z.log2 (Zpos d) + 1).
Proof.
  intros n d.
  assert (Hn1 : (0 < Zpos n)%Z) by reflexivity.
  assert (Hd1 : (0 < Zpos d)%Z) by reflexivity.
  destruct (Z.log2_spec (Zpos n) Hn1) as [_ Ha].
  destruct (Z.log2_spec (Zpos d) Hd1) as [Hb _].
  pose proof (Z.log2_nonneg (Zpos n)) as Ha0. pose proof (Z.log2_nonneg (Zpos d)) as Hb0.
  set (a := Z.log2 (Zpos n)) in *. set (b := Z.log2 (Zpos d)) in *.
  replace (a - b + 1)%Z with (Z.succ a + - b)%Z by lia.
  rewrite two_pow_add, Qpower_opp.
  change 2 with (inject_Z 2).
  rewrite <- !Zpower_Qpower by lia.
  assert (Hp : (0 < 2 ^ Z.succ a)%Z) by (apply Z.pow_pos_nonneg; lia).
  assert (Hq : (0 < 2 ^ b)%Z) by (apply Z.pow_pos_nonneg; lia).
  destruct (2 ^ Z.succ a)%Z as [|pa|pa] eqn:Ea; try lia.
  destruct (2 ^ b)%Z as [|pb|pb] eqn:Eb; try lia.
  unfold Qlt, Qmult, Qinv, inject_Z. cbn [Qnum Qden]. nia.
Qed.

Lemma rnd_L_high : forall x, 0 < x -> x < 2 ^ (rnd_L x + 1).
Proof.
  intros [n d] Hx. unfold rnd_L. cbv zeta. cbn [Qnum Qden].
  destruct n as [|n|n]; [discriminate Hx| |discriminate Hx].
  destruct (Qle_bool (2 ^ (Z.log2 (Z.pos n) - Z.log2 (Z.pos d))) (Z.pos n # d)) eqn:E.
  - apply log2_candidate_high.
  - replace (Z.log2 (Z.pos n) - Z.log2 (Z.pos d) - 1 + 1)%Z
      with (Z.log2 (Z.pos n) - Z.log2 (Z.pos d))%Z by lia.
    apply Qnot_le_lt. intro H. apply Qle_bool_iff in H. congruence.
Qed.

Lemma rnd_L_unique : forall x L, 0 < x -> 2 ^ L <= x -> x < 2 ^ (L + 1) -> rnd_L x = L.
Proof.
  intros x L Hx H1 H2.
  pose proof (rnd_L_low x Hx) as H3. pose proof (rnd_L_high x Hx) as H4.
  assert (A : (L < rnd_L x + 1)%Z).
  { apply (Qpower_lt_compat_l_inv 2); [|reflexivity]. eapply Qle_lt_trans; eassumption. }
  assert (B : (rnd_L x < L + 1)%Z).
  { apply (Qpower_lt_compat_l_inv 2); [|reflexivity]. eapply Qle_lt_trans; eassumption. }
  lia.
Qed.

Lemma rne_int : forall (y : Q) (m : Z), y == inject_Z m -> rne (Qnum y) (Qden y) = m.
Proof.
  intros [n d] m H. cbn [Qnum Qden]. unfold Qeq, inject_Z in H. cbn [Qnum Qden] in H.
  assert (E : n = (m * Zpos d)%Z) by lia. subst n. unfold rne. cbv zeta.
  rewrite Z.div_mul by discriminate. rewrite Z.mod_mul by discriminate. reflexivity.
Qed.

Lemma rne_range : forall (y : Q) (lo hi : Z), inject_Z lo <= y -> y <= inject_Z hi ->
  (lo <= rne (Qnum y) (Qden y) <= hi)%Z.
Proof.
  intros y lo hi H1 H2. pose proof (rne_Q y) as H. apply Qabs_Qle_condition in H.
  set (m := rne (Qnum y) (Qden y)) in *. destruct H as [Ha Hb].
  assert (A : inject_Z lo - (1 # 2) <= inject_Z m) by lra.
  assert (B : inject_Z m <= inject_Z hi + (1 # 2)) by lra.
  unfold Qle, Qminus, Qplus, Qopp, inject_Z in A, B. cbn [Qnum Qden] in A, B. lia.
Qed.

Lemma inj_pow2 : forall k : Z, (0 <= k)%Z -> inject_Z (2 ^ k) == 2 ^ k.
Proof. intros k Hk. change (2 : Q) with (inject_Z 2). apply Zpower_Qpower. exact Hk. Qed.

(* a value m * 2^e with 2^(p-1) <= m <= 2^p is left alone *)
Lemma rnd_pos_fix : forall p m e r, (1 <= p)%Z -> (2 ^ (p - 1) <= m <= 2 ^ p)%Z ->
  r == inject_Z m * 2 ^ e -> rnd_pos p r == r.
Proof.
  intros p m e r Hp [Hm1 Hm2] Hr.
  pose proof (two_pow_pos e) as He.
  assert (Hlo : 2 ^ (p - 1) <= inject_Z m).
  { rewrite <- inj_pow2 by lia. rewrite <- Zle_Qle. exact Hm1. }
  assert (Hpp : 0 < (2:Q) ^ (p - 1)) by apply two_pow_pos.
  assert (Hrpos : 0 < r).
  { rewrite Hr. apply Qmult_lt_0_compat; lra. }
  unfold rnd_pos. cbv zeta. fold (rnd_L r).
  destruct (Z.eq_dec m (2 ^ p)) as [Em|Em].
  - (* m = 2^p: one binade up *)
    assert (EL : rnd_L r = (e + p)%Z).
    { apply rnd_L_unique; [exact Hrpos| |].
      - rewrite Hr, Em, inj_pow2 by lia. rewrite two_pow_add. rewrite Qmult_comm. lra.
      - rewrite Hr, Em, inj_pow2 by lia. replace (e + p + 1)%Z with (p + e + 1)%Z by lia.
        rewrite !two_pow_add. change (2 ^ 1) with 2.
        assert (0 < 2 ^ p * 2 ^ e) by (apply Qmult_lt_0_compat; [apply two_pow_pos|exact He]).
        lra. }
    rewrite EL. replace (e + p - (p - 1))%Z with (e + 1)%Z by lia.
    assert (Ey : r * 2 ^ (- (e + 1)) == inject_Z (2 ^ (p - 1))).
    { rewrite Hr, Em, !inj_pow2 by lia. rewrite <- Qmult_assoc, <- !two_pow_add.
      replace (p + (e + - (e + 1)))%Z with (p - 1)%Z by lia. reflexivity. }
    rewrite (rne_int _ _ Ey). rewrite Hr, Em, !inj_pow2 by lia. rewrite <- !two_pow_add.
    replace (p - 1 + (e + 1))%Z with (p + e)%Z by lia. reflexivity.
  - assert (Hm3 : (m + 1 <= 2 ^ p)%Z) by lia.
    assert (Hhi : inject_Z m + 1 <= 2 ^ p).
    { rewrite <- inj_pow2 by lia. change 1 with (inject_Z 1) at 1. rewrite <- inject_Z_plus.
      rewrite <- Zle_Qle. exact Hm3. }
    assert (EL : rnd_L r = (e + p - 1)%Z).
    { apply rnd_L_unique; [exact Hrpos| |].
      - rewrite Hr. replace (e + p - 1)%Z with ((p - 1) + e)%Z by lia. rewrite two_pow_add.
        apply Qmult_le_compat_r; [exact Hlo|lra].
      - rewrite Hr. replace (e + p - 1 + 1)%Z with (p + e)%Z by lia. rewrite two_pow_add.
        apply Qmult_lt_compat_r; [exact He|lra]. }
    rewrite EL. replace (e + p - 1 - (p - 1))%Z with e by lia.
    assert (Ey : r * 2 ^ (- e) == inject_Z m).
    { rewrite Hr, <- Qmult_assoc, <- two_pow_add. replace (e + - e)%Z with 0%Z by lia.
      change (2 ^ 0) with 1. ring. }
    rewrite (rne_int _ _ Ey). symmetry. exact Hr.
Qed.

(* the value produced by rnd_pos has this shape *)
Lemma rnd_pos_shape : forall p x, (1 <= p)%Z -> 0 < x ->
  exists m e, (2 ^ (p - 1) <= m <= 2 ^ p)%Z /\ rnd_pos p x = inject_Z m * 2 ^ e.
Proof.
  intros p x Hp Hx. unfold rnd_pos. cbv zeta. fold (rnd_L x).
  set (e := (rnd_L x - (p - 1))%Z). set (y := x * 2 ^ (- e)).
  exists (rne (Qnum y) (Qden y)), e. split; [|reflexivity].
  pose proof (rnd_L_low x Hx) as H1. pose proof (rnd_L_high x Hx) as H2.
  pose proof (two_pow_pos (- e)) as He.
  apply rne_range.
  - rewrite inj_pow2 by lia. unfold y.
    assert (E1 : 2 ^ (p - 1) == 2 ^ rnd_L x * 2 ^ (- e)).
    { rewrite <- two_pow_add. replace (rnd_L x + - e)%Z with (p - 1)%Z by (unfold e; lia). reflexivity. }
    rewrite E1. apply Qmult_le_compat_r; [exact H1|lra].
  - rewrite inj_pow2 by lia. unfold y.
    assert (E1 : 2 ^ p == 2 ^ (rnd_L x + 1) * 2 ^ (- e)).
    { rewrite <- two_pow_add. replace (rnd_L x + 1 + - e)%Z with p by (unfold e; lia). reflexivity. }
    rewrite E1. apply Qlt_le_weak. apply Qmult_lt_compat_r; [exact He|exact H2].
Qed.

Lemma rnd_prec_of_pos : forall p v, 0 < v -> rnd_prec p v = rnd_pos p (Qred v).
Proof.
  intros p v Hv. unfold rnd_prec. cbv zeta.
  pose proof (Qred_correct v) as Hr.
  destruct (Qred v) as [n d] eqn:E. cbn [Qnum]. destruct n as [|n|n]; [| reflexivity |].
  - exfalso. assert (H : 0 # d == 0) by reflexivity. rewrite H in Hr. lra.
  - exfalso. assert (H : Zneg n # d < 0) by reflexivity. lra.
Qed.

Lemma rnd_prec_of_neg : forall p v, v < 0 -> rnd_prec p v = - rnd_pos p (- Qred v).
Proof.
  intros p v Hv. unfold rnd_prec. cbv zeta.
  pose proof (Qred_correct v) as Hr.
  destruct (Qred v) as [n d] eqn:E. cbn [Qnum]. destruct n as [|n|n]; [| | reflexivity].
  - exfalso. assert (H : 0 # d == 0) by reflexivity. rewrite H in Hr. lra.
  - exfalso. assert (H : 0 < Zpos n # d) by reflexivity. lra.
Qed.

Lemma rnd_prec_shape : forall p x, (1 <= p)%Z ->
  rnd_prec p x = 0 \/
  exists m e, (2 ^ (p - 1) <= m <= 2 ^ p)%Z /\
    (rnd_prec p x = inject_Z m * 2 ^ e \/ rnd_prec p x = - (inject_Z m * 2 ^ e)).
Proof.
  intros p x Hp. unfold rnd_prec. cbv zeta.
  destruct (Qred x) as [n d]. cbn [Qnum]. destruct n as [|n|n].
  - left. reflexivity.
  - right. assert (Hx : 0 < Zpos n # d) by reflexivity.
    destruct (rnd_pos_shape p (Zpos n # d) Hp Hx) as [m [e [Hm Ev]]].
    exists m, e. split; [exact Hm|left; exact Ev].
  - right. assert (Hx : 0 < - (Zneg n # d)) by reflexivity.
    destruct (rnd_pos_shape p (- (Zneg n # d)) Hp Hx) as [m [e [Hm Ev]]].
    exists m, e. split; [exact Hm|right]. rewrite Ev. reflexivity.
Qed.

Theorem rnd_prec_idem : forall p x, (1 <= p)%Z -> rnd_prec p (rnd_prec p x) == rnd_prec p x.
Proof.
  intros p x Hp. destruct (rnd_prec_shape p x Hp) as [E|[m [e [Hm [E|E]]]]]; rewrite E.
  - reflexivity.
  - set (v := inject_Z m * 2 ^ e).
    assert (Hv : 0 < v).
    { unfold v. apply Qmult_lt_0_compat; [|apply two_pow_pos].
      assert (H : (0 < 2 ^ (p - 1))%Z) by (apply Z.pow_pos_nonneg; lia).
      change 0 with (inject_Z 0). rewrite <- Zlt_Qlt. lia. }
    rewrite (rnd_prec_of_pos p v Hv).
    rewrite (rnd_pos_fix p m e (Qred v) Hp Hm); [apply Qred_correct|].
    rewrite Qred_correct. reflexivity.
  - set (u := inject_Z m * 2 ^ e).
    assert (Hu : 0 < u).
    { unfold u. apply Qmult_lt_0_compat; [|apply two_pow_pos].
      assert (H : (0 < 2 ^ (p - 1))%Z) by (apply Z.pow_pos_nonneg; lia).
      change 0 with (inject_Z 0). rewrite <- Zlt_Qlt. lia. }
    assert (Hv : - u < 0) by lra.
    rewrite (rnd_prec_of_neg p (- u) Hv).
    rewrite (rnd_pos_fix p m e (- Qred (- u)) Hp Hm).
    + rewrite Qred_correct. ring.
    + rewrite Qred_correct. unfold u. ring.
Qed.

Theorem rnd53_idem : forall x, rnd53 (rnd53 x) == rnd53 x.
Proof. intro x. apply rnd_prec_idem. lia. Qed.

Print Assumptions rnd53_idem.
