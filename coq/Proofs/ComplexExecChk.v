(* C04 for Gillespie_complex_contagion: the rows of every run (every draw script) pass the
   decidable trajectory checker wf_gtrajb of Model/GenxChk.v, with "any status to any status" as
   the legal moves (the user's transition_choice may answer anything within the status universe
   [sts]): one count per return status, counts within 0..N (summing to N when return_statuses
   covers the universe), first time tmin, times non-decreasing and below tmax, one node moves
   per row. *)
From EoNV Require Import Prelude Samp Graph ListDict ListDictP Gillespie KldP GillespieInv SampP Simple SimpleP
  SimpleExecS SimpleExec SimpleExecLog SimpleExecTop SimpleExecChk.
From EoNV Require Complex ComplexP ComplexExec.
From EoNV Require Investigation InvestigationP.
From Coq Require Import Lqa.

Definition all_moves (sts : list N) : list (N * N) := list_prod sts sts.

Lemma counts_census : forall g rstats st, Complex.counts g rstats st = census g rstats st.
Proof. reflexivity. Qed.

Section CC.
Variable g : graph.
Hypothesis Hnd : NoDup (gnodes g).
Variable rstat : list N.

Lemma gmove_ok_any : forall mv st m new, In m (gnodes g) -> In (st m, new) mv ->
  gmove_okb mv rstat (census g rstat st) (census g rstat (fupdN st m new)) = true.
Proof.
  intros mv st m new Hm Hin. unfold gmove_okb. apply existsb_exists. exists (st m, new).
  split; [exact Hin|]. cbn [fst snd]. apply andb_true_iff. split.
  - unfold census. rewrite (next_counts_track g Hnd rstat st _ _ Hm). apply zlist_eqb_refl.
  - apply forallb_forall. intros [x c] Hx. cbn [fst snd]. unfold census in Hx. apply in_combine_map in Hx. subst c.
    destruct (N.eqb_spec x (st m)) as [E|E]; cbn [negb orb]; [|reflexivity].
    apply Z.ltb_lt. subst x. unfold count_status.
    assert (Hf : In m (filter (fun u => N.eqb (st u) (st m)) (gnodes g))).
    { apply filter_In. split; [exact Hm|apply N.eqb_refl]. }
    destruct (filter _ (gnodes g)); [destruct Hf|cbn [length]; lia].
Qed.
End CC.

Section CX.
Variable g : graph.
Variable rate : Complex.smap -> node -> Q.
Variable choice : Complex.smap -> node -> N.
Variable infl : Complex.smap -> node -> list node.
Variable rstats : list N.
Variable tmin : Q.
Variable tmax : xtime.
Variable full : bool.
Hypothesis Hnd : NoDup (gnodes g).
Hypothesis rate_nonneg : forall st u, 0 <= rate st u.
Hypothesis infl_in : forall st u v, In u (gnodes g) -> In v (infl st u) -> In v (gnodes g).
Hypothesis covers : ComplexP.influence_covers g rate infl.
Variable sts : list N.                                   (* the status universe of the user's model *)
Hypothesis choice_in : forall st u, In (choice st u) sts.

Lemma clog_gsteps : forall cov, (cov = true -> forall s, In s sts -> In s rstats) ->
  forall st t evs st' t', ComplexExec.clog g rate choice tmax st t evs st' t' ->
  (forall u, In u (gnodes g) -> In (st u) sts) ->
  gsteps_okb (order g) (all_moves sts) rstats cov tmax (t, census g rstats st)
             (map (ComplexP.row_of g rstats) (ComplexP.statuses choice st evs)) = true.
Proof.
  intros cov Hcov st t evs st' t' Hl. induction Hl as [|st t t1 u l st' t' Ht Hx Hu Hr Hl IH]; intro Hst; [reflexivity|].
  cbn [ComplexP.statuses map gsteps_okb fst snd]. change (ComplexP.row_of g rstats (t1, fupdN st u (choice st u))) with (t1, census g rstats (fupdN st u (choice st u))). cbn [fst snd].
  assert (Hst' : forall v, In v (gnodes g) -> In (fupdN st u (choice st u) v) sts).
  { intros v Hv. unfold fupdN. destruct (N.eqb v u); [apply choice_in|apply Hst; exact Hv]. }
  rewrite (proj2 (InvestigationP.qleb_t t t1) Ht), Hx. cbn [andb].
  rewrite (gmove_ok_any g Hnd rstats (all_moves sts) st u (choice st u) Hu).
  2:{ unfold all_moves. apply in_prod; [apply Hst; exact Hu|apply choice_in]. }
  rewrite (grow_ok_census g rstats _ cov).
  2:{ intros Hc v Hv. apply (Hcov Hc). apply Hst'. exact Hv. }
  cbn [andb]. apply IH. exact Hst'.
Qed.

Theorem complex_wf_gtrajb_accepts : forall (ic : node -> option N) fuel ds out tr cov,
  (forall u, In u (gnodes g) -> ic u <> None) ->
  (forall u s, In u (gnodes g) -> ic u = Some s -> In s sts) ->
  (cov = true -> forall s, In s sts -> In s rstats) ->
  exec (Complex.complex g rate choice infl rstats tmin tmax full ic fuel) ds [] = (Ok out, tr) ->
  wf_gtrajb (order g) (all_moves sts) rstats cov tmin tmax (so_rows (fst out)) = true.
Proof.
  intros ic fuel ds out tr cov Hic Hics Hcov Hex.
  destruct (ComplexExec.complex_exec_output g rate choice infl rstats tmin tmax full Hnd rate_nonneg infl_in covers ic fuel ds out tr Hic Hex)
    as [evs [st' [t' [Hlog [Hrows _]]]]].
  set (st0 := fun u => match ic u with Some s => s | None => 0%N end) in *.
  assert (Hst0 : forall u, In u (gnodes g) -> In (st0 u) sts).
  { intros u Hu. unfold st0. specialize (Hic u Hu). destruct (ic u) as [s|] eqn:E; [apply (Hics u s Hu E)|contradiction Hic; reflexivity]. }
  rewrite Hrows. unfold wf_gtrajb. cbn [fst snd]. change (Complex.counts g rstats st0) with (census g rstats st0).
  rewrite (proj2 (InvestigationP.qeqb_t tmin tmin) (Qeq_refl _)). cbn [andb].
  rewrite (grow_ok_census g rstats st0 cov).
  2:{ intros Hc v Hv. apply (Hcov Hc). apply Hst0. exact Hv. }
  cbn [andb]. apply (clog_gsteps cov Hcov st0 tmin evs st' t' Hlog Hst0).
Qed.

End CX.
