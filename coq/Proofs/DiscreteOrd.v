(* Independence of the discrete-time simulators from Python's set iteration order, part 1:
   list lemmas and the contact loop of discrete_SIR.
     - nsort of two permutations of one another is the same list, hence the scripted
       random.choice of [det_rules] does not depend on the order in which the candidates were
       collected;
     - with table rules the `infector` dictionary built by one pass of the double loop is, key by
       key, the list of the successful contacts into that key (in contact order); for two
       iteration orders the keys and the per-key candidate lists are permutations of one another;
     - the transmissions appended by `picks` in one step are therefore permutations of one
       another. *)
From EoNV Require Import Prelude Samp Graph Discrete DiscreteP DiscreteRun.
From Coq Require Import Permutation Lia.

(* ------------------------------------------------------------------ *)
(* Part 1: sorting                                                      *)

Lemma ninsert_comm : forall x y l, ninsert x (ninsert y l) = ninsert y (ninsert x l).
Proof.
  intros x y l. induction l as [|h t IH].
  - cbn [ninsert]. destruct (N.leb_spec x y), (N.leb_spec y x); try reflexivity; try lia.
    assert (E : x = y) by lia. subst y. reflexivity.
  - cbn [ninsert].
    destruct (N.leb_spec y h) as [Hy|Hy], (N.leb_spec x h) as [Hx|Hx]; cbn [ninsert].
    + destruct (N.leb_spec x y) as [A|A], (N.leb_spec y x) as [B|B]; try lia.
      * assert (E : x = y) by lia. subst y. reflexivity.
      * destruct (N.leb_spec y h); [reflexivity|lia].
      * destruct (N.leb_spec x h); [reflexivity|lia].
    + destruct (N.leb_spec x y) as [A|A]; [lia|].
      destruct (N.leb_spec x h); [lia|]. destruct (N.leb_spec y h); [reflexivity|lia].
    + destruct (N.leb_spec y x) as [B|B]; [lia|].
      destruct (N.leb_spec y h); [lia|]. destruct (N.leb_spec x h); [reflexivity|lia].
    + destruct (N.leb_spec x h); [lia|]. destruct (N.leb_spec y h); [lia|]. rewrite IH. reflexivity.
Qed.

(* sorted(seq) depends only on the multiset *)
Theorem nsort_perm : forall c1 c2, Permutation c1 c2 -> nsort c1 = nsort c2.
Proof.
  intros c1 c2 P. induction P as [|x l l' P IH|x y l|l l' l'' P1 IH1 P2 IH2].
  - reflexivity.
  - unfold nsort in *. cbn [fold_right]. rewrite IH. reflexivity.
  - unfold nsort. cbn [fold_right]. apply ninsert_comm.
  - congruence.
Qed.

Theorem det_pick_perm : forall tt pick k v c1 c2, Permutation c1 c2 ->
  nsort c1 = nsort c2 /\ r_pick (det_rules tt pick) k v c1 = r_pick (det_rules tt pick) k v c2.
Proof.
  intros tt pick k v c1 c2 P. split; [apply nsort_perm; exact P|].
  cbn [det_rules r_pick]. rewrite (nsort_perm c1 c2 P), (Permutation_length P). reflexivity.
Qed.

(* the node chosen by the table rule *)
Definition chosen (pick : nat -> node -> nat) (k : nat) (v : node) (c : list node) : node :=
  nth (Nat.modulo (pick k v) (length c)) (nsort c) v.

Lemma chosen_perm : forall pick k v c1 c2, Permutation c1 c2 -> chosen pick k v c1 = chosen pick k v c2.
Proof. intros pick k v c1 c2 P. unfold chosen. rewrite (nsort_perm c1 c2 P), (Permutation_length P). reflexivity. Qed.

Definition tx_of (pick : nat -> node -> nat) (k : nat) (t : Q) (e : node * list node) : Q * option node * node :=
  (t, Some (chosen pick k (fst e) (snd e)), fst e).

Lemma picks_det_val : forall tt pick k t inf tl pl, Forall (fun e : node * list node => snd e <> []) inf ->
  picks (det_rules tt pick) k t inf tl pl =
  Ret (rev (map (tx_of pick k t) inf) ++ tl, rev (map (fun e => (k, fst e, nsort (snd e))) inf) ++ pl).
Proof.
  intros tt pick k t inf. induction inf as [|[v c] inf IH]; intros tl pl Hf; [reflexivity|].
  inversion Hf as [|e l Hc Hf']; subst. cbn [snd] in Hc.
  cbn [picks det_rules r_pick].
  assert (Hlt : (Nat.modulo (pick k v) (length c) < length (nsort c))%nat).
  { rewrite length_nsort. apply Nat.mod_upper_bound. destruct c; [contradiction|discriminate]. }
  rewrite (nth_error_nth' (nsort c) v Hlt). cbn [bind].
  rewrite (IH _ _ Hf'). cbn [map rev fst snd]. rewrite <- !app_assoc. reflexivity.
Qed.

(* ------------------------------------------------------------------ *)
(* Part 2: permutations                                                 *)

Lemma perm_filter : forall (A : Type) (f : A -> bool) l l', Permutation l l' -> Permutation (filter f l) (filter f l').
Proof.
  intros A f l l' P. induction P as [|x l l' P IH|x y l|l l' l'' P1 IH1 P2 IH2].
  - constructor.
  - cbn [filter]. destruct (f x); [constructor|]; exact IH.
  - cbn [filter]. destruct (f y), (f x); try apply Permutation_refl. constructor.
  - eapply Permutation_trans; eassumption.
Qed.

Lemma perm_contacts : forall g us us', Permutation us us' -> Permutation (contacts g us) (contacts g us').
Proof. intros g us us' P. unfold contacts. apply Permutation_flat_map. exact P. Qed.

(* the entries of one node do not see the order of a block of same-time same-status appends *)
Lemma node_events_perm : forall v (t : Q) (st : N) l l', Permutation l l' ->
  node_events v (map (fun u => (t, u, st)) l) = node_events v (map (fun u => (t, u, st)) l').
Proof.
  intros v t st l l' P. induction P as [|x l l' P IH|x y l|l l' l'' P1 IH1 P2 IH2].
  - reflexivity.
  - unfold node_events in *. cbn [map filter fst snd]. destruct (N.eqb x v); cbn [map]; rewrite IH; reflexivity.
  - unfold node_events. cbn [map filter fst snd]. destruct (N.eqb y v), (N.eqb x v); reflexivity.
  - congruence.
Qed.

Lemma node_events_rev_block : forall v (t : Q) (st : N) l l' h h', Permutation l l' ->
  node_events v (rev h) = node_events v (rev h') ->
  node_events v (rev (rev (map (fun u => (t, u, st)) l) ++ h)) =
  node_events v (rev (rev (map (fun u => (t, u, st)) l') ++ h')).
Proof.
  intros v t st l l' h h' P H. rewrite !rev_app_distr, !rev_involutive, !node_events_app.
  rewrite H, (node_events_perm v t st l l' P). reflexivity.
Qed.

Lemma lenZ_perm : forall (A : Type) (l l' : list A), Permutation l l' -> lenZ l = lenZ l'.
Proof. intros A l l' P. unfold lenZ. rewrite (Permutation_length P). reflexivity. Qed.

(* ------------------------------------------------------------------ *)
(* Part 3: the `infector` dictionary                                    *)

(* infector[w] (the empty list when w is not a key) *)
Definition cand (inf : list (node * list node)) (w : node) : list node :=
  flat_map (fun e => if N.eqb (fst e) w then snd e else []) inf.

Lemma cand_app : forall inf inf' w, cand (inf ++ inf') w = cand inf w ++ cand inf' w.
Proof. intros. unfold cand. apply flat_map_app. Qed.

Lemma cand_nokey : forall inf w, ~ In w (map fst inf) -> cand inf w = [].
Proof.
  induction inf as [|[a c] inf IH]; intros w H; [reflexivity|].
  cbn [cand flat_map fst snd]. cbn [map fst In] in H.
  destruct (N.eqb_spec a w) as [E|E]; [exfalso; apply H; left; exact E|].
  cbn [app]. apply IH. intro K. apply H. right. exact K.
Qed.

Lemma inf_append_nokey : forall inf v u, ~ In v (map fst inf) -> inf_append inf v u = inf.
Proof.
  induction inf as [|[a c] inf IH]; intros v u H; [reflexivity|].
  unfold inf_append in *. cbn [map fst snd]. cbn [map fst In] in H.
  destruct (N.eqb_spec a v) as [E|E]; [exfalso; apply H; left; exact E|].
  rewrite IH; [reflexivity|]. intro K. apply H. right. exact K.
Qed.

Lemma cand_inf_append : forall inf v u w, NoDup (map fst inf) -> In v (map fst inf) ->
  cand (inf_append inf v u) w = cand inf w ++ (if N.eqb v w then [u] else []).
Proof.
  induction inf as [|[a c] inf IH]; intros v u w Hn Hin; [destruct Hin|].
  cbn [map fst] in Hn, Hin. inversion Hn as [|x l Ha Hn']; subst.
  change (inf_append ((a, c) :: inf) v u) with
    ((if N.eqb a v then (a, c ++ [u]) else (a, c)) :: inf_append inf v u).
  destruct (N.eqb_spec a v) as [E|E].
  - subst a. rewrite (inf_append_nokey inf v u Ha).
    cbn [cand flat_map fst snd]. fold (cand inf w).
    destruct (N.eqb_spec v w) as [E2|E2].
    + subst w. rewrite (cand_nokey inf v Ha). rewrite !app_nil_r. reflexivity.
    + rewrite app_nil_r. reflexivity.
  - destruct Hin as [Hin|Hin]; [contradiction|].
    cbn [cand flat_map fst snd]. fold (cand (inf_append inf v u) w). fold (cand inf w).
    rewrite (IH v u w Hn' Hin). rewrite app_assoc. reflexivity.
Qed.

Lemma snd_cand : forall inf e, NoDup (map fst inf) -> In e inf -> snd e = cand inf (fst e).
Proof.
  induction inf as [|[a c] inf IH]; intros e Hn Hin; [destruct Hin|].
  cbn [map fst] in Hn. inversion Hn as [|x l Ha Hn']; subst.
  cbn [cand flat_map fst snd]. fold (cand inf (fst e)).
  destruct Hin as [Hin|Hin].
  - subst e. cbn [fst snd]. rewrite N.eqb_refl, (cand_nokey inf a Ha), app_nil_r. reflexivity.
  - destruct (N.eqb_spec a (fst e)) as [E|E].
    + exfalso. apply Ha. rewrite E. apply in_map. exact Hin.
    + cbn [app]. apply IH; assumption.
Qed.

Lemma map_by_keys : forall (B : Type) (F : node -> list node -> B) inf, NoDup (map fst inf) ->
  map (fun e => F (fst e) (snd e)) inf = map (fun v => F v (cand inf v)) (map fst inf).
Proof.
  intros B F inf Hn. rewrite map_map. apply map_ext_in. intros e He.
  rewrite (snd_cand inf e Hn He). reflexivity.
Qed.

(* the transmissions appended in one step, for two dictionaries with permuted keys and, key by
   key, permuted candidate lists *)
Lemma tx_perm : forall pick k t inf1 inf2, NoDup (map fst inf1) -> NoDup (map fst inf2) ->
  Permutation (map fst inf1) (map fst inf2) ->
  (forall w, Permutation (cand inf1 w) (cand inf2 w)) ->
  Permutation (map (tx_of pick k t) inf1) (map (tx_of pick k t) inf2).
Proof.
  intros pick k t inf1 inf2 H1 H2 Pk Pc.
  unfold tx_of.
  rewrite (map_by_keys _ (fun v c => (t, Some (chosen pick k v c), v)) inf1 H1).
  rewrite (map_by_keys _ (fun v c => (t, Some (chosen pick k v c), v)) inf2 H2).
  rewrite (map_ext (fun v => (t, Some (chosen pick k v (cand inf1 v)), v))
                   (fun v => (t, Some (chosen pick k v (cand inf2 v)), v))).
  - apply Permutation_map. exact Pk.
  - intro v. rewrite (chosen_perm pick k v _ _ (Pc v)). reflexivity.
Qed.

(* ------------------------------------------------------------------ *)
(* Part 4: the contact loop of discrete_SIR                             *)

Section CFold.
Variable tt : node -> node -> nat -> bool.

(* the contact e is a successful contact into w *)
Definition sel (age : node -> nat) (w : node) (e : node * node) : bool :=
  N.eqb (snd e) w && tt (fst e) (snd e) (age (fst e)).

Lemma hitc_sel : forall age cs w, hitc tt age cs w = existsb (sel age w) cs.
Proof. reflexivity. Qed.

Lemma cfold_keys : forall full k age cs c, map fst (c_inf c) = rev (c_new c) ->
  map fst (c_inf (cfold tt full k age cs c)) = rev (c_new (cfold tt full k age cs c)).
Proof.
  intros full k age cs. induction cs as [|[u v] cs IH]; intros c Hk; [exact Hk|].
  cbn [cfold]. destruct (c_sus c v).
  - destruct (tt u v (age u)); apply IH; cbn [c_inf c_new]; [|exact Hk].
    rewrite map_app, Hk. reflexivity.
  - destruct (full && mem v (c_new c)); [destruct (tt u v (age u))|]; apply IH; cbn [c_inf c_new]; try exact Hk.
    rewrite inf_append_keys. exact Hk.
Qed.

(* with return_full_data: infector[w] = the successful contacts into w, in contact order *)
Lemma cfold_cand : forall k age cs c w, cinv c -> map fst (c_inf c) = rev (c_new c) ->
  cand (c_inf (cfold tt true k age cs c)) w =
  cand (c_inf c) w ++ (if c_sus c w || mem w (c_new c) then map fst (filter (sel age w) cs) else []).
Proof.
  intros k age cs. induction cs as [|[u v] cs IH]; intros c w Hc Hk.
  - cbn [cfold filter map]. destruct (c_sus c w || mem w (c_new c)); rewrite app_nil_r; reflexivity.
  - destruct Hc as [Hn [Hs Hf]].
    cbn [cfold]. cbn [filter]. unfold sel at 1. cbn [fst snd andb].
    destruct (c_sus c v) eqn:Es.
    + destruct (tt u v (age u)) eqn:Et.
      * rewrite IH.
        -- cbn [c_inf c_sus c_new]. rewrite cand_app. cbn [cand flat_map fst snd]. rewrite app_nil_r.
           unfold fupdN. rewrite mem_cons. rewrite (N.eqb_sym w v).
           destruct (N.eqb_spec v w) as [E|E].
           ++ subst w. rewrite Es. cbn [andb orb map fst]. rewrite <- app_assoc. reflexivity.
           ++ cbn [andb orb]. rewrite app_nil_r. reflexivity.
        -- split; [|split]; cbn [c_new c_sus c_inf].
           ++ constructor; [|exact Hn]. intro Hin. apply Hs in Hin. congruence.
           ++ intros x [E|Hin]; unfold fupdN.
              ** subst x. rewrite N.eqb_refl. reflexivity.
              ** destruct (N.eqb x v); [reflexivity|apply Hs; exact Hin].
           ++ apply Forall_app. split; [exact Hf|]. constructor; [|constructor]. cbn. discriminate.
        -- cbn [c_inf c_new]. rewrite map_app, Hk. reflexivity.
      * rewrite andb_false_r. rewrite IH; [reflexivity| |exact Hk]. split; [|split]; assumption.
    + cbn [andb]. destruct (mem v (c_new c)) eqn:Em.
      * destruct (tt u v (age u)) eqn:Et.
        -- rewrite IH.
           ++ cbn [c_inf c_sus c_new]. rewrite cand_inf_append.
              ** destruct (N.eqb_spec v w) as [E|E].
                 --- subst w. rewrite Em, orb_true_r. cbn [andb map fst]. rewrite <- app_assoc. reflexivity.
                 --- cbn [andb]. rewrite app_nil_r. reflexivity.
              ** rewrite Hk. apply NoDup_rev. exact Hn.
              ** rewrite Hk. apply -> in_rev. apply dmem_In. exact Em.
           ++ split; [|split]; cbn [c_new c_sus c_inf]; try assumption.
              unfold inf_append. apply Forall_forall. intros e He. apply in_map_iff in He.
              destruct He as [e0 [E He0]]. rewrite Forall_forall in Hf. specialize (Hf e0 He0).
              destruct (N.eqb (fst e0) v); subst e; cbn [snd]; [|exact Hf].
              intro H. apply app_eq_nil in H. destruct H as [_ H]. discriminate.
           ++ cbn [c_inf c_new]. rewrite inf_append_keys. exact Hk.
        -- rewrite andb_false_r. rewrite IH; [reflexivity| |exact Hk]. split; [|split]; assumption.
      * rewrite IH; [|split; [|split]; assumption|exact Hk].
        destruct (N.eqb_spec v w) as [E|E]; [|reflexivity].
        subst w. rewrite Es, Em. cbn [orb]. destruct (tt u v (age u)); reflexivity.
Qed.

Lemma sel_ext : forall age age' w e, (forall u, age u = age' u) -> sel age w e = sel age' w e.
Proof. intros age age' w e H. unfold sel. rewrite H. reflexivity. Qed.

Lemma hitc_perm : forall age cs cs' w, Permutation cs cs' -> hitc tt age cs w = hitc tt age cs' w.
Proof. intros. unfold hitc. apply existsb_perm. assumption. Qed.

Lemma hitc_ext : forall age age' cs w, (forall u, age u = age' u) -> hitc tt age cs w = hitc tt age' cs w.
Proof.
  intros age age' cs w H. unfold hitc. induction cs as [|e cs IH]; [reflexivity|].
  cbn [existsb]. rewrite IH, H. reflexivity.
Qed.

(* one pass of the double loop from related states over permuted contact lists *)
Lemma cfold_ord : forall full k age age' cs cs' sus sus' nS q q',
  Permutation cs cs' -> (forall u, age u = age' u) -> (forall v, sus v = sus' v) ->
  let c := cfold tt full k age cs (mkC sus [] [] nS q) in
  let c' := cfold tt full k age' cs' (mkC sus' [] [] nS q') in
  (forall v, c_sus c v = c_sus c' v) /\ (forall v, mem v (c_new c) = mem v (c_new c')) /\
  Permutation (c_new c) (c_new c') /\ c_nS c = c_nS c' /\
  NoDup (map fst (c_inf c)) /\ NoDup (map fst (c_inf c')) /\
  Permutation (map fst (c_inf c)) (map fst (c_inf c')) /\
  Forall (fun e => snd e <> []) (c_inf c) /\ Forall (fun e => snd e <> []) (c_inf c') /\
  (full = true -> forall w, Permutation (cand (c_inf c) w) (cand (c_inf c') w)).
Proof.
  intros full k age age' cs cs' sus sus' nS q q' P Ha Hs c c'.
  assert (I0 : forall s q0, cinv (mkC s [] [] nS q0)).
  { intros s q0. split; [constructor|]. split; [intros v []|constructor]. }
  pose proof (cfold_inv tt full k age cs _ (I0 sus q)) as [Hn [_ Hf]]. fold c in Hn, Hf.
  pose proof (cfold_inv tt full k age' cs' _ (I0 sus' q')) as [Hn' [_ Hf']]. fold c' in Hn', Hf'.
  assert (Hk : map fst (c_inf c) = rev (c_new c)) by (apply cfold_keys; reflexivity).
  assert (Hk' : map fst (c_inf c') = rev (c_new c')) by (apply cfold_keys; reflexivity).
  assert (Hh : forall v, hitc tt age cs v = hitc tt age' cs' v).
  { intro v. rewrite (hitc_perm age cs cs' v P). apply hitc_ext. exact Ha. }
  assert (Hm : forall v, mem v (c_new c) = mem v (c_new c')).
  { intro v. unfold c, c'. rewrite !cfold_new. cbn [c_new c_sus]. rewrite Hs, Hh. reflexivity. }
  assert (Pn : Permutation (c_new c) (c_new c')).
  { apply NoDup_Permutation; [exact Hn|exact Hn'|]. intro v. rewrite <- !dmem_In, Hm. tauto. }
  split. { intro v. unfold c, c'. rewrite !cfold_sus. cbn [c_sus]. rewrite Hs, Hh. reflexivity. }
  split; [exact Hm|]. split; [exact Pn|].
  split. { unfold c at 1, c' at 1. rewrite !cfold_nS. fold c. fold c'. cbn [c_nS c_new]. rewrite (lenZ_perm _ _ _ Pn). reflexivity. }
  split; [rewrite Hk; apply NoDup_rev; exact Hn|]. split; [rewrite Hk'; apply NoDup_rev; exact Hn'|].
  split. { rewrite Hk, Hk'. rewrite <- !Permutation_rev. exact Pn. }
  split; [exact Hf|]. split; [exact Hf'|].
  intros Ef w. subst full. unfold c, c'. rewrite !cfold_cand by (try apply I0; reflexivity).
  cbn [c_inf c_sus c_new cand flat_map app mem existsb]. rewrite !orb_false_r, <- Hs.
  destruct (sus w); [|constructor].
  apply Permutation_map.
  rewrite (filter_ext (sel age w) (sel age' w)) by (intro e; apply sel_ext; exact Ha).
  apply perm_filter. exact P.
Qed.

End CFold.
