(* The principle of deferred decisions for oracle trees (Model/DiscreteO.v).

   [expect q es h]: expectation of h(kept) when every arc of the list es is kept
   independently with probability q (kept = the sub-list of kept arcs).
   [fresh_in es t]: along every branch of t every question (u, v) belongs to es and is
   asked at most once.
   [deferred]: if es is duplicate-free and t is fresh in es, answering every question of
   t by a fresh coin Flip p has the same law as first flipping one coin per arc of es
   and then answering from that table:
       prob f (law (lazy p t)) == expect (clamp01 p) es (fun kept => prob f (law (eager (tbl kept) t))).
   [perc_expect]: perc_loop of Model/Discrete.v (the loop of percolate_network) IS that
   product experiment.  Everything is over Q and lists; no axioms. *)
From EoNV Require Import Prelude Samp Graph Discrete DiscreteP DiscreteO DiscreteOP.
From Coq Require Import Lqa.

Definition arc := (node * node)%type.

(* the table read off a list of kept arcs *)
Definition tbl (kept : list arc) (u v : node) : bool := meme (u, v) kept.

Definition rm (e : arc) (es : list arc) : list arc := filter (fun e' => negb (eeqb e e')) es.

Fixpoint expect (q : Q) (es : list arc) (h : list arc -> Q) : Q :=
  match es with
  | [] => h []
  | e :: es' => q * expect q es' (fun k => h (e :: k)) + (1 - q) * expect q es' h
  end.

Fixpoint fresh_in {A} (es : list arc) (t : otree A) : Prop :=
  match t with
  | ORet _ => True
  | OFail _ => True
  | OAsk u v kt kf => In (u, v) es /\ fresh_in (rm (u, v) es) kt /\ fresh_in (rm (u, v) es) kf
  | OUnif c k => forall x, fresh_in es (k x)
  end.

(* every leaf satisfies P *)
Fixpoint oall {A} (P : A -> Prop) (t : otree A) : Prop :=
  match t with
  | ORet a => P a
  | OFail _ => True
  | OAsk _ _ kt kf => oall P kt /\ oall P kf
  | OUnif c k => forall x, oall P (k x)
  end.

(* ------------------------------------------------------------------ *)
(* lists of arcs                                                        *)

Lemma eeqb_refl : forall e, eeqb e e = true.
Proof. intro e. destruct (eeqb_spec e e); [reflexivity|congruence]. Qed.

Lemma meme_false : forall e l, meme e l = false <-> ~ In e l.
Proof.
  intros e l. rewrite <- meme_In. destruct (meme e l); split; intro H.
  - discriminate.
  - exfalso. apply H. reflexivity.
  - intro H2. discriminate.
  - reflexivity.
Qed.

Lemma meme_cons : forall e x l, meme e (x :: l) = eeqb e x || meme e l.
Proof. reflexivity. Qed.

Lemma rm_In : forall e es x, In x (rm e es) <-> In x es /\ x <> e.
Proof.
  intros e es x. unfold rm. rewrite filter_In. split; intros [H1 H2]; (split; [exact H1|]).
  - intro E. subst x. rewrite eeqb_refl in H2. discriminate.
  - destruct (eeqb_spec e x) as [E|E]; [subst x; congruence|reflexivity].
Qed.

Lemma rm_notin : forall e es, ~ In e es -> rm e es = es.
Proof.
  intros e es. induction es as [|x es IH]; intro H; [reflexivity|].
  unfold rm in *. cbn [filter]. destruct (eeqb_spec e x) as [E|E].
  - subst x. exfalso. apply H. left. reflexivity.
  - cbn [negb]. rewrite IH; [reflexivity|]. intro H2. apply H. right. exact H2.
Qed.

Lemma rm_cons_same : forall e es, rm e (e :: es) = rm e es.
Proof. intros e es. unfold rm. cbn [filter]. rewrite eeqb_refl. reflexivity. Qed.

Lemma rm_cons_other : forall e x es, x <> e -> rm e (x :: es) = x :: rm e es.
Proof.
  intros e x es H. unfold rm. cbn [filter]. destruct (eeqb_spec e x) as [E|E]; [congruence|reflexivity].
Qed.

Lemma rm_app : forall e a b, rm e (a ++ b) = rm e a ++ rm e b.
Proof. intros. unfold rm. apply filter_app. Qed.

Lemma rm_NoDup : forall e es, NoDup es -> NoDup (rm e es).
Proof. intros e es H. unfold rm. apply List.NoDup_filter. exact H. Qed.

Lemma rm_incl : forall e es es', incl es es' -> incl (rm e es) (rm e es').
Proof. intros e es es' H x Hx. apply rm_In in Hx. apply rm_In. split; [apply H; apply Hx|apply Hx]. Qed.

(* ------------------------------------------------------------------ *)
(* expect                                                               *)

Lemma expect_ext_in : forall q es h h', (forall k, incl k es -> h k == h' k) ->
  expect q es h == expect q es h'.
Proof.
  intros q es. induction es as [|e es IH]; intros h h' H; cbn [expect].
  - apply H. intros x [].
  - rewrite (IH (fun k => h (e :: k)) (fun k => h' (e :: k))), (IH h h'); [reflexivity| |].
    + intros k Hk. apply H. intros x Hx. right. apply Hk. exact Hx.
    + intros k Hk. apply H. intros x [Hx|Hx]; [left; exact Hx|right; apply Hk; exact Hx].
Qed.

Lemma expect_ext : forall q es h h', (forall k, h k == h' k) -> expect q es h == expect q es h'.
Proof. intros q es h h' H. apply expect_ext_in. intros k _. apply H. Qed.

Lemma expect_const : forall q es c, expect q es (fun _ => c) == c.
Proof. intros q es c. induction es as [|e es IH]; cbn [expect]; [reflexivity|]. rewrite IH. ring. Qed.

Lemma expect_lin : forall q a es h1 h2,
  expect q es (fun k => a * h1 k + h2 k) == a * expect q es h1 + expect q es h2.
Proof.
  intros q a es. induction es as [|e es IH]; intros h1 h2; cbn [expect]; [reflexivity|].
  pose proof (IH (fun k => h1 (e :: k)) (fun k => h2 (e :: k))) as E1. cbv beta in E1.
  rewrite E1, (IH h1 h2). ring.
Qed.

(* h depends on the kept list only through membership *)
Definition minv (h : list arc -> Q) : Prop :=
  forall k1 k2, (forall e, meme e k1 = meme e k2) -> h k1 == h k2.

Lemma minv_cons : forall h e, minv h -> minv (fun k => h (e :: k)).
Proof. intros h e H k1 k2 Hk. apply H. intro x. rewrite !meme_cons, Hk. reflexivity. Qed.

(* the coin of any arc of a duplicate-free list can be flipped first *)
Lemma expect_pull : forall q es e h, NoDup es -> In e es -> minv h ->
  expect q es h == q * expect q (rm e es) (fun k => h (e :: k)) + (1 - q) * expect q (rm e es) h.
Proof.
  intros q es e. induction es as [|x es IH]; intros h Hnd Hin Hm; [destruct Hin|].
  inversion Hnd as [|y l Hx Hnd']; subst.
  destruct (eeqb_spec x e) as [E|E].
  - subst x. rewrite rm_cons_same, (rm_notin e es Hx). reflexivity.
  - destruct Hin as [Hin|Hin]; [contradiction|].
    rewrite (rm_cons_other e x es E). cbn [expect].
    pose proof (IH (fun k => h (x :: k)) Hnd' Hin (minv_cons h x Hm)) as E1. cbv beta in E1.
    rewrite E1, (IH h Hnd' Hin Hm).
    assert (Sw : expect q (rm e es) (fun k => h (x :: e :: k)) == expect q (rm e es) (fun k => h (e :: x :: k))).
    { apply expect_ext. intro k. apply Hm. intro y. rewrite !meme_cons.
      destruct (eeqb y x), (eeqb y e); reflexivity. }
    rewrite Sw. ring.
Qed.

(* ------------------------------------------------------------------ *)
(* fresh_in, oall                                                       *)

Lemma fresh_mono : forall A (t : otree A) es es', fresh_in es t -> incl es es' -> fresh_in es' t.
Proof.
  intros A t. induction t as [a|e|u v kt IHt kf IHf|c k IH]; intros es es' H Hi; cbn [fresh_in] in *; try exact I.
  - destruct H as [H1 [H2 H3]]. split; [apply Hi; exact H1|].
    split; [eapply IHt|eapply IHf]; try eassumption; apply rm_incl; exact Hi.
  - intro x. eapply IH; [apply H|exact Hi].
Qed.

Lemma oall_mono : forall A (P Q : A -> Prop) (t : otree A), oall P t -> (forall a, P a -> Q a) -> oall Q t.
Proof.
  intros A P Q t. induction t as [a|e|u v kt IHt kf IHf|c k IH]; intros H HPQ; cbn [oall] in *; try exact I.
  - apply HPQ. exact H.
  - destruct H as [H1 H2]. split; [apply IHt|apply IHf]; assumption.
  - intro x. apply IH; [apply H|exact HPQ].
Qed.

Lemma oall_bind : forall A B (P : A -> Prop) (Q : B -> Prop) (t : otree A) (K : A -> otree B),
  oall P t -> (forall a, P a -> oall Q (K a)) -> oall Q (obind t K).
Proof.
  intros A B P Q t K. induction t as [a|e|u v kt IHt kf IHf|c k IH]; intros H HK; cbn [oall obind] in *; try exact I.
  - apply HK. exact H.
  - destruct H as [H1 H2]. split; [apply IHt|apply IHf]; assumption.
  - intro x. apply IH; [apply H|exact HK].
Qed.

(* sequencing: t asks inside es1, and whatever it returns the continuation asks inside es2 *)
Lemma fresh_bind : forall A B (P : A -> Prop) (t : otree A) (K : A -> otree B) es1 es2,
  fresh_in es1 t -> oall P t -> (forall a, P a -> fresh_in es2 (K a)) ->
  (forall e, In e es1 -> ~ In e es2) ->
  fresh_in (es1 ++ es2) (obind t K).
Proof.
  intros A B P t K. induction t as [a|e|u v kt IHt kf IHf|c k IH]; intros es1 es2 Hf Ha HK Hd;
    cbn [fresh_in oall obind] in *; try exact I.
  - eapply fresh_mono; [apply HK; exact Ha|]. apply incl_appr. apply incl_refl.
  - destruct Hf as [H1 [H2 H3]]. destruct Ha as [Ha1 Ha2].
    split; [apply in_or_app; left; exact H1|].
    rewrite rm_app, (rm_notin (u, v) es2 (Hd _ H1)).
    assert (Hd' : forall e, In e (rm (u, v) es1) -> ~ In e es2).
    { intros e He. apply Hd. apply rm_In in He. apply He. }
    split; [apply IHt|apply IHf]; assumption.
  - intro x. apply IH; [apply Hf|apply Ha|exact HK|exact Hd].
Qed.

(* ------------------------------------------------------------------ *)
(* the eager interpretation only reads the table at the arcs it may ask  *)

Lemma eager_indep : forall A (t : otree A) es tb tb', fresh_in es t ->
  (forall u v, In (u, v) es -> tb u v = tb' u v) -> law (eager tb t) = law (eager tb' t).
Proof.
  intros A t. induction t as [a|e|u v kt IHt kf IHf|c k IH]; intros es tb tb' Hf Ht; cbn [fresh_in eager] in *;
    try reflexivity.
  - destruct Hf as [H1 [H2 H3]]. rewrite <- (Ht u v H1).
    assert (Ht' : forall u' v', In (u', v') (rm (u, v) es) -> tb u' v' = tb' u' v').
    { intros u' v' H. apply Ht. apply rm_In in H. apply H. }
    destruct (tb u v); [eapply IHt|eapply IHf]; eassumption.
  - cbn [law]. f_equal. apply map_ext. intro x. rewrite (IH x es tb tb'); [reflexivity|apply Hf|exact Ht].
Qed.

Lemma eager_ext : forall A (t : otree A) tb tb',
  (forall u v, tb u v = tb' u v) -> law (eager tb t) = law (eager tb' t).
Proof.
  intros A t. induction t as [a|e|u v kt IHt kf IHf|c k IH]; intros tb tb' Ht; cbn [eager]; try reflexivity.
  - rewrite <- (Ht u v). destruct (tb u v); [apply IHt|apply IHf]; exact Ht.
  - cbn [law]. f_equal. apply map_ext. intro x. rewrite (IH x tb tb' Ht). reflexivity.
Qed.

Lemma minv_eager : forall A (f : A -> bool) (t : otree A),
  minv (fun kept => prob f (law (eager (tbl kept) t))).
Proof.
  intros A f t k1 k2 H. rewrite (eager_ext A t (tbl k1) (tbl k2)); [reflexivity|].
  intros u v. unfold tbl. apply H.
Qed.

(* ------------------------------------------------------------------ *)
(* the deferred-decision theorem                                         *)

Section Deferred.
Variable p : Q.
Let q := clamp01 p.

Lemma prob_nil : forall A (f : A -> bool), prob f [] == 0.
Proof. intros. reflexivity. Qed.

Theorem deferred : forall A (f : A -> bool) (t : otree A) es,
  NoDup es -> fresh_in es t ->
  prob f (law (lazy p t)) == expect q es (fun kept => prob f (law (eager (tbl kept) t))).
Proof.
  intros A f t. induction t as [a|e|u v kt IHt kf IHf|c k IH]; intros es Hnd Hf.
  - cbn [lazy eager]. rewrite expect_const. reflexivity.
  - cbn [lazy eager]. rewrite expect_const. reflexivity.
  - cbn [fresh_in] in Hf. destruct Hf as [H1 [H2 H3]].
    cbn [lazy]. rewrite prob_flip. fold q.
    rewrite (IHt (rm (u, v) es) (rm_NoDup _ _ Hnd) H2), (IHf (rm (u, v) es) (rm_NoDup _ _ Hnd) H3).
    rewrite (expect_pull q es (u, v) _ Hnd H1 (minv_eager A f (OAsk u v kt kf))).
    assert (E1 : expect q (rm (u, v) es) (fun kept => prob f (law (eager (tbl kept) kt))) ==
                 expect q (rm (u, v) es) (fun k => prob f (law (eager (tbl ((u, v) :: k)) (OAsk u v kt kf))))).
    { apply expect_ext_in. intros k Hk. cbn [eager]. unfold tbl at 2. rewrite meme_cons, eeqb_refl. cbn [orb].
      rewrite (eager_indep A kt (rm (u, v) es) (tbl k) (tbl ((u, v) :: k)) H2); [reflexivity|].
      intros u' v' Hin. unfold tbl. rewrite meme_cons. apply rm_In in Hin. destruct Hin as [_ Hne].
      destruct (eeqb_spec (u', v') (u, v)) as [E|E]; [contradiction|reflexivity]. }
    assert (E2 : expect q (rm (u, v) es) (fun kept => prob f (law (eager (tbl kept) kf))) ==
                 expect q (rm (u, v) es) (fun k => prob f (law (eager (tbl k) (OAsk u v kt kf))))).
    { apply expect_ext_in. intros k Hk. cbn [eager].
      assert (M : tbl k u v = false).
      { unfold tbl. apply meme_false. intro Hin. apply Hk in Hin. apply rm_In in Hin. destruct Hin as [_ Hne]. congruence. }
      rewrite M. reflexivity. }
    rewrite E1, E2. reflexivity.
  - cbn [fresh_in] in Hf. cbn [lazy eager law].
    set (w := 1 / Qnat (length c)).
    assert (G : forall c', prob f (concat (map (fun x => scale w (law (lazy p (k x)))) c')) ==
                           expect q es (fun kept => prob f (concat (map (fun x => scale w (law (eager (tbl kept) (k x)))) c')))).
    { induction c' as [|x c' IHc].
      - cbn [map concat]. rewrite expect_const. reflexivity.
      - cbn [map concat]. rewrite prob_app, prob_scale, IHc, (IH x es Hnd (Hf x)).
        rewrite <- expect_lin. apply expect_ext. intro kept. rewrite prob_app, prob_scale. reflexivity. }
    apply G.
Qed.

(* ---- perc_loop is the product experiment ---- *)
Fixpoint qlog_of (es : list arc) (ql : list qentry) : list qentry :=
  match es with [] => ql | (u, v) :: es' => qlog_of es' ((O, u, v) :: ql) end.

Lemma perc_expect : forall A (f : A -> bool) es kept ql (K : list arc * list qentry -> samp A),
  prob f (law (bind (perc_loop (simple_rules p) es kept ql) K)) ==
  expect q es (fun k' => prob f (law (K (kept ++ k', qlog_of es ql)))).
Proof.
  intros A f es. induction es as [|[u v] es IH]; intros kept ql K.
  - cbn [perc_loop bind expect qlog_of]. rewrite app_nil_r. reflexivity.
  - cbn [perc_loop simple_rules r_test bind]. rewrite prob_flip. fold q.
    rewrite !IH. cbn [expect qlog_of].
    assert (E : expect q es (fun k' => prob f (law (K ((kept ++ [(u, v)]) ++ k', qlog_of es ((O, u, v) :: ql))))) ==
                expect q es (fun k => prob f (law (K (kept ++ (u, v) :: k, qlog_of es ((O, u, v) :: ql)))))).
    { apply expect_ext. intro k. rewrite <- app_assoc. reflexivity. }
    rewrite E. reflexivity.
Qed.

(* the product experiment has total mass 1 *)
Lemma expect_one : forall es, expect q es (fun _ => 1) == 1.
Proof. intro es. apply expect_const. Qed.

End Deferred.
