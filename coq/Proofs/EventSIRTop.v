(* Lemmas about Model/EventSIR.v, part 5: the boolean domain check [esir_okb]
   implies the hypotheses of parts 2-4; top-level statements. *)
From EoNV Require Import Prelude Samp Graph EventSIR EventSIRP EventSIRInv EventSIRMain EventSIRChar.
Require Import Lqa.

Lemma nodupb_NoDup : forall l, nodupb l = true -> NoDup l.
Proof.
  induction l as [|a l IH]; simpl; intros H; constructor.
  - apply andb_prop in H. destruct H as [H _]. intros Hin. apply mem_In in Hin. rewrite Hin in H. discriminate.
  - apply andb_prop in H. destruct H as [_ H]. auto.
Qed.

Lemma subsetb_In : forall a b, subsetb a b = true -> forall x, In x a -> In x b.
Proof.
  intros a b H x Hx. unfold subsetb in H. rewrite forallb_forall in H. apply mem_In. auto.
Qed.

Lemma nonnegx_some : forall x d, nonnegx x = true -> x = Some d -> 0 <= d.
Proof. intros x d H ->. simpl in H. apply Qleb_true in H. exact H. Qed.

Section Okb.
Variables (g : graph) (delay : node -> node -> xtime) (dur : node -> xtime)
          (i0 r0 : list node) (tmin : Q) (tmax : xtime).
Hypothesis Hok : esir_okb g delay dur i0 r0 tmin tmax = true.

Lemma okb_parts :
  NoDup (gnodes g) /\
  (forall u, In u (gnodes g) -> NoDup (gadj g u)) /\
  (forall u v, In u (gnodes g) -> In v (gadj g u) -> In v (gnodes g)) /\
  (forall u d, In u (gnodes g) -> dur u = Some d -> 0 <= d) /\
  (forall u v d, In u (gnodes g) -> In v (gadj g u) -> delay u v = Some d -> 0 <= d) /\
  (forall u, In u i0 -> In u (gnodes g)) /\
  (forall u, In u i0 -> ~ In u r0) /\
  ltmax tmax tmin.
Proof.
  unfold esir_okb in Hok.
  apply andb_prop in Hok. destruct Hok as [H H7].
  apply andb_prop in H. destruct H as [H H6].
  apply andb_prop in H. destruct H as [H H5].
  apply andb_prop in H. destruct H as [H1 H2].
  rewrite forallb_forall in H2.
  assert (P : forall u, In u (gnodes g) ->
     nodupb (gadj g u) = true /\ subsetb (gadj g u) (gnodes g) = true /\ nonnegx (dur u) = true /\
     forallb (fun v => nonnegx (delay u v)) (gadj g u) = true).
  { intros u Hu. specialize (H2 u Hu).
    apply andb_prop in H2. destruct H2 as [H2 D]. apply andb_prop in H2. destruct H2 as [H2 C].
    apply andb_prop in H2. destruct H2 as [A B]. auto. }
  split; [apply nodupb_NoDup; auto|].
  split. { intros u Hu. apply nodupb_NoDup. apply (P u Hu). }
  split. { intros u v Hu Hv. destruct (P u Hu) as [_ [B _]]. eapply subsetb_In; eauto. }
  split. { intros u d Hu Hd. destruct (P u Hu) as [_ [_ [C _]]]. eapply nonnegx_some; eauto. }
  split. { intros u v d Hu Hv Hd. destruct (P u Hu) as [_ [_ [_ D]]]. rewrite forallb_forall in D.
           eapply nonnegx_some; [apply (D v Hv)|exact Hd]. }
  split. { apply subsetb_In. exact H5. }
  split. { intros u Hu Hr. rewrite forallb_forall in H6. specialize (H6 u Hu).
           apply mem_In in Hr. rewrite Hr in H6. discriminate. }
  exact H7.
Qed.
End Okb.

(* C11, main statement, for every tie policy and every fuel >= |I0| + sum (deg + 1) *)
Theorem esir_first_passage : forall tb g delay dur i0 r0 tmin tmax fuel,
  esir_okb g delay dur i0 r0 tmin tmax = true -> (esir_fuel g i0 <= fuel)%nat ->
  exists sF, esir_run tb g delay dur i0 r0 tmin tmax fuel = Ok sF /\
             qu sF = [] /\ percolation_spec g tmax delay dur tmin i0 r0 sF.
Proof.
  intros tb g delay dur i0 r0 tmin tmax fuel Hok Hf.
  destruct (okb_parts g delay dur i0 r0 tmin tmax Hok) as [H1 [H2 [H3 [H4 [H5 [H6 [H7 H8]]]]]]].
  apply esir_percolation; auto.
Qed.

Theorem esir_sound_closed_ok : forall tb g delay dur i0 r0 tmin tmax fuel,
  esir_okb g delay dur i0 r0 tmin tmax = true -> (esir_fuel g i0 <= fuel)%nat ->
  exists sF, esir_run tb g delay dur i0 r0 tmin tmax fuel = Ok sF /\
    sound_log g delay dur tmin i0 r0 (tlog sF) /\
    closed_log g tmax delay dur r0 (tlog sF) /\
    init_log tmin i0 (tlog sF) /\
    (forall e, ~ In e (qu sF)).
Proof.
  intros tb g delay dur i0 r0 tmin tmax fuel Hok Hf.
  destruct (okb_parts g delay dur i0 r0 tmin tmax Hok) as [H1 [H2 [H3 [H4 [H5 [H6 [H7 H8]]]]]]].
  apply esir_sound_closed; auto.
Qed.

(* tie independence: two tie policies give the same infection times and final statuses *)
Theorem esir_tie_independent : forall tb1 tb2 g delay dur i0 r0 tmin tmax,
  esir_okb g delay dur i0 r0 tmin tmax = true ->
  exists s1 s2,
    esir_run tb1 g delay dur i0 r0 tmin tmax (esir_fuel g i0) = Ok s1 /\
    esir_run tb2 g delay dur i0 r0 tmin tmax (esir_fuel g i0) = Ok s2 /\
    (forall v t1 a1 t2 a2, In (t1, a1, v) (tlog s1) -> In (t2, a2, v) (tlog s2) -> t1 == t2) /\
    (forall v, stat s1 v = stS <-> stat s2 v = stS) /\
    (forall v, stat s1 v = stR <-> stat s2 v = stR).
Proof.
  intros tb1 tb2 g delay dur i0 r0 tmin tmax Hok.
  destruct (esir_first_passage tb1 g delay dur i0 r0 tmin tmax _ Hok (le_n _)) as [s1 [R1 [_ S1]]].
  destruct (esir_first_passage tb2 g delay dur i0 r0 tmin tmax _ Hok (le_n _)) as [s2 [R2 [_ S2]]].
  exists s1, s2. split; auto. split; auto.
  apply (spec_unique g tmax delay dur tmin i0 r0 s1 s2 S1 S2).
Qed.
