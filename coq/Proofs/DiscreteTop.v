(* Top-level statements for discrete_SIR / basic_discrete_SIR / basic_discrete_SIS under
   arbitrary rules: every reachable result (hence the result of every draw script,
   [exec_reach]) is a [drun]; the initial condition (C05): row 0, rho sampling, rejection
   of rho together with initial_infecteds. *)
From EoNV Require Import Prelude Samp Graph Discrete DiscreteP SampP DiscreteChk DiscreteRun DiscreteRunS.
From EoNV Require Gillespie GillespieP.
From Coq Require Import Permutation.

Definition onestep_of (trec : option (node -> nat -> bool)) : bool :=
  match trec with None => true | Some _ => false end.

Definition init_tl (full : bool) (tmin : Q) (i0 : list node) : list tx :=
  if full then rev (init_tx tmin i0) else [].

(* the loop stopped: no infected node is left or the last time is not before tmax *)
Definition dstopped (g : graph) (tmax : xtime) (t : Q) (st : node -> N) : Prop :=
  has_inf g st -> xlt t tmax = false.

Theorem dsir_run : forall g R trec ord i0 r0o tmin tmax full fuel out,
  wf_inputb g i0 (opt_list r0o) = true -> perm_oracle ord -> (full = true -> pick_sound R) ->
  reach (discrete_SIR g R trec ord (Some i0) r0o None tmin tmax full fuel) out ->
  exists K t st rows hl tl,
    drun g kSIR (onestep_of trec) tmin tmax full (init_status i0 (opt_list r0o)) (init_tl full tmin i0) K t st rows hl tl /\
    dstopped g tmax t st /\
    so_rows (o_sim out) = rev rows /\
    so_full (o_sim out) = (if full then Some (mkFull (build_hist g tmin i0 (opt_list r0o) hl) (rev tl)) else None).
Proof.
  intros g R trec ord i0 r0o tmin tmax full fuel out Hwf Hord Hpick H.
  destruct (wf_input_props g i0 _ Hwf) as [Hnd [Hadj [Hi0 [Hr0 [Hi0nd [Hr0nd Hdisj]]]]]].
  unfold discrete_SIR in H. cbn [with_initial] in H.
  eapply dloop_reach in H; try eassumption; [|eapply init_LInv; eassumption].
  destruct H as [K [tK [sK [[Hs Hrun] [Hstop Eout]]]]].
  exists K, tK, (dstat sK), (d_rows sK), (d_hlog sK), (d_tlog sK).
  split; [exact Hrun|]. split.
  - intro Hi. apply (has_inf_inv g _ Hs) in Hi. rewrite Hi in Hstop. exact Hstop.
  - subst out. unfold finish. cbn [o_sim so_rows so_full]. split; [reflexivity|]. destruct full; reflexivity.
Qed.

Theorem dsis_run : forall g R ord i0 tmin tmax full fuel out,
  wf_inputb g i0 [] = true -> perm_oracle ord -> (full = true -> pick_sound R) ->
  reach (basic_discrete_SIS_R g R ord (Some i0) None tmin tmax full fuel) out ->
  exists K t st rows hl tl,
    drun g kSIS true tmin tmax full (init_status i0 []) (init_tl full tmin i0) K t st rows hl tl /\
    dstopped g tmax t st /\
    so_rows (o_sim out) = rev rows /\
    so_full (o_sim out) = (if full then Some (mkFull (build_hist g tmin i0 [] hl) (rev tl)) else None).
Proof.
  intros g R ord i0 tmin tmax full fuel out Hwf Hord Hpick H.
  destruct (wf_input_props g i0 _ Hwf) as [Hnd [Hadj [Hi0 [_ [Hi0nd _]]]]].
  unfold basic_discrete_SIS_R in H. cbn [with_initial] in H.
  eapply sis_loop_reach in H; try eassumption; [|eapply sis_init_LInv; eassumption].
  destruct H as [K [tK [sK [[Hs Hrun] [Hstop Eout]]]]].
  exists K, tK, (dstatS sK), (s_rows sK), (s_hlog sK), (s_tlog sK).
  split; [exact Hrun|]. split.
  - intros [u [Hu Hi]]. unfold dstatS in Hi. destruct (mem u (s_infs sK)) eqn:E; [|discriminate].
    apply dmem_In in E. destruct (s_infs sK); [destruct E|]. cbn [nonempty andb] in Hstop. exact Hstop.
  - subst out. unfold sis_finish. cbn [o_sim so_rows so_full]. split; [reflexivity|]. destruct full; reflexivity.
Qed.

(* ---------------- the first row (C05) ---------------- *)
Lemma cntst_ext : forall g st st' a, (forall v, In v (gnodes g) -> st v = st' v) ->
  GillespieP.cntst g st a = GillespieP.cntst g st' a.
Proof.
  intros g st st' a H. unfold GillespieP.cntst. f_equal. apply filter_len_ext. intros x Hx. rewrite (H x Hx). reflexivity.
Qed.

Lemma census_ext : forall g kind st st', (forall v, In v (gnodes g) -> st v = st' v) ->
  GillespieP.census g kind st = GillespieP.census g kind st'.
Proof.
  intros g kind st st' H. unfold GillespieP.census. destruct kind; rewrite !(cntst_ext g st st' _ H); reflexivity.
Qed.

Lemma drun_first : forall g kind os tmin tmax full st0 tl0 K t st rows hl tl,
  drun g kind os tmin tmax full st0 tl0 K t st rows hl tl ->
  exists rest, rev rows = (tmin, GillespieP.census g kind st0) :: rest.
Proof.
  intros g kind os tmin tmax full st0 tl0 K t st rows hl tl H. induction H as [st Hst Hok|k t st rows hl tl st' hnew tnew H IH].
  - exists []. cbn [rev app]. rewrite (census_ext g kind st st0 Hst). reflexivity.
  - destruct IH as [rest E]. cbn [rev]. rewrite E. eexists. reflexivity.
Qed.

Lemma init_status_counts : forall g i0 r0, wf_inputb g i0 r0 = true ->
  GillespieP.census g kSIR (init_status i0 r0) = row0_of true g i0 r0.
Proof.
  intros g i0 r0 Hwf. destruct (wf_input_props g i0 r0 Hwf) as [Hnd [Hadj [Hi0 [Hr0 [Hi0nd [Hr0nd Hdisj]]]]]].
  assert (Hok : GillespieP.stat_ok kSIR (init_status i0 r0)).
  { intro x. unfold init_status. destruct (mem x r0); [right; right; reflexivity|]. destruct (mem x i0); [right; left|left]; reflexivity. }
  assert (HR : GillespieP.cntst g (init_status i0 r0) stR = lenZ r0).
  { unfold GillespieP.cntst, lenZ. f_equal. rewrite <- (GillespieP.count_mem r0 (gnodes g) Hr0nd Hnd Hr0).
    apply filter_len_ext. intros x _. unfold init_status. destruct (mem x r0); [reflexivity|]. destruct (mem x i0); reflexivity. }
  assert (HI : GillespieP.cntst g (init_status i0 r0) stI = lenZ i0).
  { unfold GillespieP.cntst, lenZ. f_equal. rewrite <- (GillespieP.count_mem i0 (gnodes g) Hi0nd Hnd Hi0).
    apply filter_len_ext. intros x _. unfold init_status. destruct (mem x r0) eqn:Er.
    - destruct (mem x i0) eqn:Ei; [|reflexivity]. apply dmem_In in Ei. apply dmem_In in Er. exfalso. apply (Hdisj x Ei Er).
    - destruct (mem x i0); reflexivity. }
  pose proof (GillespieP.partition3 (init_status i0 r0) (gnodes g) Hok) as P.
  unfold GillespieP.census, row0_of. rewrite HI, HR. f_equal.
  unfold GillespieP.cntst in *. unfold order, lenZ in *. lia.
Qed.

Lemma init_status_counts_sis : forall g i0, wf_inputb g i0 [] = true ->
  GillespieP.census g kSIS (init_status i0 []) = row0_of false g i0 [].
Proof.
  intros g i0 Hwf. destruct (wf_input_props g i0 [] Hwf) as [Hnd [Hadj [Hi0 [_ [Hi0nd _]]]]].
  assert (Hok : GillespieP.stat_ok kSIS (init_status i0 [])).
  { intro x. unfold init_status. cbn [mem existsb]. destruct (mem x i0); [right|left]; reflexivity. }
  assert (HI : GillespieP.cntst g (init_status i0 []) stI = lenZ i0).
  { unfold GillespieP.cntst, lenZ. f_equal. rewrite <- (GillespieP.count_mem i0 (gnodes g) Hi0nd Hnd Hi0).
    apply filter_len_ext. intros x _. unfold init_status. cbn [mem existsb]. destruct (mem x i0); reflexivity. }
  pose proof (GillespieP.partition2 (init_status i0 []) (gnodes g) Hok) as P.
  unfold GillespieP.census, row0_of. rewrite HI. f_equal.
  unfold GillespieP.cntst in *. unfold order, lenZ in *. lia.
Qed.

(* ---------------- rho / initial_infecteds (C05) ---------------- *)
Lemma with_initial_both_rejected : forall g pop i0 rho k, with_initial g pop (Some i0) (Some rho) k = Fail EoNError.
Proof. reflexivity. Qed.

Lemma round_same : forall x, d_round_half_even x = Gillespie.round_half_even x.
Proof. reflexivity. Qed.

Lemma sample_wf_pop : forall (pop : list node) n i, NoDup pop -> (n <= length pop)%nat ->
  let i0 := concat (firstn n (rotate i (map knode pop))) in
  NoDup i0 /\ incl i0 pop /\ length i0 = n.
Proof.
  intros pop n i Hnd Hn. cbv zeta. rewrite GillespieP.rotate_map, GillespieP.firstn_map, GillespieP.concat_knode.
  split; [|split].
  - apply GillespieP.NoDup_firstn. eapply Permutation_NoDup; [apply Permutation_sym; apply GillespieP.rotate_perm|exact Hnd].
  - intros x Hx. apply (Permutation_in x (GillespieP.rotate_perm _ i pop)).
    rewrite <- (firstn_skipn n (rotate i pop)). apply in_or_app. left. exact Hx.
  - apply firstn_length_le. rewrite (Permutation_length (GillespieP.rotate_perm _ i pop)). exact Hn.
Qed.

Lemma with_initial_rho : forall g pop rho k out, NoDup pop ->
  reach (with_initial g pop None rho k) out ->
  let n := match rho with None => 1%Z | Some r => d_round_half_even (Qnat (length (gnodes g)) * r) end in
  (0 <= n)%Z /\ exists i0, NoDup i0 /\ incl i0 pop /\ Z.of_nat (length i0) = n /\ reach (k i0) out.
Proof.
  intros g pop rho k out Hnd H. cbv zeta.
  assert (Hgen : forall n : Z,
    reach (if (n <? 0)%Z then Fail ValueErr
           else Sample (map knode pop) (Z.to_nat n) (fun ks => k (concat ks))) out ->
    (0 <= n)%Z /\ exists i0, NoDup i0 /\ incl i0 pop /\ Z.of_nat (length i0) = n /\ reach (k i0) out).
  { intros n Hn. destruct (n <? 0)%Z eqn:En; [inversion Hn|]. apply Z.ltb_ge in En. split; [exact En|].
    inversion Hn as [| | | | | | |? ? ? i ? Hl Hk]; subst. rewrite map_length in Hl.
    pose proof (sample_wf_pop pop (Z.to_nat n) i Hnd Hl) as Hs. cbv zeta in Hs. destruct Hs as [A [B C]].
    exists (concat (firstn (Z.to_nat n) (rotate i (map knode pop)))).
    split; [exact A|]. split; [exact B|]. split; [|exact Hk].
    apply (f_equal Z.of_nat) in C. rewrite Z2Nat.id in C by exact En. exact C. }
  unfold with_initial in H. destruct rho as [r|]; apply Hgen; exact H.
Qed.
