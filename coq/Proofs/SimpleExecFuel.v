(* Fuel is only the recursion bound of the executable model of Gillespie_simple_contagion: a
   draw script no longer than the fuel never exhausts it (every loop iteration consumes at
   least the waiting-time draw).  [execr] is [exec] that also returns the unread draws, so that
   runs compose through [bind]. *)
From EoNV Require Import Prelude Samp Graph ListDict ListDictP Gillespie KldP GillespieInv SampP Simple SimpleP
  SimpleExecS SimpleExec SimpleExecLog SimpleExecTop.
From EoNV Require ComplexP.
From Coq Require Import Lqa.

Fixpoint execr {A} (m : samp A) (ds : list Q) (tr : list call) : result A * list call * list Q :=
  match m with
  | Ret a => (Ok a, tr, ds)
  | Fail e => (Err e, tr, ds)
  | Expo r k =>
    if Qeqb r 0 then (Err ZeroDivision, CExpo r :: tr, ds)
    else match ds with
         | [] => (Err OutOfDraws, tr, [])
         | d :: ds' => if Qltb d 0 then (Err OutOfDraws, tr, ds') else execr (k d) ds' (CExpo r :: tr)
         end
  | Flip p kt kf =>
    match ds with
    | [] => (Err OutOfDraws, tr, [])
    | d :: ds' => if unit_draw d then execr (if Qltb d p then kt else kf) ds' (CFlip p :: tr) else (Err OutOfDraws, tr, ds')
    end
  | Casc ps k =>
    match ds with
    | [] => (Err OutOfDraws, tr, [])
    | d :: ds' => if unit_draw d then execr (k (casc_index ps d 0)) ds' (CCasc ps :: tr) else (Err OutOfDraws, tr, ds')
    end
  | Choose w c k =>
    match choose_exec w c ds tr with
    | (Ok x, tr', ds') => execr (k x) ds' tr'
    | (Err e, tr', ds') => (Err e, tr', ds')
    end
  | Unif c k =>
    match c with
    | [] => (Err IndexErr, CPick [] :: tr, ds)
    | _ => match ds with
           | [] => (Err OutOfDraws, tr, [])
           | d :: ds' => match nth_error c (rank d) with
                         | None => (Err OutOfDraws, tr, ds')
                         | Some x => execr (k x) ds' (CPick c :: tr)
                         end
           end
    end
  | Sample pop n k =>
    if Nat.ltb (length pop) n then (Err ValueErr, CSample pop n :: tr, ds)
    else match ds with
         | [] => (Err OutOfDraws, tr, [])
         | d :: ds' => execr (k (firstn n (rotate (rank d) pop))) ds' (CSample pop n :: tr)
         end
  end.

Lemma execr_exec : forall A (m : samp A) ds tr,
  exec m ds tr = (fst (fst (execr m ds tr)), rev (snd (fst (execr m ds tr)))).
Proof.
  intros A m. induction m as [a0|e|r k IH|p kt IHt kf IHf|ps k IH|w c k IH|c k IH|pop n k IH]; intros ds tr; cbn [exec execr].
  - reflexivity.
  - reflexivity.
  - destruct (Qeqb r 0); [reflexivity|]. destruct ds as [|d ds']; [reflexivity|]. destruct (Qltb d 0); [reflexivity|apply IH].
  - destruct ds as [|d ds']; [reflexivity|]. destruct (unit_draw d); [|reflexivity]. destruct (Qltb d p); [apply IHt|apply IHf].
  - destruct ds as [|d ds']; [reflexivity|]. destruct (unit_draw d); [apply IH|reflexivity].
  - destruct (choose_exec w c ds tr) as [[[x|e] tr1] ds1]; [apply IH|reflexivity].
  - destruct c as [|c0 c']; [reflexivity|]. destruct ds as [|d ds']; [reflexivity|].
    destruct (nth_error (c0 :: c') (rank d)); [apply IH|reflexivity].
  - destruct (Nat.ltb (length pop) n); [reflexivity|]. destruct ds as [|d ds']; [reflexivity|apply IH].
Qed.

Lemma execr_bind : forall A B (m : samp A) (f : A -> samp B) ds tr,
  execr (bind m f) ds tr =
  match execr m ds tr with
  | (Ok a, tr', ds') => execr (f a) ds' tr'
  | (Err e, tr', ds') => (Err e, tr', ds')
  end.
Proof.
  intros A B m f. induction m as [a0|e|r k IH|p kt IHt kf IHf|ps k IH|w c k IH|c k IH|pop n k IH]; intros ds tr; cbn [bind execr].
  - reflexivity.
  - reflexivity.
  - destruct (Qeqb r 0); [reflexivity|]. destruct ds as [|d ds']; [reflexivity|]. destruct (Qltb d 0); [reflexivity|apply IH].
  - destruct ds as [|d ds']; [reflexivity|]. destruct (unit_draw d); [|reflexivity]. destruct (Qltb d p); [apply IHt|apply IHf].
  - destruct ds as [|d ds']; [reflexivity|]. destruct (unit_draw d); [apply IH|reflexivity].
  - destruct (choose_exec w c ds tr) as [[[x|e] tr1] ds1]; [apply IH|reflexivity].
  - destruct c as [|c0 c']; [reflexivity|]. destruct ds as [|d ds']; [reflexivity|].
    destruct (nth_error (c0 :: c') (rank d)); [apply IH|reflexivity].
  - destruct (Nat.ltb (length pop) n); [reflexivity|]. destruct ds as [|d ds']; [reflexivity|apply IH].
Qed.

(* a run only consumes draws *)
Lemma execr_rest : forall A (m : samp A) ds tr, (length (snd (execr m ds tr)) <= length ds)%nat.
Proof.
  intros A m. induction m as [a0|e|r k IH|p kt IHt kf IHf|ps k IH|w c k IH|c k IH|pop n k IH]; intros ds tr; cbn [execr].
  - cbn [snd]. lia.
  - cbn [snd]. lia.
  - destruct (Qeqb r 0); [cbn [snd]; lia|]. destruct ds as [|d ds']; [cbn; lia|].
    destruct (Qltb d 0); [cbn [snd length]; lia|]. specialize (IH d ds' (CExpo r :: tr)). cbn [length]. lia.
  - destruct ds as [|d ds']; [cbn; lia|]. destruct (unit_draw d); [|cbn [snd length]; lia].
    destruct (Qltb d p); [specialize (IHt ds' (CFlip p :: tr))|specialize (IHf ds' (CFlip p :: tr))]; cbn [length]; lia.
  - destruct ds as [|d ds']; [cbn; lia|]. destruct (unit_draw d); [|cbn [snd length]; lia].
    specialize (IH (casc_index ps d 0) ds' (CCasc ps :: tr)). cbn [length]. lia.
  - pose proof (ComplexP.choose_exec_rest (length ds) w c ds tr (le_n _)) as Hc.
    destruct (choose_exec w c ds tr) as [[[x|e] tr1] ds1]; cbn [snd] in Hc.
    + specialize (IH x ds1 tr1). lia.
    + cbn [snd]. exact Hc.
  - destruct c as [|c0 c']; [cbn [snd]; lia|]. destruct ds as [|d ds']; [cbn; lia|].
    destruct (nth_error (c0 :: c') (rank d)) as [x|]; [|cbn [snd length]; lia].
    specialize (IH x ds' (CPick (c0 :: c') :: tr)). cbn [length]. lia.
  - destruct (Nat.ltb (length pop) n); [cbn [snd]; lia|]. destruct ds as [|d ds']; [cbn; lia|].
    specialize (IH (firstn n (rotate (rank d) pop)) ds' (CSample pop n :: tr)). cbn [length]. lia.
Qed.

Section Fuel.
Variable g : graph.
Hypothesis Hg : wfg2 g.
Variable ic : node -> N.
Variable rstat : list N.
Variable tmin : Q.
Variable tmax : xtime.
Variable full : bool.

Lemma lifts_finish_not_fuel : forall s ds tr,
  fst (fst (execr (lifts (finish g ic rstat tmin full s)) ds tr)) <> Err OutOfFuel.
Proof.
  intros s ds tr. destruct (finish g ic rstat tmin full s) as [o|e] eqn:E; cbn [lifts execr fst]; [discriminate|].
  destruct (finish_err g ic rstat tmin full s e E) as [_ [He|He]]; subst e; discriminate.
Qed.

Lemma loop_fuel : forall fuel t s ds tr, SInv g s -> (length ds <= fuel)%nat ->
  fst (fst (execr (loop g ic rstat tmin tmax full fuel t s) ds tr)) <> Err OutOfFuel.
Proof.
  induction fuel as [|f IH]; intros t s ds tr HI Hlen; rewrite loop_unfold;
    (destruct (Qltb 0 (total_rate s)) eqn:Et; [|apply lifts_finish_not_fuel]);
    apply Qltb_true in Et; cbn [execr];
    (destruct (Qeqb (total_rate s) 0); [cbn [fst]; discriminate|]);
    (destruct ds as [|d ds']; [cbn [fst]; discriminate|]);
    (destruct (Qltb d 0); [cbn [fst]; discriminate|]);
    (destruct (xlt (t + d) tmax) eqn:Ex; [|apply lifts_finish_not_fuel]).
  - cbn [length] in Hlen. lia.
  - rewrite execr_bind.
    pose proof (execr_exec _ (jump g rstat full (t + d) s) ds' (CExpo (total_rate s) :: tr)) as Hex.
    pose proof (execr_rest _ (jump g rstat full (t + d) s) ds' (CExpo (total_rate s) :: tr)) as Hrest.
    destruct (execr (jump g rstat full (t + d) s) ds' (CExpo (total_rate s) :: tr)) as [[[s1|e] tr1] ds1]; cbn [fst snd] in Hex, Hrest.
    + apply exec_reacht in Hex. destruct Hex as [l [_ Hr]].
      destruct (jump_reacht g rstat full (t + d) s l s1 HI Et Hr) as [i [a [sl [l0 [Hn [_ [Hs [_ [Ef _]]]]]]]]].
      destruct (fire_ok g Hg rstat full (t + d) s i a sl HI Hn Hs) as [s1' [E1 [HI1 _]]].
      assert (s1' = s1) by congruence. subst s1'.
      apply IH; [exact HI1|]. cbn [length] in Hlen. lia.
    + cbn [fst]. apply exec_rerr in Hex. destruct Hex as [Hex|Hex]; [subst e; discriminate|].
      exfalso. exact (jump_rerr g Hg rstat full (t + d) s e HI Et Hex).
Qed.

Theorem simple_fuel_suffices : forall sortable spont induced fuel ds,
  Forall (sp_tr_ok g) spont -> Forall (in_tr_ok g) induced -> (length ds <= fuel)%nat ->
  fst (exec (simple g sortable spont induced ic rstat tmin tmax full fuel) ds []) <> Err OutOfFuel.
Proof.
  intros sortable spont induced fuel ds Hsp Hin Hlen.
  destruct (simple_setup_inv g Hg sortable spont induced ic rstat tmin tmax full fuel Hsp Hin)
    as [sp [inn [Eq [HI _]]]].
  rewrite Eq, execr_exec. cbn [fst]. apply loop_fuel; assumption.
Qed.

End Fuel.
