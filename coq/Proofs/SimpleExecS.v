(* Scripted execution, with the calls it makes: a refinement of Proofs/SampP.v.
   [reacht m l a]: program m can return a after making exactly the calls l to the
   random source (chronological).  Differences with [reach]:
   - a cascade [Casc ps k] continues with the cell that a draw 0 <= d < 1 selects
     ([casc_index ps d 0]); [reach] allows any cell, which is too weak to show that the
     cell chosen has a positive share;
   - the call trace is part of the relation, so "the waiting time was drawn with the
     total rate" is a statement about what [exec] logs, for every draw script.
   [rerr m e]: the Python-level failures m can end with, with the same cascade rule. *)
From EoNV Require Import Prelude Samp.
From EoNV Require Import ListDictP SampP.

(* the calls of one choose_random: random.choice(candidates), each followed by an accept
   test of one of the candidates' weights when the structure is weighted *)
Definition choose_calls (w : bool) (c : list (key * Q)) (l : list call) : Prop :=
  Forall (fun cl => cl = CPick (map fst c) \/ (w = true /\ exists q, In q (map snd c) /\ cl = CAcc q)) l.

Inductive reacht {A} : samp A -> list call -> A -> Prop :=
| t_ret : forall a, reacht (Ret a) [] a
| t_expo : forall r k d l a, ~ r == 0 -> 0 <= d -> reacht (k d) l a -> reacht (Expo r k) (CExpo r :: l) a
| t_flip_t : forall p kt kf l a, 0 < p -> reacht kt l a -> reacht (Flip p kt kf) (CFlip p :: l) a
| t_flip_f : forall p kt kf l a, p < 1 -> reacht kf l a -> reacht (Flip p kt kf) (CFlip p :: l) a
| t_casc : forall ps k d l a, 0 <= d -> d < 1 -> reacht (k (casc_index ps d 0)) l a ->
    reacht (Casc ps k) (CCasc ps :: l) a
| t_choose : forall w c k x q l0 l a, In (x, q) c -> (w = true -> 0 < q) -> choose_calls w c l0 ->
    reacht (k x) l a -> reacht (Choose w c k) (l0 ++ l) a
| t_unif : forall c k x l a, In x c -> reacht (k x) l a -> reacht (Unif c k) (CPick c :: l) a
| t_sample : forall pop n k i l a, (n <= length pop)%nat ->
    reacht (k (firstn n (rotate i pop))) l a -> reacht (Sample pop n k) (CSample pop n :: l) a.

Inductive rerr {A} : samp A -> err -> Prop :=
| x_fail : forall e, rerr (Fail e) e
| x_expo0 : forall r k, r == 0 -> rerr (Expo r k) ZeroDivision
| x_expo : forall r k d e, ~ r == 0 -> 0 <= d -> rerr (k d) e -> rerr (Expo r k) e
| x_flip_t : forall p kt kf e, 0 < p -> rerr kt e -> rerr (Flip p kt kf) e
| x_flip_f : forall p kt kf e, p < 1 -> rerr kf e -> rerr (Flip p kt kf) e
| x_casc : forall ps k d e, 0 <= d -> d < 1 -> rerr (k (casc_index ps d 0)) e -> rerr (Casc ps k) e
| x_choose0 : forall w k, rerr (Choose w [] k) IndexErr
| x_choose : forall w c k x q e, In (x, q) c -> (w = true -> 0 < q) -> rerr (k x) e -> rerr (Choose w c k) e
| x_unif0 : forall k, rerr (Unif [] k) IndexErr
| x_unif : forall c k x e, In x c -> rerr (k x) e -> rerr (Unif c k) e
| x_sample0 : forall pop n k, (length pop < n)%nat -> rerr (Sample pop n k) ValueErr
| x_sample : forall pop n k i e, (n <= length pop)%nat ->
    rerr (k (firstn n (rotate i pop))) e -> rerr (Sample pop n k) e.

(* what choose_exec logs *)
Lemma choose_exec_calls : forall w c ds tr x tr' ds',
  choose_exec w c ds tr = (Ok x, tr', ds') ->
  exists l0, tr' = rev l0 ++ tr /\ choose_calls w c l0.
Proof.
  intros w c ds. remember (length ds) as n eqn:Hn. revert ds Hn.
  induction n as [n IH] using lt_wf_ind. intros ds Hn tr x tr' ds' H.
  destruct c as [|c0 c']; [destruct ds; cbn in H; discriminate H|].
  destruct ds as [|r ds1]; [cbn in H; discriminate H|].
  cbn [choose_exec] in H.
  destruct (nth_error (c0 :: c') (rank r)) as [[k q]|] eqn:Hnth; [|discriminate H].
  assert (Hq : In q (map snd (c0 :: c'))).
  { apply in_map_iff. exists (k, q). split; [reflexivity|eapply nth_error_In; exact Hnth]. }
  destruct w.
  - destruct ds1 as [|u ds2]; [discriminate H|].
    destruct (Qltb 0 q) eqn:Eq.
    + injection H as _ Ht _. subst tr'. exists [CPick (map fst (c0 :: c')); CAcc q]. split; [reflexivity|].
      constructor; [left; reflexivity|]. constructor; [|constructor].
      right. split; [reflexivity|]. exists q. split; [exact Hq|reflexivity].
    + apply (IH (length ds2)) in H; [| subst n; cbn [length]; lia | reflexivity].
      destruct H as [l0 [Et Hc]]. exists ([CPick (map fst (c0 :: c')); CAcc q] ++ l0). split.
      * rewrite Et, rev_app_distr, <- app_assoc. reflexivity.
      * apply Forall_app. split; [|exact Hc].
        constructor; [left; reflexivity|]. constructor; [|constructor].
        right. split; [reflexivity|]. exists q. split; [exact Hq|reflexivity].
  - injection H as _ Ht _. subst tr'. exists [CPick (map fst (c0 :: c'))]. split; [reflexivity|].
    constructor; [left; reflexivity|constructor].
Qed.

Theorem exec_reacht : forall A (m : samp A) ds tr a tr',
  exec m ds tr = (Ok a, tr') -> exists l, tr' = rev tr ++ l /\ reacht m l a.
Proof.
  intros A m. induction m as [a0|e|r k IH|p kt IHt kf IHf|ps k IH|w c k IH|c k IH|pop n k IH];
    intros ds tr a tr' H; cbn [exec] in H.
  - injection H as Ha Ht. subst a0 tr'. exists []. split; [rewrite app_nil_r; reflexivity|constructor].
  - discriminate H.
  - destruct (Qeqb r 0) eqn:Er; [discriminate H|].
    destruct ds as [|d ds']; [discriminate H|].
    destruct (Qltb d 0) eqn:Ed; [discriminate H|].
    destruct (IH d ds' _ a tr' H) as [l [Et Hr]]. exists (CExpo r :: l). split.
    + rewrite Et. cbn [rev]. rewrite <- app_assoc. reflexivity.
    + apply t_expo with d; [apply Qeqb_false; exact Er|apply Qltb_false; exact Ed|exact Hr].
  - destruct ds as [|d ds']; [discriminate H|].
    destruct (unit_draw d) eqn:Eu; [|discriminate H].
    apply unit_draw_spec in Eu. destruct Eu as [H0 H1].
    destruct (Qltb d p) eqn:Ep.
    + destruct (IHt ds' _ a tr' H) as [l [Et Hr]]. exists (CFlip p :: l). split.
      * rewrite Et. cbn [rev]. rewrite <- app_assoc. reflexivity.
      * apply t_flip_t; [|exact Hr]. apply Qltb_true in Ep. eapply Qle_lt_trans; eassumption.
    + destruct (IHf ds' _ a tr' H) as [l [Et Hr]]. exists (CFlip p :: l). split.
      * rewrite Et. cbn [rev]. rewrite <- app_assoc. reflexivity.
      * apply t_flip_f; [|exact Hr]. apply Qltb_false in Ep. eapply Qle_lt_trans; eassumption.
  - destruct ds as [|d ds']; [discriminate H|].
    destruct (unit_draw d) eqn:Eu; [|discriminate H].
    apply unit_draw_spec in Eu. destruct Eu as [H0 H1].
    destruct (IH _ ds' _ a tr' H) as [l [Et Hr]]. exists (CCasc ps :: l). split.
    + rewrite Et. cbn [rev]. rewrite <- app_assoc. reflexivity.
    + apply t_casc with d; assumption.
  - destruct (choose_exec w c ds tr) as [[[x|e] tr1] ds1] eqn:Hc; [|discriminate H].
    destruct (choose_exec_ok w c ds tr x tr1 ds1 Hc) as [q [Hin Hq]].
    destruct (choose_exec_calls w c ds tr x tr1 ds1 Hc) as [l0 [Et0 Hl0]].
    destruct (IH x ds1 tr1 a tr' H) as [l [Et Hr]]. exists (l0 ++ l). split.
    + rewrite Et, Et0, rev_app_distr, rev_involutive, <- app_assoc. reflexivity.
    + eapply t_choose; eassumption.
  - destruct c as [|c0 c']; [discriminate H|].
    destruct ds as [|d ds']; [discriminate H|].
    destruct (nth_error (c0 :: c') (rank d)) as [x|] eqn:Hn; [|discriminate H].
    destruct (IH x ds' _ a tr' H) as [l [Et Hr]]. exists (CPick (c0 :: c') :: l). split.
    + rewrite Et. cbn [rev]. rewrite <- app_assoc. reflexivity.
    + eapply t_unif; [eapply nth_error_In; exact Hn|exact Hr].
  - destruct (Nat.ltb (length pop) n) eqn:El; [discriminate H|].
    destruct ds as [|d ds']; [discriminate H|].
    apply Nat.ltb_ge in El.
    destruct (IH _ ds' _ a tr' H) as [l [Et Hr]]. exists (CSample pop n :: l). split.
    + rewrite Et. cbn [rev]. rewrite <- app_assoc. reflexivity.
    + eapply t_sample; [exact El|exact Hr].
Qed.

Theorem exec_rerr : forall A (m : samp A) ds tr e tr',
  exec m ds tr = (Err e, tr') -> e = OutOfDraws \/ rerr m e.
Proof.
  intros A m. induction m as [a0|e0|r k IH|p kt IHt kf IHf|ps k IH|w c k IH|c k IH|pop n k IH];
    intros ds tr e tr' H; cbn [exec] in H.
  - discriminate H.
  - injection H as He _. subst e0. right. constructor.
  - destruct (Qeqb r 0) eqn:Er.
    + injection H as He _. subst e. right. apply x_expo0. apply Qeqb_true. exact Er.
    + destruct ds as [|d ds']; [injection H as He _; left; symmetry; exact He|].
      destruct (Qltb d 0) eqn:Ed; [injection H as He _; left; symmetry; exact He|].
      destruct (IH d ds' _ e tr' H) as [E|E]; [left; exact E|right].
      apply x_expo with d; [apply Qeqb_false; exact Er|apply Qltb_false; exact Ed|exact E].
  - destruct ds as [|d ds']; [injection H as He _; left; symmetry; exact He|].
    destruct (unit_draw d) eqn:Eu; [|injection H as He _; left; symmetry; exact He].
    apply unit_draw_spec in Eu. destruct Eu as [H0 H1].
    destruct (Qltb d p) eqn:Ep.
    + destruct (IHt ds' _ e tr' H) as [E|E]; [left; exact E|right].
      apply x_flip_t; [|exact E]. apply Qltb_true in Ep. eapply Qle_lt_trans; eassumption.
    + destruct (IHf ds' _ e tr' H) as [E|E]; [left; exact E|right].
      apply x_flip_f; [|exact E]. apply Qltb_false in Ep. eapply Qle_lt_trans; eassumption.
  - destruct ds as [|d ds']; [injection H as He _; left; symmetry; exact He|].
    destruct (unit_draw d) eqn:Eu; [|injection H as He _; left; symmetry; exact He].
    apply unit_draw_spec in Eu. destruct Eu as [H0 H1].
    destruct (IH _ ds' _ e tr' H) as [E|E]; [left; exact E|right]. eapply x_casc; eassumption.
  - destruct (choose_exec w c ds tr) as [[[x|e1] tr1] ds1] eqn:Hc.
    + destruct (choose_exec_ok w c ds tr x tr1 ds1 Hc) as [q [Hin Hq]].
      destruct (IH x ds1 tr1 e tr' H) as [E|E]; [left; exact E|right].
      eapply x_choose; [exact Hin|exact Hq|exact E].
    + injection H as He _. subst e1.
      destruct (choose_exec_err w c ds tr e tr1 ds1 Hc) as [E|[Ec E]]; [left; exact E|right].
      subst c e. constructor.
  - destruct c as [|c0 c']; [injection H as He _; subst e; right; constructor|].
    destruct ds as [|d ds']; [injection H as He _; left; symmetry; exact He|].
    destruct (nth_error (c0 :: c') (rank d)) as [x|] eqn:Hn; [|injection H as He _; left; symmetry; exact He].
    destruct (IH x ds' _ e tr' H) as [E|E]; [left; exact E|right].
    eapply x_unif; [eapply nth_error_In; exact Hn|exact E].
  - destruct (Nat.ltb (length pop) n) eqn:El.
    + injection H as He _. subst e. right. apply x_sample0. apply Nat.ltb_lt. exact El.
    + destruct ds as [|d ds']; [injection H as He _; left; symmetry; exact He|].
      apply Nat.ltb_ge in El.
      destruct (IH _ ds' _ e tr' H) as [E|E]; [left; exact E|right].
      eapply x_sample; [exact El|exact E].
Qed.

(* through bind *)
Lemma reacht_bind : forall A B (m : samp A) (f : A -> samp B) l b,
  reacht (bind m f) l b -> exists a l1 l2, l = l1 ++ l2 /\ reacht m l1 a /\ reacht (f a) l2 b.
Proof.
  intros A B m f. induction m as [a0|e|r k IH|p kt IHt kf IHf|ps k IH|w c k IH|c k IH|pop n k IH];
    intros l b H; cbn [bind] in H.
  - exists a0, [], l. split; [reflexivity|]. split; [constructor|exact H].
  - inversion H.
  - inversion H as [|? ? d l' ? Hr Hd Hk| | | | | |]; subst.
    destruct (IH d _ b Hk) as [a [l1 [l2 [E [Ha Hb]]]]]. exists a, (CExpo r :: l1), l2.
    split; [rewrite E; reflexivity|]. split; [eapply t_expo; eassumption|exact Hb].
  - inversion H as [| |? ? ? l' ? Hp Hk|? ? ? l' ? Hp Hk| | | |]; subst.
    + destruct (IHt _ b Hk) as [a [l1 [l2 [E [Ha Hb]]]]]. exists a, (CFlip p :: l1), l2.
      split; [rewrite E; reflexivity|]. split; [apply t_flip_t; assumption|exact Hb].
    + destruct (IHf _ b Hk) as [a [l1 [l2 [E [Ha Hb]]]]]. exists a, (CFlip p :: l1), l2.
      split; [rewrite E; reflexivity|]. split; [apply t_flip_f; assumption|exact Hb].
  - inversion H as [| | | |? ? d l' ? Hd0 Hd1 Hk| | |]; subst.
    destruct (IH _ _ b Hk) as [a [l1 [l2 [E [Ha Hb]]]]]. exists a, (CCasc ps :: l1), l2.
    split; [rewrite E; reflexivity|]. split; [eapply t_casc; eassumption|exact Hb].
  - inversion H as [| | | | |? ? ? x q l0 l' ? Hin Hq Hc Hk| |]; subst.
    destruct (IH x _ b Hk) as [a [l1 [l2 [E [Ha Hb]]]]]. exists a, (l0 ++ l1), l2.
    split; [rewrite E, app_assoc; reflexivity|]. split; [eapply t_choose; eassumption|exact Hb].
  - inversion H as [| | | | | |? ? x l' ? Hin Hk|]; subst.
    destruct (IH x _ b Hk) as [a [l1 [l2 [E [Ha Hb]]]]]. exists a, (CPick c :: l1), l2.
    split; [rewrite E; reflexivity|]. split; [eapply t_unif; eassumption|exact Hb].
  - inversion H as [| | | | | | |? ? ? i l' ? Hl Hk]; subst.
    destruct (IH _ _ b Hk) as [a [l1 [l2 [E [Ha Hb]]]]]. exists a, (CSample pop n :: l1), l2.
    split; [rewrite E; reflexivity|]. split; [eapply t_sample; eassumption|exact Hb].
Qed.

Lemma rerr_bind : forall A B (m : samp A) (f : A -> samp B) e,
  rerr (bind m f) e -> rerr m e \/ exists a l, reacht m l a /\ rerr (f a) e.
Proof.
  intros A B m f. induction m as [a0|e0|r k IH|p kt IHt kf IHf|ps k IH|w c k IH|c k IH|pop n k IH];
    intros e H; cbn [bind] in H.
  - right. exists a0, []. split; [constructor|exact H].
  - left. inversion H; subst. constructor.
  - inversion H as [|? ? Hr|? ? d ? Hr Hd Hk| | | | | | | | |]; subst.
    + left. apply x_expo0. exact Hr.
    + destruct (IH d e Hk) as [E|[a [l [Ha Hb]]]].
      * left. eapply x_expo; eassumption.
      * right. exists a, (CExpo r :: l). split; [eapply t_expo; eassumption|exact Hb].
  - inversion H as [| | |? ? ? ? Hp Hk|? ? ? ? Hp Hk| | | | | | |]; subst.
    + destruct (IHt e Hk) as [E|[a [l [Ha Hb]]]].
      * left. apply x_flip_t; assumption.
      * right. exists a, (CFlip p :: l). split; [apply t_flip_t; assumption|exact Hb].
    + destruct (IHf e Hk) as [E|[a [l [Ha Hb]]]].
      * left. apply x_flip_f; assumption.
      * right. exists a, (CFlip p :: l). split; [apply t_flip_f; assumption|exact Hb].
  - inversion H as [| | | | |? ? d ? Hd0 Hd1 Hk| | | | | |]; subst.
    destruct (IH _ e Hk) as [E|[a [l [Ha Hb]]]].
    + left. eapply x_casc; eassumption.
    + right. exists a, (CCasc ps :: l). split; [eapply t_casc; eassumption|exact Hb].
  - inversion H as [| | | | | |? ?|? ? ? x q ? Hin Hq Hk| | | |]; subst.
    + left. constructor.
    + destruct (IH x e Hk) as [E|[a [l [Ha Hb]]]].
      * left. eapply x_choose; eassumption.
      * right. exists a, ([] ++ l). split; [eapply t_choose; try eassumption; constructor|exact Hb].
  - inversion H as [| | | | | | | |?|? ? x ? Hin Hk| |]; subst.
    + left. constructor.
    + destruct (IH x e Hk) as [E|[a [l [Ha Hb]]]].
      * left. eapply x_unif; eassumption.
      * right. exists a, (CPick c :: l). split; [eapply t_unif; eassumption|exact Hb].
  - inversion H as [| | | | | | | | | |? ? ? Hl|? ? ? i ? Hl Hk]; subst.
    + left. apply x_sample0. exact Hl.
    + destruct (IH _ e Hk) as [E|[a [l [Ha Hb]]]].
      * left. eapply x_sample; eassumption.
      * right. exists a, (CSample pop n :: l). split; [eapply t_sample; eassumption|exact Hb].
Qed.

(* the cell a valid draw selects has a positive share, whenever the shares sum to more
   than the draw (they sum to 1 in the simulators) *)
Lemma casc_index_pos : forall ps d i0, 0 <= d -> d < sumQ ps ->
  exists k, casc_index ps d i0 = (i0 + k)%nat /\ (k < length ps)%nat /\
            exists p, nth_error ps k = Some p /\ 0 < p.
Proof.
  induction ps as [|p ps IH]; intros d i0 Hd Hs.
  - cbn [sumQ fold_right] in Hs. exfalso. apply (Qlt_irrefl 0). eapply Qle_lt_trans; eassumption.
  - cbn [casc_index]. destruct (Qltb (d - p) 0) eqn:E.
    + apply Qltb_true in E. exists 0%nat. split; [lia|]. split; [cbn [length]; lia|].
      exists p. split; [reflexivity|].
      apply Qle_lt_trans with d; [exact Hd|].
      apply Qplus_lt_l with (z := - p). rewrite Qplus_opp_r. exact E.
    + apply Qltb_false in E.
      assert (Hs' : d - p < sumQ ps).
      { change (sumQ (p :: ps)) with (p + sumQ ps) in Hs.
        apply Qplus_lt_l with (z := p). unfold Qminus. rewrite <- Qplus_assoc.
        rewrite (Qplus_comm (- p) p), Qplus_opp_r, Qplus_0_r, (Qplus_comm (sumQ ps) p). exact Hs. }
      destruct (IH (d - p) (S i0) E Hs') as [k [Ek [Hk [q [Hq Hpos]]]]].
      exists (S k). split; [rewrite Ek; lia|]. split; [cbn [length]; lia|].
      exists q. split; [exact Hq|exact Hpos].
Qed.

(* inversion principles in the form the loop proofs use *)
Lemma reacht_expo_inv : forall A r (k : Q -> samp A) l a, reacht (Expo r k) l a ->
  exists d l', l = CExpo r :: l' /\ ~ r == 0 /\ 0 <= d /\ reacht (k d) l' a.
Proof. intros A r k l a H. inversion H; subst. eexists. eexists. repeat split; eassumption. Qed.

Lemma reacht_casc_inv : forall A ps (k : nat -> samp A) l a, reacht (Casc ps k) l a ->
  exists d l', l = CCasc ps :: l' /\ 0 <= d /\ d < 1 /\ reacht (k (casc_index ps d 0)) l' a.
Proof. intros A ps k l a H. inversion H; subst. eexists. eexists. repeat split; eassumption. Qed.

Lemma reacht_choose_inv : forall A w c (k : key -> samp A) l a, reacht (Choose w c k) l a ->
  exists x q l0 l', l = l0 ++ l' /\ In (x, q) c /\ (w = true -> 0 < q) /\ choose_calls w c l0 /\ reacht (k x) l' a.
Proof. intros A w c k l a H. inversion H; subst. do 4 eexists. repeat split; eassumption. Qed.

Lemma reacht_ret_inv : forall A (x : A) l a, reacht (Ret x) l a -> a = x /\ l = [].
Proof. intros A x l a H. inversion H; subst. split; reflexivity. Qed.

Lemma rerr_expo_inv : forall A r (k : Q -> samp A) e, rerr (Expo r k) e ->
  (r == 0 /\ e = ZeroDivision) \/ exists d, ~ r == 0 /\ 0 <= d /\ rerr (k d) e.
Proof. intros A r k e H. inversion H; subst; [left; split; [assumption|reflexivity]|right; eexists; repeat split; eassumption]. Qed.

Lemma rerr_casc_inv : forall A ps (k : nat -> samp A) e, rerr (Casc ps k) e ->
  exists d, 0 <= d /\ d < 1 /\ rerr (k (casc_index ps d 0)) e.
Proof. intros A ps k e H. inversion H; subst. eexists. repeat split; eassumption. Qed.

Lemma rerr_choose_inv : forall A w c (k : key -> samp A) e, rerr (Choose w c k) e ->
  (c = [] /\ e = IndexErr) \/ exists x q, In (x, q) c /\ (w = true -> 0 < q) /\ rerr (k x) e.
Proof. intros A w c k e H. inversion H; subst; [left; split; reflexivity|right; do 2 eexists; repeat split; eassumption]. Qed.

Lemma rerr_ret_inv : forall A (x : A) e, rerr (Ret x) e -> False.
Proof. intros A x e H. inversion H. Qed.

Lemma rerr_fail_inv : forall A e0 e, rerr (@Fail A e0) e -> e = e0.
Proof. intros A e0 e H. inversion H; subst. reflexivity. Qed.

Lemma reacht_fail_inv : forall A e0 l (a : A), reacht (Fail e0) l a -> False.
Proof. intros A e0 l a H. inversion H. Qed.
