(* Algebraic lemmas about the vector library Model/Vec.v: lengths, pointwise
   access, pointwise equality `veq`, all-zero vectors, sums, slices of
   concatenations, single-class ("regular graph") vectors zeros k ++ [x]. *)
From EoNV Require Import Prelude Vec.
From Coq Require Import Qpower Lqa Setoid Morphisms.

(* ---------- pointwise equality ---------- *)
Notation veq := (Forall2 Qeq).
Notation allz := (Forall (fun x : Q => x == 0)).
Definition zeros (k : nat) : vec := repeat 0 k.

Lemma veq_refl a : veq a a.
Proof. induction a; constructor; auto; reflexivity. Qed.
Lemma veq_sym a b : veq a b -> veq b a.
Proof. induction 1; constructor; auto; symmetry; auto. Qed.
Lemma veq_trans a b c : veq a b -> veq b c -> veq a c.
Proof.
  intros H; revert c; induction H as [|x y a b Hxy Hab IH]; intros c Hc.
  - inversion Hc. constructor.
  - inversion Hc; subst. constructor; [etransitivity; eauto|apply IH; assumption].
Qed.
Global Instance veq_equiv : Equivalence veq.
Proof. split; [exact veq_refl | exact veq_sym | exact veq_trans]. Qed.

Lemma veq_length a b : veq a b -> length a = length b.
Proof. induction 1; cbn; auto. Qed.

Lemma veq_app a a' b b' : veq a a' -> veq b b' -> veq (a ++ b) (a' ++ b').
Proof. induction 1; cbn; auto; intros; constructor; auto. Qed.

Lemma veq_nth_all a b : veq a b -> forall i, nth i a 0 == nth i b 0.
Proof.
  induction 1; intros [|i]; cbn; try reflexivity; auto.
Qed.

Lemma veq_of_nth a b :
  length a = length b -> (forall i, (i < length a)%nat -> nth i a 0 == nth i b 0) -> veq a b.
Proof.
  revert b; induction a as [|x a IH]; intros [|y b] Hl Hn; cbn in *; try discriminate; constructor.
  - apply (Hn 0%nat); lia.
  - apply IH; [lia|]. intros i Hi. apply (Hn (S i)); lia.
Qed.

Lemma vsum_veq a b : veq a b -> vsum a == vsum b.
Proof. induction 1; cbn; [reflexivity|]. unfold vsum in *; cbn. rewrite H, IHForall2. reflexivity. Qed.

(* ---------- lengths ---------- *)
Lemma zipWith_length f a b : length (zipWith f a b) = Nat.min (length a) (length b).
Proof. revert b; induction a; intros [|y b]; cbn; auto. Qed.
Lemma vadd_length a b : length (vadd a b) = Nat.min (length a) (length b). Proof. apply zipWith_length. Qed.
Lemma vsub_length a b : length (vsub a b) = Nat.min (length a) (length b). Proof. apply zipWith_length. Qed.
Lemma vmul_length a b : length (vmul a b) = Nat.min (length a) (length b). Proof. apply zipWith_length. Qed.
Lemma vdiv_length a b : length (vdiv a b) = Nat.min (length a) (length b). Proof. apply zipWith_length. Qed.
Lemma smul_length c a : length (smul c a) = length a. Proof. apply map_length. Qed.
Lemma vmuls_length a c : length (vmuls a c) = length a. Proof. apply map_length. Qed.
Lemma vdivs_length a c : length (vdivs a c) = length a. Proof. apply map_length. Qed.
Lemma sdivv_length c a : length (sdivv c a) = length a. Proof. apply map_length. Qed.
Lemma sadd_length c a : length (sadd c a) = length a. Proof. apply map_length. Qed.
Lemma vadds_length a c : length (vadds a c) = length a. Proof. apply map_length. Qed.
Lemma ssub_length c a : length (ssub c a) = length a. Proof. apply map_length. Qed.
Lemma vsubs_length a c : length (vsubs a c) = length a. Proof. apply map_length. Qed.
Lemma vneg_length a : length (vneg a) = length a. Proof. apply map_length. Qed.
Lemma vpows_length a n : length (vpows a n) = length a. Proof. apply map_length. Qed.
Lemma arange_length n : length (arange n) = n.
Proof. unfold arange. rewrite map_length, seq_length. reflexivity. Qed.
Lemma spow_arange_length x n : length (spow_arange x n) = n.
Proof. unfold spow_arange. rewrite map_length, seq_length. reflexivity. Qed.
Lemma zeros_length k : length (zeros k) = k. Proof. apply repeat_length. Qed.
Lemma shift_m1_length a : length (shift_m1 a) = length a.
Proof. destruct a; cbn; auto. rewrite app_length; cbn; lia. Qed.
Global Hint Rewrite vadd_length vsub_length vmul_length vdiv_length smul_length vmuls_length
  vdivs_length sdivv_length sadd_length vadds_length ssub_length vsubs_length vneg_length vpows_length
  arange_length spow_arange_length zeros_length shift_m1_length app_length Nat.min_id : veclen.
Ltac veclen := autorewrite with veclen in *; cbn [length] in *; try lia.

(* ---------- pointwise access ---------- *)
Lemma nth_zipWith f a b i :
  (i < length a)%nat -> (i < length b)%nat -> nth i (zipWith f a b) 0 = f (nth i a 0) (nth i b 0).
Proof.
  revert b i; induction a as [|x a IH]; intros [|y b] [|i] Ha Hb; cbn in *; try lia; auto.
  apply IH; lia.
Qed.
Lemma nth_mapQ (f : Q -> Q) a i : (i < length a)%nat -> nth i (map f a) 0 = f (nth i a 0).
Proof. revert i; induction a; intros [|i] H; cbn in *; try lia; auto. apply IHa; lia. Qed.
Lemma nth_vadd a b i : (i < length a)%nat -> (i < length b)%nat -> nth i (vadd a b) 0 = nth i a 0 + nth i b 0.
Proof. apply nth_zipWith. Qed.
Lemma nth_vsub a b i : (i < length a)%nat -> (i < length b)%nat -> nth i (vsub a b) 0 = nth i a 0 - nth i b 0.
Proof. apply nth_zipWith. Qed.
Lemma nth_vmul a b i : (i < length a)%nat -> (i < length b)%nat -> nth i (vmul a b) 0 = nth i a 0 * nth i b 0.
Proof. apply nth_zipWith. Qed.
Lemma nth_smul c a i : (i < length a)%nat -> nth i (smul c a) 0 = c * nth i a 0.
Proof. apply (nth_mapQ (fun x => c * x)). Qed.
Lemma nth_vmuls a c i : (i < length a)%nat -> nth i (vmuls a c) 0 = nth i a 0 * c.
Proof. apply (nth_mapQ (fun x => x * c)). Qed.
Lemma nth_vdivs a c i : (i < length a)%nat -> nth i (vdivs a c) 0 = nth i a 0 / c.
Proof. apply (nth_mapQ (fun x => x / c)). Qed.
Lemma nth_vsubs a c i : (i < length a)%nat -> nth i (vsubs a c) 0 = nth i a 0 - c.
Proof. apply (nth_mapQ (fun x => x - c)). Qed.
Lemma nth_arange n i : (i < n)%nat -> nth i (arange n) 0 = Qnat i.
Proof.
  intros H. unfold arange.
  rewrite (nth_indep _ 0 (Qnat 0)) by (rewrite map_length, seq_length; lia).
  rewrite map_nth, seq_nth by lia. reflexivity.
Qed.
Lemma nth_spow_arange x n i : (i < n)%nat -> nth i (spow_arange x n) 0 = qpow x (Z.of_nat i).
Proof.
  intros H. unfold spow_arange.
  rewrite (nth_indep _ 0 (qpow x (Z.of_nat 0))) by (rewrite map_length, seq_length; lia).
  rewrite (map_nth (fun k => qpow x (Z.of_nat k))), seq_nth by lia. reflexivity.
Qed.
Lemma nth_zeros k i : nth i (zeros k) 0 = 0.
Proof. revert i; induction k; intros [|i]; cbn; auto. Qed.
Lemma nth_unit k x i : nth i (zeros k ++ [x]) 0 = if Nat.eqb i k then x else 0.
Proof.
  revert i; induction k; intros [|i]; cbn; auto. destruct i; auto.
Qed.

(* ---------- slices of concatenations ---------- *)
Lemma drop_last_app a b k : length b = k -> drop_last k (a ++ b) = a.
Proof.
  intros H. unfold drop_last. rewrite app_length, H.
  replace (length a + k - k)%nat with (length a + 0)%nat by lia.
  rewrite firstn_app_2. cbn. apply app_nil_r.
Qed.
Lemma take_last_app a b k : length b = k -> take_last k (a ++ b) = b.
Proof.
  intros H. unfold take_last. rewrite app_length, H.
  replace (length a + k - k)%nat with (length a) by lia.
  rewrite skipn_app, skipn_all, Nat.sub_diag. reflexivity.
Qed.
Lemma slice_to_app a b : slice_to (length a) (a ++ b) = a.
Proof.
  unfold slice_to. replace (length a) with (length a + 0)%nat by lia.
  rewrite firstn_app_2. cbn. apply app_nil_r.
Qed.
Lemma slice_from_app a b : slice_from (length a) (a ++ b) = b.
Proof. unfold slice_from. rewrite skipn_app, skipn_all, Nat.sub_diag. reflexivity. Qed.

(* ---------- all-zero vectors ---------- *)
Ltac vunf := unfold dot in *; unfold vsum, sumQ, vadd, vsub, vmul, vdiv, smul, vmuls, vdivs, vneg, zeros in *.
Ltac lcbn := cbn [app fold_right length nth zipWith map repeat shift_m1] in *.

Lemma allz_zeros k : allz (zeros k).
Proof. vunf. induction k; lcbn; constructor; auto; reflexivity. Qed.
Lemma allz_smul0 c a : c == 0 -> allz (smul c a).
Proof. intros H. vunf. induction a; lcbn; constructor; auto. rewrite H. ring. Qed.
Lemma allz_smul c a : allz a -> allz (smul c a).
Proof. vunf. induction 1 as [|x a Hx Ha IH]; lcbn; constructor; auto. rewrite Hx. ring. Qed.
Lemma allz_vmul_l a b : allz a -> allz (vmul a b).
Proof.
  vunf. intros H; revert b; induction H as [|x a Hx Ha IH]; intros [|y b]; lcbn; constructor; auto.
  rewrite Hx. ring.
Qed.
Lemma allz_vmul_r a b : allz b -> allz (vmul a b).
Proof.
  vunf. intros H; revert a; induction H as [|x b Hx Hb IH]; intros [|y a]; lcbn; constructor; auto.
  rewrite Hx. ring.
Qed.
Lemma allz_vmuls a c : allz a -> allz (vmuls a c).
Proof. vunf. induction 1 as [|x a Hx Ha IH]; lcbn; constructor; auto. rewrite Hx. ring. Qed.
Lemma allz_vmuls0 a c : c == 0 -> allz (vmuls a c).
Proof. intros H. vunf. induction a; lcbn; constructor; auto. rewrite H. ring. Qed.
Lemma allz_vdivs a c : allz a -> allz (vdivs a c).
Proof. vunf. induction 1 as [|x a Hx Ha IH]; lcbn; constructor; auto. rewrite Hx. unfold Qdiv. ring. Qed.
Lemma allz_vadd a b : allz a -> allz b -> allz (vadd a b).
Proof.
  vunf. intros H; revert b; induction H as [|x a Hx Ha IH]; intros b Hb; destruct Hb as [|y b Hy Hb]; lcbn; constructor; auto.
  rewrite Hx, Hy. ring.
Qed.
Lemma allz_vsum a : allz a -> vsum a == 0.
Proof. vunf. induction 1 as [|x a Hx Ha IH]; lcbn; [reflexivity|]. rewrite Hx, IH. ring. Qed.
Lemma allz_veq_zeros a : allz a -> veq a (zeros (length a)).
Proof. vunf. induction 1; lcbn; constructor; auto. Qed.
Lemma vsub_allz_r a z : allz z -> length z = length a -> veq (vsub a z) a.
Proof.
  vunf. intros H; revert a; induction H as [|x z Hx Hz IH]; intros [|y a] Hl; lcbn; try discriminate; constructor.
  - rewrite Hx. ring.
  - apply IH. lia.
Qed.
Lemma vsub_allz_l a z : allz z -> length z = length a -> veq (vsub z a) (vneg a).
Proof.
  vunf. intros H; revert a; induction H as [|x z Hx Hz IH]; intros [|y a] Hl; lcbn; try discriminate; constructor.
  - rewrite Hx. ring.
  - apply IH. lia.
Qed.

(* ---------- sums ---------- *)
Lemma vsum_app a b : vsum (a ++ b) == vsum a + vsum b.
Proof. vunf. induction a; lcbn; [ring|]. rewrite IHa. ring. Qed.
Lemma vsum_cons x a : vsum (x :: a) = x + vsum a. Proof. reflexivity. Qed.
Lemma vsum_nil : vsum [] = 0. Proof. reflexivity. Qed.
Lemma vsum_zeros k : vsum (zeros k) == 0.
Proof. apply allz_vsum, allz_zeros. Qed.
Lemma vsum_smul c a : vsum (smul c a) == c * vsum a.
Proof. vunf. induction a; lcbn; [ring|]. rewrite IHa. ring. Qed.
Lemma vsum_vadd a b : length a = length b -> vsum (vadd a b) == vsum a + vsum b.
Proof.
  vunf. revert b; induction a; intros [|y b] H; lcbn; try discriminate; [ring|].
  rewrite IHa by lia. ring.
Qed.
Lemma vsum_vsub a b : length a = length b -> vsum (vsub a b) == vsum a - vsum b.
Proof.
  vunf. revert b; induction a; intros [|y b] H; lcbn; try discriminate; [ring|].
  rewrite IHa by lia. ring.
Qed.
Lemma vsum_vmuls a c : vsum (vmuls a c) == vsum a * c.
Proof. vunf. induction a; lcbn; [ring|]. rewrite IHa. ring. Qed.
Lemma vsum_vdivs a c : vsum (vdivs a c) == vsum a / c.
Proof. vunf. unfold Qdiv. induction a; lcbn; [ring|]. rewrite IHa. ring. Qed.
Lemma vsum_vneg a : vsum (vneg a) == - vsum a.
Proof. vunf. induction a; lcbn; [ring|]. rewrite IHa. ring. Qed.

(* sum over a shifted product with np.arange: the dropped first cell is 0 * a_0 *)
Lemma vsum_shift_m1 a : vsum (shift_m1 a) == vsum a - nth 0 a 0.
Proof.
  destruct a as [|x a]; lcbn; [vunf; lcbn; ring|].
  rewrite vsum_app. vunf; lcbn. ring.
Qed.
Lemma nth0_arange_mul a : nth 0 (vmul (arange (length a)) a) 0 == 0.
Proof.
  destruct a; [reflexivity|]. unfold arange. vunf. cbn [length seq map]. lcbn. unfold Qnat. cbn [Z.of_nat inject_Z]. ring.
Qed.

(* ---------- single-class vectors: zeros k ++ [x] ---------- *)
Definition unitv (k : nat) (x : Q) : vec := zeros k ++ [x].
Lemma unitv_length k x : length (unitv k x) = S k.
Proof. unfold unitv. rewrite app_length, zeros_length. cbn. lia. Qed.
Global Hint Rewrite unitv_length : veclen.
Lemma vsum_unitv k x : vsum (unitv k x) == x.
Proof. unfold unitv. rewrite vsum_app, vsum_zeros. vunf; lcbn. ring. Qed.
Lemma dot_unitv a k x : (k < length a)%nat -> dot a (unitv k x) == nth k a 0 * x.
Proof.
  unfold unitv. vunf. revert a; induction k; intros [|y a] H; lcbn; try lia.
  - destruct a; lcbn; ring.
  - rewrite IHk by lia. ring.
Qed.
Lemma dot_unitv_l a k x : (k < length a)%nat -> dot (unitv k x) a == x * nth k a 0.
Proof.
  unfold unitv. vunf. revert a; induction k; intros [|y a] H; lcbn; try lia.
  - destruct a; lcbn; ring.
  - rewrite IHk by lia. ring.
Qed.
Lemma veq_unitv a k x :
  length a = S k -> (forall i, (i < k)%nat -> nth i a 0 == 0) -> nth k a 0 == x -> veq a (unitv k x).
Proof.
  intros Hl Hz Hk. apply veq_of_nth; [rewrite unitv_length; auto|].
  intros i Hi. unfold unitv. rewrite nth_unit.
  destruct (Nat.eqb_spec i k) as [->|Hne]; auto. apply Hz. lia.
Qed.

(* ---------- iteration ---------- *)
Lemma iter_S {A} n (f : A -> A) x : iter (S n) f x = f (iter n f x).
Proof. reflexivity. Qed.
Lemma iter_shift {A} n (f : A -> A) x : iter n f (f x) = f (iter n f x).
Proof. induction n; cbn; auto. rewrite IHn. reflexivity. Qed.

(* ---------- more algebra ---------- *)
Lemma qpow2 x : qpow x 2 == x * x.
Proof. unfold qpow. simpl. ring. Qed.
Lemma dot_vadd_r a b c : length b = length c -> dot a (vadd b c) == dot a b + dot a c.
Proof.
  vunf. revert b c; induction a as [|x a IH]; intros [|y b] [|z c] H; lcbn; try discriminate; try ring.
  rewrite IH by lia. ring.
Qed.
Lemma nth_app_unitv k x (l : vec) i : (i <= k)%nat -> nth i (unitv k x ++ l) 0 = nth i (unitv k x) 0.
Proof. intros H. apply app_nth1. rewrite unitv_length. lia. Qed.
Lemma nth_unitv_k k x : nth k (unitv k x) 0 = x.
Proof. unfold unitv. rewrite nth_unit, Nat.eqb_refl. reflexivity. Qed.
Lemma nth_unitv_lt k x j : (j < k)%nat -> nth j (unitv k x) 0 = 0.
Proof. intros H. unfold unitv. rewrite nth_unit. replace (Nat.eqb j k) with false; auto. symmetry; apply Nat.eqb_neq; lia. Qed.

(* ---------- congruences and powers ---------- *)
Lemma dot_veq_r a b c : veq b c -> dot a b == dot a c.
Proof.
  intros H. revert a. induction H as [|x y b c Hxy Hbc IH]; intros [|z a]; vunf; lcbn; try reflexivity.
  specialize (IH a). vunf. rewrite IH, Hxy. reflexivity.
Qed.
Lemma qpow_pred theta k : ~ theta == 0 -> qpow theta (Z.of_nat k - 1) * theta == qpow theta (Z.of_nat k).
Proof.
  intros H. unfold qpow.
  replace (Z.of_nat k) with ((Z.of_nat k - 1) + 1)%Z at 2 by lia.
  rewrite Qpower_plus by auto. simpl. reflexivity.
Qed.
Lemma smul_veq c a b : veq a b -> veq (smul c a) (smul c b).
Proof. induction 1; vunf; lcbn; constructor; auto. rewrite H. reflexivity. Qed.
Lemma smul_unitv c k x : veq (smul c (unitv k x)) (unitv k (c * x)).
Proof.
  apply veq_unitv; [veclen| |].
  - intros i Hi. rewrite nth_smul by veclen. rewrite nth_unitv_lt by lia. ring.
  - rewrite nth_smul by veclen. rewrite nth_unitv_k. reflexivity.
Qed.
