(* Event-driven SIR, cross-cutting properties (C04 / C09 / C10), part 1:
   the ghost event log, the lock-step invariant [XI] tying the event log, the
   transmissions list, the rows and the tables pred_inf_time / rec_time together,
   and its preservation by every pop, for every tie policy. *)
From EoNV Require Import Prelude Samp Graph EventSIR EventSIRP EventSIRInv EventSIRMain EventSIRPred.
From EoNV Require Import Investigation EventSIRLog.
From EoNV Require Gillespie GillespieP.
Require Import Lqa.

Notation census3 g := (GillespieP.census g Gillespie.SIR).

Lemma xlt_ltmax : forall tmax t, ltmax tmax t -> xlt t tmax = true.
Proof.
  intros [m|] t H; [|reflexivity]. unfold ltmax in H. simpl in *.
  unfold Qltb in H. destruct (Qlt_le_dec t m); auto.
Qed.
Lemma ltmax_xlt : forall tmax t, xlt t tmax = true -> ltmax tmax t.
Proof.
  intros [m|] t H; [|reflexivity]. unfold ltmax. simpl in *.
  unfold Qltb. destruct (Qlt_le_dec t m); auto.
Qed.

(* ---------------- the ghost log does not influence the run ---------------- *)
Section Ghost.
Variable tb : tiepolicy.
Variable g : graph.
Variable tmax : xtime.
Variable delay : node -> node -> xtime.
Variable dur : node -> xtime.
Variable tmin : Q.
Variables i0 r0 : list node.

Hypothesis Hdelay : forall u v d, In u (gnodes g) -> In v (gadj g u) -> delay u v = Some d -> 0 <= d.
Hypothesis Hdur : forall u d, In u (gnodes g) -> dur u = Some d -> 0 <= d.
Hypothesis Hadj : forall u, In u (gnodes g) -> NoDup (gadj g u).
Hypothesis Hdisj : forall u, In u i0 -> ~ In u r0.
Hypothesis Htmin : ltmax tmax tmin.
Hypothesis Hgn : NoDup (gnodes g).
Hypothesis Hi0g : forall u, In u i0 -> In u (gnodes g).
Hypothesis Hadjg : forall u v, In u (gnodes g) -> In v (gadj g u) -> In v (gnodes g).

Notation INV := (Inv g tmax delay dur tmin i0 r0).

Lemma loop_log_det : forall fuel s acc,
  match loop_log tb g tmax delay dur fuel s acc with
  | Ok p => loop_det tb g tmax delay dur fuel s = Ok (fst p)
  | Err e => loop_det tb g tmax delay dur fuel s = Err e
  end.
Proof.
  induction fuel as [|f IH]; intros s acc; simpl.
  - destruct (qu s); reflexivity.
  - destruct (qu s) as [|e q']; [reflexivity|]. apply IH.
Qed.

(* an invariant over (clock, ghost log, state) that every pop preserves holds at the end *)
Lemma loop_ghost : forall (P : Q -> list event -> est -> Prop),
  (forall c s e q' evs, INV c s -> fuel_inv g s -> P c evs s -> qu s = e :: q' ->
     P (qt e) (gstep e (set_qu s q') evs) (step_det tb g tmax delay dur e (set_qu s q'))) ->
  forall fuel s c evs, INV c s -> fuel_inv g s -> (phi g s <= fuel)%nat -> P c evs s ->
  exists s' c' evs', loop_log tb g tmax delay dur fuel s evs = Ok (s', evs') /\
                     loop_det tb g tmax delay dur fuel s = Ok s' /\
                     qu s' = [] /\ INV c' s' /\ P c' evs' s'.
Proof.
  intros P Hstep. induction fuel as [|f IH]; intros s c evs HI HF Hphi HP.
  - destruct (qu s) as [|e q'] eqn:Hq.
    + exists s, c, evs. simpl. rewrite Hq. auto.
    + unfold phi in Hphi. rewrite Hq in Hphi. simpl in Hphi. lia.
  - simpl. destruct (qu s) as [|e q'] eqn:Hq.
    + exists s, c, evs. auto.
    + destruct (step_fuel tb g tmax delay dur Hadj Hgn Hadjg s e q' HF Hq) as [HF' Hlt].
      assert (Hg : forall src v, qe e = ETrans src v -> In v (gnodes g)).
      { intros src v He. apply (HF e src v); auto. rewrite Hq. left. auto. }
      apply (IH _ (qt e)); [|exact HF'|lia|].
      * apply (step_det_inv tb g tmax delay dur tmin i0 r0 Hdelay Hdur Hadj Htmin c s e q' HI Hq Hg).
      * apply (Hstep c s e q' evs HI HF HP Hq).
Qed.

End Ghost.

(* ---------------- counting queue entries ---------------- *)
Definition is_rec (u : node) (e : qent) : bool :=
  match qe e with ERec w => N.eqb w u | ETrans _ _ => false end.

Section QCount.
Variable tb : tiepolicy.

Lemma filter_qinsert_len : forall (f : qent -> bool) e l,
  length (filter f (qinsert tb e l)) = length (filter f (e :: l)).
Proof.
  intros f e l. induction l as [|a l IH]; [reflexivity|].
  cbn [qinsert]. destruct (goes_before tb e a); [reflexivity|].
  cbn [filter] in *. destruct (f a), (f e); cbn [length] in *; lia.
Qed.

Lemma qadd_filter_same : forall (f : qent -> bool) tmax time e q c,
  (forall t, f (mkQ t c e) = false) ->
  length (filter f (fst (qadd tb tmax time e (q, c)))) = length (filter f q).
Proof.
  intros f tmax time e q c Hf. unfold qadd. destruct time as [t|]; cbn [fst snd]; auto.
  destruct (xltb (Some t) tmax); cbn [fst snd]; auto.
  rewrite filter_qinsert_len. cbn [filter]. rewrite Hf. reflexivity.
Qed.

Lemma qadd_filter_le : forall (f : qent -> bool) tmax time e q c,
  (length (filter f (fst (qadd tb tmax time e (q, c)))) <= S (length (filter f q)))%nat.
Proof.
  intros f tmax time e q c. unfold qadd. destruct time as [t|]; cbn [fst snd]; auto.
  destruct (xltb (Some t) tmax); cbn [fst snd]; auto.
  rewrite filter_qinsert_len. cbn [filter]. destruct (f _); cbn [length]; lia.
Qed.

Lemma sched_one_filter : forall (f : qent -> bool) tmax time rt tgt q c p vd,
  (forall t c' sr w, f (mkQ t c' (ETrans sr w)) = false) ->
  length (filter f (fst (fst (sched_one tb tmax time rt tgt (q, c, p) vd)))) = length (filter f q).
Proof.
  intros f tmax time rt tgt q c p [v d] Hf. unfold sched_one.
  destruct (xleb (xadd time d) rt); cbn [fst snd]; auto.
  destruct (xltb (xadd time d) (pget p v) && xleb (xadd time d) tmax); cbn [fst snd]; auto.
  apply qadd_filter_same. intros t. apply Hf.
Qed.

Lemma sfold_filter : forall (f : qent -> bool) tmax time rt tgt td q c p,
  (forall t c' sr w, f (mkQ t c' (ETrans sr w)) = false) ->
  length (filter f (fst (fst (sfold tb tmax time rt tgt td (q, c, p))))) = length (filter f q).
Proof.
  intros f tmax time rt tgt td. induction td as [|vd td IH]; intros q c p Hf; [reflexivity|].
  destruct vd as [v d]. rewrite sfold_cons.
  destruct (sched_one tb tmax time rt tgt (q, c, p) (v, d)) as [[q1 c1] p1] eqn:E.
  rewrite IH by exact Hf. change q1 with (fst (fst (q1, c1, p1))). rewrite <- E.
  apply sched_one_filter. exact Hf.
Qed.
End QCount.

Lemma is_rec_trans : forall u t c sr w, is_rec u (mkQ t c (ETrans sr w)) = false.
Proof. reflexivity. Qed.

Lemma filter_In_len : forall A (f : A -> bool) l x, In x l -> f x = true -> (1 <= length (filter f l))%nat.
Proof.
  intros A f l x Hin Hf. induction l as [|a l IH]; [destruct Hin|]. cbn [filter].
  destruct Hin as [->|Hin].
  - rewrite Hf. cbn. lia.
  - destruct (f a); cbn [length]; [lia|auto].
Qed.

(* ---------------- event log, transmissions and rows in lock-step ---------------- *)
Definition hd_t (rws : list row) : Q := match rws with r :: _ => fst r | [] => 0 end.

Section Lock.
Variable g : graph.
Variable tmax : xtime.
Variable st00 : node -> N.
Variable row00 : row.

(* lists newest first.  Every event is enabled in the state before it (a recovery hits an
   infectious node, an infection a susceptible one), is logged once, an infection once in
   the transmissions list with the same time and target, and the row pushed for it is the
   census of the state after it, at a time not before the previous row and before tmax *)
Inductive elock : list event -> list (Q * option node * node) -> list row -> (node -> N) -> Prop :=
| el_nil : elock [] [] [row00] st00
| el_rec : forall evs txs rws st t u,
    elock evs txs rws st -> st u = stI -> In u (gnodes g) -> hd_t rws <= t -> xlt t tmax = true ->
    elock ((t, u, stR) :: evs) txs ((t, census3 g (fupdN st u stR)) :: rws) (fupdN st u stR)
| el_inf : forall evs txs rws st t src v,
    elock evs txs rws st -> st v = stS -> In v (gnodes g) -> hd_t rws <= t -> xlt t tmax = true ->
    elock ((t, v, stI) :: evs) ((t, src, v) :: txs) ((t, census3 g (fupdN st v stI)) :: rws) (fupdN st v stI).

Lemma elock_head : forall evs txs rws st, snd row00 = census3 g st00 -> elock evs txs rws st ->
  exists t0 rest, rws = (t0, census3 g st) :: rest.
Proof.
  intros evs txs rws st H0 H. destruct H.
  - destruct row00 as [t0 c0]. simpl in H0. subst c0. eexists _, _. reflexivity.
  - eexists _, _. reflexivity.
  - eexists _, _. reflexivity.
Qed.
End Lock.

Lemma push_row_inf : forall g, NoDup (gnodes g) -> forall rws t0 st rest t v,
  rws = (t0, census3 g st) :: rest -> (forall x, st x = stS \/ st x = stI \/ st x = stR) ->
  In v (gnodes g) -> st v = stS ->
  push_row rws t (-1) 1 0 = (t, census3 g (fupdN st v stI)) :: rws.
Proof.
  intros g Hnd rws t0 st rest t v E Hok Hin Hv.
  rewrite (GillespieP.census_transmit g Hnd Gillespie.SIR st v Hok Hin Hv). subst rws. reflexivity.
Qed.

Lemma push_row_rec : forall g, NoDup (gnodes g) -> forall rws t0 st rest t u,
  rws = (t0, census3 g st) :: rest -> In u (gnodes g) -> st u = stI ->
  push_row rws t 0 (-1) 1 = (t, census3 g (fupdN st u stR)) :: rws.
Proof.
  intros g Hnd rws t0 st rest t u E Hin Hu.
  rewrite (GillespieP.census_recover_SIR g Hnd Gillespie.SIR st u eq_refl Hin Hu). subst rws. reflexivity.
Qed.

Lemma elock_tx_nodes : forall g tmax st00 row00 evs txs rws st, elock g tmax st00 row00 evs txs rws st ->
  forall t sr v, In (t, sr, v) txs -> In v (gnodes g).
Proof.
  intros g tmax st00 row00 evs txs rws st H. induction H; intros t1 sr1 v1 Hin.
  - destruct Hin.
  - eauto.
  - destruct Hin as [E|Hin]; [inversion E; subst; auto|eauto].
Qed.

Lemma filter_len_cons_le : forall A (f : A -> bool) a l, (length (filter f l) <= length (filter f (a :: l)))%nat.
Proof. intros. cbn [filter]. destruct (f a); cbn [length]; lia. Qed.

(* ---------------- the invariant ---------------- *)
Section XInv.
Variable tb : tiepolicy.
Variable g : graph.
Variable tmax : xtime.
Variable delay : node -> node -> xtime.
Variable dur : node -> xtime.
Variable tmin : Q.
Variables i0 r0 : list node.

Hypothesis Hdelay : forall u v d, In u (gnodes g) -> In v (gadj g u) -> delay u v = Some d -> 0 <= d.
Hypothesis Hdur : forall u d, In u (gnodes g) -> dur u = Some d -> 0 <= d.
Hypothesis Hadj : forall u, In u (gnodes g) -> NoDup (gadj g u).
Hypothesis Hdisj : forall u, In u i0 -> ~ In u r0.
Hypothesis Htmin : ltmax tmax tmin.
Hypothesis Hgn : NoDup (gnodes g).
Hypothesis Hi0g : forall u, In u i0 -> In u (gnodes g).
Hypothesis Hadjg : forall u v, In u (gnodes g) -> In v (gadj g u) -> In v (gnodes g).

Definition st00 : node -> N := set_all (fun _ => stS) r0 stR.
Definition row00 : row := (tmin, [order g - Z.of_nat (length r0); 0; Z.of_nat (length r0)]%Z).
Hypothesis Hrow00 : snd row00 = census3 g st00.

Notation INV := (Inv g tmax delay dur tmin i0 r0).
Notation LOCK := (elock g tmax st00 row00).

Record XI (c : Q) (evs : list event) (s : est) : Prop := {
  x_lock : LOCK evs (tlog s) (rows s) (stat s);
  x_hdc : hd_t (rows s) <= c;
  x_evc : forall e, In e evs -> ev_t e <= c;
  x_rec : forall t u, In (t, u, stR) evs -> rect s u = Some (Some t) /\ stat s u = stR;
  x_pred : forall t sr v, In (t, sr, v) (tlog s) -> predt s v = Some (Some t);
  x_q : forall e src w, In e (qu s) -> qe e = ETrans src w -> stat s w = stS ->
        exists p, predt s w = Some (Some p) /\ (p < qt e \/ p = qt e);
  x_i0 : forall w, In w i0 -> predt s w = Some (Some tmin);
  x_qi0 : forall e u w, In e (qu s) -> qe e = ETrans (Some u) w -> ~ In w i0;
  x_ti0 : forall t u v, In (t, Some u, v) (tlog s) -> ~ In v i0;
  x_qnone : forall e v, In e (qu s) -> qe e = ETrans None v -> qt e = tmin;
  x_tnone : forall t v, In (t, None, v) (tlog s) -> t = tmin;
  x_recq : forall u, (length (filter (is_rec u) (qu s)) <= 1)%nat;
  x_recI : forall e u, In e (qu s) -> qe e = ERec u -> stat s u = stI
}.

Lemma new_pred_cases : forall time rt p w d x,
  p w = Some (Some x) ->
  new_pred tmax time rt p w d = Some (Some x) \/
  exists y, new_pred tmax time rt p w d = Some (Some y) /\ y < x /\ xadd time d = Some y.
Proof.
  intros time rt p w d x Hp. unfold new_pred.
  assert (Hg : pget p w = Some x) by (unfold pget; rewrite Hp; auto).
  destruct (xleb (xadd time d) rt); [|left; exact Hp].
  rewrite Hg. destruct (xltb (xadd time d) (Some x) && xleb (xadd time d) tmax) eqn:E; [|left; reflexivity].
  apply andb_prop in E. destruct E as [E _].
  destruct (xadd time d) as [y|]; [|discriminate].
  right. exists y. split; auto. split; auto. apply xltb_SS in E. exact E.
Qed.

Lemma xstep : forall c s e q' evs,
  INV c s -> fuel_inv g s -> XI c evs s -> qu s = e :: q' ->
  XI (qt e) (gstep e (set_qu s q') evs) (step_det tb g tmax delay dur e (set_qu s q')).
Proof.
  intros c s e q' evs HI HF HX Hq.
  assert (Hsub : forall x, In x q' -> In x (qu s)) by (intros; rewrite Hq; right; auto).
  assert (Hin_e : In e (qu s)) by (rewrite Hq; left; auto).
  destruct (i_qtime _ _ _ _ _ _ _ _ _ HI e Hin_e) as [Hce Hlte].
  pose proof (i_clock _ _ _ _ _ _ _ _ _ HI) as Hclk.
  pose proof (i_sorted _ _ _ _ _ _ _ _ _ HI) as Hs. rewrite Hq in Hs. destruct Hs as [Hhd _].
  destruct (elock_head g tmax st00 row00 _ _ _ _ Hrow00 (x_lock _ _ _ HX)) as [t0 [rest Hrows]].
  unfold step_det, gstep, step_ev. destruct (qe e) as [src v|u] eqn:He.
  - change (stat (set_qu s q') v) with (stat s v).
    destruct (N.eqb (stat s v) stS) eqn:E.
    + (* infection *)
      apply N.eqb_eq in E. cbv zeta. change (stat (set_qu s q')) with (stat s).
      assert (Hvg : In v (gnodes g)) by (apply (HF e src v); auto).
      set (t := qt e) in *. set (s0 := set_qu s q').
      set (sus := sus_nbrs g (fupdN (stat s) v stI) v).
      set (td := det_delays delay v sus). set (rt := xadd t (dur v)).
      set (s' := apply_inf tb tmax t src v td (dur v) (det_calls v sus) s0).
      destruct (i_qjust _ _ _ _ _ _ _ _ _ HI e src v Hin_e He) as [Hvr0 Hjust].
      assert (Hninf : ~ infd (tlog s) v).
      { intros H. apply (i_stat _ _ _ _ _ _ _ _ _ HI v Hvr0) in H. contradiction. }
      assert (Hst : stat s' = fupdN (stat s) v stI) by (unfold s'; rewrite ai_stat; reflexivity).
      assert (Htl : tlog s' = (t, src, v) :: tlog s) by (unfold s'; rewrite ai_tlog; reflexivity).
      assert (Hrc : rect s' = fupdN (rect s) v (Some rt)) by (unfold s'; rewrite ai_rect; reflexivity).
      assert (Hrw : rows s' = push_row (rows s) t (-1) 1 0) by (unfold s'; rewrite ai_rows; reflexivity).
      assert (Hsus : forall w, In w sus <-> In w (gadj g v) /\ w <> v /\ stat s w = stS).
      { intros w. unfold sus. rewrite sus_nbrs_In. unfold fupdN.
        destruct (N.eqb w v) eqn:E1.
        - apply N.eqb_eq in E1. subst. split; [intros [_ H]; discriminate|intros [_ [H _]]; congruence].
        - apply N.eqb_neq in E1. tauto. }
      assert (Hnd : NoDup (map fst td)).
      { unfold td. rewrite det_delays_fst. apply (sus_nbrs_nodup g Hadj). exact Hvg. }
      pose proof (q1_In tb tmax t v td (dur v) s0) as Hq1. fold rt in Hq1.
      pose proof (ai_qu tb tmax t src v td (dur v) (det_calls v sus) s0) as Hqu. fold rt s' in Hqu.
      pose proof (ai_predt tb tmax t src v td (dur v) (det_calls v sus) s0) as Hpr. fold rt s' in Hpr.
      assert (PA : forall w, ~ In w sus -> predt s' w = predt s w).
      { intros w Hw. rewrite Hpr. apply sfold_pred_other. unfold td. rewrite det_delays_fst. auto. }
      assert (PB : forall w, In w sus -> predt s' w = new_pred tmax t rt (predt s) w (delay v w)).
      { intros w Hw. rewrite Hpr. apply sfold_pred_in; auto. unfold td. apply det_delays_In. auto. }
      assert (HnS : forall w, stat s w <> stS -> ~ In w sus).
      { intros w Hw Hin. apply Hsus in Hin. tauto. }
      assert (QB : forall x, In x (qu s') -> In x q' \/ (exists r, rt = Some r /\ x = mkQ r (ctr s0) (ERec v)) \/
                exists w d, In (w, d) td /\ pushed tmax t rt (predt s) w d (qt x) /\ qe x = ETrans (Some v) w).
      { intros x Hx. rewrite Hqu in Hx. apply sfold_queue_new in Hx; auto.
        destruct Hx as [Hx|Hx]; [|right; right; exact Hx].
        apply Hq1 in Hx. destruct Hx as [Hx|[r [Hr [_ Hx]]]]; [left; exact Hx|].
        right. left. exists r. auto. }
      assert (Hpush : forall w d x0, In (w, d) td -> pushed tmax t rt (predt s) w d x0 ->
                exists d', In w sus /\ d = delay v w /\ delay v w = Some d' /\ 0 <= d' /\ x0 = t + d' /\
                           xltb (Some x0) (pget (predt s) w) = true).
      { intros w d x0 Hin [Hx [Hle [Hlt Hmx]]].
        unfold td in Hin. apply det_delays_In in Hin. destruct Hin as [Hw ->].
        pose proof Hw as Hw'. apply Hsus in Hw'. destruct Hw' as [Hadjw [Hwv HwS]].
        apply xadd_some in Hx. destruct Hx as [d' [Hd' ->]].
        exists d'. repeat split; auto. eapply Hdelay; eauto. }
      pose proof (x_q _ _ _ HX e src v Hin_e He E) as [pv [Hpv Hpve]]. fold t in Hpve.
      assert (Hpvt : pv = t).
      { destruct Hpve as [Hlt|Heq]; [|exact Heq]. exfalso.
        destruct (i_j3 _ _ _ _ _ _ _ _ _ HI v pv E Hpv) as [x [sx [Hx [Hqx Htx]]]].
        { eapply ltmax_le; [|exact Hlte]. fold t. lra. }
        rewrite Hq in Hx. destruct Hx as [<-|Hx].
        - fold t in Htx. lra.
        - specialize (Hhd x Hx). fold t in Hhd. lra. }
      constructor.
      * (* lock *)
        rewrite Hrw, Htl, Hst.
        rewrite (push_row_inf g Hgn (rows s) t0 (stat s) rest t v Hrows (i_stat3 _ _ _ _ _ _ _ _ _ HI) Hvg E).
        apply el_inf; [apply (x_lock _ _ _ HX)|exact E|exact Hvg| |apply xlt_ltmax; exact Hlte].
        pose proof (x_hdc _ _ _ HX). fold t in Hce. lra.
      * rewrite Hrw. unfold push_row. cbn [hd_t fst]. apply Qle_refl.
      * intros x [<-|Hx]; [cbn [ev_t fst]; apply Qle_refl|]. pose proof (x_evc _ _ _ HX x Hx). fold t in Hce. lra.
      * intros t1 u [Hx|Hx]; [inversion Hx|].
        destruct (x_rec _ _ _ HX t1 u Hx) as [R1 R2].
        assert (Huv : u <> v) by (intros ->; rewrite E in R2; discriminate).
        split; [rewrite Hrc|rewrite Hst]; rewrite fupdN_other; auto.
      * intros t1 sr w Hin. rewrite Htl in Hin. destruct Hin as [H|Hin].
        -- inversion H; subst t1 sr w. clear H.
           rewrite PA. 2:{ intros Hin. apply Hsus in Hin. tauto. }
           rewrite Hpv, Hpvt. reflexivity.
        -- assert (Hwr : ~ In w r0).
           { intros Hr. destruct (i_r0 _ _ _ _ _ _ _ _ _ HI w Hr) as [_ Hn]. apply Hn. exists t1, sr. auto. }
           assert (HwS : stat s w <> stS).
           { apply (i_stat _ _ _ _ _ _ _ _ _ HI w Hwr). exists t1, sr. auto. }
           rewrite PA; [|apply HnS; auto]. apply (x_pred _ _ _ HX t1 sr w Hin).
      * intros x sr w Hx Hqx HwS. rewrite Hst in HwS. unfold fupdN in HwS.
        destruct (N.eqb w v) eqn:Ew; [discriminate|]. apply N.eqb_neq in Ew.
        apply QB in Hx. destruct Hx as [Hx|[[r [_ ->]]|[w' [d [Hin [Hp Hqx']]]]]]; [| discriminate |].
        -- destruct (x_q _ _ _ HX x sr w (Hsub x Hx) Hqx HwS) as [p [Hp Hle]].
           destruct (in_dec N.eq_dec w sus) as [Hws|Hws].
           ++ rewrite (PB w Hws).
              destruct (new_pred_cases t rt (predt s) w (delay v w) p Hp) as [Hn|[y [Hn [Hy _]]]].
              ** exists p. auto.
              ** exists y. split; auto. left. destruct Hle; [lra|subst; lra].
           ++ rewrite (PA w Hws). exists p. auto.
        -- rewrite Hqx in Hqx'. inversion Hqx'; subst w' sr.
           destruct (Hpush w d (qt x) Hin Hp) as [d' [Hws [-> _]]].
           rewrite (PB w Hws). destruct Hp as [Hx0 [Hle [Hlt Hmx]]].
           unfold new_pred. rewrite Hx0, Hle, Hlt. rewrite (xltb_xleb _ _ Hmx). simpl.
           exists (qt x). split; auto.
      * intros w Hw. pose proof (x_i0 _ _ _ HX w Hw) as Hp.
        destruct (in_dec N.eq_dec w sus) as [Hws|Hws]; [|rewrite PA; auto].
        rewrite (PB w Hws).
        destruct (new_pred_cases t rt (predt s) w (delay v w) tmin Hp) as [Hn|[y [Hn [Hy Hx]]]]; [exact Hn|].
        exfalso. apply xadd_some in Hx. destruct Hx as [d' [Hd' ->]].
        apply Hsus in Hws. destruct Hws as [Ha _].
        pose proof (Hdelay v w d' Hvg Ha Hd'). lra.
      * intros x u w Hx Hqx Hw. apply QB in Hx.
        destruct Hx as [Hx|[[r [_ ->]]|[w' [d [Hin [Hp Hqx']]]]]]; [| discriminate |].
        -- apply (x_qi0 _ _ _ HX x u w (Hsub x Hx) Hqx Hw).
        -- rewrite Hqx in Hqx'. inversion Hqx'; subst w' u.
           destruct (Hpush w d (qt x) Hin Hp) as [d' [Hws [_ [_ [Hd0 [Hx0 Hlt]]]]]].
           unfold pget in Hlt. rewrite (x_i0 _ _ _ HX w Hw) in Hlt. apply xltb_SS in Hlt. rewrite Hx0 in Hlt. lra.
      * intros t1 u w Hin Hw. rewrite Htl in Hin. destruct Hin as [H|Hin].
        -- inversion H; subst t1 src w. apply (x_qi0 _ _ _ HX e u v Hin_e He Hw).
        -- apply (x_ti0 _ _ _ HX t1 u w Hin Hw).
      * intros x w Hx Hqx. apply QB in Hx.
        destruct Hx as [Hx|[[r [_ ->]]|[w' [d [Hin [Hp Hqx']]]]]]; [| discriminate | congruence].
        apply (x_qnone _ _ _ HX x w (Hsub x Hx) Hqx).
      * intros t1 w Hin. rewrite Htl in Hin. destruct Hin as [H|Hin].
        -- inversion H; subst t1 src w. apply (x_qnone _ _ _ HX e v Hin_e He).
        -- apply (x_tnone _ _ _ HX t1 w Hin).
      * intros u. rewrite Hqu.
        rewrite (sfold_filter tb (is_rec u) tmax t rt v td _ _ _ (is_rec_trans u)).
        pose proof (x_recq _ _ _ HX u) as Hc. rewrite Hq in Hc.
        pose proof (filter_len_cons_le _ (is_rec u) e q') as Hc2.
        change (qu s0) with q'.
        destruct (xleb rt tmax); [|cbn [fst]; lia].
        destruct (N.eq_dec u v) as [->|Huv].
        -- assert (Hz : length (filter (is_rec v) q') = 0%nat).
           { destruct (filter (is_rec v) q') as [|x l] eqn:Ef; [reflexivity|exfalso].
             assert (Hx : In x (filter (is_rec v) q')) by (rewrite Ef; left; auto).
             apply filter_In in Hx. destruct Hx as [Hx Hr]. unfold is_rec in Hr.
             destruct (qe x) as [|w] eqn:Hqx; [discriminate|]. apply N.eqb_eq in Hr. subst w.
             pose proof (x_recI _ _ _ HX x v (Hsub x Hx) Hqx) as HvI. rewrite E in HvI. discriminate. }
           pose proof (qadd_filter_le tb (is_rec v) tmax rt (ERec v) q' (ctr s0)) as Hl. lia.
        -- rewrite qadd_filter_same; [lia|].
           intros t1. unfold is_rec. simpl. apply N.eqb_neq. auto.
      * intros x u Hx Hqx. apply QB in Hx.
        destruct Hx as [Hx|[[r [_ ->]]|[w' [d [Hin [Hp Hqx']]]]]]; [| | congruence].
        -- pose proof (x_recI _ _ _ HX x u (Hsub x Hx) Hqx) as HuI.
           rewrite Hst. rewrite fupdN_other; auto. intros ->. rewrite E in HuI. discriminate.
        -- simpl in Hqx. inversion Hqx; subst u. rewrite Hst. apply fupdN_same.
    + (* the target is no longer susceptible: nothing happens *)
      constructor; cbn [set_qu qu tlog rows stat rect predt].
      * apply (x_lock _ _ _ HX).
      * pose proof (x_hdc _ _ _ HX). lra.
      * intros x Hx. pose proof (x_evc _ _ _ HX x Hx). lra.
      * apply (x_rec _ _ _ HX).
      * apply (x_pred _ _ _ HX).
      * intros x sr w Hx. apply (x_q _ _ _ HX). auto.
      * apply (x_i0 _ _ _ HX).
      * intros x u w Hx. apply (x_qi0 _ _ _ HX). auto.
      * apply (x_ti0 _ _ _ HX).
      * intros x w Hx. apply (x_qnone _ _ _ HX). auto.
      * apply (x_tnone _ _ _ HX).
      * intros u. pose proof (x_recq _ _ _ HX u) as Hc. rewrite Hq in Hc.
        pose proof (filter_len_cons_le _ (is_rec u) e q'). lia.
      * intros x u Hx. apply (x_recI _ _ _ HX). auto.
  - (* recovery *)
    pose proof (x_recI _ _ _ HX e u Hin_e He) as HuI.
    destruct (i_qrec _ _ _ _ _ _ _ _ _ HI e u Hin_e He) as [_ [tu [sru [Hent Hrt]]]].
    assert (Hug : In u (gnodes g)).
    { apply (elock_tx_nodes g tmax st00 row00 _ _ _ _ (x_lock _ _ _ HX) tu sru u Hent). }
    assert (Hstat' : forall w, stat (apply_rec (qt e) u (set_qu s q')) w = fupdN (stat s) u stR w) by reflexivity.
    constructor; cbn [apply_rec set_qu qu tlog rows stat rect predt].
    + rewrite (push_row_rec g Hgn (rows s) t0 (stat s) rest (qt e) u Hrows Hug HuI).
      apply el_rec; [apply (x_lock _ _ _ HX)|exact HuI|exact Hug| |apply xlt_ltmax; exact Hlte].
      pose proof (x_hdc _ _ _ HX). lra.
    + unfold push_row. cbn [hd_t fst]. apply Qle_refl.
    + intros x [<-|Hx]; [cbn [ev_t fst]; apply Qle_refl|]. pose proof (x_evc _ _ _ HX x Hx). lra.
    + intros t1 u1 [Hx|Hx].
      * inversion Hx; subst t1 u1. split; [|apply fupdN_same].
        rewrite (i_rect _ _ _ _ _ _ _ _ _ HI tu sru u Hent), Hrt. reflexivity.
      * destruct (x_rec _ _ _ HX t1 u1 Hx) as [R1 R2]. split; auto.
        unfold fupdN. destruct (N.eqb u1 u); auto.
    + apply (x_pred _ _ _ HX).
    + intros x sr w Hx Hqx HwS. unfold fupdN in HwS. destruct (N.eqb w u); [discriminate|].
      apply (x_q _ _ _ HX x sr w); auto.
    + apply (x_i0 _ _ _ HX).
    + intros x u1 w Hx. apply (x_qi0 _ _ _ HX). auto.
    + apply (x_ti0 _ _ _ HX).
    + intros x w Hx. apply (x_qnone _ _ _ HX). auto.
    + apply (x_tnone _ _ _ HX).
    + intros u1. pose proof (x_recq _ _ _ HX u1) as Hc. rewrite Hq in Hc.
      pose proof (filter_len_cons_le _ (is_rec u1) e q'). lia.
    + intros x u1 Hx Hqx. pose proof (x_recI _ _ _ HX x u1 (Hsub x Hx) Hqx) as H1.
      rewrite fupdN_other; auto. intros ->.
      pose proof (x_recq _ _ _ HX u) as Hc. rewrite Hq in Hc. cbn [filter] in Hc.
      assert (Hre : is_rec u e = true) by (unfold is_rec; rewrite He; apply N.eqb_refl).
      rewrite Hre in Hc. cbn [length] in Hc.
      assert (Hrx : is_rec u x = true) by (unfold is_rec; rewrite Hqx; apply N.eqb_refl).
      pose proof (filter_In_len _ (is_rec u) q' x Hx Hrx). lia.
Qed.

End XInv.

(* ---------------- the initial state, the whole run ---------------- *)
Lemma filter_nil_all : forall A (f : A -> bool) l, (forall x, In x l -> f x = false) -> filter f l = [].
Proof.
  intros A f l H. induction l as [|a l IH]; [reflexivity|]. cbn [filter].
  rewrite (H a (or_introl eq_refl)). apply IH. intros x Hx. apply H. right. exact Hx.
Qed.

Lemma iniF_rows : forall tb tmax tmin l s, rows (iniF tb tmax tmin l s) = rows s.
Proof.
  intros tb tmax tmin l. induction l as [|a l IH]; intros s; [reflexivity|].
  unfold iniF. simpl fold_left. fold (iniF tb tmax tmin l (init_inf tb tmin tmax s a)). rewrite IH. reflexivity.
Qed.

Section Run.
Variable tb : tiepolicy.
Variable g : graph.
Variable tmax : xtime.
Variable delay : node -> node -> xtime.
Variable dur : node -> xtime.
Variable tmin : Q.
Variables i0 r0 : list node.

Hypothesis Hdelay : forall u v d, In u (gnodes g) -> In v (gadj g u) -> delay u v = Some d -> 0 <= d.
Hypothesis Hdur : forall u d, In u (gnodes g) -> dur u = Some d -> 0 <= d.
Hypothesis Hadj : forall u, In u (gnodes g) -> NoDup (gadj g u).
Hypothesis Hdisj : forall u, In u i0 -> ~ In u r0.
Hypothesis Htmin : ltmax tmax tmin.
Hypothesis Hgn : NoDup (gnodes g).
Hypothesis Hi0g : forall u, In u i0 -> In u (gnodes g).
Hypothesis Hadjg : forall u v, In u (gnodes g) -> In v (gadj g u) -> In v (gnodes g).
Hypothesis Hr0nd : NoDup r0.
Hypothesis Hr0g : forall u, In u r0 -> In u (gnodes g).

Notation INV := (Inv g tmax delay dur tmin i0 r0).
Notation XINV := (XI g tmax tmin i0 r0).

Lemma st00_spec : forall v, st00 r0 v = if mem v r0 then stR else stS.
Proof. intros v. unfold st00. apply set_all_spec. Qed.

Lemma row00_census : snd (row00 g tmin r0) = census3 g (st00 r0).
Proof.
  unfold row00, GillespieP.census, GillespieP.cntst. cbn [snd].
  assert (HR : length (filter (fun u => N.eqb (st00 r0 u) stR) (gnodes g)) = length r0).
  { rewrite <- (GillespieP.count_mem r0 (gnodes g) Hr0nd Hgn) by (intros x Hx; apply Hr0g; exact Hx).
    f_equal. apply filter_ext. intros u. rewrite st00_spec. destruct (mem u r0); reflexivity. }
  assert (HI : length (filter (fun u => N.eqb (st00 r0 u) stI) (gnodes g)) = 0%nat).
  { rewrite filter_nil_all; [reflexivity|]. intros u _. rewrite st00_spec. destruct (mem u r0); reflexivity. }
  pose proof (GillespieP.partition3 (st00 r0) (gnodes g)) as Hp.
  rewrite HR, HI in *. unfold order.
  assert (H3 : forall x, st00 r0 x = stS \/ st00 r0 x = stI \/ st00 r0 x = stR).
  { intros x. rewrite st00_spec. destruct (mem x r0); auto. }
  specialize (Hp H3). f_equal. lia.
Qed.

Lemma init_xinv : XINV tmin [] (init_state tb g tmin tmax i0 r0).
Proof.
  unfold init_state.
  set (s0 := mkE (set_all (fun _ => stS) r0 stR) (set_all (fun _ => None) r0 (Some (Some tmin)))
                 (fun _ => None) [] O [(tmin, [order g - Z.of_nat (length r0); 0; Z.of_nat (length r0)]%Z)] [] []).
  fold (iniF tb tmax tmin i0 s0).
  destruct (iniF_spec tb tmax tmin Htmin i0 s0) as [H1 [H2 [H3 [H4 [H5 [H6 [H7 [H8 H9]]]]]]]].
  assert (Hqx : forall x, In x (qu (iniF tb tmax tmin i0 s0)) -> qt x = tmin /\ exists u, In u i0 /\ qe x = ETrans None u).
  { intros x Hx. apply H7 in Hx. destruct Hx as [[]|Hx]. exact Hx. }
  constructor; rewrite ?H3, ?H1, ?iniF_rows; cbn [tlog rows stat s0].
  - apply el_nil.
  - cbn. apply Qle_refl.
  - intros e [].
  - intros t u [].
  - intros t sr v [].
  - intros e src w He Hq _. destruct (Hqx e He) as [Ht [u [Hu Hq']]].
    assert (Hwu : w = u) by congruence. rewrite Hwu.
    exists tmin. split; [|right; symmetry; exact Ht].
    rewrite H4. apply mem_In in Hu. rewrite Hu. reflexivity.
  - intros w Hw. rewrite H4. apply mem_In in Hw. rewrite Hw. reflexivity.
  - intros e u w He Hq. destruct (Hqx e He) as [_ [u' [_ Hq']]]. congruence.
  - intros t u v [].
  - intros e v He _. apply (Hqx e He).
  - intros t v [].
  - intros u. rewrite filter_nil_all; [cbn; lia|].
    intros x Hx. destruct (Hqx x Hx) as [_ [u' [_ Hq']]]. unfold is_rec. rewrite Hq'. reflexivity.
  - intros e u He Hq. destruct (Hqx e He) as [_ [u' [_ Hq']]]. congruence.
Qed.

(* every run ends, within the fuel, in a state satisfying all three invariants; the ghost
   log is the log of that run *)
Theorem esir_xrun : forall fuel, (esir_fuel g i0 <= fuel)%nat ->
  exists sF cF evs,
    loop_log tb g tmax delay dur fuel (init_state tb g tmin tmax i0 r0) [] = Ok (sF, evs) /\
    esir_run tb g delay dur i0 r0 tmin tmax fuel = Ok sF /\
    qu sF = [] /\ INV cF sF /\ Inv2 tmin r0 sF /\ XINV cF evs sF.
Proof.
  intros fuel Hf.
  destruct (loop_ghost tb g tmax delay dur tmin i0 r0 Hdelay Hdur Hadj Htmin Hgn Hadjg
              (fun c evs s => Inv2 tmin r0 s /\ XINV c evs s)) with
      (fuel := fuel) (s := init_state tb g tmin tmax i0 r0) (c := tmin) (evs := @nil event)
    as [sF [cF [evs [HL [HD [Hq [HI [H2 HX]]]]]]]].
  - intros c s e q' evs HI HF [H2 HX] Hq. split.
    + assert (Hg : forall src v, qe e = ETrans src v -> In v (gnodes g)).
      { intros src v He. apply (HF e src v); auto. rewrite Hq. left. auto. }
      apply (step2 tb g tmax delay dur tmin i0 r0 Hadj c s e q' HI H2 Hq Hg).
    + apply (xstep tb g tmax delay dur tmin i0 r0 Hdelay Hadj Hgn row00_census c s e q' evs HI HF HX Hq).
  - apply (init_inv tb g tmax delay dur tmin i0 r0 Hdisj Htmin).
  - apply (init_fuel_inv tb g tmax tmin i0 r0 Htmin Hi0g).
  - pose proof (init_phi tb g tmax tmin i0 r0 Htmin). lia.
  - split; [apply (init2 tb g tmax tmin i0 r0 Hdisj Htmin)|apply init_xinv].
  - exists sF, cF, evs. unfold esir_run. auto 10.
Qed.

End Run.
