(* Proofs about the _ListDict_ model: invariant over every history, refinement
   to the finite-map specification, and the closed-form law of the rejection
   loop for every fuel. *)
From EoNV Require Import Prelude Samp ListDict.
From Coq Require Import Qpower Lqa Permutation.

(* ---------- booleans over Q ---------- *)
Lemma Qltb_true : forall a b, Qltb a b = true <-> a < b.
Proof.
  intros a b. unfold Qltb. destruct (Qlt_le_dec a b) as [H|H]; split; intro H0.
  - exact H. - reflexivity. - discriminate H0. - exfalso. lra.
Qed.

Lemma Qltb_false : forall a b, Qltb a b = false <-> b <= a.
Proof.
  intros a b. unfold Qltb. destruct (Qlt_le_dec a b) as [H|H]; split; intro H0.
  - discriminate H0. - exfalso. lra. - exact H. - reflexivity.
Qed.

Lemma Qeqb_true : forall a b, Qeqb a b = true <-> a == b.
Proof. intros a b. unfold Qeqb. apply Qeq_bool_iff. Qed.

Lemma Qeqb_false : forall a b, Qeqb a b = false <-> ~ a == b.
Proof.
  intros a b. unfold Qeqb. split; intro H.
  - intro H0. apply Qeq_bool_iff in H0. rewrite H0 in H. discriminate H.
  - destruct (Qeq_bool a b) eqn:E; [|reflexivity].
    exfalso. apply H. apply Qeq_bool_iff. exact E.
Qed.

(* ---------- option Q up to Qeq ---------- *)
Definition oQeq (a b : option Q) : Prop :=
  match a, b with Some x, Some y => x == y | None, None => True | _, _ => False end.

Lemma oQeq_refl : forall a, oQeq a a.
Proof. intros [x|]; simpl; [reflexivity|exact I]. Qed.

Lemma oQeq_sym : forall a b, oQeq a b -> oQeq b a.
Proof. intros [x|] [y|]; simpl; intro H; try exact H. symmetry. exact H. Qed.

Lemma oQeq_trans : forall a b c, oQeq a b -> oQeq b c -> oQeq a c.
Proof.
  intros [x|] [y|] [z|]; simpl; intros H1 H2; try exact I; try contradiction.
  rewrite H1. exact H2.
Qed.

Lemma oQeq_of_eq : forall a b, a = b -> oQeq a b.
Proof. intros a b H. subst b. apply oQeq_refl. Qed.

(* ---------- Qnat ---------- *)
Lemma Qnat_S : forall n, Qnat (S n) == Qnat n + 1.
Proof.
  intro n. unfold Qnat. rewrite Nat2Z.inj_succ. unfold Z.succ.
  rewrite inject_Z_plus. reflexivity.
Qed.

Lemma Qnat_nonneg : forall n, 0 <= Qnat n.
Proof. intro n. unfold Qnat, Qle. simpl. lia. Qed.

Lemma Qnat_pos : forall n, (0 < n)%nat -> 0 < Qnat n.
Proof. intros n H. unfold Qnat, Qlt. simpl. lia. Qed.

(* ---------- sums ---------- *)
Lemma sumQ_cons : forall x l, sumQ (x :: l) = x + sumQ l.
Proof. reflexivity. Qed.

Lemma sumQ_app : forall l1 l2, sumQ (l1 ++ l2) == sumQ l1 + sumQ l2.
Proof.
  induction l1 as [|x l1 IH]; intro l2.
  - cbn [app]. unfold sumQ at 2. cbn [fold_right]. ring.
  - cbn [app]. rewrite !sumQ_cons. rewrite IH. ring.
Qed.

Lemma sumQ_perm : forall l1 l2, Permutation l1 l2 -> sumQ l1 == sumQ l2.
Proof.
  intros l1 l2 H. induction H as [|x l l' _ IH|x y l|l l' l'' _ IH1 _ IH2].
  - reflexivity.
  - rewrite !sumQ_cons. rewrite IH. reflexivity.
  - rewrite !sumQ_cons. ring.
  - rewrite IH1. exact IH2.
Qed.

Lemma sumQ_map_ext_in : forall (A : Type) (f g : A -> Q) l,
  (forall x, In x l -> f x == g x) -> sumQ (map f l) == sumQ (map g l).
Proof.
  intros A f g. induction l as [|a l IH]; intro H.
  - reflexivity.
  - cbn [map]. rewrite !sumQ_cons. rewrite IH.
    + rewrite (H a (or_introl eq_refl)). reflexivity.
    + intros x Hx. apply H. right. exact Hx.
Qed.

Lemma sumQ_map_scale : forall (A : Type) (c : Q) (f : A -> Q) l,
  sumQ (map (fun x => c * f x) l) == c * sumQ (map f l).
Proof.
  intros A c f. induction l as [|a l IH].
  - cbn [map]. unfold sumQ. cbn [fold_right]. ring.
  - cbn [map]. rewrite !sumQ_cons. rewrite IH. ring.
Qed.

Lemma sumQ_map_plus : forall (A : Type) (f g : A -> Q) l,
  sumQ (map (fun x => f x + g x) l) == sumQ (map f l) + sumQ (map g l).
Proof.
  intros A f g. induction l as [|a l IH].
  - cbn [map]. unfold sumQ. cbn [fold_right]. ring.
  - cbn [map]. rewrite !sumQ_cons. rewrite IH. ring.
Qed.

Lemma sumQ_map_const : forall (A : Type) (c : Q) (l : list A),
  sumQ (map (fun _ => c) l) == Qnat (length l) * c.
Proof.
  intros A c. induction l as [|a l IH].
  - cbn [map length]. unfold sumQ, Qnat. cbn [fold_right Z.of_nat]. ring.
  - cbn [map length]. rewrite sumQ_cons. rewrite IH. rewrite Qnat_S. ring.
Qed.

Lemma sumQ_map_perm : forall (A : Type) (f : A -> Q) l1 l2,
  Permutation l1 l2 -> sumQ (map f l1) == sumQ (map f l2).
Proof. intros A f l1 l2 H. apply sumQ_perm. apply Permutation_map. exact H. Qed.

Lemma sumQ_nonneg : forall l, (forall x, In x l -> 0 <= x) -> 0 <= sumQ l.
Proof.
  induction l as [|a l IH]; intro H.
  - unfold sumQ. cbn [fold_right]. lra.
  - rewrite sumQ_cons.
    assert (H1 : 0 <= a) by (apply H; left; reflexivity).
    assert (H2 : 0 <= sumQ l) by (apply IH; intros x Hx; apply H; right; exact Hx).
    lra.
Qed.

Lemma sumQ_map_le : forall (A : Type) (f g : A -> Q) l,
  (forall x, In x l -> f x <= g x) -> sumQ (map f l) <= sumQ (map g l).
Proof.
  intros A f g. induction l as [|a l IH]; intro H.
  - cbn [map]. unfold sumQ. cbn [fold_right]. lra.
  - cbn [map]. rewrite !sumQ_cons.
    assert (H1 : f a <= g a) by (apply H; left; reflexivity).
    assert (H2 : sumQ (map f l) <= sumQ (map g l)).
    { apply IH. intros x Hx. apply H. right. exact Hx. }
    lra.
Qed.

(* ---------- natural powers ---------- *)
Fixpoint qpow (x : Q) (n : nat) : Q :=
  match n with O => 1 | S m => x * qpow x m end.

Lemma Qpower_qpow : forall x n, x ^ Z.of_nat n == qpow x n.
Proof.
  intros x. induction n as [|n IH].
  - reflexivity.
  - rewrite Nat2Z.inj_succ. unfold Z.succ. rewrite Qpower_plus' by lia.
    rewrite IH. cbn [qpow]. change (x ^ 1) with x. ring.
Qed.

Lemma qpow_01 : forall x n, 0 <= x -> x <= 1 -> 0 <= qpow x n /\ qpow x n <= 1.
Proof.
  intros x n H0 H1. induction n as [|n [IHa IHb]].
  - cbn [qpow]. split; lra.
  - cbn [qpow]. split.
    + apply Qmult_le_0_compat; assumption.
    + assert (H : x * qpow x n <= 1 * 1).
      { apply Qmult_le_compat_nonneg; split; assumption. }
      lra.
Qed.

Lemma qpow_S_lt1 : forall x n, 0 <= x -> x < 1 -> qpow x (S n) < 1.
Proof.
  intros x n H0 H1. cbn [qpow].
  destruct (qpow_01 x n H0 (Qlt_le_weak _ _ H1)) as [Ha Hb].
  assert (H : x * qpow x n <= x * 1).
  { apply Qmult_le_compat_nonneg; split; try assumption. lra. }
  lra.
Qed.

(* ---------- list_max ---------- *)
Lemma qmax_l : forall a b, a <= qmax a b.
Proof.
  intros a b. unfold qmax. destruct (Qltb a b) eqn:E.
  - apply Qltb_true in E. lra.
  - lra.
Qed.

Lemma qmax_r : forall a b, b <= qmax a b.
Proof.
  intros a b. unfold qmax. destruct (Qltb a b) eqn:E.
  - lra.
  - apply Qltb_false in E. exact E.
Qed.

Lemma fold_qmax_ub : forall t a,
  a <= fold_left qmax t a /\ forall x, In x t -> x <= fold_left qmax t a.
Proof.
  induction t as [|h t IH]; intro a.
  - cbn [fold_left]. split; [lra|]. intros x [].
  - cbn [fold_left]. destruct (IH (qmax a h)) as [H1 H2]. split.
    + pose proof (qmax_l a h) as H. lra.
    + intros x [Hx|Hx].
      * subst x. pose proof (qmax_r a h) as H. lra.
      * apply H2. exact Hx.
Qed.

Lemma list_max_ub : forall l x, In x l -> x <= list_max l.
Proof.
  intros [|h t] x Hx.
  - destruct Hx.
  - unfold list_max. destruct (fold_qmax_ub t h) as [H1 H2].
    destruct Hx as [Hx|Hx].
    + subst x. exact H1.
    + apply H2. exact Hx.
Qed.

(* ---------- lists ---------- *)
Lemma nth_error_snoc : forall (A : Type) (l : list A) (a x : A) i,
  nth_error (l ++ [a]) i = Some x <->
  (nth_error l i = Some x \/ (i = length l /\ x = a)).
Proof.
  intros A l a x i. destruct (lt_eq_lt_dec i (length l)) as [[H|H]|H].
  - rewrite nth_error_app1 by exact H. split.
    + intro H0. left. exact H0.
    + intros [H0|[H0 _]]; [exact H0|lia].
  - subst i. rewrite nth_error_app2 by lia. rewrite Nat.sub_diag. cbn [nth_error].
    split.
    + intro H0. right. split; [reflexivity|]. congruence.
    + intros [H0|[_ H0]].
      * assert (H1 : nth_error l (length l) = None) by (apply nth_error_None; lia).
        congruence.
      * subst x. reflexivity.
  - assert (H1 : nth_error (l ++ [a]) i = None).
    { apply nth_error_None. rewrite app_length. cbn [length]. lia. }
    assert (H2 : nth_error l i = None) by (apply nth_error_None; lia).
    rewrite H1, H2. split.
    + intro H0. discriminate H0.
    + intros [H0|[H0 _]]; [discriminate H0|lia].
Qed.

Lemma NoDup_nth_error_inj : forall (A : Type) (l : list A) i j x,
  NoDup l -> nth_error l i = Some x -> nth_error l j = Some x -> i = j.
Proof.
  intros A l i j x Hnd Hi Hj.
  apply (proj1 (NoDup_nth_error l) Hnd).
  - apply nth_error_Some. congruence.
  - congruence.
Qed.

Lemma NoDup_snoc : forall (A : Type) (l : list A) a,
  NoDup (l ++ [a]) <-> (NoDup l /\ ~ In a l).
Proof.
  intros A l a. split.
  - intro H. assert (H1 : NoDup (a :: l)).
    { apply (Permutation_NoDup (l := l ++ [a])); [|exact H].
      apply Permutation_sym. apply Permutation_cons_append. }
    inversion H1; subst. split; assumption.
  - intros [H1 H2]. apply (Permutation_NoDup (l := a :: l)).
    + apply Permutation_cons_append.
    + constructor; assumption.
Qed.

Section P.
Variable K : Type.
Variable Keqb : K -> K -> bool.
Hypothesis Keqb_spec : forall a b, reflect (a = b) (Keqb a b).

Notation ld := (ld K).
Notation op := (op K).
Notation ld_step := (ld_step K Keqb).
Notation ld_run := (ld_run K Keqb).
Notation sp_step := (sp_step K Keqb).
Notation abs := (abs K).
Notation wread := (wread K).

(* ---------- the invariant ---------- *)
Record ld_inv (s : ld) : Prop := {
  inv_nodup : NoDup (items s);
  inv_pos : forall k i, pos s k = Some i <-> nth_error (items s) i = Some k;
  inv_dom : weighted s = true -> forall k, (wt s k <> None <-> In k (items s));
  inv_nonneg : weighted s = true -> forall k w, wt s k = Some w -> 0 <= w;
  inv_max : weighted s = true -> forall k w, wt s k = Some w -> w <= maxw s;
  inv_total : weighted s = true -> total s == sumQ (map (wread s) (items s))
}.

(* operations the property quantifies over: weights and increments >= 0,
   weighted operations on weighted structures only *)
Definition op_ok (w : bool) (o : op) : Prop :=
  match o with
  | OpInsert _ q => w = true /\ 0 <= q
  | OpUpdate _ d => w = true /\ 0 <= d
  | OpRemove _ => True
  | OpAdd _ => w = false
  end.


Notation fupd := (fupd K Keqb).
Notation contains := (contains K).
Notation ld_update := (ld_update K Keqb).
Notation ld_remove := (ld_remove K Keqb).
Notation ld_insert := (ld_insert K Keqb).
Notation sp_update := (sp_update K Keqb).
Notation sp_remove := (sp_remove K Keqb).
Notation sp_insert := (sp_insert K Keqb).
Notation sp_add_unweighted := (sp_add_unweighted K Keqb).
Notation set_nth := (set_nth K).

(* ---------- keys ---------- *)
Lemma Keqb_refl : forall k, Keqb k k = true.
Proof.
  intro k. destruct (Keqb_spec k k) as [_|H]; [reflexivity|].
  exfalso. apply H. reflexivity.
Qed.

Lemma Keqb_neq : forall a b, a <> b -> Keqb a b = false.
Proof.
  intros a b H. destruct (Keqb_spec a b) as [H0|_]; [contradiction|reflexivity].
Qed.

Lemma pos_in : forall (p : K -> option nat) (l : list K),
  (forall x i, p x = Some i <-> nth_error l i = Some x) ->
  forall x, (p x <> None <-> In x l).
Proof.
  intros p l H x. split.
  - intro H0. destruct (p x) as [i|] eqn:E; [|contradiction H0; reflexivity].
    apply nth_error_In with i. apply H. exact E.
  - intros H0 H1. apply In_nth_error in H0. destruct H0 as [i Hi].
    apply H in Hi. congruence.
Qed.

Lemma abs_mk : forall w its (p : K -> option nat) (f : K -> option Q) m c t x,
  abs (mkLD w its p f m c t) x =
  match p x with
  | None => None
  | Some _ => Some (if w then match f x with Some v => v | None => 0 end else 1)
  end.
Proof.
  intros w its p f m c t x. unfold ListDict.abs, ListDict.wread.
  cbn [pos weighted wt]. destruct (p x); [destruct w|]; reflexivity.
Qed.

Lemma abs_unfold : forall s x,
  abs s x = match pos s x with
            | None => None
            | Some _ => Some (if weighted s then wread s x else 1)
            end.
Proof. intros [w its p f m c t] x. apply abs_mk. Qed.

Lemma wread_mk : forall w its (p : K -> option nat) (f : K -> option Q) m c t x,
  wread (mkLD w its p f m c t) x = match f x with Some v => v | None => 0 end.
Proof. reflexivity. Qed.

Lemma wread_notin : forall s k, ld_inv s -> weighted s = true ->
  ~ In k (items s) -> wread s k = 0.
Proof.
  intros s k Hinv Hw Hn. unfold ListDict.wread.
  destruct (wt s k) as [w|] eqn:E; [|reflexivity].
  exfalso. apply Hn. apply (inv_dom s Hinv Hw). congruence.
Qed.

Lemma wread_nonneg : forall s k, ld_inv s -> weighted s = true -> 0 <= wread s k.
Proof.
  intros s k Hinv Hw. unfold ListDict.wread.
  destruct (wt s k) as [w|] eqn:E; [|lra].
  apply (inv_nonneg s Hinv Hw k). exact E.
Qed.

Lemma wread_le_max : forall s k, ld_inv s -> weighted s = true ->
  In k (items s) -> wread s k <= maxw s.
Proof.
  intros s k Hinv Hw Hin. unfold ListDict.wread.
  destruct (wt s k) as [w|] eqn:E.
  - apply (inv_max s Hinv Hw k). exact E.
  - exfalso. apply (inv_dom s Hinv Hw k) in Hin. contradiction.
Qed.

(* ---------- sums over keys ---------- *)
Lemma sumQ_upd_notin : forall (f : K -> Q) k v l, ~ In k l ->
  sumQ (map (fun x => if Keqb x k then v else f x) l) == sumQ (map f l).
Proof.
  intros f k v l H. apply sumQ_map_ext_in. intros x Hx.
  rewrite Keqb_neq; [reflexivity|]. intro E. subst x. contradiction.
Qed.

Lemma sumQ_upd_in : forall (f : K -> Q) k v l, NoDup l -> In k l ->
  sumQ (map (fun x => if Keqb x k then v else f x) l) == sumQ (map f l) - f k + v.
Proof.
  intros f k v. induction l as [|a l IH]; intros Hnd Hin.
  - destruct Hin.
  - inversion Hnd as [|a' l' Hna Hnd']; subst a' l'. cbn [map]. rewrite !sumQ_cons.
    destruct (Keqb_spec a k) as [E|E].
    + subst a. rewrite (sumQ_upd_notin f k v l Hna). ring.
    + destruct Hin as [Hin|Hin]; [contradiction|].
      rewrite (IH Hnd' Hin). ring.
Qed.

(* ---------- the empty structure ---------- *)
Lemma ld_empty_inv : forall w, ld_inv (ld_empty w).
Proof.
  intro w. constructor; cbn [ld_empty items pos wt weighted maxw total].
  - constructor.
  - intros k i. split; intro H; [discriminate H|]. destruct i; discriminate H.
  - intros _ k. split; intro H; [contradiction H; reflexivity|destruct H].
  - intros _ k q H. discriminate H.
  - intros _ k q H. discriminate H.
  - intros _. reflexivity.
Qed.

(* ---------- appending a fresh key ---------- *)
Lemma append_pos : forall (p : K -> option nat) l k,
  (forall x i, p x = Some i <-> nth_error l i = Some x) -> ~ In k l ->
  forall x i, fupd p k (Some (length l)) x = Some i <-> nth_error (l ++ [k]) i = Some x.
Proof.
  intros p l k H Hn x i. rewrite nth_error_snoc. unfold ListDict.fupd.
  destruct (Keqb_spec x k) as [E|E].
  - subst x. split.
    + intro H0. right. split; [congruence|reflexivity].
    + intros [H0|[H0 _]].
      * exfalso. apply Hn. apply nth_error_In with i. exact H0.
      * subst i. reflexivity.
  - rewrite H. split.
    + intro H0. left. exact H0.
    + intros [H0|[_ H0]]; [exact H0|contradiction].
Qed.

(* ---------- update(item, weight_increment) ---------- *)
Definition upd_mx (s : ld) (k : K) (d : Q) : Q * Z :=
  let w0 := wread s k in
  let w1 := w0 + d in
  if Qltb 0 d || negb (Qeqb w0 (maxw s)) then
    if Qltb (maxw s) w1 then (w1, 1%Z)
    else if Qeqb w1 (maxw s) then (maxw s, (maxc s + 1)%Z)
    else (maxw s, maxc s)
  else (maxw s, (maxc s - 2)%Z).

Lemma upd_mx_spec : forall s k d, 0 <= d ->
  maxw s <= fst (upd_mx s k d) /\ wread s k + d <= fst (upd_mx s k d).
Proof.
  intros s k d Hd. unfold upd_mx. cbv zeta.
  destruct (Qltb 0 d || negb (Qeqb (wread s k) (maxw s))) eqn:E.
  - destruct (Qltb (maxw s) (wread s k + d)) eqn:E1.
    + apply Qltb_true in E1. cbn [fst]. split; lra.
    + apply Qltb_false in E1.
      destruct (Qeqb (wread s k + d) (maxw s)); cbn [fst]; split; lra.
  - apply orb_false_iff in E. destruct E as [E1 E2]. apply Qltb_false in E1.
    apply negb_false_iff in E2. apply Qeqb_true in E2. cbn [fst]. split; lra.
Qed.

Lemma ld_update_some_eq : forall s k d, weighted s = true ->
  ld_update s k (Some d) =
  Ok (mkLD true (if contains s k then items s else items s ++ [k])
        (if contains s k then pos s else fupd (pos s) k (Some (length (items s))))
        (fupd (wt s) k (Some (wread s k + d)))
        (fst (upd_mx s k d)) (snd (upd_mx s k d)) (total s + d)).
Proof.
  intros s k d Hw. unfold ListDict.ld_update, upd_mx. rewrite Hw. cbv zeta. cbn [negb].
  destruct (Qltb 0 d || negb (Qeqb (wread s k) (maxw s)));
    [destruct (Qltb (maxw s) (wread s k + d));
      [|destruct (Qeqb (wread s k + d) (maxw s))]|];
    destruct (contains s k); reflexivity.
Qed.

Lemma contains_true : forall s k, ld_inv s -> (contains s k = true <-> In k (items s)).
Proof.
  intros s k Hinv. rewrite <- (pos_in _ _ (inv_pos s Hinv)). unfold ListDict.contains.
  destruct (pos s k); split; intro H; try reflexivity; try discriminate H.
  - intro H0. discriminate H0.
  - contradiction H. reflexivity.
Qed.

Lemma contains_false : forall s k, ld_inv s -> (contains s k = false <-> ~ In k (items s)).
Proof.
  intros s k Hinv. rewrite <- (contains_true s k Hinv).
  destruct (contains s k); split; intro H; try reflexivity; try discriminate H.
  - contradiction H. reflexivity.
  - intro H0. discriminate H0.
Qed.

Lemma contains_pos_some : forall s k, contains s k = true -> exists i, pos s k = Some i.
Proof.
  intros s k. unfold ListDict.contains. destruct (pos s k) as [i|]; intro H.
  - exists i. reflexivity.
  - discriminate H.
Qed.

Lemma contains_pos_none : forall s k, contains s k = false -> pos s k = None.
Proof.
  intros s k. unfold ListDict.contains. destruct (pos s k) as [i|]; intro H.
  - discriminate H.
  - reflexivity.
Qed.

Lemma ld_update_some_spec : forall s k d, ld_inv s -> weighted s = true -> 0 <= d ->
  exists s', ld_update s k (Some d) = Ok s' /\ ld_inv s' /\ weighted s' = true /\
    forall x, oQeq (abs s' x) (sp_update (abs s) k d x).
Proof.
  intros s k d Hinv Hw Hd. eexists. split; [apply ld_update_some_eq; exact Hw|].
  destruct (upd_mx_spec s k d Hd) as [Hm1 Hm2].
  set (mw := fst (upd_mx s k d)) in *. set (mc := snd (upd_mx s k d)).
  pose proof (wread_nonneg s k Hinv Hw) as Hw0.
  assert (Hnn : forall x v, fupd (wt s) k (Some (wread s k + d)) x = Some v -> 0 <= v).
  { intros x v. unfold ListDict.fupd. destruct (Keqb x k).
    - intro H. injection H as H. subst v. lra.
    - apply (inv_nonneg s Hinv Hw). }
  assert (Hmx : forall x v, fupd (wt s) k (Some (wread s k + d)) x = Some v -> v <= mw).
  { intros x v. unfold ListDict.fupd. destruct (Keqb x k).
    - intro H. injection H as H. subst v. exact Hm2.
    - intro H. pose proof (inv_max s Hinv Hw x v H) as H1. lra. }
  assert (Hwr : forall x, wread (mkLD true
        (if contains s k then items s else items s ++ [k])
        (if contains s k then pos s else fupd (pos s) k (Some (length (items s))))
        (fupd (wt s) k (Some (wread s k + d))) mw mc (total s + d)) x
        = if Keqb x k then wread s k + d else wread s x).
  { intro x. rewrite wread_mk. unfold ListDict.fupd. destruct (Keqb x k); reflexivity. }
  destruct (contains s k) eqn:Hc.
  - (* key already present *)
    assert (Hin : In k (items s)) by (apply (contains_true s k Hinv); exact Hc).
    destruct (contains_pos_some s k Hc) as [pk Hpk].
    split; [|split; [reflexivity|]].
    + constructor; cbn [items pos wt weighted maxw total].
      * apply (inv_nodup s Hinv).
      * apply (inv_pos s Hinv).
      * intros _ x. unfold ListDict.fupd. destruct (Keqb_spec x k) as [E|E].
        -- subst x. split; [intros _; exact Hin|intros _ H; discriminate H].
        -- apply (inv_dom s Hinv Hw).
      * intros _. exact Hnn.
      * intros _. exact Hmx.
      * intros _.
        rewrite (sumQ_map_ext_in K _ (fun x => if Keqb x k then wread s k + d else wread s x))
          by (intros x _; rewrite Hwr; reflexivity).
        rewrite (sumQ_upd_in (wread s) k (wread s k + d) (items s) (inv_nodup s Hinv) Hin).
        rewrite (inv_total s Hinv Hw). ring.
    + intro x. rewrite abs_mk. unfold ListDict.sp_update, ListDict.fupd.
      destruct (Keqb_spec x k) as [E|E].
      * subst x. rewrite (abs_unfold s k), Hpk, Hw. cbn [oQeq]. reflexivity.
      * rewrite (abs_unfold s x), Hw. destruct (pos s x); cbn [oQeq]; [reflexivity|exact I].
  - (* fresh key *)
    assert (Hnin : ~ In k (items s)) by (apply (contains_false s k Hinv); exact Hc).
    pose proof (contains_pos_none s k Hc) as Hpk.
    pose proof (wread_notin s k Hinv Hw Hnin) as Hwk.
    split; [|split; [reflexivity|]].
    + constructor; cbn [items pos wt weighted maxw total].
      * apply NoDup_snoc. split; [apply (inv_nodup s Hinv)|exact Hnin].
      * apply append_pos; [apply (inv_pos s Hinv)|exact Hnin].
      * intros _ x. rewrite in_app_iff. unfold ListDict.fupd.
        destruct (Keqb_spec x k) as [E|E].
        -- subst x. split; [intros _; right; left; reflexivity|intros _ H; discriminate H].
        -- rewrite (inv_dom s Hinv Hw x). split.
           ++ intro H. left. exact H.
           ++ intros [H|[H|[]]]; [exact H|]. exfalso. apply E. symmetry. exact H.
      * intros _. exact Hnn.
      * intros _. exact Hmx.
      * intros _. rewrite map_app, sumQ_app. cbn [map]. rewrite Hwr, Keqb_refl.
        rewrite (sumQ_map_ext_in K _ (fun x => if Keqb x k then wread s k + d else wread s x))
          by (intros x _; rewrite Hwr; reflexivity).
        rewrite (sumQ_upd_notin (wread s) k (wread s k + d) (items s) Hnin).
        rewrite (inv_total s Hinv Hw). unfold sumQ at 3. cbn [fold_right].
        rewrite Hwk. ring.
    + intro x. rewrite abs_mk. unfold ListDict.sp_update, ListDict.fupd.
      destruct (Keqb_spec x k) as [E|E].
      * subst x. rewrite (abs_unfold s k), Hpk. cbn [oQeq].
        change (match wt s k with Some v => v | None => 0 end) with (wread s k).
        rewrite Hwk. ring.
      * rewrite (abs_unfold s x), Hw. destruct (pos s x); cbn [oQeq]; [reflexivity|exact I].
Qed.


(* ---------- update(item) on an unweighted structure ---------- *)
Lemma ld_add_spec : forall s k, ld_inv s -> weighted s = false ->
  exists s', ld_update s k None = Ok s' /\ ld_inv s' /\ weighted s' = false /\
    forall x, oQeq (abs s' x) (sp_add_unweighted (abs s) k x).
Proof.
  intros s k Hinv Hw. unfold ListDict.ld_update. rewrite Hw.
  destruct (contains s k) eqn:Hc.
  - exists s. split; [reflexivity|]. split; [exact Hinv|]. split; [exact Hw|].
    intro x. unfold ListDict.sp_add_unweighted.
    destruct (contains_pos_some s k Hc) as [pk Hpk].
    rewrite (abs_unfold s k), Hpk. apply oQeq_refl.
  - assert (Hnin : ~ In k (items s)) by (apply (contains_false s k Hinv); exact Hc).
    pose proof (contains_pos_none s k Hc) as Hpk.
    eexists. split; [reflexivity|]. split; [|split; [reflexivity|]].
    + constructor; cbn [items pos wt weighted maxw total];
        try (intro Hf; discriminate Hf).
      * apply NoDup_snoc. split; [apply (inv_nodup s Hinv)|exact Hnin].
      * apply append_pos; [apply (inv_pos s Hinv)|exact Hnin].
    + intro x. rewrite abs_mk. unfold ListDict.sp_add_unweighted.
      rewrite (abs_unfold s k), Hpk. unfold ListDict.fupd.
      destruct (Keqb_spec x k) as [E|E].
      * cbn [oQeq]. reflexivity.
      * rewrite (abs_unfold s x), Hw. apply oQeq_refl.
Qed.

(* ---------- remove(choice) ---------- *)
Lemma set_nth_app : forall (a : list K) u b x,
  set_nth (a ++ u :: b) (length a) x = a ++ x :: b.
Proof.
  induction a as [|h a IH]; intros u b x.
  - reflexivity.
  - cbn [app length ListDict.set_nth]. rewrite IH. reflexivity.
Qed.

Lemma nth_error_mid_neq : forall (a : list K) u v b x i, x <> u -> x <> v ->
  (nth_error (a ++ u :: b) i = Some x <-> nth_error (a ++ v :: b) i = Some x).
Proof.
  intros a u v b x i Hu Hv. destruct (lt_eq_lt_dec i (length a)) as [[H|H]|H].
  - rewrite !nth_error_app1 by exact H. reflexivity.
  - subst i. rewrite !nth_error_app2 by lia. rewrite Nat.sub_diag. cbn [nth_error].
    split; intro H0; exfalso; congruence.
  - rewrite !nth_error_app2 by lia. destruct (i - length a)%nat as [|j] eqn:E; [lia|].
    cbn [nth_error]. reflexivity.
Qed.

Definition rm_lp (s : ld) (k : K) (p : nat) (last : K) (rest_rev : list K)
  : list K * (K -> option nat) :=
  let its0 := rev rest_rev in
  let pos0 := fupd (pos s) k None in
  if Nat.eqb p (length its0) then (its0, pos0)
  else (set_nth its0 p last, fupd pos0 last (Some p)).

Definition rm_tail (s : ld) (k : K) (its1 : list K) (pos1 : K -> option nat) : result ld :=
  if weighted s then
    match wt s k with
    | None => Err KeyErr
    | Some w =>
      let wt1 := fupd (wt s) k None in
      let tot := match its1 with [] => 0 | _ => total s - w end in
      if Qeqb w (maxw s) then
        let mc := (maxc s - 1)%Z in
        if Z.eqb mc 0 && negb (Nat.eqb (length its1) 0) then
          let '(m, c) := recompute_max K s its1 wt1 in
          Ok (mkLD true its1 pos1 wt1 m c tot)
        else Ok (mkLD true its1 pos1 wt1 (maxw s) mc tot)
      else Ok (mkLD true its1 pos1 wt1 (maxw s) (maxc s) tot)
    end
  else Ok (mkLD false its1 pos1 (wt s) (maxw s) (maxc s) (total s)).

Lemma ld_remove_eq : forall s k,
  ld_remove s k =
  match pos s k with
  | None => Err KeyErr
  | Some p =>
    match rev (items s) with
    | [] => Err IndexErr
    | last :: rest_rev =>
      let '(its1, pos1) := rm_lp s k p last rest_rev in rm_tail s k its1 pos1
    end
  end.
Proof. reflexivity. Qed.

Lemma rm_lp_spec : forall s k p last rest_rev its1 pos1,
  ld_inv s -> pos s k = Some p -> rev (items s) = last :: rest_rev ->
  rm_lp s k p last rest_rev = (its1, pos1) ->
  Permutation (k :: its1) (items s) /\
  (forall x i, pos1 x = Some i <-> nth_error its1 i = Some x).
Proof.
  intros s k p last rest_rev its1 pos1 Hinv Hp Hr Hlp.
  assert (Hitems : items s = rev rest_rev ++ [last]).
  { rewrite <- (rev_involutive (items s)). rewrite Hr. reflexivity. }
  unfold rm_lp in Hlp. cbv zeta in Hlp.
  set (its0 := rev rest_rev) in *.
  pose proof (inv_nodup s Hinv) as Hnd. rewrite Hitems in Hnd.
  apply NoDup_snoc in Hnd. destruct Hnd as [Hnd0 Hlast].
  pose proof (inv_pos s Hinv) as Hpos.
  assert (Hnth : nth_error (its0 ++ [last]) p = Some k).
  { rewrite <- Hitems. apply Hpos. exact Hp. }
  apply nth_error_snoc in Hnth.
  destruct (Nat.eqb_spec p (length its0)) as [Hpl|Hpl].
  - (* the removed key is the last item *)
    injection Hlp as H1 H2. subst its1 pos1.
    assert (Hk : k = last).
    { destruct Hnth as [Hnth|[_ Hnth]]; [|exact Hnth].
      exfalso. assert (Hlt : (p < length its0)%nat) by (apply nth_error_Some; congruence).
      lia. }
    subst last. split.
    + rewrite Hitems. apply Permutation_cons_append.
    + intros x i. unfold ListDict.fupd. destruct (Keqb_spec x k) as [E|E].
      * subst x. split; intro H; [discriminate H|].
        exfalso. apply Hlast. apply nth_error_In with i. exact H.
      * rewrite Hpos, Hitems, nth_error_snoc. split.
        -- intros [H|[_ H]]; [exact H|contradiction].
        -- intro H. left. exact H.
  - (* the last item is moved into the hole *)
    destruct Hnth as [Hnth|[Hnth _]]; [|contradiction].
    injection Hlp as H1 H2. subst its1 pos1.
    destruct (nth_error_split its0 p Hnth) as [a [b [Hab Hla]]].
    assert (Hkl : k <> last).
    { intro E. subst last. apply Hlast. apply nth_error_In with p. exact Hnth. }
    subst p. rewrite Hab. rewrite set_nth_app.
    assert (Hperm : Permutation (k :: a ++ last :: b) (items s)).
    { rewrite Hitems, Hab.
      apply Permutation_trans with (k :: last :: a ++ b).
      { apply perm_skip. apply Permutation_sym. apply Permutation_middle. }
      apply Permutation_trans with (last :: k :: a ++ b).
      { apply perm_swap. }
      apply Permutation_trans with (last :: a ++ k :: b).
      { apply perm_skip. apply Permutation_middle. }
      apply Permutation_cons_append. }
    split; [exact Hperm|].
    assert (Hnd1 : NoDup (k :: a ++ last :: b)).
    { apply (Permutation_NoDup (l := items s)).
      - apply Permutation_sym. exact Hperm.
      - apply (inv_nodup s Hinv). }
    inversion Hnd1 as [|k' l' Hk1 Hnd2]; subst k' l'.
    assert (Hnl : nth_error (a ++ last :: b) (length a) = Some last).
    { rewrite nth_error_app2 by lia. rewrite Nat.sub_diag. reflexivity. }
    intros x i. unfold ListDict.fupd. destruct (Keqb_spec x last) as [E|E].
    + subst x. split; intro H.
      * injection H as H. subst i. exact Hnl.
      * f_equal. apply (NoDup_nth_error_inj K (a ++ last :: b) (length a) i last Hnd2 Hnl H).
    + destruct (Keqb_spec x k) as [E1|E1].
      * subst x. split; intro H; [discriminate H|].
        exfalso. apply Hk1. apply nth_error_In with i. exact H.
      * rewrite Hpos, Hitems, Hab, nth_error_snoc.
        rewrite (nth_error_mid_neq a k last b x i E1 E). split.
        -- intros [H|[_ H]]; [exact H|contradiction].
        -- intro H. left. exact H.
Qed.

Lemma rm_tail_spec : forall s k its1 pos1,
  ld_inv s -> In k (items s) -> Permutation (k :: its1) (items s) ->
  (forall x i, pos1 x = Some i <-> nth_error its1 i = Some x) ->
  exists s', rm_tail s k its1 pos1 = Ok s' /\ ld_inv s' /\ weighted s' = weighted s /\
    forall x, abs s' x = sp_remove (abs s) k x.
Proof.
  intros s k its1 pos1 Hinv Hin Hperm Hpos1.
  assert (Hnd : NoDup (k :: its1)).
  { apply (Permutation_NoDup (l := items s)).
    - apply Permutation_sym. exact Hperm.
    - apply (inv_nodup s Hinv). }
  inversion Hnd as [|k' l' Hk1 Hnd1]; subst k' l'.
  assert (Hmem : forall x, In x its1 <-> (In x (items s) /\ x <> k)).
  { intro x. split.
    - intro H. split.
      + apply (Permutation_in x Hperm). right. exact H.
      + intro E. subst x. contradiction.
    - intros [H E]. apply (Permutation_in x (Permutation_sym Hperm)) in H.
      destruct H as [H|H]; [|exact H]. exfalso. apply E. symmetry. exact H. }
  pose proof (pos_in pos1 its1 Hpos1) as Hpin1.
  pose proof (pos_in _ _ (inv_pos s Hinv)) as Hpin.
  (* the abstraction only depends on the new position map and weights *)
  assert (Habs : forall (w' : bool) (f : K -> option Q) (m : Q) (c : Z) (t : Q),
    (forall x, x <> k ->
       (if w' then match f x with Some v => v | None => 0 end else 1) =
       (if weighted s then wread s x else 1)) ->
    forall x, abs (mkLD w' its1 pos1 f m c t) x = sp_remove (abs s) k x).
  { intros w' f m c t Hf x. rewrite abs_mk. unfold ListDict.sp_remove, ListDict.fupd.
    destruct (Keqb_spec x k) as [E|E].
    - subst x. destruct (pos1 k) as [i|] eqn:Ei; [|reflexivity].
      exfalso. apply Hk1. apply Hpin1. congruence.
    - rewrite (abs_unfold s x). destruct (pos1 x) as [i|] eqn:Ei.
      + assert (H : In x (items s)).
        { apply (Hmem x). apply Hpin1. congruence. }
        apply Hpin in H. destruct (pos s x) as [j|]; [|contradiction H; reflexivity].
        rewrite (Hf x E). reflexivity.
      + destruct (pos s x) as [j|] eqn:Ej; [|reflexivity].
        exfalso. assert (H : In x its1).
        { apply Hmem. split; [|exact E]. apply Hpin. congruence. }
        apply Hpin1 in H. contradiction. }
  unfold rm_tail. destruct (weighted s) eqn:Hw.
  - (* weighted *)
    destruct (wt s k) as [w|] eqn:Hwk.
    2:{ exfalso. apply (inv_dom s Hinv Hw k) in Hin. contradiction. }
    assert (G : forall m c t, t == total s - w ->
      (forall x v, fupd (wt s) k None x = Some v -> v <= m) ->
      ld_inv (mkLD true its1 pos1 (fupd (wt s) k None) m c t) /\
      true = true /\
      forall x, abs (mkLD true its1 pos1 (fupd (wt s) k None) m c t) x
                = sp_remove (abs s) k x).
    { intros m c t Ht Hm. split; [|split; [reflexivity|]].
      - constructor; cbn [items pos wt weighted maxw total].
        + exact Hnd1.
        + exact Hpos1.
        + intros _ x. rewrite Hmem. unfold ListDict.fupd.
          destruct (Keqb_spec x k) as [E|E].
          * split; [intro H; contradiction H; reflexivity|intros [_ H]; contradiction].
          * rewrite (inv_dom s Hinv Hw x). split.
            -- intro H. split; [exact H|exact E].
            -- intros [H _]. exact H.
        + intros _ x v. unfold ListDict.fupd. destruct (Keqb x k).
          * intro H. discriminate H.
          * apply (inv_nonneg s Hinv Hw).
        + intros _. exact Hm.
        + intros _. transitivity (total s - w); [exact Ht|].
          rewrite (sumQ_map_ext_in K _ (wread s) its1).
          * rewrite (inv_total s Hinv Hw).
            rewrite <- (sumQ_map_perm K (wread s) _ _ Hperm). cbn [map].
            rewrite sumQ_cons. unfold ListDict.wread at 1. rewrite Hwk. ring.
          * intros x Hx. rewrite wread_mk. unfold ListDict.fupd.
            destruct (Keqb_spec x k) as [E|E]; [|reflexivity].
            subst x. contradiction.
      - apply Habs. intros x E. unfold ListDict.fupd. rewrite (Keqb_neq x k E).
        reflexivity. }
    assert (Hold : forall x v, fupd (wt s) k None x = Some v -> v <= maxw s).
    { intros x v. unfold ListDict.fupd. destruct (Keqb x k).
      - intro H. discriminate H.
      - apply (inv_max s Hinv Hw). }
    assert (Htot : match its1 with [] => 0 | _ => total s - w end == total s - w).
    { destruct its1 as [|y its1']; [|reflexivity].
      rewrite (inv_total s Hinv Hw). rewrite <- (sumQ_map_perm K (wread s) _ _ Hperm). cbn [map].
      rewrite sumQ_cons. unfold ListDict.wread at 1. rewrite Hwk. cbn [map sumQ fold_right]. ring. }
    cbv zeta.
    destruct (Qeqb w (maxw s)).
    + destruct ((maxc s - 1 =? 0)%Z && negb (Nat.eqb (length its1) 0)).
      * unfold recompute_max. cbv zeta.
        eexists. split; [reflexivity|]. apply G; [exact Htot|].
        intros x v Hv.
        assert (Hx : In x its1).
        { apply Hmem. revert Hv. unfold ListDict.fupd.
          destruct (Keqb_spec x k) as [E|E]; intro Hv; [discriminate Hv|].
          split; [|exact E]. apply (inv_dom s Hinv Hw x). congruence. }
        apply list_max_ub. apply in_map_iff. exists x. split; [|exact Hx].
        rewrite Hv. reflexivity.
      * eexists. split; [reflexivity|]. apply G; [exact Htot|exact Hold].
    + eexists. split; [reflexivity|]. apply G; [exact Htot|exact Hold].
  - (* unweighted *)
    eexists. split; [reflexivity|]. split; [|split; [reflexivity|]].
    + constructor; cbn [items pos wt weighted maxw total];
        try (intro Hf; discriminate Hf).
      * exact Hnd1.
      * exact Hpos1.
    + apply Habs. intros x _. reflexivity.
Qed.

Lemma ld_remove_cases : forall s k, ld_inv s ->
  (pos s k = None /\ ld_remove s k = Err KeyErr) \/
  (pos s k <> None /\
   exists s', ld_remove s k = Ok s' /\ ld_inv s' /\ weighted s' = weighted s /\
     forall x, abs s' x = sp_remove (abs s) k x).
Proof.
  intros s k Hinv. rewrite ld_remove_eq. destruct (pos s k) as [p|] eqn:Hp.
  2:{ left. split; reflexivity. }
  right. split; [intro H; discriminate H|].
  assert (Hin : In k (items s)).
  { apply nth_error_In with p. apply (inv_pos s Hinv). exact Hp. }
  destruct (rev (items s)) as [|last rest_rev] eqn:Hr.
  { exfalso. rewrite <- (rev_involutive (items s)), Hr in Hin. destruct Hin. }
  destruct (rm_lp s k p last rest_rev) as [its1 pos1] eqn:Hlp.
  destruct (rm_lp_spec s k p last rest_rev its1 pos1 Hinv Hp Hr Hlp) as [Hperm Hpos1].
  apply rm_tail_spec; assumption.
Qed.

(* ---------- insert(item, weight) ---------- *)
Lemma ld_insert_spec : forall s k q, ld_inv s -> weighted s = true -> 0 <= q ->
  exists s', ld_insert s k (Some q) = Ok s' /\ ld_inv s' /\ weighted s' = true /\
    forall x, oQeq (abs s' x) (sp_insert (abs s) k q x).
Proof.
  intros s k q Hinv Hw Hq. unfold ListDict.ld_insert.
  assert (H1 : exists s1, (if contains s k then ld_remove s k else Ok s) = Ok s1 /\
             ld_inv s1 /\ weighted s1 = true /\
             forall x, abs s1 x = sp_remove (abs s) k x).
  { destruct (contains s k) eqn:Hc.
    - destruct (ld_remove_cases s k Hinv) as [[Hp _]|[_ [s1 [He [Hi [Hw1 Ha]]]]]].
      + destruct (contains_pos_some s k Hc) as [i Hi]. congruence.
      + exists s1. split; [exact He|]. split; [exact Hi|]. split; [congruence|exact Ha].
    - exists s. split; [reflexivity|]. split; [exact Hinv|]. split; [exact Hw|].
      intro x. unfold ListDict.sp_remove, ListDict.fupd.
      destruct (Keqb_spec x k) as [E|E]; [|reflexivity].
      subst x. rewrite (abs_unfold s k), (contains_pos_none s k Hc). reflexivity. }
  destruct H1 as [s1 [He [Hi [Hw1 Ha]]]]. rewrite He. cbn [rbind].
  unfold ListDict.sp_insert. destruct (Qeqb q 0) eqn:Hq0.
  - exists s1. split; [reflexivity|]. split; [exact Hi|]. split; [exact Hw1|].
    intro x. rewrite Ha. apply oQeq_refl.
  - destruct (ld_update_some_spec s1 k q Hi Hw1 Hq) as [s2 [He2 [Hi2 [Hw2 Ha2]]]].
    exists s2. split; [exact He2|]. split; [exact Hi2|]. split; [exact Hw2|].
    intro x. apply (oQeq_trans _ _ _ (Ha2 x)).
    unfold ListDict.sp_update. rewrite (Ha k). unfold ListDict.sp_remove, ListDict.fupd.
    rewrite Keqb_refl. destruct (Keqb_spec x k) as [E|E].
    + cbn [oQeq]. reflexivity.
    + rewrite Ha. unfold ListDict.sp_remove, ListDict.fupd. rewrite (Keqb_neq x k E).
      apply oQeq_refl.
Qed.

(* ---------- one operation ---------- *)
Lemma ld_step_spec : forall s o, ld_inv s -> op_ok (weighted s) o ->
  (exists s', ld_step s o = Ok s' /\ ld_inv s' /\ weighted s' = weighted s /\
     forall x, oQeq (abs s' x) (sp_step (abs s) o x)) \/
  (exists k, o = OpRemove k /\ abs s k = None /\ ld_step s o = Err KeyErr).
Proof.
  intros s o Hinv Hok. destruct o as [k q|k d|k|k]; cbn [op_ok] in Hok;
    cbn [ListDict.ld_step ListDict.sp_step].
  - destruct Hok as [Hw Hq]. left.
    destruct (ld_insert_spec s k q Hinv Hw Hq) as [s' [He [Hi [Hw' Ha]]]].
    exists s'. split; [exact He|]. split; [exact Hi|]. split; [congruence|exact Ha].
  - destruct Hok as [Hw Hd]. left.
    destruct (ld_update_some_spec s k d Hinv Hw Hd) as [s' [He [Hi [Hw' Ha]]]].
    exists s'. split; [exact He|]. split; [exact Hi|]. split; [congruence|exact Ha].
  - destruct (ld_remove_cases s k Hinv) as [[Hp He]|[_ [s' [He [Hi [Hw' Ha]]]]]].
    + right. exists k. split; [reflexivity|]. split; [|exact He].
      rewrite abs_unfold, Hp. reflexivity.
    + left. exists s'. split; [exact He|]. split; [exact Hi|]. split; [exact Hw'|].
      intro x. rewrite Ha. apply oQeq_refl.
  - left. destruct (ld_add_spec s k Hinv Hok) as [s' [He [Hi [Hw' Ha]]]].
    exists s'. split; [exact He|]. split; [exact Hi|]. split; [congruence|exact Ha].
Qed.

Lemma ld_step_inv : forall s o s', ld_inv s -> op_ok (weighted s) o ->
  ld_step s o = Ok s' -> ld_inv s' /\ weighted s' = weighted s.
Proof.
  intros s o s' Hinv Hok He.
  destruct (ld_step_spec s o Hinv Hok) as [[s1 [He1 [Hi [Hw _]]]]|[k [_ [_ He1]]]].
  - assert (E : s1 = s') by congruence. subst s1. split; assumption.
  - congruence.
Qed.

Lemma ld_step_refines : forall s o s', ld_inv s -> op_ok (weighted s) o ->
  ld_step s o = Ok s' -> forall k, oQeq (abs s' k) (sp_step (abs s) o k).
Proof.
  intros s o s' Hinv Hok He.
  destruct (ld_step_spec s o Hinv Hok) as [[s1 [He1 [_ [_ Ha]]]]|[k [_ [_ He1]]]].
  - assert (E : s1 = s') by congruence. subst s1. exact Ha.
  - congruence.
Qed.

Lemma ld_step_fails : forall s o e, ld_inv s -> op_ok (weighted s) o ->
  ld_step s o = Err e -> exists k, o = OpRemove k /\ abs s k = None /\ e = KeyErr.
Proof using Keqb_spec.
  intros s o e Hinv Hok He.
  destruct (ld_step_spec s o Hinv Hok) as [[s1 [He1 _]]|[k [Ho [Ha He1]]]].
  - congruence.
  - exists k. split; [exact Ho|]. split; [exact Ha|]. congruence.
Qed.

(* ---------- histories ---------- *)
Lemma ld_run_inv : forall ops s s', ld_inv s -> Forall (op_ok (weighted s)) ops ->
  ld_run s ops = Ok s' -> ld_inv s' /\ weighted s' = weighted s.
Proof.
  induction ops as [|o ops IH]; intros s s' Hinv Hok He.
  - cbn [ListDict.ld_run] in He. injection He as He. subst s'. split; [exact Hinv|reflexivity].
  - cbn [ListDict.ld_run] in He. inversion Hok as [|o' ops' Ho Hops]; subst o' ops'.
    destruct (ld_step s o) as [s1|e] eqn:E1; cbn [rbind] in He; [|discriminate He].
    destruct (ld_step_inv s o s1 Hinv Ho E1) as [Hi1 Hw1].
    rewrite <- Hw1 in Hops.
    destruct (IH s1 s' Hi1 Hops He) as [Hi' Hw']. split; [exact Hi'|congruence].
Qed.

Lemma ld_run_inv_from_empty : forall (w : bool) (ops : list op) (s : ld),
  Forall (op_ok w) ops -> ld_run (ld_empty w) ops = Ok s -> ld_inv s /\ weighted s = w.
Proof using Keqb_spec.
  intros w ops s Hok He.
  apply (ld_run_inv ops (ld_empty w) s (ld_empty_inv w) Hok He).
Qed.

Lemma sp_step_cong : forall (m1 m2 : K -> option Q) o,
  (forall k, oQeq (m1 k) (m2 k)) -> forall x, oQeq (sp_step m1 o x) (sp_step m2 o x).
Proof.
  intros m1 m2 o H x. destruct o as [k q|k d|k|k]; cbn [ListDict.sp_step].
  - unfold ListDict.sp_insert, ListDict.sp_remove, ListDict.fupd.
    destruct (Qeqb q 0); destruct (Keqb x k); try apply H; apply oQeq_refl.
  - unfold ListDict.sp_update, ListDict.fupd. destruct (Keqb x k); [|apply H].
    pose proof (H k) as Hk. destruct (m1 k) as [a|]; destruct (m2 k) as [b|];
      cbn [oQeq] in *; try contradiction.
    + rewrite Hk. reflexivity.
    + reflexivity.
  - unfold ListDict.sp_remove, ListDict.fupd. destruct (Keqb x k); [exact I|apply H].
  - unfold ListDict.sp_add_unweighted, ListDict.fupd.
    pose proof (H k) as Hk. destruct (m1 k) as [a|]; destruct (m2 k) as [b|];
      cbn [oQeq] in Hk; try contradiction.
    + apply H.
    + destruct (Keqb x k); [cbn [oQeq]; reflexivity|apply H].
Qed.

Lemma ld_run_refines : forall ops s s' (m : K -> option Q),
  ld_inv s -> Forall (op_ok (weighted s)) ops ->
  (forall k, oQeq (abs s k) (m k)) -> ld_run s ops = Ok s' ->
  forall k, oQeq (abs s' k) (fold_left sp_step ops m k).
Proof.
  induction ops as [|o ops IH]; intros s s' m Hinv Hok Hm He.
  - cbn [ListDict.ld_run] in He. injection He as He. subst s'. exact Hm.
  - cbn [ListDict.ld_run] in He. inversion Hok as [|o' ops' Ho Hops]; subst o' ops'.
    destruct (ld_step s o) as [s1|e] eqn:E1; cbn [rbind] in He; [|discriminate He].
    destruct (ld_step_inv s o s1 Hinv Ho E1) as [Hi1 Hw1].
    rewrite <- Hw1 in Hops. cbn [fold_left].
    apply (IH s1 s' (sp_step m o) Hi1 Hops); [|exact He].
    intro k. apply (oQeq_trans _ _ _ (ld_step_refines s o s1 Hinv Ho E1 k)).
    apply sp_step_cong. exact Hm.
Qed.

Lemma ld_run_refines_from_empty : forall (w : bool) (ops : list op) (s : ld),
  Forall (op_ok w) ops -> ld_run (ld_empty w) ops = Ok s ->
  forall k, oQeq (abs s k) (fold_left sp_step ops (sp_empty K) k).
Proof using Keqb_spec.
  intros w ops s Hok He.
  apply (ld_run_refines ops (ld_empty w) s (sp_empty K) (ld_empty_inv w) Hok); [|exact He].
  intro k. exact I.
Qed.


(* ---------- total_weight() ---------- *)
Definition absw (s : ld) (k : K) : Q := match abs s k with Some w => w | None => 0 end.

Lemma absw_in : forall s k, ld_inv s -> In k (items s) ->
  absw s k = if weighted s then wread s k else 1.
Proof.
  intros s k Hinv Hin. unfold absw. rewrite abs_unfold.
  apply (pos_in _ _ (inv_pos s Hinv)) in Hin.
  destruct (pos s k) as [i|]; [reflexivity|contradiction Hin; reflexivity].
Qed.

Lemma ld_total_exact : forall s, ld_inv s ->
  ld_total_weight K s == sumQ (map (absw s) (items s)).
Proof.
  intros s Hinv. unfold ld_total_weight. destruct (weighted s) eqn:Hw.
  - rewrite (inv_total s Hinv Hw). apply sumQ_map_ext_in. intros x Hx.
    rewrite (absw_in s x Hinv Hx), Hw. reflexivity.
  - transitivity (sumQ (map (fun _ : K => 1) (items s))).
    + rewrite sumQ_map_const. ring.
    + apply sumQ_map_ext_in. intros x Hx.
      rewrite (absw_in s x Hinv Hx), Hw. reflexivity.
Qed.

(* ---------- the rejection loop of choose_random ---------- *)
Definition accp (s : ld) (k : K) : Q := wread s k / maxw s.
Definition acc_rate (s : ld) : Q := total s / (Qnat (length (items s)) * maxw s).

Fixpoint sel_prob (fuel : nat) (s : ld) (k : K) : Q :=
  match fuel with
  | O => 0
  | S f =>
    sumQ (map (fun x => (1 / Qnat (length (items s))) * (if Keqb x k then accp s x else 0))
              (items s))
    + sumQ (map (fun x => (1 / Qnat (length (items s))) * (1 - accp s x)) (items s))
      * sel_prob f s k
  end.

Definition term_prob (fuel : nat) (s : ld) : Q := sumQ (map (sel_prob fuel s) (items s)).

Definition sel_prob_unweighted (s : ld) (k : K) : Q :=
  sumQ (map (fun x => (1 / Qnat (length (items s))) * (if Keqb x k then 1 else 0)) (items s)).

Lemma total_le_nmax : forall s, ld_inv s -> weighted s = true ->
  total s <= Qnat (length (items s)) * maxw s.
Proof.
  intros s Hinv Hw. rewrite (inv_total s Hinv Hw).
  rewrite <- (sumQ_map_const K (maxw s) (items s)).
  apply sumQ_map_le. intros x Hx. apply (wread_le_max s x Hinv Hw Hx).
Qed.

Lemma weighted_pos_facts : forall s, ld_inv s -> weighted s = true -> 0 < total s ->
  0 < Qnat (length (items s)) /\ 0 < maxw s.
Proof.
  intros s Hinv Hw Ht. pose proof (total_le_nmax s Hinv Hw) as Hle.
  assert (Hn : 0 < Qnat (length (items s))).
  { apply Qnat_pos. destruct (items s) as [|a l] eqn:E.
    - exfalso. pose proof (inv_total s Hinv Hw) as H. rewrite E in H.
      cbn [map] in H. unfold sumQ in H. cbn [fold_right] in H. lra.
    - cbn [length]. lia. }
  split; [exact Hn|].
  destruct (Qlt_le_dec 0 (maxw s)) as [H|H]; [exact H|]. exfalso.
  assert (H1 : 0 <= Qnat (length (items s)) * - maxw s).
  { apply Qmult_le_0_compat; lra. }
  assert (H2 : Qnat (length (items s)) * - maxw s == - (Qnat (length (items s)) * maxw s))
    by ring.
  lra.
Qed.

Lemma accp_01 : forall s k, ld_inv s -> weighted s = true -> 0 < total s ->
  In k (items s) -> 0 <= accp s k /\ accp s k <= 1.
Proof.
  intros s k Hinv Hw Ht Hin.
  destruct (weighted_pos_facts s Hinv Hw Ht) as [_ HM].
  pose proof (wread_nonneg s k Hinv Hw) as H0.
  pose proof (wread_le_max s k Hinv Hw Hin) as H1.
  unfold accp. split.
  - apply Qle_shift_div_l; [exact HM|]. lra.
  - apply Qle_shift_div_r; [exact HM|]. lra.
Qed.

Lemma acc_rate_01 : forall s, ld_inv s -> weighted s = true -> 0 < total s ->
  0 < acc_rate s /\ acc_rate s <= 1.
Proof.
  intros s Hinv Hw Ht.
  destruct (weighted_pos_facts s Hinv Hw Ht) as [Hn HM].
  pose proof (total_le_nmax s Hinv Hw) as Hle.
  assert (HnM : 0 < Qnat (length (items s)) * maxw s).
  { apply Qmult_lt_0_compat; assumption. }
  unfold acc_rate. split.
  - apply Qlt_shift_div_l; [exact HnM|]. lra.
  - apply Qle_shift_div_r; [exact HnM|]. lra.
Qed.

Lemma sumQ_indicator_notin : forall (g : K -> Q) k l, ~ In k l ->
  sumQ (map (fun x => if Keqb x k then g x else 0) l) == 0.
Proof.
  intros g k. induction l as [|a l IH]; intro H.
  - reflexivity.
  - cbn [map]. rewrite sumQ_cons. rewrite IH by (intro H0; apply H; right; exact H0).
    rewrite Keqb_neq by (intro E; apply H; left; exact E). ring.
Qed.

Lemma sumQ_indicator : forall (g : K -> Q) k l, NoDup l -> In k l ->
  sumQ (map (fun x => if Keqb x k then g x else 0) l) == g k.
Proof.
  intros g k. induction l as [|a l IH]; intros Hnd Hin.
  - destruct Hin.
  - inversion Hnd as [|a' l' Hna Hnd']; subst a' l'. cbn [map]. rewrite sumQ_cons.
    destruct (Keqb_spec a k) as [E|E].
    + subst a. rewrite (sumQ_indicator_notin g k l Hna). ring.
    + destruct Hin as [Hin|Hin]; [contradiction|]. rewrite (IH Hnd' Hin). ring.
Qed.

Lemma sel_first_sum_in : forall s k, NoDup (items s) -> In k (items s) ->
  sumQ (map (fun x => (1 / Qnat (length (items s))) * (if Keqb x k then accp s x else 0))
            (items s))
  == (1 / Qnat (length (items s))) * accp s k.
Proof.
  intros s k Hnd Hin.
  rewrite (sumQ_map_scale K (1 / Qnat (length (items s)))
             (fun x => if Keqb x k then accp s x else 0) (items s)).
  rewrite (sumQ_indicator (accp s) k (items s) Hnd Hin). reflexivity.
Qed.

Lemma sel_second_sum : forall s, ld_inv s -> weighted s = true -> 0 < total s ->
  sumQ (map (fun x => (1 / Qnat (length (items s))) * (1 - accp s x)) (items s))
  == 1 - acc_rate s.
Proof.
  intros s Hinv Hw Ht.
  destruct (weighted_pos_facts s Hinv Hw Ht) as [Hn HM].
  rewrite (sumQ_map_scale K (1 / Qnat (length (items s))) (fun x => 1 - accp s x) (items s)).
  rewrite (sumQ_map_ext_in K (fun x => 1 - accp s x)
             (fun x => (fun _ => 1) x + (fun y => (- (1 / maxw s)) * wread s y) x) (items s)).
  2:{ intros x _. unfold accp. field. lra. }
  rewrite (sumQ_map_plus K (fun _ => 1) (fun y => (- (1 / maxw s)) * wread s y) (items s)).
  rewrite (sumQ_map_const K 1 (items s)).
  rewrite (sumQ_map_scale K (- (1 / maxw s)) (wread s) (items s)).
  rewrite <- (inv_total s Hinv Hw). unfold acc_rate.
  set (n := Qnat (length (items s))) in *. field. split; lra.
Qed.

Lemma sel_prob_step : forall s fuel k, ld_inv s -> weighted s = true -> 0 < total s ->
  In k (items s) ->
  sel_prob (S fuel) s k ==
  (1 / Qnat (length (items s))) * accp s k + (1 - acc_rate s) * sel_prob fuel s k.
Proof.
  intros s fuel k Hinv Hw Ht Hin. cbn [sel_prob].
  rewrite (sel_first_sum_in s k (inv_nodup s Hinv) Hin).
  rewrite (sel_second_sum s Hinv Hw Ht). reflexivity.
Qed.

Lemma rejection_law : forall s fuel k, ld_inv s -> weighted s = true -> 0 < total s ->
  In k (items s) ->
  sel_prob fuel s k == (wread s k / total s) * (1 - (1 - acc_rate s) ^ Z.of_nat fuel).
Proof using Keqb_spec.
  intros s fuel k Hinv Hw Ht Hin.
  destruct (weighted_pos_facts s Hinv Hw Ht) as [Hn HM].
  induction fuel as [|f IH].
  - cbn [sel_prob Z.of_nat]. change ((1 - acc_rate s) ^ 0) with 1. field. lra.
  - rewrite (sel_prob_step s f k Hinv Hw Ht Hin). rewrite IH.
    rewrite Nat2Z.inj_succ. unfold Z.succ. rewrite Qpower_plus' by lia.
    change ((1 - acc_rate s) ^ 1) with (1 - acc_rate s).
    set (P := (1 - acc_rate s) ^ Z.of_nat f).
    unfold acc_rate, accp. set (n := Qnat (length (items s))) in *.
    field. repeat split; lra.
Qed.

Lemma term_prob_closed : forall s fuel, ld_inv s -> weighted s = true -> 0 < total s ->
  term_prob fuel s == 1 - (1 - acc_rate s) ^ Z.of_nat fuel.
Proof.
  intros s fuel Hinv Hw Ht. unfold term_prob.
  set (c := 1 - (1 - acc_rate s) ^ Z.of_nat fuel).
  rewrite (sumQ_map_ext_in K (sel_prob fuel s) (fun x => (c / total s) * wread s x) (items s)).
  - rewrite (sumQ_map_scale K (c / total s) (wread s) (items s)).
    rewrite <- (inv_total s Hinv Hw). field. lra.
  - intros x Hx. rewrite (rejection_law s fuel x Hinv Hw Ht Hx). fold c. field. lra.
Qed.

Lemma selection_proportional : forall s fuel k, ld_inv s -> weighted s = true ->
  0 < total s -> In k (items s) ->
  sel_prob (S fuel) s k == (wread s k / total s) * term_prob (S fuel) s /\
  0 < term_prob (S fuel) s.
Proof using Keqb_spec.
  intros s fuel k Hinv Hw Ht Hin.
  rewrite (term_prob_closed s (S fuel) Hinv Hw Ht). split.
  - apply (rejection_law s (S fuel) k Hinv Hw Ht Hin).
  - destruct (acc_rate_01 s Hinv Hw Ht) as [Ha0 Ha1].
    rewrite Qpower_qpow.
    assert (H : qpow (1 - acc_rate s) (S fuel) < 1) by (apply qpow_S_lt1; lra).
    lra.
Qed.

Lemma zero_never_selected : forall s fuel k, ld_inv s -> weighted s = true ->
  0 < total s -> (~ In k (items s) \/ wread s k == 0) -> sel_prob fuel s k == 0.
Proof using Keqb_spec.
  intros s fuel k Hinv Hw Ht Hk. induction fuel as [|f IH].
  - reflexivity.
  - cbn [sel_prob]. rewrite IH.
    rewrite (sumQ_map_ext_in K
               (fun x => (1 / Qnat (length (items s))) * (if Keqb x k then accp s x else 0))
               (fun _ => 0) (items s)).
    + rewrite (sumQ_map_const K 0 (items s)). ring.
    + intros x Hx. destruct (Keqb_spec x k) as [E|E]; [|ring].
      subst x. destruct Hk as [Hk|Hk]; [contradiction|].
      unfold accp, Qdiv. rewrite Hk. ring.
Qed.

Lemma unweighted_uniform : forall s k, ld_inv s -> weighted s = false ->
  In k (items s) -> sel_prob_unweighted s k == 1 / Qnat (length (items s)).
Proof using Keqb_spec.
  intros s k Hinv Hw Hin. unfold sel_prob_unweighted.
  rewrite (sumQ_map_scale K (1 / Qnat (length (items s)))
             (fun x => if Keqb x k then 1 else 0) (items s)).
  rewrite (sumQ_indicator (fun _ => 1) k (items s) (inv_nodup s Hinv) Hin). ring.
Qed.

End P.

(* ---------- a concrete history (non-vacuity) ---------- *)
(* Twelve operations on a weighted structure over N.  The heaviest key changes
   six times (1, 2, 1, 3, 2, 4, 2); key 5 is created with weight 0 by a zero
   increment; the last operation is a zero increment on the key at the maximum
   (the branch that decrements max_weight_count twice).  The final weights are
   3 -> 3, 2 -> 7/2, 5 -> 0, 4 -> 1/2, so total = 7, max_weight = 7/2, the
   acceptance rate is 1/2 and the law after 3 rounds is (w/7) * (7/8) = w/8. *)
Definition C16_example_ops : list (op N) :=
  [ OpInsert 1%N 1; OpInsert 2%N 2; OpUpdate 1%N (5 # 2); OpInsert 3%N 3;
    OpRemove 1%N; OpUpdate 2%N (1 # 2); OpUpdate 2%N 1; OpInsert 4%N 5;
    OpUpdate 5%N 0; OpInsert 4%N (1 # 2); OpInsert 6%N 0; OpUpdate 2%N 0 ].

Definition C16_example_statement : Prop :=
  Forall (op_ok N true) C16_example_ops /\
  exists s : ld N,
    ld_run N N.eqb (ld_empty true) C16_example_ops = Ok s /\
    ld_inv N s /\ weighted s = true /\
    0 < total s /\ length (items s) = 4%nat /\
    items s = [3%N; 2%N; 5%N; 4%N] /\
    map (fun k => Qred (wread N s k)) (items s) = [3; 7 # 2; 0; 1 # 2] /\
    Qred (sel_prob N N.eqb 3 s 2%N) = 7 # 16 /\
    Qred (sel_prob N N.eqb 3 s 3%N) = 3 # 8 /\
    Qred (sel_prob N N.eqb 3 s 4%N) = 1 # 16 /\
    Qred (sel_prob N N.eqb 3 s 5%N) = 0.

Lemma C16_example_proof : C16_example_statement.
Proof.
  assert (Hok : Forall (op_ok N true) C16_example_ops).
  { unfold C16_example_ops.
    repeat (apply Forall_cons;
            [vm_compute; first [exact I | split; [reflexivity|discriminate]]|]).
    apply Forall_nil. }
  split; [exact Hok|].
  destruct (ld_run N N.eqb (ld_empty true) C16_example_ops) as [s|e] eqn:Hrun.
  2:{ vm_compute in Hrun. discriminate Hrun. }
  exists s. split; [reflexivity|].
  destruct (ld_run_inv_from_empty N N.eqb N.eqb_spec true C16_example_ops s Hok Hrun)
    as [Hinv Hw].
  split; [exact Hinv|]. split; [exact Hw|].
  clear Hinv Hw Hok. vm_compute in Hrun. injection Hrun as Hs. subst s.
  vm_compute. repeat split; reflexivity.
Qed.

Print Assumptions ld_run_inv_from_empty. Print Assumptions ld_run_refines_from_empty.
Print Assumptions ld_step_fails. Print Assumptions ld_total_exact. Print Assumptions accp_01.
Print Assumptions acc_rate_01. Print Assumptions rejection_law.
Print Assumptions selection_proportional. Print Assumptions zero_never_selected.
Print Assumptions unweighted_uniform. Print Assumptions C16_example_proof.
Print Assumptions ld_run_inv. Print Assumptions ld_step_inv. Print Assumptions ld_step_refines.
