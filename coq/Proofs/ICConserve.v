(* Conservation where the returned tuple does NOT rebuild a compartment by
   subtraction: S and I are both read from the solver's matrix, so S+I=N along
   the solution rests on the right-hand side summing to zero.  Proved over the
   definitions GENERATED from EoN/analytic.py (Gen/Rhs.v, translate/rhs2v.py). *)
From EoNV Require Import Prelude Vec Rhs VecP.
From Coq Require Import Lqa.

(* SIS_homogeneous_meanfield returns S, I = X.T *)
Lemma conserve_dSIS_homogeneous_meanfield S I t c tau gamma :
  vsum (dSIS_homogeneous_meanfield [S; I] t c tau gamma) == 0.
Proof. unfold dSIS_homogeneous_meanfield, vsum, sumQ, vnth. cbn [nth fold_right]. ring. Qed.

(* SIS_heterogeneous_meanfield returns S = sum Sk, I = sum Ik with Sk, Ik = X.T[:kcount], X.T[kcount:] *)
Lemma conserve_dSIS_heterogeneous_meanfield X t k tau gamma :
  length X = (2 * k)%nat -> vsum (dSIS_heterogeneous_meanfield X t k tau gamma) == 0.
Proof.
  intros HL. unfold dSIS_heterogeneous_meanfield.
  set (S := slice_to k X). set (I := slice_from k X).
  assert (LS : length S = k) by (unfold S, slice_to; rewrite firstn_length; lia).
  assert (LI : length I = k) by (unfold I, slice_from; rewrite skipn_length; lia).
  set (pi := dot (arange k) I / dot (arange k) (vadd I S)).
  set (A := smul gamma I). set (B := vmuls (vmul (smul tau (arange k)) S) pi).
  assert (LA : length A = k) by (unfold A; rewrite smul_length; exact LI).
  assert (LB : length B = k) by (unfold B; rewrite vmuls_length, vmul_length, smul_length, arange_length; lia).
  rewrite vsum_app, !vsum_vsub by lia. ring.
Qed.

(* the SIR systems whose tuple is completed by subtraction still need dR = gamma*I to be what the
   returned I means; e.g. compact pairwise: the R component of the right-hand side is gamma*(N - sum Sk - R) *)
Lemma dR_SIR_compact_pairwise Sk SS SI R t N tau gamma :
  vnth 2 (take_last 3 (dSIR_compact_pairwise (Sk ++ [SS; SI; R]) t N tau gamma)) == gamma * (N - vsum Sk - R).
Proof.
  unfold dSIR_compact_pairwise. rewrite take_last_app by reflexivity.
  rewrite drop_last_app by reflexivity. rewrite take_last_app by reflexivity. unfold vnth. cbn [nth]. reflexivity.
Qed.
