(* Conservation where the returned tuple does NOT rebuild a compartment by
   subtraction: S and I are both read from the solver's matrix, so S+I=N along
   the solution rests on the right-hand side summing to zero.  Proved over the
   definitions GENERATED from EoN/analytic.py (Gen/Rhs.v, translate/rhs2v.py). *)
From EoNV Require Import Prelude Vec Rhs VecP.
From Coq Require Import Lqa.

(* SIS_homogeneous_meanfield returns S, I = X.T *)
Lemma conserve_dSIS_homogeneous_meanfield S I t c tau gamma :
  vsum (dSIS_homogeneous_meanfield [S; I] t c tau gamma) == 0.
Proof. unfold dSIS_homogeneous_meanfield, vsum, sumQ, vnth. cbn [nth fold_right]. ring. Qed.

(* SIS_heterogeneous_meanfield returns S = sum Sk, I = sum Ik with Sk, Ik = X.T[:kcount], X.T[kcount:] *)
Lemma conserve_dSIS_heterogeneous_meanfield X t k tau gamma :
  length X = (2 * k)%nat -> vsum (dSIS_heterogeneous_meanfield X t k tau gamma) == 0.
Proof.
  intros HL. unfold dSIS_heterogeneous_meanfield.
  set (S := slice_to k X). set (I := slice_from k X).
  assert (LS : length S = k) by (unfold S, slice_to; rewrite firstn_length; lia).
  assert (LI : length I = k) by (unfold I, slice_from; rewrite skipn_length; lia).
  set (pi := dot (arange k) I / dot (arange k) (vadd I S)).
  set (A := smul gamma I). set (B := vmuls (vmul (smul tau (arange k)) S) pi).
  assert (LA : length A = k) by (unfold A; rewrite smul_length; exact LI).
  assert (LB : length B = k) by (unfold B; rewrite vmuls_length, vmul_length, smul_length, arange_length; lia).
  rewrite vsum_app, !vsum_vsub by lia. ring.
Qed.

(* the SIR systems whose tuple is completed by subtraction still need dR = gamma*I to be what the
   returned I means; e.g. compact pairwise: the R component of the right-hand side is gamma*(N - sum Sk - R) *)
Lemma dR_SIR_compact_pairwise Sk SS SI R t N tau gamma :
  vnth 2 (take_last 3 (dSIR_compact_pairwise (Sk ++ [SS; SI; R]) t N tau gamma)) == gamma * (N - vsum Sk - R).
Proof.
  unfold dSIR_compact_pairwise. rewrite take_last_app by reflexivity.
  rewrite drop_last_app by reflexivity. rewrite take_last_app by reflexivity. unfold vnth. cbn [nth]. reflexivity.
Qed.

(* SIS super compact pairwise: the edge total SS + 2 SI + II is conserved by the right-hand side
   (the wrapper returns SS, SI, II read from the solver; <k>N = SS + 2SI + II at tmin by row0) *)
Lemma conserve_edges_dSIS_super_compact_pairwise I SS SI II t tau gamma N k1 k2 k3 :
  let d := dSIS_super_compact_pairwise [I; SS; SI; II] t tau gamma N k1 k2 k3 in
  vnth 1 d + 2 * vnth 2 d + vnth 3 d == 0.
Proof.
  cbv zeta. unfold dSIS_super_compact_pairwise, vnth. cbn [nth].
  set (Qc := (_ - 1) / _). unfold qpow. change (Qpower SI 2) with (SI * SI). ring.
Qed.

(* the recovered compartment of the SIR systems grows at rate gamma * I, with I the very expression the
   wrapper returns (N - S - R): together with the structural S+I+R=N this is the algebraic core of
   "R non-decreasing" (sign lemma: dR >= 0 wherever I >= 0, gamma >= 0) *)
Lemma dR_EBCM theta R t N tau gamma (ps psP : Q -> Q) phiS0 phiR0 :
  vnth 1 (dEBCM [theta; R] t N tau gamma ps psP phiS0 phiR0) == gamma * (N - N * ps theta - R).
Proof. unfold dEBCM, vnth. cbn [nth]. reflexivity. Qed.
Lemma dR_SIR_super_compact_pairwise theta SS SI R t tau gamma (ps psP psDP : Q -> Q) N :
  vnth 3 (dSIR_super_compact_pairwise [theta; SS; SI; R] t tau gamma ps psP psDP N) == gamma * (N - N * ps theta - R).
Proof. unfold dSIR_super_compact_pairwise, vnth. cbn [nth]. reflexivity. Qed.
Lemma dR_SIR_compact_effective_degree Sk R SI t N tau gamma :
  vnth 0 (take_last 2 (dSIR_compact_effective_degree (Sk ++ [R; SI]) t N tau gamma)) == gamma * (N - R - vsum Sk).
Proof.
  unfold dSIR_compact_effective_degree. rewrite (take_last_app _ [_; _]) by reflexivity.
  rewrite drop_last_app by reflexivity. rewrite take_last_app by reflexivity. unfold vnth. cbn [nth]. reflexivity.
Qed.
Lemma dRk_SIR_heterogeneous_meanfield theta Rk t S0 Nk tau gamma :
  slice_from 1 (dSIR_heterogeneous_meanfield (theta :: Rk) t S0 Nk tau gamma)
  = smul gamma (vsub (vsub Nk (vmul S0 (spow_arange theta (length Rk)))) Rk).
Proof. unfold dSIR_heterogeneous_meanfield, slice_from, vnth. cbn [skipn nth app]. reflexivity. Qed.
Lemma sign_dR gamma I : 0 <= gamma -> 0 <= I -> 0 <= gamma * I.
Proof. intros. apply Qmult_le_0_compat; assumption. Qed.
(* dS <= 0 for the homogeneous SIR mean field on the feasible region *)
Lemma sign_dS_SIR_homogeneous_meanfield S I t c tau gamma :
  0 <= tau -> 0 <= c -> 0 <= S -> 0 <= I -> vnth 0 (dSIR_homogeneous_meanfield [S; I] t c tau gamma) <= 0.
Proof.
  intros Ht Hc HS HI. unfold dSIR_homogeneous_meanfield, vnth. cbn [nth].
  assert (H : 0 <= tau * c * S * I) by (repeat apply Qmult_le_0_compat; assumption). lra.
Qed.
