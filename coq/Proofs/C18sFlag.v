(* C18, event-driven SIS (fast_SIS, fast_nonMarkov_SIS): the return_full_data flag is read
   only by [finish], after the event loop has ended.  fast_SIS: for every draw script the
   two modes make the same calls to the random source with the same arguments (the whole
   trace is equal) and return [finish] of THE SAME logs, so the arrays are equal and the
   full-data object is built from the very lists that produced the arrays; unlike the SIR
   simulators neither mode can fail where the other returns ([build_full] is total).
   fast_nonMarkov_SIS: the event loop [n_loop] does not take the flag at all; the calls of
   the user's rules are read off the infection log (one call of the joint rule -- i.e. one
   rec_time_fxn call and one trans_time_fxn call per neighbour, in adjacency order -- per
   infection, see [rule_calls]). *)
From EoNV Require Import Prelude Samp Graph EventSIS FlagIndep C18xSim.

(* r1 = result with full data, r2 = result in plain mode: the same failure, or [finish] of
   the same logs with the same number of dropped initial rows *)
Definition fin_rel (g : graph) (tmin : Q) (o1 o2 : simout) : Prop :=
  exists n l, o1 = finish g tmin true n l /\ o2 = finish g tmin false n l.

Definition sis_flag_rel (g : graph) (tmin : Q) : result simout -> result simout -> Prop :=
  rel_result (fin_rel g tmin).

Lemma sis_flag_rel_err : forall g tmin, err_refl (sis_flag_rel g tmin).
Proof. intros g tmin e. reflexivity. Qed.

(* what the relation gives, in terms of the outputs only *)
Lemma fin_rel_read : forall g tmin o1 o2, fin_rel g tmin o1 o2 ->
  so_rows o1 = so_rows o2 /\ so_full o2 = None /\ so_full o1 <> None.
Proof.
  intros g tmin o1 o2 [n [l [-> ->]]]. unfold finish. cbn [so_rows so_full].
  split; [reflexivity|]. split; [reflexivity|discriminate].
Qed.

Lemma sis_flag_rel_read : forall g tmin r1 r2, sis_flag_rel g tmin r1 r2 ->
  match r2 with
  | Ok o2 => exists o1, r1 = Ok o1 /\ so_rows o1 = so_rows o2 /\ so_full o2 = None /\ so_full o1 <> None
  | Err e => r1 = Err e
  end.
Proof.
  intros g tmin [o1|e1] [o2|e2] H; cbn in H; try contradiction.
  - exists o1. split; [reflexivity|]. apply (fin_rel_read g tmin). exact H.
  - subst e2. reflexivity.
Qed.

(* ------------------------------------------------------------------ *)
(* the continuation-passing pieces of fast_SIS preserve any leaf relation *)
Section Markov.
Variable g : graph.
Variables tau gamma : Q.
Variable tmax : xtime.
Variables A B : Type.
Variable R : result A -> result B -> Prop.
Hypothesis HR : err_refl R.

Ltac fn_steps Hk :=
  repeat (cbv beta iota zeta;
    first [ apply Hk
          | apply sx_expo; intro
          | match goal with
            | |- simrelx _ (Fail ?e) (Fail ?e) => eapply sx_leaf; [reflexivity|reflexivity|apply HR]
            | |- simrelx _ (if ?b then _ else _) _ => destruct b
            | |- simrelx _ (match ?x with Some _ => _ | None => _ end) _ => destruct x
            end ]).

Lemma find_next_rel : forall time rate src tgt s (k1 : mst -> samp A) (k2 : mst -> samp B),
  (forall s', simrelx R (k1 s') (k2 s')) ->
  simrelx R (find_next tmax time rate src tgt s k1) (find_next tmax time rate src tgt s k2).
Proof.
  intros time rate src tgt s k1 k2 Hk. unfold find_next. fn_steps Hk.
Qed.

Lemma find_next_all_rel : forall time u nbrs s (k1 : mst -> samp A) (k2 : mst -> samp B),
  (forall s', simrelx R (k1 s') (k2 s')) ->
  simrelx R (find_next_all g tau tmax time u nbrs s k1) (find_next_all g tau tmax time u nbrs s k2).
Proof.
  intros time u nbrs. induction nbrs as [|v rest IH]; intros s k1 k2 Hk; cbn [find_next_all]; [apply Hk|].
  apply find_next_rel. intro s'. apply IH. exact Hk.
Qed.

Lemma m_trans_rel : forall time src tgt s (k1 : mst -> samp A) (k2 : mst -> samp B),
  (forall s', simrelx R (k1 s') (k2 s')) ->
  simrelx R (m_trans g tau gamma tmax time src tgt s k1) (m_trans g tau gamma tmax time src tgt s k2).
Proof.
  intros time src tgt s k1 k2 Hk. unfold m_trans.
  assert (Hafter : forall s1, simrelx R
            (match src with Some u => find_next tmax time (trans_rate g tau u tgt) u tgt s1 k1 | None => k1 s1 end)
            (match src with Some u => find_next tmax time (trans_rate g tau u tgt) u tgt s1 k2 | None => k2 s1 end)).
  { intro s1. destruct src as [u|]; [apply find_next_rel; exact Hk|apply Hk]. }
  cbv zeta. destruct (N.eqb (ms_stat s tgt) stS); [|apply Hafter].
  destruct (Qltb 0 (rec_rate g gamma tgt)).
  - apply sx_expo. intro d. apply find_next_all_rel. exact Hafter.
  - destruct (Qeqb (rec_rate g gamma tgt) 0).
    + apply find_next_all_rel. exact Hafter.
    + eapply sx_leaf; [reflexivity|reflexivity|apply HR].
Qed.

End Markov.

Section FastSIS.
Variable g : graph.
Variables tau gamma : Q.
Variable tmax : xtime.
Variable tmin : Q.

Lemma m_loop_flag : forall ni0 fuel s,
  simrelx (sis_flag_rel g tmin) (m_loop g tau gamma tmax tmin true ni0 fuel s) (m_loop g tau gamma tmax tmin false ni0 fuel s).
Proof.
  intros ni0. induction fuel as [|f IH]; intro s; cbn [m_loop]; destruct (q_items (ms_q s)) as [|[[t c] e] rest].
  - eapply sx_leaf; [reflexivity|reflexivity|]. exists ni0, (ms_log s). split; reflexivity.
  - eapply sx_leaf; [reflexivity|reflexivity|reflexivity].
  - eapply sx_leaf; [reflexivity|reflexivity|]. exists ni0, (ms_log s). split; reflexivity.
  - destruct e as [v|src tgt]; [apply IH|].
    apply m_trans_rel; [apply sis_flag_rel_err|]. intro s'. apply IH.
Qed.

Lemma fast_SIS_flag : forall i0 rho fuel,
  simrelx (sis_flag_rel g tmin) (fast_SIS g tau gamma tmax i0 rho tmin true fuel) (fast_SIS g tau gamma tmax i0 rho tmin false fuel).
Proof.
  intros i0 rho fuel. unfold fast_SIS, with_initial.
  assert (HF : forall e, simrelx (sis_flag_rel g tmin) (Fail e) (Fail e : samp simout))
    by (intro e; eapply sx_leaf; reflexivity).
  destruct rho as [r|]; destruct i0 as [l|]; try apply HF; try apply m_loop_flag;
    (destruct (_ <? 0)%Z; [apply HF|]; constructor; intro ks; apply m_loop_flag).
Qed.

(* every draw script: same calls with the same arguments, related results *)
Theorem fast_SIS_flag_indep : forall i0 rho fuel ds,
  let r1 := exec (fast_SIS g tau gamma tmax i0 rho tmin true fuel) ds [] in
  let r2 := exec (fast_SIS g tau gamma tmax i0 rho tmin false fuel) ds [] in
  snd r1 = snd r2 /\ sis_flag_rel g tmin (fst r1) (fst r2).
Proof.
  intros. cbv zeta. apply simrelx_exec; [apply sis_flag_rel_err|apply fast_SIS_flag].
Qed.

(* read at the outputs: the two modes return together or fail together with the same error *)
Corollary fast_SIS_flag_outputs : forall i0 rho fuel ds,
  let r1 := exec (fast_SIS g tau gamma tmax i0 rho tmin true fuel) ds [] in
  let r2 := exec (fast_SIS g tau gamma tmax i0 rho tmin false fuel) ds [] in
  snd r1 = snd r2 /\
  (forall e, fst r1 = Err e <-> fst r2 = Err e) /\
  (forall o2, fst r2 = Ok o2 -> exists o1, fst r1 = Ok o1 /\ so_rows o1 = so_rows o2 /\ so_full o2 = None /\ so_full o1 <> None) /\
  (forall o1, fst r1 = Ok o1 -> exists o2, fst r2 = Ok o2 /\ so_rows o1 = so_rows o2).
Proof.
  intros i0 rho fuel ds. cbv zeta. destruct (fast_SIS_flag_indep i0 rho fuel ds) as [Ht Hr]. cbv zeta in Ht, Hr.
  split; [exact Ht|].
  destruct (fst (exec (fast_SIS g tau gamma tmax i0 rho tmin true fuel) ds [])) as [o1|e1];
    destruct (fst (exec (fast_SIS g tau gamma tmax i0 rho tmin false fuel) ds [])) as [o2|e2]; cbn in Hr; try contradiction.
  - pose proof (fin_rel_read g tmin o1 o2 Hr) as [K1 [K2 K3]]. split; [intro e; split; discriminate|]. split.
    + intros o H. injection H as <-. exists o1. repeat split; assumption.
    + intros o H. injection H as <-. exists o2. split; [reflexivity|exact K1].
  - subst e2. split; [intro e; split; intro H; exact H|]. split; intros o H; discriminate H.
Qed.

End FastSIS.

(* ------------------------------------------------------------------ *)
(* fast_nonMarkov_SIS *)
Section NonMarkov.
Variable g : graph.
Variable dur : node -> nat -> Q.
Variable delays : node -> node -> nat -> list Q.
Variable tmax : xtime.
Variable tmin : Q.

(* the event loop is one computation shared by the two modes *)
Lemma nm_run_factor : forall full fuel i0,
  nm_run g dur delays tmax tmin full fuel i0 =
  rbind (n_loop g dur delays tmax fuel (n_init g tmax tmin i0))
        (fun s => Ok (finish g tmin full (length i0) (ns_log s))).
Proof. reflexivity. Qed.

Lemma nm_run_flag : forall fuel i0,
  sis_flag_rel g tmin (nm_run g dur delays tmax tmin true fuel i0) (nm_run g dur delays tmax tmin false fuel i0).
Proof.
  intros fuel i0. unfold nm_run. destruct (n_loop g dur delays tmax fuel (n_init g tmax tmin i0)) as [s|e]; cbn [rbind].
  - exists (length i0), (ns_log s). split; reflexivity.
  - reflexivity.
Qed.

Lemma fast_nonMarkov_SIS_flag : forall i0 rho fuel,
  simrelx (sis_flag_rel g tmin) (fast_nonMarkov_SIS g dur delays tmax i0 rho tmin true fuel)
                                (fast_nonMarkov_SIS g dur delays tmax i0 rho tmin false fuel).
Proof.
  intros i0 rho fuel. unfold fast_nonMarkov_SIS, with_initial.
  assert (HF : forall e, simrelx (sis_flag_rel g tmin) (Fail e) (Fail e : samp simout))
    by (intro e; eapply sx_leaf; reflexivity).
  assert (HL : forall l, simrelx (sis_flag_rel g tmin)
             (match nm_run g dur delays tmax tmin true fuel l with Ok o => Ret o | Err e => Fail e end)
             (match nm_run g dur delays tmax tmin false fuel l with Ok o => Ret o | Err e => Fail e end)).
  { intro l. pose proof (nm_run_flag fuel l) as H.
    destruct (nm_run g dur delays tmax tmin true fuel l) as [o1|e1]; destruct (nm_run g dur delays tmax tmin false fuel l) as [o2|e2];
      cbn in H; try contradiction; (eapply sx_leaf; [reflexivity|reflexivity|exact H]). }
  destruct rho as [r|]; destruct i0 as [l|]; try apply HF; try apply HL;
    (destruct (_ <? 0)%Z; [apply HF|]; constructor; intro ks; apply HL).
Qed.

Theorem fast_nonMarkov_SIS_flag_indep : forall i0 rho fuel ds,
  let r1 := exec (fast_nonMarkov_SIS g dur delays tmax i0 rho tmin true fuel) ds [] in
  let r2 := exec (fast_nonMarkov_SIS g dur delays tmax i0 rho tmin false fuel) ds [] in
  snd r1 = snd r2 /\ sis_flag_rel g tmin (fst r1) (fst r2).
Proof.
  intros. cbv zeta. apply simrelx_exec; [apply sis_flag_rel_err|apply fast_nonMarkov_SIS_flag].
Qed.

End NonMarkov.

(* ------------------------------------------------------------------ *)
(* reproducibility: the trace and the arrays are functions of the draw script alone, not of
   the flag *)
Definition rows_res (r : result simout) : result (list row) :=
  match r with Ok o => Ok (so_rows o) | Err e => Err e end.

Lemma sis_flag_rel_rows : forall g tmin r1 r2, sis_flag_rel g tmin r1 r2 -> rows_res r1 = rows_res r2.
Proof.
  intros g tmin [o1|e1] [o2|e2] H; cbn in H; try contradiction; cbn [rows_res].
  - destruct (fin_rel_read g tmin o1 o2 H) as [K _]. rewrite K. reflexivity.
  - subst e2. reflexivity.
Qed.

Theorem fast_SIS_reproducible : forall g tau gamma tmax i0 rho tmin fuel ds full1 full2,
  let r1 := exec (fast_SIS g tau gamma tmax i0 rho tmin full1 fuel) ds [] in
  let r2 := exec (fast_SIS g tau gamma tmax i0 rho tmin full2 fuel) ds [] in
  snd r1 = snd r2 /\ rows_res (fst r1) = rows_res (fst r2).
Proof.
  intros g tau gamma tmax i0 rho tmin fuel ds full1 full2. cbv zeta.
  destruct (fast_SIS_flag_indep g tau gamma tmax tmin i0 rho fuel ds) as [Ht Hr]. cbv zeta in Ht, Hr.
  apply sis_flag_rel_rows in Hr.
  destruct full1, full2; try (split; reflexivity); [split; assumption|split; symmetry; assumption].
Qed.

Theorem fast_nonMarkov_SIS_reproducible : forall g dur delays tmax i0 rho tmin fuel ds full1 full2,
  let r1 := exec (fast_nonMarkov_SIS g dur delays tmax i0 rho tmin full1 fuel) ds [] in
  let r2 := exec (fast_nonMarkov_SIS g dur delays tmax i0 rho tmin full2 fuel) ds [] in
  snd r1 = snd r2 /\ rows_res (fst r1) = rows_res (fst r2).
Proof.
  intros g dur delays tmax i0 rho tmin fuel ds full1 full2. cbv zeta.
  destruct (fast_nonMarkov_SIS_flag_indep g dur delays tmax tmin i0 rho fuel ds) as [Ht Hr]. cbv zeta in Ht, Hr.
  apply sis_flag_rel_rows in Hr.
  destruct full1, full2; try (split; reflexivity); [split; assumption|split; symmetry; assumption].
Qed.

(* fast_nonMarkov_SIS touches the random source only to draw the initial nodes: with
   initial_infecteds given the trace is empty on EVERY script (whatever the result);
   otherwise it is at most the one random.sample(list(G), k) call *)
Theorem fast_nonMarkov_SIS_trace : forall g dur delays tmax i0 rho tmin full fuel ds,
  let tr := snd (exec (fast_nonMarkov_SIS g dur delays tmax i0 rho tmin full fuel) ds []) in
  match i0 with
  | Some _ => tr = []
  | None => tr = [] \/ exists k, tr = [CSample (map knode (gnodes g)) k]
  end.
Proof.
  intros g dur delays tmax i0 rho tmin full fuel ds. cbv zeta. unfold fast_nonMarkov_SIS, with_initial.
  assert (HL : forall l ds' acc, snd (exec (match nm_run g dur delays tmax tmin full fuel l with Ok o => Ret o | Err e => Fail e end) ds' acc) = rev acc).
  { intros l ds' acc. destruct (nm_run g dur delays tmax tmin full fuel l); reflexivity. }
  assert (HS : forall n, let tr := snd (exec (if (n <? 0)%Z then Fail ValueErr
              else Sample (map knode (gnodes g)) (Z.to_nat n)
                     (fun ks => match nm_run g dur delays tmax tmin full fuel (concat ks) with Ok o => Ret o | Err e => Fail e end)) ds []) in
            tr = [] \/ exists k, tr = [CSample (map knode (gnodes g)) k]).
  { intro n. cbv zeta. destruct (n <? 0)%Z; [left; reflexivity|]. cbn [exec].
    destruct (Nat.ltb _ _); [right; eexists; reflexivity|]. destruct ds as [|d ds']; [left; reflexivity|].
    right. exists (Z.to_nat n). apply HL. }
  destruct i0 as [l|]; destruct rho as [r|]; try reflexivity; try apply HL; apply HS.
Qed.
