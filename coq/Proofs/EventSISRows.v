(* Event-driven SIS simulators (fast_SIS, fast_nonMarkov_SIS), log-level theory
   shared by both: the three lists the simulators append to (rows, event log,
   transmission list; [logs] of Model/EventSIS.v) move in lock-step.
   [elock chk st0 rows0 evs txs rws st] (lists newest first) is the invariant:
   every event is logged once, hits a node in the right status (a recovery an
   infectious node, an infection a susceptible neighbour of its source; with
   chk = true the source is infectious in the replayed statuses), carries its
   transmission entry, and the row pushed for it is the census after it at a time
   not before the previous row and before tmax.  Everything C04 says about the
   returned rows is read off from it. *)
From EoNV Require Import Prelude Samp Graph ListDict ListDictP Gillespie KldP GillespieInv SampP GillespieP GillespieLog.
From EoNV Require Import Investigation InvestigationP GillespieC10.
From EoNV Require Import EventSIS EventSISP.
From Coq Require Import Lqa.

Notation census2 g := (census g SIS).

Section Rows.
Variable g : graph.
Hypothesis Hnd : NoDup (gnodes g).
Variable tmin : Q.
Variable tmax : xtime.

Definition binst (st : node -> N) : Prop := forall x, st x = stS \/ st x = stI.

Lemma binst_upd : forall st v s, binst st -> s = stS \/ s = stI -> binst (fupdN st v s).
Proof. intros st v s H Hs x. unfold fupdN. destruct (N.eqb x v); [exact Hs|apply H]. Qed.

Definition prev_le (rws : list row) (t : Q) : Prop :=
  match rws with (t0, _) :: _ => t0 <= t | [] => True end.

Inductive elock (chk : bool) (st0 : node -> N) (rows0 : list row)
  : list ev -> list tx -> list row -> (node -> N) -> Prop :=
| el_nil : elock chk st0 rows0 [] [] rows0 st0
| el_rec : forall evs txs rws st t u,
    elock chk st0 rows0 evs txs rws st -> st u = stI -> In u (gnodes g) ->
    prev_le rws t -> xlt t tmax = true ->
    elock chk st0 rows0 ((t, u, stS) :: evs) txs ((t, census2 g (fupdN st u stS)) :: rws) (fupdN st u stS)
| el_tr : forall evs txs rws st t u v,
    elock chk st0 rows0 evs txs rws st -> (chk = true -> st u = stI) -> st v = stS ->
    In v (gadj g u) -> In v (gnodes g) -> prev_le rws t -> xlt t tmax = true ->
    elock chk st0 rows0 ((t, v, stI) :: evs) ((t, Some u, v) :: txs) ((t, census2 g (fupdN st v stI)) :: rws) (fupdN st v stI).

Lemma elock_weaken : forall chk st0 rows0 evs txs rws st,
  elock chk st0 rows0 evs txs rws st -> elock false st0 rows0 evs txs rws st.
Proof.
  intros chk st0 rows0 evs txs rws st H. induction H; [constructor|apply el_rec; assumption|].
  apply el_tr; try assumption. discriminate.
Qed.

(* with the source check it is the lock of the Gillespie component *)
Lemma elock_lock : forall st0 rows0 evs txs rws st,
  elock true st0 rows0 evs txs rws st -> lock g SIS tmax st0 rows0 evs txs rws st.
Proof.
  intros st0 rows0 evs txs rws st H. induction H as [|evs txs rws st t u H IH Hu Hin Hp Hx|evs txs rws st t u v H IH Hu Hv Ha Hin Hp Hx].
  - constructor.
  - apply (lock_rec g SIS tmax st0 rows0 evs txs rws st t u IH Hu Hin); [|exact Hx].
    destruct rws as [|[t0 c] r]; exact Hp.
  - apply (lock_tr g SIS tmax st0 rows0 evs txs rws st t u v IH (Hu eq_refl) Hv Ha Hin); [|exact Hx].
    destruct rws as [|[t0 c] r]; exact Hp.
Qed.

Section Read.
Variable chk : bool.
Variable st0 : node -> N.
Variable rows0 : list row.
Hypothesis Hst0 : binst st0.
Hypothesis Hrows0 : hd_counts rows0 = census2 g st0.
Hypothesis Hne0 : rows0 <> [].

Lemma elock_bin : forall evs txs rws st, elock chk st0 rows0 evs txs rws st -> binst st.
Proof.
  intros evs txs rws st H. induction H; [exact Hst0| |]; apply binst_upd; try assumption; [left|right]; reflexivity.
Qed.

Lemma elock_census : forall evs txs rws st, elock chk st0 rows0 evs txs rws st ->
  hd_counts rws = census2 g st /\ rws <> [].
Proof.
  intros evs txs rws st H. induction H; [split; assumption| |]; split; try reflexivity; discriminate.
Qed.

Lemma elock_replay : forall evs txs rws st, elock chk st0 rows0 evs txs rws st ->
  st = replay st0 (rev evs).
Proof.
  intros evs txs rws st H. induction H as [|evs txs rws st t u H IH|evs txs rws st t u v H IH].
  - reflexivity.
  - cbn [rev]. unfold replay in *. rewrite fold_left_app. cbn [fold_left]. rewrite <- IH. reflexivity.
  - cbn [rev]. unfold replay in *. rewrite fold_left_app. cbn [fold_left]. rewrite <- IH. reflexivity.
Qed.

(* the push2 form in which the simulators build the rows *)
Lemma push2_inf : forall evs txs rws st t v, elock chk st0 rows0 evs txs rws st ->
  st v = stS -> In v (gnodes g) ->
  push2 rws t (-1) 1 = (t, census2 g (fupdN st v stI)) :: rws.
Proof.
  intros evs txs rws st t v H Hv Hin. unfold push2. cbv zeta. destruct (elock_census _ _ _ _ H) as [Hc _].
  rewrite Hc. f_equal. f_equal.
  rewrite (census_transmit g Hnd SIS st v (elock_bin _ _ _ _ H) Hin Hv). reflexivity.
Qed.
Lemma push2_rec : forall evs txs rws st t u, elock chk st0 rows0 evs txs rws st ->
  st u = stI -> In u (gnodes g) ->
  push2 rws t 1 (-1) = (t, census2 g (fupdN st u stS)) :: rws.
Proof.
  intros evs txs rws st t u H Hu Hin. unfold push2. cbv zeta. destruct (elock_census _ _ _ _ H) as [Hc _].
  rewrite Hc. f_equal. f_equal.
  rewrite (census_recover_SIS g Hnd SIS st u eq_refl Hin Hu). reflexivity.
Qed.

(* rows: one per event on top of the initial rows, same times, running counts *)
Lemma log_rows_snoc : forall nodes ps (l : list Investigation.event) st e,
  log_rows nodes ps st (l ++ [e]) =
  log_rows nodes ps st l ++ [(ev_t e, map (count_status nodes (fupdN (replay st l) (ev_u e) (ev_s e))) ps)].
Proof.
  intros nodes ps l. induction l as [|x l IH]; intros st e; [reflexivity|].
  cbn [app log_rows]. rewrite IH. reflexivity.
Qed.

Lemma census2_counts : forall st, census2 g st = map (count_status (gnodes g) st) [stS; stI].
Proof. intro st. reflexivity. Qed.

Lemma elock_rows : forall evs txs rws st, elock chk st0 rows0 evs txs rws st ->
  exists rs, rws = rs ++ rows0 /\ rev rs = log_rows (gnodes g) [stS; stI] st0 (rev evs).
Proof.
  intros evs txs rws st H. induction H as [|evs txs rws st t u H IH|evs txs rws st t u v H IH].
  - exists []. split; reflexivity.
  - destruct IH as [rs [E Hr]]. subst rws. exists ((t, census2 g (fupdN st u stS)) :: rs). split; [reflexivity|].
    cbn [rev]. rewrite log_rows_snoc, Hr. f_equal. rewrite <- (elock_replay _ _ _ _ H). reflexivity.
  - destruct IH as [rs [E Hr]]. subst rws. exists ((t, census2 g (fupdN st v stI)) :: rs). split; [reflexivity|].
    cbn [rev]. rewrite log_rows_snoc, Hr. f_equal. rewrite <- (elock_replay _ _ _ _ H). reflexivity.
Qed.

Lemma elock_times : forall evs txs rws st, elock chk st0 rows0 evs txs rws st ->
  Forall (fun e => xlt (ev_time e) tmax = true) evs /\
  Forall (fun e => In (ev_node e) (gnodes g) /\ (ev_st e = stI \/ ev_st e = stS)) evs.
Proof.
  intros evs txs rws st H. induction H as [|evs txs rws st t u H [I1 I2]|evs txs rws st t u v H [I1 I2]].
  - split; constructor.
  - split; constructor; try assumption. split; [assumption|right; reflexivity].
  - split; constructor; try assumption. split; [assumption|left; reflexivity].
Qed.

(* transmissions: one sourced entry per infection event, same time and target, same order *)
Lemma elock_txs : forall evs txs rws st, elock chk st0 rows0 evs txs rws st ->
  map (fun x : tx => (fst (fst x), snd x)) txs =
  map (fun e : ev => (ev_time e, ev_node e)) (filter (fun e => N.eqb (ev_st e) stI) evs) /\
  Forall (fun x : tx => exists u, snd (fst x) = Some u /\ In (snd x) (gadj g u)) txs.
Proof.
  intros evs txs rws st H. induction H as [|evs txs rws st t u H [I1 I2]|evs txs rws st t u v H [I1 I2]].
  - split; [reflexivity|constructor].
  - cbn [filter ev_st snd]. change (N.eqb stS stI) with false. cbv iota. split; assumption.
  - cbn [filter ev_st snd]. change (N.eqb stI stI) with true. cbv iota. cbn [map fst snd ev_time ev_node].
    split; [f_equal; exact I1|]. constructor; [|exact I2]. exists u. split; [reflexivity|assumption].
Qed.

(* the chronological reading of the rows is a trajectory, provided the initial rows are *)
Lemma traj_rev_cons : forall r1 r2 l,
  traj g SIS tmin tmax (rev (r1 :: l)) -> fst r1 <= fst r2 -> xlt (fst r2) tmax = true ->
  move SIS (snd r1) (snd r2) -> is_census g SIS (snd r2) -> traj g SIS tmin tmax (rev (r2 :: r1 :: l)).
Proof.
  intros r1 r2 l H Hle Hx Hm Hc. cbn [rev] in *. apply traj_snoc; assumption.
Qed.

Lemma elock_traj : forall evs txs rws st, elock chk st0 rows0 evs txs rws st ->
  forall keep, (exists h drop, rows0 = h :: drop /\ keep = [h]) ->
  traj g SIS tmin tmax (rev keep) ->
  exists rs, rws = rs ++ rows0 /\ traj g SIS tmin tmax (rev (rs ++ keep)).
Proof.
  intros evs txs rws st H keep [h [drop [E0 Ek]]] Hk. subst keep.
  induction H as [|evs txs rws st t u H IH Hu Hin Hp Hx|evs txs rws st t u v H IH Hu Hv Ha Hin Hp Hx].
  - exists []. split; [reflexivity|exact Hk].
  - destruct IH as [rs [E Ht]]. exists ((t, census2 g (fupdN st u stS)) :: rs). split; [rewrite E; reflexivity|].
    destruct (elock_census _ _ _ _ H) as [Hc _].
    assert (Hhd : exists r1 l, rs ++ [h] = r1 :: l /\ fst r1 <= t /\ snd r1 = census2 g st).
    { destruct rs as [|r1 rs'].
      - exists h, []. split; [reflexivity|]. rewrite E, E0 in Hp, Hc. cbn [app] in Hp, Hc. destruct h as [t0 c0].
        cbn [prev_le hd_counts] in Hp, Hc. split; [exact Hp|exact Hc].
      - exists r1, (rs' ++ [h]). split; [reflexivity|]. rewrite E in Hp, Hc. cbn [app] in Hp, Hc. destruct r1 as [t0 c0].
        cbn [prev_le hd_counts] in Hp, Hc. split; [exact Hp|exact Hc]. }
    destruct Hhd as [r1 [l [El [Hle Hs]]]]. change (((t, census2 g (fupdN st u stS)) :: rs) ++ [h]) with ((t, census2 g (fupdN st u stS)) :: (rs ++ [h])).
    rewrite El in *. apply traj_rev_cons; cbn [fst snd]; try assumption.
    + rewrite Hs. right. rewrite (census_recover_SIS g Hnd SIS st u eq_refl Hin Hu). reflexivity.
    + exists (fupdN st u stS). split; [|reflexivity]. apply binst_upd; [exact (elock_bin _ _ _ _ H)|left; reflexivity].
  - destruct IH as [rs [E Ht]]. exists ((t, census2 g (fupdN st v stI)) :: rs). split; [rewrite E; reflexivity|].
    destruct (elock_census _ _ _ _ H) as [Hc _].
    assert (Hhd : exists r1 l, rs ++ [h] = r1 :: l /\ fst r1 <= t /\ snd r1 = census2 g st).
    { destruct rs as [|r1 rs'].
      - exists h, []. split; [reflexivity|]. rewrite E, E0 in Hp, Hc. cbn [app] in Hp, Hc. destruct h as [t0 c0].
        cbn [prev_le hd_counts] in Hp, Hc. split; [exact Hp|exact Hc].
      - exists r1, (rs' ++ [h]). split; [reflexivity|]. rewrite E in Hp, Hc. cbn [app] in Hp, Hc. destruct r1 as [t0 c0].
        cbn [prev_le hd_counts] in Hp, Hc. split; [exact Hp|exact Hc]. }
    destruct Hhd as [r1 [l [El [Hle Hs]]]]. change (((t, census2 g (fupdN st v stI)) :: rs) ++ [h]) with ((t, census2 g (fupdN st v stI)) :: (rs ++ [h])).
    rewrite El in *. apply traj_rev_cons; cbn [fst snd]; try assumption.
    + rewrite Hs. left. rewrite (census_transmit g Hnd SIS st v (elock_bin _ _ _ _ H) Hin Hv). reflexivity.
    + exists (fupdN st v stI). split; [|reflexivity]. apply binst_upd; [exact (elock_bin _ _ _ _ H)|right; reflexivity].
Qed.

(* every node's events alternate, starting from its initial status *)
Lemma last_default : forall (A : Type) (l : list A) z a b, last (z :: l) a = last (z :: l) b.
Proof. induction l as [|y l IH]; intros z a b; [reflexivity|]. change (last (y :: l) a = last (y :: l) b). apply IH. Qed.

Lemma chain_snoc : forall l s x,
  GillespieC10.chain SIS s (l ++ [x]) = GillespieC10.chain SIS s l &&
    (if N.eqb (last l s) stS then N.eqb x stI else if N.eqb (last l s) stI then N.eqb x stS else false).
Proof.
  induction l as [|y l IH]; intros s x.
  - cbn [app GillespieC10.chain last]. rewrite andb_true_r. reflexivity.
  - cbn [app GillespieC10.chain]. rewrite IH. rewrite <- andb_assoc. f_equal. f_equal.
    destruct l as [|z l']; [reflexivity|]. rewrite (last_default _ l' z y s). reflexivity.
Qed.

Lemma elock_chain : forall evs txs rws st, elock chk st0 rows0 evs txs rws st ->
  forall u, GillespieC10.chain SIS (st0 u) (map ev_st (evs_of u (rev evs))) = true /\
            st u = last (map ev_st (evs_of u (rev evs))) (st0 u).
Proof.
  intros evs txs rws st H. induction H as [|evs txs rws st t u H IH Hu Hin Hp Hx|evs txs rws st t u v H IH Hu Hv Ha Hin Hp Hx]; intro x.
  - split; reflexivity.
  - destruct (IH x) as [I1 I2]. cbn [rev]. unfold evs_of in *. rewrite filter_app, map_app. cbn [filter ev_node fst snd].
    destruct (N.eqb_spec u x) as [E|E].
    + subst x. cbn [map ev_st snd]. rewrite chain_snoc, I1, <- I2, Hu. split; [reflexivity|].
      rewrite last_last. apply fupdN_same.
    + cbn [map]. rewrite !app_nil_r. split; [exact I1|]. rewrite fupdN_other by (intro; subst; contradiction). exact I2.
  - destruct (IH x) as [I1 I2]. cbn [rev]. unfold evs_of in *. rewrite filter_app, map_app. cbn [filter ev_node fst snd].
    destruct (N.eqb_spec v x) as [E|E].
    + subst x. cbn [map ev_st snd]. rewrite chain_snoc, I1, <- I2, Hv. split; [reflexivity|].
      rewrite last_last. apply fupdN_same.
    + cbn [map]. rewrite !app_nil_r. split; [exact I1|]. rewrite fupdN_other by (intro; subst; contradiction). exact I2.
Qed.

End Read.
End Rows.
