(* Theorems over the GENERATED right-hand sides (Gen/Rhs.v): they are re-proved
   against what EoN/analytic.py says now on every run of the checks C07/C08.
   Conventions: state vectors are written as explicit lists in the layout the
   code unpacks (e.g. Sk ++ [SS; SI; R]); `veq` is pointwise Qeq. *)
From EoNV Require Import Prelude Vec VecP Aux Rhs.
From Coq Require Import Qpower Lqa Setoid Morphisms.

Ltac q0 := unfold Qdiv; ring.
Ltac rhs_unfold f := unfold f; cbn [vnth nth].

(* ====================================================================== *)
(* C08  tau = 0:  dS = 0 (SIR models) and dI = - gamma I                    *)
(* ====================================================================== *)
Section Tau0Scalar.
Variables (t g : Q).

(* SIS: S+I is conserved, dI = -gamma I, dS = +gamma I *)
Lemma tau0_SIS_homogeneous_meanfield S I c :
  veq (dSIS_homogeneous_meanfield [S; I] t c 0 g) [g * I; - (g * I)].
Proof. rhs_unfold dSIS_homogeneous_meanfield. repeat constructor; ring. Qed.

Lemma tau0_SIR_homogeneous_meanfield S I c :
  veq (dSIR_homogeneous_meanfield [S; I] t c 0 g) [0; - (g * I)].
Proof. rhs_unfold dSIR_homogeneous_meanfield. repeat constructor; ring. Qed.

(* state (S, SI, SS), I = N - S is not a coordinate: dS = gamma I, i.e. dI = -gamma I *)
Lemma tau0_SIS_homogeneous_pairwise S SI SS N n :
  vnth 0 (dSIS_homogeneous_pairwise [S; SI; SS] t N n 0 g) == g * (N - S).
Proof. rhs_unfold dSIS_homogeneous_pairwise. ring. Qed.

Lemma tau0_SIR_homogeneous_pairwise S I SI SS n :
  vnth 0 (dSIR_homogeneous_pairwise [S; I; SI; SS] t n 0 g) == 0 /\
  vnth 1 (dSIR_homogeneous_pairwise [S; I; SI; SS] t n 0 g) == - (g * I).
Proof. rhs_unfold dSIR_homogeneous_pairwise. split; ring. Qed.

(* state (I, SS, SI, II), S = N - I *)
Lemma tau0_SIS_super_compact_pairwise I SS SI II N k1 k2 k3 :
  vnth 0 (dSIS_super_compact_pairwise [I; SS; SI; II] t 0 g N k1 k2 k3) == - (g * I).
Proof. rhs_unfold dSIS_super_compact_pairwise. ring. Qed.

(* state (theta, SS, SI, R): S = N psihat(theta) is constant because dtheta = 0;
   dR = gamma I with I = N - S - R, hence dI = -dS - dR = -gamma I *)
Lemma tau0_SIR_super_compact_pairwise theta SS SI R N (ps psP psDP : Q -> Q) :
  vnth 0 (dSIR_super_compact_pairwise [theta; SS; SI; R] t 0 g ps psP psDP N) == 0 /\
  vnth 3 (dSIR_super_compact_pairwise [theta; SS; SI; R] t 0 g ps psP psDP N) == g * (N - N * ps theta - R).
Proof. rhs_unfold dSIR_super_compact_pairwise. split; q0. Qed.

(* EBCM, state (theta, R): with tau = 0 the theta-equation is dtheta = gamma (1 - theta);
   the code starts at theta = 1, which is an equilibrium, so S = N psihat(1) is constant,
   and dR = gamma I *)
Lemma tau0_EBCM_theta theta R N (ps psP : Q -> Q) phiS0 phiR0 :
  vnth 0 (dEBCM [theta; R] t N 0 g ps psP phiS0 phiR0) == g * (1 - theta).
Proof. rhs_unfold dEBCM. q0. Qed.
Lemma tau0_EBCM R N (ps psP : Q -> Q) phiS0 phiR0 :
  vnth 0 (dEBCM [1; R] t N 0 g ps psP phiS0 phiR0) == 0 /\
  vnth 1 (dEBCM [1; R] t N 0 g ps psP phiS0 phiR0) == g * (N - N * ps 1 - R).
Proof. rhs_unfold dEBCM. split; q0. Qed.
End Tau0Scalar.

(* ---------- 1-D models ---------- *)
Section Tau0Vector.
Variables (t g : Q).

(* state Sk ++ [SI; SS]; Ik = Nk - Sk: dSk = gamma Ik componentwise, i.e. dIk = -gamma Ik *)
Lemma tau0_SIS_compact_pairwise Sk SI SS Nk twoM :
  length Nk = length Sk ->
  veq (drop_last 2 (dSIS_compact_pairwise (Sk ++ [SI; SS]) t Nk twoM 0 g)) (smul g (vsub Nk Sk)).
Proof.
  intros Hl. unfold dSIS_compact_pairwise.
  rewrite !drop_last_app, !take_last_app by reflexivity. cbn [vnth nth].
  apply vsub_allz_r.
  - apply allz_vdivs, allz_vmuls, allz_vmul_l, allz_smul0. reflexivity.
  - veclen.
Qed.

(* state Sk ++ [SS; SI; R]: dSk = 0 componentwise, dR = gamma I with I = N - sum Sk - R *)
Lemma tau0_SIR_compact_pairwise Sk SS SI R N :
  let d := dSIR_compact_pairwise (Sk ++ [SS; SI; R]) t N 0 g in
  allz (drop_last 3 d) /\ length (drop_last 3 d) = length Sk /\
  vnth 2 (take_last 3 d) == g * (N - vsum Sk - R).
Proof.
  cbv zeta. unfold dSIR_compact_pairwise.
  rewrite !drop_last_app, !take_last_app by reflexivity. cbn [vnth nth].
  split; [|split].
  - apply allz_vdivs, allz_vmuls, allz_vmul_l, allz_smul0. ring.
  - veclen.
  - ring.
Qed.

(* state S ++ I with kcount = length S = length I: dI = -gamma I, dS = +gamma I componentwise *)
Lemma tau0_SIS_heterogeneous_meanfield S I :
  length I = length S ->
  let d := dSIS_heterogeneous_meanfield (S ++ I) t (length S) 0 g in
  veq (slice_to (length S) d) (smul g I) /\ veq (slice_from (length S) d) (vneg (smul g I)).
Proof.
  intros Hl. cbv zeta. unfold dSIS_heterogeneous_meanfield.
  rewrite slice_to_app, slice_from_app.
  set (z := vmuls (vmul (smul 0 (arange (length S))) S) _).
  assert (Hz : allz z) by (apply allz_vmuls, allz_vmul_l, allz_smul0; reflexivity).
  assert (Hlz : length z = length (smul g I)) by (subst z; veclen).
  assert (Hl1 : length (vsub (smul g I) z) = length S) by (subst z; veclen).
  rewrite <- Hl1 at 1 2. rewrite slice_to_app, slice_from_app. split.
  - apply vsub_allz_r; auto.
  - apply vsub_allz_l; auto.
Qed.

(* state [theta] ++ Rk: dtheta = 0 (so Sk = S0 theta^k is constant) and dRk = gamma Ik *)
Lemma tau0_SIR_heterogeneous_meanfield theta Rk S0 Nk :
  let d := dSIR_heterogeneous_meanfield ([theta] ++ Rk) t S0 Nk 0 g in
  vnth 0 d == 0 /\
  slice_from 1 d = smul g (vsub (vsub Nk (vmul S0 (spow_arange theta (length Rk)))) Rk).
Proof.
  cbv zeta. unfold dSIR_heterogeneous_meanfield. cbn [app slice_from skipn vnth nth]. split; [ring|reflexivity].
Qed.

(* state Skappa ++ [R; SI]: the classes exchange mass (a susceptible's effective degree drops
   when an infected neighbour recovers) but S = sum Skappa is constant, and dR = gamma I *)
Lemma tau0_SIR_compact_effective_degree Sk R SI N :
  let d := dSIR_compact_effective_degree (Sk ++ [R; SI]) t N 0 g in
  vsum (drop_last 2 d) == 0 /\ length (drop_last 2 d) = length Sk /\
  vnth 0 (take_last 2 d) == g * (N - R - vsum Sk).
Proof.
  cbv zeta. unfold dSIR_compact_effective_degree.
  rewrite !drop_last_app, !take_last_app by reflexivity. cbn [vnth nth].
  split; [|split].
  - rewrite vsum_smul, vsum_vadd by veclen.
    rewrite vsum_smul, vsum_shift_m1, nth0_arange_mul.
    set (a := arange (length Sk)).
    assert (H : vsum (vmul (smul (- (0 + g)) a) Sk) == - g * vsum (vmul a Sk)).
    { subst a. generalize (arange (length Sk)) as a. intros a. revert Sk.
      induction a as [|x a IH]; intros [|y Sk]; vunf; lcbn; try ring.
      specialize (IH Sk). vunf. rewrite IH. ring. }
    rewrite H. ring.
  - veclen.
  - ring.
Qed.
End Tau0Vector.

(* ====================================================================== *)
(* C08  gamma = 0: the SIS and SIR versions have the same S-subsystem      *)
(* ====================================================================== *)
Section Gamma0.
Variables (t tau : Q).

Lemma gamma0_homogeneous_meanfield S I c :
  veq (dSIS_homogeneous_meanfield [S; I] t c tau 0) (dSIR_homogeneous_meanfield [S; I] t c tau 0).
Proof.
  rhs_unfold dSIS_homogeneous_meanfield. rhs_unfold dSIR_homogeneous_meanfield.
  repeat constructor; ring.
Qed.

(* SIS coordinates (S, SI, SS) = SIR coordinates 0, 2, 3 of (S, I, SI, SS), for every I and N *)
Lemma gamma0_homogeneous_pairwise S I SI SS N n :
  let a := dSIS_homogeneous_pairwise [S; SI; SS] t N n tau 0 in
  let b := dSIR_homogeneous_pairwise [S; I; SI; SS] t n tau 0 in
  vnth 0 a == vnth 0 b /\ vnth 1 a == vnth 2 b /\ vnth 2 a == vnth 3 b.
Proof.
  cbv zeta. rhs_unfold dSIS_homogeneous_pairwise. rhs_unfold dSIR_homogeneous_pairwise.
  repeat split; q0.
Qed.

(* SIS state Sk ++ [SI; SS], SIR state Sk ++ [SS; SI; R]: dSk, dSI, dSS coincide *)
Lemma gamma0_compact_pairwise Sk SI SS R Nk twoM N :
  length Nk = length Sk ->
  let a := dSIS_compact_pairwise (Sk ++ [SI; SS]) t Nk twoM tau 0 in
  let b := dSIR_compact_pairwise (Sk ++ [SS; SI; R]) t N tau 0 in
  veq (drop_last 2 a) (drop_last 3 b) /\
  vnth 0 (take_last 2 a) == vnth 1 (take_last 3 b) /\
  vnth 1 (take_last 2 a) == vnth 0 (take_last 3 b).
Proof.
  intros Hl. cbv zeta. unfold dSIS_compact_pairwise, dSIR_compact_pairwise.
  rewrite !drop_last_app, !take_last_app by reflexivity. cbn [vnth nth].
  split; [|split; q0].
  apply veq_of_nth; [veclen|].
  intros i Hi. autorewrite with veclen in Hi.
  rewrite nth_vsub, !nth_vdivs, !nth_vmuls, !nth_vmul, !nth_smul, nth_vsub, !nth_arange by veclen.
  q0.
Qed.
End Gamma0.

(* heterogeneous mean-field: the SIR version is written in (theta, Rk) coordinates *)
Section G0.
Variables (t tau : Q).
(* gamma = 0, no recovered nodes (Rk = 0, which gamma = 0 preserves): with S_k = S0_k theta^k and
   I_k = N_k - S_k the SIS right-hand side for S_k is the chain-rule image k S0_k theta^(k-1) theta'
   of the SIR right-hand side for theta *)
Lemma gamma0_heterogeneous_meanfield_partial theta S0 Nk n :
  ~ theta == 0 -> length S0 = n -> length Nk = n ->
  let Sk := vmul S0 (spow_arange theta n) in
  let Ik := vsub Nk Sk in
  let sis := dSIS_heterogeneous_meanfield (Sk ++ Ik) t n tau 0 in
  let sir := dSIR_heterogeneous_meanfield ([theta] ++ zeros n) t S0 Nk tau 0 in
  forall k, (k < n)%nat ->
    nth k (slice_to n sis) 0 == Qnat k * nth k S0 0 * qpow theta (Z.of_nat k - 1) * vnth 0 sir.
Proof.
  intros Hth HlS HlN. cbv zeta. intros k Hk.
  set (Sk := vmul S0 (spow_arange theta n)). set (Ik := vsub Nk Sk).
  assert (HlSk : length Sk = n) by (subst Sk; veclen).
  assert (HlIk : length Ik = n) by (subst Ik; veclen).
  unfold dSIS_heterogeneous_meanfield, dSIR_heterogeneous_meanfield.
  cbn [app slice_from skipn vnth nth]. rewrite zeros_length.
  assert (E1 : slice_to n (Sk ++ Ik) = Sk) by (rewrite <- HlSk at 1; apply slice_to_app).
  assert (E2 : slice_from n (Sk ++ Ik) = Ik) by (rewrite <- HlSk at 1; apply slice_from_app).
  rewrite E1, E2.
  set (piS := dot (arange n) Ik / dot (arange n) (vadd Ik Sk)).
  set (z := vmuls (vmul (smul tau (arange n)) Sk) piS).
  assert (Hlen : length (vsub (smul 0 Ik) z) = n) by (subst z; veclen).
  rewrite <- Hlen at 1. rewrite slice_to_app. clear Hlen.
  fold Sk.
  assert (HI : veq (vsub (vsub Nk Sk) (zeros n)) Ik).
  { apply vsub_allz_r; [apply allz_zeros|]. fold Ik. veclen. }
  assert (HN : veq (vadd Ik Sk) Nk).
  { apply veq_of_nth; [veclen|]. intros i Hi. rewrite nth_vadd by veclen. subst Ik. rewrite nth_vsub by veclen. ring. }
  rewrite (dot_veq_r _ _ _ HI).
  subst z. rewrite nth_vsub, nth_smul, nth_vmuls, nth_vmul, nth_smul, nth_arange by veclen.
  subst piS. rewrite (dot_veq_r _ _ _ HN).
  subst Sk. rewrite nth_vmul, nth_spow_arange by veclen.
  rewrite <- (qpow_pred theta k Hth). q0.
Qed.
End G0.

(* ====================================================================== *)
(* C08  final sizes                                                        *)
(* ====================================================================== *)
Section AttackCts.
Variables (t N tau g phiS0 phiR0 : Q) (ps psP : Q -> Q).

(* dtheta/dt of _dEBCM_ is (gamma+tau) (F(theta) - theta) with F the map iterated by Attack_rate_cts_time *)
Lemma attack_cts_dtheta theta R :
  ~ g + tau == 0 -> ~ psP 1 == 0 ->
  vnth 0 (dEBCM [theta; R] t N tau g ps psP phiS0 phiR0) ==
  (g + tau) * (Attack_rate_cts_time_step g tau phiR0 phiS0 psP ps theta - theta).
Proof.
  intros H1 H2. rhs_unfold dEBCM. unfold Attack_rate_cts_time_step. field. split; auto.
Qed.

Lemma attack_cts_fixed_point theta R :
  ~ g + tau == 0 -> ~ psP 1 == 0 ->
  (vnth 0 (dEBCM [theta; R] t N tau g ps psP phiS0 phiR0) == 0 <->
   theta == Attack_rate_cts_time_step g tau phiR0 phiS0 psP ps theta).
Proof.
  intros H1 H2. rewrite attack_cts_dtheta by auto. split; intros H.
  - apply Qmult_integral in H. destruct H as [H|H]; [contradiction|]. lra.
  - rewrite <- H. ring.
Qed.

(* at a rest point of the R-equation (I = 0, gamma > 0) the value returned by
   Attack_rate_cts_time, 1 - psihat(theta), is R/N *)
Lemma attack_cts_ret_is_final_R theta R :
  ~ g == 0 -> ~ N == 0 ->
  vnth 1 (dEBCM [theta; R] t N tau g ps psP phiS0 phiR0) == 0 ->
  Attack_rate_cts_time_ret g tau phiR0 phiS0 psP ps theta == R / N.
Proof.
  intros Hg HN. rhs_unfold dEBCM. unfold Attack_rate_cts_time_ret. intros H.
  apply Qmult_integral in H. destruct H as [H|H]; [contradiction|].
  assert (HR : R == N - N * ps theta) by lra. rewrite HR. field. auto.
Qed.
End AttackCts.

Section AttackDiscrete.
Variables (N p phiS0 phiR0 R0 : Q) (ps psP : Q -> Q).

Definition st_theta (s : Q * Q * Q * Q) : Q := let '(a, _, _, _) := s in a.
Definition st_R (s : Q * Q * Q * Q) : Q := let '(_, b, _, _) := s in b.
Definition st_S (s : Q * Q * Q * Q) : Q := let '(_, _, c, _) := s in c.
Definition st_I (s : Q * Q * Q * Q) : Q := let '(_, _, _, d) := s in d.

Let row := EBCM_discrete_loop R0 N ps p phiR0 phiS0 psP.
Let theta_n n := iter n (Attack_rate_discrete_step p phiR0 phiS0 psP ps) (Attack_rate_discrete_init p phiR0 phiS0 psP ps).

(* the theta sequence of EBCM_discrete IS the iteration of Attack_rate_discrete, and S = N psihat(theta) in every row *)
Lemma ebcm_discrete_theta n : st_theta (row n) = theta_n n /\ st_S (row n) = N * ps (theta_n n).
Proof.
  unfold row, theta_n, EBCM_discrete_loop. induction n as [|n [IH1 IH2]].
  - cbn [iter]. unfold EBCM_discrete_init, Attack_rate_discrete_init, st_theta, st_S. split; reflexivity.
  - rewrite !iter_S.
    destruct (iter n _ (EBCM_discrete_init _ _ _ _ _ _ _)) as [[[th r] s] i].
    unfold st_theta, st_S in IH1, IH2. subst th.
    unfold EBCM_discrete_step at 1 2, Attack_rate_discrete_step at 1 3. unfold st_theta, st_S. split; reflexivity.
Qed.

(* R(t+1) = R(t) + I(t) *)
Lemma ebcm_discrete_R_step n : st_R (row (S n)) = st_R (row n) + st_I (row n).
Proof.
  unfold row, EBCM_discrete_loop. rewrite iter_S.
  destruct (iter n _ _) as [[[th r] s] i]. reflexivity.
Qed.

(* every row has S + I + R = N *)
Lemma ebcm_discrete_conserves n : st_S (row n) + st_I (row n) + st_R (row n) == N.
Proof.
  unfold row, EBCM_discrete_loop. destruct n.
  - cbn [iter]. unfold EBCM_discrete_init, st_S, st_I, st_R. ring.
  - rewrite iter_S. destruct (iter n _ _) as [[[th r] s] i]. unfold EBCM_discrete_step, st_S, st_I, st_R. ring.
Qed.

(* Attack_rate_discrete(number_its = n) = 1 - S(tmin + n)/N *)
Lemma attack_discrete_exact n :
  ~ N == 0 ->
  Attack_rate_discrete_loop p phiR0 phiS0 psP ps n == 1 - st_S (row n) / N.
Proof.
  intros HN. destruct (ebcm_discrete_theta n) as [_ H2]. rewrite H2.
  unfold Attack_rate_discrete_loop, Attack_rate_discrete_ret, theta_n. field. auto.
Qed.
End AttackDiscrete.
