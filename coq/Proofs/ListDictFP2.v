(* _ListDict_ under rounded arithmetic, part 2: what is stored.  With a rounding
   that leaves representable numbers alone (rnd w == w for the weights handed in)
   insert stores the weight exactly, an increment on an absent key stores it
   exactly, an increment on a present key is off by one rounding; hence on the
   histories the simulators produce (every increment creates its key) the stored
   weights are EXACTLY the finite map of the specification and only the running
   total carries rounding error.  Also: the exact model is the rounded model at
   the identity rounding; the binary64 instance; concrete examples. *)
From EoNV Require Import Prelude Samp ListDict ListDictP ListDictF ListDictFP ListDictFPr.
From Coq Require Import Qabs Lqa.

Lemma ldf_exact_is_ld : forall (K : Type) (Keqb : K -> K -> bool) (s : ld K) (o : op K),
  ldf_step K Keqb (fun x => x) s o = ld_step K Keqb s o.
Proof. intros K Keqb s o. destruct o; reflexivity. Qed.

Lemma ldf_run_exact_is_ld : forall (K : Type) (Keqb : K -> K -> bool) ops (s : ld K),
  ldf_run K Keqb (fun x => x) s ops = ld_run K Keqb s ops.
Proof.
  intros K Keqb. induction ops as [|o ops IH]; intro s; [reflexivity|].
  cbn [ldf_run ld_run]. rewrite ldf_exact_is_ld. destruct (ld_step K Keqb s o); [apply IH|reflexivity].
Qed.

Section FP2.
Variable K : Type.
Variable Keqb : K -> K -> bool.
Hypothesis Keqb_spec : forall a b, reflect (a = b) (Keqb a b).
Variable rnd : Q -> Q.
Variable eps : Q.
Hypothesis eps_nonneg : 0 <= eps.
Hypothesis eps_le1 : eps <= 1.
Hypothesis rnd_err : forall x, Qabs (rnd x - x) <= eps * Qabs x.
Hypothesis rnd_proper : forall x y, x == y -> rnd x == rnd y.

Notation ld := (ld K).
Notation op := (op K).
Notation wread := (wread K).
Notation abs := (abs K).
Notation ldf_step := (ldf_step K Keqb rnd).
Notation ldf_run := (ldf_run K Keqb rnd).
Notation sp_step := (sp_step K Keqb).

Let upd_spec := ldf_update_spec K Keqb Keqb_spec rnd eps eps_le1 rnd_err.
Let rem_spec := ldf_remove_spec K Keqb Keqb_spec rnd.
Let step_spec := ldf_step_spec K Keqb Keqb_spec rnd eps eps_nonneg eps_le1 rnd_err.

(* representable: left alone by the rounding *)
Definition rep (x : Q) : Prop := rnd x == x.
Definition op_rep (o : op) : Prop :=
  match o with OpInsert _ w => rep w | OpUpdate _ d => rep d | _ => True end.
(* an increment that creates its key (all increments of the simulators are of this kind) *)
Definition op_fresh (m : wmap K) (o : op) : Prop :=
  match o with OpUpdate k _ => m k = None | _ => True end.
Fixpoint hist_fresh (m : wmap K) (ops : list op) : Prop :=
  match ops with
  | [] => True
  | o :: r => op_fresh m o /\ hist_fresh (sp_step m o) r
  end.

Lemma rnd_rep_add0 : forall q, rep q -> fadd rnd 0 q == q.
Proof.
  intros q Hq. unfold fadd. rewrite (rnd_proper (0 + q) q) by ring. exact Hq.
Qed.

Lemma abs_in : forall s x, ldf_inv K s -> weighted s = true -> In x (items s) ->
  abs s x = Some (wread s x).
Proof.
  intros s x Hinv Hw Hin. rewrite abs_unfold, Hw.
  apply (pos_in K _ _ (finv_pos K s Hinv)) in Hin.
  destruct (pos s x); [reflexivity|contradiction Hin; reflexivity].
Qed.

Lemma abs_notin : forall s x, ldf_inv K s -> ~ In x (items s) -> abs s x = None.
Proof.
  intros s x Hinv Hn. rewrite abs_unfold. destruct (pos s x) as [i|] eqn:E; [|reflexivity].
  exfalso. apply Hn. apply (pos_in K _ _ (finv_pos K s Hinv)). congruence.
Qed.

Lemma abs_none_notin : forall s x, ldf_inv K s -> weighted s = true -> abs s x = None ->
  ~ In x (items s).
Proof.
  intros s x Hinv Hw Ha Hin. rewrite (abs_in s x Hinv Hw Hin) in Ha. discriminate Ha.
Qed.

Lemma oQeq_none_r : forall a, oQeq a None -> a = None.
Proof. intros [a|] H; [destruct H|reflexivity]. Qed.

(* ---------- what one operation stores ---------- *)
(* the removal stage of insert *)
Lemma insert_stage1 : forall s k, ldf_inv K s -> weighted s = true ->
  exists s1, (if contains K s k then ldf_remove K Keqb rnd s k else Ok s) = Ok s1 /\
    ldf_inv K s1 /\ weighted s1 = true /\
    (forall x, wread s1 x = if Keqb x k then 0 else wread s x) /\
    (forall x, In x (items s1) <-> In x (items s) /\ x <> k).
Proof.
  intros s k Hinv Hw. destruct (contains K s k) eqn:Hc.
  - destruct (rem_spec s k Hinv Hw) as [[Hp _]|[_ [s1 [He [Hi [Hw1 [_ [_ [Hwr Hm]]]]]]]]].
    + destruct (contains_pos_some K s k Hc) as [i Hi]. congruence.
    + exists s1. split; [exact He|]. split; [exact Hi|]. split; [exact Hw1|]. split; assumption.
  - assert (Hn : ~ In k (items s)) by (apply (fcontains_false K s k Hinv); exact Hc).
    exists s. split; [reflexivity|]. split; [exact Hinv|]. split; [exact Hw|]. split.
    + intro x. destruct (Keqb_spec x k) as [E|E]; [|reflexivity]. subst x.
      apply (fwread_notin K s k Hinv Hw Hn).
    + intro x. split; [|tauto]. intro H. split; [exact H|]. intro E. subst x. contradiction.
Qed.

Lemma ldf_insert_stores : forall s k q s', ldf_inv K s -> weighted s = true -> 0 <= q ->
  rep q -> ldf_step s (OpInsert k q) = Ok s' ->
  (Qeqb q 0 = true -> ~ In k (items s')) /\
  (Qeqb q 0 = false -> In k (items s') /\ wread s' k == q) /\
  (forall x, x <> k -> wread s' x = wread s x /\ (In x (items s') <-> In x (items s))).
Proof.
  intros s k q s' Hinv Hw Hq Hr He. cbn [ListDictF.ldf_step] in He. unfold ListDictF.ldf_insert in He.
  destruct (insert_stage1 s k Hinv Hw) as [s1 [E1 [Hi1 [Hw1 [Hwr1 Hm1]]]]].
  rewrite E1 in He. cbn [rbind] in He.
  destruct (Qeqb q 0) eqn:Hq0.
  - injection He as He. subst s'. split; [|split].
    + intros _ H. apply Hm1 in H. destruct H as [_ H]. apply H. reflexivity.
    + intro H. discriminate H.
    + intros x Hx. split.
      * rewrite Hwr1. rewrite (Keqb_neq K Keqb Keqb_spec x k Hx). reflexivity.
      * rewrite Hm1. tauto.
  - destruct (upd_spec s1 k q Hi1 Hw1 Hq) as [s2 [E2 [_ [_ [_ [_ [Hwr2 Hm2]]]]]]].
    rewrite E2 in He. injection He as He. subst s'. split; [|split].
    + intro H. discriminate H.
    + intros _. split; [apply Hm2; right; reflexivity|].
      rewrite Hwr2, (Keqb_refl K Keqb Keqb_spec), Hwr1, (Keqb_refl K Keqb Keqb_spec).
      apply rnd_rep_add0. exact Hr.
    + intros x Hx. split.
      * rewrite Hwr2, (Keqb_neq K Keqb Keqb_spec x k Hx), Hwr1,
          (Keqb_neq K Keqb Keqb_spec x k Hx). reflexivity.
      * rewrite Hm2, Hm1. split; [intros [[H _]|H]; [exact H|contradiction]|].
        intro H. left. split; assumption.
Qed.

Lemma ldf_update_stores : forall s k d s', ldf_inv K s -> weighted s = true -> 0 <= d ->
  ldf_step s (OpUpdate k d) = Ok s' ->
  In k (items s') /\
  wread s' k = fadd rnd (wread s k) d /\
  Qabs (wread s' k - (wread s k + d)) <= eps * (wread s k + d) /\
  (~ In k (items s) -> rep d -> wread s' k == d) /\
  (forall x, x <> k -> wread s' x = wread s x /\ (In x (items s') <-> In x (items s))).
Proof.
  intros s k d s' Hinv Hw Hd He. cbn [ListDictF.ldf_step] in He.
  destruct (upd_spec s k d Hinv Hw Hd) as [s2 [E2 [_ [_ [_ [_ [Hwr2 Hm2]]]]]]].
  rewrite E2 in He. injection He as He. subst s'.
  pose proof (fwread_nonneg K s k Hinv Hw) as Hw0.
  assert (Ek : wread s2 k = fadd rnd (wread s k) d).
  { rewrite Hwr2, (Keqb_refl K Keqb Keqb_spec). reflexivity. }
  split; [apply Hm2; right; reflexivity|]. split; [exact Ek|]. split; [|split].
  - rewrite Ek. unfold fadd. eapply Qle_trans; [apply rnd_err|].
    rewrite Qabs_pos by lra. lra.
  - intros Hn Hr. rewrite Ek, (fwread_notin K s k Hinv Hw Hn). apply rnd_rep_add0. exact Hr.
  - intros x Hx. split.
    + rewrite Hwr2, (Keqb_neq K Keqb Keqb_spec x k Hx). reflexivity.
    + rewrite Hm2. split; [intros [H|H]; [exact H|contradiction]|]. intro H. left. exact H.
Qed.

Lemma ldf_remove_stores : forall s k s', ldf_inv K s -> weighted s = true ->
  ldf_step s (OpRemove k) = Ok s' ->
  ~ In k (items s') /\
  (forall x, x <> k -> wread s' x = wread s x /\ (In x (items s') <-> In x (items s))).
Proof.
  intros s k s' Hinv Hw He. cbn [ListDictF.ldf_step] in He.
  destruct (rem_spec s k Hinv Hw) as [[_ E]|[_ [s1 [E [_ [_ [_ [_ [Hwr Hm]]]]]]]]];
    rewrite E in He; [discriminate He|].
  injection He as He. subst s'. split.
  - intro H. apply Hm in H. destruct H as [_ H]. apply H. reflexivity.
  - intros x Hx. split.
    + rewrite Hwr, (Keqb_neq K Keqb Keqb_spec x k Hx). reflexivity.
    + rewrite Hm. tauto.
Qed.

(* ---------- refinement of the finite map, exactly, when increments create their key ---------- *)
Lemma in_items_dec : forall s x, ldf_inv K s -> In x (items s) \/ ~ In x (items s).
Proof.
  intros s x Hinv. destruct (contains K s x) eqn:Hc.
  - left. apply (fcontains_true K s x Hinv). exact Hc.
  - right. apply (fcontains_false K s x Hinv). exact Hc.
Qed.

Lemma abs_other : forall s s' x, ldf_inv K s -> ldf_inv K s' -> weighted s = true ->
  weighted s' = true -> wread s' x = wread s x -> (In x (items s') <-> In x (items s)) ->
  abs s' x = abs s x.
Proof.
  intros s s' x Hi Hi' Hw Hw' Hwr Hm.
  destruct (in_items_dec s x Hi) as [Hin|Hn].
  - rewrite (abs_in s x Hi Hw Hin), (abs_in s' x Hi' Hw' (proj2 Hm Hin)), Hwr. reflexivity.
  - rewrite (abs_notin s x Hi Hn). apply abs_notin; [exact Hi'|]. intro H. apply Hn. apply Hm. exact H.
Qed.

Lemma ldf_step_refines_fresh : forall s o s' (m : wmap K),
  ldf_inv K s -> weighted s = true -> op_ok K true o -> op_rep o -> op_fresh m o ->
  (forall x, oQeq (abs s x) (m x)) -> ldf_step s o = Ok s' ->
  forall x, oQeq (abs s' x) (sp_step m o x).
Proof.
  intros s o s' m Hinv Hw Hok Hrep Hfr Hm He x.
  destruct (step_spec s o Hinv Hw Hok) as [[k [_ [_ E]]]|[s1 [E [Hi' [Hw' _]]]]]; [congruence|].
  assert (s1 = s') by congruence. subst s1. clear E.
  destruct o as [k q|k d|k|k]; cbn [op_ok op_rep op_fresh] in *; cbn [ListDict.sp_step].
  - destruct Hok as [_ Hq].
    destruct (ldf_insert_stores s k q s' Hinv Hw Hq Hrep He) as [H0 [H1 Ho]].
    unfold ListDict.sp_insert, ListDict.sp_remove, ListDict.fupd.
    destruct (Keqb_spec x k) as [Ex|Ex].
    + subst x. destruct (Qeqb q 0) eqn:Hq0.
      * rewrite (Keqb_refl K Keqb Keqb_spec). rewrite (abs_notin s' k Hi' (H0 eq_refl)). exact I.
      * rewrite (Keqb_refl K Keqb Keqb_spec). destruct (H1 eq_refl) as [Hin Hwk].
        rewrite (abs_in s' k Hi' Hw' Hin). exact Hwk.
    + destruct (Ho x Ex) as [Hwr Hmm].
      rewrite (abs_other s s' x Hinv Hi' Hw Hw' Hwr Hmm).
      destruct (Qeqb q 0); rewrite (Keqb_neq K Keqb Keqb_spec x k Ex); apply Hm.
  - destruct Hok as [_ Hd].
    destruct (ldf_update_stores s k d s' Hinv Hw Hd He) as [Hin [_ [_ [Hfresh Ho]]]].
    unfold ListDict.sp_update, ListDict.fupd.
    destruct (Keqb_spec x k) as [Ex|Ex].
    + subst x. rewrite Hfr. rewrite (abs_in s' k Hi' Hw' Hin). cbn [oQeq].
      apply Hfresh; [|exact Hrep].
      apply (abs_none_notin s k Hinv Hw). apply oQeq_none_r. rewrite <- Hfr. apply Hm.
    + destruct (Ho x Ex) as [Hwr Hmm].
      rewrite (abs_other s s' x Hinv Hi' Hw Hw' Hwr Hmm). apply Hm.
  - destruct (ldf_remove_stores s k s' Hinv Hw He) as [Hn Ho].
    unfold ListDict.sp_remove, ListDict.fupd.
    destruct (Keqb_spec x k) as [Ex|Ex].
    + subst x. rewrite (abs_notin s' k Hi' Hn). exact I.
    + destruct (Ho x Ex) as [Hwr Hmm].
      rewrite (abs_other s s' x Hinv Hi' Hw Hw' Hwr Hmm). apply Hm.
  - discriminate Hok.
Qed.

Lemma ldf_run_refines_fresh : forall ops s s' (m : wmap K),
  ldf_inv K s -> weighted s = true ->
  Forall (op_ok K true) ops -> Forall op_rep ops -> hist_fresh m ops ->
  (forall x, oQeq (abs s x) (m x)) -> ldf_run s ops = Ok s' ->
  forall x, oQeq (abs s' x) (fold_left sp_step ops m x).
Proof.
  induction ops as [|o ops IH]; intros s s' m Hinv Hw Hok Hrep Hfr Hm He.
  - cbn [ListDictF.ldf_run] in He. injection He as He. subst s'. exact Hm.
  - cbn [ListDictF.ldf_run] in He. inversion Hok as [|o' ops' Ho Hops]; subst o' ops'.
    inversion Hrep as [|o' ops' Hro Hrops]; subst o' ops'. destruct Hfr as [Hf Hfs].
    destruct (step_spec s o Hinv Hw Ho) as [[k [_ [_ E]]]|[s1 [E [Hi1 [Hw1 _]]]]];
      rewrite E in He; cbn [rbind] in He; [discriminate He|].
    cbn [fold_left]. apply (IH s1 s' (sp_step m o) Hi1 Hw1 Hops Hrops Hfs); [|exact He].
    apply (ldf_step_refines_fresh s o s1 m Hinv Hw Ho Hro Hf Hm E).
Qed.

Theorem ldf_refines_fresh : forall ops s,
  Forall (op_ok K true) ops -> Forall op_rep ops -> hist_fresh (sp_empty K) ops ->
  ldf_run (ld_empty true) ops = Ok s ->
  forall x, oQeq (abs s x) (fold_left sp_step ops (sp_empty K) x).
Proof.
  intros ops s Hok Hrep Hfr He.
  apply (ldf_run_refines_fresh ops (ld_empty true) s (sp_empty K) (ldf_empty_inv K true)
           eq_refl Hok Hrep Hfr); [|exact He].
  intro x. exact I.
Qed.


(* ---------- general histories: stored weight vs specification weight ---------- *)
(* every increment on a present key adds one rounding: after j increments in the history
   a stored weight is within [(1-eps)^j, (1+eps)^j] of the specification's weight *)
Definition wrel (j : nat) (a b : option Q) : Prop :=
  match a, b with
  | None, None => True
  | Some wf, Some ws => 0 <= ws /\ qpow (1 - eps) j * ws <= wf /\ wf <= g eps j * ws
  | _, _ => False
  end.

Definition count_upd (ops : list op) : nat :=
  length (filter (fun o => match o with OpUpdate _ _ => true | _ => false end) ops).

Lemma lowpow_01 : forall j, 0 <= qpow (1 - eps) j /\ qpow (1 - eps) j <= 1.
Proof. intro j. apply qpow_01; lra. Qed.

Lemma wrel_mono : forall j a b, wrel j a b -> wrel (S j) a b.
Proof.
  intros j [wf|] [ws|] H; cbn [wrel] in *; try exact H.
  destruct H as [H0 [H1 H2]]. split; [exact H0|].
  destruct (lowpow_01 j) as [La Lb]. pose proof (g_ge1 eps eps_nonneg j) as Hg.
  cbn [qpow]. rewrite g_S. split.
  - assert (Ha : (1 - eps) * (qpow (1 - eps) j * ws) <= 1 * (qpow (1 - eps) j * ws)).
    { apply Qmult_le_compat_r; [lra|]. apply Qmult_le_0_compat; assumption. }
    rewrite <- Qmult_assoc. lra.
  - assert (Ha : 1 * (g eps j * ws) <= (1 + eps) * (g eps j * ws)).
    { apply Qmult_le_compat_r; [lra|]. apply Qmult_le_0_compat; lra. }
    rewrite <- Qmult_assoc. lra.
Qed.

Lemma wrel_exact : forall wf ws, 0 <= ws -> wf == ws -> wrel 0 (Some wf) (Some ws).
Proof.
  intros wf ws H0 E. cbn [wrel]. split; [exact H0|]. unfold g. cbn [qpow]. split; lra.
Qed.

Lemma wrel_le : forall j j' a b, (j <= j')%nat -> wrel j a b -> wrel j' a b.
Proof.
  intros j j' a b Hj H. induction Hj as [|j' Hj IH]; [exact H|]. apply wrel_mono. exact IH.
Qed.

Lemma wrel_none_r : forall j a, wrel j a None -> a = None.
Proof. intros j [a|] H; [destruct H|reflexivity]. Qed.

Lemma ldf_step_wrel : forall s o s' (m : wmap K) j,
  ldf_inv K s -> weighted s = true -> op_ok K true o -> op_rep o ->
  (forall x, wrel j (abs s x) (m x)) -> ldf_step s o = Ok s' ->
  forall x, wrel (j + count_upd [o]) (abs s' x) (sp_step m o x).
Proof.
  intros s o s' m j Hinv Hw Hok Hrep Hm He x.
  destruct (step_spec s o Hinv Hw Hok) as [[k [_ [_ E]]]|[s1 [E [Hi' [Hw' _]]]]]; [congruence|].
  assert (s1 = s') by congruence. subst s1. clear E.
  destruct o as [k q|k d|k|k]; cbn [op_ok op_rep] in *; cbn [ListDict.sp_step];
    unfold count_upd; cbn [filter length]; rewrite ?Nat.add_0_r.
  - destruct Hok as [_ Hq].
    destruct (ldf_insert_stores s k q s' Hinv Hw Hq Hrep He) as [H0 [H1 Ho]].
    unfold ListDict.sp_insert, ListDict.sp_remove, ListDict.fupd.
    destruct (Keqb_spec x k) as [Ex|Ex].
    + subst x. destruct (Qeqb q 0) eqn:Hq0; rewrite (Keqb_refl K Keqb Keqb_spec).
      * rewrite (abs_notin s' k Hi' (H0 eq_refl)). exact I.
      * destruct (H1 eq_refl) as [Hin Hwk]. rewrite (abs_in s' k Hi' Hw' Hin).
        apply (wrel_le 0 j); [lia|]. apply wrel_exact; assumption.
    + destruct (Ho x Ex) as [Hwr Hmm].
      rewrite (abs_other s s' x Hinv Hi' Hw Hw' Hwr Hmm).
      destruct (Qeqb q 0); rewrite (Keqb_neq K Keqb Keqb_spec x k Ex); apply Hm.
  - destruct Hok as [_ Hd].
    destruct (ldf_update_stores s k d s' Hinv Hw Hd He) as [Hin [Ek [_ [Hfresh Ho]]]].
    unfold ListDict.sp_update, ListDict.fupd.
    destruct (Keqb_spec x k) as [Ex|Ex].
    + subst x. rewrite (abs_in s' k Hi' Hw' Hin). pose proof (Hm k) as Hk.
      destruct (m k) as [ws|] eqn:Emk.
      * (* present: one more rounding *)
        destruct (in_items_dec s k Hinv) as [Hink|Hn];
          [|rewrite (abs_notin s k Hinv Hn) in Hk; destruct Hk].
        rewrite (abs_in s k Hinv Hw Hink) in Hk. cbn [wrel] in Hk. destruct Hk as [H0 [H1 H2]].
        pose proof (fwread_nonneg K s k Hinv Hw) as Hw0.
        destruct (lowpow_01 j) as [La Lb]. pose proof (g_ge1 eps eps_nonneg j) as Hg.
        replace (j + 1)%nat with (S j) by lia. cbn [wrel]. split; [lra|].
        rewrite Ek. unfold fadd. cbn [qpow]. rewrite g_S.
        pose proof (rnd_ge rnd eps rnd_err (wread s k + d) ltac:(lra)) as R1.
        pose proof (rnd_le rnd eps rnd_err (wread s k + d) ltac:(lra)) as R2.
        split.
        -- assert (A1 : qpow (1 - eps) j * d <= 1 * d) by (apply Qmult_le_compat_r; assumption).
           assert (A2 : (1 - eps) * (qpow (1 - eps) j * (ws + d)) <= (1 - eps) * (wread s k + d))
             by (apply Qmult_le_nonneg_l; lra).
           rewrite <- Qmult_assoc. lra.
        -- assert (A1 : 1 * d <= g eps j * d) by (apply Qmult_le_compat_r; assumption).
           assert (A2 : (1 + eps) * (wread s k + d) <= (1 + eps) * (g eps j * (ws + d)))
             by (apply Qmult_le_nonneg_l; lra).
           rewrite <- Qmult_assoc. lra.
      * (* the increment creates the key: stored exactly *)
        apply (wrel_le 0 (j + 1)); [lia|]. apply wrel_exact; [exact Hd|].
        apply Hfresh; [|exact Hrep].
        apply (abs_none_notin s k Hinv Hw). apply (wrel_none_r j). exact Hk.
    + destruct (Ho x Ex) as [Hwr Hmm].
      rewrite (abs_other s s' x Hinv Hi' Hw Hw' Hwr Hmm).
      apply (wrel_le j (j + 1)); [lia|]. apply Hm.
  - destruct (ldf_remove_stores s k s' Hinv Hw He) as [Hn Ho].
    unfold ListDict.sp_remove, ListDict.fupd.
    destruct (Keqb_spec x k) as [Ex|Ex].
    + subst x. rewrite (abs_notin s' k Hi' Hn). exact I.
    + destruct (Ho x Ex) as [Hwr Hmm].
      rewrite (abs_other s s' x Hinv Hi' Hw Hw' Hwr Hmm). apply Hm.
  - discriminate Hok.
Qed.

Lemma ldf_run_wrel : forall ops s s' (m : wmap K) j,
  ldf_inv K s -> weighted s = true ->
  Forall (op_ok K true) ops -> Forall op_rep ops ->
  (forall x, wrel j (abs s x) (m x)) -> ldf_run s ops = Ok s' ->
  forall x, wrel (j + count_upd ops) (abs s' x) (fold_left sp_step ops m x).
Proof.
  induction ops as [|o ops IH]; intros s s' m j Hinv Hw Hok Hrep Hm He.
  - cbn [ListDictF.ldf_run] in He. injection He as He. subst s'.
    unfold count_upd. cbn [filter length]. rewrite Nat.add_0_r. exact Hm.
  - cbn [ListDictF.ldf_run] in He. inversion Hok as [|o' ops' Ho Hops]; subst o' ops'.
    inversion Hrep as [|o' ops' Hro Hrops]; subst o' ops'.
    destruct (step_spec s o Hinv Hw Ho) as [[k [_ [_ E]]]|[s1 [E [Hi1 [Hw1 _]]]]];
      rewrite E in He; cbn [rbind] in He; [discriminate He|].
    cbn [fold_left].
    assert (Ec : (j + count_upd (o :: ops))%nat = (j + count_upd [o] + count_upd ops)%nat).
    { unfold count_upd. cbn [filter]. destruct o; cbn [length]; lia. }
    rewrite Ec. apply (IH s1 s' (sp_step m o) (j + count_upd [o])%nat Hi1 Hw1 Hops Hrops); [|exact He].
    apply (ldf_step_wrel s o s1 m j Hinv Hw Ho Hro Hm E).
Qed.

Theorem ldf_weights_relative : forall ops s,
  Forall (op_ok K true) ops -> Forall op_rep ops ->
  ldf_run (ld_empty true) ops = Ok s ->
  forall x, wrel (count_upd ops) (abs s x) (fold_left sp_step ops (sp_empty K) x).
Proof.
  intros ops s Hok Hrep He.
  apply (ldf_run_wrel ops (ld_empty true) s (sp_empty K) 0 (ldf_empty_inv K true)
           eq_refl Hok Hrep); [|exact He].
  intro x. exact I.
Qed.

End FP2.
