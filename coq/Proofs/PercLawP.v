(* percolation_based_discrete_SIR and basic_discrete_SIR have the same law of rows on an
   undirected graph (return_full_data = False).
   percolation side: perc_loop over gedges g IS the product experiment (perc_expect), then
     discrete_SIR on H = perc_graph g kept with the rule H.has_edge = BFS generations on H;
   basic side: one coin per undirected edge suffices (DiscreteLawUP.dsir_law_expect_k with the
     key "the orientation of {u,v} listed in gedges g"), then BFS generations on g with the
     table "the coin of {u,v} came up";
   the two generation sequences coincide for every kept sub-list of gedges g. *)
From EoNV Require Import Prelude Samp Graph Discrete DiscreteP DiscreteO DiscreteOP DeferredP DeferredKP DiscreteLawP DiscreteLawUP.
From Coq Require Import Permutation Lqa.

Lemma seqv_bind_assoc : forall A B C (m : samp A) (f : A -> samp B) (h : B -> samp C),
  seqv (bind (bind m f) h) (bind m (fun a => bind (f a) h)).
Proof.
  intros A B C m f h. induction m; cbn [bind]; try (constructor; auto).
  apply seqv_refl.
Qed.

(* ---- list(G.edges()) of an undirected graph ---- *)
Lemma edges_from_notseen : forall g nodes seen a b, In (a, b) (edges_from g nodes seen) -> ~ In b seen.
Proof.
  intros g nodes. induction nodes as [|x r IH]; intros seen a b H; [destruct H|].
  cbn [edges_from] in H. apply in_app_or in H. destruct H as [H|H].
  - apply in_map_iff in H. destruct H as [w [E Hw]]. injection E as E1 E2. subst x w.
    apply filter_In in Hw. destruct Hw as [_ Hw]. apply negb_true_iff in Hw. apply dmem_false. exact Hw.
  - apply IH in H. intro Hb. apply H. right. exact Hb.
Qed.

Lemma edges_from_antisym : forall g nodes seen a b,
  In (a, b) (edges_from g nodes seen) -> In (b, a) (edges_from g nodes seen) -> a = b.
Proof.
  intros g nodes. induction nodes as [|x r IH]; intros seen a b H1 H2; [destruct H1|].
  cbn [edges_from] in H1, H2. apply in_app_or in H1. apply in_app_or in H2.
  destruct H1 as [H1|H1], H2 as [H2|H2].
  - apply in_map_iff in H1. destruct H1 as [w [E _]]. injection E as E1 E2.
    apply in_map_iff in H2. destruct H2 as [w' [E' _]]. injection E' as E1' E2'. congruence.
  - apply in_map_iff in H1. destruct H1 as [w [E _]]. injection E as E1 E2. subst x.
    apply edges_from_notseen in H2. exfalso. apply H2. left. reflexivity.
  - apply in_map_iff in H2. destruct H2 as [w [E _]]. injection E as E1 E2. subst x.
    apply edges_from_notseen in H1. exfalso. apply H1. left. reflexivity.
  - apply (IH (x :: seen)); assumption.
Qed.

Lemma edges_from_NoDup : forall g nodes seen, NoDup nodes -> (forall u, In u nodes -> NoDup (gadj g u)) ->
  NoDup (edges_from g nodes seen).
Proof.
  intros g nodes. induction nodes as [|x r IH]; intros seen Hn Ha; [constructor|].
  inversion Hn as [|y l Hx Hn']; subst. cbn [edges_from]. apply NoDup_app_gen.
  - apply NoDup_map_pair. apply NoDup_filter. apply Ha. left. reflexivity.
  - apply IH; [exact Hn'|]. intros u Hu. apply Ha. right. exact Hu.
  - intros [a b] H1 H2. apply in_map_iff in H1. destruct H1 as [w [E _]]. injection E as E1 E2. subst a.
    apply edges_from_sound in H2. apply Hx. apply H2.
Qed.

(* the key of the contact (u, v): the orientation of {u, v} that gedges lists *)
Definition ukey (g : graph) (u v : node) : arc := if meme (u, v) (gedges g) then (u, v) else (v, u).

Lemma ukey_cases : forall g u v, ukey g u v = (u, v) \/ ukey g u v = (v, u).
Proof. intros g u v. unfold ukey. destruct (meme (u, v) (gedges g)); [left|right]; reflexivity. Qed.

(* ---- two (graph, table) pairs with the same hits have the same generations ---- *)
Section Transfer.
Variables g h : graph.
Variables tt th : node -> node -> nat -> bool.
Variables i0 r0 : list node.
Variable tmin : Q.
Variable tmax : xtime.
Hypothesis Hn : gnodes h = gnodes g.
Hypothesis Hhit : forall I v, (forall u, In u I -> In u (gnodes g)) -> hit h (T0 th) I v = hit g (T0 tt) I v.

Lemma gen_tr : forall k, gen h (T0 th) i0 r0 k = gen g (T0 tt) i0 r0 k.
Proof.
  induction k as [|k IH].
  - cbn [gen]. unfold gen0, canon. rewrite Hn. reflexivity.
  - cbn [gen]. rewrite IH. unfold gen_next.
    assert (E : filter (hit h (T0 th) (snd (gen g (T0 tt) i0 r0 k))) (fst (gen g (T0 tt) i0 r0 k)) =
                filter (hit g (T0 tt) (snd (gen g (T0 tt) i0 r0 k))) (fst (gen g (T0 tt) i0 r0 k))).
    { apply filter_ext_in. intros v Hv. apply Hhit. intros u Hu. apply (Ig_sub g (T0 tt) i0 r0 k). exact Hu. }
    rewrite E. reflexivity.
Qed.

Lemma Sg_tr : forall k, Sg h (T0 th) i0 r0 k = Sg g (T0 tt) i0 r0 k.
Proof. intro k. unfold Sg. rewrite gen_tr. reflexivity. Qed.
Lemma Ig_tr : forall k, Ig h (T0 th) i0 r0 k = Ig g (T0 tt) i0 r0 k.
Proof. intro k. unfold Ig. rewrite gen_tr. reflexivity. Qed.
Lemma Rg_tr : forall k, Rg h th i0 r0 k = Rg g tt i0 r0 k.
Proof. induction k as [|k IH]; [reflexivity|]. cbn [Rg]. rewrite IH, Ig_tr. reflexivity. Qed.
Lemma rows_tr : forall K, rows_to h th i0 r0 tmin K = rows_to g tt i0 r0 tmin K.
Proof.
  induction K as [|K IH].
  - cbn [rows_to]. unfold order. rewrite Hn. reflexivity.
  - cbn [rows_to]. rewrite IH, Sg_tr, Ig_tr, (Rg_tr (S K)). reflexivity.
Qed.
Lemma stop_tr : forall k, stop h th i0 r0 tmin tmax k = stop g tt i0 r0 tmin tmax k.
Proof. intro k. unfold stop. rewrite Ig_tr. reflexivity. Qed.
Lemma first_stop_tr : forall K, first_stop h th i0 r0 tmin tmax K -> first_stop g tt i0 r0 tmin tmax K.
Proof.
  intros K [H1 H2]. split.
  - intros j Hj. rewrite <- stop_tr. apply H1. exact Hj.
  - rewrite <- stop_tr. exact H2.
Qed.
End Transfer.

Section PercLaw.
Variable g : graph.
Variables i0 : list node.
Variable r0o : option (list node).
Variable tmin : Q.
Variable tmax : xtime.
Hypothesis Hundir : gdirected g = false.
Hypothesis Hnd : NoDup (gnodes g).
Hypothesis Hadjnd : forall u, In u (gnodes g) -> NoDup (gadj g u).
Hypothesis Hadj : forall u v, In u (gnodes g) -> In v (gadj g u) -> In v (gnodes g).
Hypothesis Hsym : forall u v, In u (gnodes g) -> In v (gadj g u) -> In u (gadj g v).
Let r0 := opt_list r0o.
Hypothesis Hi0 : forall v, In v i0 -> In v (gnodes g).
Hypothesis Hr0 : forall v, In v r0 -> In v (gnodes g).
Hypothesis Hi0nd : NoDup i0.
Hypothesis Hr0nd : NoDup r0.
Hypothesis Hdisj : forall v, In v i0 -> ~ In v r0.

Lemma gedges_eq : gedges g = edges_from g (gnodes g) [].
Proof. unfold gedges. rewrite Hundir. reflexivity. Qed.

Lemma gedges_NoDup : NoDup (gedges g).
Proof. rewrite gedges_eq. apply edges_from_NoDup; assumption. Qed.

Lemma gedges_sound : forall a b, In (a, b) (gedges g) -> In a (gnodes g) /\ In b (gadj g a).
Proof. intros a b H. rewrite gedges_eq in H. apply edges_from_sound in H. exact H. Qed.

Lemma ukey_in : forall u v, In u (gnodes g) -> In v (gadj g u) -> In (ukey g u v) (gedges g).
Proof.
  intros u v Hu Hv. unfold ukey. destruct (meme (u, v) (gedges g)) eqn:E; [apply meme_In; exact E|].
  apply meme_false in E. rewrite gedges_eq in *.
  destruct (edges_from_complete g (gnodes g) [] u v Hu Hv (Hsym u v Hu Hv)) as [H|H]; try (intros []).
  - contradiction.
  - exact H.
Qed.

Section Kept.
Variable kept : list arc.
Hypothesis Hk : incl kept (gedges g).

Definition Hp : graph := perc_graph g kept.
Definition ttHp (u v : node) (_ : nat) : bool := edge_exists Hp u v.
Definition tts (u v : node) (_ : nat) : bool := tblk (ukey g) kept u v.

Lemma padj_key : forall u v, In u (gnodes g) ->
  mem v (perc_adj kept u) = mem v (gadj g u) && meme (ukey g u v) kept.
Proof.
  intros u v Hu. apply Bool.eq_iff_eq_true. rewrite andb_true_iff, !dmem_In, meme_In, perc_adj_In. split.
  - intros [H|H].
    + pose proof (Hk _ H) as Hg. split; [apply (gedges_sound u v Hg)|].
      unfold ukey. apply meme_In in Hg. rewrite Hg. exact H.
    + pose proof (Hk _ H) as Hg. destruct (gedges_sound v u Hg) as [Hv Huv]. split; [apply (Hsym v u Hv Huv)|].
      unfold ukey. destruct (meme (u, v) (gedges g)) eqn:E; [|exact H].
      apply meme_In in E. rewrite gedges_eq in E, Hg.
      rewrite (edges_from_antisym g (gnodes g) [] u v E Hg) in *. exact H.
  - intros [_ H]. destruct (ukey_cases g u v) as [E|E]; rewrite E in H; [left|right]; exact H.
Qed.

Lemma hit_Hp : forall I v, (forall u, In u I -> In u (gnodes g)) ->
  hit Hp (T0 ttHp) I v = hit g (T0 tts) I v.
Proof.
  intros I v HI. unfold hit. induction I as [|u I IH]; [reflexivity|].
  cbn [existsb]. rewrite IH by (intros x Hx; apply HI; right; exact Hx). f_equal.
  unfold T0, ttHp, tts, edge_exists, tblk. cbn [Hp perc_graph gadj].
  rewrite (padj_key u v (HI u (or_introl eq_refl))).
  destruct (mem v (gadj g u)), (meme (ukey g u v) kept); reflexivity.
Qed.

Lemma Hp_adj_sub : forall u v, In u (gnodes Hp) -> In v (gadj Hp u) -> In v (gnodes Hp).
Proof.
  intros u v Hu Hv. change (gnodes Hp) with (gnodes g) in *. cbn [Hp perc_graph gadj] in Hv.
  apply perc_adj_In in Hv. destruct Hv as [H|H]; apply Hk in H; apply gedges_sound in H.
  - apply Hadj with u; apply H.
  - apply H.
Qed.

(* both deterministic runs return the rows of the same generation sequence *)
Lemma kept_rows : forall ord1 ord2 fuel1 fuel2 (R : rules) ql (F : list row -> bool),
  perm_oracle ord1 -> perm_oracle ord2 ->
  (length (gnodes g) < fuel1)%nat -> (length (gnodes g) < fuel2)%nat ->
  prob (fun o => F (so_rows (o_sim o)))
    (law (discrete_SIR g (table_rules (tblk (ukey g) kept)) None ord1 (Some i0) r0o None tmin tmax false fuel1)) ==
  prob (fun o => F (so_rows (o_sim o)))
    (law (bind (discrete_SIR Hp (has_edge_rules Hp R) None ord2 (Some i0) r0o None tmin tmax false fuel2)
               (fun o => Ret (add_qlog ql o)))).
Proof.
  intros ord1 ord2 fuel1 fuel2 R ql F H1 H2 Hf1 Hf2.
  destruct (dsir_from_l1 g tts (fun _ _ => O) false i0 r0 tmin tmax Hnd Hadj Hi0 Hr0 Hi0nd Hr0nd Hdisj ord1 H1 fuel1 Hf1)
    as [K1 [o1 [Hs1 [Hr1 [Hrows1 _]]]]].
  destruct (dsir_from_l1 Hp ttHp (fun _ _ => O) false i0 r0 tmin tmax Hnd Hp_adj_sub Hi0 Hr0 Hi0nd Hr0nd Hdisj ord2 H2 fuel2 Hf2)
    as [K2 [o2 [Hs2 [Hr2 [Hrows2 _]]]]].
  assert (E : K1 = K2).
  { apply (first_stop_unique g tts i0 r0 tmin tmax); [exact Hs1|].
    apply (first_stop_tr g Hp tts ttHp i0 r0 tmin tmax eq_refl hit_Hp). exact Hs2. }
  subst K2.
  (* left *)
  unfold discrete_SIR. cbn [with_initial]. fold r0.
  rewrite <- (law_seqv _ _ _ (eager_dloop_table g ord1 tmin tmax false (tblk (ukey g) kept) i0 r0 fuel1 O tmin _)).
  rewrite (law_seqv _ _ _ (eager_dloop_det g ord1 tmin tmax (tblk (ukey g) kept) (fun _ _ => O) i0 r0 fuel1 O tmin _)).
  change (det_rules (fun u v _ => tblk (ukey g) kept u v) (fun _ _ => O)) with (det_rules tts (fun _ _ => O)).
  rewrite Hr1, prob_ret.
  (* right *)
  assert (S2 : seqv (dloop Hp (has_edge_rules Hp R) None ord2 tmin tmax false i0 r0 fuel2 O tmin (init_state Hp tmin false i0 r0))
                    (Ret o2)).
  { eapply seqv_trans.
    - apply seqv_sym. apply (eager_dloop Hp ord2 tmin tmax false (edge_exists Hp) (has_edge_rules Hp R)); [reflexivity|discriminate].
    - eapply seqv_trans; [apply (eager_dloop_det Hp ord2 tmin tmax (edge_exists Hp) (fun _ _ => O))|].
      change (det_rules (fun u v _ => edge_exists Hp u v) (fun _ _ => O)) with (det_rules ttHp (fun _ _ => O)).
      rewrite Hr2. apply seqv_refl. }
  rewrite (law_seqv _ _ _ (seqv_bind _ _ _ _ _ (fun o => Ret (add_qlog ql o)) S2 (fun a => seqv_refl _ _))).
  cbn [bind]. rewrite prob_ret. cbn [add_qlog o_sim].
  rewrite Hrows1, Hrows2. unfold l1_rows. rewrite (rows_tr g Hp tts ttHp i0 r0 tmin eq_refl hit_Hp). reflexivity.
Qed.

End Kept.

Theorem perc_basic_rows_law_sec : forall p ord1 ord2 fuel1 fuel2 (F : list row -> bool),
  perm_oracle ord1 -> perm_oracle ord2 ->
  (length (gnodes g) < fuel1)%nat -> (length (gnodes g) < fuel2)%nat ->
  prob (fun o => F (so_rows (o_sim o)))
       (law (basic_discrete_SIR g p ord1 (Some i0) r0o None tmin tmax false fuel1)) ==
  prob (fun o => F (so_rows (o_sim o)))
       (law (percolation_based_discrete_SIR g p ord2 (Some i0) r0o None tmin tmax false fuel2)).
Proof.
  intros p ord1 ord2 fuel1 fuel2 F H1 H2 Hf1 Hf2.
  rewrite (dsir_law_expect_k g ord1 tmin tmax false (ukey g) (gedges g) Hnd Hadjnd H1 (ukey_cases g) ukey_in
             p i0 r0o fuel1 _ gedges_NoDup).
  unfold percolation_based_discrete_SIR, percolation_based_discrete_SIR_R, percolate_network_R.
  rewrite (law_seqv _ _ _ (seqv_bind_assoc _ _ _ _ _ _)).
  rewrite perc_expect. apply expect_ext_in. intros kept Hk. cbn [bind fst snd app].
  apply kept_rows; assumption.
Qed.

End PercLaw.

(* statement over boolean well-formedness *)
Theorem perc_basic_rows_law : forall g p ord1 ord2 i0 r0o tmin tmax fuel1 fuel2 (F : list row -> bool),
  wf_inputb g i0 (opt_list r0o) = true -> arcs_nodupb g = true -> sym_graphb g = true ->
  perm_oracle ord1 -> perm_oracle ord2 ->
  (length (gnodes g) < fuel1)%nat -> (length (gnodes g) < fuel2)%nat ->
  prob (fun o => F (so_rows (o_sim o)))
       (law (basic_discrete_SIR g p ord1 (Some i0) r0o None tmin tmax false fuel1)) ==
  prob (fun o => F (so_rows (o_sim o)))
       (law (percolation_based_discrete_SIR g p ord2 (Some i0) r0o None tmin tmax false fuel2)).
Proof.
  intros g p ord1 ord2 i0 r0o tmin tmax fuel1 fuel2 F Hwf Harcs Hsg H1 H2 Hf1 Hf2.
  destruct (wf_input_props g i0 _ Hwf) as [Hnd [Hadj [Hi0 [Hr0 [Hi0nd [Hr0nd Hdisj]]]]]].
  destruct (arcs_nodup_props g Harcs) as [_ Hadjnd].
  unfold sym_graphb in Hsg. apply andb_true_iff in Hsg. destruct Hsg as [Hd Hs].
  apply negb_true_iff in Hd.
  assert (Hsym : forall u v, In u (gnodes g) -> In v (gadj g u) -> In u (gadj g v)).
  { intros u v Hu Hv. rewrite forallb_forall in Hs. specialize (Hs u Hu). cbv beta in Hs.
    rewrite forallb_forall in Hs. apply dmem_In. apply Hs. exact Hv. }
  exact (perc_basic_rows_law_sec g i0 r0o tmin tmax Hd Hnd Hadjnd Hadj Hsym Hi0 Hr0 Hi0nd Hr0nd Hdisj
           p ord1 ord2 fuel1 fuel2 F H1 H2 Hf1 Hf2).
Qed.
