(* C05, event-driven SIS: the top-level statements.  Every returning run of fast_SIS (every
   draw script) and of fast_nonMarkov_SIS (every rule table inside [rules_ok]) starts from
   the request -- the extracted checker [ic_sisb] accepts its output --, whichever way the
   initial condition is given: explicit nodes, a single node, nothing, or rho.  What the
   checker means ([ic_sisb_sound]).  Error clauses. *)
From EoNV Require Import Prelude Samp Graph ListDict ListDictP Gillespie KldP GillespieInv SampP GillespieP GillespieLog.
From EoNV Require Import Investigation InvestigationP GillespieC10.
From EoNV Require Import EventSIS EventSISP EventSISP4 EventSISRows EventSISLog EventSISTrace EventSISRel EventSISFast EventSISNM EventSISOut EventSISInit.
From EoNV Require Import InitChk InitChkSIS C05sHist.
From Coq Require Import Permutation Sorted Lqa.

(* ---------------- the checker, read clause by clause ---------------- *)
Lemma zlist_eqb_true : forall a b, zlist_eqb a b = true -> a = b.
Proof.
  induction a as [|x a IH]; intros [|y b] H; cbn [zlist_eqb] in H; try discriminate H; [reflexivity|].
  apply andb_true_iff in H. destruct H as [H1 H2]. apply Z.eqb_eq in H1. subst y. f_equal. apply IH. exact H2.
Qed.

Lemma init_trans_okb_read : forall tmin i0 trans, init_trans_okb tmin i0 trans = true ->
  exists pre rest, trans = pre ++ rest /\ map snd pre = i0 /\
    Forall (fun x : tx_t => snd (fst x) = None /\ fst (fst x) == tmin) pre /\
    Forall (fun x : tx_t => exists s, snd (fst x) = Some s) rest.
Proof.
  intros tmin. induction i0 as [|u i0 IH]; intros trans H; cbn [init_trans_okb] in H.
  - exists [], trans. split; [reflexivity|]. split; [reflexivity|]. split; [constructor|].
    apply Forall_forall. intros x Hx. rewrite forallb_forall in H. specialize (H x Hx).
    destruct (snd (fst x)) as [s|]; [exists s; reflexivity|discriminate H].
  - destruct trans as [|[[t [s|]] v] trans']; try discriminate H.
    apply andb_true_iff in H. destruct H as [H H3]. apply andb_true_iff in H. destruct H as [H1 H2].
    apply Qeqb_true in H1. apply N.eqb_eq in H2. subst v.
    destruct (IH trans' H3) as [pre [rest [E [Em [F1 F2]]]]].
    exists ((t, None, u) :: pre), rest. split; [rewrite E; reflexivity|]. split; [cbn [map snd]; rewrite Em; reflexivity|].
    split; [constructor; [split; [reflexivity|exact H1]|exact F1]|exact F2].
Qed.

Lemma hit_at_tmin_read : forall tmin u trans, hit_at_tmin tmin u trans = true ->
  exists t src, In (t, Some src, u) trans /\ t == tmin.
Proof.
  intros tmin u trans H. unfold hit_at_tmin in H. apply existsb_exists in H. destruct H as [[[t s] v] [Hin H]].
  cbn [fst snd] in H. apply andb_true_iff in H. destruct H as [H H3]. apply andb_true_iff in H. destruct H as [H1 H2].
  apply Qeqb_true in H1. apply N.eqb_eq in H2. subst v. destruct s as [src|]; [|discriminate H3].
  exists t, src. split; assumption.
Qed.

Theorem ic_sisb_sound : forall nodes i0 tmin rows full, ic_sisb nodes i0 tmin rows full = true ->
  (exists t rest, rows = (t, [Z.of_nat (length nodes) - Z.of_nat (length i0); Z.of_nat (length i0)]%Z) :: rest /\ t == tmin) /\
  (forall fd, full = Some fd ->
     (exists pre rest, fd_trans fd = pre ++ rest /\ map snd pre = i0 /\
        Forall (fun x : tx_t => snd (fst x) = None /\ fst (fst x) == tmin) pre /\
        Forall (fun x : tx_t => exists s, snd (fst x) = Some s) rest) /\
     (forall u, In u nodes -> exists t s rest, hlook u (fd_hist fd) = Some ((t, s) :: rest) /\ t == tmin /\
        (In u i0 -> s = stI) /\
        (~ In u i0 -> s = stS \/ (s = stI /\ exists t' src, In (t', Some src, u) (fd_trans fd) /\ t' == tmin)))).
Proof.
  intros nodes i0 tmin rows full H. unfold ic_sisb in H. apply andb_true_iff in H. destruct H as [Hr Hf]. split.
  - destruct rows as [|[t c] rest]; [discriminate Hr|]. apply andb_true_iff in Hr. destruct Hr as [H1 H2].
    apply Qeqb_true in H1. apply zlist_eqb_true in H2. subst c. exists t, rest. split; [reflexivity|exact H1].
  - intros fd ->. apply andb_true_iff in Hf. destruct Hf as [Ht Hh]. split; [apply init_trans_okb_read; exact Ht|].
    intros u Hu. rewrite forallb_forall in Hh. specialize (Hh u Hu).
    destruct (hlook u (fd_hist fd)) as [[|[t s] rest]|]; try discriminate Hh. cbn [hist_sis_okb] in Hh.
    apply andb_true_iff in Hh. destruct Hh as [H1 H2]. apply Qeqb_true in H1.
    exists t, s, rest. split; [reflexivity|]. split; [exact H1|].
    destruct (mem u i0) eqn:Em.
    + apply N.eqb_eq in H2. split; [intros _; exact H2|]. intro Hn. exfalso. apply Hn. apply mem_In. exact Em.
    + split; [intro Hin; apply mem_In in Hin; rewrite Hin in Em; discriminate Em|]. intros _.
      apply orb_true_iff in H2. destruct H2 as [H2|H2]; [left; apply N.eqb_eq; exact H2|].
      apply andb_true_iff in H2. destruct H2 as [H2 H3]. right. split; [apply N.eqb_eq; exact H2|].
      apply hit_at_tmin_read. exact H3.
Qed.

(* ---------------- the initial condition, however given ---------------- *)
Lemma with_initial_exec : forall A g i0o rho (k : list node -> samp A) ds a tr,
  NoDup (gnodes g) -> (forall l, i0o = Some l -> NoDup l /\ incl l (gnodes g)) ->
  exec (with_initial g i0o rho k) ds [] = (Ok a, tr) ->
  exists i0 ds' acc, NoDup i0 /\ incl i0 (gnodes g) /\
    match i0o with
    | Some l => i0 = l /\ rho = None
    | None => Z.of_nat (length i0) = requested g rho /\ (0 <= requested g rho <= order g)%Z
    end /\ exec (k i0) ds' acc = (Ok a, tr) /\
    acc = match i0o with Some _ => [] | None => [CSample (map knode (gnodes g)) (Z.to_nat (requested g rho))] end.
Proof.
  intros A g i0o rho k ds a tr Hnd Hi H. unfold with_initial in H. destruct i0o as [l|].
  - destruct rho as [r|]; [cbn [exec] in H; discriminate H|]. destruct (Hi l eq_refl) as [Hn Hc].
    exists l, ds, []. split; [exact Hn|]. split; [exact Hc|]. split; [split; reflexivity|]. split; [exact H|reflexivity].
  - assert (K : forall n : Z,
        exec (if (n <? 0)%Z then Fail ValueErr
              else Sample (map knode (gnodes g)) (Z.to_nat n) (fun ks => k (concat ks))) ds [] = (Ok a, tr) ->
        exists i0 ds' acc, NoDup i0 /\ incl i0 (gnodes g) /\ (Z.of_nat (length i0) = n /\ (0 <= n <= order g)%Z) /\
          exec (k i0) ds' acc = (Ok a, tr) /\ acc = [CSample (map knode (gnodes g)) (Z.to_nat n)]).
    { intros n Hn. destruct (Z.ltb_spec n 0) as [Hneg|Hpos]; [cbn [exec] in Hn; discriminate Hn|].
      cbn [exec] in Hn. rewrite map_length in Hn.
      destruct (Nat.ltb_spec (length (gnodes g)) (Z.to_nat n)) as [Hbig|Hle]; [discriminate Hn|].
      destruct ds as [|d ds']; [discriminate Hn|].
      rewrite rotate_map, firstn_map, concat_knode in Hn. fold (sample_of g (Z.to_nat n) d) in Hn.
      destruct (sample_of_ok g (Z.to_nat n) d Hnd Hle) as [Hn1 [Hc Hl]].
      exists (sample_of g (Z.to_nat n) d), ds', [CSample (map knode (gnodes g)) (Z.to_nat n)].
      split; [exact Hn1|]. split; [exact Hc|]. split; [|split; [exact Hn|reflexivity]].
      rewrite Hl. unfold order. split; [apply Z2Nat.id; exact Hpos|]. split; [exact Hpos|]. lia. }
    destruct rho as [r|]; apply K in H; exact H.
Qed.

Lemma initial_of_trans_init : forall tmin l rest,
  Forall (fun x : tx_t => exists s, snd (fst x) = Some s) rest ->
  initial_of_trans (map (fun u => (tmin, None, u)) l ++ rest) = l.
Proof.
  intros tmin l rest H. induction l as [|u l IH]; cbn [map app initial_of_trans].
  - destruct rest as [|[[t s] v] rest']; [reflexivity|]. apply Forall_inv in H. destruct H as [s' Hs]. cbn [fst snd] in Hs. subst s. reflexivity.
  - rewrite IH. reflexivity.
Qed.

Lemma nodupb_intro : forall l, NoDup l -> nodupb l = true.
Proof.
  induction l as [|x l IH]; intro H; [reflexivity|]. apply NoDup_cons_iff in H. destruct H as [Hx Hl].
  cbn [nodupb]. rewrite (IH Hl), andb_true_r. apply negb_true_iff. apply mem_false. exact Hx.
Qed.
Lemma nodupb_elim : forall l, nodupb l = true -> NoDup l.
Proof.
  induction l as [|x l IH]; intro H; [constructor|]. cbn [nodupb] in H. apply andb_true_iff in H. destruct H as [H1 H2].
  constructor; [|apply IH; exact H2]. intro K. apply mem_In in K. rewrite K in H1. discriminate H1.
Qed.
Lemma subsetb_intro : forall a b, incl a b -> subsetb a b = true.
Proof. intros a b H. apply forallb_forall. intros x Hx. apply mem_In. apply H. exact Hx. Qed.
Lemma subsetb_elim : forall a b, subsetb a b = true -> incl a b.
Proof. intros a b H x Hx. unfold subsetb in H. rewrite forallb_forall in H. apply mem_In. apply H. exact Hx. Qed.

Lemma ic_sis_domb_elim : forall nodes i0 tmin tmax, ic_sis_domb nodes i0 tmin tmax = true ->
  NoDup nodes /\ NoDup i0 /\ incl i0 nodes /\ xlt tmin tmax = true.
Proof.
  intros nodes i0 tmin tmax H. unfold ic_sis_domb in H. repeat (apply andb_true_iff in H; destruct H as [H ?]).
  split; [apply nodupb_elim; assumption|]. split; [apply nodupb_elim; assumption|]. split; [apply subsetb_elim; assumption|assumption].
Qed.

(* [finish] of lock-step logs passes the rho form of the checker for the list it started from *)
Lemma LL_ic_sis_rhob : forall g, NoDup (gnodes g) -> forall tmin tmax i0, NoDup i0 -> incl i0 (gnodes g) ->
  forall chk evs txs lg st rho full, LL g tmin tmax i0 chk evs txs lg st ->
  Z.of_nat (length i0) = requested g rho -> (0 <= requested g rho <= order g)%Z ->
  ic_sis_rhob (gnodes g) rho tmin (so_rows (finish g tmin full (length i0) lg)) (so_full (finish g tmin full (length i0) lg)) = true.
Proof.
  intros g Hnd tmin tmax i0 Hi0 Hinc chk evs txs lg st rho full HL Hlen Hrange.
  pose proof (LL_ic_sisb g Hnd tmin tmax i0 Hi0 Hinc chk evs txs lg st HL full) as Hic.
  unfold ic_sis_rhob. change (requested_count (length (gnodes g)) rho) with (requested g rho).
  destruct full.
  - unfold finish in *. cbn [so_full so_rows] in *.
    destruct (out_trans g tmin tmax i0 chk evs txs lg st HL true eq_refl) as [fd [Efd [Etr [_ Hsrc]]]].
    unfold finish in Efd. cbn [so_full] in Efd. injection Efd as Efd. rewrite <- Efd in Etr.
    assert (Ei : initial_of_trans (fd_trans (build_full g tmin lg)) = i0).
    { rewrite Etr. apply initial_of_trans_init. eapply Forall_impl; [|exact Hsrc]. intros x [u [Hu _]]. exists u. exact Hu. }
    rewrite Ei, Hlen, Z.eqb_refl, (nodupb_intro i0 Hi0), (subsetb_intro i0 (gnodes g) Hinc). cbn [andb]. exact Hic.
  - unfold finish in *. cbn [so_full so_rows] in *. unfold ic_sisb in Hic. rewrite andb_true_r in Hic.
    destruct (skipn (length i0) (rev (l_rows lg))) as [|[t c] rest]; [discriminate Hic|].
    rewrite Hlen in Hic. unfold order in Hrange. rewrite Hic. cbn [andb].
    apply andb_true_iff. split; apply Z.leb_le; lia.
Qed.

(* ================================================================== *)
Section Top.
Variable g : graph.
Hypothesis Hadj : forall u v, In v (gadj g u) -> In v (gnodes g).

(* fast_SIS, explicit initial nodes, every draw script, both return modes *)
Theorem fsis_starts_as_requested : forall tau gamma tmax tmin i0 full fuel ds out tr,
  ic_sis_domb (gnodes g) i0 tmin tmax = true ->
  exec (fast_SIS g tau gamma tmax (Some i0) None tmin full fuel) ds [] = (Ok out, tr) ->
  ic_sisb (gnodes g) i0 tmin (so_rows out) (so_full out) = true.
Proof.
  intros tau gamma tmax tmin i0 full fuel ds out tr Hd H.
  destruct (ic_sis_domb_elim _ _ _ _ Hd) as [Hnd [Hi0 [Hinc Hvis]]].
  destruct (fast_SIS_logs g Hnd Hadj tau gamma tmax tmin Hvis i0 Hi0 Hinc full fuel ds out tr H) as [evs [txs [lg [st [HL [_ ->]]]]]].
  apply (LL_ic_sisb g Hnd tmin tmax i0 Hi0 Hinc true evs txs lg st HL).
Qed.

(* fast_SIS, the initial condition given in any way *)
Theorem fsis_starts_as_requested_any : forall tau gamma tmax tmin i0o rho full fuel ds out tr,
  NoDup (gnodes g) -> xlt tmin tmax = true ->
  (forall l, i0o = Some l -> NoDup l /\ incl l (gnodes g)) ->
  exec (fast_SIS g tau gamma tmax i0o rho tmin full fuel) ds [] = (Ok out, tr) ->
  exists i0, NoDup i0 /\ incl i0 (gnodes g) /\
    match i0o with
    | Some l => i0 = l /\ rho = None
    | None => Z.of_nat (length i0) = requested g rho /\ (0 <= requested g rho <= order g)%Z /\
              ic_sis_rhob (gnodes g) rho tmin (so_rows out) (so_full out) = true
    end /\
    ic_sisb (gnodes g) i0 tmin (so_rows out) (so_full out) = true.
Proof.
  intros tau gamma tmax tmin i0o rho full fuel ds out tr Hnd Hvis Hi H. unfold fast_SIS in H.
  destruct (with_initial_exec _ g i0o rho _ ds out tr Hnd Hi H) as [i0 [ds' [acc [Hn [Hc [Hm [He _]]]]]]].
  destruct (m_loop_exec_logs g Hnd Hadj tau gamma tmax tmin Hvis i0 full fuel ds' acc out tr Hn Hc He) as [evs [txs [lg [st [HL [_ ->]]]]]].
  exists i0. split; [exact Hn|]. split; [exact Hc|]. split.
  - destruct i0o as [l|]; [exact Hm|]. destruct Hm as [M1 M2]. split; [exact M1|]. split; [exact M2|].
    apply (LL_ic_sis_rhob g Hnd tmin tmax i0 Hn Hc true evs txs lg st rho full HL M1 M2).
  - apply (LL_ic_sisb g Hnd tmin tmax i0 Hn Hc true evs txs lg st HL).
Qed.

(* fast_nonMarkov_SIS, every rule table inside [rules_ok] *)
Theorem nmsis_starts_as_requested : forall dur delays tmax tmin i0 full fuel out,
  ic_sis_domb (gnodes g) i0 tmin tmax = true -> rules_ok dur delays ->
  nm_run g dur delays tmax tmin full fuel i0 = Ok out ->
  ic_sisb (gnodes g) i0 tmin (so_rows out) (so_full out) = true.
Proof.
  intros dur delays tmax tmin i0 full fuel out Hd [Hdur Hdel] H.
  destruct (ic_sis_domb_elim _ _ _ _ Hd) as [Hnd [Hi0 [Hinc Hvis]]].
  destruct (nm_run_logs g Hnd Hadj dur delays tmax tmin Hvis i0 Hi0 Hinc false Hdur Hdel
              (fun E => False_ind _ (Bool.diff_false_true E)) full fuel out H) as [evs [txs [lg [st [HL [_ ->]]]]]].
  apply (LL_ic_sisb g Hnd tmin tmax i0 Hi0 Hinc false evs txs lg st HL).
Qed.

Theorem nmsis_starts_as_requested_any : forall dur delays tmax tmin i0o rho full fuel ds out tr,
  NoDup (gnodes g) -> xlt tmin tmax = true -> rules_ok dur delays ->
  (forall l, i0o = Some l -> NoDup l /\ incl l (gnodes g)) ->
  exec (fast_nonMarkov_SIS g dur delays tmax i0o rho tmin full fuel) ds [] = (Ok out, tr) ->
  exists i0, NoDup i0 /\ incl i0 (gnodes g) /\
    match i0o with
    | Some l => i0 = l /\ rho = None /\ tr = []
    | None => Z.of_nat (length i0) = requested g rho /\ (0 <= requested g rho <= order g)%Z /\
              ic_sis_rhob (gnodes g) rho tmin (so_rows out) (so_full out) = true /\
              tr = [CSample (map knode (gnodes g)) (Z.to_nat (requested g rho))]
    end /\
    ic_sisb (gnodes g) i0 tmin (so_rows out) (so_full out) = true.
Proof.
  intros dur delays tmax tmin i0o rho full fuel ds out tr Hnd Hvis [Hdur Hdel] Hi H. unfold fast_nonMarkov_SIS in H.
  destruct (with_initial_exec _ g i0o rho _ ds out tr Hnd Hi H) as [i0 [ds' [acc [Hn [Hc [Hm [He Hacc]]]]]]].
  cbv beta in He. destruct (nm_run g dur delays tmax tmin full fuel i0) as [o|e] eqn:En; cbn [exec] in He; [|discriminate He].
  assert (Eo : o = out) by congruence. assert (Etr : rev acc = tr) by congruence. subst out. clear He.
  destruct (nm_run_logs g Hnd Hadj dur delays tmax tmin Hvis i0 Hn Hc false Hdur Hdel
              (fun E => False_ind _ (Bool.diff_false_true E)) full fuel o En) as [evs [txs [lg [st [HL [_ ->]]]]]].
  exists i0. split; [exact Hn|]. split; [exact Hc|]. split.
  - destruct i0o as [l|].
    + destruct Hm as [M1 M2]. split; [exact M1|]. split; [exact M2|]. rewrite <- Etr, Hacc. reflexivity.
    + destruct Hm as [M1 M2]. split; [exact M1|]. split; [exact M2|]. split.
      * apply (LL_ic_sis_rhob g Hnd tmin tmax i0 Hn Hc false evs txs lg st rho full HL M1 M2).
      * rewrite <- Etr, Hacc. reflexivity.
  - apply (LL_ic_sisb g Hnd tmin tmax i0 Hn Hc false evs txs lg st HL).
Qed.

End Top.

(* ---------------- argument forms and error clauses ---------------- *)
(* rho together with initial_infecteds (single node or collection, whatever its value):
   EoNError before anything else *)
Theorem sis_rho_conflict_rejected : forall g tau gamma dur delays tmax a rho tmin full fuel, arg_given a = true ->
  fast_SIS_arg g tau gamma tmax a (Some rho) tmin full fuel = Fail EoNError /\
  fast_nonMarkov_SIS_arg g dur delays tmax a (Some rho) tmin full fuel = Fail EoNError.
Proof. intros g tau gamma dur delays tmax a rho tmin full fuel H. unfold fast_SIS_arg, fast_nonMarkov_SIS_arg. rewrite H. split; reflexivity. Qed.

Theorem sis_rho_conflict_rejected_model : forall g tau gamma dur delays tmax l rho tmin full fuel,
  fast_SIS g tau gamma tmax (Some l) (Some rho) tmin full fuel = Fail EoNError /\
  fast_nonMarkov_SIS g dur delays tmax (Some l) (Some rho) tmin full fuel = Fail EoNError.
Proof. intros. split; reflexivity. Qed.

(* a single node of the graph means the one-element collection *)
Theorem sis_single_node_is_singleton : forall g tau gamma dur delays tmax x rho tmin full fuel, mem x (gnodes g) = true ->
  fast_SIS_arg g tau gamma tmax (IOne x) rho tmin full fuel = fast_SIS_arg g tau gamma tmax (IMany [x]) rho tmin full fuel /\
  fast_nonMarkov_SIS_arg g dur delays tmax (IOne x) rho tmin full fuel = fast_nonMarkov_SIS_arg g dur delays tmax (IMany [x]) rho tmin full fuel.
Proof.
  intros g tau gamma dur delays tmax x rho tmin full fuel H. unfold fast_SIS_arg, fast_nonMarkov_SIS_arg, norm_initial. rewrite H.
  destruct rho; split; reflexivity.
Qed.

(* the argument forms reduce to the normalised entry point of Model/EventSIS.v *)
Theorem sis_arg_forms : forall g tau gamma tmax rho tmin full fuel,
  fast_SIS_arg g tau gamma tmax IAbsent rho tmin full fuel = fast_SIS g tau gamma tmax None rho tmin full fuel /\
  (forall l, fast_SIS_arg g tau gamma tmax (IMany l) None tmin full fuel = fast_SIS g tau gamma tmax (Some l) None tmin full fuel) /\
  (forall x, mem x (gnodes g) = false -> fast_SIS_arg g tau gamma tmax (IOne x) None tmin full fuel = Fail TypeErr).
Proof.
  intros. unfold fast_SIS_arg, norm_initial. split; [destruct rho; reflexivity|]. split; [reflexivity|].
  intros x ->. reflexivity.
Qed.

(* ---------------- the entry points with the argument forms ---------------- *)
Definition arg_nodes (a : init_arg) : option (list node) :=
  match a with IAbsent => None | IOne x => Some [x] | IMany l => Some l end.

Section ArgTop.
Variable g : graph.
Hypothesis Hadj : forall u v, In v (gadj g u) -> In v (gnodes g).

Theorem fsis_arg_starts_as_requested : forall tau gamma tmax tmin a rho full fuel ds out tr,
  NoDup (gnodes g) -> xlt tmin tmax = true ->
  (forall l, arg_nodes a = Some l -> NoDup l /\ incl l (gnodes g)) ->
  exec (fast_SIS_arg g tau gamma tmax a rho tmin full fuel) ds [] = (Ok out, tr) ->
  exists i0, NoDup i0 /\ incl i0 (gnodes g) /\
    match arg_nodes a with
    | Some l => i0 = l /\ rho = None
    | None => Z.of_nat (length i0) = requested g rho /\ (0 <= requested g rho <= order g)%Z /\
              ic_sis_rhob (gnodes g) rho tmin (so_rows out) (so_full out) = true
    end /\
    ic_sisb (gnodes g) i0 tmin (so_rows out) (so_full out) = true.
Proof.
  intros tau gamma tmax tmin a rho full fuel ds out tr Hnd Hvis Hi H. unfold fast_SIS_arg in H.
  destruct rho as [r|].
  - destruct a as [|x|l]; cbn [arg_given] in H; try (cbn [exec] in H; discriminate H).
    apply (fsis_starts_as_requested_any g Hadj tau gamma tmax tmin None (Some r) full fuel ds out tr Hnd Hvis); [intros l K; discriminate K|exact H].
  - destruct a as [|x|l]; cbn [norm_initial arg_nodes] in *.
    + apply (fsis_starts_as_requested_any g Hadj tau gamma tmax tmin None None full fuel ds out tr Hnd Hvis); [intros l K; discriminate K|exact H].
    + destruct (Hi [x] eq_refl) as [Hn Hc].
      assert (Hm : mem x (gnodes g) = true) by (apply mem_In_true; apply Hc; left; reflexivity). rewrite Hm in H.
      apply (fsis_starts_as_requested_any g Hadj tau gamma tmax tmin (Some [x]) None full fuel ds out tr Hnd Hvis); [|exact H].
      intros l K. injection K as <-. split; assumption.
    + apply (fsis_starts_as_requested_any g Hadj tau gamma tmax tmin (Some l) None full fuel ds out tr Hnd Hvis); [|exact H].
      intros l' K. injection K as <-. apply Hi. reflexivity.
Qed.

Theorem nmsis_arg_starts_as_requested : forall dur delays tmax tmin a rho full fuel ds out tr,
  NoDup (gnodes g) -> xlt tmin tmax = true -> rules_ok dur delays ->
  (forall l, arg_nodes a = Some l -> NoDup l /\ incl l (gnodes g)) ->
  exec (fast_nonMarkov_SIS_arg g dur delays tmax a rho tmin full fuel) ds [] = (Ok out, tr) ->
  exists i0, NoDup i0 /\ incl i0 (gnodes g) /\
    match arg_nodes a with
    | Some l => i0 = l /\ rho = None /\ tr = []
    | None => Z.of_nat (length i0) = requested g rho /\ (0 <= requested g rho <= order g)%Z /\
              ic_sis_rhob (gnodes g) rho tmin (so_rows out) (so_full out) = true /\
              tr = [CSample (map knode (gnodes g)) (Z.to_nat (requested g rho))]
    end /\
    ic_sisb (gnodes g) i0 tmin (so_rows out) (so_full out) = true.
Proof.
  intros dur delays tmax tmin a rho full fuel ds out tr Hnd Hvis Hr Hi H. unfold fast_nonMarkov_SIS_arg in H.
  destruct rho as [r|].
  - destruct a as [|x|l]; cbn [arg_given] in H; try (cbn [exec] in H; discriminate H).
    apply (nmsis_starts_as_requested_any g Hadj dur delays tmax tmin None (Some r) full fuel ds out tr Hnd Hvis Hr); [intros l K; discriminate K|exact H].
  - destruct a as [|x|l]; cbn [norm_initial arg_nodes] in *.
    + apply (nmsis_starts_as_requested_any g Hadj dur delays tmax tmin None None full fuel ds out tr Hnd Hvis Hr); [intros l K; discriminate K|exact H].
    + destruct (Hi [x] eq_refl) as [Hn Hc].
      assert (Hm : mem x (gnodes g) = true) by (apply mem_In_true; apply Hc; left; reflexivity). rewrite Hm in H.
      apply (nmsis_starts_as_requested_any g Hadj dur delays tmax tmin (Some [x]) None full fuel ds out tr Hnd Hvis Hr); [|exact H].
      intros l K. injection K as <-. split; assumption.
    + apply (nmsis_starts_as_requested_any g Hadj dur delays tmax tmin (Some l) None full fuel ds out tr Hnd Hvis Hr); [|exact H].
      intros l' K. injection K as <-. apply Hi. reflexivity.
Qed.

End ArgTop.
