(* Proofs about Model/Simple.v (Gillespie_simple_contagion). *)
From EoNV Require Import Prelude Samp Graph ListDict Gillespie Simple ListDictP.
From Coq Require Import Permutation Lqa.

Lemma setup_induced_first_component : forall g tr,
  N.eqb (hd_status (tr_from tr)) (hd_status (tr_to tr)) = false ->
  setup_induced g tr = Err EoNError.
Proof. intros g tr H. unfold setup_induced. rewrite H. reflexivity. Qed.
