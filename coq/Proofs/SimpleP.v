(* Proofs about Model/Simple.v (Gillespie_simple_contagion): the bookkeeping
   invariant (DESIGN A.3) is preserved by every event, in the directed and in the
   undirected branch; the one-step law; the stop rule; counts track statuses;
   EoNError iff the specification is malformed. *)
From EoNV Require Import Prelude Samp Graph ListDict ListDictP Gillespie KldP GillespieInv Simple.
From Coq Require Import Permutation Lqa.

Lemma rbind_ok : forall A B (a : A) (f : A -> result B), rbind (Ok a) f = f a.
Proof. reflexivity. Qed.

(* ------------------------------------------------------------------ *)
(* slots                                                               *)

Definition sabs (sl : slot) : key -> option Q := kabs (sl_pot sl).
Definition has_gw (sl : slot) : bool := match sl_gw sl with Some _ => true | None => false end.

(* the weight get_weight[transition] gives to an actor (1 without weight source) *)
Definition wgt (sl : slot) (k : key) : Q :=
  match sl_gw sl with
  | None => 1
  | Some t => match tlook t k with Some w => w | None => 0 end
  end.

(* the dictionary knows the actor, with a non-negative weight *)
Definition gw_ok (sl : slot) (k : key) : Prop :=
  match sl_gw sl with
  | None => True
  | Some t => exists w, tlook t k = Some w /\ 0 <= w
  end.

Record slok (sl : slot) : Prop := {
  so_inv : kinv (sl_pot sl);
  so_w : weighted (sl_pot sl) = has_gw sl
}.

(* [sl'] is [sl] with another _ListDict_ *)
Definition same_frame (sl sl' : slot) : Prop := sl_tr sl' = sl_tr sl /\ sl_gw sl' = sl_gw sl.

Lemma same_frame_refl : forall sl, same_frame sl sl.
Proof. intro sl. split; reflexivity. Qed.
Lemma same_frame_trans : forall a b c, same_frame a b -> same_frame b c -> same_frame a c.
Proof. intros a b c [H1 H2] [H3 H4]. split; congruence. Qed.
Lemma same_frame_wgt : forall sl sl' k, same_frame sl sl' -> wgt sl' k = wgt sl k.
Proof. intros sl sl' k [_ H]. unfold wgt. rewrite H. reflexivity. Qed.
Lemma same_frame_gw_ok : forall sl sl' k, same_frame sl sl' -> gw_ok sl k -> gw_ok sl' k.
Proof. intros sl sl' k [_ H]. unfold gw_ok. rewrite H. exact (fun x => x). Qed.
Lemma same_frame_from : forall sl sl' k, same_frame sl sl' -> from_is sl' k = from_is sl k.
Proof. intros sl sl' k [H _]. unfold from_is. rewrite H. reflexivity. Qed.

Lemma wgt_nonneg : forall sl k, gw_ok sl k -> 0 <= wgt sl k.
Proof.
  intros sl k H. unfold wgt, gw_ok in *. destruct (sl_gw sl) as [t|]; [|lra].
  destruct H as [w [E Hw]]. rewrite E. exact Hw.
Qed.

(* potential_transitions[tr].remove(k), guarded by [b] *)
Lemma when_rem_ok : forall (b : bool) k sl,
  slok sl -> (b = true -> sabs sl k <> None) ->
  exists sl', when b (rem_actor k) sl = Ok sl' /\ slok sl' /\ same_frame sl sl' /\
              sabs sl' k = (if b then None else sabs sl k) /\
              forall x, x <> k -> sabs sl' x = sabs sl x.
Proof.
  intros b k sl Hok Hp. destruct b; cbn [when].
  - unfold rem_actor.
    destruct (kl_remove_present (sl_pot sl) k (so_inv sl Hok) (Hp eq_refl)) as [L' [He [Hi [Hw [Hk Ho]]]]].
    rewrite He, rbind_ok. eexists. split; [reflexivity|]. split.
    + constructor; cbn [sl_pot sl_gw has_gw]; [exact Hi|]. rewrite Hw. apply (so_w sl Hok).
    + split; [split; reflexivity|]. split; [exact Hk|exact Ho].
  - exists sl. split; [reflexivity|]. split; [exact Hok|]. split; [apply same_frame_refl|].
    split; reflexivity.
Qed.

(* potential_transitions[tr].update(k, weight_increment = get_weight[tr][k]), guarded by [b] *)
Lemma when_add_ok : forall (b : bool) k sl,
  slok sl -> gw_ok sl k -> (b = true -> sabs sl k = None) ->
  exists sl', when b (add_actor k) sl = Ok sl' /\ slok sl' /\ same_frame sl sl' /\
              oQeq (sabs sl' k) (if b then Some (wgt sl k) else sabs sl k) /\
              forall x, x <> k -> oQeq (sabs sl' x) (sabs sl x).
Proof.
  intros b k sl Hok Hgw Hp. destruct b; cbn [when].
  - unfold add_actor, gw_get, wgt, gw_ok in *.
    pose proof (so_w sl Hok) as Hw. unfold has_gw in Hw.
    destruct (sl_gw sl) as [t|] eqn:Egw.
    + destruct Hgw as [w [Et Hnn]]. rewrite Et, rbind_ok.
      destruct (kl_update_absent (sl_pot sl) k true w (so_inv sl Hok) Hw Hnn (Hp eq_refl))
        as [L' [He [Hi [Hw' [Hk Ho]]]]].
      unfold wopt in He. rewrite He, rbind_ok. eexists. split; [reflexivity|]. split.
      * constructor; cbn [sl_pot sl_gw has_gw]; [exact Hi|exact Hw'].
      * split; [split; [reflexivity|cbn [sl_gw]; symmetry; exact Egw]|]. split; [exact Hk|exact Ho].
    + rewrite rbind_ok.
      destruct (kl_update_absent (sl_pot sl) k false 1 (so_inv sl Hok) Hw ltac:(lra) (Hp eq_refl))
        as [L' [He [Hi [Hw' [Hk Ho]]]]].
      unfold wopt in He. rewrite He, rbind_ok. eexists. split; [reflexivity|]. split.
      * constructor; cbn [sl_pot sl_gw has_gw]; [exact Hi|exact Hw'].
      * split; [split; [reflexivity|cbn [sl_gw]; symmetry; exact Egw]|]. split; [exact Hk|exact Ho].
  - exists sl. split; [reflexivity|]. split; [exact Hok|]. split; [apply same_frame_refl|].
    split; [apply oQeq_refl|]. intros x _. apply oQeq_refl.
Qed.

(* the roundoff guard: never fails, changes nothing the abstraction sees *)
Lemma Qnat_ge_1 : forall n, (0 < n)%nat -> 1 <= Qnat n.
Proof.
  intros n H. unfold Qnat. replace 1 with (inject_Z 1) by reflexivity.
  rewrite <- Zle_Qle. lia.
Qed.

Lemma refresh_ok : forall sl, slok sl ->
  exists sl', refresh sl = Ok sl' /\ slok sl' /\ same_frame sl sl' /\ forall x, sabs sl' x = sabs sl x.
Proof.
  intros sl Hok. unfold refresh.
  destruct (Qltb (ld_total_weight key (sl_pot sl)) tiny && negb (Qeqb (ld_total_weight key (sl_pot sl)) 0)) eqn:E.
  - apply andb_true_iff in E. destruct E as [E1 E2].
    apply Qltb_true in E1. apply negb_true_iff in E2. apply Qeqb_false in E2.
    destruct (weighted (sl_pot sl)) eqn:Ew.
    + eexists. split; [reflexivity|]. split.
      * pose proof (so_inv sl Hok) as Hi. destruct Hi as [H1 H2 H3 H4 H5 H6].
        constructor; cbn [sl_pot sl_gw has_gw].
        -- constructor; cbn [items pos wt maxw total weighted]; try assumption.
           ++ intros _. apply H3. exact Ew.
           ++ intros _. apply H4. exact Ew.
           ++ intros _. apply H5. exact Ew.
           ++ intros _. unfold wread. cbn [wt]. reflexivity.
        -- cbn [weighted]. rewrite <- Ew. apply (so_w sl Hok).
      * split; [split; reflexivity|]. intro x. unfold sabs. cbn [sl_pot].
        rewrite !(abs_unfold key). cbn [pos weighted]. rewrite Ew. unfold wread. cbn [wt]. reflexivity.
    + exfalso. unfold ld_total_weight in E1, E2. rewrite Ew in E1, E2.
      destruct (items (sl_pot sl)) as [|x r] eqn:Ei.
      * apply E2. reflexivity.
      * assert (H : 1 <= Qnat (length (x :: r))) by (apply Qnat_ge_1; cbn [length]; lia).
        unfold tiny in E1. assert (H2 : (1 # 10000000) < 1) by reflexivity. lra.
  - exists sl. split; [reflexivity|]. split; [exact Hok|]. split; [apply same_frame_refl|]. reflexivity.
Qed.

(* generic fold over a duplicate-free neighbour list with a "processed so far" specification *)
Lemma sfold_agree : forall (step : node -> slot -> result slot) (sl0 : slot)
    (M : list node -> key -> option Q) (l : list node),
  (forall d x sl, In x l -> ~ In x d -> slok sl -> same_frame sl0 sl ->
       (forall k, oQeq (sabs sl k) (M d k)) ->
       exists sl', step x sl = Ok sl' /\ slok sl' /\ same_frame sl0 sl' /\
                   forall k, oQeq (sabs sl' k) (M (x :: d) k)) ->
  NoDup l ->
  forall d sl, (forall x, In x l -> ~ In x d) -> slok sl -> same_frame sl0 sl ->
    (forall k, oQeq (sabs sl k) (M d k)) ->
    exists sl', rfold step l sl = Ok sl' /\ slok sl' /\ same_frame sl0 sl' /\
                forall k, oQeq (sabs sl' k) (M (rev l ++ d) k).
Proof.
  intros step sl0 M l. unfold rfold.
  induction l as [|x l IH]; intros Hstep Hnd d sl Hd Hok Hfr Hag.
  - exists sl. cbn [fold_left rev app]. split; [reflexivity|]. split; [exact Hok|]. split; [exact Hfr|exact Hag].
  - apply NoDup_cons_iff in Hnd. destruct Hnd as [Hx Hnd'].
    destruct (Hstep d x sl (or_introl eq_refl) (Hd x (or_introl eq_refl)) Hok Hfr Hag)
      as [sl1 [He [Hok1 [Hfr1 Ha1]]]].
    cbn [fold_left rbind]. rewrite He.
    destruct (IH (fun d0 x0 sl1 Hin => Hstep d0 x0 sl1 (or_intror Hin)) Hnd' (x :: d) sl1)
      as [sl' [He' [Hok' [Hfr' Ha']]]].
    + intros y Hy [E|Hyd]; [subst y; contradiction|]. apply (Hd y (or_intror Hy)). exact Hyd.
    + exact Hok1.
    + exact Hfr1.
    + exact Ha1.
    + exists sl'. split; [exact He'|]. split; [exact Hok'|]. split; [exact Hfr'|].
      intro k. cbn [rev]. rewrite <- app_assoc. cbn [app]. apply Ha'.
Qed.

(* remove-then-add on one key (directed loops, spontaneous transitions); the
   conditions are tests `transition[0] == ...` on the slot's transition *)
Lemma one_key_ok : forall (K1 K2 : key) k sl,
  slok sl -> gw_ok sl k ->
  (from_is sl K1 = true -> sabs sl k <> None) -> (from_is sl K1 = false -> sabs sl k = None) ->
  exists sl', rbind (when (from_is sl K1) (rem_actor k) sl)
                    (fun sl => when (from_is sl K2) (add_actor k) sl) = Ok sl' /\
              slok sl' /\ same_frame sl sl' /\
              oQeq (sabs sl' k) (if from_is sl K2 then Some (wgt sl k) else None) /\
              forall x, x <> k -> oQeq (sabs sl' x) (sabs sl x).
Proof.
  intros K1 K2 k sl Hok Hgw Hp Ha.
  destruct (when_rem_ok (from_is sl K1) k sl Hok Hp) as [sl1 [E1 [Hok1 [Hf1 [Hk1 Ho1]]]]].
  rewrite E1, rbind_ok.
  assert (Hn1 : sabs sl1 k = None).
  { rewrite Hk1. destruct (from_is sl K1); [reflexivity|]. apply Ha. reflexivity. }
  rewrite (same_frame_from _ _ _ Hf1).
  destruct (when_add_ok (from_is sl K2) k sl1 Hok1 (same_frame_gw_ok _ _ _ Hf1 Hgw) (fun _ => Hn1))
    as [sl2 [E2 [Hok2 [Hf2 [Hk2 Ho2]]]]].
  exists sl2. split; [exact E2|]. split; [exact Hok2|]. split; [eapply same_frame_trans; eassumption|].
  split.
  - eapply oQeq_trans; [exact Hk2|]. rewrite (same_frame_wgt _ _ _ Hf1). rewrite Hn1.
    destruct (from_is sl K2); apply oQeq_refl.
  - intros x Hx. eapply oQeq_trans; [apply Ho2; exact Hx|]. rewrite (Ho1 x Hx). apply oQeq_refl.
Qed.

(* the undirected loop body: remove k1, remove k2, add k1, add k2 *)
Lemma two_key_ok : forall (K1 K2 K3 K4 : key) k1 k2 sl,
  k1 <> k2 -> slok sl -> gw_ok sl k1 -> gw_ok sl k2 ->
  (from_is sl K1 = true -> sabs sl k1 <> None) -> (from_is sl K1 = false -> sabs sl k1 = None) ->
  (from_is sl K2 = true -> sabs sl k2 <> None) -> (from_is sl K2 = false -> sabs sl k2 = None) ->
  exists sl', rbind (when (from_is sl K1) (rem_actor k1) sl) (fun sl =>
              rbind (when (from_is sl K2) (rem_actor k2) sl) (fun sl =>
              rbind (when (from_is sl K3) (add_actor k1) sl) (fun sl =>
              when (from_is sl K4) (add_actor k2) sl))) = Ok sl' /\
              slok sl' /\ same_frame sl sl' /\
              oQeq (sabs sl' k1) (if from_is sl K3 then Some (wgt sl k1) else None) /\
              oQeq (sabs sl' k2) (if from_is sl K4 then Some (wgt sl k2) else None) /\
              forall x, x <> k1 -> x <> k2 -> oQeq (sabs sl' x) (sabs sl x).
Proof.
  intros K1 K2 K3 K4 k1 k2 sl Hne Hok Hg1 Hg2 Hp1 Ha1 Hp2 Ha2.
  assert (Hne' : k2 <> k1) by (intro E; apply Hne; symmetry; exact E).
  destruct (when_rem_ok (from_is sl K1) k1 sl Hok Hp1) as [s1 [E1 [Hok1 [Hf1 [Hk1 Ho1]]]]].
  rewrite E1, rbind_ok.
  assert (Hn1 : sabs s1 k1 = None).
  { rewrite Hk1. destruct (from_is sl K1); [reflexivity|]. apply Ha1. reflexivity. }
  rewrite (same_frame_from _ _ _ Hf1).
  assert (Hp2' : from_is sl K2 = true -> sabs s1 k2 <> None).
  { intro E. rewrite (Ho1 k2 Hne'). apply Hp2. exact E. }
  destruct (when_rem_ok (from_is sl K2) k2 s1 Hok1 Hp2') as [s2 [E2 [Hok2 [Hf2 [Hk2 Ho2]]]]].
  rewrite E2, rbind_ok.
  assert (Hn2 : sabs s2 k2 = None).
  { rewrite Hk2. destruct (from_is sl K2); [reflexivity|]. rewrite (Ho1 k2 Hne'). apply Ha2. reflexivity. }
  assert (Hn12 : sabs s2 k1 = None). { rewrite (Ho2 k1 Hne). exact Hn1. }
  pose proof (same_frame_trans _ _ _ Hf1 Hf2) as Hf02.
  rewrite (same_frame_from _ _ _ Hf02).
  destruct (when_add_ok (from_is sl K3) k1 s2 Hok2 (same_frame_gw_ok _ _ _ Hf02 Hg1) (fun _ => Hn12))
    as [s3 [E3 [Hok3 [Hf3 [Hk3 Ho3]]]]].
  rewrite E3, rbind_ok.
  pose proof (same_frame_trans _ _ _ Hf02 Hf3) as Hf03.
  rewrite (same_frame_from _ _ _ Hf03).
  assert (Hn23 : sabs s3 k2 = None).
  { apply oQeq_none_l. rewrite <- Hn2. apply Ho3. exact Hne'. }
  destruct (when_add_ok (from_is sl K4) k2 s3 Hok3 (same_frame_gw_ok _ _ _ Hf03 Hg2) (fun _ => Hn23))
    as [s4 [E4 [Hok4 [Hf4 [Hk4 Ho4]]]]].
  exists s4. split; [exact E4|]. split; [exact Hok4|]. split; [eapply same_frame_trans; eassumption|].
  split; [|split].
  - eapply oQeq_trans; [apply Ho4; exact Hne|]. eapply oQeq_trans; [exact Hk3|].
    rewrite (same_frame_wgt _ _ _ Hf02), Hn12. destruct (from_is sl K3); apply oQeq_refl.
  - eapply oQeq_trans; [exact Hk4|]. rewrite (same_frame_wgt _ _ _ Hf03), Hn23.
    destruct (from_is sl K4); apply oQeq_refl.
  - intros x Hx1 Hx2. eapply oQeq_trans; [apply Ho4; exact Hx2|].
    eapply oQeq_trans; [apply Ho3; exact Hx1|]. rewrite (Ho2 x Hx2), (Ho1 x Hx1). apply oQeq_refl.
Qed.

(* the fill-ins of get_weight do nothing when the dictionary is complete *)
Lemma fill_fwd_id : forall m x sl, gw_ok sl (kpair m x) -> fill_fwd m x sl = Ok sl.
Proof.
  intros m x sl H. unfold fill_fwd, gw_ok in *. destruct (sl_gw sl) as [t|]; [|reflexivity].
  destruct H as [w [E _]]. rewrite E. reflexivity.
Qed.
Lemma fill_pred_id : forall m p sl, gw_ok sl (kpair p m) -> fill_pred m p sl = Ok sl.
Proof.
  intros m p sl H. unfold fill_pred, gw_ok in *. destruct (sl_gw sl) as [t|]; [|reflexivity].
  destruct H as [w [E _]]. rewrite E. reflexivity.
Qed.
Lemma fill_undirected_id : forall m x sl, gw_ok sl (kpair m x) -> gw_ok sl (kpair x m) ->
  fill_undirected m x sl = Ok sl.
Proof.
  intros m x sl H1 H2. unfold fill_undirected, gw_ok in *. destruct (sl_gw sl) as [t|]; [|reflexivity].
  destruct H1 as [w1 [E1 _]]. destruct H2 as [w2 [E2 _]]. rewrite E1, E2. reflexivity.
Qed.

(* ------------------------------------------------------------------ *)
(* the specification of the bookkeeping                                *)

Section Ev.
Variable g : graph.

(* simple graph (what wf_graphb checks), in the form the proofs use *)
Record wfg2 : Prop := {
  g_nodup : NoDup (gnodes g);
  g_adj_nodup : forall u, In u (gnodes g) -> NoDup (gadj g u);
  g_pred_nodup : forall u, In u (gnodes g) -> NoDup (gpred g u);
  g_noself : forall u, In u (gnodes g) -> ~ In u (gadj g u);
  g_adj_in : forall u v, In u (gnodes g) -> In v (gadj g u) -> In v (gnodes g);
  g_pred_in : forall u v, In u (gnodes g) -> In v (gpred g u) -> In v (gnodes g);
  g_pred_adj : forall u v, In u (gnodes g) -> In v (gnodes g) -> (In u (gpred g v) <-> In v (gadj g u));
  g_sym : gdirected g = false -> forall u v, In u (gnodes g) -> In v (gadj g u) -> In u (gadj g v)
}.
Hypothesis Hg : wfg2.

(* L0: the actors a transition is enabled for, with their weights, computed from
   scratch from the statuses *)
Definition sp_spec (st : node -> N) (sl : slot) (k : key) : option Q :=
  match k with
  | [u] => if mem u (gnodes g) && from_is sl [st u] then Some (wgt sl k) else None
  | _ => None
  end.
Definition in_spec (st : node -> N) (sl : slot) (k : key) : option Q :=
  match k with
  | [u; v] => if mem u (gnodes g) && mem v (gadj g u) && from_is sl [st u; st v]
              then Some (wgt sl k) else None
  | _ => None
  end.

(* the weight dictionaries cover every node / every ordered adjacent pair *)
Definition sp_full (sl : slot) : Prop := forall u, In u (gnodes g) -> gw_ok sl [u].
Definition in_full (sl : slot) : Prop :=
  forall u v, In u (gnodes g) -> In v (gadj g u) -> gw_ok sl [u; v].

Lemma sp_spec_frame : forall st sl sl' k, same_frame sl sl' -> sp_spec st sl' k = sp_spec st sl k.
Proof.
  intros st sl sl' [|u [|v r]] Hf; cbn [sp_spec]; try reflexivity.
  rewrite (same_frame_from _ _ _ Hf), (same_frame_wgt _ _ _ Hf). reflexivity.
Qed.
Lemma in_spec_frame : forall st sl sl' k, same_frame sl sl' -> in_spec st sl' k = in_spec st sl k.
Proof.
  intros st sl sl' [|u [|v [|w r]]] Hf; cbn [in_spec]; try reflexivity.
  rewrite (same_frame_from _ _ _ Hf), (same_frame_wgt _ _ _ Hf). reflexivity.
Qed.
Lemma sp_full_frame : forall sl sl', same_frame sl sl' -> sp_full sl -> sp_full sl'.
Proof. intros sl sl' Hf H u Hu. apply (same_frame_gw_ok _ _ _ Hf). apply H. exact Hu. Qed.
Lemma in_full_frame : forall sl sl', same_frame sl sl' -> in_full sl -> in_full sl'.
Proof. intros sl sl' Hf H u v Hu Hv. apply (same_frame_gw_ok _ _ _ Hf). apply H; assumption. Qed.

Lemma mem_true_In : forall x l, In x l -> mem x l = true.
Proof. intros x l H. apply mem_In. exact H. Qed.

Lemma oQeq_if_some : forall (a : option Q) (b : bool) w,
  oQeq a (if b then Some w else None) ->
  (b = true -> a <> None) /\ (b = false -> a = None).
Proof.
  intros a b w H. destruct b.
  - split; [intros _; eapply oQeq_some_not_none; exact H|discriminate].
  - split; [discriminate|intros _; apply oQeq_none_l; exact H].
Qed.

Section Update.
Variable st : node -> N.          (* statuses before the event *)
Variable m : node.
Variable new : N.
Hypothesis Hm : In m (gnodes g).
Let old := st m.
Let st' := fupdN st m new.

Lemma st'_m : st' m = new.
Proof. unfold st'. apply fupdN_same. Qed.
Lemma st'_other : forall x, x <> m -> st' x = st x.
Proof. intros x H. unfold st'. apply fupdN_other. exact H. Qed.

(* ---- spontaneous transitions (sim:4242-4253) ---- *)
Lemma upd_spont_ok : forall sl,
  slok sl -> sp_full sl -> (forall k, oQeq (sabs sl k) (sp_spec st sl k)) ->
  exists sl', upd_spont m old new sl = Ok sl' /\ slok sl' /\ same_frame sl sl' /\
              forall k, oQeq (sabs sl' k) (sp_spec st' sl k).
Proof.
  intros sl Hok Hfull Hag. unfold upd_spont.
  assert (Hpre : oQeq (sabs sl (knode m)) (if from_is sl [old] then Some (wgt sl (knode m)) else None)).
  { eapply oQeq_trans; [apply Hag|]. unfold knode. cbn [sp_spec]. rewrite (mem_true_In _ _ Hm).
    cbn [andb]. apply oQeq_refl. }
  destruct (oQeq_if_some _ _ _ Hpre) as [Hp Ha].
  destruct (one_key_ok [old] [new] (knode m) sl Hok (Hfull m Hm) Hp Ha)
    as [sl1 [E1 [Hok1 [Hf1 [Hk1 Ho1]]]]].
  assert (E1' : rbind (when (from_is sl [old]) (rem_actor (knode m)) sl)
                  (fun sl0 => rbind (when (from_is sl0 [new]) (add_actor (knode m)) sl0) refresh)
                = rbind (rbind (when (from_is sl [old]) (rem_actor (knode m)) sl)
                    (fun sl0 => when (from_is sl0 [new]) (add_actor (knode m)) sl0)) refresh).
  { destruct (when (from_is sl [old]) (rem_actor (knode m)) sl); reflexivity. }
  rewrite E1', E1, rbind_ok.
  destruct (refresh_ok sl1 Hok1) as [sl2 [E2 [Hok2 [Hf2 Hs2]]]].
  exists sl2. split; [exact E2|]. split; [exact Hok2|]. split; [eapply same_frame_trans; eassumption|].
  intro k. rewrite Hs2. destruct (keqb_spec k (knode m)) as [E|E].
  - subst k. eapply oQeq_trans; [exact Hk1|]. unfold knode. cbn [sp_spec].
    rewrite (mem_true_In _ _ Hm), st'_m. cbn [andb]. apply oQeq_refl.
  - eapply oQeq_trans; [apply Ho1; exact E|]. eapply oQeq_trans; [apply Hag|]. apply oQeq_of_eq.
    destruct k as [|u [|v r]]; cbn [sp_spec]; try reflexivity.
    rewrite st'_other; [reflexivity|]. intro Eu. subst u. apply E. reflexivity.
Qed.

(* ---- induced transitions, undirected branch (sim:4282-4300) ---- *)
Lemma nbr_facts : forall x, In x (gadj g m) -> x <> m /\ In x (gnodes g).
Proof.
  intros x Hx. split.
  - intro E. subst x. apply (g_noself Hg m Hm). exact Hx.
  - apply (g_adj_in Hg m x Hm Hx).
Qed.

Definition touched (d : list node) (k : key) : bool :=
  match k with
  | [a; b] => (N.eqb a m && mem b d) || (N.eqb b m && mem a d)
  | _ => false
  end.
Definition Mu (sl : slot) (d : list node) (k : key) : option Q :=
  if touched d k then in_spec st' sl k else in_spec st sl k.

Lemma in_spec_untouched : forall sl a b, a <> m -> b <> m ->
  in_spec st' sl [a; b] = in_spec st sl [a; b].
Proof.
  intros sl a b Ha Hb. cbn [in_spec]. rewrite (st'_other a Ha), (st'_other b Hb). reflexivity.
Qed.

Lemma in_spec_at : forall s0 sl a b, In a (gnodes g) -> In b (gadj g a) ->
  in_spec s0 sl [a; b] = if from_is sl [s0 a; s0 b] then Some (wgt sl [a; b]) else None.
Proof.
  intros s0 sl a b Ha Hb. cbn [in_spec]. rewrite (mem_true_In _ _ Ha), (mem_true_In _ _ Hb).
  reflexivity.
Qed.

Lemma in_spec_nonedge : forall s0 sl a b, ~ (In a (gnodes g) /\ In b (gadj g a)) ->
  in_spec s0 sl [a; b] = None.
Proof.
  intros s0 sl a b H. cbn [in_spec].
  destruct (mem a (gnodes g)) eqn:Ea; [|reflexivity].
  destruct (mem b (gadj g a)) eqn:Eb; [|reflexivity].
  exfalso. apply H. split; apply mem_In; assumption.
Qed.

Lemma upd_nbr_ok : forall sl0, gdirected g = false -> in_full sl0 ->
  forall d x sl, In x (gadj g m) -> ~ In x d -> slok sl -> same_frame sl0 sl ->
  (forall k, oQeq (sabs sl k) (Mu sl0 d k)) ->
  exists sl', upd_nbr st' m old new x sl = Ok sl' /\ slok sl' /\ same_frame sl0 sl' /\
              forall k, oQeq (sabs sl' k) (Mu sl0 (x :: d) k).
Proof.
  intros sl0 Hund Hfull d x sl Hx Hxd Hok Hfr Hag.
  destruct (nbr_facts x Hx) as [Hxm Hxn].
  assert (Hmx : In m (gadj g x)) by (apply (g_sym Hg Hund m x Hm Hx)).
  assert (Hmd : mem x d = false) by (apply mem_false; exact Hxd).
  pose proof (in_full_frame _ _ Hfr Hfull) as Hfull'.
  assert (Hg1 : gw_ok sl (kpair x m)) by (apply Hfull'; assumption).
  assert (Hg2 : gw_ok sl (kpair m x)) by (apply Hfull'; assumption).
  assert (Hne : kpair x m <> kpair m x).
  { unfold kpair. intro E. injection E as E1 _. contradiction. }
  assert (Hpre1 : oQeq (sabs sl (kpair x m))
            (if from_is sl [st' x; old] then Some (wgt sl (kpair x m)) else None)).
  { eapply oQeq_trans; [apply Hag|]. unfold Mu, kpair. cbn [touched].
    destruct (N.eqb_spec x m) as [E|_]; [contradiction|]. rewrite N.eqb_refl, Hmd. cbn [andb orb].
    rewrite (in_spec_at st sl0 x m Hxn Hmx). rewrite (st'_other x Hxm).
    rewrite <- (same_frame_from _ _ [st x; st m] Hfr), <- (same_frame_wgt _ _ [x; m] Hfr).
    apply oQeq_refl. }
  assert (Hpre2 : oQeq (sabs sl (kpair m x))
            (if from_is sl [old; st' x] then Some (wgt sl (kpair m x)) else None)).
  { eapply oQeq_trans; [apply Hag|]. unfold Mu, kpair. cbn [touched].
    rewrite N.eqb_refl, Hmd. destruct (N.eqb_spec x m) as [E|_]; [contradiction|]. cbn [andb orb].
    rewrite (in_spec_at st sl0 m x Hm Hx). rewrite (st'_other x Hxm).
    rewrite <- (same_frame_from _ _ [st m; st x] Hfr), <- (same_frame_wgt _ _ [m; x] Hfr).
    apply oQeq_refl. }
  destruct (oQeq_if_some _ _ _ Hpre1) as [Hp1 Ha1].
  destruct (oQeq_if_some _ _ _ Hpre2) as [Hp2 Ha2].
  unfold upd_nbr. rewrite (fill_undirected_id m x sl Hg2 Hg1), rbind_ok.
  destruct (two_key_ok [st' x; old] [old; st' x] [st' x; new] [new; st' x] (kpair x m) (kpair m x) sl
              Hne Hok Hg1 Hg2 Hp1 Ha1 Hp2 Ha2) as [sl' [Eq [Hok' [Hf' [Hk1 [Hk2 Ho]]]]]].
  exists sl'. split; [exact Eq|]. split; [exact Hok'|]. split; [eapply same_frame_trans; eassumption|].
  intro k. destruct (keqb_spec k (kpair x m)) as [E1|E1]; [|destruct (keqb_spec k (kpair m x)) as [E2|E2]].
  - subst k. eapply oQeq_trans; [exact Hk1|]. unfold Mu, kpair. cbn [touched].
    rewrite N.eqb_refl. cbn [mem existsb]. rewrite N.eqb_refl. cbn [orb andb]. rewrite orb_true_r.
    rewrite (in_spec_at st' sl0 x m Hxn Hmx), st'_m.
    rewrite <- (same_frame_from _ _ [st' x; new] Hfr), <- (same_frame_wgt _ _ [x; m] Hfr).
    apply oQeq_refl.
  - subst k. eapply oQeq_trans; [exact Hk2|]. unfold Mu, kpair. cbn [touched].
    rewrite N.eqb_refl. cbn [mem existsb]. rewrite N.eqb_refl. cbn [orb andb].
    rewrite (in_spec_at st' sl0 m x Hm Hx), st'_m.
    rewrite <- (same_frame_from _ _ [new; st' x] Hfr), <- (same_frame_wgt _ _ [m; x] Hfr).
    apply oQeq_refl.
  - eapply oQeq_trans; [apply Ho; assumption|]. eapply oQeq_trans; [apply Hag|]. apply oQeq_of_eq.
    unfold Mu. replace (touched (x :: d) k) with (touched d k); [reflexivity|].
    destruct k as [|a [|b [|c r]]]; cbn [touched]; try reflexivity.
    cbn [mem existsb].
    destruct (N.eqb_spec a m) as [Ea|Ea]; destruct (N.eqb_spec b m) as [Eb|Eb]; cbn [andb orb].
    + subst a b. destruct (N.eqb_spec m x) as [E|_]; [exfalso; apply Hxm; symmetry; exact E|reflexivity].
    + subst a. destruct (N.eqb_spec b x) as [E|_]; [subst b; exfalso; apply E2; reflexivity|].
      cbn [orb]. reflexivity.
    + subst b. destruct (N.eqb_spec a x) as [E|_]; [subst a; exfalso; apply E1; reflexivity|].
      cbn [orb]. reflexivity.
    + reflexivity.
Qed.

Lemma Mu_nil : forall sl k, Mu sl [] k = in_spec st sl k.
Proof.
  intros sl k. unfold Mu. replace (touched [] k) with false; [reflexivity|].
  destruct k as [|a [|b [|c r]]]; cbn [touched mem existsb]; try reflexivity.
  rewrite !andb_false_r. reflexivity.
Qed.

Lemma Mu_full : forall sl k, gdirected g = false ->
  Mu sl (rev (gadj g m) ++ []) k = in_spec st' sl k.
Proof.
  intros sl k Hund. unfold Mu. rewrite app_nil_r.
  destruct (touched (rev (gadj g m)) k) eqn:Et; [reflexivity|].
  destruct k as [|a [|b [|c r]]]; try reflexivity.
  cbn [touched] in Et. rewrite !mem_rev in Et. apply orb_false_iff in Et. destruct Et as [E1 E2].
  destruct (N.eqb_spec a m) as [Ea|Ea].
  - subst a. cbn [andb] in E1. apply mem_false in E1.
    rewrite !in_spec_nonedge; [reflexivity| |]; intros [_ H]; contradiction.
  - destruct (N.eqb_spec b m) as [Eb|Eb].
    + subst b. cbn [andb] in E2. apply mem_false in E2.
      rewrite !in_spec_nonedge; [reflexivity| |]; intros [Ha H]; apply E2;
        apply (g_sym Hg Hund a m Ha H).
    + symmetry. apply in_spec_untouched; assumption.
Qed.

(* ---- induced transitions, directed branch (sim:4258-4280) ---- *)
Definition touched_s (d : list node) (k : key) : bool :=
  match k with [a; b] => N.eqb a m && mem b d | _ => false end.
Definition Ms (sl : slot) (d : list node) (k : key) : option Q :=
  if touched_s d k then in_spec st' sl k else in_spec st sl k.
Definition touched_p (d : list node) (k : key) : bool :=
  match k with [a; b] => N.eqb b m && mem a d | _ => false end.
Definition Mp (sl : slot) (d : list node) (k : key) : option Q :=
  if touched_p d k then in_spec st' sl k else Ms sl (rev (gadj g m) ++ []) k.

Lemma upd_succ_ok : forall sl0, in_full sl0 ->
  forall d x sl, In x (gadj g m) -> ~ In x d -> slok sl -> same_frame sl0 sl ->
  (forall k, oQeq (sabs sl k) (Ms sl0 d k)) ->
  exists sl', upd_succ st' m old new x sl = Ok sl' /\ slok sl' /\ same_frame sl0 sl' /\
              forall k, oQeq (sabs sl' k) (Ms sl0 (x :: d) k).
Proof.
  intros sl0 Hfull d x sl Hx Hxd Hok Hfr Hag.
  destruct (nbr_facts x Hx) as [Hxm Hxn].
  assert (Hmd : mem x d = false) by (apply mem_false; exact Hxd).
  pose proof (in_full_frame _ _ Hfr Hfull) as Hfull'.
  assert (Hg2 : gw_ok sl (kpair m x)) by (apply Hfull'; assumption).
  assert (Hpre2 : oQeq (sabs sl (kpair m x))
            (if from_is sl [old; st' x] then Some (wgt sl (kpair m x)) else None)).
  { eapply oQeq_trans; [apply Hag|]. unfold Ms, kpair. cbn [touched_s].
    rewrite N.eqb_refl, Hmd. cbn [andb].
    rewrite (in_spec_at st sl0 m x Hm Hx). rewrite (st'_other x Hxm).
    rewrite <- (same_frame_from _ _ [st m; st x] Hfr), <- (same_frame_wgt _ _ [m; x] Hfr).
    apply oQeq_refl. }
  destruct (oQeq_if_some _ _ _ Hpre2) as [Hp2 Ha2].
  unfold upd_succ. rewrite (fill_fwd_id m x sl Hg2), rbind_ok.
  destruct (one_key_ok [old; st' x] [new; st' x] (kpair m x) sl Hok Hg2 Hp2 Ha2)
    as [sl' [Eq [Hok' [Hf' [Hk2 Ho]]]]].
  exists sl'. split; [exact Eq|]. split; [exact Hok'|]. split; [eapply same_frame_trans; eassumption|].
  intro k. destruct (keqb_spec k (kpair m x)) as [E2|E2].
  - subst k. eapply oQeq_trans; [exact Hk2|]. unfold Ms, kpair. cbn [touched_s].
    rewrite N.eqb_refl. cbn [mem existsb]. rewrite N.eqb_refl. cbn [orb andb].
    rewrite (in_spec_at st' sl0 m x Hm Hx), st'_m.
    rewrite <- (same_frame_from _ _ [new; st' x] Hfr), <- (same_frame_wgt _ _ [m; x] Hfr).
    apply oQeq_refl.
  - eapply oQeq_trans; [apply Ho; assumption|]. eapply oQeq_trans; [apply Hag|]. apply oQeq_of_eq.
    unfold Ms. replace (touched_s (x :: d) k) with (touched_s d k); [reflexivity|].
    destruct k as [|a [|b [|c r]]]; cbn [touched_s]; try reflexivity.
    cbn [mem existsb]. destruct (N.eqb_spec a m) as [Ea|Ea]; cbn [andb]; [|reflexivity].
    subst a. destruct (N.eqb_spec b x) as [E|_]; [subst b; exfalso; apply E2; reflexivity|].
    cbn [orb]. reflexivity.
Qed.

Lemma Ms_nil : forall sl k, Ms sl [] k = in_spec st sl k.
Proof.
  intros sl k. unfold Ms. replace (touched_s [] k) with false; [reflexivity|].
  destruct k as [|a [|b [|c r]]]; cbn [touched_s mem existsb]; try reflexivity.
  rewrite andb_false_r. reflexivity.
Qed.

Lemma pred_facts : forall p, In p (gpred g m) -> p <> m /\ In p (gnodes g) /\ In m (gadj g p).
Proof.
  intros p Hp.
  assert (Hpn : In p (gnodes g)) by (apply (g_pred_in Hg m p Hm Hp)).
  assert (Hmp : In m (gadj g p)) by (apply (g_pred_adj Hg p m Hpn Hm); exact Hp).
  split; [|split; assumption].
  intro E. subst p. apply (g_noself Hg m Hm). exact Hmp.
Qed.

Lemma upd_pred_ok : forall sl0, in_full sl0 ->
  forall d p sl, In p (gpred g m) -> ~ In p d -> slok sl -> same_frame sl0 sl ->
  (forall k, oQeq (sabs sl k) (Mp sl0 d k)) ->
  exists sl', upd_pred st' m old new p sl = Ok sl' /\ slok sl' /\ same_frame sl0 sl' /\
              forall k, oQeq (sabs sl' k) (Mp sl0 (p :: d) k).
Proof.
  intros sl0 Hfull d p sl Hp Hpd Hok Hfr Hag.
  destruct (pred_facts p Hp) as [Hpm [Hpn Hmp]].
  assert (Hmd : mem p d = false) by (apply mem_false; exact Hpd).
  pose proof (in_full_frame _ _ Hfr Hfull) as Hfull'.
  assert (Hg1 : gw_ok sl (kpair p m)) by (apply Hfull'; assumption).
  assert (Hpre1 : oQeq (sabs sl (kpair p m))
            (if from_is sl [st' p; old] then Some (wgt sl (kpair p m)) else None)).
  { eapply oQeq_trans; [apply Hag|]. unfold Mp, Ms, kpair. cbn [touched_p touched_s].
    rewrite N.eqb_refl, Hmd. destruct (N.eqb_spec p m) as [E|_]; [contradiction|]. cbn [andb].
    rewrite (in_spec_at st sl0 p m Hpn Hmp). rewrite (st'_other p Hpm).
    rewrite <- (same_frame_from _ _ [st p; st m] Hfr), <- (same_frame_wgt _ _ [p; m] Hfr).
    apply oQeq_refl. }
  destruct (oQeq_if_some _ _ _ Hpre1) as [Hp1 Ha1].
  unfold upd_pred. rewrite (fill_pred_id m p sl Hg1), rbind_ok.
  destruct (one_key_ok [st' p; old] [st' p; new] (kpair p m) sl Hok Hg1 Hp1 Ha1)
    as [sl' [Eq [Hok' [Hf' [Hk1 Ho]]]]].
  exists sl'. split; [exact Eq|]. split; [exact Hok'|]. split; [eapply same_frame_trans; eassumption|].
  intro k. destruct (keqb_spec k (kpair p m)) as [E1|E1].
  - subst k. eapply oQeq_trans; [exact Hk1|]. unfold Mp, kpair. cbn [touched_p].
    rewrite N.eqb_refl. cbn [mem existsb]. rewrite N.eqb_refl. cbn [orb andb].
    rewrite (in_spec_at st' sl0 p m Hpn Hmp), st'_m.
    rewrite <- (same_frame_from _ _ [st' p; new] Hfr), <- (same_frame_wgt _ _ [p; m] Hfr).
    apply oQeq_refl.
  - eapply oQeq_trans; [apply Ho; assumption|]. eapply oQeq_trans; [apply Hag|]. apply oQeq_of_eq.
    unfold Mp. replace (touched_p (p :: d) k) with (touched_p d k); [reflexivity|].
    destruct k as [|a [|b [|c r]]]; cbn [touched_p]; try reflexivity.
    cbn [mem existsb]. destruct (N.eqb_spec b m) as [Eb|Eb]; cbn [andb]; [|reflexivity].
    subst b. destruct (N.eqb_spec a p) as [E|_]; [subst a; exfalso; apply E1; reflexivity|].
    cbn [orb]. reflexivity.
Qed.

Lemma Mp_nil : forall sl k, Mp sl [] k = Ms sl (rev (gadj g m) ++ []) k.
Proof.
  intros sl k. unfold Mp. replace (touched_p [] k) with false; [reflexivity|].
  destruct k as [|a [|b [|c r]]]; cbn [touched_p mem existsb]; try reflexivity.
  rewrite andb_false_r. reflexivity.
Qed.

Lemma Mp_full : forall sl k, Mp sl (rev (gpred g m) ++ []) k = in_spec st' sl k.
Proof.
  intros sl k. unfold Mp. rewrite app_nil_r.
  destruct (touched_p (rev (gpred g m)) k) eqn:Et; [reflexivity|].
  unfold Ms. rewrite app_nil_r.
  destruct (touched_s (rev (gadj g m)) k) eqn:Es; [reflexivity|].
  destruct k as [|a [|b [|c r]]]; try reflexivity.
  cbn [touched_p] in Et. cbn [touched_s] in Es. rewrite mem_rev in Et, Es.
  destruct (N.eqb_spec a m) as [Ea|Ea].
  - subst a. cbn [andb] in Es. apply mem_false in Es.
    rewrite !in_spec_nonedge; [reflexivity| |]; intros [_ H]; contradiction.
  - destruct (N.eqb_spec b m) as [Eb|Eb].
    + subst b. cbn [andb] in Et. apply mem_false in Et.
      rewrite !in_spec_nonedge; [reflexivity| |]; intros [Ha H]; apply Et;
        apply (g_pred_adj Hg a m Ha Hm); exact H.
    + symmetry. apply in_spec_untouched; assumption.
Qed.

(* ---- one induced slot, either branch, with the roundoff guard ---- *)
Lemma upd_induced_ok : forall sl,
  slok sl -> in_full sl -> (forall k, oQeq (sabs sl k) (in_spec st sl k)) ->
  exists sl', upd_induced g st' m old new sl = Ok sl' /\ slok sl' /\ same_frame sl sl' /\
              forall k, oQeq (sabs sl' k) (in_spec st' sl k).
Proof.
  intros sl Hok Hfull Hag. unfold upd_induced.
  assert (Hloops : exists sl1,
    (if gdirected g
     then rbind (rfold (upd_succ st' m old new) (gadj g m) sl) (rfold (upd_pred st' m old new) (gpred g m))
     else rfold (upd_nbr st' m old new) (gadj g m) sl) = Ok sl1 /\ slok sl1 /\ same_frame sl sl1 /\
    forall k, oQeq (sabs sl1 k) (in_spec st' sl k)).
  { destruct (gdirected g) eqn:Ed.
    - destruct (sfold_agree (upd_succ st' m old new) sl (Ms sl) (gadj g m)
                  (fun d x s1 Hx => upd_succ_ok sl Hfull d x s1 Hx)
                  (g_adj_nodup Hg m Hm) [] sl) as [s1 [E1 [Hok1 [Hf1 Ha1]]]].
      + intros x _ H. exact H.
      + exact Hok.
      + apply same_frame_refl.
      + intro k. rewrite Ms_nil. apply Hag.
      + rewrite E1, rbind_ok.
        destruct (sfold_agree (upd_pred st' m old new) sl (Mp sl) (gpred g m)
                    (fun d x s2 Hx => upd_pred_ok sl Hfull d x s2 Hx)
                    (g_pred_nodup Hg m Hm) [] s1) as [s2 [E2 [Hok2 [Hf2 Ha2]]]].
        * intros x _ H. exact H.
        * exact Hok1.
        * exact Hf1.
        * intro k. rewrite Mp_nil. apply Ha1.
        * exists s2. split; [exact E2|]. split; [exact Hok2|]. split; [exact Hf2|].
          intro k. eapply oQeq_trans; [apply Ha2|]. rewrite Mp_full. apply oQeq_refl.
    - destruct (sfold_agree (upd_nbr st' m old new) sl (Mu sl) (gadj g m)
                  (fun d x s1 Hx => upd_nbr_ok sl Ed Hfull d x s1 Hx)
                  (g_adj_nodup Hg m Hm) [] sl) as [s1 [E1 [Hok1 [Hf1 Ha1]]]].
      + intros x _ H. exact H.
      + exact Hok.
      + apply same_frame_refl.
      + intro k. rewrite Mu_nil. apply Hag.
      + exists s1. split; [exact E1|]. split; [exact Hok1|]. split; [exact Hf1|].
        intro k. eapply oQeq_trans; [apply Ha1|]. rewrite (Mu_full sl k Ed). apply oQeq_refl. }
  destruct Hloops as [sl1 [E1 [Hok1 [Hf1 Ha1]]]]. rewrite E1, rbind_ok.
  destruct (refresh_ok sl1 Hok1) as [sl2 [E2 [Hok2 [Hf2 Hs2]]]].
  exists sl2. split; [exact E2|]. split; [exact Hok2|]. split; [eapply same_frame_trans; eassumption|].
  intro k. rewrite Hs2. apply Ha1.
Qed.

End Update.
(* ------------------------------------------------------------------ *)
(* the invariant of the loop state and its preservation by an event    *)

Definition sp_slot_ok (st : node -> N) (sl : slot) : Prop :=
  slok sl /\ sp_full sl /\ forall k, oQeq (sabs sl k) (sp_spec st sl k).
Definition in_slot_ok (st : node -> N) (sl : slot) : Prop :=
  slok sl /\ in_full sl /\ forall k, oQeq (sabs sl k) (in_spec st sl k).

(* simple_inv: every potential_transitions[tr] is exactly the set of enabled actors *)
Record SInv (s : sst) : Prop := {
  si_sp : Forall (sp_slot_ok (s_stat s)) (s_sp s);
  si_in : Forall (in_slot_ok (s_stat s)) (s_in s)
}.

Lemma rmap_Forall2 : forall (f : slot -> result slot) (P : slot -> Prop) (R : slot -> slot -> Prop) l,
  (forall x, P x -> exists y, f x = Ok y /\ R x y) -> Forall P l ->
  exists l', rmap f l = Ok l' /\ Forall2 R l l'.
Proof.
  intros f P R l Hf. induction l as [|x l IH]; intro HP.
  - exists []. split; [reflexivity|constructor].
  - inversion HP as [|x' l' Hx Hl]; subst x' l'.
    destruct (Hf x Hx) as [y [Ey Ry]]. destruct (IH Hl) as [l' [El Rl]].
    exists (y :: l'). cbn [rmap]. rewrite Ey, rbind_ok, El, rbind_ok. split; [reflexivity|].
    constructor; assumption.
Qed.

Lemma Forall2_Forall_r : forall (R : slot -> slot -> Prop) (P : slot -> Prop) l l',
  Forall2 R l l' -> (forall x y, R x y -> P y) -> Forall P l'.
Proof.
  intros R P l l' H HP. induction H; constructor; [eapply HP; eassumption|assumption].
Qed.

Lemma Forall2_frames : forall l l', Forall2 same_frame l l' -> map sl_tr l' = map sl_tr l.
Proof.
  intros l l' H. induction H as [|x y l l' [Hxy _] _ IH]; [reflexivity|].
  cbn [map]. rewrite Hxy, IH. reflexivity.
Qed.

Definition evolved (P : slot -> Prop) (sl sl' : slot) : Prop := same_frame sl sl' /\ P sl'.

(* the bookkeeping part of an event on node m with new status [new] *)
Lemma update_all_ok : forall s m new,
  SInv s -> In m (gnodes g) ->
  let st' := fupdN (s_stat s) m new in
  exists sp' in',
    rmap (upd_spont m (s_stat s m) new) (s_sp s) = Ok sp' /\
    rmap (upd_induced g st' m (s_stat s m) new) (s_in s) = Ok in' /\
    Forall (sp_slot_ok st') sp' /\ Forall (in_slot_ok st') in' /\
    map sl_tr sp' = map sl_tr (s_sp s) /\ map sl_tr in' = map sl_tr (s_in s).
Proof.
  intros s m new HI Hm st'.
  destruct (rmap_Forall2 (upd_spont m (s_stat s m) new) (sp_slot_ok (s_stat s))
              (evolved (sp_slot_ok st')) (s_sp s)) as [sp' [Esp Hsp]].
  { intros sl [Hok [Hfull Hag]].
    destruct (upd_spont_ok (s_stat s) m new Hm sl Hok Hfull Hag) as [sl' [E [Hok' [Hf' Ha']]]].
    exists sl'. split; [exact E|]. split; [exact Hf'|]. split; [exact Hok'|].
    split; [apply (sp_full_frame _ _ Hf' Hfull)|].
    intro k. rewrite (sp_spec_frame _ _ _ k Hf'). apply Ha'. }
  { apply (si_sp s HI). }
  destruct (rmap_Forall2 (upd_induced g st' m (s_stat s m) new) (in_slot_ok (s_stat s))
              (evolved (in_slot_ok st')) (s_in s)) as [in' [Ein Hin]].
  { intros sl [Hok [Hfull Hag]].
    destruct (upd_induced_ok (s_stat s) m new Hm sl Hok Hfull Hag) as [sl' [E [Hok' [Hf' Ha']]]].
    exists sl'. split; [exact E|]. split; [exact Hf'|]. split; [exact Hok'|].
    split; [apply (in_full_frame _ _ Hf' Hfull)|].
    intro k. rewrite (in_spec_frame _ _ _ k Hf'). apply Ha'. }
  { apply (si_in s HI). }
  exists sp', in'. split; [exact Esp|]. split; [exact Ein|].
  split; [eapply Forall2_Forall_r; [exact Hsp|intros x y [_ H]; exact H]|].
  split; [eapply Forall2_Forall_r; [exact Hin|intros x y [_ H]; exact H]|].
  split; apply Forall2_frames.
  - clear -Hsp. induction Hsp as [|x y l l' [H _] _ IH]; constructor; assumption.
  - clear -Hin. induction Hin as [|x y l l' [H _] _ IH]; constructor; assumption.
Qed.

(* a spontaneous event of node u: tr is enabled for u, i.e. tr_from tr = [status u] *)
Lemma apply_spont_ok : forall rstat full t tr u s,
  SInv s -> In u (gnodes g) -> tr_from tr = [s_stat s u] ->
  let new := hd_status (tr_to tr) in
  exists s', apply_event g rstat full t true tr [u] s = Ok s' /\ SInv s' /\
    s_stat s' = fupdN (s_stat s) u new /\
    s_rows s' = (t, next_counts rstat (hd_counts (s_rows s)) (s_stat s u) new) :: s_rows s /\
    s_elog s' = (if full then (t, u, new) :: s_elog s else s_elog s) /\
    s_tlog s' = s_tlog s /\
    map sl_tr (s_sp s') = map sl_tr (s_sp s) /\ map sl_tr (s_in s') = map sl_tr (s_in s).
Proof.
  intros rstat full t tr u s HI Hu Hfrom new.
  unfold apply_event. cbn [keynode rbind]. rewrite Hfrom. cbn [hd_status].
  destruct (update_all_ok s u new HI Hu) as [sp' [in' [Esp [Ein [Hsp [Hin [Fsp Fin]]]]]]].
  fold new. rewrite Esp, rbind_ok, Ein, rbind_ok.
  eexists. split; [reflexivity|]. split; [constructor; cbn [s_stat s_sp s_in]; assumption|].
  cbn [s_stat s_rows s_elog s_tlog s_sp s_in]. repeat split; assumption.
Qed.

(* an induced event along u -> v: tr is enabled for the ordered pair (u, v) *)
Lemma apply_induced_ok : forall rstat full t tr u v s,
  SInv s -> In v (gnodes g) -> tr_from tr = [s_stat s u; s_stat s v] ->
  let new := snd_status (tr_to tr) in
  exists s', apply_event g rstat full t false tr [u; v] s = Ok s' /\ SInv s' /\
    s_stat s' = fupdN (s_stat s) v new /\
    s_rows s' = (t, next_counts rstat (hd_counts (s_rows s)) (s_stat s v) new) :: s_rows s /\
    s_elog s' = (if full then (t, v, new) :: s_elog s else s_elog s) /\
    s_tlog s' = (if full then (t, Some u, v) :: s_tlog s else s_tlog s) /\
    map sl_tr (s_sp s') = map sl_tr (s_sp s) /\ map sl_tr (s_in s') = map sl_tr (s_in s).
Proof.
  intros rstat full t tr u v s HI Hv Hfrom new.
  unfold apply_event. cbn [keypair rbind fst snd]. rewrite Hfrom. cbn [snd_status].
  destruct (update_all_ok s v new HI Hv) as [sp' [in' [Esp [Ein [Hsp [Hin [Fsp Fin]]]]]]].
  fold new. rewrite Esp, rbind_ok, Ein, rbind_ok.
  eexists. split; [reflexivity|]. split; [constructor; cbn [s_stat s_sp s_in]; assumption|].
  cbn [s_stat s_rows s_elog s_tlog s_sp s_in]. repeat split; assumption.
Qed.

(* ------------------------------------------------------------------ *)
(* which events can fire, and what they do                             *)

(* the event the specification allows: a node of status A turns B (tr = A -> B), or the
   second node of an ordered neighbour pair (u, v), v a successor of u, with statuses
   (A, B) turns C (tr = (A,B) -> (A,C)); nothing else changes *)
Definition is_spec_event (s : sst) (spont : bool) (tr : trans) (a : key) (s' : sst) : Prop :=
  if spont then
    exists u, a = [u] /\ In u (gnodes g) /\ tr_from tr = [s_stat s u] /\
              s_stat s' = fupdN (s_stat s) u (hd_status (tr_to tr))
  else
    exists u v, a = [u; v] /\ In u (gnodes g) /\ In v (gadj g u) /\
                tr_from tr = [s_stat s u; s_stat s v] /\
                s_stat s' = fupdN (s_stat s) v (snd_status (tr_to tr)).

Lemma sp_spec_some : forall st sl k, sp_spec st sl k <> None ->
  exists u, k = [u] /\ In u (gnodes g) /\ tr_from (sl_tr sl) = [st u].
Proof.
  intros st sl [|u [|v r]] H; cbn [sp_spec] in H; try (exfalso; apply H; reflexivity).
  destruct (mem u (gnodes g)) eqn:Em; [|exfalso; apply H; reflexivity].
  destruct (from_is sl [st u]) eqn:Ef; [|exfalso; apply H; reflexivity].
  exists u. split; [reflexivity|]. split; [apply mem_In; exact Em|].
  unfold from_is in Ef. destruct (keqb_spec (tr_from (sl_tr sl)) [st u]); [assumption|discriminate].
Qed.

Lemma in_spec_some : forall st sl k, in_spec st sl k <> None ->
  exists u v, k = [u; v] /\ In u (gnodes g) /\ In v (gadj g u) /\ tr_from (sl_tr sl) = [st u; st v].
Proof.
  intros st sl [|u [|v [|w r]]] H; cbn [in_spec] in H; try (exfalso; apply H; reflexivity).
  destruct (mem u (gnodes g)) eqn:Em; [|exfalso; apply H; reflexivity].
  destruct (mem v (gadj g u)) eqn:Ev; [|exfalso; apply H; reflexivity].
  destruct (from_is sl [st u; st v]) eqn:Ef; [|exfalso; apply H; reflexivity].
  exists u, v. split; [reflexivity|]. split; [apply mem_In; exact Em|]. split; [apply mem_In; exact Ev|].
  unfold from_is in Ef. destruct (keqb_spec (tr_from (sl_tr sl)) [st u; st v]); [assumption|discriminate].
Qed.

Lemma oQeq_not_none : forall a b, oQeq a b -> a <> None -> b <> None.
Proof.
  intros [x|] [y|] H Ha; cbn [oQeq] in H; try discriminate; try contradiction.
Qed.

Lemma nth_error_app_l : forall (l1 l2 : list slot) i x, (i < length l1)%nat ->
  nth_error (l1 ++ l2) i = Some x -> In x l1.
Proof.
  intros l1 l2 i x Hi H. rewrite nth_error_app1 in H by exact Hi. eapply nth_error_In. exact H.
Qed.
Lemma nth_error_app_r : forall (l1 l2 : list slot) i x, (length l1 <= i)%nat ->
  nth_error (l1 ++ l2) i = Some x -> In x l2.
Proof.
  intros l1 l2 i x Hi H. rewrite nth_error_app2 in H by exact Hi. eapply nth_error_In. exact H.
Qed.

(* every (transition, actor) pair the selection can produce fires without error, the
   result is the specification's successor state, and the invariant is preserved *)
Lemma fire_ok : forall rstat full t s i a sl,
  SInv s -> nth_error (s_sp s ++ s_in s) i = Some sl -> sabs sl a <> None ->
  exists s', fire g rstat full t s (i, a) = Ok s' /\ SInv s' /\
             is_spec_event s (Nat.ltb i (length (s_sp s))) (sl_tr sl) a s' /\
             map sl_tr (s_sp s') = map sl_tr (s_sp s) /\ map sl_tr (s_in s') = map sl_tr (s_in s).
Proof.
  intros rstat full t s i a sl HI Hnth Ha. unfold fire. cbn [fst snd]. rewrite Hnth.
  destruct (Nat.ltb_spec i (length (s_sp s))) as [Hi|Hi]; unfold is_spec_event.
  - pose proof (nth_error_app_l _ _ _ _ Hi Hnth) as Hin.
    pose proof (si_sp s HI) as HF. rewrite Forall_forall in HF. destruct (HF sl Hin) as [_ [_ Hag]].
    destruct (sp_spec_some (s_stat s) sl a (oQeq_not_none _ _ (Hag a) Ha)) as [u [Ea [Hu Hfrom]]].
    subst a.
    destruct (apply_spont_ok rstat full t (sl_tr sl) u s HI Hu Hfrom) as [s' [E [HI' [Hst [_ [_ [_ [F1 F2]]]]]]]].
    exists s'. split; [exact E|]. split; [exact HI'|]. split; [|split; assumption].
    exists u. repeat split; assumption.
  - pose proof (nth_error_app_r _ _ _ _ Hi Hnth) as Hin.
    pose proof (si_in s HI) as HF. rewrite Forall_forall in HF. destruct (HF sl Hin) as [_ [_ Hag]].
    destruct (in_spec_some (s_stat s) sl a (oQeq_not_none _ _ (Hag a) Ha)) as [u [v [Ea [Hu [Hv Hfrom]]]]].
    subst a.
    assert (Hvn : In v (gnodes g)) by (apply (g_adj_in Hg u v Hu Hv)).
    destruct (apply_induced_ok rstat full t (sl_tr sl) u v s HI Hvn Hfrom) as [s' [E [HI' [Hst [_ [_ [_ [F1 F2]]]]]]]].
    exists s'. split; [exact E|]. split; [exact HI'|]. split; [|split; assumption].
    exists u, v. repeat split; assumption.
Qed.

End Ev.

(* ------------------------------------------------------------------ *)
(* the law of one selection                                            *)

Lemma in_scale : forall A (x : A) q p (d : dist A),
  In (x, q) (scale p d) <-> exists q', In (x, q') d /\ q = p * q'.
Proof.
  intros A x q p d. unfold scale. rewrite in_map_iff. split.
  - intros [[y w] [E Hin]]. cbn [fst snd] in E. injection E as E1 E2. subst y q.
    exists w. split; [exact Hin|reflexivity].
  - intros [q' [Hin E]]. exists (x, q'). split; [cbn [fst snd]; rewrite E; reflexivity|exact Hin].
Qed.

Lemma in_combine_seq : forall (ps : list Q) start i p,
  In (i, p) (combine (seq start (length ps)) ps) <->
  (start <= i)%nat /\ nth_error ps (i - start) = Some p.
Proof.
  induction ps as [|p0 ps IH]; intros start i p; cbn [length seq combine].
  - split; [intros []|]. intros [_ H]. destruct (i - start)%nat; discriminate.
  - cbn [In]. rewrite IH. split.
    + intros [E|[Hle Hn]].
      * injection E as E1 E2. subst i p. split; [lia|]. rewrite Nat.sub_diag. reflexivity.
      * split; [lia|]. replace (i - start)%nat with (S (i - S start)) by lia. exact Hn.
    + intros [Hle Hn]. destruct (i - start)%nat as [|j] eqn:Ej.
      * left. cbn [nth_error] in Hn. injection Hn as Hn. subst p. f_equal. lia.
      * right. split; [lia|]. replace (i - S start)%nat with j by lia. exact Hn.
Qed.

Lemma law_casc_in : forall A (ps : list Q) (k : nat -> samp A) x q,
  In (x, q) (law (Casc ps k)) <->
  exists i p q', nth_error ps i = Some p /\ In (x, q') (law (k i)) /\ q = p * q'.
Proof.
  intros A ps k x q. cbn [law]. rewrite in_concat. split.
  - intros [l [Hl Hx]]. apply in_map_iff in Hl. destruct Hl as [[i p] [El Hip]]. subst l.
    cbn [fst snd] in Hx. apply in_scale in Hx. destruct Hx as [q' [Hq E]].
    apply in_combine_seq in Hip. destruct Hip as [_ Hn]. rewrite Nat.sub_0_r in Hn.
    exists i, p, q'. repeat split; assumption.
  - intros [i [p [q' [Hn [Hq E]]]]].
    exists (scale p (law (k i))). split.
    + apply in_map_iff. exists (i, p). split; [reflexivity|].
      apply in_combine_seq. split; [lia|]. rewrite Nat.sub_0_r. exact Hn.
    + apply in_scale. exists q'. split; assumption.
Qed.

Lemma law_choose_in : forall A (w : bool) (c : list (key * Q)) (k : key -> samp A) x q,
  In (x, q) (law (Choose w c k)) <->
  exists a wa q', In (a, wa) c /\ In (x, q') (law (k a)) /\
                  q = (if w then wa / wsum c else 1 / Qnat (length c)) * q'.
Proof.
  intros A w c k x q. cbn [law]. rewrite in_concat. split.
  - intros [l [Hl Hx]]. apply in_map_iff in Hl. destruct Hl as [[a wa] [El Hin]]. subst l.
    cbn [fst snd] in Hx. apply in_scale in Hx. destruct Hx as [q' [Hq E]].
    exists a, wa, q'. repeat split; assumption.
  - intros [a [wa [q' [Hin [Hq E]]]]].
    exists (scale (if w then wa / wsum c else 1 / Qnat (length c)) (law (k a))). split.
    + apply in_map_iff. exists (a, wa). split; [reflexivity|exact Hin].
    + apply in_scale. exists q'. split; assumption.
Qed.

(* the candidates handed to choose_random: the items, each with its weight *)
Lemma kinsert_perm : forall V (kv : key * V) l, Permutation (kinsert kv l) (kv :: l).
Proof.
  intros V kv l. induction l as [|h t IH]; cbn [kinsert]; [apply Permutation_refl|].
  destruct (kltb (fst kv) (fst h)); [apply Permutation_refl|].
  eapply Permutation_trans; [apply perm_skip; exact IH|apply perm_swap].
Qed.
Lemma ksort_perm : forall V (l : list (key * V)), Permutation (ksort l) l.
Proof.
  intros V l. induction l as [|h t IH]; [apply Permutation_refl|].
  unfold ksort in *. cbn [fold_right].
  eapply Permutation_trans; [apply kinsert_perm|]. apply perm_skip. exact IH.
Qed.

Definition aw (L : kld) (k : key) : Q := if weighted L then wread key L k else 1.

Lemma kl_cands_in : forall (L : kld) a wa,
  In (a, wa) (kl_cands L) <-> In a (items L) /\ wa = aw L a.
Proof.
  intros L a wa. unfold kl_cands. split.
  - intro H. apply (Permutation_in _ (ksort_perm _ _)) in H. apply in_map_iff in H.
    destruct H as [k [E Hk]]. injection E as E1 E2. subst k wa. split; [exact Hk|reflexivity].
  - intros [Hin E]. apply (Permutation_in _ (Permutation_sym (ksort_perm _ _))).
    apply in_map_iff. exists a. split; [subst wa; reflexivity|exact Hin].
Qed.

Lemma kl_cands_wsum : forall L : kld, wsum (kl_cands L) == sumQ (map (aw L) (items L)).
Proof.
  intro L. unfold wsum, kl_cands.
  rewrite (sumQ_perm _ _ (Permutation_map snd (ksort_perm _ _))).
  rewrite map_map. cbn [snd]. reflexivity.
Qed.

Lemma kl_cands_length : forall L : kld, length (kl_cands L) = length (items L).
Proof.
  intro L. unfold kl_cands. rewrite (Permutation_length (ksort_perm _ _)). apply map_length.
Qed.

Lemma aw_abs : forall (L : kld) a, kinv L -> In a (items L) -> kabs L a = Some (aw L a).
Proof.
  intros L a Hinv Hin. rewrite (abs_unfold key).
  apply (pos_in key _ _ (inv_pos key L Hinv)) in Hin.
  destruct (pos L a); [reflexivity|contradiction Hin; reflexivity].
Qed.

Lemma total_weight_aw : forall L : kld, kinv L ->
  ld_total_weight key L == sumQ (map (aw L) (items L)).
Proof.
  intros L Hinv. rewrite (kl_total L Hinv). apply sumQ_map_ext_in. intros x Hx.
  unfold absw. rewrite (aw_abs L x Hinv Hx). reflexivity.
Qed.

Lemma aw_nonneg : forall (L : kld) a, kinv L -> 0 <= aw L a.
Proof.
  intros L a Hinv. unfold aw. destruct (weighted L) eqn:Ew; [|lra].
  apply (wread_nonneg key L a Hinv Ew).
Qed.

Lemma elem_le_sum : forall (f : key -> Q) l a, (forall x, 0 <= f x) -> In a l -> f a <= sumQ (map f l).
Proof.
  intros f l a Hf. induction l as [|h t IH]; [intros []|]. intros [E|Hin]; cbn [map]; rewrite sumQ_cons.
  - subst h. assert (H : 0 <= sumQ (map f t)).
    { apply sumQ_nonneg. intros x Hx. apply in_map_iff in Hx. destruct Hx as [y [E _]]. subst x. apply Hf. }
    lra.
  - pose proof (IH Hin). pose proof (Hf h). lra.
Qed.

Section Law.
Variable g : graph.
Hypothesis Hg : wfg2 g.

Lemma slot_inv_of : forall s sl, SInv g s -> In sl (s_sp s ++ s_in s) -> slok sl.
Proof.
  intros s sl HI Hin. apply in_app_or in Hin. destruct Hin as [H|H].
  - pose proof (si_sp g s HI) as HF. rewrite Forall_forall in HF. apply (HF sl H).
  - pose proof (si_in g s HI) as HF. rewrite Forall_forall in HF. apply (HF sl H).
Qed.

(* the weight the bookkeeping holds for an enabled actor is the specification's *)
Lemma aw_is_wgt : forall s sl a, SInv g s -> In sl (s_sp s ++ s_in s) -> In a (items (sl_pot sl)) ->
  aw (sl_pot sl) a == wgt sl a.
Proof.
  intros s sl a HI Hin Ha.
  pose proof (slot_inv_of s sl HI Hin) as Hok.
  pose proof (aw_abs (sl_pot sl) a (so_inv sl Hok) Ha) as Habs.
  apply in_app_or in Hin. destruct Hin as [H|H].
  - pose proof (si_sp g s HI) as HF. rewrite Forall_forall in HF. destruct (HF sl H) as [_ [_ Hag]].
    specialize (Hag a). unfold sabs in Hag. rewrite Habs in Hag.
    destruct a as [|u [|v r]]; cbn [sp_spec] in Hag; try contradiction.
    destruct (mem u (gnodes g) && from_is sl [s_stat s u]); [exact Hag|contradiction].
  - pose proof (si_in g s HI) as HF. rewrite Forall_forall in HF. destruct (HF sl H) as [_ [_ Hag]].
    specialize (Hag a). unfold sabs in Hag. rewrite Habs in Hag.
    destruct a as [|u [|v [|w r]]]; cbn [in_spec] in Hag; try contradiction.
    destruct (mem u (gnodes g) && mem v (gadj g u) && from_is sl [s_stat s u; s_stat s v]);
      [exact Hag|contradiction].
Qed.

(* simple_step_law, soundness: every outcome of the selection with its mass *)
Lemma select_law_sound : forall s i a q,
  SInv g s -> 0 < total_rate s -> In ((i, a), q) (law (select s)) ->
  exists sl, nth_error (s_sp s ++ s_in s) i = Some sl /\ sabs sl a <> None /\
             q == tr_rate (sl_tr sl) * wgt sl a / total_rate s.
Proof.
  intros s i a q HI Htot Hin. unfold select in Hin.
  apply law_casc_in in Hin. destruct Hin as [j [p [q' [Hp [Hq E]]]]].
  rewrite nth_error_map in Hp.
  destruct (nth_error (s_sp s ++ s_in s) j) as [sl|] eqn:Enth; [|discriminate].
  cbn [option_map] in Hp. injection Hp as Hp.
  apply law_choose_in in Hq. destruct Hq as [b [wb [q'' [Hc [Hr E2]]]]].
  cbn [law In] in Hr. destruct Hr as [Hr|Hr]; [|contradiction]. injection Hr as E3 E4 E5. subst j b q''.
  apply kl_cands_in in Hc. destruct Hc as [Hitems Ewb].
  pose proof (nth_error_In _ _ Enth) as Hsl.
  pose proof (slot_inv_of s sl HI Hsl) as Hok.
  pose proof (so_inv sl Hok) as Hinv.
  exists sl. split; [exact Enth|]. split.
  - unfold sabs. rewrite (aw_abs _ _ Hinv Hitems). discriminate.
  - rewrite <- (aw_is_wgt s sl a HI Hsl Hitems). subst q q' p wb. unfold slot_rate.
    pose proof (total_weight_aw _ Hinv) as Htw.
    pose proof (aw_nonneg (sl_pot sl) a Hinv) as Hnn.
    pose proof (elem_le_sum (aw (sl_pot sl)) _ a (fun x => aw_nonneg _ x Hinv) Hitems) as Hle.
    destruct (weighted (sl_pot sl)) eqn:Ew.
    + rewrite kl_cands_wsum, <- Htw.
      destruct (Qeq_dec (ld_total_weight key (sl_pot sl)) 0) as [Ez|Ez].
      * assert (Ha0 : aw (sl_pot sl) a == 0) by (rewrite <- Htw, Ez in Hle; lra).
        rewrite Ez, Ha0. unfold Qdiv. ring.
      * field. split; [lra|exact Ez].
    + rewrite kl_cands_length.
      assert (Hlen : 0 < Qnat (length (items (sl_pot sl)))).
      { apply Qnat_pos. destruct (items (sl_pot sl)); [contradiction|cbn [length]; lia]. }
      unfold ld_total_weight, aw. rewrite Ew. field. split; lra.
Qed.

(* completeness: every enabled (transition, actor) pair is an outcome *)
Lemma select_law_complete : forall s i a sl,
  SInv g s -> nth_error (s_sp s ++ s_in s) i = Some sl -> sabs sl a <> None ->
  exists q, In ((i, a), q) (law (select s)).
Proof.
  intros s i a sl HI Hnth Ha.
  pose proof (slot_inv_of s sl HI (nth_error_In _ _ Hnth)) as Hok.
  assert (Hitems : In a (items (sl_pot sl))) by (apply (kl_items_abs _ _ (so_inv sl Hok)); exact Ha).
  eexists. unfold select. apply law_casc_in.
  exists i, (slot_rate sl / total_rate s). eexists. split; [|split; [|reflexivity]].
  - rewrite nth_error_map, Hnth. reflexivity.
  - rewrite Hnth. apply law_choose_in. exists a, (aw (sl_pot sl) a). eexists.
    split; [apply kl_cands_in; split; [exact Hitems|reflexivity]|].
    split; [cbn [law In]; left; reflexivity|reflexivity].
Qed.

(* the holding rate: total_rate is the sum, over the transitions, of rate x (sum of the
   weights of the enabled actors) *)
Lemma total_rate_spec : forall s, SInv g s ->
  total_rate s ==
  sumQ (map (fun sl => tr_rate (sl_tr sl) * sumQ (map (wgt sl) (items (sl_pot sl)))) (s_sp s ++ s_in s)).
Proof.
  intros s HI. unfold total_rate. apply sumQ_map_ext_in. intros sl Hsl. unfold slot_rate.
  pose proof (slot_inv_of s sl HI Hsl) as Hok.
  rewrite (total_weight_aw _ (so_inv sl Hok)).
  assert (E : sumQ (map (aw (sl_pot sl)) (items (sl_pot sl))) == sumQ (map (wgt sl) (items (sl_pot sl)))).
  { apply sumQ_map_ext_in. intros a Ha. apply (aw_is_wgt s sl a HI Hsl Ha). }
  rewrite E. reflexivity.
Qed.

(* the items of a slot are exactly the enabled actors *)
Lemma items_enabled_sp : forall s sl a, SInv g s -> In sl (s_sp s) ->
  (In a (items (sl_pot sl)) <-> sp_spec g (s_stat s) sl a <> None).
Proof.
  intros s sl a HI Hsl. pose proof (si_sp g s HI) as HF. rewrite Forall_forall in HF.
  destruct (HF sl Hsl) as [Hok [_ Hag]]. rewrite (kl_items_abs _ _ (so_inv sl Hok)).
  specialize (Hag a). unfold sabs in Hag. split; intro H.
  - eapply oQeq_not_none; eassumption.
  - eapply oQeq_not_none; [apply oQeq_sym; exact Hag|exact H].
Qed.
Lemma items_enabled_in : forall s sl a, SInv g s -> In sl (s_in s) ->
  (In a (items (sl_pot sl)) <-> in_spec g (s_stat s) sl a <> None).
Proof.
  intros s sl a HI Hsl. pose proof (si_in g s HI) as HF. rewrite Forall_forall in HF.
  destruct (HF sl Hsl) as [Hok [_ Hag]]. rewrite (kl_items_abs _ _ (so_inv sl Hok)).
  specialize (Hag a). unfold sabs in Hag. split; intro H.
  - eapply oQeq_not_none; eassumption.
  - eapply oQeq_not_none; [apply oQeq_sym; exact Hag|exact H].
Qed.

End Law.

(* ------------------------------------------------------------------ *)
(* each outcome of the selection is listed once: its mass in the list IS its probability *)
Lemma NoDup_app_disjoint : forall (A : Type) (l1 l2 : list A),
  NoDup l1 -> NoDup l2 -> (forall x, In x l1 -> ~ In x l2) -> NoDup (l1 ++ l2).
Proof.
  intros A l1 l2 H1 H2 Hd. induction l1 as [|a l1 IH]; [exact H2|].
  apply NoDup_cons_iff in H1. destruct H1 as [Ha H1]. cbn [app]. constructor.
  - intro Hin. apply in_app_or in Hin. destruct Hin as [Hin|Hin]; [contradiction|].
    apply (Hd a (or_introl eq_refl)). exact Hin.
  - apply IH; [exact H1|]. intros x Hx. apply Hd. right. exact Hx.
Qed.

Lemma map_fst_scale : forall A p (d : dist A), map fst (scale p d) = map fst d.
Proof. intros A p d. unfold scale. rewrite map_map. reflexivity. Qed.

Lemma kl_cands_keys : forall L : kld, Permutation (map fst (kl_cands L)) (items L).
Proof.
  intro L. unfold kl_cands. eapply Permutation_trans; [apply Permutation_map; apply ksort_perm|].
  rewrite map_map. cbn [fst]. rewrite map_id. apply Permutation_refl.
Qed.

Definition sel_block (slots : list slot) (i : nat) : list (nat * key) :=
  match nth_error slots i with
  | None => []
  | Some sl => map (fun cw => (i, fst cw)) (kl_cands (sl_pot sl))
  end.

Lemma choose_block_outcomes : forall (coef : key * Q -> Q) (i : nat) (c : list (key * Q)),
  concat (map (fun x => map fst (scale (coef x) [((i, fst x), 1)])) c) = map (fun cw => (i, fst cw)) c.
Proof.
  intros coef i c. induction c as [|cw c IH]; [reflexivity|].
  cbn [map concat]. rewrite IH. reflexivity.
Qed.

Lemma select_outcomes : forall s,
  map fst (law (select s)) =
  concat (map (fun ip => sel_block (s_sp s ++ s_in s) (fst ip))
              (combine (seq 0 (length (s_sp s ++ s_in s)))
                       (map (fun sl => slot_rate sl / total_rate s) (s_sp s ++ s_in s)))).
Proof.
  intro s. unfold select. cbn [law]. rewrite map_length, concat_map, map_map.
  f_equal. apply map_ext. intros [i p]. cbn [fst snd]. rewrite map_fst_scale.
  unfold sel_block. destruct (nth_error (s_sp s ++ s_in s) i) as [sl|]; [|reflexivity].
  cbn [law]. rewrite concat_map, map_map. apply choose_block_outcomes.
Qed.

Lemma sel_blocks_nodup : forall slots (ps : list Q) start,
  (forall sl, In sl slots -> NoDup (items (sl_pot sl))) ->
  NoDup (concat (map (fun ip : nat * Q => sel_block slots (fst ip)) (combine (seq start (length ps)) ps))) /\
  forall x, In x (concat (map (fun ip : nat * Q => sel_block slots (fst ip)) (combine (seq start (length ps)) ps))) ->
            (start <= fst x)%nat.
Proof.
  intros slots ps. induction ps as [|p ps IH]; intros start Hnd; cbn [length seq combine map concat].
  - split; [constructor|intros x []].
  - destruct (IH (S start) Hnd) as [IH1 IH2].
    assert (Hb : forall x, In x (sel_block slots start) -> fst x = start).
    { intros x Hx. unfold sel_block in Hx. destruct (nth_error slots start); [|contradiction].
      apply in_map_iff in Hx. destruct Hx as [cw [E _]]. subst x. reflexivity. }
    split.
    + cbn [fst]. apply NoDup_app_disjoint; [|exact IH1|].
      * unfold sel_block. destruct (nth_error slots start) as [sl|] eqn:En; [|constructor].
        assert (Hk : NoDup (map fst (kl_cands (sl_pot sl)))).
        { apply (Permutation_NoDup (Permutation_sym (kl_cands_keys _))). apply Hnd.
          eapply nth_error_In. exact En. }
        rewrite <- (map_map fst (fun k => (start, k))).
        apply FinFun.Injective_map_NoDup; [|exact Hk].
        intros a b E. injection E as E. exact E.
      * intros x Hx Hx2. apply Hb in Hx. apply IH2 in Hx2. lia.
    + cbn [fst]. intros x Hx. apply in_app_or in Hx. destruct Hx as [Hx|Hx]; [apply Hb in Hx; lia|apply IH2 in Hx; lia].
Qed.

Lemma select_law_nodup : forall g s, SInv g s -> NoDup (map fst (law (select s))).
Proof.
  intros g s HI. rewrite select_outcomes.
  replace (length (s_sp s ++ s_in s))
    with (length (map (fun sl => slot_rate sl / total_rate s) (s_sp s ++ s_in s))) by apply map_length.
  apply sel_blocks_nodup. intros sl Hsl.
  apply (inv_nodup key). apply (so_inv sl). apply (slot_inv_of g s sl HI Hsl).
Qed.

(* ------------------------------------------------------------------ *)
(* the loop: waiting-time rate and stop rule                           *)
Lemma loop_stops_at_zero : forall g ic rstat tmin tmax full fuel t s,
  ~ 0 < total_rate s ->
  loop g ic rstat tmin tmax full fuel t s = lifts (finish g ic rstat tmin full s).
Proof.
  intros g ic rstat tmin tmax full fuel t s H. destruct fuel; cbn [loop];
    (destruct (Qltb 0 (total_rate s)) eqn:E; [apply Qltb_true in E; contradiction|reflexivity]).
Qed.

Lemma loop_step : forall g ic rstat tmin tmax full fuel t s,
  0 < total_rate s ->
  loop g ic rstat tmin tmax full (S fuel) t s =
  Expo (total_rate s) (fun d =>
    if xlt (t + d) tmax
    then bind (jump g rstat full (t + d) s) (fun s' => loop g ic rstat tmin tmax full fuel (t + d) s')
    else lifts (finish g ic rstat tmin full s)).
Proof.
  intros g ic rstat tmin tmax full fuel t s H. cbn [loop].
  apply Qltb_true in H. rewrite H. reflexivity.
Qed.

Lemma xlt_spec : forall a b, xlt a b = true <-> match b with None => True | Some m => a < m end.
Proof.
  intros a [m|]; cbn [xlt]; [|split; auto].
  destruct (Qlt_le_dec a m); split; intro H; try reflexivity; try assumption; try discriminate. lra.
Qed.

(* ------------------------------------------------------------------ *)
(* counts track statuses                                               *)
Section Counts.
Variable g : graph.
Hypothesis Hnd : NoDup (gnodes g).

Definition cnt_list (l : list node) (st : node -> N) (x : N) : Z :=
  Z.of_nat (length (filter (fun u => N.eqb (st u) x) l)).

Lemma cnt_list_notin : forall l st m new x, ~ In m l ->
  cnt_list l (fupdN st m new) x = cnt_list l st x.
Proof.
  intros l st m new x H. unfold cnt_list. f_equal. f_equal. apply filter_ext_in.
  intros a Ha. rewrite fupdN_other; [reflexivity|]. intro E. subst a. contradiction.
Qed.

Lemma cnt_list_upd : forall l st m new x, NoDup l -> In m l ->
  cnt_list l (fupdN st m new) x =
  (cnt_list l st x - b2z (N.eqb x (st m)) + b2z (N.eqb x new))%Z.
Proof.
  induction l as [|a l IH]; intros st m new x Hn Hin; [contradiction|].
  apply NoDup_cons_iff in Hn. destruct Hn as [Ha Hn].
  destruct (N.eq_dec a m) as [E|E].
  - subst a. unfold cnt_list. cbn [filter]. rewrite fupdN_same.
    fold (cnt_list l (fupdN st m new) x). 
    assert (Hrest : length (filter (fun u => N.eqb (fupdN st m new u) x) l) =
                    length (filter (fun u => N.eqb (st u) x) l)).
    { f_equal. apply filter_ext_in. intros b Hb. rewrite fupdN_other; [reflexivity|].
      intro E. subst b. contradiction. }
    rewrite (N.eqb_sym x (st m)), (N.eqb_sym x new).
    destruct (N.eqb new x); destruct (N.eqb (st m) x); cbn [length b2z]; rewrite Hrest; lia.
  - destruct Hin as [Hin|Hin]; [contradiction|].
    specialize (IH st m new x Hn Hin). unfold cnt_list in *. cbn [filter].
    rewrite (fupdN_other st m new a E).
    destruct (N.eqb (st a) x); cbn [length]; lia.
Qed.

Lemma count_status_upd : forall st m new x, In m (gnodes g) ->
  count_status g (fupdN st m new) x =
  (count_status g st x - b2z (N.eqb x (st m)) + b2z (N.eqb x new))%Z.
Proof. intros. apply (cnt_list_upd (gnodes g)); assumption. Qed.

Lemma combine_map_r : forall (A B C : Type) (f : A -> B) (h : A * B -> C) (l : list A),
  map h (combine l (map f l)) = map (fun x => h (x, f x)) l.
Proof. induction l as [|a l IH]; [reflexivity|]. cbn [map combine]. rewrite IH. reflexivity. Qed.

(* the row appended by an event is the count of every return status in the new statuses *)
Lemma next_counts_track : forall rstat st m new, In m (gnodes g) ->
  next_counts rstat (map (count_status g st) rstat) (st m) new =
  map (count_status g (fupdN st m new)) rstat.
Proof.
  intros rstat st m new Hm. unfold next_counts. rewrite combine_map_r. apply map_ext.
  intro x. cbn [fst snd]. rewrite (count_status_upd st m new x Hm). reflexivity.
Qed.
End Counts.

(* rows invariant: the newest row holds the current count of every return status *)
Definition RInv (g : graph) (rstat : list N) (s : sst) : Prop :=
  hd_counts (s_rows s) = map (count_status g (s_stat s)) rstat.

Lemma fire_counts : forall g (Hg : wfg2 g) rstat full t s i a sl s',
  SInv g s -> RInv g rstat s -> nth_error (s_sp s ++ s_in s) i = Some sl -> sabs sl a <> None ->
  fire g rstat full t s (i, a) = Ok s' ->
  RInv g rstat s' /\ exists c, s_rows s' = (t, c) :: s_rows s.
Proof.
  intros g Hg rstat full t s i a sl s' HI HR Hnth Ha Hfire.
  unfold fire in Hfire. cbn [fst snd] in Hfire. rewrite Hnth in Hfire. revert Hfire.
  destruct (Nat.ltb_spec i (length (s_sp s))) as [Hi|Hi]; intro Hfire.
  - pose proof (nth_error_app_l _ _ _ _ Hi Hnth) as Hin.
    pose proof (si_sp g s HI) as HF. rewrite Forall_forall in HF. destruct (HF sl Hin) as [_ [_ Hag]].
    destruct (sp_spec_some g (s_stat s) sl a (oQeq_not_none _ _ (Hag a) Ha)) as [u [Ea [Hu Hfrom]]].
    subst a.
    destruct (apply_spont_ok g Hg rstat full t (sl_tr sl) u s HI Hu Hfrom) as [s1 [E [_ [Hst [Hrows _]]]]].
    pose proof (eq_trans (eq_sym E) Hfire) as X. injection X as X. subst s1. split; [|eexists; exact Hrows].
    unfold RInv. rewrite Hrows, Hst. cbn [hd_counts]. rewrite HR.
    apply (next_counts_track g (g_nodup g Hg)). exact Hu.
  - pose proof (nth_error_app_r _ _ _ _ Hi Hnth) as Hin.
    pose proof (si_in g s HI) as HF. rewrite Forall_forall in HF. destruct (HF sl Hin) as [_ [_ Hag]].
    destruct (in_spec_some g (s_stat s) sl a (oQeq_not_none _ _ (Hag a) Ha)) as [u [v [Ea [Hu [Hv Hfrom]]]]].
    subst a.
    assert (Hvn : In v (gnodes g)) by (apply (g_adj_in g Hg u v Hu Hv)).
    destruct (apply_induced_ok g Hg rstat full t (sl_tr sl) u v s HI Hvn Hfrom) as [s1 [E [_ [Hst [Hrows _]]]]].
    pose proof (eq_trans (eq_sym E) Hfire) as X. injection X as X. subst s1. split; [|eexists; exact Hrows].
    unfold RInv. rewrite Hrows, Hst. cbn [hd_counts]. rewrite HR.
    apply (next_counts_track g (g_nodup g Hg)). exact Hvn.
Qed.

(* ------------------------------------------------------------------ *)
(* set-up and initial filling establish the invariant                   *)

Lemma Forall2_same_frame_refl : forall l, Forall2 same_frame l l.
Proof. induction l; constructor; [apply same_frame_refl|assumption]. Qed.
Lemma Forall2_same_frame_trans : forall a b c,
  Forall2 same_frame a b -> Forall2 same_frame b c -> Forall2 same_frame a c.
Proof.
  intros a b c H. revert c. induction H as [|x y l l' Hxy _ IH]; intros c Hc; inversion Hc; subst.
  - constructor.
  - constructor; [eapply same_frame_trans; eassumption|apply IH; assumption].
Qed.

(* a fold over a duplicate-free list whose body maps a per-slot step over all slots *)
Lemma lfold_agree : forall (step : node -> slot -> result slot) (P : list node -> slot -> Prop) (l : list node),
  (forall d x sl, In x l -> ~ In x d -> P d sl ->
      exists sl', step x sl = Ok sl' /\ same_frame sl sl' /\ P (x :: d) sl') ->
  NoDup l -> forall d sls, (forall x, In x l -> ~ In x d) -> Forall (P d) sls ->
  exists sls', fold_left (fun acc v => rbind acc (rmap (step v))) l (Ok sls) = Ok sls' /\
               Forall2 same_frame sls sls' /\ Forall (P (rev l ++ d)) sls'.
Proof.
  intros step P l. induction l as [|x l IH]; intros Hstep Hnd d sls Hd HP.
  - exists sls. cbn [fold_left rev app]. split; [reflexivity|]. split; [apply Forall2_same_frame_refl|exact HP].
  - apply NoDup_cons_iff in Hnd. destruct Hnd as [Hx Hnd'].
    destruct (rmap_Forall2 (step x) (P d) (evolved (P (x :: d))) sls) as [s1 [E1 H1]].
    { intros sl Hsl. destruct (Hstep d x sl (or_introl eq_refl) (Hd x (or_introl eq_refl)) Hsl)
        as [sl' [E [Hf HP']]]. exists sl'. split; [exact E|split; assumption]. }
    { exact HP. }
    cbn [fold_left rbind]. rewrite E1.
    destruct (IH (fun d0 x0 sl0 Hin => Hstep d0 x0 sl0 (or_intror Hin)) Hnd' (x :: d) s1)
      as [s2 [E2 [F2 H2]]].
    + intros y Hy [E|Hyd]; [subst y; contradiction|]. apply (Hd y (or_intror Hy)). exact Hyd.
    + eapply Forall2_Forall_r; [exact H1|intros a b [_ H]; exact H].
    + exists s2. split; [exact E2|]. split.
      * eapply Forall2_same_frame_trans; [|exact F2].
        clear -H1. induction H1 as [|a b l1 l2 [H _] _ IH]; constructor; assumption.
      * cbn [rev]. rewrite <- app_assoc. cbn [app]. exact H2.
Qed.

Section Init.
Variable g : graph.
Hypothesis Hg : wfg2 g.
Variable st : node -> N.

Definition SPd (done : list node) (sl : slot) (k : key) : option Q :=
  match k with [u] => if mem u done then sp_spec g st sl k else None | _ => None end.
Definition INd (done : list node) (sl : slot) (k : key) : option Q :=
  match k with [u; v] => if mem u done then in_spec g st sl k else None | _ => None end.
Definition INu (done : list node) (u : node) (d : list node) (sl : slot) (k : key) : option Q :=
  match k with
  | [a; b] => if N.eqb a u then (if mem b d then in_spec g st sl k else None) else INd done sl k
  | _ => None
  end.

Definition SPp (done : list node) (sl : slot) : Prop :=
  slok sl /\ sp_full g sl /\ forall k, oQeq (sabs sl k) (SPd done sl k).
Definition INp (done : list node) (sl : slot) : Prop :=
  slok sl /\ in_full g sl /\ forall k, oQeq (sabs sl k) (INd done sl k).
Definition INq (done : list node) (u : node) (d : list node) (sl : slot) : Prop :=
  slok sl /\ in_full g sl /\ forall k, oQeq (sabs sl k) (INu done u d sl k).

Lemma init_sp_step : forall done u sl, In u (gnodes g) -> ~ In u done -> SPp done sl ->
  exists sl', when (from_is sl [st u]) (add_actor (knode u)) sl = Ok sl' /\ same_frame sl sl' /\
              SPp (u :: done) sl'.
Proof.
  intros done u sl Hu Hnd [Hok [Hfull Hag]].
  assert (Hn : sabs sl (knode u) = None).
  { apply oQeq_none_l. eapply oQeq_trans; [apply Hag|]. unfold knode. cbn [SPd].
    replace (mem u done) with false by (symmetry; apply mem_false; exact Hnd). exact I. }
  destruct (when_add_ok (from_is sl [st u]) (knode u) sl Hok (Hfull u Hu) (fun _ => Hn))
    as [sl' [E [Hok' [Hf [Hk Ho]]]]].
  exists sl'. split; [exact E|]. split; [exact Hf|]. split; [exact Hok'|].
  split; [apply (sp_full_frame g _ _ Hf Hfull)|].
  intro k. destruct (keqb_spec k (knode u)) as [Ek|Ek].
  - subst k. eapply oQeq_trans; [exact Hk|]. rewrite Hn. unfold knode. cbn [SPd mem existsb].
    rewrite N.eqb_refl. cbn [orb]. rewrite (sp_spec_frame g _ _ _ [u] Hf). cbn [sp_spec].
    rewrite (mem_true_In _ _ Hu). cbn [andb]. destruct (from_is sl [st u]); apply oQeq_refl.
  - eapply oQeq_trans; [apply Ho; exact Ek|]. eapply oQeq_trans; [apply Hag|]. apply oQeq_of_eq.
    destruct k as [|a [|b r]]; cbn [SPd]; try reflexivity.
    cbn [mem existsb]. destruct (N.eqb_spec a u) as [Ea|Ea]; [subst a; exfalso; apply Ek; reflexivity|].
    cbn [orb]. rewrite (sp_spec_frame g _ _ _ [a] Hf). reflexivity.
Qed.

Lemma init_in_step : forall done u, In u (gnodes g) ->
  forall d v sl, In v (gadj g u) -> ~ In v d -> INq done u d sl ->
  exists sl', when (from_is sl [st u; st v]) (add_actor (kpair u v)) sl = Ok sl' /\ same_frame sl sl' /\
              INq done u (v :: d) sl'.
Proof.
  intros done u Hu d v sl Hv Hvd [Hok [Hfull Hag]].
  assert (Hn : sabs sl (kpair u v) = None).
  { apply oQeq_none_l. eapply oQeq_trans; [apply Hag|]. unfold kpair. cbn [INu].
    rewrite N.eqb_refl. replace (mem v d) with false by (symmetry; apply mem_false; exact Hvd). exact I. }
  destruct (when_add_ok (from_is sl [st u; st v]) (kpair u v) sl Hok (Hfull u v Hu Hv) (fun _ => Hn))
    as [sl' [E [Hok' [Hf [Hk Ho]]]]].
  exists sl'. split; [exact E|]. split; [exact Hf|]. split; [exact Hok'|].
  split; [apply (in_full_frame g _ _ Hf Hfull)|].
  intro k. destruct (keqb_spec k (kpair u v)) as [Ek|Ek].
  - subst k. eapply oQeq_trans; [exact Hk|]. rewrite Hn. unfold kpair. cbn [INu mem existsb].
    rewrite !N.eqb_refl. cbn [orb]. rewrite (in_spec_frame g _ _ _ [u; v] Hf). cbn [in_spec].
    rewrite (mem_true_In _ _ Hu), (mem_true_In _ _ Hv). cbn [andb].
    destruct (from_is sl [st u; st v]); apply oQeq_refl.
  - eapply oQeq_trans; [apply Ho; exact Ek|]. eapply oQeq_trans; [apply Hag|]. apply oQeq_of_eq.
    destruct k as [|a [|b [|c r]]]; cbn [INu]; try reflexivity.
    destruct (N.eqb_spec a u) as [Ea|Ea].
    + subst a. cbn [mem existsb]. destruct (N.eqb_spec b v) as [Eb|Eb]; [subst b; exfalso; apply Ek; reflexivity|].
      cbn [orb]. rewrite (in_spec_frame g _ _ _ [u; b] Hf). reflexivity.
    + cbn [INd]. rewrite (in_spec_frame g _ _ _ [a; b] Hf). reflexivity.
Qed.

Lemma INq_start : forall done u sl, ~ In u done -> INp done sl -> INq done u [] sl.
Proof.
  intros done u sl Hnd [Hok [Hfull Hag]]. split; [exact Hok|]. split; [exact Hfull|].
  intro k. eapply oQeq_trans; [apply Hag|]. apply oQeq_of_eq.
  destruct k as [|a [|b [|c r]]]; cbn [INu INd]; try reflexivity.
  destruct (N.eqb_spec a u) as [Ea|Ea]; [|reflexivity]. subst a. cbn [mem existsb].
  replace (mem u done) with false by (symmetry; apply mem_false; exact Hnd). reflexivity.
Qed.

Lemma INq_end : forall done u sl, In u (gnodes g) -> INq done u (rev (gadj g u) ++ []) sl -> INp (u :: done) sl.
Proof.
  intros done u sl Hu [Hok [Hfull Hag]]. split; [exact Hok|]. split; [exact Hfull|].
  intro k. eapply oQeq_trans; [apply Hag|]. apply oQeq_of_eq.
  destruct k as [|a [|b [|c r]]]; cbn [INu INd]; try reflexivity.
  rewrite app_nil_r, mem_rev. cbn [mem existsb].
  destruct (N.eqb_spec a u) as [Ea|Ea]; cbn [orb]; [|reflexivity]. subst a.
  destruct (mem b (gadj g u)) eqn:Eb; [reflexivity|]. cbn [in_spec]. rewrite Eb, andb_false_r. reflexivity.
Qed.

Lemma init_node_ok : forall done u sp inn, In u (gnodes g) -> ~ In u done ->
  Forall (SPp done) sp -> Forall (INp done) inn ->
  exists sp' inn', init_node g st u (sp, inn) = Ok (sp', inn') /\
    Forall2 same_frame sp sp' /\ Forall2 same_frame inn inn' /\
    Forall (SPp (u :: done)) sp' /\ Forall (INp (u :: done)) inn'.
Proof.
  intros done u sp inn Hu Hnd Hsp Hin. unfold init_node. cbn [fst snd].
  destruct (rmap_Forall2 (fun sl => when (from_is sl [st u]) (add_actor (knode u)) sl) (SPp done)
              (evolved (SPp (u :: done))) sp) as [sp' [Esp Hsp']].
  { intros sl Hsl. destruct (init_sp_step done u sl Hu Hnd Hsl) as [sl' [E [Hf HP]]].
    exists sl'. split; [exact E|split; assumption]. }
  { exact Hsp. }
  rewrite Esp, rbind_ok.
  destruct (lfold_agree (fun v sl => when (from_is sl [st u; st v]) (add_actor (kpair u v)) sl)
              (INq done u) (gadj g u) (init_in_step done u Hu) (g_adj_nodup g Hg u Hu) [] inn)
    as [inn' [Ein [Fin Hin']]].
  { intros x _ H. exact H. }
  { eapply Forall_impl; [|exact Hin]. intros sl Hsl. apply INq_start; assumption. }
  match goal with |- context [fold_left ?f (gadj g u) (Ok inn)] =>
    assert (Hfold : fold_left f (gadj g u) (Ok inn) = Ok inn') by (rewrite <- Ein; reflexivity) end.
  rewrite Hfold, rbind_ok. exists sp', inn'. split; [reflexivity|]. split; [|split; [exact Fin|split]].
  - clear -Hsp'. induction Hsp' as [|a b l1 l2 [H _] _ IH]; constructor; assumption.
  - eapply Forall2_Forall_r; [exact Hsp'|intros a b [_ H]; exact H].
  - eapply Forall_impl; [|exact Hin']. intros sl Hsl. apply INq_end; assumption.
Qed.

Lemma init_fold_ok : forall l done sp inn, NoDup l ->
  (forall x, In x l -> In x (gnodes g) /\ ~ In x done) ->
  Forall (SPp done) sp -> Forall (INp done) inn ->
  exists sp' inn', fold_left (fun acc u => rbind acc (init_node g st u)) l (Ok (sp, inn)) = Ok (sp', inn') /\
    Forall2 same_frame sp sp' /\ Forall2 same_frame inn inn' /\
    Forall (SPp (rev l ++ done)) sp' /\ Forall (INp (rev l ++ done)) inn'.
Proof.
  induction l as [|u l IH]; intros done sp inn Hnd Hl Hsp Hin.
  - exists sp, inn. cbn [fold_left rev app]. split; [reflexivity|].
    split; [apply Forall2_same_frame_refl|]. split; [apply Forall2_same_frame_refl|]. split; assumption.
  - apply NoDup_cons_iff in Hnd. destruct Hnd as [Hu Hnd'].
    destruct (Hl u (or_introl eq_refl)) as [Hun Hud].
    destruct (init_node_ok done u sp inn Hun Hud Hsp Hin) as [sp1 [in1 [E1 [F1 [G1 [Hsp1 Hin1]]]]]].
    cbn [fold_left rbind]. rewrite E1.
    destruct (IH (u :: done) sp1 in1 Hnd') as [sp2 [in2 [E2 [F2 [G2 [Hsp2 Hin2]]]]]].
    + intros x Hx. destruct (Hl x (or_intror Hx)) as [H1 H2]. split; [exact H1|].
      intros [E|H]; [subst x; contradiction|contradiction].
    + exact Hsp1.
    + exact Hin1.
    + exists sp2, in2. split; [exact E2|].
      split; [eapply Forall2_same_frame_trans; eassumption|].
      split; [eapply Forall2_same_frame_trans; eassumption|].
      cbn [rev]. rewrite <- app_assoc. cbn [app]. split; assumption.
Qed.

Lemma SPp_all : forall sl, SPp (rev (gnodes g) ++ []) sl -> sp_slot_ok g st sl.
Proof.
  intros sl [Hok [Hfull Hag]]. split; [exact Hok|]. split; [exact Hfull|].
  intro k. eapply oQeq_trans; [apply Hag|]. apply oQeq_of_eq.
  destruct k as [|a [|b r]]; cbn [SPd]; try reflexivity.
  rewrite app_nil_r, mem_rev. destruct (mem a (gnodes g)) eqn:E; [reflexivity|].
  cbn [sp_spec]. rewrite E. reflexivity.
Qed.
Lemma INp_all : forall sl, INp (rev (gnodes g) ++ []) sl -> in_slot_ok g st sl.
Proof.
  intros sl [Hok [Hfull Hag]]. split; [exact Hok|]. split; [exact Hfull|].
  intro k. eapply oQeq_trans; [apply Hag|]. apply oQeq_of_eq.
  destruct k as [|a [|b [|c r]]]; cbn [INd]; try reflexivity.
  rewrite app_nil_r, mem_rev. destruct (mem a (gnodes g)) eqn:E; [reflexivity|].
  cbn [in_spec]. rewrite E. reflexivity.
Qed.

(* init_all on freshly set-up (empty) slots *)
Lemma init_all_ok : forall sp inn,
  Forall (SPp []) sp -> Forall (INp []) inn ->
  exists sp' inn', init_all g st sp inn = Ok (sp', inn') /\
    Forall2 same_frame sp sp' /\ Forall2 same_frame inn inn' /\
    Forall (sp_slot_ok g st) sp' /\ Forall (in_slot_ok g st) inn'.
Proof.
  intros sp inn Hsp Hin. unfold init_all.
  destruct (init_fold_ok (gnodes g) [] sp inn (g_nodup g Hg)) as [sp' [inn' [E [F [G [H1 H2]]]]]].
  - intros x Hx. split; [exact Hx|intros []].
  - exact Hsp.
  - exact Hin.
  - exists sp', inn'. split; [exact E|]. split; [exact F|]. split; [exact G|].
    split; (eapply Forall_impl; [|eassumption]); [apply SPp_all|apply INp_all].
Qed.

End Init.

(* ------------------------------------------------------------------ *)
(* set-up: well-formed specifications are accepted, malformed ones rejected *)

Lemma rmap_gen : forall (A B : Type) (f : A -> result B) (P : A -> Prop) (R : A -> B -> Prop) l,
  (forall x, P x -> exists y, f x = Ok y /\ R x y) -> Forall P l ->
  exists l', rmap f l = Ok l' /\ Forall2 R l l'.
Proof.
  intros A B f P R l Hf. induction l as [|x l IH]; intro HP.
  - exists []. split; [reflexivity|constructor].
  - inversion HP as [|x' l' Hx Hl]; subst x' l'.
    destruct (Hf x Hx) as [y [Ey Ry]]. destruct (IH Hl) as [l' [El Rl]].
    exists (y :: l'). cbn [rmap]. rewrite Ey, rbind_ok, El, rbind_ok. split; [reflexivity|].
    constructor; assumption.
Qed.

Lemma rmap_err : forall (A B : Type) (f : A -> result B) l e,
  rmap f l = Err e -> exists x, In x l /\ f x = Err e.
Proof.
  intros A B f l e. induction l as [|x l IH]; cbn [rmap]; [discriminate|].
  destruct (f x) as [y|e'] eqn:Ex; cbn [rbind].
  - destruct (rmap f l) as [ys|e''] eqn:El; cbn [rbind]; [discriminate|].
    intro H. injection H as H. subst e''. destruct (IH eq_refl) as [z [Hz Ez]].
    exists z. split; [right; exact Hz|exact Ez].
  - intro H. injection H as H. subst e'. exists x. split; [left; reflexivity|exact Ex].
Qed.

Lemma rmap_ok_all : forall (A B : Type) (f : A -> result B) l l',
  rmap f l = Ok l' -> forall x, In x l -> exists y, f x = Ok y.
Proof.
  intros A B f l. induction l as [|a l IH]; intros l' H x Hx; [contradiction|].
  cbn [rmap] in H. destruct (f a) as [y|e] eqn:Ea; cbn [rbind] in H; [|discriminate].
  destruct (rmap f l) as [ys|e] eqn:El; cbn [rbind] in H; [|discriminate].
  destruct Hx as [E|Hx]; [subst a; exists y; exact Ea|apply (IH ys eq_refl x Hx)].
Qed.

Lemma sort_trans_perm : forall b l, Permutation (sort_trans b l) l.
Proof.
  intros [|] l; unfold sort_trans; [|apply Permutation_refl].
  eapply Permutation_trans; [apply Permutation_map; apply ksort_perm|].
  rewrite map_map. cbn [snd]. rewrite map_id. apply Permutation_refl.
Qed.

Lemma tlook_map_keys : forall (f : key -> Q) ks k, In k ks ->
  tlook (map (fun k => (k, f k)) ks) k = Some (f k).
Proof.
  intros f ks k. induction ks as [|a ks IH]; intro H; [contradiction|]. cbn [map tlook].
  destruct (keqb_spec k a) as [E|E]; [subst a; reflexivity|].
  destruct H as [H|H]; [exfalso; apply E; symmetry; exact H|apply IH; exact H].
Qed.

Section Setup.
Variable g : graph.
Hypothesis Hg : wfg2 g.

(* get_weight of an induced transition with a weight label: the edge attribute
   dictionary, plus the reversed orientation when G is undirected *)
Definition lab_tab (t : tab) : tab :=
  if gdirected g then t else t ++ map (fun kw => (kswap (fst kw), snd kw)) t.

(* well-formed specification edges: one weight source at most, weights defined and >= 0
   on every node resp. every ordered adjacent pair, first component kept *)
Definition sp_tr_ok (tr : trans) : Prop :=
  match tr_w tr with
  | WNone => True
  | WLabel t => forall u, In u (gnodes g) -> exists w, tlook t [u] = Some w /\ 0 <= w
  | WFun f => forall u, In u (gnodes g) -> 0 <= f [u]
  | WBoth => False
  end.
Definition in_tr_ok (tr : trans) : Prop :=
  N.eqb (hd_status (tr_from tr)) (hd_status (tr_to tr)) = true /\
  match tr_w tr with
  | WNone => True
  | WLabel t => forall u v, In u (gnodes g) -> In v (gadj g u) ->
                  exists w, tlook (lab_tab t) [u; v] = Some w /\ 0 <= w
  | WFun f => forall u v, In u (gnodes g) -> In v (gadj g u) -> 0 <= f [u; v]
  | WBoth => False
  end.

(* the weight the specification gives to an actor *)
Definition spec_weight (induced : bool) (tr : trans) (k : key) : Q :=
  match tr_w tr with
  | WNone => 1
  | WLabel t => match tlook (if induced then lab_tab t else t) k with Some w => w | None => 0 end
  | WFun f => f k
  | WBoth => 0
  end.

Lemma in_gpairs : forall u v, In u (gnodes g) -> In v (gadj g u) -> In [u; v] (gpairs g).
Proof.
  intros u v Hu Hv. unfold gpairs. apply in_flat_map. exists u. split; [exact Hu|].
  apply in_map_iff. exists v. split; [reflexivity|exact Hv].
Qed.

Lemma empty_slok : forall tr w gw, w = (match gw with Some _ => true | None => false end) ->
  slok (mkSlot tr (kl_empty w) gw).
Proof.
  intros tr w gw E. constructor; cbn [sl_pot sl_gw has_gw]; [apply kl_empty_inv|].
  subst w. reflexivity.
Qed.

Lemma setup_spont_ok : forall st tr, sp_tr_ok tr ->
  exists sl, setup_spont g tr = Ok sl /\ sl_tr sl = tr /\ SPp g st [] sl /\
             forall u, In u (gnodes g) -> wgt sl [u] = spec_weight false tr [u].
Proof.
  intros st tr H. unfold setup_spont, sp_tr_ok, spec_weight in *.
  destruct (tr_w tr) as [|t|f|] eqn:Ew; [| | |contradiction]; eexists; (split; [reflexivity|]);
    (split; [reflexivity|]); (split; [split; [apply empty_slok; reflexivity|split]|]).
  - intros u Hu. exact I.
  - intro k. unfold sabs. cbn [sl_pot]. rewrite kl_empty_abs. destruct k as [|a [|b r]]; exact I.
  - intros u Hu. reflexivity.
  - intros u Hu. unfold gw_ok. cbn [sl_gw]. apply H. exact Hu.
  - intro k. unfold sabs. cbn [sl_pot]. rewrite kl_empty_abs. destruct k as [|a [|b r]]; exact I.
  - intros u Hu. reflexivity.
  - intros u Hu. unfold gw_ok. cbn [sl_gw].
    exists (f [u]). split; [|apply H; exact Hu].
    rewrite <- (map_map knode (fun k => (k, f k))). apply tlook_map_keys.
    apply in_map_iff. exists u. split; [reflexivity|exact Hu].
  - intro k. unfold sabs. cbn [sl_pot]. rewrite kl_empty_abs. destruct k as [|a [|b r]]; exact I.
  - intros u Hu. unfold wgt. cbn [sl_gw].
    rewrite <- (map_map knode (fun k => (k, f k))). rewrite tlook_map_keys; [reflexivity|].
    apply in_map_iff. exists u. split; [reflexivity|exact Hu].
Qed.

Lemma setup_induced_ok : forall st tr, in_tr_ok tr ->
  exists sl, setup_induced g tr = Ok sl /\ sl_tr sl = tr /\ INp g st [] sl /\
             forall u v, In u (gnodes g) -> In v (gadj g u) -> wgt sl [u; v] = spec_weight true tr [u; v].
Proof.
  intros st tr [H1 H]. unfold setup_induced, spec_weight in *. rewrite H1. cbn [negb].
  destruct (tr_w tr) as [|t|f|] eqn:Ew; [| | |contradiction]; eexists; (split; [reflexivity|]);
    (split; [reflexivity|]); (split; [split; [apply empty_slok; reflexivity|split]|]).
  - intros u v Hu Hv. exact I.
  - intro k. unfold sabs. cbn [sl_pot]. rewrite kl_empty_abs. destruct k as [|a [|b [|c r]]]; exact I.
  - intros u v Hu Hv. reflexivity.
  - intros u v Hu Hv. unfold gw_ok. cbn [sl_gw]. apply (H u v Hu Hv).
  - intro k. unfold sabs. cbn [sl_pot]. rewrite kl_empty_abs. destruct k as [|a [|b [|c r]]]; exact I.
  - intros u v Hu Hv. reflexivity.
  - intros u v Hu Hv. unfold gw_ok. cbn [sl_gw].
    exists (f [u; v]). split; [|apply H; assumption].
    apply tlook_map_keys. apply in_gpairs; assumption.
  - intro k. unfold sabs. cbn [sl_pot]. rewrite kl_empty_abs. destruct k as [|a [|b [|c r]]]; exact I.
  - intros u v Hu Hv. unfold wgt. cbn [sl_gw]. rewrite tlook_map_keys; [reflexivity|].
    apply in_gpairs; assumption.
Qed.

Lemma Forall2_map_eq : forall (l : list trans) (l' : list slot),
  Forall2 (fun tr sl => sl_tr sl = tr) l l' -> map sl_tr l' = l.
Proof. intros l l' H. induction H as [|x y l l' Hxy _ IH]; [reflexivity|]. cbn [map]. rewrite Hxy, IH. reflexivity. Qed.

Lemma frames_back : forall (R : trans -> slot -> Prop) l l0 l1,
  Forall2 R l l0 -> Forall2 same_frame l0 l1 ->
  forall sl, In sl l1 -> exists tr sl0, R tr sl0 /\ same_frame sl0 sl.
Proof.
  intros R l l0 l1 H. revert l1. induction H as [|x y l l0 Hxy _ IH]; intros l1 F sl Hsl;
    inversion F as [|a b la lb Hab Hrest]; subst; [contradiction|].
  destruct Hsl as [E|Hsl].
  - subst sl. exists x, y. split; assumption.
  - apply (IH lb Hrest sl Hsl).
Qed.

(* simple_inv, initial state: a well-formed specification is accepted, and the loop starts
   in a state that satisfies the bookkeeping invariant, with the transitions in the cascade's
   order and the specification's weights *)
Lemma simple_setup_inv : forall sortable spont induced ic rstat tmin tmax full fuel,
  Forall sp_tr_ok spont -> Forall in_tr_ok induced ->
  exists sp inn,
    let s0 := mkS ic sp inn [(tmin, map (count_status g ic) rstat)] [] [] in
    simple g sortable spont induced ic rstat tmin tmax full fuel =
      loop g ic rstat tmin tmax full fuel tmin s0 /\
    SInv g s0 /\ RInv g rstat s0 /\
    map sl_tr sp = sort_trans sortable spont /\ map sl_tr inn = sort_trans sortable induced /\
    (forall sl u, In sl sp -> In u (gnodes g) -> wgt sl [u] = spec_weight false (sl_tr sl) [u]) /\
    (forall sl u v, In sl inn -> In u (gnodes g) -> In v (gadj g u) ->
        wgt sl [u; v] = spec_weight true (sl_tr sl) [u; v]).
Proof.
  intros sortable spont induced ic rstat tmin tmax full fuel Hsp Hin.
  assert (Hsp' : Forall sp_tr_ok (sort_trans sortable spont)).
  { rewrite Forall_forall in *. intros x Hx. apply Hsp.
    apply (Permutation_in _ (sort_trans_perm sortable spont)). exact Hx. }
  assert (Hin' : Forall in_tr_ok (sort_trans sortable induced)).
  { rewrite Forall_forall in *. intros x Hx. apply Hin.
    apply (Permutation_in _ (sort_trans_perm sortable induced)). exact Hx. }
  destruct (rmap_gen _ _ (setup_spont g) sp_tr_ok
              (fun tr sl => sl_tr sl = tr /\ SPp g ic [] sl /\
                 forall u, In u (gnodes g) -> wgt sl [u] = spec_weight false tr [u])
              (sort_trans sortable spont)) as [sp0 [Esp Fsp]].
  { intros tr Htr. destruct (setup_spont_ok ic tr Htr) as [sl [E H]]. exists sl. split; [exact E|exact H]. }
  { exact Hsp'. }
  destruct (rmap_gen _ _ (setup_induced g) in_tr_ok
              (fun tr sl => sl_tr sl = tr /\ INp g ic [] sl /\
                 forall u v, In u (gnodes g) -> In v (gadj g u) -> wgt sl [u; v] = spec_weight true tr [u; v])
              (sort_trans sortable induced)) as [in0 [Ein Fin]].
  { intros tr Htr. destruct (setup_induced_ok ic tr Htr) as [sl [E H]]. exists sl. split; [exact E|exact H]. }
  { exact Hin'. }
  destruct (init_all_ok g Hg ic sp0 in0) as [sp [inn [Einit [F1 [F2 [H1 H2]]]]]].
  { clear -Fsp. induction Fsp as [|x y l l' [_ [H _]] _ IH]; constructor; assumption. }
  { clear -Fin. induction Fin as [|x y l l' [_ [H _]] _ IH]; constructor; assumption. }
  exists sp, inn. cbn zeta. split; [|split; [|split; [|split; [|split; [|split]]]]].
  - unfold simple. rewrite Esp, rbind_ok, Ein, rbind_ok, Einit. reflexivity.
  - constructor; cbn [s_stat s_sp s_in]; assumption.
  - unfold RInv. reflexivity.
  - rewrite (Forall2_frames _ _ F1). apply Forall2_map_eq.
    clear -Fsp. induction Fsp as [|x y l l' [H _] _ IH]; constructor; assumption.
  - rewrite (Forall2_frames _ _ F2). apply Forall2_map_eq.
    clear -Fin. induction Fin as [|x y l l' [H _] _ IH]; constructor; assumption.
  - intros sl u Hsl Hu. destruct (frames_back _ _ _ _ Fsp F1 sl Hsl) as [tr [sl0 [[Hx [_ Hw]] Hf]]].
    rewrite (same_frame_wgt _ _ _ Hf). destruct Hf as [Ht _]. rewrite Ht, Hx. apply Hw. exact Hu.
  - intros sl u v Hsl Hu Hv. destruct (frames_back _ _ _ _ Fin F2 sl Hsl) as [tr [sl0 [[Hx [_ Hw]] Hf]]].
    rewrite (same_frame_wgt _ _ _ Hf). destruct Hf as [Ht _]. rewrite Ht, Hx. apply Hw; assumption.
Qed.

(* malformed specifications: an induced transition that changes its first component, or
   both weight_label and rate_function on one edge *)
Definition sp_malformed (tr : trans) : Prop := tr_w tr = WBoth.
Definition in_malformed (tr : trans) : Prop :=
  N.eqb (hd_status (tr_from tr)) (hd_status (tr_to tr)) = false \/ tr_w tr = WBoth.

Lemma setup_spont_err : forall tr e, setup_spont g tr = Err e -> e = EoNError /\ sp_malformed tr.
Proof.
  intros tr e. unfold setup_spont, sp_malformed. destruct (tr_w tr); try discriminate.
  intro H. injection H as H. split; [symmetry; exact H|reflexivity].
Qed.
Lemma setup_induced_err : forall tr e, setup_induced g tr = Err e -> e = EoNError /\ in_malformed tr.
Proof.
  intros tr e. unfold setup_induced, in_malformed.
  destruct (N.eqb (hd_status (tr_from tr)) (hd_status (tr_to tr))); cbn [negb].
  - destruct (tr_w tr); try discriminate. intro H. injection H as H. split; [symmetry; exact H|right; reflexivity].
  - intro H. injection H as H. split; [symmetry; exact H|left; reflexivity].
Qed.
Lemma setup_spont_malformed : forall tr, sp_malformed tr -> setup_spont g tr = Err EoNError.
Proof. intros tr H. unfold setup_spont. rewrite H. reflexivity. Qed.
Lemma setup_induced_malformed : forall tr, in_malformed tr -> setup_induced g tr = Err EoNError.
Proof.
  intros tr [H|H]; unfold setup_induced; [rewrite H; reflexivity|].
  destruct (negb _); [reflexivity|]. rewrite H. reflexivity.
Qed.

(* EoNError at set-up iff the specification is malformed *)
Lemma simple_malformed_rejected : forall sortable spont induced ic rstat tmin tmax full fuel,
  (Exists sp_malformed spont \/ Exists in_malformed induced) ->
  simple g sortable spont induced ic rstat tmin tmax full fuel = Fail EoNError.
Proof.
  intros sortable spont induced ic rstat tmin tmax full fuel H. unfold simple.
  destruct (rmap (setup_spont g) (sort_trans sortable spont)) as [sp|e] eqn:Esp; cbn [rbind].
  - destruct (rmap (setup_induced g) (sort_trans sortable induced)) as [inn|e] eqn:Ein; cbn [rbind].
    + exfalso. destruct H as [H|H]; apply Exists_exists in H; destruct H as [tr [Htr Hm]].
      * destruct (rmap_ok_all _ _ _ _ _ Esp tr) as [y Ey].
        { apply (Permutation_in _ (Permutation_sym (sort_trans_perm sortable spont))). exact Htr. }
        rewrite (setup_spont_malformed tr Hm) in Ey. discriminate.
      * destruct (rmap_ok_all _ _ _ _ _ Ein tr) as [y Ey].
        { apply (Permutation_in _ (Permutation_sym (sort_trans_perm sortable induced))). exact Htr. }
        rewrite (setup_induced_malformed tr Hm) in Ey. discriminate.
    + destruct (rmap_err _ _ _ _ _ Ein) as [tr [_ Etr]].
      destruct (setup_induced_err tr e Etr) as [Ee _]. subst e. reflexivity.
  - destruct (rmap_err _ _ _ _ _ Esp) as [tr [_ Etr]].
    destruct (setup_spont_err tr e Etr) as [Ee _]. subst e. reflexivity.
Qed.

(* conversely: when set-up raises, it raises EoNError and the specification is malformed *)
Lemma simple_setup_error_only_malformed : forall sortable spont induced e,
  rbind (rmap (setup_spont g) (sort_trans sortable spont)) (fun sp =>
  rbind (rmap (setup_induced g) (sort_trans sortable induced)) (fun inn => Ok (sp, inn))) = Err e ->
  e = EoNError /\ (Exists sp_malformed spont \/ Exists in_malformed induced).
Proof.
  intros sortable spont induced e.
  destruct (rmap (setup_spont g) (sort_trans sortable spont)) as [sp|e1] eqn:Esp; cbn [rbind].
  - destruct (rmap (setup_induced g) (sort_trans sortable induced)) as [inn|e2] eqn:Ein; cbn [rbind]; [discriminate|].
    intro H. injection H as H. subst e2. destruct (rmap_err _ _ _ _ _ Ein) as [tr [Htr Etr]].
    destruct (setup_induced_err tr e Etr) as [Ee Hm]. split; [exact Ee|]. right.
    apply Exists_exists. exists tr. split; [|exact Hm].
    apply (Permutation_in _ (sort_trans_perm sortable induced)). exact Htr.
  - intro H. injection H as H. subst e1. destruct (rmap_err _ _ _ _ _ Esp) as [tr [Htr Etr]].
    destruct (setup_spont_err tr e Etr) as [Ee Hm]. split; [exact Ee|]. left.
    apply Exists_exists. exists tr. split; [|exact Hm].
    apply (Permutation_in _ (sort_trans_perm sortable spont)). exact Htr.
Qed.

End Setup.

(* ------------------------------------------------------------------ *)
(* the boolean graph check of Base/Graph.v gives the facts used above   *)
Lemma nodupb_NoDup : forall l, nodupb l = true -> NoDup l.
Proof.
  induction l as [|x l IH]; intro H; [constructor|]. cbn [nodupb] in H.
  apply andb_true_iff in H. destruct H as [H1 H2]. constructor; [|apply IH; exact H2].
  apply negb_true_iff in H1. apply mem_false. exact H1.
Qed.

Lemma wf_graphb_wfg2 : forall g, wf_graphb g = true -> wfg2 g.
Proof.
  intros g H. unfold wf_graphb in H.
  apply andb_true_iff in H. destruct H as [H Hsym].
  apply andb_true_iff in H. destruct H as [Hnd Hall].
  rewrite forallb_forall in Hall.
  assert (Hc : forall u, In u (gnodes g) ->
     nodupb (gadj g u) = true /\ subsetb (gadj g u) (gnodes g) = true /\ mem u (gadj g u) = false /\
     forallb (fun v => mem u (gpred g v)) (gadj g u) = true /\ nodupb (gpred g u) = true /\
     subsetb (gpred g u) (gnodes g) = true /\ forallb (fun v => mem u (gadj g v)) (gpred g u) = true).
  { intros u Hu. specialize (Hall u Hu). repeat (apply andb_true_iff in Hall; destruct Hall as [Hall ?]).
    repeat split; try assumption. apply negb_true_iff. assumption. }
  constructor.
  - apply nodupb_NoDup. exact Hnd.
  - intros u Hu. apply nodupb_NoDup. apply (Hc u Hu).
  - intros u Hu. apply nodupb_NoDup. apply (Hc u Hu).
  - intros u Hu. apply mem_false. apply (Hc u Hu).
  - intros u v Hu Hv. destruct (Hc u Hu) as [_ [Hs _]]. unfold subsetb in Hs.
    rewrite forallb_forall in Hs. apply mem_In. apply Hs. exact Hv.
  - intros u v Hu Hv. destruct (Hc u Hu) as [_ [_ [_ [_ [_ [Hs _]]]]]]. unfold subsetb in Hs.
    rewrite forallb_forall in Hs. apply mem_In. apply Hs. exact Hv.
  - intros u v Hu Hv. split; intro Hin.
    + destruct (Hc v Hv) as [_ [_ [_ [_ [_ [_ Hp]]]]]]. rewrite forallb_forall in Hp.
      apply mem_In. apply Hp. exact Hin.
    + destruct (Hc u Hu) as [_ [_ [_ [Hp _]]]]. rewrite forallb_forall in Hp.
      apply mem_In. apply Hp. exact Hin.
  - intros Hd u v Hu Hv. rewrite Hd in Hsym. cbn [orb] in Hsym. rewrite forallb_forall in Hsym.
    specialize (Hsym u Hu). rewrite forallb_forall in Hsym. specialize (Hsym v Hv).
    apply andb_true_iff in Hsym. destruct Hsym as [Hm _]. apply mem_In. exact Hm.
Qed.

(* ------------------------------------------------------------------ *)
(* non-vacuity: an SIS-like specification with a node weight label and an edge rate
   function on the undirected path 0 - 1 - 2 meets every hypothesis above, and a scripted
   run of it performs an induced and a spontaneous event *)
Definition ex_adj (u : node) : list node :=
  match u with 0%N => [1%N] | 1%N => [0%N; 2%N] | 2%N => [1%N] | _ => [] end.
Definition ex_g : graph :=
  mkGraph [0%N; 1%N; 2%N] ex_adj ex_adj false (fun _ _ => 1) (fun _ => 1) false false.
Definition ex_sp : list trans :=
  [mkTr [1%N] [0%N] 1 (WLabel [([0%N], 1); ([1%N], 2); ([2%N], 1 # 2)])].
Definition ex_in : list trans := [mkTr [1%N; 0%N] [1%N; 1%N] 2 (WFun (fun _ => 3 # 2))].
Definition ex_ic (u : node) : N := match u with 0%N => 1%N | _ => 0%N end.
Definition ex_draws : list Q := [1 # 4; 1 # 2; 0; 1 # 1024; 1 # 4; 1 # 10; 1; 1 # 1024; 10].

Definition C03_example_statement : Prop :=
  wf_graphb ex_g = true /\ wfg2 ex_g /\
  Forall (sp_tr_ok ex_g) ex_sp /\ Forall (in_tr_ok ex_g) ex_in /\
  (exists out tr, run_simple ex_g true ex_sp ex_in ex_ic [0%N; 1%N] 0 (Some 5) true 10 ex_draws = (Ok out, tr) /\
     map snd (so_rows out) = [[2; 1]; [1; 2]; [2; 1]]%Z /\
     option_map (fun f => map (fun e => (snd (fst e), snd e)) (fd_trans f)) (so_full out) = Some [(Some 0%N, 1%N)]) /\
  (exists sp inn, SInv ex_g (mkS ex_ic sp inn [(0, map (count_status ex_g ex_ic) [0%N; 1%N])] [] []) /\
     map sl_tr sp = ex_sp /\ map sl_tr inn = ex_in).

Lemma C03_example_proof : C03_example_statement.
Proof.
  assert (Hwf : wf_graphb ex_g = true) by (vm_compute; reflexivity).
  pose proof (wf_graphb_wfg2 ex_g Hwf) as Hg.
  assert (Hsp : Forall (sp_tr_ok ex_g) ex_sp).
  { constructor; [|constructor]. unfold sp_tr_ok. cbn [tr_w ex_sp].
    intros u [E|[E|[E|[]]]]; subst u; eexists; (split; [reflexivity|]); unfold Qle; cbn; lia. }
  assert (Hin : Forall (in_tr_ok ex_g) ex_in).
  { constructor; [|constructor]. unfold in_tr_ok. split; [reflexivity|]. cbn [tr_w ex_in].
    intros u v _ _. unfold Qle; cbn; lia. }
  split; [exact Hwf|]. split; [exact Hg|]. split; [exact Hsp|]. split; [exact Hin|]. split.
  - eexists. eexists. split; [vm_compute; reflexivity|]. split; reflexivity.
  - destruct (simple_setup_inv ex_g Hg true ex_sp ex_in ex_ic [0%N; 1%N] 0 (Some 5) true 10%nat Hsp Hin)
      as [sp [inn [_ [HI [_ [H1 [H2 _]]]]]]].
    exists sp, inn. split; [exact HI|]. split; [rewrite H1|rewrite H2]; reflexivity.
Qed.

(* ------------------------------------------------------------------ *)
(* every state the loop can reach: start state, then any sequence of events each of which
   the selection can produce (an actor present in the chosen transition's _ListDict_) *)
Inductive reachable (g : graph) (rstat : list N) (full : bool) (s0 : sst) : sst -> Prop :=
| reach_start : reachable g rstat full s0 s0
| reach_event : forall s t i a sl s',
    reachable g rstat full s0 s ->
    nth_error (s_sp s ++ s_in s) i = Some sl -> sabs sl a <> None ->
    fire g rstat full t s (i, a) = Ok s' ->
    reachable g rstat full s0 s'.

Lemma reachable_inv : forall g (Hg : wfg2 g) rstat full s0 s,
  SInv g s0 -> RInv g rstat s0 -> reachable g rstat full s0 s ->
  SInv g s /\ RInv g rstat s /\
  map sl_tr (s_sp s) = map sl_tr (s_sp s0) /\ map sl_tr (s_in s) = map sl_tr (s_in s0).
Proof.
  intros g Hg rstat full s0 s HI HR Hr. induction Hr as [|s t i a sl s' Hr IH Hnth Ha Hfire].
  - split; [exact HI|]. split; [exact HR|]. split; reflexivity.
  - destruct IH as [HIs [HRs [F1 F2]]].
    destruct (fire_ok g Hg rstat full t s i a sl HIs Hnth Ha) as [s1 [E [HI1 [_ [G1 G2]]]]].
    assert (Es : s1 = s') by congruence. subst s1.
    destruct (fire_counts g Hg rstat full t s i a sl s' HIs HRs Hnth Ha Hfire) as [HR' _].
    split; [exact HI1|]. split; [exact HR'|]. split; congruence.
Qed.

(* and from a reachable state every selectable event fires: the loop never raises on the
   way (the only Fail left in [loop] are fuel and the full-data constructor in [finish]) *)
Lemma reachable_never_stuck : forall g (Hg : wfg2 g) rstat full s0 s t i a sl,
  SInv g s0 -> RInv g rstat s0 -> reachable g rstat full s0 s ->
  nth_error (s_sp s ++ s_in s) i = Some sl -> sabs sl a <> None ->
  exists s', fire g rstat full t s (i, a) = Ok s' /\ reachable g rstat full s0 s'.
Proof.
  intros g Hg rstat full s0 s t i a sl HI HR Hr Hnth Ha.
  destruct (reachable_inv g Hg rstat full s0 s HI HR Hr) as [HIs _].
  destruct (fire_ok g Hg rstat full t s i a sl HIs Hnth Ha) as [s' [E _]].
  exists s'. split; [exact E|]. eapply reach_event; eassumption.
Qed.

(* ------------------------------------------------------------------ *)
(* the masses of the selection sum to 1: [law (select s)] is a probability distribution *)
Lemma mass_app : forall A (d1 d2 : dist A), mass (d1 ++ d2) == mass d1 + mass d2.
Proof. intros A d1 d2. unfold mass. rewrite map_app. apply sumQ_app. Qed.

Lemma mass_scale : forall A p (d : dist A), mass (scale p d) == p * mass d.
Proof.
  intros A p d. unfold mass, scale. rewrite map_map. cbn [snd].
  apply (sumQ_map_scale _ p (fun aw => snd aw)).
Qed.

Lemma mass_concat_map : forall A B (F : B -> dist A) (l : list B),
  mass (concat (map F l)) == sumQ (map (fun x => mass (F x)) l).
Proof.
  intros A B F l. induction l as [|x l IH]; [reflexivity|].
  cbn [map concat]. rewrite mass_app, sumQ_cons, IH. reflexivity.
Qed.

Lemma map_snd_combine_seq : forall (ps : list Q) start, map snd (combine (seq start (length ps)) ps) = ps.
Proof.
  induction ps as [|p ps IH]; intro start; [reflexivity|].
  cbn [length seq combine map snd]. rewrite IH. reflexivity.
Qed.

Lemma sumQ_div : forall (A : Type) (f : A -> Q) (c : Q) l,
  sumQ (map (fun x => f x / c) l) == sumQ (map f l) / c.
Proof.
  intros A f c l. induction l as [|a l IH]; cbn [map]; [unfold sumQ; cbn [fold_right]; unfold Qdiv; ring|].
  rewrite !sumQ_cons, IH. unfold Qdiv. ring.
Qed.

Lemma choose_mass : forall (L : kld) (i : nat), kinv L ->
  ld_total_weight key L * mass (law (Choose (weighted L) (kl_cands L) (fun a => Ret (i, a)))) ==
  ld_total_weight key L.
Proof.
  intros L i Hinv. cbn [law]. rewrite mass_concat_map.
  assert (E : sumQ (map (fun cw : key * Q => mass (scale (if weighted L then snd cw / wsum (kl_cands L)
                                 else 1 / Qnat (length (kl_cands L))) [((i, fst cw), 1)])) (kl_cands L)) ==
              sumQ (map (fun cw : key * Q => if weighted L then snd cw / wsum (kl_cands L)
                                 else 1 / Qnat (length (kl_cands L))) (kl_cands L))).
  { apply sumQ_map_ext_in. intros cw _. rewrite mass_scale. unfold mass. cbn [map snd]. unfold sumQ. cbn [fold_right]. ring. }
  rewrite E. clear E. pose proof (total_weight_aw L Hinv) as Htw.
  destruct (weighted L) eqn:Ew.
  - rewrite (sumQ_div _ (fun cw : key * Q => snd cw)).
    change (sumQ (map (fun cw : key * Q => snd cw) (kl_cands L))) with (wsum (kl_cands L)).
    rewrite kl_cands_wsum, <- Htw.
    destruct (Qeq_dec (ld_total_weight key L) 0) as [Ez|Ez]; [rewrite Ez; ring|]. field. exact Ez.
  - rewrite sumQ_map_const, kl_cands_length. unfold ld_total_weight. rewrite Ew.
    destruct (items L) as [|x r]; [cbn [length]; unfold Qnat; cbn; ring|].
    assert (H : 0 < Qnat (length (x :: r))) by (apply Qnat_pos; cbn [length]; lia).
    field. lra.
Qed.

Lemma select_mass_one : forall g s, SInv g s -> 0 < total_rate s -> mass (law (select s)) == 1.
Proof.
  intros g s HI Htot. unfold select. cbn [law]. rewrite mass_concat_map, map_length.
  set (slots := s_sp s ++ s_in s). set (ps := map (fun sl => slot_rate sl / total_rate s) slots).
  assert (E : sumQ (map (fun ip : nat * Q => mass (scale (snd ip)
                 (law match nth_error slots (fst ip) with
                      | Some sl => Choose (weighted (sl_pot sl)) (kl_cands (sl_pot sl)) (fun actor => Ret (fst ip, actor))
                      | None => Fail IndexErr
                      end))) (combine (seq 0 (length slots)) ps)) ==
              sumQ (map snd (combine (seq 0 (length slots)) ps))).
  { apply sumQ_map_ext_in. intros [i p] Hin. cbn [fst snd]. rewrite mass_scale.
    replace (length slots) with (length ps) in Hin by apply map_length.
    apply in_combine_seq in Hin. destruct Hin as [_ Hn]. rewrite Nat.sub_0_r in Hn.
    unfold ps in Hn. rewrite nth_error_map in Hn.
    destruct (nth_error slots i) as [sl|] eqn:En; [|discriminate]. cbn [option_map] in Hn.
    injection Hn as Hn. subst p. unfold slot_rate.
    pose proof (slot_inv_of g s sl HI (nth_error_In _ _ En)) as Hok.
    pose proof (choose_mass (sl_pot sl) i (so_inv sl Hok)) as Hm.
    unfold Qdiv.
    transitivity (tr_rate (sl_tr sl) * / total_rate s *
                  (ld_total_weight key (sl_pot sl) *
                   mass (law (Choose (weighted (sl_pot sl)) (kl_cands (sl_pot sl)) (fun a => Ret (i, a)))))); [ring|].
    rewrite Hm. ring. }
  rewrite E. replace (length slots) with (length ps) by apply map_length.
  rewrite map_snd_combine_seq. unfold ps. rewrite (sumQ_div _ slot_rate). unfold slots.
  change (sumQ (map slot_rate (s_sp s ++ s_in s))) with (total_rate s). field. lra.
Qed.
