(* Proofs about Model/Simple.v (Gillespie_simple_contagion): the bookkeeping
   invariant (DESIGN A.3) is preserved by every event, in the directed and in the
   undirected branch; the one-step law; the stop rule; counts track statuses;
   EoNError iff the specification is malformed. *)
From EoNV Require Import Prelude Samp Graph ListDict ListDictP Gillespie KldP GillespieInv Simple.
From Coq Require Import Permutation Lqa.

Lemma rbind_ok : forall A B (a : A) (f : A -> result B), rbind (Ok a) f = f a.
Proof. reflexivity. Qed.

(* ------------------------------------------------------------------ *)
(* slots                                                               *)

Definition sabs (sl : slot) : key -> option Q := kabs (sl_pot sl).
Definition has_gw (sl : slot) : bool := match sl_gw sl with Some _ => true | None => false end.

(* the weight get_weight[transition] gives to an actor (1 without weight source) *)
Definition wgt (sl : slot) (k : key) : Q :=
  match sl_gw sl with
  | None => 1
  | Some t => match tlook t k with Some w => w | None => 0 end
  end.

(* the dictionary knows the actor, with a non-negative weight *)
Definition gw_ok (sl : slot) (k : key) : Prop :=
  match sl_gw sl with
  | None => True
  | Some t => exists w, tlook t k = Some w /\ 0 <= w
  end.

Record slok (sl : slot) : Prop := {
  so_inv : kinv (sl_pot sl);
  so_w : weighted (sl_pot sl) = has_gw sl
}.

(* [sl'] is [sl] with another _ListDict_ *)
Definition same_frame (sl sl' : slot) : Prop := sl_tr sl' = sl_tr sl /\ sl_gw sl' = sl_gw sl.

Lemma same_frame_refl : forall sl, same_frame sl sl.
Proof. intro sl. split; reflexivity. Qed.
Lemma same_frame_trans : forall a b c, same_frame a b -> same_frame b c -> same_frame a c.
Proof. intros a b c [H1 H2] [H3 H4]. split; congruence. Qed.
Lemma same_frame_wgt : forall sl sl' k, same_frame sl sl' -> wgt sl' k = wgt sl k.
Proof. intros sl sl' k [_ H]. unfold wgt. rewrite H. reflexivity. Qed.
Lemma same_frame_gw_ok : forall sl sl' k, same_frame sl sl' -> gw_ok sl k -> gw_ok sl' k.
Proof. intros sl sl' k [_ H]. unfold gw_ok. rewrite H. exact (fun x => x). Qed.
Lemma same_frame_from : forall sl sl' k, same_frame sl sl' -> from_is sl' k = from_is sl k.
Proof. intros sl sl' k [H _]. unfold from_is. rewrite H. reflexivity. Qed.

Lemma wgt_nonneg : forall sl k, gw_ok sl k -> 0 <= wgt sl k.
Proof.
  intros sl k H. unfold wgt, gw_ok in *. destruct (sl_gw sl) as [t|]; [|lra].
  destruct H as [w [E Hw]]. rewrite E. exact Hw.
Qed.

(* potential_transitions[tr].remove(k), guarded by [b] *)
Lemma when_rem_ok : forall (b : bool) k sl,
  slok sl -> (b = true -> sabs sl k <> None) ->
  exists sl', when b (rem_actor k) sl = Ok sl' /\ slok sl' /\ same_frame sl sl' /\
              sabs sl' k = (if b then None else sabs sl k) /\
              forall x, x <> k -> sabs sl' x = sabs sl x.
Proof.
  intros b k sl Hok Hp. destruct b; cbn [when].
  - unfold rem_actor.
    destruct (kl_remove_present (sl_pot sl) k (so_inv sl Hok) (Hp eq_refl)) as [L' [He [Hi [Hw [Hk Ho]]]]].
    rewrite He, rbind_ok. eexists. split; [reflexivity|]. split.
    + constructor; cbn [sl_pot sl_gw has_gw]; [exact Hi|]. rewrite Hw. apply (so_w sl Hok).
    + split; [split; reflexivity|]. split; [exact Hk|exact Ho].
  - exists sl. split; [reflexivity|]. split; [exact Hok|]. split; [apply same_frame_refl|].
    split; reflexivity.
Qed.

(* potential_transitions[tr].update(k, weight_increment = get_weight[tr][k]), guarded by [b] *)
Lemma when_add_ok : forall (b : bool) k sl,
  slok sl -> gw_ok sl k -> (b = true -> sabs sl k = None) ->
  exists sl', when b (add_actor k) sl = Ok sl' /\ slok sl' /\ same_frame sl sl' /\
              oQeq (sabs sl' k) (if b then Some (wgt sl k) else sabs sl k) /\
              forall x, x <> k -> oQeq (sabs sl' x) (sabs sl x).
Proof.
  intros b k sl Hok Hgw Hp. destruct b; cbn [when].
  - unfold add_actor, gw_get, wgt, gw_ok in *.
    pose proof (so_w sl Hok) as Hw. unfold has_gw in Hw.
    destruct (sl_gw sl) as [t|] eqn:Egw.
    + destruct Hgw as [w [Et Hnn]]. rewrite Et, rbind_ok.
      destruct (kl_update_absent (sl_pot sl) k true w (so_inv sl Hok) Hw Hnn (Hp eq_refl))
        as [L' [He [Hi [Hw' [Hk Ho]]]]].
      unfold wopt in He. rewrite He, rbind_ok. eexists. split; [reflexivity|]. split.
      * constructor; cbn [sl_pot sl_gw has_gw]; [exact Hi|exact Hw'].
      * split; [split; [reflexivity|cbn [sl_gw]; symmetry; exact Egw]|]. split; [exact Hk|exact Ho].
    + rewrite rbind_ok.
      destruct (kl_update_absent (sl_pot sl) k false 1 (so_inv sl Hok) Hw ltac:(lra) (Hp eq_refl))
        as [L' [He [Hi [Hw' [Hk Ho]]]]].
      unfold wopt in He. rewrite He, rbind_ok. eexists. split; [reflexivity|]. split.
      * constructor; cbn [sl_pot sl_gw has_gw]; [exact Hi|exact Hw'].
      * split; [split; [reflexivity|cbn [sl_gw]; symmetry; exact Egw]|]. split; [exact Hk|exact Ho].
  - exists sl. split; [reflexivity|]. split; [exact Hok|]. split; [apply same_frame_refl|].
    split; [apply oQeq_refl|]. intros x _. apply oQeq_refl.
Qed.

(* the roundoff guard: never fails, changes nothing the abstraction sees *)
Lemma Qnat_ge_1 : forall n, (0 < n)%nat -> 1 <= Qnat n.
Proof.
  intros n H. unfold Qnat. replace 1 with (inject_Z 1) by reflexivity.
  rewrite <- Zle_Qle. lia.
Qed.

Lemma refresh_ok : forall sl, slok sl ->
  exists sl', refresh sl = Ok sl' /\ slok sl' /\ same_frame sl sl' /\ forall x, sabs sl' x = sabs sl x.
Proof.
  intros sl Hok. unfold refresh.
  destruct (Qltb (ld_total_weight key (sl_pot sl)) tiny && negb (Qeqb (ld_total_weight key (sl_pot sl)) 0)) eqn:E.
  - apply andb_true_iff in E. destruct E as [E1 E2].
    apply Qltb_true in E1. apply negb_true_iff in E2. apply Qeqb_false in E2.
    destruct (weighted (sl_pot sl)) eqn:Ew.
    + eexists. split; [reflexivity|]. split.
      * pose proof (so_inv sl Hok) as Hi. destruct Hi as [H1 H2 H3 H4 H5 H6].
        constructor; cbn [sl_pot sl_gw has_gw].
        -- constructor; cbn [items pos wt maxw total weighted]; try assumption.
           ++ intros _. apply H3. exact Ew.
           ++ intros _. apply H4. exact Ew.
           ++ intros _. apply H5. exact Ew.
           ++ intros _. unfold wread. cbn [wt]. reflexivity.
        -- cbn [weighted]. rewrite <- Ew. apply (so_w sl Hok).
      * split; [split; reflexivity|]. intro x. unfold sabs. cbn [sl_pot].
        rewrite !(abs_unfold key). cbn [pos weighted]. rewrite Ew. unfold wread. cbn [wt]. reflexivity.
    + exfalso. unfold ld_total_weight in E1, E2. rewrite Ew in E1, E2.
      destruct (items (sl_pot sl)) as [|x r] eqn:Ei.
      * apply E2. reflexivity.
      * assert (H : 1 <= Qnat (length (x :: r))) by (apply Qnat_ge_1; cbn [length]; lia).
        unfold tiny in E1. assert (H2 : (1 # 10000000) < 1) by reflexivity. lra.
  - exists sl. split; [reflexivity|]. split; [exact Hok|]. split; [apply same_frame_refl|]. reflexivity.
Qed.

(* generic fold over a duplicate-free neighbour list with a "processed so far" specification *)
Lemma sfold_agree : forall (step : node -> slot -> result slot) (sl0 : slot)
    (M : list node -> key -> option Q) (l : list node),
  (forall d x sl, In x l -> ~ In x d -> slok sl -> same_frame sl0 sl ->
       (forall k, oQeq (sabs sl k) (M d k)) ->
       exists sl', step x sl = Ok sl' /\ slok sl' /\ same_frame sl0 sl' /\
                   forall k, oQeq (sabs sl' k) (M (x :: d) k)) ->
  NoDup l ->
  forall d sl, (forall x, In x l -> ~ In x d) -> slok sl -> same_frame sl0 sl ->
    (forall k, oQeq (sabs sl k) (M d k)) ->
    exists sl', rfold step l sl = Ok sl' /\ slok sl' /\ same_frame sl0 sl' /\
                forall k, oQeq (sabs sl' k) (M (rev l ++ d) k).
Proof.
  intros step sl0 M l. unfold rfold.
  induction l as [|x l IH]; intros Hstep Hnd d sl Hd Hok Hfr Hag.
  - exists sl. cbn [fold_left rev app]. split; [reflexivity|]. split; [exact Hok|]. split; [exact Hfr|exact Hag].
  - apply NoDup_cons_iff in Hnd. destruct Hnd as [Hx Hnd'].
    destruct (Hstep d x sl (or_introl eq_refl) (Hd x (or_introl eq_refl)) Hok Hfr Hag)
      as [sl1 [He [Hok1 [Hfr1 Ha1]]]].
    cbn [fold_left rbind]. rewrite He.
    destruct (IH (fun d0 x0 sl1 Hin => Hstep d0 x0 sl1 (or_intror Hin)) Hnd' (x :: d) sl1)
      as [sl' [He' [Hok' [Hfr' Ha']]]].
    + intros y Hy [E|Hyd]; [subst y; contradiction|]. apply (Hd y (or_intror Hy)). exact Hyd.
    + exact Hok1.
    + exact Hfr1.
    + exact Ha1.
    + exists sl'. split; [exact He'|]. split; [exact Hok'|]. split; [exact Hfr'|].
      intro k. cbn [rev]. rewrite <- app_assoc. cbn [app]. apply Ha'.
Qed.

(* remove-then-add on one key (directed loops, spontaneous transitions); the
   conditions are tests `transition[0] == ...` on the slot's transition *)
Lemma one_key_ok : forall (K1 K2 : key) k sl,
  slok sl -> gw_ok sl k ->
  (from_is sl K1 = true -> sabs sl k <> None) -> (from_is sl K1 = false -> sabs sl k = None) ->
  exists sl', rbind (when (from_is sl K1) (rem_actor k) sl)
                    (fun sl => when (from_is sl K2) (add_actor k) sl) = Ok sl' /\
              slok sl' /\ same_frame sl sl' /\
              oQeq (sabs sl' k) (if from_is sl K2 then Some (wgt sl k) else None) /\
              forall x, x <> k -> oQeq (sabs sl' x) (sabs sl x).
Proof.
  intros K1 K2 k sl Hok Hgw Hp Ha.
  destruct (when_rem_ok (from_is sl K1) k sl Hok Hp) as [sl1 [E1 [Hok1 [Hf1 [Hk1 Ho1]]]]].
  rewrite E1, rbind_ok.
  assert (Hn1 : sabs sl1 k = None).
  { rewrite Hk1. destruct (from_is sl K1); [reflexivity|]. apply Ha. reflexivity. }
  rewrite (same_frame_from _ _ _ Hf1).
  destruct (when_add_ok (from_is sl K2) k sl1 Hok1 (same_frame_gw_ok _ _ _ Hf1 Hgw) (fun _ => Hn1))
    as [sl2 [E2 [Hok2 [Hf2 [Hk2 Ho2]]]]].
  exists sl2. split; [exact E2|]. split; [exact Hok2|]. split; [eapply same_frame_trans; eassumption|].
  split.
  - eapply oQeq_trans; [exact Hk2|]. rewrite (same_frame_wgt _ _ _ Hf1). rewrite Hn1.
    destruct (from_is sl K2); apply oQeq_refl.
  - intros x Hx. eapply oQeq_trans; [apply Ho2; exact Hx|]. rewrite (Ho1 x Hx). apply oQeq_refl.
Qed.

(* the undirected loop body: remove k1, remove k2, add k1, add k2 *)
Lemma two_key_ok : forall (K1 K2 K3 K4 : key) k1 k2 sl,
  k1 <> k2 -> slok sl -> gw_ok sl k1 -> gw_ok sl k2 ->
  (from_is sl K1 = true -> sabs sl k1 <> None) -> (from_is sl K1 = false -> sabs sl k1 = None) ->
  (from_is sl K2 = true -> sabs sl k2 <> None) -> (from_is sl K2 = false -> sabs sl k2 = None) ->
  exists sl', rbind (when (from_is sl K1) (rem_actor k1) sl) (fun sl =>
              rbind (when (from_is sl K2) (rem_actor k2) sl) (fun sl =>
              rbind (when (from_is sl K3) (add_actor k1) sl) (fun sl =>
              when (from_is sl K4) (add_actor k2) sl))) = Ok sl' /\
              slok sl' /\ same_frame sl sl' /\
              oQeq (sabs sl' k1) (if from_is sl K3 then Some (wgt sl k1) else None) /\
              oQeq (sabs sl' k2) (if from_is sl K4 then Some (wgt sl k2) else None) /\
              forall x, x <> k1 -> x <> k2 -> oQeq (sabs sl' x) (sabs sl x).
Proof.
  intros K1 K2 K3 K4 k1 k2 sl Hne Hok Hg1 Hg2 Hp1 Ha1 Hp2 Ha2.
  assert (Hne' : k2 <> k1) by (intro E; apply Hne; symmetry; exact E).
  destruct (when_rem_ok (from_is sl K1) k1 sl Hok Hp1) as [s1 [E1 [Hok1 [Hf1 [Hk1 Ho1]]]]].
  rewrite E1, rbind_ok.
  assert (Hn1 : sabs s1 k1 = None).
  { rewrite Hk1. destruct (from_is sl K1); [reflexivity|]. apply Ha1. reflexivity. }
  rewrite (same_frame_from _ _ _ Hf1).
  assert (Hp2' : from_is sl K2 = true -> sabs s1 k2 <> None).
  { intro E. rewrite (Ho1 k2 Hne'). apply Hp2. exact E. }
  destruct (when_rem_ok (from_is sl K2) k2 s1 Hok1 Hp2') as [s2 [E2 [Hok2 [Hf2 [Hk2 Ho2]]]]].
  rewrite E2, rbind_ok.
  assert (Hn2 : sabs s2 k2 = None).
  { rewrite Hk2. destruct (from_is sl K2); [reflexivity|]. rewrite (Ho1 k2 Hne'). apply Ha2. reflexivity. }
  assert (Hn12 : sabs s2 k1 = None). { rewrite (Ho2 k1 Hne). exact Hn1. }
  pose proof (same_frame_trans _ _ _ Hf1 Hf2) as Hf02.
  rewrite (same_frame_from _ _ _ Hf02).
  destruct (when_add_ok (from_is sl K3) k1 s2 Hok2 (same_frame_gw_ok _ _ _ Hf02 Hg1) (fun _ => Hn12))
    as [s3 [E3 [Hok3 [Hf3 [Hk3 Ho3]]]]].
  rewrite E3, rbind_ok.
  pose proof (same_frame_trans _ _ _ Hf02 Hf3) as Hf03.
  rewrite (same_frame_from _ _ _ Hf03).
  assert (Hn23 : sabs s3 k2 = None).
  { apply oQeq_none_l. rewrite <- Hn2. apply Ho3. exact Hne'. }
  destruct (when_add_ok (from_is sl K4) k2 s3 Hok3 (same_frame_gw_ok _ _ _ Hf03 Hg2) (fun _ => Hn23))
    as [s4 [E4 [Hok4 [Hf4 [Hk4 Ho4]]]]].
  exists s4. split; [exact E4|]. split; [exact Hok4|]. split; [eapply same_frame_trans; eassumption|].
  split; [|split].
  - eapply oQeq_trans; [apply Ho4; exact Hne|]. eapply oQeq_trans; [exact Hk3|].
    rewrite (same_frame_wgt _ _ _ Hf02), Hn12. destruct (from_is sl K3); apply oQeq_refl.
  - eapply oQeq_trans; [exact Hk4|]. rewrite (same_frame_wgt _ _ _ Hf03), Hn23.
    destruct (from_is sl K4); apply oQeq_refl.
  - intros x Hx1 Hx2. eapply oQeq_trans; [apply Ho4; exact Hx2|].
    eapply oQeq_trans; [apply Ho3; exact Hx1|]. rewrite (Ho2 x Hx2), (Ho1 x Hx1). apply oQeq_refl.
Qed.

(* the fill-ins of get_weight do nothing when the dictionary is complete *)
Lemma fill_fwd_id : forall m x sl, gw_ok sl (kpair m x) -> fill_fwd m x sl = Ok sl.
Proof.
  intros m x sl H. unfold fill_fwd, gw_ok in *. destruct (sl_gw sl) as [t|]; [|reflexivity].
  destruct H as [w [E _]]. rewrite E. reflexivity.
Qed.
Lemma fill_pred_id : forall m p sl, gw_ok sl (kpair p m) -> fill_pred m p sl = Ok sl.
Proof.
  intros m p sl H. unfold fill_pred, gw_ok in *. destruct (sl_gw sl) as [t|]; [|reflexivity].
  destruct H as [w [E _]]. rewrite E. reflexivity.
Qed.
Lemma fill_undirected_id : forall m x sl, gw_ok sl (kpair m x) -> gw_ok sl (kpair x m) ->
  fill_undirected m x sl = Ok sl.
Proof.
  intros m x sl H1 H2. unfold fill_undirected, gw_ok in *. destruct (sl_gw sl) as [t|]; [|reflexivity].
  destruct H1 as [w1 [E1 _]]. destruct H2 as [w2 [E2 _]]. rewrite E1, E2. reflexivity.
Qed.

(* ------------------------------------------------------------------ *)
(* the specification of the bookkeeping                                *)

Section Ev.
Variable g : graph.

(* simple graph (what wf_graphb checks), in the form the proofs use *)
Record wfg2 : Prop := {
  g_nodup : NoDup (gnodes g);
  g_adj_nodup : forall u, In u (gnodes g) -> NoDup (gadj g u);
  g_pred_nodup : forall u, In u (gnodes g) -> NoDup (gpred g u);
  g_noself : forall u, In u (gnodes g) -> ~ In u (gadj g u);
  g_adj_in : forall u v, In u (gnodes g) -> In v (gadj g u) -> In v (gnodes g);
  g_pred_in : forall u v, In u (gnodes g) -> In v (gpred g u) -> In v (gnodes g);
  g_pred_adj : forall u v, In u (gnodes g) -> In v (gnodes g) -> (In u (gpred g v) <-> In v (gadj g u));
  g_sym : gdirected g = false -> forall u v, In u (gnodes g) -> In v (gadj g u) -> In u (gadj g v)
}.
Hypothesis Hg : wfg2.

(* L0: the actors a transition is enabled for, with their weights, computed from
   scratch from the statuses *)
Definition sp_spec (st : node -> N) (sl : slot) (k : key) : option Q :=
  match k with
  | [u] => if mem u (gnodes g) && from_is sl [st u] then Some (wgt sl k) else None
  | _ => None
  end.
Definition in_spec (st : node -> N) (sl : slot) (k : key) : option Q :=
  match k with
  | [u; v] => if mem u (gnodes g) && mem v (gadj g u) && from_is sl [st u; st v]
              then Some (wgt sl k) else None
  | _ => None
  end.

(* the weight dictionaries cover every node / every ordered adjacent pair *)
Definition sp_full (sl : slot) : Prop := forall u, In u (gnodes g) -> gw_ok sl [u].
Definition in_full (sl : slot) : Prop :=
  forall u v, In u (gnodes g) -> In v (gadj g u) -> gw_ok sl [u; v].

Lemma sp_spec_frame : forall st sl sl' k, same_frame sl sl' -> sp_spec st sl' k = sp_spec st sl k.
Proof.
  intros st sl sl' [|u [|v r]] Hf; cbn [sp_spec]; try reflexivity.
  rewrite (same_frame_from _ _ _ Hf), (same_frame_wgt _ _ _ Hf). reflexivity.
Qed.
Lemma in_spec_frame : forall st sl sl' k, same_frame sl sl' -> in_spec st sl' k = in_spec st sl k.
Proof.
  intros st sl sl' [|u [|v [|w r]]] Hf; cbn [in_spec]; try reflexivity.
  rewrite (same_frame_from _ _ _ Hf), (same_frame_wgt _ _ _ Hf). reflexivity.
Qed.
Lemma sp_full_frame : forall sl sl', same_frame sl sl' -> sp_full sl -> sp_full sl'.
Proof. intros sl sl' Hf H u Hu. apply (same_frame_gw_ok _ _ _ Hf). apply H. exact Hu. Qed.
Lemma in_full_frame : forall sl sl', same_frame sl sl' -> in_full sl -> in_full sl'.
Proof. intros sl sl' Hf H u v Hu Hv. apply (same_frame_gw_ok _ _ _ Hf). apply H; assumption. Qed.

Lemma mem_true_In : forall x l, In x l -> mem x l = true.
Proof. intros x l H. apply mem_In. exact H. Qed.

Lemma oQeq_if_some : forall (a : option Q) (b : bool) w,
  oQeq a (if b then Some w else None) ->
  (b = true -> a <> None) /\ (b = false -> a = None).
Proof.
  intros a b w H. destruct b.
  - split; [intros _; eapply oQeq_some_not_none; exact H|discriminate].
  - split; [discriminate|intros _; apply oQeq_none_l; exact H].
Qed.

Section Update.
Variable st : node -> N.          (* statuses before the event *)
Variable m : node.
Variable new : N.
Hypothesis Hm : In m (gnodes g).
Let old := st m.
Let st' := fupdN st m new.

Lemma st'_m : st' m = new.
Proof. unfold st'. apply fupdN_same. Qed.
Lemma st'_other : forall x, x <> m -> st' x = st x.
Proof. intros x H. unfold st'. apply fupdN_other. exact H. Qed.

(* ---- spontaneous transitions (sim:4242-4253) ---- *)
Lemma upd_spont_ok : forall sl,
  slok sl -> sp_full sl -> (forall k, oQeq (sabs sl k) (sp_spec st sl k)) ->
  exists sl', upd_spont m old new sl = Ok sl' /\ slok sl' /\ same_frame sl sl' /\
              forall k, oQeq (sabs sl' k) (sp_spec st' sl k).
Proof.
  intros sl Hok Hfull Hag. unfold upd_spont.
  assert (Hpre : oQeq (sabs sl (knode m)) (if from_is sl [old] then Some (wgt sl (knode m)) else None)).
  { eapply oQeq_trans; [apply Hag|]. unfold knode. cbn [sp_spec]. rewrite (mem_true_In _ _ Hm).
    cbn [andb]. apply oQeq_refl. }
  destruct (oQeq_if_some _ _ _ Hpre) as [Hp Ha].
  destruct (one_key_ok [old] [new] (knode m) sl Hok (Hfull m Hm) Hp Ha)
    as [sl1 [E1 [Hok1 [Hf1 [Hk1 Ho1]]]]].
  assert (E1' : rbind (when (from_is sl [old]) (rem_actor (knode m)) sl)
                  (fun sl0 => rbind (when (from_is sl0 [new]) (add_actor (knode m)) sl0) refresh)
                = rbind (rbind (when (from_is sl [old]) (rem_actor (knode m)) sl)
                    (fun sl0 => when (from_is sl0 [new]) (add_actor (knode m)) sl0)) refresh).
  { destruct (when (from_is sl [old]) (rem_actor (knode m)) sl); reflexivity. }
  rewrite E1', E1, rbind_ok.
  destruct (refresh_ok sl1 Hok1) as [sl2 [E2 [Hok2 [Hf2 Hs2]]]].
  exists sl2. split; [exact E2|]. split; [exact Hok2|]. split; [eapply same_frame_trans; eassumption|].
  intro k. rewrite Hs2. destruct (keqb_spec k (knode m)) as [E|E].
  - subst k. eapply oQeq_trans; [exact Hk1|]. unfold knode. cbn [sp_spec].
    rewrite (mem_true_In _ _ Hm), st'_m. cbn [andb]. apply oQeq_refl.
  - eapply oQeq_trans; [apply Ho1; exact E|]. eapply oQeq_trans; [apply Hag|]. apply oQeq_of_eq.
    destruct k as [|u [|v r]]; cbn [sp_spec]; try reflexivity.
    rewrite st'_other; [reflexivity|]. intro Eu. subst u. apply E. reflexivity.
Qed.

(* ---- induced transitions, undirected branch (sim:4282-4300) ---- *)
Lemma nbr_facts : forall x, In x (gadj g m) -> x <> m /\ In x (gnodes g).
Proof.
  intros x Hx. split.
  - intro E. subst x. apply (g_noself Hg m Hm). exact Hx.
  - apply (g_adj_in Hg m x Hm Hx).
Qed.

Definition touched (d : list node) (k : key) : bool :=
  match k with
  | [a; b] => (N.eqb a m && mem b d) || (N.eqb b m && mem a d)
  | _ => false
  end.
Definition Mu (sl : slot) (d : list node) (k : key) : option Q :=
  if touched d k then in_spec st' sl k else in_spec st sl k.

Lemma in_spec_untouched : forall sl a b, a <> m -> b <> m ->
  in_spec st' sl [a; b] = in_spec st sl [a; b].
Proof.
  intros sl a b Ha Hb. cbn [in_spec]. rewrite (st'_other a Ha), (st'_other b Hb). reflexivity.
Qed.

Lemma in_spec_at : forall s0 sl a b, In a (gnodes g) -> In b (gadj g a) ->
  in_spec s0 sl [a; b] = if from_is sl [s0 a; s0 b] then Some (wgt sl [a; b]) else None.
Proof.
  intros s0 sl a b Ha Hb. cbn [in_spec]. rewrite (mem_true_In _ _ Ha), (mem_true_In _ _ Hb).
  reflexivity.
Qed.

Lemma in_spec_nonedge : forall s0 sl a b, ~ (In a (gnodes g) /\ In b (gadj g a)) ->
  in_spec s0 sl [a; b] = None.
Proof.
  intros s0 sl a b H. cbn [in_spec].
  destruct (mem a (gnodes g)) eqn:Ea; [|reflexivity].
  destruct (mem b (gadj g a)) eqn:Eb; [|reflexivity].
  exfalso. apply H. split; apply mem_In; assumption.
Qed.

Lemma upd_nbr_ok : forall sl0, gdirected g = false -> in_full sl0 ->
  forall d x sl, In x (gadj g m) -> ~ In x d -> slok sl -> same_frame sl0 sl ->
  (forall k, oQeq (sabs sl k) (Mu sl0 d k)) ->
  exists sl', upd_nbr st' m old new x sl = Ok sl' /\ slok sl' /\ same_frame sl0 sl' /\
              forall k, oQeq (sabs sl' k) (Mu sl0 (x :: d) k).
Proof.
  intros sl0 Hund Hfull d x sl Hx Hxd Hok Hfr Hag.
  destruct (nbr_facts x Hx) as [Hxm Hxn].
  assert (Hmx : In m (gadj g x)) by (apply (g_sym Hg Hund m x Hm Hx)).
  assert (Hmd : mem x d = false) by (apply mem_false; exact Hxd).
  pose proof (in_full_frame _ _ Hfr Hfull) as Hfull'.
  assert (Hg1 : gw_ok sl (kpair x m)) by (apply Hfull'; assumption).
  assert (Hg2 : gw_ok sl (kpair m x)) by (apply Hfull'; assumption).
  assert (Hne : kpair x m <> kpair m x).
  { unfold kpair. intro E. injection E as E1 _. contradiction. }
  assert (Hpre1 : oQeq (sabs sl (kpair x m))
            (if from_is sl [st' x; old] then Some (wgt sl (kpair x m)) else None)).
  { eapply oQeq_trans; [apply Hag|]. unfold Mu, kpair. cbn [touched].
    destruct (N.eqb_spec x m) as [E|_]; [contradiction|]. rewrite N.eqb_refl, Hmd. cbn [andb orb].
    rewrite (in_spec_at st sl0 x m Hxn Hmx). rewrite (st'_other x Hxm).
    rewrite <- (same_frame_from _ _ [st x; st m] Hfr), <- (same_frame_wgt _ _ [x; m] Hfr).
    apply oQeq_refl. }
  assert (Hpre2 : oQeq (sabs sl (kpair m x))
            (if from_is sl [old; st' x] then Some (wgt sl (kpair m x)) else None)).
  { eapply oQeq_trans; [apply Hag|]. unfold Mu, kpair. cbn [touched].
    rewrite N.eqb_refl, Hmd. destruct (N.eqb_spec x m) as [E|_]; [contradiction|]. cbn [andb orb].
    rewrite (in_spec_at st sl0 m x Hm Hx). rewrite (st'_other x Hxm).
    rewrite <- (same_frame_from _ _ [st m; st x] Hfr), <- (same_frame_wgt _ _ [m; x] Hfr).
    apply oQeq_refl. }
  destruct (oQeq_if_some _ _ _ Hpre1) as [Hp1 Ha1].
  destruct (oQeq_if_some _ _ _ Hpre2) as [Hp2 Ha2].
  unfold upd_nbr. rewrite (fill_undirected_id m x sl Hg2 Hg1), rbind_ok.
  destruct (two_key_ok [st' x; old] [old; st' x] [st' x; new] [new; st' x] (kpair x m) (kpair m x) sl
              Hne Hok Hg1 Hg2 Hp1 Ha1 Hp2 Ha2) as [sl' [Eq [Hok' [Hf' [Hk1 [Hk2 Ho]]]]]].
  exists sl'. split; [exact Eq|]. split; [exact Hok'|]. split; [eapply same_frame_trans; eassumption|].
  intro k. destruct (keqb_spec k (kpair x m)) as [E1|E1]; [|destruct (keqb_spec k (kpair m x)) as [E2|E2]].
  - subst k. eapply oQeq_trans; [exact Hk1|]. unfold Mu, kpair. cbn [touched].
    rewrite N.eqb_refl. cbn [mem existsb]. rewrite N.eqb_refl. cbn [orb andb]. rewrite orb_true_r.
    rewrite (in_spec_at st' sl0 x m Hxn Hmx), st'_m.
    rewrite <- (same_frame_from _ _ [st' x; new] Hfr), <- (same_frame_wgt _ _ [x; m] Hfr).
    apply oQeq_refl.
  - subst k. eapply oQeq_trans; [exact Hk2|]. unfold Mu, kpair. cbn [touched].
    rewrite N.eqb_refl. cbn [mem existsb]. rewrite N.eqb_refl. cbn [orb andb].
    rewrite (in_spec_at st' sl0 m x Hm Hx), st'_m.
    rewrite <- (same_frame_from _ _ [new; st' x] Hfr), <- (same_frame_wgt _ _ [m; x] Hfr).
    apply oQeq_refl.
  - eapply oQeq_trans; [apply Ho; assumption|]. eapply oQeq_trans; [apply Hag|]. apply oQeq_of_eq.
    unfold Mu. replace (touched (x :: d) k) with (touched d k); [reflexivity|].
    destruct k as [|a [|b [|c r]]]; cbn [touched]; try reflexivity.
    cbn [mem existsb].
    destruct (N.eqb_spec a m) as [Ea|Ea]; destruct (N.eqb_spec b m) as [Eb|Eb]; cbn [andb orb].
    + subst a b. destruct (N.eqb_spec m x) as [E|_]; [exfalso; apply Hxm; symmetry; exact E|reflexivity].
    + subst a. destruct (N.eqb_spec b x) as [E|_]; [subst b; exfalso; apply E2; reflexivity|].
      cbn [orb]. reflexivity.
    + subst b. destruct (N.eqb_spec a x) as [E|_]; [subst a; exfalso; apply E1; reflexivity|].
      cbn [orb]. reflexivity.
    + reflexivity.
Qed.

Lemma Mu_nil : forall sl k, Mu sl [] k = in_spec st sl k.
Proof.
  intros sl k. unfold Mu. replace (touched [] k) with false; [reflexivity|].
  destruct k as [|a [|b [|c r]]]; cbn [touched mem existsb]; try reflexivity.
  rewrite !andb_false_r. reflexivity.
Qed.

Lemma Mu_full : forall sl k, gdirected g = false ->
  Mu sl (rev (gadj g m) ++ []) k = in_spec st' sl k.
Proof.
  intros sl k Hund. unfold Mu. rewrite app_nil_r.
  destruct (touched (rev (gadj g m)) k) eqn:Et; [reflexivity|].
  destruct k as [|a [|b [|c r]]]; try reflexivity.
  cbn [touched] in Et. rewrite !mem_rev in Et. apply orb_false_iff in Et. destruct Et as [E1 E2].
  destruct (N.eqb_spec a m) as [Ea|Ea].
  - subst a. cbn [andb] in E1. apply mem_false in E1.
    rewrite !in_spec_nonedge; [reflexivity| |]; intros [_ H]; contradiction.
  - destruct (N.eqb_spec b m) as [Eb|Eb].
    + subst b. cbn [andb] in E2. apply mem_false in E2.
      rewrite !in_spec_nonedge; [reflexivity| |]; intros [Ha H]; apply E2;
        apply (g_sym Hg Hund a m Ha H).
    + symmetry. apply in_spec_untouched; assumption.
Qed.

(* ---- induced transitions, directed branch (sim:4258-4280) ---- *)
Definition touched_s (d : list node) (k : key) : bool :=
  match k with [a; b] => N.eqb a m && mem b d | _ => false end.
Definition Ms (sl : slot) (d : list node) (k : key) : option Q :=
  if touched_s d k then in_spec st' sl k else in_spec st sl k.
Definition touched_p (d : list node) (k : key) : bool :=
  match k with [a; b] => N.eqb b m && mem a d | _ => false end.
Definition Mp (sl : slot) (d : list node) (k : key) : option Q :=
  if touched_p d k then in_spec st' sl k else Ms sl (rev (gadj g m) ++ []) k.

Lemma upd_succ_ok : forall sl0, in_full sl0 ->
  forall d x sl, In x (gadj g m) -> ~ In x d -> slok sl -> same_frame sl0 sl ->
  (forall k, oQeq (sabs sl k) (Ms sl0 d k)) ->
  exists sl', upd_succ st' m old new x sl = Ok sl' /\ slok sl' /\ same_frame sl0 sl' /\
              forall k, oQeq (sabs sl' k) (Ms sl0 (x :: d) k).
Proof.
  intros sl0 Hfull d x sl Hx Hxd Hok Hfr Hag.
  destruct (nbr_facts x Hx) as [Hxm Hxn].
  assert (Hmd : mem x d = false) by (apply mem_false; exact Hxd).
  pose proof (in_full_frame _ _ Hfr Hfull) as Hfull'.
  assert (Hg2 : gw_ok sl (kpair m x)) by (apply Hfull'; assumption).
  assert (Hpre2 : oQeq (sabs sl (kpair m x))
            (if from_is sl [old; st' x] then Some (wgt sl (kpair m x)) else None)).
  { eapply oQeq_trans; [apply Hag|]. unfold Ms, kpair. cbn [touched_s].
    rewrite N.eqb_refl, Hmd. cbn [andb].
    rewrite (in_spec_at st sl0 m x Hm Hx). rewrite (st'_other x Hxm).
    rewrite <- (same_frame_from _ _ [st m; st x] Hfr), <- (same_frame_wgt _ _ [m; x] Hfr).
    apply oQeq_refl. }
  destruct (oQeq_if_some _ _ _ Hpre2) as [Hp2 Ha2].
  unfold upd_succ. rewrite (fill_fwd_id m x sl Hg2), rbind_ok.
  destruct (one_key_ok [old; st' x] [new; st' x] (kpair m x) sl Hok Hg2 Hp2 Ha2)
    as [sl' [Eq [Hok' [Hf' [Hk2 Ho]]]]].
  exists sl'. split; [exact Eq|]. split; [exact Hok'|]. split; [eapply same_frame_trans; eassumption|].
  intro k. destruct (keqb_spec k (kpair m x)) as [E2|E2].
  - subst k. eapply oQeq_trans; [exact Hk2|]. unfold Ms, kpair. cbn [touched_s].
    rewrite N.eqb_refl. cbn [mem existsb]. rewrite N.eqb_refl. cbn [orb andb].
    rewrite (in_spec_at st' sl0 m x Hm Hx), st'_m.
    rewrite <- (same_frame_from _ _ [new; st' x] Hfr), <- (same_frame_wgt _ _ [m; x] Hfr).
    apply oQeq_refl.
  - eapply oQeq_trans; [apply Ho; assumption|]. eapply oQeq_trans; [apply Hag|]. apply oQeq_of_eq.
    unfold Ms. replace (touched_s (x :: d) k) with (touched_s d k); [reflexivity|].
    destruct k as [|a [|b [|c r]]]; cbn [touched_s]; try reflexivity.
    cbn [mem existsb]. destruct (N.eqb_spec a m) as [Ea|Ea]; cbn [andb]; [|reflexivity].
    subst a. destruct (N.eqb_spec b x) as [E|_]; [subst b; exfalso; apply E2; reflexivity|].
    cbn [orb]. reflexivity.
Qed.

Lemma Ms_nil : forall sl k, Ms sl [] k = in_spec st sl k.
Proof.
  intros sl k. unfold Ms. replace (touched_s [] k) with false; [reflexivity|].
  destruct k as [|a [|b [|c r]]]; cbn [touched_s mem existsb]; try reflexivity.
  rewrite andb_false_r. reflexivity.
Qed.

Lemma pred_facts : forall p, In p (gpred g m) -> p <> m /\ In p (gnodes g) /\ In m (gadj g p).
Proof.
  intros p Hp.
  assert (Hpn : In p (gnodes g)) by (apply (g_pred_in Hg m p Hm Hp)).
  assert (Hmp : In m (gadj g p)) by (apply (g_pred_adj Hg p m Hpn Hm); exact Hp).
  split; [|split; assumption].
  intro E. subst p. apply (g_noself Hg m Hm). exact Hmp.
Qed.

Lemma upd_pred_ok : forall sl0, in_full sl0 ->
  forall d p sl, In p (gpred g m) -> ~ In p d -> slok sl -> same_frame sl0 sl ->
  (forall k, oQeq (sabs sl k) (Mp sl0 d k)) ->
  exists sl', upd_pred st' m old new p sl = Ok sl' /\ slok sl' /\ same_frame sl0 sl' /\
              forall k, oQeq (sabs sl' k) (Mp sl0 (p :: d) k).
Proof.
  intros sl0 Hfull d p sl Hp Hpd Hok Hfr Hag.
  destruct (pred_facts p Hp) as [Hpm [Hpn Hmp]].
  assert (Hmd : mem p d = false) by (apply mem_false; exact Hpd).
  pose proof (in_full_frame _ _ Hfr Hfull) as Hfull'.
  assert (Hg1 : gw_ok sl (kpair p m)) by (apply Hfull'; assumption).
  assert (Hpre1 : oQeq (sabs sl (kpair p m))
            (if from_is sl [st' p; old] then Some (wgt sl (kpair p m)) else None)).
  { eapply oQeq_trans; [apply Hag|]. unfold Mp, Ms, kpair. cbn [touched_p touched_s].
    rewrite N.eqb_refl, Hmd. destruct (N.eqb_spec p m) as [E|_]; [contradiction|]. cbn [andb].
    rewrite (in_spec_at st sl0 p m Hpn Hmp). rewrite (st'_other p Hpm).
    rewrite <- (same_frame_from _ _ [st p; st m] Hfr), <- (same_frame_wgt _ _ [p; m] Hfr).
    apply oQeq_refl. }
  destruct (oQeq_if_some _ _ _ Hpre1) as [Hp1 Ha1].
  unfold upd_pred. rewrite (fill_pred_id m p sl Hg1), rbind_ok.
  destruct (one_key_ok [st' p; old] [st' p; new] (kpair p m) sl Hok Hg1 Hp1 Ha1)
    as [sl' [Eq [Hok' [Hf' [Hk1 Ho]]]]].
  exists sl'. split; [exact Eq|]. split; [exact Hok'|]. split; [eapply same_frame_trans; eassumption|].
  intro k. destruct (keqb_spec k (kpair p m)) as [E1|E1].
  - subst k. eapply oQeq_trans; [exact Hk1|]. unfold Mp, kpair. cbn [touched_p].
    rewrite N.eqb_refl. cbn [mem existsb]. rewrite N.eqb_refl. cbn [orb andb].
    rewrite (in_spec_at st' sl0 p m Hpn Hmp), st'_m.
    rewrite <- (same_frame_from _ _ [st' p; new] Hfr), <- (same_frame_wgt _ _ [p; m] Hfr).
    apply oQeq_refl.
  - eapply oQeq_trans; [apply Ho; assumption|]. eapply oQeq_trans; [apply Hag|]. apply oQeq_of_eq.
    unfold Mp. replace (touched_p (p :: d) k) with (touched_p d k); [reflexivity|].
    destruct k as [|a [|b [|c r]]]; cbn [touched_p]; try reflexivity.
    cbn [mem existsb]. destruct (N.eqb_spec b m) as [Eb|Eb]; cbn [andb]; [|reflexivity].
    subst b. destruct (N.eqb_spec a p) as [E|_]; [subst a; exfalso; apply E1; reflexivity|].
    cbn [orb]. reflexivity.
Qed.

Lemma Mp_nil : forall sl k, Mp sl [] k = Ms sl (rev (gadj g m) ++ []) k.
Proof.
  intros sl k. unfold Mp. replace (touched_p [] k) with false; [reflexivity|].
  destruct k as [|a [|b [|c r]]]; cbn [touched_p mem existsb]; try reflexivity.
  rewrite andb_false_r. reflexivity.
Qed.

Lemma Mp_full : forall sl k, Mp sl (rev (gpred g m) ++ []) k = in_spec st' sl k.
Proof.
  intros sl k. unfold Mp. rewrite app_nil_r.
  destruct (touched_p (rev (gpred g m)) k) eqn:Et; [reflexivity|].
  unfold Ms. rewrite app_nil_r.
  destruct (touched_s (rev (gadj g m)) k) eqn:Es; [reflexivity|].
  destruct k as [|a [|b [|c r]]]; try reflexivity.
  cbn [touched_p] in Et. cbn [touched_s] in Es. rewrite mem_rev in Et, Es.
  destruct (N.eqb_spec a m) as [Ea|Ea].
  - subst a. cbn [andb] in Es. apply mem_false in Es.
    rewrite !in_spec_nonedge; [reflexivity| |]; intros [_ H]; contradiction.
  - destruct (N.eqb_spec b m) as [Eb|Eb].
    + subst b. cbn [andb] in Et. apply mem_false in Et.
      rewrite !in_spec_nonedge; [reflexivity| |]; intros [Ha H]; apply Et;
        apply (g_pred_adj Hg a m Ha Hm); exact H.
    + symmetry. apply in_spec_untouched; assumption.
Qed.

(* ---- one induced slot, either branch, with the roundoff guard ---- *)
Lemma upd_induced_ok : forall sl,
  slok sl -> in_full sl -> (forall k, oQeq (sabs sl k) (in_spec st sl k)) ->
  exists sl', upd_induced g st' m old new sl = Ok sl' /\ slok sl' /\ same_frame sl sl' /\
              forall k, oQeq (sabs sl' k) (in_spec st' sl k).
Proof.
  intros sl Hok Hfull Hag. unfold upd_induced.
  assert (Hloops : exists sl1,
    (if gdirected g
     then rbind (rfold (upd_succ st' m old new) (gadj g m) sl) (rfold (upd_pred st' m old new) (gpred g m))
     else rfold (upd_nbr st' m old new) (gadj g m) sl) = Ok sl1 /\ slok sl1 /\ same_frame sl sl1 /\
    forall k, oQeq (sabs sl1 k) (in_spec st' sl k)).
  { destruct (gdirected g) eqn:Ed.
    - destruct (sfold_agree (upd_succ st' m old new) sl (Ms sl) (gadj g m)
                  (fun d x s1 Hx => upd_succ_ok sl Hfull d x s1 Hx)
                  (g_adj_nodup Hg m Hm) [] sl) as [s1 [E1 [Hok1 [Hf1 Ha1]]]].
      + intros x _ H. exact H.
      + exact Hok.
      + apply same_frame_refl.
      + intro k. rewrite Ms_nil. apply Hag.
      + rewrite E1, rbind_ok.
        destruct (sfold_agree (upd_pred st' m old new) sl (Mp sl) (gpred g m)
                    (fun d x s2 Hx => upd_pred_ok sl Hfull d x s2 Hx)
                    (g_pred_nodup Hg m Hm) [] s1) as [s2 [E2 [Hok2 [Hf2 Ha2]]]].
        * intros x _ H. exact H.
        * exact Hok1.
        * exact Hf1.
        * intro k. rewrite Mp_nil. apply Ha1.
        * exists s2. split; [exact E2|]. split; [exact Hok2|]. split; [exact Hf2|].
          intro k. eapply oQeq_trans; [apply Ha2|]. rewrite Mp_full. apply oQeq_refl.
    - destruct (sfold_agree (upd_nbr st' m old new) sl (Mu sl) (gadj g m)
                  (fun d x s1 Hx => upd_nbr_ok sl Ed Hfull d x s1 Hx)
                  (g_adj_nodup Hg m Hm) [] sl) as [s1 [E1 [Hok1 [Hf1 Ha1]]]].
      + intros x _ H. exact H.
      + exact Hok.
      + apply same_frame_refl.
      + intro k. rewrite Mu_nil. apply Hag.
      + exists s1. split; [exact E1|]. split; [exact Hok1|]. split; [exact Hf1|].
        intro k. eapply oQeq_trans; [apply Ha1|]. rewrite (Mu_full sl k Ed). apply oQeq_refl. }
  destruct Hloops as [sl1 [E1 [Hok1 [Hf1 Ha1]]]]. rewrite E1, rbind_ok.
  destruct (refresh_ok sl1 Hok1) as [sl2 [E2 [Hok2 [Hf2 Hs2]]]].
  exists sl2. split; [exact E2|]. split; [exact Hok2|]. split; [eapply same_frame_trans; eassumption|].
  intro k. rewrite Hs2. apply Ha1.
Qed.

End Update.
End Ev.
