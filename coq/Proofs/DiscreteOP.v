(* The oracle-tree presentation of Model/DiscreteO.v is the extracted model of
   Model/Discrete.v under both interpretations:
     lazy p   gives discrete_SIR with simple_rules p        (lazy_dloop)
     eager tb gives discrete_SIR with the table rule tb     (eager_dloop, eager_dloop_det)
   Sampler programs contain functions (continuations of Unif ...), so "the same
   program" is stated as [seqv]: equal up to pointwise equal continuations; [law]
   maps seqv programs to EQUAL distributions (law_seqv).  No functional
   extensionality is used. *)
From EoNV Require Import Prelude Samp Graph Discrete DiscreteO.

Inductive seqv {A : Type} : samp A -> samp A -> Prop :=
| sq_ret : forall a, seqv (Ret a) (Ret a)
| sq_fail : forall e, seqv (Fail e) (Fail e)
| sq_expo : forall r k k', (forall d, seqv (k d) (k' d)) -> seqv (Expo r k) (Expo r k')
| sq_flip : forall p a a' b b', seqv a a' -> seqv b b' -> seqv (Flip p a b) (Flip p a' b')
| sq_casc : forall ps k k', (forall i, seqv (k i) (k' i)) -> seqv (Casc ps k) (Casc ps k')
| sq_choose : forall w c k k', (forall x, seqv (k x) (k' x)) -> seqv (Choose w c k) (Choose w c k')
| sq_unif : forall c k k', (forall x, seqv (k x) (k' x)) -> seqv (Unif c k) (Unif c k')
| sq_sample : forall pop n k k', (forall l, seqv (k l) (k' l)) -> seqv (Sample pop n k) (Sample pop n k').

Lemma seqv_refl : forall A (m : samp A), seqv m m.
Proof. intros A m. induction m; constructor; assumption. Qed.

Lemma seqv_eq : forall A (m m' : samp A), m = m' -> seqv m m'.
Proof. intros A m m' E. subst m'. apply seqv_refl. Qed.

Lemma seqv_trans : forall A (m1 m2 m3 : samp A), seqv m1 m2 -> seqv m2 m3 -> seqv m1 m3.
Proof.
  intros A m1 m2 m3 H. revert m3.
  induction H as [a|e|r k k' Hk IH|p a a' b b' Ha IHa Hb IHb|ps k k' Hk IH|w c k k' Hk IH|c k k' Hk IH|pop n k k' Hk IH];
    intros m3 H3; inversion H3; subst; constructor; auto.
Qed.

Lemma seqv_sym : forall A (m1 m2 : samp A), seqv m1 m2 -> seqv m2 m1.
Proof. intros A m1 m2 H. induction H; constructor; auto. Qed.

Lemma seqv_bind : forall A B (m m' : samp A) (f f' : A -> samp B),
  seqv m m' -> (forall a, seqv (f a) (f' a)) -> seqv (bind m f) (bind m' f').
Proof.
  intros A B m m' f f' H Hf. induction H; cbn [bind]; try (constructor; auto); auto.
Qed.

(* seqv programs have the same distribution (Leibniz-equal lists) *)
Lemma law_seqv : forall A (m m' : samp A), seqv m m' -> law m = law m'.
Proof.
  intros A m m' H.
  induction H as [a|e|r k k' Hk IH|p a a' b b' Ha IHa Hb IHb|ps k k' Hk IH|w c k k' Hk IH|c k k' Hk IH|pop n k k' Hk IH];
    cbn [law]; try reflexivity.
  - rewrite IHa, IHb. reflexivity.
  - f_equal. apply map_ext. intro ip. rewrite IH. reflexivity.
  - f_equal. apply map_ext. intro cw. rewrite IH. reflexivity.
  - f_equal. apply map_ext. intro x. rewrite IH. reflexivity.
Qed.

(* ---- the two interpretations commute with bind ---- *)
Lemma lazy_obind : forall A B p (t : otree A) (K : A -> otree B),
  seqv (lazy p (obind t K)) (bind (lazy p t) (fun a => lazy p (K a))).
Proof.
  intros A B p t K. induction t as [a|e|u v kt IHt kf IHf|c k IH]; cbn [obind lazy bind].
  - apply seqv_refl.
  - constructor.
  - constructor; assumption.
  - constructor. exact IH.
Qed.

Lemma eager_obind : forall A B tb (t : otree A) (K : A -> otree B),
  seqv (eager tb (obind t K)) (bind (eager tb t) (fun a => eager tb (K a))).
Proof.
  intros A B tb t K. induction t as [a|e|u v kt IHt kf IHf|c k IH]; cbn [obind eager bind].
  - apply seqv_refl.
  - constructor.
  - destruct (tb u v); assumption.
  - constructor. exact IH.
Qed.

(* interpretation of a bind against a model bind *)
Lemma lazy_bind_seqv : forall A B p (t : otree A) (K : A -> otree B) m F,
  seqv (lazy p t) m -> (forall a, seqv (lazy p (K a)) (F a)) ->
  seqv (lazy p (obind t K)) (bind m F).
Proof.
  intros A B p t K m F H1 H2. eapply seqv_trans; [apply lazy_obind|]. apply seqv_bind; assumption.
Qed.

Lemma eager_bind_seqv : forall A B tb (t : otree A) (K : A -> otree B) m F,
  seqv (eager tb t) m -> (forall a, seqv (eager tb (K a)) (F a)) ->
  seqv (eager tb (obind t K)) (bind m F).
Proof.
  intros A B tb t K m F H1 H2. eapply seqv_trans; [apply eager_obind|]. apply seqv_bind; assumption.
Qed.

(* ---- the contact loop ---- *)
Section Interp.
Variable g : graph.
Variable ord : nat -> list node -> list node.
Variable tmin : Q.
Variable tmax : xtime.
Variable full : bool.

Lemma lazy_cloop : forall p k age cs c,
  lazy p (cloop_o full k cs c) = cloop (simple_rules p) full k age cs c.
Proof.
  intros p k age cs. induction cs as [|[u v] cs IH]; intro c; [reflexivity|].
  cbn [cloop_o cloop]. destruct (c_sus c v).
  - cbn [oask obind lazy simple_rules r_test bind]. rewrite !IH. reflexivity.
  - destruct (full && mem v (c_new c)); [|apply IH].
    cbn [oask obind lazy simple_rules r_test bind]. rewrite !IH. reflexivity.
Qed.

(* any rule whose transmission test reads the table *)
Lemma eager_cloop : forall tb R k age cs c,
  (forall u v a, r_test R u v a = Ret (tb u v)) ->
  eager tb (cloop_o full k cs c) = cloop R full k age cs c.
Proof.
  intros tb R k age cs c HR. revert c. induction cs as [|[u v] cs IH]; intro c; [reflexivity|].
  cbn [cloop_o cloop]. destruct (c_sus c v).
  - rewrite HR. cbn [oask obind eager bind]. destruct (tb u v); apply IH.
  - destruct (full && mem v (c_new c)); [|apply IH].
    rewrite HR. cbn [oask obind eager bind]. destruct (tb u v); apply IH.
Qed.

Lemma lazy_picks : forall p k t inf tl pl,
  seqv (lazy p (picks_o k t inf tl pl)) (picks (simple_rules p) k t inf tl pl).
Proof.
  intros p k t inf. induction inf as [|[v c] inf IH]; intros tl pl; [apply seqv_refl|].
  cbn [picks_o picks]. apply lazy_bind_seqv.
  - unfold opick. cbn [lazy simple_rules r_pick]. constructor. intro x.
    destruct x as [|a [|b x]]; cbn [lazy]; apply seqv_refl.
  - intro s. apply IH.
Qed.

Lemma eager_picks : forall tb R k t inf tl pl,
  (forall j v c, r_pick R j v c = r_pick (simple_rules 0) j v c) ->
  seqv (eager tb (picks_o k t inf tl pl)) (picks R k t inf tl pl).
Proof.
  intros tb R k t inf tl pl HR. revert tl pl. induction inf as [|[v c] inf IH]; intros tl pl; [apply seqv_refl|].
  cbn [picks_o picks]. apply eager_bind_seqv.
  - rewrite HR. unfold opick. cbn [eager simple_rules r_pick]. constructor. intro x.
    destruct x as [|a [|b x]]; cbn [eager]; apply seqv_refl.
  - intro s. apply IH.
Qed.

Lemma lazy_step : forall p k t s,
  seqv (lazy p (step_o g ord tmax full k t s)) (step g (simple_rules p) None ord tmax full k t s).
Proof.
  intros p k t s. unfold step_o, step. apply lazy_bind_seqv.
  - apply seqv_eq. apply lazy_cloop.
  - intro c. apply lazy_bind_seqv.
    + destruct full; [apply lazy_picks|apply seqv_refl].
    + intro tp. apply seqv_refl.
Qed.

Lemma eager_step : forall tb R k t s,
  (forall u v a, r_test R u v a = Ret (tb u v)) ->
  (full = true -> forall j v c, r_pick R j v c = r_pick (simple_rules 0) j v c) ->
  seqv (eager tb (step_o g ord tmax full k t s)) (step g R None ord tmax full k t s).
Proof.
  intros tb R k t s HR HP. unfold step_o, step. apply eager_bind_seqv.
  - apply seqv_eq. apply eager_cloop. exact HR.
  - intro c. apply eager_bind_seqv.
    + destruct full; [apply eager_picks; apply HP; reflexivity|apply seqv_refl].
    + intro tp. apply seqv_refl.
Qed.

Lemma lazy_dloop : forall p i0 r0 fuel k t s,
  seqv (lazy p (dloop_o g ord tmin tmax full i0 r0 fuel k t s))
       (dloop g (simple_rules p) None ord tmin tmax full i0 r0 fuel k t s).
Proof.
  intros p i0 r0 fuel. induction fuel as [|f IH]; intros k t s; cbn [dloop_o dloop];
    destruct (nonempty (d_infs s) && xlt t tmax); try apply seqv_refl.
  apply lazy_bind_seqv; [apply lazy_step|]. intro s'. apply IH.
Qed.

Lemma eager_dloop : forall tb R i0 r0 fuel k t s,
  (forall u v a, r_test R u v a = Ret (tb u v)) ->
  (full = true -> forall j v c, r_pick R j v c = r_pick (simple_rules 0) j v c) ->
  seqv (eager tb (dloop_o g ord tmin tmax full i0 r0 fuel k t s))
       (dloop g R None ord tmin tmax full i0 r0 fuel k t s).
Proof.
  intros tb R i0 r0 fuel k t s HR HP. revert k t s. induction fuel as [|f IH]; intros k t s; cbn [dloop_o dloop];
    destruct (nonempty (d_infs s) && xlt t tmax); try apply seqv_refl.
  apply eager_bind_seqv; [apply eager_step; assumption|]. intro s'. apply IH.
Qed.

End Interp.

(* with return_full_data = False random.choice is never called: the deterministic rules of
   Model/Discrete.v (any pick table) are the table rule *)
Lemma eager_dloop_det : forall g ord tmin tmax tb pick i0 r0 fuel k t s,
  seqv (eager tb (dloop_o g ord tmin tmax false i0 r0 fuel k t s))
       (dloop g (det_rules (fun u v _ => tb u v) pick) None ord tmin tmax false i0 r0 fuel k t s).
Proof.
  intros. apply eager_dloop; [reflexivity|discriminate].
Qed.

Lemma eager_dloop_table : forall g ord tmin tmax full tb i0 r0 fuel k t s,
  seqv (eager tb (dloop_o g ord tmin tmax full i0 r0 fuel k t s))
       (dloop g (table_rules tb) None ord tmin tmax full i0 r0 fuel k t s).
Proof.
  intros. apply eager_dloop; [reflexivity|reflexivity].
Qed.
