(* C06, output layer: the node-level systems (SIS/SIR_individual_based, SIS/SIR_pair_based and their *_pure_IC
   wrappers).  Generic lemmas over the four assembly functions, then the entry points: which initial vector the
   argument forms produce (rho, Y0/X0, explicit pair arrays, initial_infecteds / initial_recovereds), in the
   order of the caller's nodelist. *)
From EoNV Require Import Prelude Graph Aux Vec IC Wrappers VecP ICP Rhs2D C14xDef Outputs OutputsP OutputsE1 OutputsE2.
From Coq Require Import Lqa Setoid Morphisms.

Lemma vsub_ones_gen s (v : vec) : vsub (map (fun _ => 1) (seq s (length v))) v = map (fun y => 1 - y) v.
Proof. revert s. induction v as [|y v IH]; intros s; [reflexivity|]. cbn [length seq map]. change (vsub (1 :: ?a) (y :: v)) with ((1 - y) :: vsub a v). cbn. f_equal. apply IH. Qed.
Lemma vsub_ones (v : vec) : vsub (ones (length v)) v = x0_of v.
Proof. apply vsub_ones_gen. Qed.
Lemma vsum_vsub_ones n (v : vec) : length v = n -> vsum (vsub (ones n) v) == Qnat n - vsum v.
Proof. intros H. rewrite vsum_vsub by (rewrite ones_length; congruence). rewrite vsum_ones. reflexivity. Qed.
Lemma x0_of_length v : length (x0_of v) = length v.
Proof. apply map_length. Qed.

(* ---------------- individual based ---------------- *)
Lemma out_ib_SIS sv m Y0v full tmin tmax n r :
  msolver_ok sv -> (0 < n)%nat -> m = Ok (Y0v, asm_SIS_individual_based full) -> run_model m tmin tmax n sv = Ok r ->
  shaped r tmin tmax n Y0v (if full then [oSs; oIs] else [oS; oI]) /\
  (if full then vval oIs 0 r = Y0v /\ vval oSs 0 r = x0_of Y0v
   else sval oI 0 r = vsum Y0v /\ sval oS 0 r == Qnat (length Y0v) - vsum Y0v) /\
  (forall j, (j < n)%nat -> (if full then vsum (vval oSs j r) + vsum (vval oIs j r) else sval oS j r + sval oI j r) == Qnat (length Y0v)).
Proof.
  intros OK Hn -> H. inv_run H OK Hn. pose proof (rf_asm F) as HA. unfold asm_SIS_individual_based in HA. injection HA as <-.
  pose proof (rf_row0 F) as H0.
  assert (CONS : forall j, (j < n)%nat -> vsum (vsub (ones (length (x j))) (x j)) + vsum (x j) == Qnat (length Y0v)).
  { intros j Hj. rewrite vsum_vsub_ones by reflexivity. rewrite (rf_width F j Hj). ring. }
  destruct full; shp F true; rd F Hn; unfold sser, vser, vsumt; look; rewrite H0.
  - split; [split; [reflexivity|apply vsub_ones]|]. intros j Hj. rd F Hj. unfold vser. look. apply CONS. exact Hj.
  - split; [split; [reflexivity|apply vsum_vsub_ones; reflexivity]|]. intros j Hj. rd F Hj. unfold sser, vsumt. look. apply CONS. exact Hj.
Qed.

Lemma out_ib_SIR sv m X0v Y0v full tmin tmax n r :
  msolver_ok sv -> (0 < n)%nat -> length Y0v = length X0v ->
  m = Ok (X0v ++ Y0v, asm_SIR_individual_based (length X0v) full) -> run_model m tmin tmax n sv = Ok r ->
  shaped r tmin tmax n (X0v ++ Y0v) (if full then [oS; oI; oR; oSs; oIs; oRs] else [oS; oI; oR]) /\
  sval oS 0 r = vsum X0v /\ sval oI 0 r = vsum Y0v /\ sval oR 0 r == Qnat (length X0v) - vsum X0v - vsum Y0v /\
  (full = true -> vval oSs 0 r = X0v /\ vval oIs 0 r = Y0v /\ vval oRs 0 r = vsub (x0_of X0v) Y0v) /\
  (forall j, (j < n)%nat -> sval oS j r + sval oI j r + sval oR j r == Qnat (length X0v)).
Proof.
  intros OK Hn HL -> H. inv_run H OK Hn. pose proof (rf_asm F) as HA. unfold asm_SIR_individual_based in HA. injection HA as <-.
  pose proof (rf_row0 F) as H0. set (N := length X0v) in *.
  assert (A0 : slice 0 N (x 0%nat) = X0v) by (rewrite H0; apply slice_app_l; reflexivity).
  assert (B0 : slice_from N (x 0%nat) = Y0v) by (rewrite H0; apply slice_from_app).
  assert (CONS : forall j, (j < n)%nat ->
     vsum (slice 0 N (x j)) + vsum (slice_from N (x j)) + vsum (vsub (vsub (ones N) (slice 0 N (x j))) (slice_from N (x j))) == Qnat N).
  { intros j Hj. pose proof (rf_width F j Hj) as W. rewrite app_length, HL in W. fold N in W.
    rewrite vsum_vsub by (rewrite vsub_length, ones_length, slice_length, slice_from_length by lia; lia).
    rewrite vsum_vsub_ones by (rewrite slice_length by lia; lia). ring. }
  shp F full. rd F Hn. unfold sser, vser, vsumt, slc, sfrom.
  destruct full; look; rewrite ?A0, ?B0.
  - split; [reflexivity|]. split; [reflexivity|].
    split; [rewrite vsum_vsub by (rewrite vsub_length, ones_length; unfold N; lia); rewrite vsum_vsub_ones by reflexivity; reflexivity|].
    split; [intros _; repeat split; unfold N; rewrite vsub_ones; reflexivity|].
    intros j Hj. rd F Hj. unfold sser, vsumt, slc, sfrom. look. apply CONS. exact Hj.
  - split; [reflexivity|]. split; [reflexivity|].
    split; [rewrite vsum_vsub by (rewrite vsub_length, ones_length; unfold N; lia); rewrite vsum_vsub_ones by reflexivity; reflexivity|].
    split; [discriminate|].
    intros j Hj. rd F Hj. unfold sser, vsumt, slc, sfrom. look. apply CONS. exact Hj.
Qed.

(* ---------------- pair based ---------------- *)
Lemma amask_length g nl M : length (amask g nl M) = nN nl.
Proof. unfold amask. rewrite map_length, seq_length. reflexivity. Qed.
Lemma amask_rect g nl M : rect (nN nl) (amask g nl M).
Proof. unfold rect, amask. apply Forall_forall. intros row H. apply in_map_iff in H. destruct H as [i [<- _]]. rewrite map_length, seq_length. reflexivity. Qed.

Lemma out_pb_SIS sv m Y0v A B full tmin tmax n r :
  msolver_ok sv -> (0 < n)%nat -> length A = length Y0v -> length B = length Y0v -> rect (length Y0v) A -> rect (length Y0v) B ->
  m = Ok (Y0v ++ flatten A ++ flatten B, asm_SIS_pair_based (length Y0v) full) -> run_model m tmin tmax n sv = Ok r ->
  shaped r tmin tmax n (Y0v ++ flatten A ++ flatten B) (if full then [oS; oI; oXs; oYs; oXY; oXX] else [oS; oI]) /\
  sval oI 0 r = vsum Y0v /\ sval oS 0 r == Qnat (length Y0v) - vsum Y0v /\
  (full = true -> vval oYs 0 r = Y0v /\ vval oXs 0 r = x0_of Y0v /\ mval oXY 0 r = A /\ mval oXX 0 r = B) /\
  (forall j, (j < n)%nat -> sval oS j r + sval oI j r == Qnat (length Y0v)).
Proof.
  intros OK Hn LA LB RA RB -> H. inv_run H OK Hn. pose proof (rf_asm F) as HA. unfold asm_SIS_pair_based in HA. injection HA as <-.
  pose proof (rf_row0 F) as H0. set (N := length Y0v) in *.
  assert (FA : length (flatten A) = (N * N)%nat) by (rewrite (flatten_length N) by exact RA; rewrite LA; reflexivity).
  assert (A0 : slice 0 N (x 0%nat) = Y0v) by (rewrite H0; apply slice_app_l; reflexivity).
  assert (B0 : reshape N N (slice N (N + N * N) (x 0%nat)) = A).
  { rewrite H0. rewrite slice_app_mid by (try reflexivity; rewrite FA; lia).
    rewrite <- (app_nil_r (flatten A)). rewrite <- LA at 1. apply reshape_flatten. exact RA. }
  assert (C0 : reshape N N (slice_from (N + N * N) (x 0%nat)) = B).
  { rewrite H0, app_assoc. unfold slice_from. rewrite skipn_app_l by (rewrite app_length, FA; reflexivity).
    rewrite <- (app_nil_r (flatten B)). rewrite <- LB at 1. apply reshape_flatten. exact RB. }
  assert (CONS : forall j, (j < n)%nat -> vsum (vsub (ones N) (slice 0 N (x j))) + vsum (slice 0 N (x j)) == Qnat N).
  { intros j Hj. pose proof (rf_width F j Hj) as W. rewrite !app_length in W. fold N in W.
    rewrite vsum_vsub_ones by (rewrite slice_length by lia; lia). ring. }
  shp F full. rd F Hn. unfold sser, vser, mser, vsumt, slc, sfrom.
  destruct full; look; rewrite ?A0, ?B0, ?C0.
  - split; [reflexivity|]. split; [apply vsum_vsub_ones; reflexivity|].
    split; [intros _; repeat split; unfold N; apply vsub_ones|].
    intros j Hj. rd F Hj. unfold sser, vsumt, slc. look. apply CONS. exact Hj.
  - split; [reflexivity|]. split; [apply vsum_vsub_ones; reflexivity|]. split; [discriminate|].
    intros j Hj. rd F Hj. unfold sser, vsumt, slc. look. apply CONS. exact Hj.
Qed.

Lemma out_pb_SIR sv m X0v Y0v A B full tmin tmax n r :
  msolver_ok sv -> (0 < n)%nat -> length Y0v = length X0v -> length A = length X0v -> length B = length X0v ->
  rect (length X0v) A -> rect (length X0v) B ->
  m = Ok (X0v ++ Y0v ++ flatten A ++ flatten B, asm_SIR_pair_based (length X0v) full) -> run_model m tmin tmax n sv = Ok r ->
  shaped r tmin tmax n (X0v ++ Y0v ++ flatten A ++ flatten B) (if full then [oS; oI; oR; oXs; oYs; oZs; oXY; oXX] else [oS; oI; oR]) /\
  sval oS 0 r = vsum X0v /\ sval oI 0 r = vsum Y0v /\ sval oR 0 r == Qnat (length X0v) - vsum X0v - vsum Y0v /\
  (full = true -> vval oXs 0 r = X0v /\ vval oYs 0 r = Y0v /\ vval oZs 0 r = vsub (x0_of X0v) Y0v /\ mval oXY 0 r = A /\ mval oXX 0 r = B) /\
  (forall j, (j < n)%nat -> sval oS j r + sval oI j r + sval oR j r == Qnat (length X0v)).
Proof.
  intros OK Hn HL LA LB RA RB -> H. inv_run H OK Hn. pose proof (rf_asm F) as HA. unfold asm_SIR_pair_based in HA. injection HA as <-.
  pose proof (rf_row0 F) as H0. set (N := length X0v) in *.
  assert (FA : length (flatten A) = (N * N)%nat) by (rewrite (flatten_length N) by exact RA; rewrite LA; reflexivity).
  assert (FB : length (flatten B) = (N * N)%nat) by (rewrite (flatten_length N) by exact RB; rewrite LB; reflexivity).
  assert (A0 : slice 0 N (x 0%nat) = X0v) by (rewrite H0; apply slice_app_l; reflexivity).
  assert (B0 : slice N (2 * N) (x 0%nat) = Y0v) by (rewrite H0; apply slice_app_mid; [reflexivity|lia]).
  assert (C0 : reshape N N (slice (2 * N) (2 * N + N * N) (x 0%nat)) = A).
  { rewrite H0. rewrite app_assoc. rewrite slice_app_mid by (rewrite ?app_length; unfold N in *; lia).
    rewrite <- (app_nil_r (flatten A)). rewrite <- LA at 1. apply reshape_flatten. exact RA. }
  assert (D0 : reshape N N (slice_from (2 * N + N * N) (x 0%nat)) = B).
  { rewrite H0, !app_assoc. unfold slice_from. rewrite skipn_app_l by (rewrite !app_length, FA; unfold N in *; lia).
    rewrite <- (app_nil_r (flatten B)). rewrite <- LB at 1. apply reshape_flatten. exact RB. }
  assert (CONS : forall j, (j < n)%nat ->
     vsum (slice 0 N (x j)) + vsum (slice N (2 * N) (x j)) + vsum (vsub (vsub (ones N) (slice 0 N (x j))) (slice N (2 * N) (x j))) == Qnat N).
  { intros j Hj. pose proof (rf_width F j Hj) as W. rewrite !app_length, HL in W. fold N in W.
    rewrite vsum_vsub by (rewrite vsub_length, ones_length, !slice_length by lia; lia).
    rewrite vsum_vsub_ones by (rewrite slice_length by lia; lia). ring. }
  shp F full. rd F Hn. unfold sser, vser, mser, vsumt, slc, sfrom. cbn [Nat.mul] in B0, C0, D0, CONS |- *.
  destruct full; look; rewrite ?A0, ?B0, ?C0, ?D0.
  - split; [reflexivity|]. split; [reflexivity|].
    split; [rewrite vsum_vsub by (rewrite vsub_length, ones_length; unfold N; lia); rewrite vsum_vsub_ones by reflexivity; reflexivity|].
    split; [intros _; repeat split; unfold N; rewrite vsub_ones; reflexivity|].
    intros j Hj. rd F Hj. unfold sser, vsumt, slc. look. apply CONS. exact Hj.
  - split; [reflexivity|]. split; [reflexivity|].
    split; [rewrite vsum_vsub by (rewrite vsub_length, ones_length; unfold N; lia); rewrite vsum_vsub_ones by reflexivity; reflexivity|].
    split; [discriminate|].
    intros j Hj. rd F Hj. unfold sser, vsumt, slc. look. apply CONS. exact Hj.
Qed.

(* ---------------- which initial vector the argument forms produce ---------------- *)
Lemma y0_set_length nl I0 : length (y0_set nl I0) = length nl. Proof. apply map_length. Qed.
Lemma x0_sets_length nl I0 R0 : length (x0_sets nl I0 R0) = length nl. Proof. apply map_length. Qed.
Lemma y0_rho_length nl rho : length (y0_rho nl rho) = length nl. Proof. apply map_length. Qed.
Lemma vsum_y0_set nl I0 : vsum (y0_set nl I0) == cnt (fun u => mem u I0) nl.
Proof. unfold y0_set. apply sumQ_ind_cnt. Qed.
Lemma vsum_x0_sets nl I0 R0 : vsum (x0_sets nl I0 R0) == cnt (fun u => negb (mem u R0 || mem u I0)) nl.
Proof.
  unfold x0_sets. rewrite <- sumQ_ind_cnt. unfold vsum. apply ICP.sumQ_map_ext. intros u _. destruct (mem u R0 || mem u I0); reflexivity.
Qed.
Lemma vsum_y0_rho nl rho : vsum (y0_rho nl rho) == rho * Qnat (length nl).
Proof.
  unfold y0_rho. induction nl as [|u nl IH]; [cbn [map length]; change (Qnat 0) with 0; rewrite vsum_nil; ring|]. cbn [map length]. rewrite vsum_cons, IH.
  unfold Qnat. rewrite Nat2Z.inj_succ, <- Z.add_1_l, inject_Z_plus. ring.
Qed.

Lemma m_SIS_ib_rho g rho nl full :
  m_SIS_individual_based g (Some rho) None nl full = Ok (y0_rho (nodelist_or g nl) rho, asm_SIS_individual_based full).
Proof. unfold m_SIS_individual_based. destruct nl; reflexivity. Qed.
Lemma m_SIS_ib_Y0 g Y0 nl full :
  m_SIS_individual_based g None (Some Y0) (Some nl) full = Ok (Y0, asm_SIS_individual_based full).
Proof. reflexivity. Qed.
Lemma m_SIS_ib_pure g I0 nl full :
  m_SIS_individual_based_pure_IC g I0 nl full = Ok (y0_set (nodelist_or g nl) I0, asm_SIS_individual_based full).
Proof. reflexivity. Qed.
Lemma m_SIR_ib_rho g rho nl full :
  m_SIR_individual_based g (Some rho) None None nl full =
  Ok (x0_of (y0_rho (nodelist_or g nl) rho) ++ y0_rho (nodelist_or g nl) rho, asm_SIR_individual_based (length (x0_of (y0_rho (nodelist_or g nl) rho))) full).
Proof. unfold m_SIR_individual_based. destruct nl; reflexivity. Qed.
Lemma m_SIR_ib_Y0 g Y0 X0 nl full :
  m_SIR_individual_based g None (Some Y0) X0 (Some nl) full =
  let X0v := match X0 with Some x => x | None => x0_of Y0 end in Ok (X0v ++ Y0, asm_SIR_individual_based (length X0v) full).
Proof. unfold m_SIR_individual_based. destruct X0; reflexivity. Qed.
Lemma m_SIR_ib_pure g I0 R0 nl full :
  m_SIR_individual_based_pure_IC g I0 R0 nl full =
  let nodelist := nodelist_or g nl in
  let X0v := match R0 with None => x0_of (y0_set nodelist I0) | Some r => x0_sets nodelist I0 r end in
  Ok (X0v ++ y0_set nodelist I0, asm_SIR_individual_based (length X0v) full).
Proof. unfold m_SIR_individual_based_pure_IC, m_SIR_individual_based. destruct R0; reflexivity. Qed.

Lemma outer_shape n a b : length a = n -> length b = n -> shape_is n (outer a b) = true.
Proof.
  intros Ha Hb. unfold shape_is, outer. rewrite map_length, Ha, Nat.eqb_refl. cbn [andb].
  apply forallb_forall. intros row H. apply in_map_iff in H. destruct H as [x' [<- _]]. rewrite map_length, Hb. apply Nat.eqb_refl.
Qed.

(* with Y0 (and, for SIR, X0) given in the order of nodelist and no explicit pair arrays *)
Lemma m_SIS_pb_Y0 g Y0 nl full : length Y0 = length (gnodes g) -> length nl = length (gnodes g) ->
  m_SIS_pair_based g None (Some nl) (Some Y0) None None full =
  Ok (Y0 ++ flatten (amask g nl (outer (x0_of Y0) Y0)) ++ flatten (amask g nl (outer (x0_of Y0) (x0_of Y0))), asm_SIS_pair_based (length (gnodes g)) full).
Proof.
  intros HY HN. unfold m_SIS_pair_based. cbn [isSome isNone negb andb nodelist_or]. rewrite HY, Nat.eqb_refl. cbn [negb].
  rewrite !outer_shape by (rewrite ?x0_of_length; exact HY). reflexivity.
Qed.
Lemma m_SIR_pb_Y0 g Y0 X0 nl full : length Y0 = length (gnodes g) -> length X0 = length (gnodes g) -> length nl = length (gnodes g) ->
  m_SIR_pair_based g None (Some nl) (Some Y0) (Some X0) None None full =
  Ok (X0 ++ Y0 ++ flatten (amask g nl (outer X0 Y0)) ++ flatten (amask g nl (outer X0 X0)), asm_SIR_pair_based (length (gnodes g)) full).
Proof.
  intros HY HX HN. unfold m_SIR_pair_based. cbn [isSome isNone negb andb nodelist_or]. rewrite HY, Nat.eqb_refl. cbn [negb].
  rewrite !outer_shape by assumption. reflexivity.
Qed.

(* ---------------- the eight entry points ---------------- *)
Lemma veq_map_ext {A} (f h : A -> Q) l : (forall u, f u == h u) -> veq (map f l) (map h l).
Proof. intros E. induction l; cbn; constructor; auto. Qed.
Section Entries.
Variables (sv : msolver) (g : graph) (tmin tmax : Q) (n : nat) (r : oret).
Hypotheses (OK : msolver_ok sv) (Hn : (0 < n)%nat).

Lemma out_SIS_individual_based_rho rho nl full :
  run_model (m_SIS_individual_based g (Some rho) None nl full) tmin tmax n sv = Ok r ->
  let nodelist := nodelist_or g nl in
  shaped r tmin tmax n (y0_rho nodelist rho) (if full then [oSs; oIs] else [oS; oI]) /\
  (if full then vval oIs 0 r = y0_rho nodelist rho /\ vval oSs 0 r = x0_of (y0_rho nodelist rho)
   else sval oI 0 r == rho * Qnat (length nodelist) /\ sval oS 0 r == (1 - rho) * Qnat (length nodelist)) /\
  (forall j, (j < n)%nat -> (if full then vsum (vval oSs j r) + vsum (vval oIs j r) else sval oS j r + sval oI j r) == Qnat (length nodelist)).
Proof.
  intros H nodelist. destruct (out_ib_SIS sv _ _ full tmin tmax n r OK Hn (m_SIS_ib_rho g rho nl full) H) as (S1 & S2 & S3).
  fold nodelist in S1, S2, S3. rewrite y0_rho_length in *. split; [exact S1|]. split; [|exact S3].
  destruct full; [exact S2|]. destruct S2 as [A B]. rewrite A, B, vsum_y0_rho. split; [reflexivity|ring].
Qed.

Lemma out_SIS_individual_based_Y0 Y0 nl full :
  run_model (m_SIS_individual_based g None (Some Y0) (Some nl) full) tmin tmax n sv = Ok r ->
  shaped r tmin tmax n Y0 (if full then [oSs; oIs] else [oS; oI]) /\
  (if full then vval oIs 0 r = Y0 /\ vval oSs 0 r = x0_of Y0 else sval oI 0 r = vsum Y0 /\ sval oS 0 r == Qnat (length Y0) - vsum Y0) /\
  (forall j, (j < n)%nat -> (if full then vsum (vval oSs j r) + vsum (vval oIs j r) else sval oS j r + sval oI j r) == Qnat (length Y0)).
Proof. intros H. exact (out_ib_SIS sv _ _ full tmin tmax n r OK Hn (m_SIS_ib_Y0 g Y0 nl full) H). Qed.

(* Y0[i] = 1 iff nodelist[i] is initially infected: in the order of the CALLER's nodelist *)
Lemma out_SIS_individual_based_pure_IC I0 nl full :
  run_model (m_SIS_individual_based_pure_IC g I0 nl full) tmin tmax n sv = Ok r ->
  let nodelist := nodelist_or g nl in
  shaped r tmin tmax n (y0_set nodelist I0) (if full then [oSs; oIs] else [oS; oI]) /\
  (if full then vval oIs 0 r = y0_set nodelist I0 /\ vval oSs 0 r = x0_of (y0_set nodelist I0)
   else sval oI 0 r == cnt (fun u => mem u I0) nodelist /\ sval oS 0 r == Qnat (length nodelist) - cnt (fun u => mem u I0) nodelist) /\
  (forall j, (j < n)%nat -> (if full then vsum (vval oSs j r) + vsum (vval oIs j r) else sval oS j r + sval oI j r) == Qnat (length nodelist)).
Proof.
  intros H nodelist. destruct (out_ib_SIS sv _ _ full tmin tmax n r OK Hn (m_SIS_ib_pure g I0 nl full) H) as (S1 & S2 & S3).
  fold nodelist in S1, S2, S3. rewrite y0_set_length in *. split; [exact S1|]. split; [|exact S3].
  destruct full; [exact S2|]. destruct S2 as [A B]. rewrite A, B, vsum_y0_set. split; reflexivity.
Qed.

Lemma out_SIR_individual_based_rho rho nl full :
  run_model (m_SIR_individual_based g (Some rho) None None nl full) tmin tmax n sv = Ok r ->
  let nodelist := nodelist_or g nl in
  shaped r tmin tmax n (x0_of (y0_rho nodelist rho) ++ y0_rho nodelist rho) (if full then [oS; oI; oR; oSs; oIs; oRs] else [oS; oI; oR]) /\
  sval oS 0 r == (1 - rho) * Qnat (length nodelist) /\ sval oI 0 r == rho * Qnat (length nodelist) /\ sval oR 0 r == 0 /\
  (forall j, (j < n)%nat -> sval oS j r + sval oI j r + sval oR j r == Qnat (length nodelist)).
Proof.
  intros H nodelist.
  destruct (out_ib_SIR sv _ (x0_of (y0_rho nodelist rho)) (y0_rho nodelist rho) full tmin tmax n r OK Hn (eq_sym (x0_of_length _)) (m_SIR_ib_rho g rho nl full) H)
    as (S1 & S2 & S3 & S4 & _ & S6).
  rewrite x0_of_length, y0_rho_length in *. split; [exact S1|].
  assert (EX : vsum (x0_of (y0_rho nodelist rho)) == (1 - rho) * Qnat (length nodelist)).
  { rewrite <- vsub_ones, vsum_vsub_ones by reflexivity. rewrite y0_rho_length, vsum_y0_rho. ring. }
  rewrite S2, S3, S4, EX, vsum_y0_rho. split; [reflexivity|]. split; [reflexivity|]. split; [ring|exact S6].
Qed.

Lemma out_SIR_individual_based_pure_IC I0 R0 nl full :
  run_model (m_SIR_individual_based_pure_IC g I0 R0 nl full) tmin tmax n sv = Ok r ->
  let nodelist := nodelist_or g nl in
  let X0v := match R0 with None => x0_of (y0_set nodelist I0) | Some rr => x0_sets nodelist I0 rr end in
  shaped r tmin tmax n (X0v ++ y0_set nodelist I0) (if full then [oS; oI; oR; oSs; oIs; oRs] else [oS; oI; oR]) /\
  sval oS 0 r == cnt (fun u => negb (mem u (match R0 with None => [] | Some rr => rr end) || mem u I0)) nodelist /\
  sval oI 0 r == cnt (fun u => mem u I0) nodelist /\
  sval oS 0 r + sval oI 0 r + sval oR 0 r == Qnat (length nodelist) /\
  (full = true -> vval oSs 0 r = X0v /\ vval oIs 0 r = y0_set nodelist I0) /\
  (forall j, (j < n)%nat -> sval oS j r + sval oI j r + sval oR j r == Qnat (length nodelist)).
Proof.
  intros H nodelist X0v.
  assert (LX : length X0v = length nodelist) by (unfold X0v; destruct R0; [apply x0_sets_length|rewrite x0_of_length; apply y0_set_length]).
  assert (LY : length (y0_set nodelist I0) = length X0v) by (rewrite LX; apply y0_set_length).
  destruct (out_ib_SIR sv _ X0v (y0_set nodelist I0) full tmin tmax n r OK Hn LY (m_SIR_ib_pure g I0 R0 nl full) H) as (S1 & S2 & S3 & S4 & S5 & S6).
  rewrite LX in *. split; [exact S1|].
  assert (EX : vsum X0v == cnt (fun u => negb (mem u (match R0 with None => [] | Some rr => rr end) || mem u I0)) nodelist).
  { unfold X0v. destruct R0 as [rr|]; [apply vsum_x0_sets|].
    rewrite <- (vsum_x0_sets nodelist I0 []). apply vsum_veq. unfold x0_of, x0_sets, y0_set. rewrite map_map.
    apply veq_map_ext. intros u. cbn [mem existsb orb]. destruct (mem u I0); ring. }
  split; [rewrite S2; exact EX|]. split; [rewrite S3; apply vsum_y0_set|]. split; [rewrite (S6 0%nat Hn); reflexivity|].
  split; [intros E; destruct (S5 E) as (A & B & _); split; assumption|exact S6].
Qed.

Lemma out_SIS_pair_based_Y0 Y0 nl full :
  length Y0 = length (gnodes g) -> length nl = length (gnodes g) ->
  run_model (m_SIS_pair_based g None (Some nl) (Some Y0) None None full) tmin tmax n sv = Ok r ->
  let A := amask g nl (outer (x0_of Y0) Y0) in let B := amask g nl (outer (x0_of Y0) (x0_of Y0)) in
  shaped r tmin tmax n (Y0 ++ flatten A ++ flatten B) (if full then [oS; oI; oXs; oYs; oXY; oXX] else [oS; oI]) /\
  sval oI 0 r = vsum Y0 /\ sval oS 0 r == Qnat (length Y0) - vsum Y0 /\
  (full = true -> vval oYs 0 r = Y0 /\ vval oXs 0 r = x0_of Y0 /\ mval oXY 0 r = A /\ mval oXX 0 r = B) /\
  (forall j, (j < n)%nat -> sval oS j r + sval oI j r == Qnat (length Y0)).
Proof.
  intros HY HN H A B. pose proof (m_SIS_pb_Y0 g Y0 nl full HY HN) as E. rewrite <- HY in E.
  assert (RA : rect (length Y0) A) by (rewrite HY, <- HN; apply amask_rect).
  assert (RB : rect (length Y0) B) by (rewrite HY, <- HN; apply amask_rect).
  assert (LA : length A = length Y0) by (unfold A; rewrite amask_length; unfold nN; congruence).
  assert (LB : length B = length Y0) by (unfold B; rewrite amask_length; unfold nN; congruence).
  exact (out_pb_SIS sv _ Y0 A B full tmin tmax n r OK Hn LA LB RA RB E H).
Qed.

Lemma out_SIS_pair_based_pure_IC I0 nl full :
  length (nodelist_or g nl) = length (gnodes g) ->
  run_model (m_SIS_pair_based_pure_IC g I0 nl full) tmin tmax n sv = Ok r ->
  let nodelist := nodelist_or g nl in let Y0 := y0_set nodelist I0 in
  let A := amask g nodelist (outer (x0_of Y0) Y0) in let B := amask g nodelist (outer (x0_of Y0) (x0_of Y0)) in
  shaped r tmin tmax n (Y0 ++ flatten A ++ flatten B) (if full then [oS; oI; oXs; oYs; oXY; oXX] else [oS; oI]) /\
  sval oI 0 r == cnt (fun u => mem u I0) nodelist /\ sval oS 0 r == Qnat (length nodelist) - cnt (fun u => mem u I0) nodelist /\
  (full = true -> vval oYs 0 r = Y0 /\ vval oXs 0 r = x0_of Y0 /\ mval oXY 0 r = A /\ mval oXX 0 r = B) /\
  (forall j, (j < n)%nat -> sval oS j r + sval oI j r == Qnat (length nodelist)).
Proof.
  intros HN H nodelist Y0 A B.
  assert (HY : length Y0 = length (gnodes g)) by (unfold Y0; rewrite y0_set_length; exact HN).
  destruct (out_SIS_pair_based_Y0 Y0 nodelist full HY HN H) as (S1 & S2 & S3 & S4 & S5).
  assert (LL : length Y0 = length nodelist) by apply y0_set_length. rewrite LL in *.
  split; [exact S1|]. split; [rewrite S2; apply vsum_y0_set|]. split; [rewrite S3; unfold Y0; rewrite vsum_y0_set; reflexivity|]. split; assumption.
Qed.

Lemma out_SIR_pair_based_Y0 Y0 X0 nl full :
  length Y0 = length (gnodes g) -> length X0 = length (gnodes g) -> length nl = length (gnodes g) ->
  run_model (m_SIR_pair_based g None (Some nl) (Some Y0) (Some X0) None None full) tmin tmax n sv = Ok r ->
  let A := amask g nl (outer X0 Y0) in let B := amask g nl (outer X0 X0) in
  shaped r tmin tmax n (X0 ++ Y0 ++ flatten A ++ flatten B) (if full then [oS; oI; oR; oXs; oYs; oZs; oXY; oXX] else [oS; oI; oR]) /\
  sval oS 0 r = vsum X0 /\ sval oI 0 r = vsum Y0 /\ sval oR 0 r == Qnat (length X0) - vsum X0 - vsum Y0 /\
  (full = true -> vval oXs 0 r = X0 /\ vval oYs 0 r = Y0 /\ vval oZs 0 r = vsub (x0_of X0) Y0 /\ mval oXY 0 r = A /\ mval oXX 0 r = B) /\
  (forall j, (j < n)%nat -> sval oS j r + sval oI j r + sval oR j r == Qnat (length X0)).
Proof.
  intros HY HX HN H A B. pose proof (m_SIR_pb_Y0 g Y0 X0 nl full HY HX HN) as E. rewrite <- HX in E.
  assert (RA : rect (length X0) A) by (rewrite HX, <- HN; apply amask_rect).
  assert (RB : rect (length X0) B) by (rewrite HX, <- HN; apply amask_rect).
  assert (LA : length A = length X0) by (unfold A; rewrite amask_length; unfold nN; congruence).
  assert (LB : length B = length X0) by (unfold B; rewrite amask_length; unfold nN; congruence).
  assert (LY : length Y0 = length X0) by congruence.
  exact (out_pb_SIR sv _ X0 Y0 A B full tmin tmax n r OK Hn LY LA LB RA RB E H).
Qed.

Lemma out_SIR_pair_based_pure_IC I0 R0 nl full :
  length (nodelist_or g nl) = length (gnodes g) ->
  run_model (m_SIR_pair_based_pure_IC g I0 R0 nl full) tmin tmax n sv = Ok r ->
  let nodelist := nodelist_or g nl in let Y0 := y0_set nodelist I0 in
  let X0 := match R0 with None => x0_of Y0 | Some rr => x0_sets nodelist I0 rr end in
  let A := amask g nodelist (outer X0 Y0) in let B := amask g nodelist (outer X0 X0) in
  shaped r tmin tmax n (X0 ++ Y0 ++ flatten A ++ flatten B) (if full then [oS; oI; oR; oXs; oYs; oZs; oXY; oXX] else [oS; oI; oR]) /\
  sval oS 0 r = vsum X0 /\ sval oI 0 r == cnt (fun u => mem u I0) nodelist /\
  (full = true -> vval oXs 0 r = X0 /\ vval oYs 0 r = Y0 /\ mval oXY 0 r = A /\ mval oXX 0 r = B) /\
  (forall j, (j < n)%nat -> sval oS j r + sval oI j r + sval oR j r == Qnat (length nodelist)).
Proof.
  intros HN H nodelist Y0 X0 A B.
  assert (HY : length Y0 = length (gnodes g)) by (unfold Y0; rewrite y0_set_length; exact HN).
  assert (HX : length X0 = length (gnodes g)) by (unfold X0; destruct R0; [rewrite x0_sets_length|rewrite x0_of_length]; assumption).
  destruct (out_SIR_pair_based_Y0 Y0 X0 nodelist full HY HX HN H) as (S1 & S2 & S3 & S4 & S5 & S6).
  rewrite HX, <- HN in S6. split; [exact S1|]. split; [exact S2|]. split; [rewrite S3; apply vsum_y0_set|].
  split; [intros E; destruct (S5 E) as (P1 & P2 & _ & P4 & P5); repeat split; assumption|exact S6].
Qed.
End Entries.

(* argument errors of the node-level entry points (EoN.EoNError) *)
Lemma rejects_SIS_individual_based g rho Y0 nl full :
  (Y0 <> None /\ nl = None) \/ (rho = None /\ Y0 = None) \/ (rho <> None /\ Y0 <> None) ->
  m_SIS_individual_based g rho Y0 nl full = Err EoNError.
Proof.
  unfold m_SIS_individual_based. intros [[A B]|[[A B]|[A B]]]; subst.
  - destruct Y0; [reflexivity|congruence].
  - destruct nl; reflexivity.
  - destruct rho, Y0; try congruence. destruct nl; reflexivity.
Qed.
Lemma rejects_SIS_pair_based g rho nl Y0 XY0 XX0 full :
  (Y0 <> None /\ rho <> None) \/ (Y0 <> None /\ nl = None) \/ (exists y, Y0 = Some y /\ rho = None /\ nl <> None /\ length y <> length (gnodes g)) ->
  m_SIS_pair_based g rho nl Y0 XY0 XX0 full = Err EoNError.
Proof.
  unfold m_SIS_pair_based. intros [[A B]|[[A B]|(y & -> & -> & B & C)]].
  - destruct Y0, rho; try congruence. reflexivity.
  - subst. destruct Y0; [|congruence]. destruct rho; reflexivity.
  - destruct nl; [|congruence]. cbn [isSome isNone negb andb]. apply Nat.eqb_neq in C. rewrite C. reflexivity.
Qed.
