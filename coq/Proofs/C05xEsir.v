(* C05, event-driven SIR: the two phases of a run over [gstep] (Proofs/C05xEsirInv.v) and
   what the output says about the start: the returned rows begin with
   (tmin, N-|I0|-|R0|, |I0|, |R0|); with full data an initially recovered node has the
   history [(tmin,R)] and nothing else, an initially infected node starts (tmin,I) (or is
   [(tmin,R)] when its duration is 0), every other node's history starts at tmin. *)
From EoNV Require Import Prelude Samp Graph EventSIR InitChk C05xEsirInv C05xGeneric C18xEsirOrder.
Require Import Lqa.

Lemma mem_true_In : forall u l, mem u l = true <-> In u l.
Proof.
  intros u l. unfold mem. rewrite existsb_exists. split.
  - intros [x [Hin E]]. apply N.eqb_eq in E. subst x. exact Hin.
  - intro Hin. exists u. split; [exact Hin|apply N.eqb_refl].
Qed.
Lemma mem_false_In : forall u l, mem u l = false <-> ~ In u l.
Proof.
  intros u l. rewrite <- mem_true_In. destruct (mem u l); split; intro H.
  - discriminate H.
  - exfalso. apply H. reflexivity.
  - intro E. discriminate E.
  - reflexivity.
Qed.

Lemma NoDup_app_r : forall (A : Type) (a b : list A), NoDup (a ++ b) -> NoDup b.
Proof. intros A a b. induction a as [|x a IH]; intro H; [exact H|]. cbn [app] in H. inversion H; subst. apply IH. assumption. Qed.

Lemma skipn_rev_app : forall (A : Type) (older later : list A) (x : A) n, length older = n ->
  skipn n (rev (later ++ x :: older)) = x :: rev later.
Proof.
  intros A older later x n H. rewrite rev_app_distr. cbn [rev]. rewrite <- app_assoc. cbn [app].
  assert (Hl : length (rev older) = n) by (rewrite rev_length; exact H).
  rewrite skipn_app, Hl, Nat.sub_diag. cbn [skipn]. rewrite skipn_all2 by (rewrite Hl; lia). reflexivity.
Qed.

Lemma skipn_cons_nth : forall (A : Type) j (l : list A), (j < length l)%nat ->
  exists u, skipn j l = u :: skipn (S j) l /\ firstn (S j) l = firstn j l ++ [u].
Proof.
  intros A. induction j as [|j IH]; intros [|x l] H; cbn [length] in H; try lia.
  - exists x. split; reflexivity.
  - destruct (IH l ltac:(lia)) as [u [H1 H2]]. exists u. split; [exact H1|]. cbn [firstn app]. cbn [firstn] in H2. rewrite H2. reflexivity.
Qed.

Lemma sus_status : forall g st tgt u, In u (sus_nbrs g (fupdN st tgt stI) tgt) -> st u = stS.
Proof.
  intros g st tgt u H. unfold sus_nbrs in H. apply filter_In in H. destruct H as [_ H]. unfold fupdN in H.
  destruct (N.eqb u tgt); [discriminate H|]. apply N.eqb_eq. exact H.
Qed.

Fixpoint init_ents (tmin : Q) (l : list node) (c : nat) : list qent :=
  match l with [] => [] | u :: t => mkQ tmin c (ETrans None u) :: init_ents tmin t (S c) end.

Section Run.
Variable g : graph.
Variable tmin : Q.
Variable tmax : xtime.
Variable P : node -> list node -> outcome -> Prop.
Hypothesis HP : forall u sus a, P u sus a -> okans sus a.
Variables i0 r0 : list node.
Hypothesis Hnd : NoDup i0.
Hypothesis Hdisj : forall u, In u i0 -> ~ In u r0.
Hypothesis Hlt : xltb (Some tmin) tmax = true.

Let k := length i0.
Let nR := Z.of_nat (length r0).
Let NN := order g.

Notation gstep := (gstep g tmax P).
Notation gsteps := (gsteps g tmax P).

Lemma init_fold : forall l s, (forall h, In h (qu s) -> early tmin (ctr s) h) ->
  let sF := fold_left (init_inf fifo tmin tmax) l s in
  qu sF = qu s ++ init_ents tmin l (ctr s) /\ ctr sF = (ctr s + length l)%nat /\ stat sF = stat s /\ rect sF = rect s /\
  rows sF = rows s /\ (forall u, predt sF u = if mem u l then Some (Some tmin) else predt s u).
Proof.
  induction l as [|u l IH]; intros s Hq; cbv zeta; cbn [fold_left].
  - rewrite app_nil_r. repeat split; auto.
  - set (s1 := init_inf fifo tmin tmax s u).
    assert (E1 : qu s1 = qu s ++ [mkQ tmin (ctr s) (ETrans None u)] /\ ctr s1 = S (ctr s)).
    { unfold s1, init_inf, qadd. rewrite Hlt. cbn [qu ctr fst snd].
      rewrite <- (app_nil_r (qu s)) at 1. rewrite qinsert_after; [split; reflexivity|].
      intros h Hin. apply (late_not_before tmin (ctr s)); [lra|apply Hq; exact Hin]. }
    destruct E1 as [Eq Ec].
    assert (Hq1 : forall h, In h (qu s1) -> early tmin (ctr s1) h).
    { intros h Hin. rewrite Eq in Hin. rewrite Ec. apply in_app_or in Hin. destruct Hin as [Hin|[<-|[]]].
      - eapply early_mono; [|apply Hq; exact Hin]. lia.
      - split; [reflexivity|cbn [qc]; lia]. }
    destruct (IH s1 Hq1) as [A [B [C [D [E F]]]]]. cbv zeta in A, B, C, D, E, F.
    rewrite A, B, C, D, E, Eq, Ec. cbn [init_ents length]. rewrite <- app_assoc. cbn [app].
    split; [reflexivity|]. split; [lia|]. split; [reflexivity|]. split; [reflexivity|]. split; [reflexivity|].
    intro v. rewrite F. unfold s1, init_inf. cbn [predt]. unfold fupdN, mem. cbn [existsb].
    destruct (N.eqb v u); [destruct (existsb (N.eqb v) l); reflexivity|reflexivity].
Qed.

Definition Inv1 (j : nat) (s : est) : Prop :=
  (exists rest, qu s = init_ents tmin (skipn j i0) j ++ rest) /\
  (k <= ctr s)%nat /\
  (forall u, In u (skipn j i0) -> stat s u = stS) /\
  (forall u, In u (firstn j i0) -> stat s u = stI) /\
  (forall u, In u r0 -> stat s u = stR /\ rect s u = Some (Some tmin) /\ predt s u = None) /\
  (forall u, In u i0 -> predt s u = Some (Some tmin)) /\
  (exists older, rows s = (tmin, [NN - nR - Z.of_nat j; Z.of_nat j; nR]%Z) :: older /\ length older = j).

Lemma inv1_init : Inv1 0 (init_state fifo g tmin tmax i0 r0).
Proof.
  unfold init_state.
  match goal with |- Inv1 0 (fold_left _ _ ?s0) => destruct (init_fold i0 s0) as [A [B [C [D [E F]]]]] end.
  { intros h []. }
  cbv zeta in A, B, C, D, E, F. unfold Inv1. cbn [skipn firstn]. rewrite A, B, C, D, E. cbn [qu ctr stat rect rows app].
  split; [exists []; rewrite app_nil_r; reflexivity|]. split; [unfold k; lia|]. split.
  { intros u Hu. rewrite set_all_spec. rewrite (proj2 (mem_false_In u r0) (Hdisj u Hu)). reflexivity. }
  split; [intros u []|]. split.
  { intros u Hu. rewrite !set_all_spec, (proj2 (mem_true_In u r0) Hu). split; [reflexivity|]. split; [reflexivity|].
    rewrite F. cbn [predt]. destruct (mem u i0) eqn:Em; [|reflexivity]. apply mem_true_In in Em. exfalso. exact (Hdisj u Em Hu). }
  split.
  { intros u Hu. rewrite F. rewrite (proj2 (mem_true_In u i0) Hu). reflexivity. }
  exists []. split; [|reflexivity]. unfold NN, nR. cbn [Z.of_nat]. rewrite Z.sub_0_r. reflexivity.
Qed.

Lemma init_ents_early : forall l c c' h, In h (init_ents tmin l c) -> (c + length l <= c')%nat -> early tmin c' h.
Proof.
  induction l as [|u l IH]; intros c c' h Hin Hc; [destruct Hin|]. cbn [init_ents length] in *. destruct Hin as [<-|Hin].
  - split; [reflexivity|cbn [qc]; lia].
  - eapply IH; [exact Hin|lia].
Qed.

Lemma inv1_step : forall j s s', Inv1 j s -> (j < k)%nat -> gstep s s' -> Inv1 (S j) s'.
Proof.
  intros j s s' [[rest Hq] [Hc [HS [HI [HR [HPd [older [Hrows Hlen]]]]]]]] Hj Hstep.
  destruct (skipn_cons_nth _ j i0 Hj) as [uj [Esk Efi]]. rewrite Esk in Hq. cbn [init_ents app] in Hq.
  assert (Huj : In uj i0). { rewrite <- (firstn_skipn j i0). apply in_or_app. right. rewrite Esk. left. reflexivity. }
  assert (HujS : stat s uj = stS) by (apply HS; rewrite Esk; left; reflexivity).
  assert (Hnd2 : NoDup (uj :: skipn (S j) i0)).
  { rewrite <- Esk. rewrite <- (firstn_skipn j i0) in Hnd. apply NoDup_app_r in Hnd. exact Hnd. }
  remember (init_ents tmin (skipn (S j) i0) (S j)) as pre eqn:Epre.
  assert (Hpre0 : forall h, In h pre -> early tmin (ctr s) h).
  { intros h Hin. rewrite Epre in Hin. eapply init_ents_early; [exact Hin|]. rewrite skipn_length. fold k. lia. }
  inversion Hstep as [s0 e q' u Hq0 He|s0 e q' src tgt Hq0 He Hst|s0 e q' src tgt a calls Hq0 He Hst HPa]; subst s0 s';
    rewrite Hq in Hq0; injection Hq0 as <- <-;
    change (qe (mkQ tmin j (ETrans None uj))) with (ETrans None uj) in *; change (qt (mkQ tmin j (ETrans None uj))) with tmin in *; try discriminate He.
  - injection He as <- <-. rewrite HujS in Hst. discriminate Hst.
  - injection He as <- <-.
    pose proof (HP _ _ _ HPa) as Hok.
    set (s1 := set_qu s (pre ++ rest)).
    destruct (apply_inf_prefix tmin tmax tmin None uj a calls s1 pre rest _ Hok eq_refl Hpre0 ltac:(lra))
      as [[rest' Hq'] [Hc' [Hst' [Hrc' [Hrw' [Hpn Hpk]]]]]].
    unfold Inv1. rewrite <- Epre. split; [exists rest'; exact Hq'|]. split; [change (ctr s1) with (ctr s) in Hc'; lia|].
    rewrite Hst', Hrc', Hrw'. unfold s1. cbn [set_qu stat rect rows]. split.
    { intros u Hu. unfold fupdN. destruct (N.eqb u uj) eqn:E.
      - apply N.eqb_eq in E. subst u. inversion Hnd2; subst. contradiction.
      - apply HS. rewrite Esk. right. exact Hu. }
    split.
    { intros u Hu. rewrite Efi in Hu. unfold fupdN. destruct (N.eqb u uj) eqn:E; [reflexivity|].
      apply in_app_or in Hu. destruct Hu as [Hu|[<-|[]]]; [apply HI; exact Hu|rewrite N.eqb_refl in E; discriminate E]. }
    split.
    { intros u Hu. destruct (HR u Hu) as [A [B C]]. unfold fupdN. destruct (N.eqb u uj) eqn:E.
      - apply N.eqb_eq in E. subst u. exfalso. exact (Hdisj uj Huj Hu).
      - split; [exact A|]. split; [exact B|]. rewrite Hpn; [exact C|]. intro Hin. apply sus_status in Hin. cbn [set_qu stat] in Hin. rewrite A in Hin. discriminate Hin. }
    split.
    { intros u Hu. apply (Hpk eq_refl). cbn [set_qu predt]. apply HPd. exact Hu. }
    rewrite Hrows. unfold push_row. cbn [nth]. exists ((tmin, [NN - nR - Z.of_nat j; Z.of_nat j; nR]%Z) :: older).
    split; [|cbn [length]; rewrite Hlen; reflexivity].
    f_equal. f_equal. rewrite Nat2Z.inj_succ. repeat (f_equal; try lia).
Qed.

(* a finished run goes through the end of phase 1 *)
Lemma phase1 : forall s sF, gsteps s sF -> qu sF = [] -> forall j, Inv1 j s -> (j <= k)%nat ->
  exists sk, Inv1 k sk /\ gsteps sk sF.
Proof.
  intros s sF H. induction H as [s|s s1 s2 Hstep Hsteps IH]; intros Hend j HI Hj.
  - destruct (Nat.eq_dec j k) as [->|Hne]; [exists s; split; [exact HI|constructor]|].
    exfalso. destruct HI as [[rest Hq] _]. destruct (skipn_cons_nth _ j i0 ltac:(fold k; lia)) as [uj [Esk _]].
    rewrite Esk in Hq. cbn [init_ents app] in Hq. rewrite Hend in Hq. discriminate Hq.
  - destruct (Nat.eq_dec j k) as [->|Hne]; [exists s; split; [exact HI|econstructor; eassumption]|].
    apply (IH Hend (S j)); [eapply inv1_step; [exact HI|lia|exact Hstep]|lia].
Qed.

(* ---------------- phase 2 ---------------- *)
Definition Inv2 (rk : list row) (s : est) : Prop :=
  (forall u, In u i0 -> stat s u <> stS /\ predt s u = Some (Some tmin)) /\
  (forall u, In u r0 -> stat s u = stR /\ rect s u = Some (Some tmin) /\ predt s u = None) /\
  (exists later, rows s = later ++ rk).

Lemma inv1_inv2 : forall sk, Inv1 k sk -> Inv2 (rows sk) sk.
Proof.
  intros sk [_ [_ [_ [HI [HR [HPd _]]]]]]. unfold Inv2. split; [|split; [exact HR|exists []; reflexivity]].
  intros u Hu. split; [|apply HPd; exact Hu]. rewrite HI; [discriminate|]. unfold k. rewrite firstn_all. exact Hu.
Qed.

Lemma inv2_step : forall rk s s', Inv2 rk s -> gstep s s' -> Inv2 rk s'.
Proof.
  intros rk s s' [HI [HR [later Hrows]]] Hstep.
  inversion Hstep as [s0 e q' u Hq0 He|s0 e q' src tgt Hq0 He Hst|s0 e q' src tgt a calls Hq0 He Hst HPa]; subst s0 s'.
  - unfold Inv2, apply_rec. cbn [stat rect predt rows set_qu]. split; [|split].
    + intros v Hv. destruct (HI v Hv) as [A B]. split; [|exact B]. unfold fupdN. destruct (N.eqb v u); [discriminate|exact A].
    + intros v Hv. destruct (HR v Hv) as [A [B C]]. split; [|split; assumption]. unfold fupdN. destruct (N.eqb v u); [reflexivity|exact A].
    + unfold push_row. rewrite Hrows. eexists (_ :: later). reflexivity.
  - unfold Inv2. cbn [stat rect predt rows set_qu]. split; [exact HI|]. split; [exact HR|]. exists later. exact Hrows.
  - pose proof (HP _ _ _ HPa) as [Htd Hrd]. apply N.eqb_eq in Hst.
    assert (Hpred : forall u, stat s u <> stS -> predt (apply_inf fifo tmax (qt e) src tgt (fst a) (snd a) calls (set_qu s q')) u = predt s u).
    { intros u Hu. unfold apply_inf. cbn [set_qu qu ctr predt].
      match goal with |- context [fold_left ?f ?l ?x] => remember x as acc0 eqn:Eacc end.
      assert (Hgen : forall td acc, (forall v d, In (v, d) td -> v <> u) ->
                snd (fold_left (sched_one fifo tmax (qt e) (xadd (qt e) (snd a)) tgt) td acc) u = snd acc u).
      { induction td as [|[v d] td IHtd]; intros acc Hne; [reflexivity|]. cbn [fold_left]. rewrite IHtd.
        - destruct acc as [[q c] p]. unfold sched_one. destruct (xleb (xadd (qt e) d) (xadd (qt e) (snd a))); [|reflexivity].
          assert (Huv : N.eqb u v = false) by (apply N.eqb_neq; intro E; apply (Hne v d (or_introl eq_refl)); symmetry; exact E).
          destruct (_ && _); cbn [snd]; unfold fupdN; rewrite Huv; reflexivity.
        - intros v' d' Hin. apply (Hne v' d'). right. exact Hin. }
      specialize (Hgen (fst a) acc0). destruct (fold_left _ (fst a) acc0) as [[q2 c2] p2]. cbn [snd] in Hgen. cbn [predt].
      rewrite Hgen; [rewrite Eacc; reflexivity|].
      intros v d Hin E. subst v. apply Hu. eapply sus_status. exact (proj1 (Htd u d Hin)). }
    unfold Inv2. split; [|split].
    + intros u Hu. destruct (HI u Hu) as [A B]. rewrite (Hpred u A). split; [|exact B].
      unfold apply_inf. destruct (fold_left _ _ _) as [[q2 c2] p2]. cbn [stat set_qu]. unfold fupdN. destruct (N.eqb u tgt); [discriminate|exact A].
    + intros u Hu. destruct (HR u Hu) as [A [B C]]. assert (Hne : stat s u <> stS) by (rewrite A; discriminate).
      rewrite (Hpred u Hne). assert (Hut : N.eqb u tgt = false) by (apply N.eqb_neq; intro E; subst u; congruence).
      unfold apply_inf. destruct (fold_left _ _ _) as [[q2 c2] p2]. cbn [stat rect set_qu]. unfold fupdN. rewrite Hut. auto.
    + unfold apply_inf. destruct (fold_left _ _ _) as [[q2 c2] p2]. cbn [rows set_qu]. unfold push_row. rewrite Hrows.
      eexists (_ :: later). reflexivity.
Qed.

Lemma inv2_steps : forall rk s s', gsteps s s' -> Inv2 rk s -> Inv2 rk s'.
Proof. intros rk s s' H. induction H as [s|s s1 s2 Hs _ IH]; intro HI; [exact HI|]. apply IH. eapply inv2_step; eassumption. Qed.

(* ---------------- the output ---------------- *)
Lemma all_ok_hlook : forall (f : node -> result history) l hs,
  all_ok (map (fun u => rbind (f u) (fun h => Ok (u, h))) l) = Ok hs ->
  map fst hs = l /\ forall u, In u l -> exists h, f u = Ok h /\ hlook u hs = Some h.
Proof.
  intros f. induction l as [|v l IH]; intros hs H; cbn [map all_ok] in H.
  - injection H as <-. split; [reflexivity|intros u []].
  - destruct (f v) as [h|e] eqn:Ef; cbn [rbind] in H; [|discriminate H].
    destruct (all_ok _) as [t|e] eqn:Et; cbn [rbind] in H; [|discriminate H]. injection H as <-.
    destruct (IH t eq_refl) as [A B]. split; [cbn [map fst]; rewrite A; reflexivity|].
    intros u Hu. cbn [hlook]. destruct (N.eqb u v) eqn:E.
    + apply N.eqb_eq in E. subst v. exists h. split; [exact Ef|reflexivity].
    + destruct Hu as [<-|Hu]; [rewrite N.eqb_refl in E; discriminate E|]. apply B. exact Hu.
Qed.

Lemma Qeqb_refl : forall x, Qeqb x x = true.
Proof. intro x. apply Qeq_bool_iff. reflexivity. Qed.

Lemma node_hist_head : forall s u h, node_hist tmin s u = Ok h ->
  exists t st rest, h = (t, st) :: rest /\ Qeqb t tmin = true /\ (st = stS \/ st = stI \/ st = stR).
Proof.
  intros s u h H. unfold node_hist in H.
  assert (H1 : forall h1, (exists t st rest, h1 = (t, st) :: rest /\ Qeqb t tmin = true /\ (st = stS \/ st = stI \/ st = stR)) ->
            forall e, exists t st rest, hist_step tmin h1 e = (t, st) :: rest /\ Qeqb t tmin = true /\ (st = stS \/ st = stI \/ st = stR) \/
                                        (hist_step tmin h1 e = [e] /\ Qeqb (fst e) tmin = true)).
  { intros h1 [t [st [rest [E [Ht Hs]]]]] e. unfold hist_step. destruct (Qeqb (fst e) tmin) eqn:Ee.
    - exists t, st, rest. right. split; reflexivity.
    - exists t, st, (rest ++ [e]). left. subst h1. split; [reflexivity|]. split; assumption. }
  assert (H0 : exists t st rest, [(tmin, stS)] = (t, st) :: rest /\ Qeqb t tmin = true /\ (st = stS \/ st = stI \/ st = stR)).
  { exists tmin, stS, []. split; [reflexivity|]. split; [apply Qeqb_refl|left; reflexivity]. }
  cbv zeta in H.
  match type of H with rbind ?r _ = _ => destruct r as [h1|e] eqn:Er end; cbn [rbind] in H; [|discriminate H].
  assert (Hh1 : exists t st rest, h1 = (t, st) :: rest /\ Qeqb t tmin = true /\ (st = stS \/ st = stI \/ st = stR)).
  { destruct (predt s u) as [[t|]|]; [destruct (negb _)| destruct (negb _)|]; try discriminate Er; try (injection Er as <-; exact H0).
    injection Er as <-. destruct (H1 _ H0 (t, stI)) as [t' [st' [rest' [[A B]|[A B]]]]].
    - exists t', st', rest'. split; [exact A|exact B].
    - exists t, stI, []. split; [exact A|]. split; [exact B|right; left; reflexivity]. }
  destruct (rect s u) as [[t|]|]; [destruct (N.eqb (stat s u) stR)|destruct (N.eqb (stat s u) stR)|]; try discriminate H; try (injection H as <-; exact Hh1).
  injection H as <-. destruct (H1 _ Hh1 (t, stR)) as [t' [st' [rest' [[A B]|[A B]]]]].
  - exists t', st', rest'. split; [exact A|exact B].
  - exists t, stR, []. split; [exact A|]. split; [exact B|right; right; reflexivity].
Qed.

Lemma node_hist_r0 : forall rk s u, Inv2 rk s -> In u r0 -> node_hist tmin s u = Ok [(tmin, stR)].
Proof.
  intros rk s u [_ [HR _]] Hu. destruct (HR u Hu) as [A [B C]]. unfold node_hist. rewrite A, B, C. cbn [rbind N.eqb stR stS].
  unfold hist_step. cbn [fst]. rewrite Qeqb_refl. reflexivity.
Qed.

Lemma node_hist_i0 : forall rk s u h, Inv2 rk s -> In u i0 -> node_hist tmin s u = Ok h ->
  exists t st rest, h = (t, st) :: rest /\ Qeqb t tmin = true /\ (st = stI \/ (st = stR /\ rest = [])).
Proof.
  intros rk s u h [HI _] Hu H. destruct (HI u Hu) as [A B]. unfold node_hist in H. rewrite B in H.
  assert (En : negb (N.eqb (stat s u) stS) = true) by (apply negb_true_iff; apply N.eqb_neq; exact A).
  rewrite En in H. unfold hist_step at 1 in H. cbn [fst] in H. rewrite Qeqb_refl in H. cbn [rbind] in H.
  destruct (rect s u) as [[t|]|]; [destruct (N.eqb (stat s u) stR)|destruct (N.eqb (stat s u) stR)|]; try discriminate H;
    try (injection H as <-; exists tmin, stI, []; split; [reflexivity|]; split; [apply Qeqb_refl|left; reflexivity]).
  injection H as <-. unfold hist_step. cbn [fst]. destruct (Qeqb t tmin) eqn:Et.
  - exists t, stR, []. split; [reflexivity|]. split; [exact Et|right; split; reflexivity].
  - exists tmin, stI, [(t, stR)]. split; [reflexivity|]. split; [apply Qeqb_refl|left; reflexivity].
Qed.

(* a finished run, seen through [finish]: accepted by the checker *)
Theorem run_starts_as_requested : forall full sF out cs,
  gsteps (init_state fifo g tmin tmax i0 r0) sF -> qu sF = [] ->
  finish g tmin full k sF = Ok (out, cs) ->
  ic_sirb (gnodes g) i0 r0 tmin (so_rows out) (option_map fd_hist (so_full out)) = true.
Proof.
  intros full sF out cs Hsteps Hend Hfin.
  destruct (phase1 _ _ Hsteps Hend 0%nat inv1_init ltac:(lia)) as [sk [Hk Hrest]].
  pose proof (inv2_steps _ _ _ Hrest (inv1_inv2 sk Hk)) as H2.
  destruct Hk as [_ [_ [_ [_ [_ [_ [older [Hrk Hlen]]]]]]]].
  pose proof H2 as [_ [_ [later Hrows]]].
  assert (Hr : skipn k (rev (rows sF)) = (tmin, [NN - nR - Z.of_nat k; Z.of_nat k; nR]%Z) :: rev later).
  { rewrite Hrows, Hrk. apply skipn_rev_app. exact Hlen. }
  unfold finish in Hfin. unfold ic_sirb.
  assert (Hrow : match skipn k (rev (rows sF)) with
                 | (t, c) :: _ => Qeqb t tmin && zlist_eqb c [Z.of_nat (length (gnodes g)) - Z.of_nat (length i0) - Z.of_nat (length r0); Z.of_nat (length i0); Z.of_nat (length r0)]%Z
                 | [] => false end = true).
  { rewrite Hr. rewrite Qeqb_refl. cbn [andb]. unfold NN, nR, k, order.
    replace (Z.of_nat (length (gnodes g)) - Z.of_nat (length r0) - Z.of_nat (length i0))%Z
      with (Z.of_nat (length (gnodes g)) - Z.of_nat (length i0) - Z.of_nat (length r0))%Z by lia.
    apply zlist_eqb_refl. }
  destruct full.
  - destruct (all_ok _) as [hs|e] eqn:Ha; cbn [rbind] in Hfin; [|discriminate Hfin]. injection Hfin as <- _.
    cbn [so_rows so_full option_map fd_hist]. rewrite Hrow. cbn [andb].
    destruct (all_ok_hlook (node_hist tmin sF) (gnodes g) hs Ha) as [_ Hl].
    apply forallb_forall. intros u Hu. destruct (Hl u Hu) as [h [Hh Hlk]]. rewrite Hlk. unfold hist_sir_okb.
    destruct (mem u r0) eqn:Er.
    + apply mem_true_In in Er. rewrite (node_hist_r0 _ _ _ H2 Er) in Hh. injection Hh as <-. rewrite Qeqb_refl. reflexivity.
    + destruct (mem u i0) eqn:Ei.
      * apply mem_true_In in Ei. destruct (node_hist_i0 _ _ _ _ H2 Ei Hh) as [t [st [rest [Eh [Ht Hs]]]]]. subst h. rewrite Ht.
        destruct Hs as [Hs|[Hs Hrr]]; subst; reflexivity.
      * destruct (node_hist_head _ _ _ Hh) as [t [st [rest [Eh [Ht Hs]]]]]. subst h. rewrite Ht.
        destruct Hs as [Hs|[Hs|Hs]]; subst; reflexivity.
  - injection Hfin as <- _. cbn [so_rows so_full option_map]. rewrite Hrow. reflexivity.
Qed.

End Run.
