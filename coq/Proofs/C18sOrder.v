(* C18, fast_nonMarkov_SIS with rule tables: what the ORDER of initial_infecteds can change.
   Through the C13 theorem (the model of the code returns literally the output of the plain
   reference agenda semantics [ref_sis] whenever that run is inside its domain: all event times
   distinct): the reference run from a permuted initial list is inside its domain too and
   returns the same arrays and the same node histories; transmissions() differs only in the
   order of its leading source-less entries (the sourced entries are the same list).
   So the order is an input only through (a) ties and (b) the order of those leading entries
   (witnesses: Props/C18s.v).
   Technique: a congruence [PR] on reference states (statuses / ordinals pointwise, agenda and
   domain flag equal, logs equal up to the order of entries of DIFFERENT nodes at the front);
   two initial infections commute up to [PR] because insertions into the sorted agenda commute
   inside the domain (Proofs/C14xSis.v: [ins_all_perm]). *)
From EoNV Require Import Prelude Samp Graph EventSIS EventSISP EventSISP2 EventSISP3 C14xOut C14xSis.
From Coq Require Import Permutation Lqa.

(* ---------------- logs up to the order of the initial entries ---------------- *)
Definition evf (u : node) (l : list (Q * node * N)) : list (Q * node * N) :=
  filter (fun e => N.eqb (snd (fst e)) u) l.
Definition srcd (l : list (Q * option node * node)) : list (Q * option node * node) :=
  filter (fun x => match snd (fst x) with Some _ => true | None => false end) l.

Record LR (l1 l2 : logs) : Prop := mkLR {
  lr_rows : l_rows l1 = l_rows l2;
  lr_ev : forall u, evf u (l_elog l1) = evf u (l_elog l2);
  lr_src : srcd (l_tlog l1) = srcd (l_tlog l2);
  lr_perm : Permutation (l_tlog l1) (l_tlog l2)
}.

Lemma LR_refl : forall l, LR l l.
Proof. intro l. constructor; [reflexivity|reflexivity|reflexivity|apply Permutation_refl]. Qed.
Lemma LR_trans : forall a b c, LR a b -> LR b c -> LR a c.
Proof.
  intros a b c [A1 A2 A3 A4] [B1 B2 B3 B4]. constructor.
  - congruence.
  - intro u. rewrite A2. apply B2.
  - congruence.
  - eapply Permutation_trans; eassumption.
Qed.
Lemma LR_inf : forall l l' t src v, LR l l' -> LR (log_inf l t src v) (log_inf l' t src v).
Proof.
  intros l l' t src v [A1 A2 A3 A4]. constructor; cbn [log_inf l_rows l_elog l_tlog].
  - rewrite A1. reflexivity.
  - intro u. unfold evf in *. cbn [filter]. rewrite A2. reflexivity.
  - unfold srcd in *. cbn [filter]. rewrite A3. reflexivity.
  - apply perm_skip. exact A4.
Qed.
Lemma LR_rec : forall l l' t v, LR l l' -> LR (log_rec l t v) (log_rec l' t v).
Proof.
  intros l l' t v [A1 A2 A3 A4]. constructor; cbn [log_rec l_rows l_elog l_tlog].
  - rewrite A1. reflexivity.
  - intro u. unfold evf in *. cbn [filter]. rewrite A2. reflexivity.
  - exact A3.
  - exact A4.
Qed.
Lemma LR_swap : forall l t u v, u <> v ->
  LR (log_inf (log_inf l t None u) t None v) (log_inf (log_inf l t None v) t None u).
Proof.
  intros l t u v Huv. constructor; cbn [log_inf l_rows l_elog l_tlog].
  - unfold push2. cbn [hd_counts cnt nth]. reflexivity.
  - intro w. unfold evf. cbn [filter fst snd].
    destruct (N.eqb_spec v w) as [E1|E1]; destruct (N.eqb_spec u w) as [E2|E2]; try reflexivity.
    exfalso. apply Huv. congruence.
  - reflexivity.
  - apply perm_swap.
Qed.

(* ---------------- the congruence on reference states ---------------- *)
Record PR (s s' : rst) : Prop := mkPR {
  pr_stat : forall x, r_stat s x = r_stat s' x;
  pr_ord : forall x, r_ord s x = r_ord s' x;
  pr_ag : r_ag s = r_ag s';
  pr_ok : r_ok s = r_ok s';
  pr_log : LR (r_log s) (r_log s')
}.

Lemma PR_refl : forall s, PR s s.
Proof. intro s. constructor; try reflexivity. apply LR_refl. Qed.
Lemma PR_trans : forall a b c, PR a b -> PR b c -> PR a c.
Proof.
  intros a b c [A1 A2 A3 A4 A5] [B1 B2 B3 B4 B5]. constructor.
  - intro x. rewrite A1. apply B1.
  - intro x. rewrite A2. apply B2.
  - congruence.
  - congruence.
  - eapply LR_trans; eassumption.
Qed.

Section Order.
Variable g : graph.
Variable dur : node -> nat -> Q.
Variable delays : node -> node -> nat -> list Q.
Variable tmax : xtime.
Notation ins := (r_insert tmax).

Lemma PR_ins : forall now s s' t a, PR s s' -> PR (ins now s t a) (ins now s' t a).
Proof.
  intros now s s' t a [A1 A2 A3 A4 A5]. unfold r_insert. destruct (xlt t tmax); [|constructor; assumption].
  constructor; cbn [r_stat r_ord r_ag r_log r_ok]; try assumption; rewrite A3; [reflexivity|rewrite A4; reflexivity].
Qed.
Lemma PR_ins_all : forall now items s s', PR s s' -> PR (ins_all tmax now s items) (ins_all tmax now s' items).
Proof.
  intros now items. induction items as [|x l IH]; intros s s' H; [exact H|]. cbn [ins_all fold_left]. apply IH. apply PR_ins. exact H.
Qed.
Lemma PR_and_ok : forall s s' b, PR s s' -> PR (and_ok s b) (and_ok s' b).
Proof.
  intros s s' b [A1 A2 A3 A4 A5]. constructor; cbn [and_ok r_stat r_ord r_ag r_log r_ok]; try assumption. rewrite A4. reflexivity.
Qed.
Lemma PR_infect0 : forall time src v s s', PR s s' -> PR (infect0 time src v s) (infect0 time src v s').
Proof.
  intros time src v s s' [A1 A2 A3 A4 A5]. constructor; cbn [infect0 r_stat r_ord r_ag r_log r_ok]; try assumption.
  - intro x. unfold fupdN. destruct (N.eqb x v); [reflexivity|apply A1].
  - intro x. unfold fupdN. rewrite (A2 v). destruct (N.eqb x v); [reflexivity|apply A2].
  - apply LR_inf. exact A5.
Qed.

Definition all_items (time : Q) (v : node) (k : nat) : list (Q * aev) :=
  (tadd time (dur v k), ARec v) :: flat_items delays time v k (gadj g v).

Lemma r_infect_nf : forall time src v s,
  r_infect g dur delays tmax time src v s =
  and_ok (ins_all tmax time (infect0 time src v s) (all_items time v (r_ord s v))) (asc_all delays v (r_ord s v) (gadj g v)).
Proof. intros. rewrite r_infect_flat. reflexivity. Qed.

Lemma PR_infect : forall time src v s s', PR s s' ->
  PR (r_infect g dur delays tmax time src v s) (r_infect g dur delays tmax time src v s').
Proof.
  intros time src v s s' H. rewrite !r_infect_nf. rewrite <- (pr_ord _ _ H v).
  apply PR_and_ok. apply PR_ins_all. apply PR_infect0. exact H.
Qed.

Lemma PR_event : forall t a s s', PR s s' -> PR (r_event g dur delays tmax t a s) (r_event g dur delays tmax t a s').
Proof.
  intros t a s s' H. destruct a as [v|u v]; cbn [r_event].
  - destruct H as [A1 A2 A3 A4 A5]. constructor; cbn [r_stat r_ord r_ag r_log r_ok]; try assumption.
    + intro x. unfold fupdN. destruct (N.eqb x v); [reflexivity|apply A1].
    + apply LR_rec. exact A5.
  - rewrite <- (pr_stat _ _ H v). destruct (N.eqb (r_stat s v) stS); [apply PR_infect; exact H|exact H].
Qed.

Lemma PR_loop : forall fuel s s' sF, PR s s' -> r_loop g dur delays tmax fuel s = Ok sF ->
  exists sF', r_loop g dur delays tmax fuel s' = Ok sF' /\ PR sF sF'.
Proof.
  induction fuel as [|f IH]; intros s s' sF H E; cbn [r_loop] in *; rewrite <- (pr_ag _ _ H);
    destruct (r_ag s) as [|[t a] rest] eqn:Ea.
  - injection E as <-. exists s'. split; [reflexivity|exact H].
  - discriminate E.
  - injection E as <-. exists s'. split; [reflexivity|exact H].
  - assert (Hp : PR (mkR (r_stat s) (r_ord s) rest (r_log s) (r_ok s)) (mkR (r_stat s') (r_ord s') rest (r_log s') (r_ok s'))).
    { destruct H as [A1 A2 A3 A4 A5]. constructor; cbn [r_stat r_ord r_ag r_log r_ok]; try assumption. reflexivity. }
    apply (IH _ _ _ (PR_event t a _ _ Hp) E).
Qed.

(* ---------------- the initial infections ---------------- *)
Definition istep (tmin : Q) (s : rst) (u : node) : rst :=
  if N.eqb (r_stat s u) stS then r_infect g dur delays tmax tmin None u s
  else mkR (r_stat s) (r_ord s) (r_ag s) (r_log s) false.

Lemma r_init_fold : forall tmin i0,
  r_init g dur delays tmax tmin i0 = fold_left (istep tmin) i0 (mkR (fun _ => stS) (fun _ => O) [] (logs0 g tmin) true).
Proof. reflexivity. Qed.

Lemma PR_istep : forall tmin s s' u, PR s s' -> PR (istep tmin s u) (istep tmin s' u).
Proof.
  intros tmin s s' u H. unfold istep. rewrite <- (pr_stat _ _ H u). destruct (N.eqb (r_stat s u) stS); [apply PR_infect; exact H|].
  destruct H as [A1 A2 A3 A4 A5]. constructor; cbn [r_stat r_ord r_ag r_log r_ok]; try assumption. reflexivity.
Qed.
Lemma PR_ifold : forall tmin l s s', PR s s' -> PR (fold_left (istep tmin) l s) (fold_left (istep tmin) l s').
Proof. intros tmin l. induction l as [|u l IH]; intros s s' H; [exact H|]. cbn [fold_left]. apply IH. apply PR_istep. exact H. Qed.

Lemma istep_ok : forall tmin s u, r_ok (istep tmin s u) = true -> r_ok s = true /\ r_stat s u = stS.
Proof.
  intros tmin s u H. unfold istep in H. destruct (N.eqb_spec (r_stat s u) stS) as [E|E]; [|discriminate H].
  split; [apply (r_infect_ok_mono g dur delays tmax) in H; exact H|exact E].
Qed.
Lemma ifold_ok : forall tmin l s, r_ok (fold_left (istep tmin) l s) = true -> r_ok s = true.
Proof.
  intros tmin l. induction l as [|u l IH]; intros s H; [exact H|]. cbn [fold_left] in H. apply IH in H. apply istep_ok in H. apply H.
Qed.

(* passive fields are not touched by insertions *)
Lemma ins_fields : forall now s t a,
  r_stat (ins now s t a) = r_stat s /\ r_ord (ins now s t a) = r_ord s /\ r_log (ins now s t a) = r_log s.
Proof. intros now s t a. unfold r_insert. destruct (xlt t tmax); repeat split. Qed.
Lemma ins_all_fields : forall now items s,
  r_stat (ins_all tmax now s items) = r_stat s /\ r_ord (ins_all tmax now s items) = r_ord s /\ r_log (ins_all tmax now s items) = r_log s.
Proof.
  intros now items. induction items as [|x l IH]; intro s; [repeat split|]. cbn [ins_all fold_left].
  destruct (IH (ins now s (fst x) (snd x))) as [A [B C]]. destruct (ins_fields now s (fst x) (snd x)) as [A' [B' C']].
  fold (ins_all tmax now (ins now s (fst x) (snd x)) l). rewrite A, B, C, A', B', C'. repeat split.
Qed.

(* infect0 commutes with insertions and with and_ok *)
Lemma infect0_ins : forall now time src v s t a, infect0 time src v (ins now s t a) = ins now (infect0 time src v s) t a.
Proof. intros. unfold r_insert, infect0. destruct (xlt t tmax); reflexivity. Qed.
Lemma infect0_ins_all : forall now time src v items s,
  infect0 time src v (ins_all tmax now s items) = ins_all tmax now (infect0 time src v s) items.
Proof.
  intros now time src v items. induction items as [|x l IH]; intro s; [reflexivity|]. cbn [ins_all fold_left].
  fold (ins_all tmax now (ins now s (fst x) (snd x)) l). rewrite IH, infect0_ins. reflexivity.
Qed.
Lemma infect0_and_ok : forall time src v s b, infect0 time src v (and_ok s b) = and_ok (infect0 time src v s) b.
Proof. reflexivity. Qed.

(* two initial infections of different susceptible nodes, in normal form *)
Lemma istep2_nf : forall tmin s u v, u <> v -> r_stat s u = stS -> r_stat s v = stS ->
  istep tmin (istep tmin s u) v =
  and_ok (ins_all tmax tmin (infect0 tmin None v (infect0 tmin None u s))
                  (all_items tmin u (r_ord s u) ++ all_items tmin v (r_ord s v)))
         (asc_all delays u (r_ord s u) (gadj g u) && asc_all delays v (r_ord s v) (gadj g v)).
Proof.
  intros tmin s u v Huv Su Sv. unfold istep at 2. rewrite Su. change (N.eqb stS stS) with true. cbv iota.
  rewrite r_infect_nf.
  set (A := and_ok (ins_all tmax tmin (infect0 tmin None u s) (all_items tmin u (r_ord s u))) (asc_all delays u (r_ord s u) (gadj g u))).
  assert (HstatA : r_stat A v = stS).
  { unfold A. cbn [and_ok r_stat]. destruct (ins_all_fields tmin (all_items tmin u (r_ord s u)) (infect0 tmin None u s)) as [E _]. rewrite E.
    cbn [infect0 r_stat]. unfold fupdN. destruct (N.eqb_spec v u) as [K|K]; [exfalso; apply Huv; symmetry; exact K|exact Sv]. }
  assert (HordA : r_ord A v = r_ord s v).
  { unfold A. cbn [and_ok r_ord]. destruct (ins_all_fields tmin (all_items tmin u (r_ord s u)) (infect0 tmin None u s)) as [_ [E _]]. rewrite E.
    cbn [infect0 r_ord]. unfold fupdN. destruct (N.eqb_spec v u) as [K|K]; [exfalso; apply Huv; symmetry; exact K|reflexivity]. }
  unfold istep. rewrite HstatA. change (N.eqb stS stS) with true. cbv iota. rewrite r_infect_nf, HordA.
  unfold A. rewrite infect0_and_ok, infect0_ins_all, ins_all_and_ok, and_ok_and_ok, <- ins_all_app. reflexivity.
Qed.

Lemma PR_infect0_swap : forall tmin s u v, u <> v ->
  PR (infect0 tmin None v (infect0 tmin None u s)) (infect0 tmin None u (infect0 tmin None v s)).
Proof.
  intros tmin s u v Huv. constructor; cbn [infect0 r_stat r_ord r_ag r_log r_ok]; try reflexivity.
  - intro x. unfold fupdN. destruct (N.eqb x v), (N.eqb x u); reflexivity.
  - intro x. unfold fupdN.
    destruct (N.eqb_spec v u) as [K|K]; [exfalso; apply Huv; symmetry; exact K|].
    destruct (N.eqb_spec u v) as [K2|K2]; [exfalso; apply Huv; exact K2|].
    destruct (N.eqb_spec x v) as [Ev|Ev]; destruct (N.eqb_spec x u) as [Eu|Eu]; try reflexivity.
    exfalso. apply Huv. congruence.
  - apply LR_swap. exact Huv.
Qed.

Lemma istep_swap : forall tmin s u v, u <> v -> r_ok (istep tmin (istep tmin s u) v) = true ->
  PR (istep tmin (istep tmin s u) v) (istep tmin (istep tmin s v) u).
Proof.
  intros tmin s u v Huv Hok.
  destruct (istep_ok tmin _ v Hok) as [Hok1 SvA]. destruct (istep_ok tmin s u Hok1) as [Hok0 Su].
  assert (Sv : r_stat s v = stS).
  { unfold istep in SvA. rewrite Su in SvA. change (N.eqb stS stS) with true in SvA. cbv iota in SvA.
    rewrite r_infect_nf in SvA. cbn [and_ok r_stat] in SvA.
    destruct (ins_all_fields tmin (all_items tmin u (r_ord s u)) (infect0 tmin None u s)) as [E _]. rewrite E in SvA.
    cbn [infect0 r_stat] in SvA. unfold fupdN in SvA. destruct (N.eqb_spec v u) as [K|K]; [exfalso; apply Huv; symmetry; exact K|exact SvA]. }
  rewrite (istep2_nf tmin s u v Huv Su Sv) in *.
  rewrite (istep2_nf tmin s v u (fun E => Huv (eq_sym E)) Sv Su).
  rewrite (andb_comm (asc_all delays v (r_ord s v) (gadj g v))).
  apply PR_and_ok.
  apply and_ok_ok in Hok. destruct Hok as [Hok _].
  pose proof (PR_ins_all tmin (all_items tmin u (r_ord s u) ++ all_items tmin v (r_ord s v)) _ _ (PR_infect0_swap tmin s u v Huv)) as P.
  rewrite (ins_all_perm tmax tmin (all_items tmin u (r_ord s u) ++ all_items tmin v (r_ord s v)) (all_items tmin v (r_ord s v) ++ all_items tmin u (r_ord s u))
             (Permutation_app_comm _ _)); [exact P|].
  rewrite <- (pr_ok _ _ P). exact Hok.
Qed.

(* any permutation of the initial list *)
Lemma ifold_perm : forall tmin l l', Permutation l l' -> forall s s', PR s s' ->
  r_ok (fold_left (istep tmin) l s) = true ->
  PR (fold_left (istep tmin) l s) (fold_left (istep tmin) l' s').
Proof.
  intros tmin l l' P. induction P as [|x l l' P IH|x y l|l l' l'' P1 IH1 P2 IH2]; intros s s' H Hok.
  - exact H.
  - cbn [fold_left] in *. apply IH; [apply PR_istep; exact H|exact Hok].
  - cbn [fold_left] in *. destruct (N.eq_dec y x) as [E|E].
    + subst y. apply PR_ifold. apply PR_istep. apply PR_istep. exact H.
    + apply (PR_trans _ (fold_left (istep tmin) l (istep tmin (istep tmin s x) y))).
      * apply PR_ifold. apply istep_swap; [exact E|]. apply (ifold_ok tmin l). exact Hok.
      * apply PR_ifold. apply PR_istep. apply PR_istep. exact H.
  - apply (PR_trans _ (fold_left (istep tmin) l' s)).
    + apply IH1; [apply PR_refl|exact Hok].
    + apply IH2; [exact H|]. rewrite <- (pr_ok _ _ (IH1 s s (PR_refl s) Hok)). exact Hok.
Qed.

(* ---------------- outputs ---------------- *)
Definition out_perm_rel (o o' : simout) : Prop :=
  so_rows o' = so_rows o /\
  match so_full o, so_full o' with
  | Some fd, Some fd' => fd_hist fd' = fd_hist fd /\ srcd (fd_trans fd') = srcd (fd_trans fd) /\ Permutation (fd_trans fd') (fd_trans fd)
  | None, None => True
  | _, _ => False
  end.

Lemma filter_rev' : forall (A : Type) (p : A -> bool) l, rev (filter p l) = filter p (rev l).
Proof.
  intros A p l. induction l as [|x l IH]; [reflexivity|]. cbn [filter rev]. rewrite filter_app, <- IH. cbn [filter].
  destruct (p x); [reflexivity|]. rewrite app_nil_r. reflexivity.
Qed.
Lemma filter_filter : forall (A : Type) (p q : A -> bool) l, filter (fun x => p x && q x) l = filter q (filter p l).
Proof. intros A p q l. induction l as [|x l IH]; [reflexivity|]. cbn [filter]. destruct (p x); cbn [andb filter]; [destruct (q x); rewrite IH; reflexivity|exact IH]. Qed.

Lemma times_of_LR : forall u st l l', (forall w, evf w l = evf w l') -> times_of u st (rev l) = times_of u st (rev l').
Proof.
  intros u st l l' H. unfold times_of. rewrite !filter_filter, <- !filter_rev'.
  pose proof (H u) as Hu. unfold evf in Hu. do 3 f_equal. exact Hu.
Qed.

Lemma finish_LR : forall tmin full n l l', LR l l' -> out_perm_rel (finish g tmin full n l) (finish g tmin full n l').
Proof.
  intros tmin full n l l' [A1 A2 A3 A4]. unfold out_perm_rel, finish. cbn [so_rows so_full]. split; [rewrite A1; reflexivity|].
  destruct full; [|exact I]. unfold build_full. cbn [fd_hist fd_trans]. split; [|split].
  - apply map_ext. intro u. rewrite (times_of_LR u stI _ _ A2), (times_of_LR u stS _ _ A2). reflexivity.
  - unfold srcd in *. rewrite <- !filter_rev'. rewrite A3. reflexivity.
  - apply Permutation_sym. eapply Permutation_trans; [apply Permutation_sym; apply Permutation_rev|].
    eapply Permutation_trans; [exact A4|apply Permutation_rev].
Qed.

(* the reference semantics from a permuted initial list *)
Theorem ref_sis_initial_order : forall tmin full fuel i0 i0' out, Permutation i0 i0' ->
  ref_sis g dur delays tmax tmin full fuel i0 = Ok (out, true) ->
  exists out', ref_sis g dur delays tmax tmin full fuel i0' = Ok (out', true) /\ out_perm_rel out out'.
Proof.
  intros tmin full fuel i0 i0' out P H. unfold ref_sis in *.
  destruct (r_loop g dur delays tmax fuel (r_init g dur delays tmax tmin i0)) as [sF|e] eqn:EL; [|discriminate H].
  cbn [rbind] in H. injection H as Ho Hok.
  pose proof (r_loop_ok_mono g dur delays tmax fuel _ _ EL Hok) as Hok0.
  rewrite r_init_fold in *.
  pose proof (ifold_perm tmin i0 i0' P _ _ (PR_refl _) Hok0) as P0.
  destruct (PR_loop fuel _ _ sF P0 EL) as [sF' [EL' RF]].
  rewrite EL'. cbn [rbind]. rewrite <- (pr_ok _ _ RF), Hok. eexists. split; [reflexivity|].
  rewrite <- Ho, <- (Permutation_length P). apply finish_LR. apply (pr_log _ _ RF).
Qed.

(* fast_nonMarkov_SIS (its model nm_run) through C13 *)
Theorem nmsis_initial_order : forall tmin full fuel i0 i0' out, Permutation i0 i0' ->
  xlt tmin tmax = true -> ref_sis g dur delays tmax tmin full fuel i0 = Ok (out, true) ->
  exists out',
    nm_run g dur delays tmax tmin full (length i0 + fuel) i0 = Ok out /\
    nm_run g dur delays tmax tmin full (length i0 + fuel) i0' = Ok out' /\
    out_perm_rel out out'.
Proof.
  intros tmin full fuel i0 i0' out P Ht H. destruct (ref_sis_initial_order tmin full fuel i0 i0' out P H) as [out' [H' Ro]].
  exists out'. split; [apply (nmsis_refines _ _ _ _ _ _ _ _ _ Ht H)|]. split; [|exact Ro].
  rewrite (Permutation_length P). apply (nmsis_refines _ _ _ _ _ _ _ _ _ Ht H').
Qed.

End Order.
