(* C19 — lemmas about the effect checker of Model/Effects.v. *)
From Coq Require Import List NArith PArith Bool String Lia Arith FSets.FSetPositive SetoidList.
Require Import EoNV.Model.Effects.
Import ListNotations.

(* ---------------------------------------------------------------- chunks *)
Lemma chunks_cover_gen : forall (A : Type) (f : A -> bool) (m : nat) (l : list A) (i : nat),
  (0 < m)%nat ->
  (forall k, (k < m)%nat -> forallb f (chunk_of m k i l) = true) ->
  forallb f l = true.
Proof.
  intros A f m l. induction l as [|a l IH]; intros i Hm Hall; [reflexivity|].
  cbn [forallb]. apply andb_true_iff. split.
  - assert (Hk : (Nat.modulo i m < m)%nat) by (apply Nat.mod_upper_bound; lia).
    specialize (Hall _ Hk). cbn [chunk_of] in Hall. rewrite Nat.eqb_refl in Hall.
    cbn [forallb] in Hall. apply andb_true_iff in Hall. tauto.
  - apply (IH (S i) Hm). intros k Hk. specialize (Hall k Hk). cbn [chunk_of] in Hall.
    destruct (Nat.eqb (Nat.modulo i m) k); [|exact Hall].
    cbn [forallb] in Hall. apply andb_true_iff in Hall. tauto.
Qed.

Lemma chunks_cover6 : forall (A : Type) (f : A -> bool) (l : list A),
  forallb f (chunk_of 6 0 0 l) = true -> forallb f (chunk_of 6 1 0 l) = true ->
  forallb f (chunk_of 6 2 0 l) = true -> forallb f (chunk_of 6 3 0 l) = true ->
  forallb f (chunk_of 6 4 0 l) = true -> forallb f (chunk_of 6 5 0 l) = true ->
  forallb f l = true.
Proof.
  intros A f l H0 H1 H2 H3 H4 H5. apply (chunks_cover_gen A f 6 l 0); [lia|].
  intros k Hk.
  destruct k as [|[|[|[|[|[|k]]]]]]; try assumption; lia.
Qed.

(* ------------------------------------------------- soundness: the write step *)
(* Abstraction relation between the abstract heap semantics and the checker's
   abstract values.  n0 = allocation pointer at entry: locations below n0 existed
   before the call.  R q l ("l is in the region of parameter q"): l was reachable
   from the object bound to q when the call started.
   [gamma n0 R h a l]: location l is described by abstract object a. *)
Definition region := var -> loc -> Prop.
Definition gamma (n0 : loc) (R : region) (h : heap) (a : aobj) (l : loc) : Prop :=
  match a with
  | xI p => (l < n0)%nat /\ R (Pos.pred_N p) l
  | xO p => (n0 <= l)%nat /\ site_of h l = Pos.pred_N p
  | xH => False
  end.
(* every variable is bound to an existing location described by its abstract value *)
Definition inv_env (n0 : loc) (R : region) (h : heap) (e : env) (E : aenv) : Prop :=
  forall x l, e x = Some l ->
    (l < next h)%nat /\ exists a, PositiveSet.In a (alook E x) /\ gamma n0 R h a l.
(* b0 = the buffer owner of every object at entry.  Objects that existed before the
   call keep their buffer; a new object that shares a pre-existing buffer was
   allocated at a site whose taint names a parameter in whose region the buffer lies *)
Definition inv_base (n0 : loc) (b0 : loc -> loc) (h : heap) : Prop :=
  forall l, (l < n0)%nat -> base h l = b0 l.
Definition inv_bt (n0 : loc) (R : region) (b0 : loc -> loc) (H : aheap) (h : heap) : Prop :=
  forall l, (n0 <= l)%nat -> (l < next h)%nat -> (base h l < n0)%nat ->
    exists q l', In q (bt_look (bt H) (site_of h l)) /\ R q l' /\ base h l = b0 l'.

Lemma nmem_In : forall a l, nmem a l = true <-> In a l.
Proof.
  intros a l. unfold nmem. rewrite existsb_exists. split.
  - intros [b [Hb He]]. apply N.eqb_eq in He. subst b. exact Hb.
  - intros Hin. exists a. split; [exact Hin|apply N.eqb_refl].
Qed.

Lemma nunion_In : forall q l m, In q (nunion l m) <-> In q l \/ In q m.
Proof.
  intros q l m. induction l as [|a l IH]; cbn [nunion].
  - split; [intros Hq; right; exact Hq|intros [[]|Hq]; exact Hq].
  - destruct (nmem a m) eqn:Hm.
    + rewrite IH. split.
      * intros [Hq|Hq]; [left; right; exact Hq|right; exact Hq].
      * intros [[<-|Hq]|Hq]; [right; apply nmem_In; exact Hm|left; exact Hq|right; exact Hq].
    + cbn [In]. rewrite IH. tauto.
Qed.

Lemma nsubset_In : forall l m q, nsubset l m = true -> In q l -> In q m.
Proof.
  intros l m q Hs Hq. unfold nsubset in Hs. rewrite forallb_forall in Hs.
  apply nmem_In. exact (Hs q Hq).
Qed.

Lemma in_aelems : forall a s, PositiveSet.In a s -> In a (aelems s).
Proof.
  intros a s Hin. apply PositiveSet.elements_1 in Hin.
  apply SetoidList.InA_alt in Hin. destruct Hin as [b [Hb Hin]]. unfold PositiveSet.E.eq in Hb. subst b. exact Hin.
Qed.

Lemma taint_fold_in : forall H (l : list aobj) a q,
  In a l -> In q (taint1 H a) -> In q (fold_right (fun a acc => nunion (taint1 H a) acc) [] l).
Proof.
  induction l as [|b l IH]; intros a q Ha Hq; [destruct Ha|].
  cbn [fold_right]. apply nunion_In. destruct Ha as [->|Ha]; [left; exact Hq|right; exact (IH a q Ha Hq)].
Qed.

Lemma taint_in : forall H s a q, PositiveSet.In a s -> In q (taint1 H a) -> In q (taint H s).
Proof.
  intros H s a q Ha Hq. unfold taint. apply (taint_fold_in H _ a q); [apply in_aelems; exact Ha|exact Hq].
Qed.

(* the key step: the buffer written by  x[..] = ..  either was created during the
   call or lies in the region of a parameter that is in the taint of x's abstract
   value (which the checker reports) *)
Lemma write_attr : forall n0 R b0 H h e E x l,
  inv_env n0 R h e E -> inv_bt n0 R b0 H h -> inv_base n0 b0 h ->
  e x = Some l -> (base h l < n0)%nat ->
  exists q l', In q (taint H (alook E x)) /\ R q l' /\ base h l = b0 l'.
Proof.
  intros n0 R b0 H h e E x l Henv Hbt Hb0 Hx Hlt0.
  destruct (Henv x l Hx) as [Hlt [a [Hin Hg]]].
  destruct a as [p|p|]; cbn [gamma] in Hg.
  - destruct Hg as [Hold Hr]. exists (Pos.pred_N p), l. split; [|split; [exact Hr|exact (Hb0 l Hold)]].
    apply (taint_in H _ (xI p)); [exact Hin|]. left. reflexivity.
  - destruct Hg as [Hge Hs]. destruct (Hbt l Hge Hlt Hlt0) as [q [l' [Hq [Hr Hb]]]].
    exists q, l'. split; [|split; assumption].
    apply (taint_in H _ (xO p)); [exact Hin|]. cbn [taint1]. rewrite <- Hs. exact Hq.
  - destruct Hg.
Qed.

(* a write that the checker does not report (empty taint of the target's abstract
   value) touches a buffer that did not exist before the call *)
Lemma write_safe : forall n0 R b0 H h e E x l,
  inv_env n0 R h e E -> inv_bt n0 R b0 H h -> inv_base n0 b0 h ->
  e x = Some l -> taint H (alook E x) = [] -> (n0 <= base h l)%nat.
Proof.
  intros n0 R b0 H h e E x l Henv Hbt Hb0 Hx Ht.
  destruct (Nat.lt_ge_cases (base h l) n0) as [Hlt0|Hge0]; [|exact Hge0].
  destruct (write_attr n0 R b0 H h e E x l Henv Hbt Hb0 Hx Hlt0) as [q [l' [Hq _]]].
  rewrite Ht in Hq. destruct Hq.
Qed.

(* the environment order is sound: a larger abstract environment describes every
   concrete environment that a smaller one describes *)
Lemma asubset_in : forall s t a, asubset s t = true -> PositiveSet.In a s -> PositiveSet.In a t.
Proof. intros s t a Hs. apply PositiveSet.subset_2 in Hs. exact (Hs a). Qed.

Lemma aenv_leq_gen_sound : forall E F x a,
  aenv_leq_gen E F = true -> PositiveSet.In a (alook E x) -> PositiveSet.In a (alook F x).
Proof.
  induction E as [|[y v] E IH]; intros F x a Hl Hin; cbn [alook] in Hin.
  - exfalso. exact (PositiveSet.empty_1 Hin).
  - unfold aenv_leq_gen in Hl. cbn [forallb fst snd] in Hl. apply andb_true_iff in Hl. destruct Hl as [Hv Hr].
    destruct (N.eqb_spec y x) as [->|Hne].
    + exact (asubset_in _ _ _ Hv Hin).
    + exact (IH F x a Hr Hin).
Qed.

Lemma aenv_leq_sound : forall E F x a,
  aenv_leq E F = true -> PositiveSet.In a (alook E x) -> PositiveSet.In a (alook F x).
Proof.
  induction E as [|[y v] E IH]; intros F x a Hl Hin.
  - cbn [alook] in Hin. exfalso. exact (PositiveSet.empty_1 Hin).
  - destruct F as [|[z w] F].
    + exact (aenv_leq_gen_sound _ _ x a Hl Hin).
    + cbn [aenv_leq] in Hl. destruct (N.eqb_spec y z) as [->|Hne].
      * apply andb_true_iff in Hl. destruct Hl as [Hv Hr]. cbn [alook] in *.
        destruct (N.eqb_spec z x) as [->|Hnx].
        -- exact (asubset_in _ _ _ Hv Hin).
        -- exact (IH F x a Hr Hin).
      * exact (aenv_leq_gen_sound _ _ x a Hl Hin).
Qed.

Lemma inv_env_mono : forall n0 R h e E F,
  aenv_leq E F = true -> inv_env n0 R h e E -> inv_env n0 R h e F.
Proof.
  intros n0 R h e E F Hl Hi x l Hx. destruct (Hi x l Hx) as [Hlt [a [Hin Hg]]].
  split; [exact Hlt|]. exists a. split; [exact (aenv_leq_sound E F x a Hl Hin)|exact Hg].
Qed.

(* aliasing: x = y preserves the abstraction *)
Lemma alook_aset_same : forall E x v, alook (aset E x v) x = v.
Proof.
  induction E as [|[y w] E IH]; intros x v; cbn [aset alook].
  - rewrite N.eqb_refl. reflexivity.
  - destruct (N.eqb_spec y x) as [->|Hne]; cbn [alook].
    + rewrite N.eqb_refl. reflexivity.
    + destruct (N.eqb_spec y x); [contradiction|]. apply IH.
Qed.
Lemma alook_aset_other : forall E x z v, z <> x -> alook (aset E x v) z = alook E z.
Proof.
  induction E as [|[y w] E IH]; intros x z v Hne; cbn [aset alook].
  - destruct (N.eqb_spec x z); [subst; contradiction|reflexivity].
  - destruct (N.eqb_spec y x) as [->|Hyx]; cbn [alook].
    + destruct (N.eqb_spec x z); [subst; contradiction|reflexivity].
    + destruct (N.eqb_spec y z); [reflexivity|]. apply IH. exact Hne.
Qed.

Lemma assign_var_preserves : forall n0 R h e E x y l,
  inv_env n0 R h e E -> e y = Some l ->
  inv_env n0 R h (upd e x (Some l)) (aset E x (alook E y)).
Proof.
  intros n0 R h e E x y l Hi Hy z m Hz. unfold upd in Hz.
  destruct (N.eqb_spec z x) as [->|Hne].
  - injection Hz as <-. rewrite alook_aset_same. exact (Hi y l Hy).
  - rewrite alook_aset_other by exact Hne. exact (Hi z m Hz).
Qed.
