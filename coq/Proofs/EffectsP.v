(* C19 — lemmas about the effect checker of Model/Effects.v. *)
From Coq Require Import List NArith PArith Bool String Lia Arith FSets.FSetPositive SetoidList.
Require Import EoNV.Model.Effects.
Import ListNotations.

(* ---------------------------------------------------------------- chunks *)
Lemma chunks_cover_gen : forall (A : Type) (f : A -> bool) (m : nat) (l : list A) (i : nat),
  (0 < m)%nat ->
  (forall k, (k < m)%nat -> forallb f (chunk_of m k i l) = true) ->
  forallb f l = true.
Proof.
  intros A f m l. induction l as [|a l IH]; intros i Hm Hall; [reflexivity|].
  cbn [forallb]. apply andb_true_iff. split.
  - assert (Hk : (Nat.modulo i m < m)%nat) by (apply Nat.mod_upper_bound; lia).
    specialize (Hall _ Hk). cbn [chunk_of] in Hall. rewrite Nat.eqb_refl in Hall.
    cbn [forallb] in Hall. apply andb_true_iff in Hall. tauto.
  - apply (IH (S i) Hm). intros k Hk. specialize (Hall k Hk). cbn [chunk_of] in Hall.
    destruct (Nat.eqb (Nat.modulo i m) k); [|exact Hall].
    cbn [forallb] in Hall. apply andb_true_iff in Hall. tauto.
Qed.

Lemma chunks_cover6 : forall (A : Type) (f : A -> bool) (l : list A),
  forallb f (chunk_of 6 0 0 l) = true -> forallb f (chunk_of 6 1 0 l) = true ->
  forallb f (chunk_of 6 2 0 l) = true -> forallb f (chunk_of 6 3 0 l) = true ->
  forallb f (chunk_of 6 4 0 l) = true -> forallb f (chunk_of 6 5 0 l) = true ->
  forallb f l = true.
Proof.
  intros A f l H0 H1 H2 H3 H4 H5. apply (chunks_cover_gen A f 6 l 0); [lia|].
  intros k Hk.
  destruct k as [|[|[|[|[|[|k]]]]]]; try assumption; lia.
Qed.

(* ------------------------------------------------- soundness: the write step *)
(* Abstraction relation between the abstract heap semantics and the checker's
   abstract values.  n0 = allocation pointer at entry: locations below n0 existed
   before the call.  [gamma n0 h a l]: location l is described by abstract object a. *)
Definition gamma (n0 : loc) (h : heap) (a : aobj) (l : loc) : Prop :=
  match a with
  | xI _ => (l < n0)%nat
  | xO p => (n0 <= l)%nat /\ site_of h l = Pos.pred_N p
  | xH => False
  end.
(* every variable is bound to an existing location described by its abstract value *)
Definition inv_env (n0 : loc) (h : heap) (e : env) (E : aenv) : Prop :=
  forall x l, e x = Some l -> (l < next h)%nat /\ exists a, PositiveSet.In a (alook E x) /\ gamma n0 h a l.
(* a new object that shares a pre-existing buffer was allocated at a site whose
   buffer-taint set is not empty *)
Definition inv_bt (n0 : loc) (H : aheap) (h : heap) : Prop :=
  forall l, (n0 <= l)%nat -> (l < next h)%nat -> (base h l < n0)%nat -> bt_look (bt H) (site_of h l) <> [].

Lemma nunion_nil : forall l m, nunion l m = [] -> l = [] /\ m = [].
Proof.
  induction l as [|a l IH]; intros m Hn; cbn [nunion] in Hn.
  - split; [reflexivity|exact Hn].
  - destruct (nmem a m) eqn:Hm.
    + destruct (IH _ Hn) as [_ Hm0]. subst m. discriminate Hm.
    + discriminate Hn.
Qed.

Lemma taint_nil_in : forall H (l : list aobj) a,
  fold_right (fun a acc => nunion (taint1 H a) acc) [] l = [] -> In a l -> taint1 H a = [].
Proof.
  induction l as [|b l IH]; intros a Hn Hin; [destruct Hin|].
  cbn [fold_right] in Hn. apply nunion_nil in Hn. destruct Hn as [Hb Hl].
  destruct Hin as [->|Hin]; [exact Hb|exact (IH a Hl Hin)].
Qed.

Lemma in_aelems : forall a s, PositiveSet.In a s -> In a (aelems s).
Proof.
  intros a s Hin. apply PositiveSet.elements_1 in Hin.
  apply SetoidList.InA_alt in Hin. destruct Hin as [b [Hb Hin]]. unfold PositiveSet.E.eq in Hb. subst b. exact Hin.
Qed.

(* the key step: a write that the checker does not report (empty taint of the
   target's abstract value) touches a buffer that did not exist before the call *)
Lemma write_safe : forall n0 H h e E x l,
  inv_env n0 h e E -> inv_bt n0 H h ->
  e x = Some l -> taint H (alook E x) = [] -> (n0 <= base h l)%nat.
Proof.
  intros n0 H h e E x l Henv Hbt Hx Ht.
  destruct (Henv x l Hx) as [Hlt [a [Hin Hg]]].
  assert (Ha : taint1 H a = []) by (apply (taint_nil_in H (aelems (alook E x))); [exact Ht|apply in_aelems; exact Hin]).
  destruct a as [p|p|]; cbn [gamma taint1] in *.
  - discriminate Ha.
  - destruct Hg as [Hge Hs].
    destruct (Nat.lt_ge_cases (base h l) n0) as [Hlt0|Hge0]; [|exact Hge0].
    exfalso. apply (Hbt l Hge Hlt Hlt0). rewrite Hs. exact Ha.
  - destruct Hg.
Qed.

(* one executed SWrite: the location it logs is new whenever the checker's verdict
   for that statement is the empty violation list *)
Lemma exec_write_logs_new : forall p H d n0 ln x f ys E E' st o st',
  chk p H (S d) (SWrite ln x f ys) E = Some (E', []) ->
  inv_env n0 (st_heap st) (st_env st) E -> inv_bt n0 H (st_heap st) ->
  (forall m, In m (st_log st) -> (n0 <= m)%nat) ->
  exec p (SWrite ln x f ys) st o st' ->
  forall m, In m (st_log st') -> (n0 <= m)%nat.
Proof.
  intros p H d n0 ln x f ys E E' st o st' Hc Henv Hbt Hlog Hex m Hm.
  inversion Hex; subst.
  - exact (Hlog m Hm).
  - cbn [st_log] in Hm. destruct Hm as [<-|Hm]; [|exact (Hlog m Hm)].
    cbn [chk] in Hc.
    destruct (store_ok H f (alook E x) (alooks E ys)); [|discriminate Hc].
    injection Hc as _ Hv.
    apply (write_safe n0 H (st_heap st) (st_env st) E x l Henv Hbt); [assumption|].
    destruct (taint H (alook E x)); [reflexivity|discriminate Hv].
Qed.

(* the environment order is sound: a larger abstract environment describes every
   concrete environment that a smaller one describes *)
Lemma asubset_in : forall s t a, asubset s t = true -> PositiveSet.In a s -> PositiveSet.In a t.
Proof. intros s t a Hs. apply PositiveSet.subset_2 in Hs. exact (Hs a). Qed.

Lemma aenv_leq_gen_sound : forall E F x a,
  aenv_leq_gen E F = true -> PositiveSet.In a (alook E x) -> PositiveSet.In a (alook F x).
Proof.
  induction E as [|[y v] E IH]; intros F x a Hl Hin; cbn [alook] in Hin.
  - exfalso. exact (PositiveSet.empty_1 Hin).
  - unfold aenv_leq_gen in Hl. cbn [forallb fst snd] in Hl. apply andb_true_iff in Hl. destruct Hl as [Hv Hr].
    destruct (N.eqb_spec y x) as [->|Hne].
    + exact (asubset_in _ _ _ Hv Hin).
    + exact (IH F x a Hr Hin).
Qed.

Lemma aenv_leq_sound : forall E F x a,
  aenv_leq E F = true -> PositiveSet.In a (alook E x) -> PositiveSet.In a (alook F x).
Proof.
  induction E as [|[y v] E IH]; intros F x a Hl Hin.
  - cbn [alook] in Hin. exfalso. exact (PositiveSet.empty_1 Hin).
  - destruct F as [|[z w] F].
    + exact (aenv_leq_gen_sound _ _ x a Hl Hin).
    + cbn [aenv_leq] in Hl. destruct (N.eqb_spec y z) as [->|Hne].
      * apply andb_true_iff in Hl. destruct Hl as [Hv Hr]. cbn [alook] in *.
        destruct (N.eqb_spec z x) as [->|Hnx].
        -- exact (asubset_in _ _ _ Hv Hin).
        -- exact (IH F x a Hr Hin).
      * exact (aenv_leq_gen_sound _ _ x a Hl Hin).
Qed.

Lemma inv_env_mono : forall n0 h e E F,
  aenv_leq E F = true -> inv_env n0 h e E -> inv_env n0 h e F.
Proof.
  intros n0 h e E F Hl Hi x l Hx. destruct (Hi x l Hx) as [Hlt [a [Hin Hg]]].
  split; [exact Hlt|]. exists a. split; [exact (aenv_leq_sound E F x a Hl Hin)|exact Hg].
Qed.

(* aliasing: x = y preserves the abstraction *)
Lemma alook_aset_same : forall E x v, alook (aset E x v) x = v.
Proof.
  induction E as [|[y w] E IH]; intros x v; cbn [aset alook].
  - rewrite N.eqb_refl. reflexivity.
  - destruct (N.eqb_spec y x) as [->|Hne]; cbn [alook].
    + rewrite N.eqb_refl. reflexivity.
    + destruct (N.eqb_spec y x); [contradiction|]. apply IH.
Qed.
Lemma alook_aset_other : forall E x z v, z <> x -> alook (aset E x v) z = alook E z.
Proof.
  induction E as [|[y w] E IH]; intros x z v Hne; cbn [aset alook].
  - destruct (N.eqb_spec x z); [subst; contradiction|reflexivity].
  - destruct (N.eqb_spec y x) as [->|Hyx]; cbn [alook].
    + destruct (N.eqb_spec x z); [subst; contradiction|reflexivity].
    + destruct (N.eqb_spec y z); [reflexivity|]. apply IH. exact Hne.
Qed.

Lemma assign_var_preserves : forall n0 h e E x y l,
  inv_env n0 h e E -> e y = Some l ->
  inv_env n0 h (upd e x (Some l)) (aset E x (alook E y)).
Proof.
  intros n0 h e E x y l Hi Hy z m Hz. unfold upd in Hz.
  destruct (N.eqb_spec z x) as [->|Hne].
  - injection Hz as <-. rewrite alook_aset_same. exact (Hi y l Hy).
  - rewrite alook_aset_other by exact Hne. exact (Hi z m Hz).
Qed.
