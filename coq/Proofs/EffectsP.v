(* C19 — lemmas about the effect checker of Model/Effects.v. *)
From Coq Require Import List NArith PArith Bool String Lia Arith FSets.FSetPositive.
Require Import EoNV.Model.Effects.
Import ListNotations.

(* ---------------------------------------------------------------- chunks *)
Lemma chunks_cover_gen : forall (A : Type) (f : A -> bool) (m : nat) (l : list A) (i : nat),
  (0 < m)%nat ->
  (forall k, (k < m)%nat -> forallb f (chunk_of m k i l) = true) ->
  forallb f l = true.
Proof.
  intros A f m l. induction l as [|a l IH]; intros i Hm Hall; [reflexivity|].
  cbn [forallb]. apply andb_true_iff. split.
  - assert (Hk : (Nat.modulo i m < m)%nat) by (apply Nat.mod_upper_bound; lia).
    specialize (Hall _ Hk). cbn [chunk_of] in Hall. rewrite Nat.eqb_refl in Hall.
    cbn [forallb] in Hall. apply andb_true_iff in Hall. tauto.
  - apply (IH (S i) Hm). intros k Hk. specialize (Hall k Hk). cbn [chunk_of] in Hall.
    destruct (Nat.eqb (Nat.modulo i m) k); [|exact Hall].
    cbn [forallb] in Hall. apply andb_true_iff in Hall. tauto.
Qed.

Lemma chunks_cover6 : forall (A : Type) (f : A -> bool) (l : list A),
  forallb f (chunk_of 6 0 0 l) = true -> forallb f (chunk_of 6 1 0 l) = true ->
  forallb f (chunk_of 6 2 0 l) = true -> forallb f (chunk_of 6 3 0 l) = true ->
  forallb f (chunk_of 6 4 0 l) = true -> forallb f (chunk_of 6 5 0 l) = true ->
  forallb f l = true.
Proof.
  intros A f l H0 H1 H2 H3 H4 H5. apply (chunks_cover_gen A f 6 l 0); [lia|].
  intros k Hk.
  destruct k as [|[|[|[|[|[|k]]]]]]; try assumption; lia.
Qed.
