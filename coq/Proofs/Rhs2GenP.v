(* Adequacy of the hand-written models of Model/Rhs2D.v: each definition GENERATED from
   EoN/analytic.py by translate/rhs2d2v.py (Gen/Rhs2.v, re-emitted on every run) is pointwise equal
   to the hand-written model the theorems of Proofs/Rhs2DP.v are about, on the domain of the code
   (shapes consistent: where numpy would raise, nothing is claimed). *)
From EoNV Require Import Prelude Graph Vec VecP Rhs2D Rhs2DP Rhs2.
From Coq Require Import Lqa Setoid Morphisms.

Lemma veq_tab n f g : (forall i, (i < n)%nat -> f i == g i) -> veq (tab n f) (tab n g).
Proof.
  intros H. apply veq_of_nth; [rewrite !tab_length; reflexivity|].
  intros i Hi. rewrite tab_length in Hi. rewrite !nth_tab by exact Hi. apply H. exact Hi.
Qed.
Lemma veq_flat_tab c f g a r :
  (forall s i, (a <= s < a + r)%nat -> (i < c)%nat -> f s i == g s i) ->
  veq (flat_map (fun s => tab c (f s)) (seq a r)) (flat_map (fun s => tab c (g s)) (seq a r)).
Proof.
  revert a; induction r; intros a H; cbn [seq flat_map]; [constructor|].
  apply veq_app; [apply veq_tab; intros i Hi; apply H; lia|apply IHr; intros s i Hs Hi; apply H; lia].
Qed.
Lemma veq_tab2 r c f g : (forall s i, (s < r)%nat -> (i < c)%nat -> f s i == g s i) -> veq (tab2 r c f) (tab2 r c g).
Proof. intros H. apply veq_flat_tab. intros s i Hs Hi. apply H; lia. Qed.
Lemma ztab_full n m f : (n <= m)%nat -> veq (ztab n m f) (tab n f).
Proof.
  intros H. unfold ztab. apply veq_tab. intros i Hi.
  replace (Nat.ltb i m) with true by (symmetry; apply Nat.ltb_lt; lia). reflexivity.
Qed.
Lemma vnth_slice_to n k (V : vec) : (k < n)%nat -> vnth k (slice_to n V) = vnth k V.
Proof.
  unfold vnth, slice_to. revert k V; induction n; intros k V H; [lia|].
  destruct V as [|x V]; [destruct k; reflexivity|]. destruct k; [reflexivity|]. cbn. apply IHn. lia.
Qed.
Lemma vnth_slice_from n k (V : vec) : vnth k (slice_from n V) = vnth (n + k) V.
Proof.
  unfold vnth, slice_from. revert V; induction n; intros V; [reflexivity|].
  destruct V as [|x V]; [destruct k; reflexivity|]. cbn. apply IHn.
Qed.

(* ---------------- individual based ---------------- *)
Theorem gen_dSIS_individual_based Y t G nodelist idx tr rc :
  length Y = length nodelist ->
  veq (g_dSIS_individual_based Y t G nodelist idx tr rc) (dSIS_individual_based G nodelist idx tr rc Y t).
Proof.
  intros HL. unfold g_dSIS_individual_based, dSIS_individual_based, nN. cbv zeta.
  etransitivity; [apply ztab_full; rewrite HL; lia|].
  apply veq_tab. intros i Hi. unfold ibSIS_dY, node_at. reflexivity.
Qed.
Theorem gen_dSIR_individual_based V t G nodelist idx tr rc :
  length V = (2 * length nodelist)%nat ->
  veq (g_dSIR_individual_based V t G nodelist idx tr rc) (dSIR_individual_based G nodelist idx tr rc V t).
Proof.
  intros HL. unfold g_dSIR_individual_based, dSIR_individual_based, nN. cbv zeta.
  set (N := length nodelist) in *.
  assert (L1 : length (slice_to N V) = N) by (unfold slice_to; rewrite firstn_length; lia).
  assert (L2 : length (slice_from N V) = N) by (unfold slice_from; rewrite skipn_length; lia).
  assert (EX : forall i, (i < N)%nat ->
     - vnth i (slice_to N V) * sumQ (map (fun nbr => tr (nth i nodelist 0%N) nbr * vnth (idx nbr) (slice_from N V)) (gadj G (nth i nodelist 0%N)))
     == ibSIR_dX G nodelist idx tr V i).
  { intros i Hi. unfold ibSIR_dX, node_at, nN. fold N. rewrite vnth_slice_to by exact Hi.
    apply Qmult_comp; [reflexivity|]. apply sum_map_ext. intros v _. rewrite vnth_slice_from. reflexivity. }
  apply veq_app.
  - etransitivity; [apply ztab_full; rewrite L1, L2; lia|]. apply veq_tab. intros i Hi. apply EX. exact Hi.
  - etransitivity; [apply ztab_full; rewrite L1, L2; lia|]. apply veq_tab. intros i Hi.
    unfold ibSIR_dY. rewrite <- (EX i Hi). unfold node_at, nN. fold N. rewrite vnth_slice_from. reflexivity.
Qed.

(* ---------------- effective degree ---------------- *)
Lemma cell_in r c s i : (s < r)%nat -> (i < c)%nat -> (s * c + i < r * c)%nat.
Proof. intros. nia. Qed.

Theorem gen_dSIS_effective_degree X t r c tau gamma :
  veq (g_dSIS_effective_degree X t (r, c) tau gamma) (dSIS_effective_degree X r c tau gamma t).
Proof.
  unfold g_dSIS_effective_degree, dSIS_effective_degree. cbv zeta. cbn [fst snd].
  set (Ssi := slice_to (r * c) X). set (Isi := slice_from (r * c) X).
  assert (ES : forall s i, (s < r)%nat -> (i < c)%nat -> vnth (s * c + i) Ssi = es_S X c s i)
    by (intros s i Hs Hi; unfold Ssi, es_S; apply vnth_slice_to; apply cell_in; assumption).
  assert (EI : forall s i, vnth (s * c + i) Isi = es_I X r c s i)
    by (intros s i; unfold Isi, es_I; rewrite vnth_slice_from; f_equal; lia).
  assert (E1 : sumn r (fun s => sumn c (fun i => Qnat i * Qnat s * vnth (s * c + i) Ssi)) == es_ISS X r c)
    by (unfold es_ISS; apply sumn2_ext; intros s i Hs Hi; rewrite ES by assumption; reflexivity).
  assert (E2 : sumn r (fun s => sumn c (fun i => Qnat s * vnth (s * c + i) Ssi)) == es_SS X r c)
    by (unfold es_SS; apply sumn2_ext; intros s i Hs Hi; rewrite ES by assumption; reflexivity).
  assert (E3 : sumn r (fun s => sumn c (fun i => Qnat i * (Qnat i - 1) * vnth (s * c + i) Ssi)) == es_ISI X r c)
    by (unfold es_ISI; apply sumn2_ext; intros s i Hs Hi; rewrite ES by assumption; reflexivity).
  assert (E4 : sumn r (fun s => sumn c (fun i => Qnat i * vnth (s * c + i) Ssi)) == es_SI X r c)
    by (unfold es_SI; apply sumn2_ext; intros s i Hs Hi; rewrite ES by assumption; reflexivity).
  assert (M1 : forall s i, (s < r)%nat -> (i < c)%nat ->
     (if (Nat.eqb s 0 || Nat.eqb (i + 1) c)%bool then 0 else vnth ((s - 1) * c + (i + 1)) Ssi) = sm1ip1 c (es_S X c) s i).
  { intros s i Hs Hi. unfold sm1ip1. destruct (Nat.eqb s 0) eqn:A1; [reflexivity|]. destruct (Nat.eqb (i + 1) c) eqn:A2; [reflexivity|].
    cbn [orb]. apply Nat.eqb_neq in A1, A2. apply ES; lia. }
  assert (M2 : forall s i, (if (Nat.eqb s 0 || Nat.eqb (i + 1) c)%bool then 0 else vnth ((s - 1) * c + (i + 1)) Isi) = sm1ip1 c (es_I X r c) s i).
  { intros s i. unfold sm1ip1. destruct (Nat.eqb s 0 || Nat.eqb (i + 1) c)%bool; [reflexivity|]. apply EI. }
  assert (M3 : forall s i, (s < r)%nat -> (i < c)%nat ->
     (if (Nat.eqb i 0 || Nat.eqb (s + 1) r)%bool then 0 else vnth ((s + 1) * c + (i - 1)) Ssi) = sp1im1 r (es_S X c) s i).
  { intros s i Hs Hi. unfold sp1im1. destruct (Nat.eqb i 0) eqn:A1; [reflexivity|]. destruct (Nat.eqb (s + 1) r) eqn:A2; [reflexivity|].
    cbn [orb]. apply Nat.eqb_neq in A1, A2. apply ES; lia. }
  assert (M4 : forall s i, (if (Nat.eqb i 0 || Nat.eqb (s + 1) r)%bool then 0 else vnth ((s + 1) * c + (i - 1)) Isi) = sp1im1 r (es_I X r c) s i).
  { intros s i. unfold sp1im1. destruct (Nat.eqb i 0 || Nat.eqb (s + 1) r)%bool; [reflexivity|]. apply EI. }
  apply veq_app; apply veq_tab2; intros s i Hs Hi.
  - rewrite (M1 s i Hs Hi), (M3 s i Hs Hi), (ES s i Hs Hi), EI, E1, E2. unfold es_dS. reflexivity.
  - rewrite M2, M4, (ES s i Hs Hi), EI, E3, E4. unfold es_dI. reflexivity.
Qed.

Lemma vsum_as_sumn2 r c (l : vec) : length l = (r * c)%nat -> vsum l == sumn2 r c (fun s i => vnth (s * c + i) l).
Proof.
  intros HL. rewrite <- vsum_tab2. apply vsum_veq. apply veq_of_nth; [rewrite tab2_length; exact HL|].
  intros k Hk. rewrite HL in Hk.
  destruct c as [|c']; [lia|]. set (c := S c') in *.
  assert (Hs : (k / c < r)%nat) by (apply Nat.div_lt_upper_bound; lia).
  assert (Hi : (k mod c < c)%nat) by (apply Nat.mod_upper_bound; lia).
  assert (Ek : k = (k / c * c + k mod c)%nat) by (rewrite Nat.mul_comm; apply Nat.div_mod; lia).
  rewrite Ek at 2. rewrite nth_tab2 by assumption. unfold vnth. rewrite <- Ek. reflexivity.
Qed.

Theorem gen_dSIR_effective_degree X t N r c tau gamma :
  length X = (r * c + 1)%nat ->
  veq (g_dSIR_effective_degree X t N (r, c) tau gamma) (dSIR_effective_degree X N r c tau gamma t).
Proof.
  intros HL. unfold g_dSIR_effective_degree, dSIR_effective_degree. cbv zeta. cbn [fst snd].
  set (Ssi := drop_last 1 X).
  assert (LS : length Ssi = (r * c)%nat) by (unfold Ssi, drop_last; rewrite firstn_length; lia).
  assert (ES : forall s i, (s < r)%nat -> (i < c)%nat -> vnth (s * c + i) Ssi = er_S X c s i).
  { intros s i Hs Hi. unfold Ssi, er_S, drop_last. rewrite HL. replace (r * c + 1 - 1)%nat with (r * c)%nat by lia.
    apply (vnth_slice_to (r * c)). apply cell_in; assumption. }
  assert (E1 : sumn r (fun s => sumn c (fun i => Qnat i * Qnat s * vnth (s * c + i) Ssi)) == er_ISS X r c)
    by (unfold er_ISS; apply sumn2_ext; intros s i Hs Hi; rewrite ES by assumption; reflexivity).
  assert (E2 : sumn r (fun s => sumn c (fun i => Qnat s * vnth (s * c + i) Ssi)) == er_SS X r c)
    by (unfold er_SS; apply sumn2_ext; intros s i Hs Hi; rewrite ES by assumption; reflexivity).
  assert (M1 : forall s i, (s < r)%nat -> (i < c)%nat ->
     (if Nat.eqb (i + 1) c then 0 else vnth (s * c + (i + 1)) Ssi) = sip1 c (er_S X c) s i).
  { intros s i Hs Hi. unfold sip1. destruct (Nat.eqb (i + 1) c) eqn:A2; [reflexivity|]. apply Nat.eqb_neq in A2. apply ES; lia. }
  assert (M3 : forall s i, (s < r)%nat -> (i < c)%nat ->
     (if (Nat.eqb (s + 1) r || Nat.eqb i 0)%bool then 0 else vnth ((s + 1) * c + (i - 1)) Ssi) = sp1im1 r (er_S X c) s i).
  { intros s i Hs Hi. unfold sp1im1. rewrite orb_comm. destruct (Nat.eqb i 0) eqn:A1; [reflexivity|]. destruct (Nat.eqb (s + 1) r) eqn:A2; [reflexivity|].
    cbn [orb]. apply Nat.eqb_neq in A1, A2. apply ES; lia. }
  apply veq_app.
  - apply veq_tab2. intros s i Hs Hi. rewrite (M1 s i Hs Hi), (M3 s i Hs Hi), (ES s i Hs Hi), E1, E2. unfold er_dS. reflexivity.
  - constructor; [|constructor]. unfold er_dR, er_Stot, er_R.
    rewrite (vsum_as_sumn2 r c Ssi LS).
    rewrite (sumn2_ext r c (fun s i => vnth (s * c + i) Ssi) (er_S X c)) by (intros s i Hs Hi; rewrite ES by assumption; reflexivity).
    rewrite HL. replace (r * c + 1 - 1)%nat with (r * c)%nat by lia. reflexivity.
Qed.

(* ---------------- heterogeneous pairwise ---------------- *)
Lemma vnth_slice a b k (V : vec) : (k < b - a)%nat -> vnth k (slice a b V) = vnth (a + k) V.
Proof. intros H. unfold slice. change (firstn (b - a) (skipn a V)) with (slice_to (b - a) (slice_from a V)). rewrite vnth_slice_to by exact H. apply vnth_slice_from. Qed.

Theorem gen_dSIS_heterogeneous_pairwise X t Nk NkNl tau gamma Ks :
  length Nk = length Ks ->
  veq (g_dSIS_heterogeneous_pairwise X t Nk NkNl tau gamma Ks) (dSIS_heterogeneous_pairwise X Nk NkNl tau gamma Ks t).
Proof.
  intros LN. unfold g_dSIS_heterogeneous_pairwise, dSIS_heterogeneous_pairwise, hs_kc. cbv zeta. rewrite LN.
  set (kc := length Ks).
  set (Sk := slice_to kc X). set (SkSl := slice kc (kc + kc * kc) X). set (SkIl := slice (kc + kc * kc) (kc + 2 * (kc * kc)) X).
  assert (A1 : forall i, (i < kc)%nat -> vnth i Sk = hs_Sk X i) by (intros i Hi; unfold Sk, hs_Sk; apply vnth_slice_to; exact Hi).
  assert (A2 : forall i j, (i < kc)%nat -> (j < kc)%nat -> vnth (i * kc + j) SkSl = hs_SkSl X Ks i j).
  { intros i j Hi Hj. unfold SkSl, hs_SkSl, hs_kc. fold kc. rewrite vnth_slice by nia. f_equal. lia. }
  assert (A3 : forall i j, (i < kc)%nat -> (j < kc)%nat -> vnth (i * kc + j) SkIl = hs_SkIl X Ks i j).
  { intros i j Hi Hj. unfold SkIl, hs_SkIl, hs_kc. fold kc. rewrite vnth_slice by nia. f_equal. lia. }
  assert (A4 : forall i, (i < kc)%nat -> sumn kc (fun j_ => vnth (i * kc + j_) SkIl) == hs_SkI X Ks i)
    by (intros i Hi; unfold hs_SkI, hs_kc; fold kc; apply sumn_ext; intros j Hj; rewrite A3 by assumption; reflexivity).
  apply veq_app; [|apply veq_app].
  - apply veq_tab. intros i Hi. cbv beta. rewrite (A4 i Hi), (A1 i Hi). unfold hs_dSk, hs_Ik. reflexivity.
  - apply veq_tab2. intros i j Hi Hj. cbv beta.
    rewrite (A4 i Hi), (A4 j Hj), (A1 i Hi), (A1 j Hj), (A2 i j Hi Hj), (A2 j i Hj Hi), (A3 i j Hi Hj), (A3 j i Hj Hi).
    unfold hs_dSkSl, hs_SkSlI, hs_kxSk, Qdiv. ring.
  - apply veq_tab2. intros i j Hi Hj. cbv beta.
    rewrite (A4 i Hi), (A4 j Hj), (A1 i Hi), (A1 j Hj), (A2 i j Hi Hj), (A3 i j Hi Hj), (A3 j i Hj Hi).
    unfold hs_dSkIl, hs_IkIl, hs_SkSlI, hs_ISkIl, hs_kxSk, hs_kc, Qdiv. fold kc. ring.
Qed.

Theorem gen_dSIR_heterogeneous_pairwise X t tau gamma Nk Ks :
  veq (g_dSIR_heterogeneous_pairwise X t tau gamma Nk Ks) (dSIR_heterogeneous_pairwise X tau gamma Ks t).
Proof.
  unfold g_dSIR_heterogeneous_pairwise, dSIR_heterogeneous_pairwise, hr_kc. cbv zeta.
  set (kc := length Ks).
  set (Sk := slice_to kc X). set (Ik := slice kc (2 * kc) X).
  set (SkSl := slice (2 * kc) (2 * kc + kc * kc) X). set (SkIl := slice (2 * kc + kc * kc) (2 * kc + 2 * (kc * kc)) X).
  assert (A1 : forall i, (i < kc)%nat -> vnth i Sk = hr_Sk X i) by (intros i Hi; unfold Sk, hr_Sk; apply vnth_slice_to; exact Hi).
  assert (A0 : forall i, (i < kc)%nat -> vnth i Ik = hr_Ik X Ks i).
  { intros i Hi. unfold Ik, hr_Ik, hr_kc. fold kc. rewrite vnth_slice by lia. reflexivity. }
  assert (A2 : forall i j, (i < kc)%nat -> (j < kc)%nat -> vnth (i * kc + j) SkSl = hr_SkSl X Ks i j).
  { intros i j Hi Hj. unfold SkSl, hr_SkSl, hr_kc. fold kc. rewrite vnth_slice by nia. f_equal. lia. }
  assert (A3 : forall i j, (i < kc)%nat -> (j < kc)%nat -> vnth (i * kc + j) SkIl = hr_SkIl X Ks i j).
  { intros i j Hi Hj. unfold SkIl, hr_SkIl, hr_kc. fold kc. rewrite vnth_slice by nia. f_equal. lia. }
  assert (A4 : forall i, (i < kc)%nat -> sumn kc (fun j_ => vnth (i * kc + j_) SkIl) == hr_SkI X Ks i)
    by (intros i Hi; unfold hr_SkI, hr_kc; fold kc; apply sumn_ext; intros j Hj; rewrite A3 by assumption; reflexivity).
  apply veq_app; [|apply veq_app; [|apply veq_app]].
  - apply veq_tab. intros i Hi. cbv beta. rewrite (A4 i Hi). unfold hr_dSk. reflexivity.
  - apply veq_tab. intros i Hi. cbv beta. rewrite (A4 i Hi), (A0 i Hi). unfold hr_dIk. reflexivity.
  - apply veq_tab2. intros i j Hi Hj. cbv beta.
    rewrite (A4 i Hi), (A4 j Hj), (A1 i Hi), (A1 j Hj), (A2 i j Hi Hj), (A2 j i Hj Hi).
    unfold hr_dSkSl, hr_SkSlI, hr_den, Qdiv. ring.
  - apply veq_tab2. intros i j Hi Hj. cbv beta.
    rewrite (A4 i Hi), (A4 j Hj), (A1 i Hi), (A1 j Hj), (A2 i j Hi Hj), (A3 i j Hi Hj).
    unfold hr_dSkIl, hr_SkSlI, hr_ISkIl, hr_den, Qdiv. ring.
Qed.

(* ---------------- pair based ---------------- *)
Lemma inv0_alt v : (if negb (Qeqb v 0) then 1 / v else 0) = inv0 v.
Proof. unfold inv0. destruct (Qeqb v 0); reflexivity. Qed.
Lemma sumQ_single {A} (F : A -> Q) x : sumQ (map F [x]) == F x.
Proof. cbn [map]. rewrite sumQ_cons, sumQ_nil. ring. Qed.

Section Accum.
Variables (G : graph) (nodelist : list node) (idx : node -> nat).
Notation N_ := (nN nodelist).
Notation nd := (node_at nodelist).

(* what every caller establishes: index_of_node = {node: i for i, node in enumerate(nodelist)} over the nodes of a simple graph *)
Definition pb_wfb : bool :=
  Nat.eqb (length (gnodes G)) N_ &&
  forallb (fun i => Nat.eqb (idx (nd i)) i && nodupb (gadj G (nd i)) &&
                    forallb (fun v => Nat.ltb (idx v) N_ && N.eqb (nd (idx v)) v) (gadj G (nd i))) (seq 0 N_).
Lemma pb_wf_spec : pb_wfb = true ->
  length (gnodes G) = N_ /\
  forall i, (i < N_)%nat -> idx (nd i) = i /\ nodupb (gadj G (nd i)) = true /\
    forall v, In v (gadj G (nd i)) -> (idx v < N_)%nat /\ nd (idx v) = v.
Proof.
  unfold pb_wfb. intros H. apply andb_prop in H. destruct H as [H0 H]. apply Nat.eqb_eq in H0. split; [exact H0|].
  intros i Hi. rewrite forallb_forall in H. specialize (H i). rewrite in_seq in H. specialize (H ltac:(lia)).
  apply andb_prop in H. destruct H as [H12 H3]. apply andb_prop in H12. destruct H12 as [H1 H2]. apply Nat.eqb_eq in H1.
  repeat split; try assumption; rewrite forallb_forall in H3; specialize (H3 v H); apply andb_prop in H3; destruct H3 as [A B].
  - apply Nat.ltb_lt. exact A.
  - apply N.eqb_eq. exact B.
Qed.

Lemma filter_idx_none (l : list node) b p d :
  (forall i, (i < length l)%nat -> idx (nth i l d) = (b + i)%nat) -> (p < b)%nat -> filter (fun u => Nat.eqb (idx u) p) l = [].
Proof.
  revert b; induction l as [|x l IH]; intros b H Hp; [reflexivity|]. cbn [filter].
  assert (E : idx x = b) by (rewrite <- (Nat.add_0_r b); apply (H 0%nat); cbn; lia).
  replace (Nat.eqb (idx x) p) with false by (symmetry; apply Nat.eqb_neq; lia).
  apply (IH (S b)); [|lia]. intros i Hi. replace (S b + i)%nat with (b + S i)%nat by lia. apply (H (S i)). cbn; lia.
Qed.
Lemma filter_idx_one (l : list node) a p d :
  (forall i, (i < length l)%nat -> idx (nth i l d) = (a + i)%nat) -> (a <= p < a + length l)%nat ->
  filter (fun u => Nat.eqb (idx u) p) l = [nth (p - a) l d].
Proof.
  revert a; induction l as [|x l IH]; intros a H Hp; [cbn in Hp; lia|]. cbn [filter].
  assert (E : idx x = a) by (rewrite <- (Nat.add_0_r a); apply (H 0%nat); cbn; lia).
  assert (Ht : forall i, (i < length l)%nat -> idx (nth i l d) = (S a + i)%nat)
    by (intros i Hi; replace (S a + i)%nat with (a + S i)%nat by lia; apply (H (S i)); cbn; lia).
  destruct (Nat.eqb_spec (idx x) p) as [Ep|Ep].
  - rewrite (filter_idx_none l (S a) p d Ht) by lia. replace (p - a)%nat with 0%nat by lia. reflexivity.
  - rewrite (IH (S a) Ht) by (cbn [length] in Hp; lia). replace (p - a)%nat with (S (p - S a)) by lia. reflexivity.
Qed.
Lemma filter_nodelist p : pb_wfb = true -> (p < N_)%nat -> filter (fun u => Nat.eqb (idx u) p) nodelist = [nd p].
Proof.
  intros W Hp. destruct (pb_wf_spec W) as [_ H].
  rewrite (filter_idx_one nodelist 0 p 0%N); [rewrite Nat.sub_0_r; reflexivity| |unfold nN in Hp; lia].
  intros i Hi. apply (H i). exact Hi.
Qed.
Lemma filter_adj (l : list node) q :
  nodupb l = true -> (forall v, In v l -> nd (idx v) = v) -> idx (nd q) = q ->
  filter (fun v => Nat.eqb (idx v) q) l = if mem (nd q) l then [nd q] else [].
Proof.
  intros Hn Hv Hq. induction l as [|x l IH]; [reflexivity|].
  cbn [nodupb] in Hn. apply andb_prop in Hn. destruct Hn as [Hx Hn]. apply negb_true_iff in Hx.
  assert (IH' := IH Hn (fun v Hin => Hv v (or_intror Hin))). cbn [filter]. rewrite mem_cons.
  destruct (Nat.eqb_spec (idx x) q) as [E|E].
  - assert (Ex : x = nd q) by (rewrite <- E; symmetry; apply Hv; left; reflexivity).
    rewrite IH'. rewrite <- Ex, Hx, N.eqb_refl. reflexivity.
  - assert (Ex : N.eqb (nd q) x = false) by (apply N.eqb_neq; intro C; apply E; rewrite <- C; exact Hq).
    rewrite Ex. cbn [orb]. exact IH'.
Qed.
End Accum.

Section PairBasedGen.
Variables (G : graph) (nodelist : list node) (idx : node -> nat) (tr : node -> node -> Q) (rc : node -> Q).
Notation N_ := (nN nodelist).
Notation nd := (node_at nodelist).
Hypothesis W : pb_wfb G nodelist idx = true.

Lemma wf_idx p : (p < N_)%nat -> idx (nd p) = p.
Proof. intros Hp. destruct (pb_wf_spec _ _ _ W) as [_ H]. apply (H p Hp). Qed.
Lemma wf_nbr p v : (p < N_)%nat -> In v (gadj G (nd p)) -> (idx v < N_)%nat.
Proof. intros Hp Hv. destruct (pb_wf_spec _ _ _ W) as [_ H]. destruct (H p Hp) as [_ [_ H3]]. apply (H3 v Hv). Qed.
Lemma wf_filter_adj p q : (p < N_)%nat -> (q < N_)%nat ->
  filter (fun v => Nat.eqb (idx v) q) (gadj G (nd p)) = if is_edge G nodelist p q then [nd q] else [].
Proof.
  intros Hp Hq. destruct (pb_wf_spec _ _ _ W) as [_ H]. destruct (H p Hp) as [_ [H2 H3]].
  unfold is_edge. apply filter_adj; [exact H2|intros v Hv; apply (H3 v Hv)|apply wf_idx; exact Hq].
Qed.

Theorem gen_dSIR_pair_based V t :
  veq (g_dSIR_pair_based V t G nodelist idx tr rc) (dSIR_pair_based G nodelist idx tr rc V t).
Proof.
  destruct (pb_wf_spec _ _ _ W) as [LG _].
  unfold g_dSIR_pair_based, dSIR_pair_based. cbv zeta. rewrite LG. set (N := N_) in *.
  set (Xs := slice 0 N V). set (Ys := slice N (2 * N) V).
  set (XYs := slice (2 * N) (2 * N + N * N) V). set (XXs := slice_from (2 * N + N * N) V).
  assert (AX : forall i, (i < N)%nat -> vnth i Xs = prX V i) by (intros i Hi; unfold Xs, prX; rewrite vnth_slice by lia; reflexivity).
  assert (AY : forall i, (i < N)%nat -> vnth i Ys = prY nodelist V i) by (intros i Hi; unfold Ys, prY; rewrite vnth_slice by lia; reflexivity).
  assert (AXY : forall i j, (i < N)%nat -> (j < N)%nat -> vnth (i * N + j) XYs = prXY nodelist V i j).
  { intros i j Hi Hj. unfold XYs, prXY. fold N. rewrite vnth_slice by nia. f_equal. lia. }
  assert (AXX : forall i j, vnth (i * N + j) XXs = prXX nodelist V i j).
  { intros i j. unfold XXs, prXX. fold N. rewrite vnth_slice_from. f_equal. lia. }
  assert (AI : forall i, (i < N)%nat -> (fun v_v => if negb (Qeqb v_v 0) then 1 / v_v else 0) (vnth i Xs) = inv0 (prX V i))
    by (intros i Hi; cbv beta; rewrite inv0_alt, AX by exact Hi; reflexivity).
  (* the sum over the neighbours of u = nd p of tr u v * XY[p, idx v] *)
  assert (SXY : forall p, (p < N)%nat ->
     sumQ (map (fun v => tr (nd p) v * vnth (p * N + idx v) XYs) (gadj G (nd p)))
     == sumQ (map (fun v => tr (nd p) v * prXY nodelist V p (idx v)) (gadj G (nd p)))).
  { intros p Hp. apply sum_map_ext. intros v Hv. rewrite AXY by (try exact Hp; apply (wf_nbr p v Hp Hv)). reflexivity. }
  apply veq_app; [|apply veq_app; [|apply veq_app]].
  - (* dX *)
    apply veq_tab. intros p Hp. cbv beta. rewrite (filter_nodelist _ _ _ p W Hp), sumQ_single. cbv zeta. rewrite (wf_idx p Hp).
    unfold pbSIR_dX. cbv zeta. apply sum_map_ext. intros v Hv. rewrite AXY by (try exact Hp; apply (wf_nbr p v Hp Hv)). reflexivity.
  - (* dY *)
    apply veq_tab. intros p Hp. cbv beta. rewrite (filter_nodelist _ _ _ p W Hp), sumQ_single. cbv zeta. rewrite (wf_idx p Hp).
    unfold pbSIR_dY. cbv zeta. rewrite (AY p Hp), (SXY p Hp). reflexivity.
  - (* dXY *)
    apply veq_tab2. intros p q Hp Hq. cbv beta. rewrite (filter_nodelist _ _ _ p W Hp), sumQ_single. cbv zeta.
    rewrite (wf_idx p Hp), (wf_filter_adj p q Hp Hq). unfold pbSIR_dXY. cbv zeta.
    destruct (is_edge G nodelist p q) eqn:He; [|reflexivity].
    rewrite sumQ_single. cbv zeta. rewrite (wf_idx q Hq), (AXY p q Hp Hq).
    assert (T1 : sumQ (map (fun w => tr (nd q) w * vnth (p * N + q) XXs * vnth (q * N + idx w) XYs * (fun v_v => if negb (Qeqb v_v 0) then 1 / v_v else 0) (vnth q Xs))
                           (filter (fun w => negb (N.eqb w (nd p))) (gadj G (nd q))))
                 == triples_in G nodelist idx tr (fun k => inv0 (prX V k)) (prXY nodelist V) (prXX nodelist V) p q).
    { unfold triples_in, others. cbv zeta. apply sum_map_ext. intros w Hw. apply filter_In in Hw. destruct Hw as [Hw _].
      rewrite AXX, (AI q Hq), AXY by (try exact Hq; apply (wf_nbr q w Hq Hw)). reflexivity. }
    assert (T2 : sumQ (map (fun w => - tr (nd p) w * vnth (p * N + idx w) XYs * prXY nodelist V p q * (fun v_v => if negb (Qeqb v_v 0) then 1 / v_v else 0) (vnth p Xs))
                           (filter (fun w => negb (N.eqb w (nd q))) (gadj G (nd p))))
                 == - triples_out G nodelist idx tr (fun k => inv0 (prX V k)) (prXY nodelist V) (prXY nodelist V) p q).
    { unfold triples_out, others. cbv zeta. rewrite <- sum_map_opp. apply sum_map_ext. intros w Hw. apply filter_In in Hw. destruct Hw as [Hw _].
      rewrite (AI p Hp), AXY by (try exact Hp; apply (wf_nbr p w Hp Hw)). ring. }
    rewrite T1, T2. ring.
  - (* dXX *)
    apply veq_tab2. intros p q Hp Hq. cbv beta. rewrite (filter_nodelist _ _ _ p W Hp), sumQ_single. cbv zeta.
    rewrite (wf_idx p Hp), (wf_filter_adj p q Hp Hq). unfold pbSIR_dXX. cbv zeta.
    destruct (is_edge G nodelist p q) eqn:He; [|reflexivity].
    rewrite sumQ_single. cbv zeta. rewrite (wf_idx q Hq).
    assert (T1 : sumQ (map (fun w => - tr (nd q) w * vnth (p * N + q) XXs * vnth (q * N + idx w) XYs * (fun v_v => if negb (Qeqb v_v 0) then 1 / v_v else 0) (vnth q Xs))
                           (filter (fun w => negb (N.eqb w (nd p))) (gadj G (nd q))))
                 == - triples_in G nodelist idx tr (fun k => inv0 (prX V k)) (prXY nodelist V) (prXX nodelist V) p q).
    { unfold triples_in, others. cbv zeta. rewrite <- sum_map_opp. apply sum_map_ext. intros w Hw. apply filter_In in Hw. destruct Hw as [Hw _].
      rewrite AXX, (AI q Hq), AXY by (try exact Hq; apply (wf_nbr q w Hq Hw)). ring. }
    assert (T2 : sumQ (map (fun w => - tr (nd p) w * vnth (p * N + idx w) XYs * vnth (p * N + q) XXs * (fun v_v => if negb (Qeqb v_v 0) then 1 / v_v else 0) (vnth p Xs))
                           (filter (fun w => negb (N.eqb w (nd q))) (gadj G (nd p))))
                 == - triples_out G nodelist idx tr (fun k => inv0 (prX V k)) (prXY nodelist V) (prXX nodelist V) p q).
    { unfold triples_out, others. cbv zeta. rewrite <- sum_map_opp. apply sum_map_ext. intros w Hw. apply filter_In in Hw. destruct Hw as [Hw _].
      rewrite AXX, (AI p Hp), AXY by (try exact Hp; apply (wf_nbr p w Hp Hw)). ring. }
    rewrite T1, T2. ring.
Qed.

Theorem gen_dSIS_pair_based V t :
  veq (g_dSIS_pair_based V t G nodelist idx tr rc) (dSIS_pair_based G nodelist idx tr rc V t).
Proof.
  destruct (pb_wf_spec _ _ _ W) as [LG _].
  unfold g_dSIS_pair_based, dSIS_pair_based. cbv zeta. rewrite LG. set (N := N_) in *.
  set (Ys := slice 0 N V). set (XYs := slice N (N + N * N) V). set (XXs := slice_from (N + N * N) V).
  assert (AY : forall i, (i < N)%nat -> vnth i Ys = psY V i) by (intros i Hi; unfold Ys, psY; rewrite vnth_slice by lia; reflexivity).
  assert (AXY : forall i j, (i < N)%nat -> (j < N)%nat -> vnth (i * N + j) XYs = psXY nodelist V i j).
  { intros i j Hi Hj. unfold XYs, psXY. fold N. rewrite vnth_slice by nia. f_equal. lia. }
  assert (AXX : forall i j, vnth (i * N + j) XXs = psXX nodelist V i j).
  { intros i j. unfold XXs, psXX. fold N. rewrite vnth_slice_from. f_equal. lia. }
  assert (AI : forall i, (i < N)%nat -> (fun v_v => if negb (Qeqb v_v 0) then 1 / v_v else 0) (1 - vnth i Ys) = inv0 (psX V i))
    by (intros i Hi; cbv beta; rewrite inv0_alt, AY by exact Hi; reflexivity).
  apply veq_app; [|apply veq_app].
  - (* dY *)
    apply veq_tab. intros p Hp. cbv beta. rewrite (filter_nodelist _ _ _ p W Hp), sumQ_single. cbv zeta. rewrite (wf_idx p Hp).
    unfold pbSIS_dY. cbv zeta. rewrite (AY p Hp). apply Qplus_comp; [reflexivity|].
    apply sum_map_ext. intros v Hv. rewrite AXY by (try exact Hp; apply (wf_nbr p v Hp Hv)). reflexivity.
  - (* dXY *)
    apply veq_tab2. intros p q Hp Hq. cbv beta. rewrite (filter_nodelist _ _ _ p W Hp), sumQ_single. cbv zeta.
    rewrite (wf_idx p Hp), (wf_filter_adj p q Hp Hq). unfold pbSIS_dXY. cbv zeta.
    destruct (is_edge G nodelist p q) eqn:He; [|reflexivity].
    rewrite sumQ_single. cbv zeta. rewrite (wf_idx q Hq), (AXY p q Hp Hq), (AXY q p Hq Hp), AXX.
    assert (T1 : sumQ (map (fun w => tr (nd q) w * psXX nodelist V p q * vnth (q * N + idx w) XYs * (fun v_v => if negb (Qeqb v_v 0) then 1 / v_v else 0) (1 - vnth q Ys))
                           (filter (fun w => negb (N.eqb w (nd p))) (gadj G (nd q))))
                 == triples_in G nodelist idx tr (fun k => inv0 (psX V k)) (psXY nodelist V) (psXX nodelist V) p q).
    { unfold triples_in, others. cbv zeta. apply sum_map_ext. intros w Hw. apply filter_In in Hw. destruct Hw as [Hw _].
      rewrite (AI q Hq), AXY by (try exact Hq; apply (wf_nbr q w Hq Hw)). reflexivity. }
    assert (T2 : sumQ (map (fun w => - tr (nd p) w * vnth (p * N + idx w) XYs * psXY nodelist V p q * (fun v_v => if negb (Qeqb v_v 0) then 1 / v_v else 0) (1 - vnth p Ys))
                           (filter (fun w => negb (N.eqb w (nd q))) (gadj G (nd p))))
                 == - triples_out G nodelist idx tr (fun k => inv0 (psX V k)) (psXY nodelist V) (psXY nodelist V) p q).
    { unfold triples_out, others. cbv zeta. rewrite <- sum_map_opp. apply sum_map_ext. intros w Hw. apply filter_In in Hw. destruct Hw as [Hw _].
      rewrite (AI p Hp), AXY by (try exact Hp; apply (wf_nbr p w Hp Hw)). ring. }
    rewrite T1, T2. unfold psYY. ring.
  - (* dXX *)
    apply veq_tab2. intros p q Hp Hq. cbv beta. rewrite (filter_nodelist _ _ _ p W Hp), sumQ_single. cbv zeta.
    rewrite (wf_idx p Hp), (wf_filter_adj p q Hp Hq). unfold pbSIS_dXX. cbv zeta.
    destruct (is_edge G nodelist p q) eqn:He; [|reflexivity].
    rewrite sumQ_single. cbv zeta. rewrite (wf_idx q Hq), (AXY p q Hp Hq), (AXY q p Hq Hp).
    assert (T1 : sumQ (map (fun w => - tr (nd q) w * vnth (p * N + q) XXs * vnth (q * N + idx w) XYs * (fun v_v => if negb (Qeqb v_v 0) then 1 / v_v else 0) (1 - vnth q Ys))
                           (filter (fun w => negb (N.eqb w (nd p))) (gadj G (nd q))))
                 == - triples_in G nodelist idx tr (fun k => inv0 (psX V k)) (psXY nodelist V) (psXX nodelist V) p q).
    { unfold triples_in, others. cbv zeta. rewrite <- sum_map_opp. apply sum_map_ext. intros w Hw. apply filter_In in Hw. destruct Hw as [Hw _].
      rewrite AXX, (AI q Hq), AXY by (try exact Hq; apply (wf_nbr q w Hq Hw)). ring. }
    assert (T2 : sumQ (map (fun w => - tr (nd p) w * vnth (p * N + idx w) XYs * vnth (p * N + q) XXs * (fun v_v => if negb (Qeqb v_v 0) then 1 / v_v else 0) (1 - vnth p Ys))
                           (filter (fun w => negb (N.eqb w (nd q))) (gadj G (nd p))))
                 == - triples_out G nodelist idx tr (fun k => inv0 (psX V k)) (psXY nodelist V) (psXX nodelist V) p q).
    { unfold triples_out, others. cbv zeta. rewrite <- sum_map_opp. apply sum_map_ext. intros w Hw. apply filter_In in Hw. destruct Hw as [Hw _].
      rewrite AXX, (AI p Hp), AXY by (try exact Hp; apply (wf_nbr p w Hp Hw)). ring. }
    rewrite T1, T2. ring.
Qed.
End PairBasedGen.
