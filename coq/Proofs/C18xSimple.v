(* C18, Gillespie_simple_contagion: return_full_data only adds to the two logs
   (node_history, transmissions) and decides what is built after the loop; total rates,
   cascade cells, candidate sets and rows never read the logs.  So both modes make the same
   calls with the same arguments on every script and return the same arrays; the full-data
   mode can in addition fail in Simulation_Investigation's constructor (KeyErr / IndexErr
   when return_statuses does not cover the statuses met). *)
From EoNV Require Import Prelude Samp Graph ListDict Gillespie Simple FlagIndep C18xSim.

Definition same_core (s1 s2 : sst) : Prop :=
  s_stat s1 = s_stat s2 /\ s_sp s1 = s_sp s2 /\ s_in s1 = s_in s2 /\ s_rows s1 = s_rows s2.

(* r1 = result with full data, r2 = result in plain mode *)
Definition sflag_rel (r1 r2 : result simout) : Prop :=
  match r2 with
  | Ok o2 =>
      so_full o2 = None /\
      (r1 = Err KeyErr \/ r1 = Err IndexErr \/
       exists o1, r1 = Ok o1 /\ so_rows o1 = so_rows o2 /\ so_full o1 <> None)
  | Err e => r1 = Err e
  end.

Lemma sflag_rel_err : err_refl sflag_rel.
Proof. intro e. reflexivity. Qed.

Lemma lifts_leaf : forall A (r : result A), leaf (lifts r) = Some r.
Proof. intros A [a|e]; reflexivity. Qed.

Lemma lifts_simrel : forall (r1 r2 : result sst),
  rel_result same_core r1 r2 -> simrel same_core (lifts r1) (lifts r2).
Proof.
  intros [a|e1] [b|e2] H; cbn in H; try contradiction; cbn [lifts].
  - constructor. exact H.
  - subst e2. constructor.
Qed.

Section Flag.
Variable g : graph.
Variable ic : node -> N.
Variable rstat : list N.
Variable tmin : Q.
Variable tmax : xtime.

Lemma apply_event_flag : forall f1 f2 t sp tr actor s1 s2, same_core s1 s2 ->
  rel_result same_core (apply_event g rstat f1 t sp tr actor s1) (apply_event g rstat f2 t sp tr actor s2).
Proof.
  intros f1 f2 t sp tr actor s1 s2 [H1 [H2 [H3 H4]]]. unfold apply_event. rewrite H1, H2, H3, H4.
  match goal with |- rel_result _ (rbind ?r _) (rbind ?r _) => destruct r as [[[[src m] old] new]|e] end;
    cbn [rbind]; [|reflexivity].
  destruct (rmap _ (s_sp s2)) as [sp'|e]; cbn [rbind]; [|reflexivity].
  destruct (rmap _ (s_in s2)) as [in'|e]; cbn [rbind rel_result]; [|reflexivity].
  repeat split.
Qed.

Lemma fire_flag : forall f1 f2 t ia s1 s2, same_core s1 s2 ->
  rel_result same_core (fire g rstat f1 t s1 ia) (fire g rstat f2 t s2 ia).
Proof.
  intros f1 f2 t ia s1 s2 Hs. pose proof Hs as [H1 [H2 [H3 H4]]]. unfold fire. rewrite H2, H3.
  destruct (nth_error _ (fst ia)) as [sl|]; [|reflexivity]. apply apply_event_flag. exact Hs.
Qed.

Lemma jump_flag : forall f1 f2 t s1 s2, same_core s1 s2 ->
  simrel same_core (jump g rstat f1 t s1) (jump g rstat f2 t s2).
Proof.
  intros f1 f2 t s1 s2 Hs. pose proof Hs as [H1 [H2 [H3 H4]]]. unfold jump, select, total_rate. rewrite H2, H3.
  eapply simrel_bind; [apply simrel_refl|]. intros a b <-. apply lifts_simrel. apply fire_flag. exact Hs.
Qed.

Lemma finish_flag : forall s1 s2, same_core s1 s2 ->
  sflag_rel (finish g ic rstat tmin true s1) (finish g ic rstat tmin false s2).
Proof.
  intros s1 s2 [H1 [H2 [H3 H4]]]. unfold finish. cbn [sflag_rel so_full so_rows]. split; [reflexivity|].
  destruct (si_constructor rstat _) as [u|e] eqn:Hc; cbn [rbind].
  - right. right. eexists. split; [reflexivity|]. cbn [so_rows so_full]. rewrite H4. split; [reflexivity|discriminate].
  - unfold si_constructor in Hc. destruct (existsb _ _); [injection Hc as <-; left; reflexivity|].
    destruct (filter _ _); [injection Hc as <-; right; left; reflexivity|discriminate Hc].
Qed.

Lemma loop_flag : forall fuel t s1 s2, same_core s1 s2 ->
  simrelx sflag_rel (loop g ic rstat tmin tmax true fuel t s1) (loop g ic rstat tmin tmax false fuel t s2).
Proof.
  induction fuel as [|f IH]; intros t s1 s2 Hs; pose proof Hs as [H1 [H2 [H3 H4]]]; cbn [loop];
    unfold total_rate; rewrite H2, H3;
    (destruct (Qltb 0 _); [|eapply sx_leaf; [apply lifts_leaf|apply lifts_leaf|apply finish_flag; exact Hs]]);
    constructor; intro d;
    (destruct (xlt (t + d) tmax); [|eapply sx_leaf; [apply lifts_leaf|apply lifts_leaf|apply finish_flag; exact Hs]]).
  - eapply sx_leaf; [reflexivity|reflexivity|reflexivity].
  - eapply simrelx_bind; [exact sflag_rel_err|apply jump_flag; exact Hs|]. intros a b Hab. apply IH. exact Hab.
Qed.

End Flag.

(* Gillespie_simple_contagion: identical draws and identical arrays with and without
   return_full_data, for every graph, transition lists, IC, return_statuses, script *)
Theorem simple_flag_indep : forall g sortable spont induced ic rstat tmin tmax fuel ds,
  let r1 := exec (simple g sortable spont induced ic rstat tmin tmax true fuel) ds [] in
  let r2 := exec (simple g sortable spont induced ic rstat tmin tmax false fuel) ds [] in
  snd r1 = snd r2 /\ sflag_rel (fst r1) (fst r2).
Proof.
  intros. cbv zeta. apply simrelx_exec; [exact sflag_rel_err|]. unfold simple.
  destruct (rbind _ _) as [[sp inn]|e].
  - apply loop_flag. repeat split.
  - eapply sx_leaf; reflexivity.
Qed.
