(* Total mass.  A sampler program built from Ret / Fail / Flip / Unif only ([simple]) that has no
   reachable failure (Proofs/SampP.v [reach_err]) has total mass 1 under [law]; more generally,
   if an event f takes the same value b on every reachable result, its probability is [b].
   (A branch that is unreachable because p <= 0 or p >= 1 carries weight 0 under clamp01.)
   With Proofs/DiscreteSafe.v (no reachable failure when fuel > |nodes|): basic_discrete_SIR
   returns with probability 1 in BOTH return modes. *)
From EoNV Require Import Prelude Samp Graph Discrete DiscreteP SampP DiscreteRun DiscreteSafe DiscreteLawP.
From Coq Require Import Permutation Lqa.

Fixpoint simple {A} (m : samp A) : Prop :=
  match m with
  | Ret _ => True
  | Fail _ => True
  | Flip _ a b => simple a /\ simple b
  | Unif _ k => forall x, simple (k x)
  | _ => False
  end.

Lemma simple_bind : forall A B (m : samp A) (f : A -> samp B),
  simple m -> (forall a, simple (f a)) -> simple (bind m f).
Proof.
  intros A B m f. induction m as [a|e|r k IH|p kt IHt kf IHf|ps k IH|w c k IH|c k IH|pop n k IH];
    intros Hm Hf; cbn [simple bind] in *; try contradiction; auto.
  - destruct Hm as [H1 H2]. split; auto.
Qed.

Lemma clamp_hi : forall p, 1 <= p -> clamp01 p == 1.
Proof.
  intros p H. unfold clamp01, Qltb. destruct (Qlt_le_dec p 0) as [L|L]; [lra|].
  destruct (Qlt_le_dec 1 p) as [L'|L']; [reflexivity|lra].
Qed.

Lemma clamp_lo : forall p, p <= 0 -> clamp01 p == 0.
Proof.
  intros p H. unfold clamp01, Qltb. destruct (Qlt_le_dec p 0) as [L|L]; [reflexivity|].
  destruct (Qlt_le_dec 1 p) as [L'|L']; lra.
Qed.

Lemma Qnat_S : forall n, Qnat (S n) == Qnat n + 1.
Proof. intro n. unfold Qnat. rewrite Nat2Z.inj_succ. unfold Z.succ. rewrite inject_Z_plus. reflexivity. Qed.

Lemma Qnat_pos_neq : forall n, (0 < n)%nat -> ~ Qnat n == 0.
Proof. intros n H E. unfold Qnat, Qeq in E. simpl in E. lia. Qed.

Theorem prob_leaf_const : forall A (f : A -> bool) (b : bool) (m : samp A),
  simple m -> (forall e, ~ reach_err m e) -> (forall a, reach m a -> f a = b) ->
  prob f (law m) == if b then 1 else 0.
Proof.
  intros A f b m. induction m as [a|e|r k IH|p kt IHt kf IHf|ps k IH|w c k IH|c k IH|pop n k IH];
    intros Hs Hne Hr; cbn [simple] in Hs; try contradiction.
  - rewrite prob_ret, (Hr a (r_ret a)). reflexivity.
  - exfalso. apply (Hne e). constructor.
  - destruct Hs as [Hs1 Hs2]. rewrite prob_flip.
    destruct (Qlt_le_dec 0 p) as [Hp0|Hp0]; destruct (Qlt_le_dec p 1) as [Hp1|Hp1].
    + rewrite IHt, IHf; auto.
      * destruct b; ring.
      * intros e H. apply (Hne e). apply e_flip_f; assumption.
      * intros a H. apply Hr. apply r_flip_f; assumption.
      * intros e H. apply (Hne e). apply e_flip_t; assumption.
      * intros a H. apply Hr. apply r_flip_t; assumption.
    + rewrite IHt; auto.
      * rewrite (clamp_hi p Hp1). ring.
      * intros e H. apply (Hne e). apply e_flip_t; assumption.
      * intros a H. apply Hr. apply r_flip_t; assumption.
    + rewrite IHf; auto.
      * rewrite (clamp_lo p Hp0). ring.
      * intros e H. apply (Hne e). apply e_flip_f; assumption.
      * intros a H. apply Hr. apply r_flip_f; assumption.
    + lra.
  - assert (Hc : c <> []). { intro E. subst c. apply (Hne IndexErr). constructor. }
    cbn [law]. set (w := 1 / Qnat (length c)).
    assert (G : forall c', incl c' c ->
              prob f (concat (map (fun x => scale w (law (k x))) c')) == w * Qnat (length c') * (if b then 1 else 0)).
    { induction c' as [|x c' IHc]; intro Hi.
      - cbn [map concat length]. change (prob f []) with 0. change (Qnat 0) with 0. ring.
      - cbn [map concat length]. rewrite prob_app, prob_scale, IHc, Qnat_S.
        + rewrite (IH x (Hs x)).
          * ring.
          * intros e H. apply (Hne e). eapply e_unif; [apply Hi; left; reflexivity|exact H].
          * intros a H. apply Hr. eapply r_unif; [apply Hi; left; reflexivity|exact H].
        + intros y Hy. apply Hi. right. exact Hy. }
    rewrite (G c (incl_refl c)). unfold w. field. apply Qnat_pos_neq. destruct c; [congruence|cbn; lia].
Qed.

Corollary mass_one : forall A (m : samp A), simple m -> (forall e, ~ reach_err m e) ->
  prob (fun _ => true) (law m) == 1.
Proof. intros A m Hs Hne. apply (prob_leaf_const A (fun _ => true) true m Hs Hne). reflexivity. Qed.

(* ---- the discrete simulators are simple programs under simple rules ---- *)
Definition rules_simple (R : rules) : Prop :=
  (forall u v a, simple (r_test R u v a)) /\ (forall k v c, simple (r_pick R k v c)).

Lemma simple_rules_simple : forall p, rules_simple (simple_rules p).
Proof.
  intro p. split; cbn [simple_rules r_test r_pick simple]; [auto|].
  intros k v c x. destruct x as [|a [|b x]]; exact I.
Qed.

Section Simple.
Variable R : rules.
Hypothesis HR : rules_simple R.

Lemma cloop_simple : forall full k age cs c, simple (cloop R full k age cs c).
Proof.
  intros full k age cs. induction cs as [|[u v] cs IH]; intro c; cbn [cloop]; [exact I|].
  destruct (c_sus c v).
  - apply simple_bind; [apply HR|]. intros [|]; apply IH.
  - destruct (full && mem v (c_new c)); [|apply IH].
    apply simple_bind; [apply HR|]. intros [|]; apply IH.
Qed.

Lemma picks_simple : forall k t inf tl pl, simple (picks R k t inf tl pl).
Proof.
  intros k t inf. induction inf as [|[v c] inf IH]; intros tl pl; cbn [picks]; [exact I|].
  apply simple_bind; [apply HR|]. intro s. apply IH.
Qed.

Lemma step_simple : forall g ord tmax full k t s, simple (step g R None ord tmax full k t s).
Proof.
  intros. unfold step. apply simple_bind; [apply cloop_simple|]. intro c.
  apply simple_bind; [destruct full; [apply picks_simple|exact I]|]. intro tp. exact I.
Qed.

Lemma dloop_simple : forall g ord tmin tmax full i0 r0 fuel k t s,
  simple (dloop g R None ord tmin tmax full i0 r0 fuel k t s).
Proof.
  intros g ord tmin tmax full i0 r0 fuel. induction fuel as [|f IH]; intros k t s; cbn [dloop];
    destruct (nonempty (d_infs s) && xlt t tmax); try exact I.
  apply simple_bind; [apply step_simple|]. intro s'. apply IH.
Qed.

End Simple.

(* discrete_SIR without test_recovery, fuel > |nodes|: no reachable failure (Proofs/DiscreteSafe.v) *)
Lemma dsir_no_err : forall g R ord i0 r0o tmin tmax full fuel e, rules_safe R ->
  wf_inputb g i0 (opt_list r0o) = true -> perm_oracle ord -> (full = true -> pick_sound R) ->
  (length (gnodes g) < fuel)%nat ->
  ~ reach_err (discrete_SIR g R None ord (Some i0) r0o None tmin tmax full fuel) e.
Proof.
  intros g R ord i0 r0o tmin tmax full fuel e HR Hwf Hord Hpick Hf H.
  destruct (wf_input_props g i0 _ Hwf) as [Hnd [Hadj [Hi0 [Hr0 [Hi0nd [Hr0nd Hdisj]]]]]].
  unfold discrete_SIR in H. cbn [with_initial] in H.
  destruct (init_LInv g None tmin tmax full i0 (opt_list r0o) Hnd Hi0 Hr0 Hi0nd Hr0nd Hdisj) as [Hs _].
  apply (dloop_fuel R HR g ord tmin tmax full i0 (opt_list r0o) Hnd Hadj Hord Hpick fuel O tmin _ e Hs); [|exact H].
  intros _. cbn [init_state d_nS]. unfold order, lenZ. lia.
Qed.

(* basic_discrete_SIR returns with probability 1, whatever return_full_data *)
Theorem dsir_mass_one_full : forall g p ord i0 r0o tmin tmax full fuel,
  wf_inputb g i0 (opt_list r0o) = true -> perm_oracle ord -> (length (gnodes g) < fuel)%nat ->
  prob (fun _ => true) (law (basic_discrete_SIR g p ord (Some i0) r0o None tmin tmax full fuel)) == 1.
Proof.
  intros g p ord i0 r0o tmin tmax full fuel Hwf Hord Hf. apply mass_one.
  - unfold basic_discrete_SIR, basic_discrete_SIR_R, discrete_SIR. cbn [with_initial].
    apply dloop_simple. apply simple_rules_simple.
  - intro e. unfold basic_discrete_SIR, basic_discrete_SIR_R.
    apply dsir_no_err; try assumption; [apply simple_rules_safe|intros _; apply simple_pick_sound].
Qed.
