(* Lemmas about Model/Discrete.v (property C12), parts 1-4 (Proofs/DiscreteP.v re-exports this file and adds parts 5-6).
   Part 1: lists / sets.   Part 2: L0 breadth-first levels and the L1 generation
   sequence (pure).   Part 3: the L2 model with deterministic rules is a pure
   function; one step realises one generation whatever the iteration order.
   Part 4: the whole run: rows and node histories are those of the L1
   generations (hence independent of the order oracle), fuel suffices.
   Part 5: Bernoulli(p) rules: product law of one step (Reed-Frost, SIS) and of
   percolate_network. *)
From EoNV Require Import Prelude Samp Graph Discrete.
From Coq Require Import Permutation Lqa.

(* ------------------------------------------------------------------ *)
(* Part 1: membership, filters                                          *)

Lemma dmem_In : forall x l, mem x l = true <-> In x l.
Proof.
  intros x l. unfold mem. rewrite existsb_exists. split.
  - intros [y [Hy E]]. apply N.eqb_eq in E. subst y. exact Hy.
  - intro H. exists x. split; [exact H|apply N.eqb_refl].
Qed.

Lemma dmem_false : forall x l, mem x l = false <-> ~ In x l.
Proof.
  intros x l. rewrite <- dmem_In. destruct (mem x l); split; intro H.
  - discriminate.
  - exfalso. apply H. reflexivity.
  - intro H2. discriminate.
  - reflexivity.
Qed.

Lemma mem_ext_In : forall l l', (forall x, In x l <-> In x l') -> forall x, mem x l = mem x l'.
Proof.
  intros l l' H x. destruct (mem x l) eqn:E.
  - symmetry. apply dmem_In. apply H. apply dmem_In. exact E.
  - symmetry. apply dmem_false. intro H2. apply H in H2. apply dmem_In in H2. congruence.
Qed.

Lemma mem_perm : forall l l' x, Permutation l l' -> mem x l = mem x l'.
Proof.
  intros l l' x P. apply mem_ext_In. intro y. split; intro H.
  - eapply Permutation_in; eauto.
  - eapply Permutation_in; [apply Permutation_sym; exact P|exact H].
Qed.

Lemma mem_cons : forall x y l, mem x (y :: l) = N.eqb x y || mem x l.
Proof. reflexivity. Qed.

Lemma mem_app : forall x l l', mem x (l ++ l') = mem x l || mem x l'.
Proof. intros. unfold mem. apply existsb_app. Qed.

Lemma mem_filter : forall x f l, mem x (filter f l) = mem x l && f x.
Proof.
  intros x f l. destruct (mem x (filter f l)) eqn:E.
  - apply dmem_In in E. apply filter_In in E. destruct E as [E1 E2].
    apply dmem_In in E1. rewrite E1, E2. reflexivity.
  - destruct (mem x l) eqn:E1; [|reflexivity]. destruct (f x) eqn:E2; [|reflexivity].
    apply dmem_false in E. exfalso. apply E. apply filter_In. split; [apply dmem_In; exact E1|exact E2].
Qed.

Lemma nodupb_NoDup : forall l, nodupb l = true -> NoDup l.
Proof.
  induction l as [|x l IH]; intro H; [constructor|].
  cbn [nodupb] in H. apply andb_true_iff in H. destruct H as [H1 H2].
  constructor; [|apply IH; exact H2]. apply dmem_false. apply negb_true_iff. exact H1.
Qed.

Lemma NoDup_filter : forall (f : node -> bool) l, NoDup l -> NoDup (filter f l).
Proof.
  intros f l H. induction H as [|x l Hx Hn IH]; [constructor|].
  cbn [filter]. destruct (f x); [|exact IH]. constructor; [|exact IH].
  intro H2. apply filter_In in H2. apply Hx. apply H2.
Qed.

Lemma canon_In : forall g l v, In v (canon g l) <-> In v (gnodes g) /\ In v l.
Proof. intros g l v. unfold canon. rewrite filter_In. rewrite dmem_In. tauto. Qed.

Lemma canon_ext : forall g l l', (forall v, In v (gnodes g) -> mem v l = mem v l') -> canon g l = canon g l'.
Proof. intros g l l' H. unfold canon. apply filter_ext_in. exact H. Qed.

Lemma lenZ_filter_split : forall (f : node -> bool) l,
  lenZ l = (lenZ (filter f l) + lenZ (filter (fun x => negb (f x)) l))%Z.
Proof.
  intros f l. unfold lenZ. induction l as [|x l IH]; [reflexivity|].
  cbn [filter length]. destruct (f x); cbn [negb length]; lia.
Qed.

(* a duplicate-free list inside a duplicate-free list is as long as its filter image *)
Lemma NoDup_length_canon : forall g l, NoDup (gnodes g) -> NoDup l -> (forall v, In v l -> In v (gnodes g)) ->
  length (canon g l) = length l.
Proof.
  intros g l Hg Hl Hsub.
  assert (P : Permutation (canon g l) l).
  { apply NoDup_Permutation; [apply NoDup_filter; exact Hg|exact Hl|].
    intro v. rewrite canon_In. split; [tauto|]. intro H. split; [apply Hsub; exact H|exact H]. }
  apply Permutation_length. exact P.
Qed.

Lemma existsb_perm : forall (A : Type) (f : A -> bool) l l', Permutation l l' -> existsb f l = existsb f l'.
Proof.
  intros A f l l' P. induction P; cbn [existsb]; try congruence.
  - destruct (f y), (f x); reflexivity.
Qed.

(* ------------------------------------------------------------------ *)
(* Part 2: breadth-first levels (L0) and the generation sequence (L1)   *)

Section Generations.
Variable g : graph.
Variable T : node -> node -> bool.          (* the contact u -> v succeeds *)
Variables i0 r0 : list node.

(* u is infectious and makes a successful contact with v *)
Definition hit (I : list node) (v : node) : bool :=
  existsb (fun u => mem v (gadj g u) && T u v) I.

(* (S_k, I_k): susceptible and infectious nodes after k steps *)
Definition gen_next (SI : list node * list node) : list node * list node :=
  let I' := filter (hit (snd SI)) (fst SI) in
  (filter (fun v => negb (mem v I')) (fst SI), I').
Definition gen0 : list node * list node :=
  (filter (fun v => negb (mem v i0) && negb (mem v r0)) (gnodes g), canon g i0).
Fixpoint gen (k : nat) : list node * list node :=
  match k with O => gen0 | S k' => gen_next (gen k') end.
Definition Sg (k : nat) := fst (gen k).
Definition Ig (k : nat) := snd (gen k).

(* L0: walks of successful contacts from the initially infected nodes that never
   enter an initially recovered node *)
Definition arc (u v : node) : Prop :=
  In u (gnodes g) /\ In v (gadj g u) /\ T u v = true /\ ~ In v r0.
Inductive walk : node -> nat -> Prop :=
| walk0 : forall v, In v i0 -> walk v O
| walkS : forall u v n, walk u n -> arc u v -> walk v (S n).
(* breadth-first distance *)
Definition bfs_dist (v : node) (n : nat) : Prop := walk v n /\ forall m, (m < n)%nat -> ~ walk v m.

Hypothesis Hadj : forall u v, In u (gnodes g) -> In v (gadj g u) -> In v (gnodes g).
Hypothesis Hi0 : forall v, In v i0 -> In v (gnodes g).
Hypothesis Hdisj : forall v, In v i0 -> ~ In v r0.

Lemma hit_spec : forall I v, hit I v = true <-> exists u, In u I /\ In v (gadj g u) /\ T u v = true.
Proof.
  intros I v. unfold hit. rewrite existsb_exists. split.
  - intros [u [Hu H]]. apply andb_true_iff in H. destruct H as [H1 H2]. exists u.
    split; [exact Hu|]. split; [apply dmem_In; exact H1|exact H2].
  - intros [u [Hu [H1 H2]]]. exists u. split; [exact Hu|]. apply andb_true_iff. split; [apply dmem_In; exact H1|exact H2].
Qed.

Lemma hit_perm : forall I I' v, Permutation I I' -> hit I v = hit I' v.
Proof. intros. unfold hit. apply existsb_perm. assumption. Qed.

Lemma Sg_sub : forall k v, In v (Sg k) -> In v (gnodes g).
Proof.
  unfold Sg. induction k as [|k IH]; intros v H.
  - cbn in H. apply filter_In in H. tauto.
  - cbn [gen gen_next fst] in H. apply filter_In in H. apply IH. tauto.
Qed.

Lemma Ig_sub : forall k v, In v (Ig k) -> In v (gnodes g).
Proof.
  unfold Ig. intros [|k] v H.
  - cbn in H. apply canon_In in H. tauto.
  - cbn [gen gen_next snd] in H. apply filter_In in H. apply (Sg_sub k). tauto.
Qed.

Lemma gen_inv : forall k,
  (forall v, In v (Ig k) <-> bfs_dist v k) /\
  (forall v, In v (Sg k) <-> In v (gnodes g) /\ ~ In v r0 /\ forall m, (m <= k)%nat -> ~ walk v m).
Proof.
  induction k as [|k [IHI IHS]].
  - split; intro v.
    + unfold Ig. cbn [gen gen0 snd]. rewrite canon_In. split.
      * intros [_ H]. split; [constructor; exact H|]. intros m Hm. lia.
      * intros [H _]. inversion H; subst. split; [apply Hi0|]; assumption.
    + unfold Sg. cbn [gen gen0 fst]. rewrite filter_In. rewrite andb_true_iff, !negb_true_iff, !dmem_false.
      split.
      * intros [Hg [Hi Hr]]. split; [exact Hg|]. split; [exact Hr|]. intros m Hm Hw.
        assert (m = O) by lia. subst m. inversion Hw; subst. contradiction.
      * intros [Hg [Hr Hw]]. split; [exact Hg|]. split; [|exact Hr]. intro Hi. apply (Hw O); [lia|constructor; exact Hi].
  - assert (HI' : forall v, In v (Ig (S k)) <-> bfs_dist v (S k)).
    { intro v. unfold Ig. cbn [gen gen_next snd]. fold (Sg k). fold (Ig k). rewrite filter_In. rewrite hit_spec. split.
      - intros [HS [u [Hu [Ha Ht]]]]. apply IHS in HS. destruct HS as [Hg [Hr Hw]].
        apply IHI in Hu. destruct Hu as [Hwu Hmin]. split.
        + apply walkS with u; [exact Hwu|]. split; [|split; [exact Ha|split; [exact Ht|exact Hr]]].
          apply (Ig_sub k). apply IHI. split; assumption.
        + intros m Hm. apply Hw. lia.
      - intros [Hw Hmin]. inversion Hw as [|u v' n Hwu Harc]; subst.
        destruct Harc as [Hug [Ha [Ht Hr]]]. split.
        + apply IHS. split; [apply Hadj with u; assumption|]. split; [exact Hr|].
          intros m Hm. apply Hmin. lia.
        + exists u. split; [|split; assumption]. apply IHI. split; [exact Hwu|].
          intros m Hm Hwm. apply (Hmin (S m)); [lia|]. apply walkS with u; [exact Hwm|].
          split; [exact Hug|split; [exact Ha|split; [exact Ht|exact Hr]]]. }
    split; [exact HI'|]. intro v. unfold Sg. cbn [gen gen_next fst]. fold (Sg k). fold (Ig k).
    rewrite filter_In. rewrite negb_true_iff, dmem_false.
    change (filter (hit (Ig k)) (Sg k)) with (Ig (S k)). split.
    + intros [HS Hn]. apply IHS in HS. destruct HS as [Hg [Hr Hw]]. split; [exact Hg|]. split; [exact Hr|].
      intros m Hm Hwm. assert (E : (m <= k)%nat \/ m = S k) by lia. destruct E as [E|E].
      * apply (Hw m E Hwm).
      * subst m. apply Hn. apply HI'. split; [exact Hwm|]. intros m Hm2. apply Hw. lia.
    + intros [Hg [Hr Hw]]. split.
      * apply IHS. split; [exact Hg|]. split; [exact Hr|]. intros m Hm. apply Hw. lia.
      * intro Hin. apply HI' in Hin. destruct Hin as [Hwk _]. apply (Hw (S k)); [lia|exact Hwk].
Qed.

(* the generation sets are the breadth-first levels *)
Lemma gen_is_bfs : forall k v, In v (Ig k) <-> bfs_dist v k.
Proof. intros k v. apply (gen_inv k). Qed.

Lemma Sg_NoDup : NoDup (gnodes g) -> forall k, NoDup (Sg k).
Proof.
  intros Hn. unfold Sg. induction k as [|k IH]; cbn [gen gen0 gen_next fst]; apply NoDup_filter; assumption.
Qed.

Lemma Ig_NoDup : NoDup (gnodes g) -> forall k, NoDup (Ig k).
Proof.
  intros Hn [|k]; unfold Ig; cbn [gen gen0 gen_next snd].
  - unfold canon. apply NoDup_filter. exact Hn.
  - apply NoDup_filter. apply (Sg_NoDup Hn).
Qed.

(* S_k = S_{k+1} + I_{k+1} *)
Lemma Sg_split : forall k, lenZ (Sg k) = (lenZ (Sg (S k)) + lenZ (Ig (S k)))%Z.
Proof.
  intro k. unfold Sg, Ig. cbn [gen gen_next fst snd]. fold (Sg k). fold (Ig k).
  rewrite (lenZ_filter_split (hit (Ig k)) (Sg k)).
  assert (E : filter (fun v => negb (mem v (filter (hit (Ig k)) (Sg k)))) (Sg k) =
              filter (fun x => negb (hit (Ig k) x)) (Sg k)).
  { apply filter_ext_in. intros v Hv. rewrite mem_filter.
    assert (M : mem v (Sg k) = true) by (apply dmem_In; exact Hv). rewrite M. reflexivity. }
  rewrite E. lia.
Qed.

Lemma Ig_in_Sg : forall k v, In v (Ig (S k)) -> In v (Sg k).
Proof. intros k v H. unfold Ig in H. cbn [gen gen_next snd] in H. apply filter_In in H. apply H. Qed.

Lemma Sg_mono : forall k v, In v (Sg (S k)) -> In v (Sg k).
Proof. intros k v H. unfold Sg in H. cbn [gen gen_next fst] in H. apply filter_In in H. apply H. Qed.

End Generations.

(* ------------------------------------------------------------------ *)
(* Part 3: deterministic rules: the contact loop is a pure fold          *)

Lemma existsb_eq_mem : forall (f : node -> bool) v l,
  existsb (fun w => N.eqb w v && f w) l = mem v l && f v.
Proof.
  intros f v l. induction l as [|w l IH]; [reflexivity|].
  cbn [existsb]. rewrite mem_cons, IH. rewrite (N.eqb_sym v w).
  destruct (N.eqb_spec w v) as [E|E]; [subst w|]; cbn [andb orb]; [|reflexivity].
  destruct (f v); [reflexivity|]. rewrite andb_false_r. reflexivity.
Qed.

Lemma existsb_flat_map : forall (A B : Type) (f : B -> bool) (h : A -> list B) l,
  existsb f (flat_map h l) = existsb (fun x => existsb f (h x)) l.
Proof.
  intros A B f h l. induction l as [|x l IH]; [reflexivity|].
  simpl. rewrite existsb_app, IH. reflexivity.
Qed.

Lemma existsb_map' : forall (A B : Type) (f : B -> bool) (h : A -> B) l,
  existsb f (map h l) = existsb (fun x => f (h x)) l.
Proof. intros A B f h l. induction l as [|x l IH]; [reflexivity|]. simpl. rewrite IH. reflexivity. Qed.

Lemma length_ninsert : forall x l, length (ninsert x l) = S (length l).
Proof. intros x l. induction l as [|h t IH]; [reflexivity|]. cbn [ninsert]. destruct (N.leb x h); cbn [length]; [reflexivity|]. rewrite IH. reflexivity. Qed.
Lemma length_nsort : forall l, length (nsort l) = length l.
Proof. induction l as [|x l IH]; [reflexivity|]. cbn [nsort fold_right]. fold (nsort l). rewrite length_ninsert, IH. reflexivity. Qed.

Lemma lenZ_cons : forall (A : Type) (x : A) l, lenZ (x :: l) = (lenZ l + 1)%Z.
Proof. intros. unfold lenZ. cbn [length]. lia. Qed.

Section Det.
Variable g : graph.
Variable tt : node -> node -> nat -> bool.
Variable pick : nat -> node -> nat.
Variable full : bool.

Fixpoint cfold (k : nat) (age : node -> nat) (cs : list (node * node)) (c : cst) : cst :=
  match cs with
  | [] => c
  | (u, v) :: cs' =>
    if c_sus c v then
      if tt u v (age u)
      then cfold k age cs' (mkC (fupdN (c_sus c) v false) (v :: c_new c) (c_inf c ++ [(v, [u])])
                                (c_nS c - 1)%Z ((k, u, v) :: c_q c))
      else cfold k age cs' (mkC (c_sus c) (c_new c) (c_inf c) (c_nS c) ((k, u, v) :: c_q c))
    else if full && mem v (c_new c) then
      if tt u v (age u)
      then cfold k age cs' (mkC (c_sus c) (c_new c) (inf_append (c_inf c) v u) (c_nS c) ((k, u, v) :: c_q c))
      else cfold k age cs' (mkC (c_sus c) (c_new c) (c_inf c) (c_nS c) ((k, u, v) :: c_q c))
    else cfold k age cs' c
  end.

Lemma cloop_det : forall k age cs c,
  cloop (det_rules tt pick) full k age cs c = Ret (cfold k age cs c).
Proof.
  intros k age cs. induction cs as [|[u v] cs IH]; intro c; [reflexivity|].
  cbn [cloop cfold]. destruct (c_sus c v).
  - cbn [det_rules r_test bind]. destruct (tt u v (age u)); apply IH.
  - destruct (full && mem v (c_new c)); [|apply IH].
    cbn [det_rules r_test bind]. destruct (tt u v (age u)); apply IH.
Qed.

Definition hitc (age : node -> nat) (cs : list (node * node)) (v : node) : bool :=
  existsb (fun e => N.eqb (snd e) v && tt (fst e) (snd e) (age (fst e))) cs.

Lemma cfold_sus : forall k age cs c v,
  c_sus (cfold k age cs c) v = c_sus c v && negb (hitc age cs v).
Proof.
  intros k age cs. induction cs as [|[u w] cs IH]; intros c v.
  - cbn. rewrite andb_true_r. reflexivity.
  - cbn [cfold hitc existsb fst snd]. fold (hitc age cs v).
    destruct (c_sus c w) eqn:Es.
    + destruct (tt u w (age u)) eqn:Et.
      * rewrite IH. cbn [c_sus]. unfold fupdN. rewrite (N.eqb_sym w v).
        destruct (N.eqb_spec v w) as [E|E]; cbn [andb orb negb].
        -- rewrite andb_false_r. reflexivity.
        -- reflexivity.
      * rewrite IH. cbn [c_sus]. rewrite andb_false_r. reflexivity.
    + assert (G : c_sus c v && negb (hitc age cs v) =
                  c_sus c v && negb (N.eqb w v && tt u w (age u) || hitc age cs v)).
      { destruct (N.eqb_spec w v) as [E|E]; [subst w; rewrite Es; reflexivity|reflexivity]. }
      destruct (full && mem w (c_new c)); [destruct (tt u w (age u))|]; rewrite IH; cbn [c_sus]; exact G.
Qed.

Lemma cfold_new : forall k age cs c v,
  mem v (c_new (cfold k age cs c)) = mem v (c_new c) || (c_sus c v && hitc age cs v).
Proof.
  intros k age cs. induction cs as [|[u w] cs IH]; intros c v.
  - cbn. rewrite andb_false_r, orb_false_r. reflexivity.
  - cbn [cfold hitc existsb fst snd]. fold (hitc age cs v).
    destruct (c_sus c w) eqn:Es.
    + destruct (tt u w (age u)) eqn:Et.
      * rewrite IH. cbn [c_sus c_new]. rewrite mem_cons. unfold fupdN. rewrite (N.eqb_sym w v).
        destruct (N.eqb_spec v w) as [E|E]; cbn [andb orb negb].
        -- subst w. rewrite Es. cbn [andb]. rewrite orb_true_r. reflexivity.
        -- reflexivity.
      * rewrite IH. cbn [c_sus c_new]. rewrite andb_false_r. reflexivity.
    + assert (G : mem v (c_new c) || c_sus c v && hitc age cs v =
                  mem v (c_new c) || c_sus c v && (N.eqb w v && tt u w (age u) || hitc age cs v)).
      { destruct (N.eqb_spec w v) as [E|E]; [subst w; rewrite Es; reflexivity|reflexivity]. }
      destruct (full && mem w (c_new c)); [destruct (tt u w (age u))|]; rewrite IH; cbn [c_sus c_new]; exact G.
Qed.

Lemma cfold_nS : forall k age cs c,
  c_nS (cfold k age cs c) = (c_nS c - (lenZ (c_new (cfold k age cs c)) - lenZ (c_new c)))%Z.
Proof.
  intros k age cs. induction cs as [|[u w] cs IH]; intro c.
  - cbn. lia.
  - cbn [cfold]. destruct (c_sus c w).
    + destruct (tt u w (age u)); rewrite IH; cbn [c_nS c_new]; [rewrite lenZ_cons|]; lia.
    + destruct (full && mem w (c_new c)); [destruct (tt u w (age u))|]; rewrite IH; cbn [c_nS c_new]; lia.
Qed.

Definition cinv (c : cst) : Prop :=
  NoDup (c_new c) /\ (forall v, In v (c_new c) -> c_sus c v = false) /\
  Forall (fun e => snd e <> []) (c_inf c).

Lemma cfold_inv : forall k age cs c, cinv c -> cinv (cfold k age cs c).
Proof.
  intros k age cs. induction cs as [|[u w] cs IH]; intros c Hc; [exact Hc|].
  destruct Hc as [Hn [Hs Hf]].
  cbn [cfold]. destruct (c_sus c w) eqn:Es.
  - destruct (tt u w (age u)); apply IH.
    + split; [|split]; cbn [c_new c_sus c_inf].
      * constructor; [|exact Hn]. intro Hin. apply Hs in Hin. congruence.
      * intros v [E|Hin]; unfold fupdN.
        -- subst v. rewrite N.eqb_refl. reflexivity.
        -- destruct (N.eqb v w); [reflexivity|apply Hs; exact Hin].
      * apply Forall_app. split; [exact Hf|]. constructor; [|constructor]. cbn. discriminate.
    + split; [|split]; assumption.
  - destruct (full && mem w (c_new c)); [destruct (tt u w (age u))|]; apply IH.
    + split; [|split]; cbn [c_new c_sus c_inf]; try assumption.
      unfold inf_append. apply Forall_forall. intros e He. apply in_map_iff in He.
      destruct He as [e0 [E He0]]. rewrite Forall_forall in Hf. specialize (Hf e0 He0).
      destruct (N.eqb (fst e0) w); subst e; cbn [snd]; [|exact Hf].
      intro H. apply app_eq_nil in H. destruct H as [_ H]. discriminate.
    + split; [|split]; assumption.
    + split; [|split]; assumption.
Qed.

Lemma hitc_contacts : forall age us v,
  hitc age (contacts g us) v = hit g (fun u w => tt u w (age u)) us v.
Proof.
  intros age us v. unfold hitc, hit, contacts. rewrite existsb_flat_map.
  induction us as [|u us IH]; [reflexivity|].
  simpl. rewrite IH. f_equal.
  rewrite existsb_map'. cbn [fst snd]. apply (existsb_eq_mem (fun w => tt u w (age u))).
Qed.

(* random.choice with deterministic rules never fails on a non-empty candidate list *)
Lemma picks_det : forall k t inf tl pl, Forall (fun e => snd e <> []) inf ->
  exists r, picks (det_rules tt pick) k t inf tl pl = Ret r.
Proof.
  intros k t inf. induction inf as [|[v c] inf IH]; intros tl pl Hf.
  - eexists. reflexivity.
  - inversion Hf as [|e l Hc Hf']; subst. cbn [snd] in Hc.
    cbn [picks det_rules r_pick].
    assert (Hlt : (Nat.modulo (pick k v) (length c) < length (nsort c))%nat).
    { rewrite length_nsort. apply Nat.mod_upper_bound. destruct c; [contradiction|discriminate]. }
    rewrite (nth_error_nth' (nsort c) v Hlt). cbn [bind]. apply IH. exact Hf'.
Qed.

End Det.

(* ------------------------------------------------------------------ *)
(* Part 4: the whole run with deterministic rules and no recovery test   *)

Lemma filter_filter : forall (A : Type) (f h : A -> bool) l,
  filter f (filter h l) = filter (fun x => h x && f x) l.
Proof.
  intros A f h l. induction l as [|x l IH]; [reflexivity|].
  simpl. destruct (h x); simpl; [destruct (f x)|]; rewrite IH; reflexivity.
Qed.

Lemma filter_len_le : forall (A : Type) (f : A -> bool) l, (length (filter f l) <= length l)%nat.
Proof. intros A f l. induction l as [|x l IH]; [apply le_n|]. simpl. destruct (f x); simpl; lia. Qed.

Lemma NoDup_app_disj : forall (l1 l2 : list node), NoDup l1 -> NoDup l2 ->
  (forall v, In v l1 -> ~ In v l2) -> NoDup (l1 ++ l2).
Proof.
  intros l1 l2 H1 H2 Hd. induction H1 as [|x l Hx Hn IH]; [exact H2|].
  simpl. constructor.
  - intro Hin. apply in_app_or in Hin. destruct Hin as [Hin|Hin]; [contradiction|].
    apply (Hd x); [left; reflexivity|exact Hin].
  - apply IH. intros v Hv. apply Hd. right. exact Hv.
Qed.

Lemma hit_ext : forall g (T T' : node -> node -> bool) I v,
  (forall u w, T u w = T' u w) -> hit g T I v = hit g T' I v.
Proof.
  intros g T T' I v H. unfold hit. induction I as [|u I IH]; [reflexivity|].
  simpl. rewrite IH, H. reflexivity.
Qed.

Lemma node_events_app : forall v l l', node_events v (l ++ l') = node_events v l ++ node_events v l'.
Proof. intros. unfold node_events. rewrite filter_app, map_app. reflexivity. Qed.

Lemma node_events_map : forall v (t : Q) (st : N) l, NoDup l ->
  node_events v (map (fun u => (t, u, st)) l) = if mem v l then [(t, st)] else [].
Proof.
  intros v t st l H. induction H as [|x l Hx Hn IH]; [reflexivity|].
  unfold node_events in *. simpl. rewrite (N.eqb_sym v x).
  destruct (N.eqb_spec x v) as [E|E]; simpl.
  - subst x. rewrite IH. apply dmem_false in Hx. rewrite Hx. reflexivity.
  - exact IH.
Qed.

Section Run.
Variable g : graph.
Variable tt : node -> node -> nat -> bool.
Variable pick : nat -> node -> nat.
Variable full : bool.
Variables i0 r0 : list node.
Variable tmin : Q.
Variable tmax : xtime.

Definition T0 (u v : node) : bool := tt u v O.

Hypothesis Hnd : NoDup (gnodes g).
Hypothesis Hadj : forall u v, In u (gnodes g) -> In v (gadj g u) -> In v (gnodes g).
Hypothesis Hi0 : forall v, In v i0 -> In v (gnodes g).
Hypothesis Hr0 : forall v, In v r0 -> In v (gnodes g).
Hypothesis Hi0nd : NoDup i0.
Hypothesis Hr0nd : NoDup r0.
Hypothesis Hdisj : forall v, In v i0 -> ~ In v r0.

Notation SG := (Sg g T0 i0 r0).
Notation IG := (Ig g T0 i0 r0).

Fixpoint tq (k : nat) : Q := match k with O => tmin | S k' => tq k' + 1 end.
Fixpoint Rg (k : nat) : Z := match k with O => lenZ r0 | S k' => (Rg k' + lenZ (IG k'))%Z end.
Fixpoint rows_to (k : nat) : list row :=
  match k with
  | O => [(tmin, [(order g - lenZ i0 - lenZ r0)%Z; lenZ i0; lenZ r0])]
  | S k' => (tq (S k'), [lenZ (SG (S k')); lenZ (IG (S k')); Rg (S k')]) :: rows_to k'
  end.
Fixpoint events_to (k : nat) (v : node) : list (Q * N) :=
  match k with
  | O => []
  | S k' => events_to k' v ++
      (if full && le_x (tq (S k')) tmax then
         (if mem v (IG k') then [(tq (S k'), stR)] else []) ++
         (if mem v (IG (S k')) then [(tq (S k'), stI)] else [])
       else [])
  end.

Record dinv (k : nat) (s : dst) : Prop := {
  iv_sus : forall v, In v (gnodes g) -> d_sus s v = mem v (SG k);
  iv_infs : d_infs s = IG k;
  iv_age : forall u, d_age s u = O;
  iv_nS : d_nS s = lenZ (SG k);
  iv_totR : d_totR s = Rg k;
  iv_rows : d_rows s = rows_to k;
  iv_hist : forall v, node_events v (rev (d_hlog s)) = events_to k v
}.

Lemma Sg_canon : forall k, SG k = canon g (SG k).
Proof.
  assert (H : forall k, exists P, SG k = filter P (gnodes g)).
  { unfold Sg. induction k as [|k [P HP]].
    - eexists. reflexivity.
    - cbn [gen gen_next fst]. rewrite HP. rewrite filter_filter. eexists. reflexivity. }
  intro k. destruct (H k) as [P HP]. rewrite HP at 1. unfold canon. apply filter_ext_in.
  intros v Hv. rewrite HP. rewrite mem_filter.
  assert (M : mem v (gnodes g) = true) by (apply dmem_In; exact Hv). rewrite M. reflexivity.
Qed.

Lemma count_S0 : lenZ (SG O) = (order g - lenZ i0 - lenZ r0)%Z.
Proof.
  unfold Sg. cbn [gen gen0 fst].
  pose proof (lenZ_filter_split (fun v => mem v (i0 ++ r0)) (gnodes g)) as H.
  assert (E1 : lenZ (filter (fun v => mem v (i0 ++ r0)) (gnodes g)) = (lenZ i0 + lenZ r0)%Z).
  { change (filter (fun v => mem v (i0 ++ r0)) (gnodes g)) with (canon g (i0 ++ r0)).
    unfold lenZ. rewrite NoDup_length_canon.
    - rewrite app_length. lia.
    - exact Hnd.
    - apply NoDup_app_disj; assumption.
    - intros v Hv. apply in_app_or in Hv. destruct Hv; [apply Hi0|apply Hr0]; assumption. }
  assert (E2 : filter (fun x => negb (mem x (i0 ++ r0))) (gnodes g) =
               filter (fun v => negb (mem v i0) && negb (mem v r0)) (gnodes g)).
  { apply filter_ext. intro v. rewrite mem_app, negb_orb. reflexivity. }
  cbv beta in H. rewrite E2, E1 in H. unfold order. unfold lenZ in *. lia.
Qed.

Lemma init_dinv : dinv O (init_state g tmin full i0 r0).
Proof.
  constructor; cbn [init_state d_sus d_infs d_age d_nS d_totR d_rows d_hlog].
  - intros v Hv. unfold Sg. cbn [gen gen0 fst]. rewrite mem_filter.
    assert (M : mem v (gnodes g) = true) by (apply dmem_In; exact Hv). rewrite M. reflexivity.
  - reflexivity.
  - reflexivity.
  - symmetry. apply count_S0.
  - reflexivity.
  - reflexivity.
  - intro v. reflexivity.
Qed.

Section WithOrd.
Variable ord : nat -> list node -> list node.
Hypothesis Hord : forall k l, Permutation (ord k l) l.

Lemma step_dinv : forall k s, dinv k s ->
  exists s', step g (det_rules tt pick) None ord tmax full k (tq k) s = Ret s' /\ dinv (S k) s'.
Proof.
  intros k s Hs. destruct Hs as [Hsus Hinfs Hage HnS HtotR Hrows Hhist].
  unfold step. rewrite cloop_det. cbn [bind].
  set (us := ord k (d_infs s)).
  set (c := cfold tt full k (d_age s) (contacts g us) (mkC (d_sus s) [] [] (d_nS s) (l_q (d_logs s)))).
  assert (Hc : cinv c).
  { apply cfold_inv. split; [constructor|]. split; [intros v []|constructor]. }
  destruct Hc as [Hcn [Hcs Hcf]].
  assert (Hp : exists tp, (if full then picks (det_rules tt pick) k (tq k) (c_inf c) (d_tlog s) (l_p (d_logs s))
                           else Ret (d_tlog s, l_p (d_logs s))) = Ret tp).
  { destruct full; [apply picks_det; exact Hcf|eexists; reflexivity]. }
  destruct Hp as [tp Hp]. rewrite Hp. cbn [bind].
  eexists. split; [reflexivity|].
  assert (Pus : Permutation us (IG k)). { unfold us. rewrite Hinfs. apply Hord. }
  assert (Hus : forall v, mem v us = mem v (IG k)). { intro v. apply mem_perm. exact Pus. }
  assert (Hnew : forall v, In v (gnodes g) -> mem v (c_new c) = mem v (SG k) && hit g T0 (IG k) v).
  { intros v Hv. unfold c. rewrite cfold_new. cbn [c_new c_sus]. rewrite hitc_contacts.
    rewrite (Hsus v Hv). cbn [mem existsb orb]. f_equal.
    rewrite (hit_perm g _ us (IG k) v Pus). apply hit_ext. intros u w. rewrite Hage. reflexivity. }
  assert (Hnewsub : forall v, In v (c_new c) -> In v (gnodes g)).
  { intros v Hv. apply dmem_In in Hv. unfold c in Hv. rewrite cfold_new in Hv. cbn [c_new c_sus mem existsb orb] in Hv.
    apply andb_true_iff in Hv. destruct Hv as [_ Hv]. rewrite hitc_contacts in Hv.
    apply hit_spec in Hv. destruct Hv as [u [Hu [Ha _]]].
    apply Hadj with u; [|exact Ha]. apply (Ig_sub g T0 i0 r0 k).
    eapply Permutation_in; [exact Pus|exact Hu]. }
  assert (Hcanon : canon g (c_new c) = IG (S k)).
  { unfold Ig. cbn [gen gen_next snd]. fold (SG k). fold (IG k).
    rewrite (Sg_canon k) at 1. unfold canon at 2. rewrite filter_filter.
    unfold canon. apply filter_ext_in. intros v Hv. apply Hnew. exact Hv. }
  assert (Hlen : lenZ (c_new c) = lenZ (IG (S k))).
  { rewrite <- Hcanon. unfold lenZ. rewrite NoDup_length_canon; [reflexivity|exact Hnd|exact Hcn|exact Hnewsub]. }
  assert (HnS' : c_nS c = lenZ (SG (S k))).
  { unfold c at 1. rewrite cfold_nS. fold c. cbn [c_nS c_new]. rewrite Hlen, HnS.
    rewrite (Sg_split g T0 i0 r0 k). unfold lenZ. cbn [length]. lia. }
  rewrite Hcanon.
  constructor; cbn [d_sus d_infs d_age d_nS d_totR d_rows d_hlog].
  - intros v Hv. unfold c. rewrite cfold_sus. cbn [c_sus]. rewrite hitc_contacts, (Hsus v Hv).
    rewrite (hit_perm g _ us (IG k) v Pus).
    rewrite (hit_ext g (fun u w => tt u w (d_age s u)) T0 (IG k) v) by (intros u w; rewrite Hage; reflexivity).
    unfold Sg at 2. cbn [gen gen_next fst]. fold (SG k). fold (IG k).
    rewrite mem_filter, mem_filter.
    destruct (mem v (SG k)), (hit g T0 (IG k) v); reflexivity.
  - reflexivity.
  - exact Hage.
  - exact HnS'.
  - cbn [Rg]. rewrite HtotR, Hinfs. reflexivity.
  - cbn [rows_to tq Rg]. rewrite HnS', HtotR, Hinfs, Hrows. reflexivity.
  - intro v. cbn [events_to tq]. rewrite <- Hhist.
    destruct (full && le_x (tq k + 1) tmax); [|rewrite app_nil_r; reflexivity].
    rewrite !rev_app_distr, !rev_involutive, <- app_assoc. rewrite !node_events_app.
    rewrite node_events_map by (apply (Permutation_NoDup (Permutation_sym Pus)); apply Ig_NoDup; exact Hnd).
    rewrite node_events_map by (apply Ig_NoDup; exact Hnd).
    rewrite Hus. reflexivity.
Qed.

Definition stop (k : nat) : bool := negb (nonempty (IG k) && xlt (tq k) tmax).

Lemma dloop_run : forall fuel k s, dinv k s ->
  (nonempty (IG k) = true -> (length (SG k) < fuel)%nat) ->
  exists K sK, (k <= K)%nat /\ (forall j, (k <= j < K)%nat -> stop j = false) /\ stop K = true /\ dinv K sK /\
    dloop g (det_rules tt pick) None ord tmin tmax full i0 r0 fuel k (tq k) s = Ret (finish g tmin full i0 r0 sK).
Proof.
  induction fuel as [|f IH]; intros k s Hs Hf.
  - exists k, s. split; [lia|]. split; [intros j Hj; lia|].
    assert (E : nonempty (IG k) = false).
    { destruct (nonempty (IG k)) eqn:E; [|reflexivity]. specialize (Hf eq_refl). lia. }
    split; [unfold stop; rewrite E; reflexivity|]. split; [exact Hs|].
    cbn [dloop]. rewrite (iv_infs k s Hs), E. reflexivity.
  - destruct (stop k) eqn:Est.
    + exists k, s. split; [lia|]. split; [intros j Hj; lia|]. split; [exact Est|]. split; [exact Hs|].
      cbn [dloop]. rewrite (iv_infs k s Hs). unfold stop in Est. apply negb_true_iff in Est. rewrite Est. reflexivity.
    + destruct (step_dinv k s Hs) as [s' [Hstep Hs']].
      assert (Hne : nonempty (IG k) = true).
      { unfold stop in Est. apply negb_false_iff in Est. apply andb_true_iff in Est. apply Est. }
      specialize (Hf Hne).
      destruct (IH (S k) s' Hs') as [K [sK [HK [Hj [HsK [HiK Hrun]]]]]].
      * intro Hne'. pose proof (Sg_split g T0 i0 r0 k) as Hsp. unfold lenZ in Hsp.
        destruct (IG (S k)) eqn:EI; [discriminate Hne'|]. cbn [length] in Hsp. lia.
      * exists K, sK. split; [lia|]. split.
        { intros j Hjr. destruct (Nat.eq_dec j k) as [E|E]; [subst j; exact Est|apply Hj; lia]. }
        split; [exact HsK|]. split; [exact HiK|].
        cbn [dloop]. rewrite (iv_infs k s Hs). unfold stop in Est. apply negb_false_iff in Est. rewrite Est.
        rewrite Hstep. cbn [bind]. exact Hrun.
Qed.


(* the outputs of the L1 generation sequence stopped at step K *)
Definition l1_rows (K : nat) : list row := rev (rows_to K).
Definition l1_hist (K : nat) : list (node * history) :=
  map (fun u => (u, (tmin, init_status i0 r0 u) :: events_to K u)) (gnodes g).
Definition first_stop (K : nat) : Prop := (forall j, (j < K)%nat -> stop j = false) /\ stop K = true.

Lemma first_stop_unique : forall K K', first_stop K -> first_stop K' -> K = K'.
Proof.
  intros K K' [H1 H2] [H1' H2']. destruct (Nat.lt_trichotomy K K') as [L|[E|L]]; [|exact E|].
  - rewrite (H1' K L) in H2. discriminate.
  - rewrite (H1 K' L) in H2'. discriminate.
Qed.

Lemma dsir_from_l1 : forall fuel, (length (gnodes g) < fuel)%nat ->
  exists K out, first_stop K /\
    dloop g (det_rules tt pick) None ord tmin tmax full i0 r0 fuel O tmin (init_state g tmin full i0 r0) = Ret out /\
    so_rows (o_sim out) = l1_rows K /\
    (if full then exists tr, so_full (o_sim out) = Some (mkFull (l1_hist K) tr)
     else so_full (o_sim out) = None).
Proof.
  intros fuel Hf.
  destruct (dloop_run fuel O (init_state g tmin full i0 r0) init_dinv) as [K [sK [_ [Hj [Hst [Hinv Hrun]]]]]].
  - intros _. eapply Nat.le_lt_trans; [|exact Hf].
    unfold Sg. cbn [gen gen0 fst]. apply filter_len_le.
  - exists K, (finish g tmin full i0 r0 sK). split; [split; [intros j Hj'; apply Hj; lia|exact Hst]|].
    split; [exact Hrun|]. unfold finish. cbn [o_sim so_rows so_full]. split.
    + unfold l1_rows. rewrite (iv_rows K sK Hinv). reflexivity.
    + destruct full; [|reflexivity]. eexists. f_equal. f_equal.
      unfold build_hist, l1_hist. apply map_ext. intro u. rewrite (iv_hist K sK Hinv). reflexivity.
Qed.

End WithOrd.

(* S + I + R = N in every generation *)
Lemma l1_conserve : forall k, (lenZ (SG k) + lenZ (IG k) + Rg k)%Z = order g.
Proof.
  induction k as [|k IH].
  - rewrite count_S0. cbn [Rg]. unfold Ig. cbn [gen gen0 snd].
    assert (E : lenZ (canon g i0) = lenZ i0).
    { unfold lenZ. rewrite NoDup_length_canon; [reflexivity|exact Hnd|exact Hi0nd|exact Hi0]. }
    rewrite E. lia.
  - cbn [Rg]. pose proof (Sg_split g T0 i0 r0 k). lia.
Qed.

Lemma tq_spec : forall k, tq k == tmin + inject_Z (Z.of_nat k).
Proof.
  induction k as [|k IH].
  - cbn. ring.
  - cbn [tq]. rewrite IH. rewrite Nat2Z.inj_succ. unfold Z.succ. rewrite inject_Z_plus. ring.
Qed.

(* the recorded history of v: it turns I at the (k+1)-st time exactly when it belongs to
   generation k+1, and R exactly one step after belonging to a generation *)
Lemma events_spec : forall K v e, In e (events_to K v) <->
  exists k, (k < K)%nat /\ full && le_x (tq (S k)) tmax = true /\
    ((e = (tq (S k), stR) /\ In v (IG k)) \/ (e = (tq (S k), stI) /\ In v (IG (S k)))).
Proof.
  induction K as [|K IH]; intros v e.
  - cbn. split; [intros []|intros [k [Hk _]]; lia].
  - cbn [events_to]. rewrite in_app_iff, IH. split.
    + intros [[k [Hk H]]|H].
      * exists k. split; [lia|exact H].
      * exists K. split; [lia|]. destruct (full && le_x (tq (S K)) tmax); [|destruct H].
        split; [reflexivity|]. apply in_app_or in H. destruct H as [H|H].
        -- left. destruct (mem v (IG K)) eqn:E; [|destruct H]. destruct H as [H|[]]. split; [symmetry; exact H|apply dmem_In; exact E].
        -- right. destruct (mem v (IG (S K))) eqn:E; [|destruct H]. destruct H as [H|[]]. split; [symmetry; exact H|apply dmem_In; exact E].
    + intros [k [Hk [Hg H]]]. destruct (Nat.eq_dec k K) as [E|E].
      * subst k. right. rewrite Hg. apply in_or_app. destruct H as [[He Hin]|[He Hin]].
        -- left. apply dmem_In in Hin. rewrite Hin. left. symmetry. exact He.
        -- right. apply dmem_In in Hin. rewrite Hin. left. symmetry. exact He.
      * left. exists k. split; [lia|]. split; assumption.
Qed.

(* two iteration orders: same rows, same node histories *)
Lemma dsir_perm_indep_from : forall ord1 ord2 fuel1 fuel2,
  (forall k l, Permutation (ord1 k l) l) -> (forall k l, Permutation (ord2 k l) l) ->
  (length (gnodes g) < fuel1)%nat -> (length (gnodes g) < fuel2)%nat ->
  exists out1 out2,
    dloop g (det_rules tt pick) None ord1 tmin tmax full i0 r0 fuel1 O tmin (init_state g tmin full i0 r0) = Ret out1 /\
    dloop g (det_rules tt pick) None ord2 tmin tmax full i0 r0 fuel2 O tmin (init_state g tmin full i0 r0) = Ret out2 /\
    so_rows (o_sim out1) = so_rows (o_sim out2) /\
    option_map fd_hist (so_full (o_sim out1)) = option_map fd_hist (so_full (o_sim out2)).
Proof.
  intros ord1 ord2 fuel1 fuel2 H1 H2 Hf1 Hf2.
  destruct (dsir_from_l1 ord1 H1 fuel1 Hf1) as [K1 [o1 [Hs1 [Hr1 [Hrows1 Hh1]]]]].
  destruct (dsir_from_l1 ord2 H2 fuel2 Hf2) as [K2 [o2 [Hs2 [Hr2 [Hrows2 Hh2]]]]].
  assert (E : K1 = K2) by (apply first_stop_unique; assumption). subst K2.
  exists o1, o2. split; [exact Hr1|]. split; [exact Hr2|]. split; [congruence|].
  destruct full.
  - destruct Hh1 as [t1 Hh1]. destruct Hh2 as [t2 Hh2]. rewrite Hh1, Hh2. reflexivity.
  - rewrite Hh1, Hh2. reflexivity.
Qed.

End Run.

(* ------------------------------------------------------------------ *)
(* Part 4b: statements over boolean well-formedness                      *)

Definition wf_inputb (g : graph) (i0 r0 : list node) : bool :=
  nodupb (gnodes g) && forallb (fun u => subsetb (gadj g u) (gnodes g)) (gnodes g) &&
  nodupb i0 && nodupb r0 && subsetb i0 (gnodes g) && subsetb r0 (gnodes g) &&
  forallb (fun v => negb (mem v r0)) i0.

Definition perm_oracle (ord : nat -> list node -> list node) : Prop :=
  forall k l, Permutation (ord k l) l.

Lemma subsetb_In : forall a b, subsetb a b = true -> forall v, In v a -> In v b.
Proof.
  intros a b H v Hv. unfold subsetb in H. rewrite forallb_forall in H. apply dmem_In. apply H. exact Hv.
Qed.

Lemma wf_input_props : forall g i0 r0, wf_inputb g i0 r0 = true ->
  NoDup (gnodes g) /\ (forall u v, In u (gnodes g) -> In v (gadj g u) -> In v (gnodes g)) /\
  (forall v, In v i0 -> In v (gnodes g)) /\ (forall v, In v r0 -> In v (gnodes g)) /\
  NoDup i0 /\ NoDup r0 /\ (forall v, In v i0 -> ~ In v r0).
Proof.
  intros g i0 r0 H. unfold wf_inputb in H.
  apply andb_true_iff in H. destruct H as [H H7]. apply andb_true_iff in H. destruct H as [H H6].
  apply andb_true_iff in H. destruct H as [H H5]. apply andb_true_iff in H. destruct H as [H H4].
  apply andb_true_iff in H. destruct H as [H H3]. apply andb_true_iff in H. destruct H as [H1 H2].
  split; [apply nodupb_NoDup; exact H1|].
  split. { intros u v Hu Hv. rewrite forallb_forall in H2. specialize (H2 u Hu). cbv beta in H2.
           exact (subsetb_In _ _ H2 v Hv). }
  split; [apply subsetb_In; exact H5|]. split; [apply subsetb_In; exact H6|].
  split; [apply nodupb_NoDup; exact H3|]. split; [apply nodupb_NoDup; exact H4|].
  intros v Hv. rewrite forallb_forall in H7. specialize (H7 v Hv). cbv beta in H7.
  apply dmem_false. apply negb_true_iff. exact H7.
Qed.

(* discrete_SIR with a rule that is a function of the contact, no recovery test: the run is the
   L1 generation sequence stopped at the first k with I_k empty or tmin + k >= tmax; the
   generation sets are the breadth-first levels; S + I + R = N *)
Theorem dsir_bfs : forall g tt pick ord i0 r0o tmin tmax full fuel,
  let r0 := opt_list r0o in let T := T0 tt in
  wf_inputb g i0 r0 = true -> perm_oracle ord -> (length (gnodes g) < fuel)%nat ->
  exists K out,
    first_stop g tt i0 r0 tmin tmax K /\
    discrete_SIR g (det_rules tt pick) None ord (Some i0) r0o None tmin tmax full fuel = Ret out /\
    so_rows (o_sim out) = l1_rows g tt i0 r0 tmin K /\
    (if full then exists tr, so_full (o_sim out) = Some (mkFull (l1_hist g tt full i0 r0 tmin tmax K) tr)
     else so_full (o_sim out) = None) /\
    (forall k v, In v (Ig g T i0 r0 k) <-> bfs_dist g T i0 r0 v k) /\
    (forall k, (lenZ (Sg g T i0 r0 k) + lenZ (Ig g T i0 r0 k) + Rg g tt i0 r0 k)%Z = order g).
Proof.
  intros g tt pick ord i0 r0o tmin tmax full fuel r0 T Hwf Hord Hf.
  destruct (wf_input_props g i0 r0 Hwf) as [Hnd [Hadj [Hi0 [Hr0 [Hi0nd [Hr0nd Hdisj]]]]]].
  destruct (dsir_from_l1 g tt pick full i0 r0 tmin tmax Hnd Hadj Hi0 Hr0 Hi0nd Hr0nd Hdisj ord Hord fuel Hf)
    as [K [out [Hst [Hrun [Hrows Hh]]]]].
  exists K, out. split; [exact Hst|]. split; [exact Hrun|]. split; [exact Hrows|]. split; [exact Hh|].
  split.
  - intros k v. apply gen_is_bfs; assumption.
  - apply l1_conserve; assumption.
Qed.

(* the outputs do not depend on the order in which Python iterates the set `infecteds` *)
Theorem dsir_perm_indep : forall g tt pick ord1 ord2 i0 r0o tmin tmax full fuel1 fuel2,
  wf_inputb g i0 (opt_list r0o) = true -> perm_oracle ord1 -> perm_oracle ord2 ->
  (length (gnodes g) < fuel1)%nat -> (length (gnodes g) < fuel2)%nat ->
  exists out1 out2,
    discrete_SIR g (det_rules tt pick) None ord1 (Some i0) r0o None tmin tmax full fuel1 = Ret out1 /\
    discrete_SIR g (det_rules tt pick) None ord2 (Some i0) r0o None tmin tmax full fuel2 = Ret out2 /\
    so_rows (o_sim out1) = so_rows (o_sim out2) /\
    option_map fd_hist (so_full (o_sim out1)) = option_map fd_hist (so_full (o_sim out2)).
Proof.
  intros g tt pick ord1 ord2 i0 r0o tmin tmax full fuel1 fuel2 Hwf H1 H2 Hf1 Hf2.
  destruct (wf_input_props g i0 _ Hwf) as [Hnd [Hadj [Hi0 [Hr0 [Hi0nd [Hr0nd Hdisj]]]]]].
  exact (dsir_perm_indep_from g tt pick full i0 (opt_list r0o) tmin tmax Hnd Hadj Hi0 Hr0 Hi0nd Hr0nd Hdisj
           ord1 ord2 fuel1 fuel2 H1 H2 Hf1 Hf2).
Qed.

(* basic_discrete_SIR is discrete_SIR with the default rule and no recovery test *)
Lemma basic_forwards :
  forall g p ord i0 r0 rho tmin tmax full fuel,
    basic_discrete_SIR g p ord i0 r0 rho tmin tmax full fuel =
    discrete_SIR g (simple_rules p) None ord i0 r0 rho tmin tmax full fuel.
Proof. reflexivity. Qed.

