(* (a) rnd53 leaves every dyadic m * 2^e with |m| <= 2^53 alone (all binary64 numbers
       are of that shape; the model has no exponent range, so no underflow/overflow);
   (b) with the monotonicity of Proofs/ListDictFPm.v the accept threshold
       fl(weight/max_weight) of _ListDict_.choose_random is a probability after EVERY
       history, under binary64, with no hypothesis about the rounding left. *)
From EoNV Require Import Prelude Samp ListDict ListDictP ListDictF ListDictFP ListDictFPr ListDictFPr2
  ListDictFP2 ListDictFP3 ListDictFP4 ListDictFPb ListDictFPm.
From Coq Require Import Qabs Qpower Lqa.

(* ---------- exactness on dyadics with at most p significant bits ---------- *)
Lemma rnd_prec_proper : forall p x y, x == y -> rnd_prec p x = rnd_prec p y.
Proof. intros p x y H. unfold rnd_prec. rewrite (Qred_complete x y H). reflexivity. Qed.

Lemma inj_pos_mul_pow : forall m e, (0 < m)%Z -> 0 < inject_Z m * 2 ^ e.
Proof.
  intros m e Hm. apply Qmult_lt_0_compat; [|apply two_pow_pos].
  change 0 with (inject_Z 0). rewrite <- Zlt_Qlt. exact Hm.
Qed.

Lemma rnd_prec_exact_pos : forall p m e, (1 <= p)%Z -> (0 < m <= 2 ^ p)%Z ->
  rnd_prec p (inject_Z m * 2 ^ e) == inject_Z m * 2 ^ e.
Proof.
  intros p m e Hp [Hm0 Hm1]. set (v := inject_Z m * 2 ^ e).
  assert (Hv : 0 < v) by (apply inj_pos_mul_pow; exact Hm0).
  rewrite (rnd_prec_of_pos p v Hv).
  destruct (Z.eq_dec m (2 ^ p)) as [E|E].
  - rewrite (rnd_pos_fix p m e (Qred v) Hp); [apply Qred_correct| |rewrite Qred_correct; reflexivity].
    split; [|lia]. rewrite E. apply Z.pow_le_mono_r; lia.
  - assert (Hlt : (m < 2 ^ p)%Z) by lia.
    assert (Hl : (Z.log2 m < p)%Z) by (apply Z.log2_lt_pow2; [exact Hm0|exact Hlt]).
    pose proof (Z.log2_nonneg m) as Hl0.
    destruct (Z.log2_spec m Hm0) as [Hs1 Hs2].
    set (k := (p - 1 - Z.log2 m)%Z). assert (Hk : (0 <= k)%Z) by (unfold k; lia).
    assert (Hpk : (0 < 2 ^ k)%Z) by (apply Z.pow_pos_nonneg; lia).
    assert (E1 : (2 ^ (p - 1) = 2 ^ Z.log2 m * 2 ^ k)%Z).
    { rewrite <- Z.pow_add_r by lia. f_equal. unfold k. lia. }
    assert (E2 : (2 ^ p = 2 ^ Z.succ (Z.log2 m) * 2 ^ k)%Z).
    { rewrite <- Z.pow_add_r by lia. f_equal. unfold k. lia. }
    rewrite (rnd_pos_fix p (m * 2 ^ k) (e - k) (Qred v) Hp); [apply Qred_correct| |].
    + split; [rewrite E1; apply Z.mul_le_mono_nonneg_r; lia|].
      rewrite E2. apply Z.lt_le_incl. apply Z.mul_lt_mono_pos_r; lia.
    + rewrite Qred_correct. unfold v. rewrite inject_Z_mult, inj_pow2 by lia.
      rewrite <- Qmult_assoc, <- two_pow_add. replace (k + (e - k))%Z with e by lia. reflexivity.
Qed.

Theorem rnd_prec_exact : forall p m e, (1 <= p)%Z -> (Z.abs m <= 2 ^ p)%Z ->
  rnd_prec p (inject_Z m * 2 ^ e) == inject_Z m * 2 ^ e.
Proof.
  intros p m e Hp Hm. destruct (Z.lt_trichotomy m 0) as [H|[H|H]].
  - assert (E : inject_Z m * 2 ^ e == - (inject_Z (- m) * 2 ^ e)).
    { rewrite inject_Z_opp. ring. }
    rewrite (rnd_prec_proper p _ _ E), rnd_prec_opp, E.
    rewrite (rnd_prec_exact_pos p (- m) e Hp); [reflexivity|lia].
  - subst m. assert (E : inject_Z 0 * 2 ^ e == 0) by ring.
    rewrite (rnd_prec_zero p _ E). rewrite E. reflexivity.
  - apply rnd_prec_exact_pos; [exact Hp|lia].
Qed.

(* every dyadic with at most 53 significant bits is a fixed point of rnd53 *)
Theorem rnd53_exact_dyadic : forall (m e : Z), (Z.abs m <= 2 ^ 53)%Z ->
  rnd53 (inject_Z m * 2 ^ e) == inject_Z m * 2 ^ e.
Proof. intros m e H. apply rnd_prec_exact; [lia|exact H]. Qed.

(* and conversely every value of rnd53 is such a dyadic (from rnd_prec_shape) *)
Theorem rnd53_value_dyadic : forall x, exists (m e : Z), (Z.abs m <= 2 ^ 53)%Z /\
  rnd53 x == inject_Z m * 2 ^ e.
Proof.
  intro x. assert (Hp : (1 <= 53)%Z) by lia.
  assert (H52 : (0 < 2 ^ (53 - 1))%Z) by reflexivity.
  destruct (rnd_prec_shape 53 x Hp) as [E|[m [e [Hm [E|E]]]]].
  - exists 0%Z, 0%Z. split; [discriminate|]. unfold rnd53. rewrite E. reflexivity.
  - exists m, e. split; [lia|]. unfold rnd53. rewrite E. reflexivity.
  - exists (- m)%Z, e. split; [lia|]. unfold rnd53. rewrite E. rewrite inject_Z_opp. ring.
Qed.

(* ---------- the accept threshold under binary64 ---------- *)
Section B64M.
Variable K : Type.
Variable Keqb : K -> K -> bool.
Hypothesis Keqb_spec : forall a b, reflect (a = b) (Keqb a b).

Lemma b64_run_inv : forall (ops : list (op K)) (s : ld K),
  Forall (op_ok K true) ops -> ldf_run K Keqb rnd53 (ld_empty true) ops = Ok s ->
  ldf_inv K s /\ weighted s = true.
Proof.
  intros ops s Hok He. destruct eps53_range as [H0 H1].
  destruct (ldf_run_inv K Keqb Keqb_spec rnd53 eps53 H0 H1 rnd53_err ops (ld_empty true) s
              (ldf_empty_inv K true) eq_refl (fun _ => eq_refl) Hok He) as [Hinv [Hw _]].
  split; assumption.
Qed.

Lemma eps53_lt1 : eps53 < 1.
Proof. reflexivity. Qed.

(* 0 <= fl(w/M) <= 1, and fl(w/M) = 0 exactly when w = 0 (the model has no exponent
   range: IEEE underflow of w/M to 0 needs w/M < 2^-1075 and is outside the model) *)
Theorem b64_threshold_probability : forall (ops : list (op K)) (s : ld K) k,
  Forall (op_ok K true) ops -> ldf_run K Keqb rnd53 (ld_empty true) ops = Ok s -> 0 < maxw s ->
  0 <= ldf_threshold K rnd53 s k /\ ldf_threshold K rnd53 s k <= 1 /\
  (ldf_threshold K rnd53 s k == 0 <-> wread K s k == 0).
Proof.
  intros ops s k Hok He HM. destruct eps53_range as [H0 H1].
  destruct (ldf_threshold_le1 K Keqb Keqb_spec rnd53 eps53 H0 H1 rnd53_err rnd53_proper_eq
              rnd53_idem rnd53_monotone rnd53_one ops s k Hok He HM) as [Ha Hb].
  split; [exact Ha|]. split; [exact Hb|].
  unfold ldf_threshold, fdiv. rewrite rnd53_zero_iff. split; intro H.
  - assert (E : wread K s k == (wread K s k / maxw s) * maxw s) by (field; lra).
    rewrite E, H. ring.
  - rewrite H. unfold Qdiv. ring.
Qed.

(* a candidate of positive weight: max_weight is positive by itself, the threshold is
   in (0, 1] — such a candidate can be accepted, and is never accepted surely wrongly *)
Theorem b64_threshold_positive_weight : forall (ops : list (op K)) (s : ld K) k,
  Forall (op_ok K true) ops -> ldf_run K Keqb rnd53 (ld_empty true) ops = Ok s ->
  0 < wread K s k ->
  0 < maxw s /\ 0 < ldf_threshold K rnd53 s k /\ ldf_threshold K rnd53 s k <= 1.
Proof.
  intros ops s k Hok He Hwk.
  assert (HM : 0 < maxw s).
  { destruct (b64_max_weight_bounds K Keqb Keqb_spec ops s Hok He k) as [H|H]; [lra|].
    unfold ListDict.wread in Hwk. rewrite H in Hwk. lra. }
  split; [exact HM|].
  destruct (b64_threshold_probability ops s k Hok He HM) as [Ha [Hb Hc]].
  split; [|exact Hb].
  destruct (Qlt_le_dec 0 (ldf_threshold K rnd53 s k)) as [L|L]; [exact L|exfalso].
  assert (E : ldf_threshold K rnd53 s k == 0) by lra.
  apply Hc in E. lra.
Qed.

(* the heaviest candidates are accepted with probability exactly 1 *)
Theorem b64_threshold_heaviest : forall (s : ld K) k,
  0 < maxw s -> wread K s k == maxw s -> ldf_threshold K rnd53 s k == 1.
Proof.
  intros s k HM E. unfold ldf_threshold, fdiv.
  assert (E1 : wread K s k / maxw s == 1) by (rewrite E; field; lra).
  rewrite (rnd53_proper _ _ E1). exact rnd53_one.
Qed.

(* rounding never inverts the order of two candidates *)
Theorem b64_threshold_order : forall (s : ld K) k1 k2,
  0 < maxw s -> wread K s k1 <= wread K s k2 ->
  ldf_threshold K rnd53 s k1 <= ldf_threshold K rnd53 s k2.
Proof.
  intros s k1 k2 HM H. unfold ldf_threshold, fdiv. apply rnd53_monotone.
  unfold Qdiv. apply Qmult_le_compat_r; [exact H|].
  apply Qlt_le_weak, Qinv_lt_0_compat, HM.
Qed.

End B64M.

(* ---------- non-vacuity, computed ---------- *)
(* 1/3 and 1/3 + 2^-60 round to the same double; 1/3 + 2^-54 to the next one *)
Definition third : Q := 1 # 3.
Lemma rnd53_mono_example :
  rnd53 third <= rnd53 (third + 2 ^ (-60)) /\
  rnd53 third == rnd53 (third + 2 ^ (-60)) /\
  rnd53 third < rnd53 (third + 2 ^ (-54)) /\
  ~ rnd53 third == third.
Proof.
  split; [apply rnd53_monotone; vm_compute; discriminate|].
  split; [vm_compute; reflexivity|].
  split; [vm_compute; reflexivity|].
  vm_compute. discriminate.
Qed.

(* a tie: 2^53 + 1 lies halfway between the doubles 2^53 and 2^53 + 2 and goes to the
   even significand (down); 2^53 + 3 goes up to 2^53 + 4: still monotone *)
Lemma rnd53_tie_example :
  rnd53 (inject_Z (2 ^ 53 + 1)) == inject_Z (2 ^ 53) /\
  rnd53 (inject_Z (2 ^ 53 + 3)) == inject_Z (2 ^ 53 + 4) /\
  rnd53 (- inject_Z (2 ^ 53 + 1)) == - inject_Z (2 ^ 53).
Proof. repeat split; vm_compute; reflexivity. Qed.

(* binade boundary: just below 1 rounds up to 1, 1 stays, monotone across the boundary *)
Lemma rnd53_boundary_example :
  rnd53 (1 - 2 ^ (-60)) == 1 /\ rnd53 (1 - 2 ^ (-53)) == 1 - 2 ^ (-53) /\
  rnd53 (1 + 2 ^ (-53)) == 1 /\ rnd53 (1 + 2 ^ (-52)) == 1 + 2 ^ (-52).
Proof. repeat split; vm_compute; reflexivity. Qed.

(* a history of binary64 weights 0.1, 0.3, 0.7 (0.7 heaviest): thresholds computed *)
Definition m_ops : list (op N) :=
  [OpInsert 1%N d01; OpInsert 2%N d03; OpInsert 3%N d07; OpUpdate 1%N d02].
Definition m_state : ld N :=
  match ldf_run N N.eqb rnd53 (ld_empty true) m_ops with Ok s => s | Err _ => ld_empty true end.

Lemma m_ops_ok : Forall (op_ok N true) m_ops.
Proof.
  unfold m_ops. repeat (apply Forall_cons;
    [vm_compute; first [exact I | split; [reflexivity|discriminate]]|]). apply Forall_nil.
Qed.

Lemma m_run : ldf_run N N.eqb rnd53 (ld_empty true) m_ops = Ok m_state.
Proof. vm_compute. reflexivity. Qed.

Definition b64_threshold_example_statement : Prop :=
  Forall (op_ok N true) m_ops /\
  ldf_run N N.eqb rnd53 (ld_empty true) m_ops = Ok m_state /\
  0 < maxw m_state /\
  ldf_threshold N rnd53 m_state 3%N == 1 /\
  0 < ldf_threshold N rnd53 m_state 1%N /\ ldf_threshold N rnd53 m_state 1%N < 1 /\
  ~ ldf_threshold N rnd53 m_state 1%N == wread N m_state 1%N / maxw m_state.
Lemma b64_threshold_example_proof : b64_threshold_example_statement.
Proof.
  split; [exact m_ops_ok|]. split; [exact m_run|].
  split; [vm_compute; reflexivity|]. split; [vm_compute; reflexivity|].
  split; [vm_compute; reflexivity|]. split; [vm_compute; reflexivity|].
  vm_compute. discriminate.
Qed.

Print Assumptions rnd53_exact_dyadic.
Print Assumptions b64_threshold_probability.
