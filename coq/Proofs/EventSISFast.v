(* fast_SIS: the invariant of the event loop that carries the lock-step logs.
   [FInv clock s] extends [MInv] (Proofs/EventSISP4.v) by: the phase (the initial
   source-less transmissions still sit in front of the queue, or the logs are
   [LL] = initial entries + lock-step lists); every queued time is >= the clock
   and < tmax; a susceptible node's rec_time is in the past; every recorded
   transmission from u happened strictly before rec_time[u]; and the checker
   [strict_ok]: every recovery of u comes strictly after every earlier
   transmission from u.  It is preserved by every step of [ml_rel], so it holds
   at the end of every run of [exec]. *)
From EoNV Require Import Prelude Samp Graph ListDict ListDictP Gillespie KldP GillespieInv SampP GillespieP GillespieLog.
From EoNV Require Import Investigation InvestigationP GillespieC10.
From EoNV Require Import EventSIS EventSISP EventSISP4 EventSISRows EventSISLog EventSISTrace EventSISRel.
From Coq Require Import Permutation Sorted Lqa.

(* every recovery of u is strictly later than every transmission from u recorded before
   it (lists newest first, in step: one transmission entry per infection event) *)
Fixpoint strict_ok (evs : list ev) (txs : list tx) : bool :=
  match evs with
  | [] => true
  | (t, v, s) :: rest =>
    if N.eqb s stI then match txs with _ :: trest => strict_ok rest trest | [] => false end
    else forallb (fun x : tx => match snd (fst x) with
                                | Some u => negb (N.eqb u v) || Qltb (fst (fst x)) t
                                | None => true end) txs && strict_ok rest txs
  end.

Lemma Forall_q_add : forall {E} tmax (Pp : qent E -> Prop) (q : queue E) t e,
  Forall Pp (q_items q) -> (xlt t tmax = true -> Pp (t, q_ctr q, e)) -> Forall Pp (q_items (q_add tmax q t e)).
Proof.
  intros E tmax Pp q t e H Hn. unfold q_add. destruct (xlt t tmax) eqn:V; [|exact H]. cbn [q_items].
  eapply Permutation_Forall; [apply Permutation_sym; apply qins_perm|]. constructor; [apply Hn; reflexivity|exact H].
Qed.

Lemma xtlt_Some : forall a b, xtlt (Some a) (Some b) = true <-> a < b.
Proof. intros. cbn [xtlt]. apply Qltb_true. Qed.

Section Fast.
Variable g : graph.
Hypothesis Hnd : NoDup (gnodes g).
Hypothesis Hadj : forall u v, In v (gadj g u) -> In v (gnodes g).
Variables tau gamma : Q.
Variable tmax : xtime.
Variable tmin : Q.
Hypothesis Hvis : xlt tmin tmax = true.
Variable i0 : list node.
Hypothesis Hi0 : NoDup i0.
Hypothesis Hinc : incl i0 (gnodes g).

Notation LL := (LL g tmin tmax i0).
Notation lnow := (lnow tmin).
Notation fn_rel := (fn_rel g tau tmax).
Notation fna_rel := (fna_rel g tau tmax).
Notation after_rel := (after_rel g tau tmax).
Notation mt_rel := (mt_rel g tau gamma tmax).
Notation ml_rel := (ml_rel g tau gamma tmax).
Notation inf_state := (inf_state tmax).
Notation fin_state := (fin_state tmax).

Definition sourced (x : qent mev) : Prop := match snd x with MTrans None _ => False | _ => True end.

Definition txJ (s : mst) (txs : list tx) : Prop :=
  forall t u v, In (t, Some u, v) txs -> xtlt (Some t) (ms_rec s u) = true.

(* [pend]: initial nodes whose queue entry has been popped but which are not logged yet
   (empty between two events) *)
Inductive phaseP (pend : list node) (s : mst) : Prop :=
| ph_init : forall done rem P l, i0 = done ++ pend ++ rem -> q_items (ms_q s) = P ++ l ->
    front tmin P (q_ctr (ms_q s)) -> map snd P = map (fun u => MTrans None u) rem -> Forall sourced l ->
    ms_log s = linit g tmin done -> ms_stat s = st_init done [] -> phaseP pend s
| ph_main : forall evs txs, pend = [] -> LL true evs txs (ms_log s) (ms_stat s) ->
    Forall sourced (q_items (ms_q s)) -> txJ s txs -> strict_ok evs txs = true -> phaseP pend s.

Record FCore (clock : Q) (s : mst) : Prop := mkFCore {
  f_minv : MInv g s;
  f_tmin : tmin <= clock;
  f_now : lnow (ms_log s) <= clock;
  f_q : Forall (fun x => clock <= qtime x) (q_items (ms_q s));
  f_vis : Forall (fun x => xlt (qtime x) tmax = true) (q_items (ms_q s));
  f_K : forall u, ms_stat s u = stS -> exists r, ms_rec s u = Some r /\ r <= clock;
  f_nodes : forall u, ms_stat s u = stI -> In u (gnodes g)
}.

Definition FInvP (pend : list node) (clock : Q) (s : mst) : Prop := FCore clock s /\ phaseP pend s.

(* ---------------- the initial state ---------------- *)
Lemma FInv_init : FInvP [] tmin (m_init g tmax tmin i0).
Proof.
  destruct (init_front tmax tmin (fun u => MTrans None u) i0 [] 0 Hvis (Forall_nil _)) as [P' [E1 [E2 E3]]].
  cbn [app] in E1, E3. fold (@q_empty mev) in E1, E3.
  split; [constructor|].
  - apply m_init_inv.
  - lra.
  - cbn [m_init ms_log]. change (logs0 g tmin) with (linit g tmin []). rewrite lnow_linit. lra.
  - cbn [m_init ms_q]. rewrite E1. eapply Forall_impl; [|exact E3]. intros p [H1 _]. rewrite H1. lra.
  - cbn [m_init ms_q]. rewrite E1. eapply Forall_impl; [|exact E3]. intros p [H1 _]. rewrite H1. exact Hvis.
  - intros u _. cbn [m_init ms_rec]. exists (tmin - 1). split; [reflexivity|lra].
  - intros u H. discriminate H.
  - apply (ph_init _ _ [] i0 P' []); cbn [m_init ms_q ms_log ms_stat app]; try reflexivity.
    + rewrite app_nil_r. exact E1.
    + exact E3.
    + exact E2.
    + constructor.
Qed.

(* ---------------- Q.add of a sourced attempt ---------------- *)
Lemma FCore_qadd : forall clock s t u v,
  FCore clock s -> clock <= t -> ms_stat s u = stI -> xtlt (Some t) (ms_rec s u) = true -> mem v (gadj g u) = true ->
  FCore clock (set_q s (q_add tmax (ms_q s) t (MTrans (Some u) v))).
Proof.
  intros clock s t u v [Hm Ht Hn Hq Hv HK HN] Hct Hu Hr Ha.
  destruct (MInv_add g tmax s t (MTrans (Some u) v) Hm) as [Hm' _].
  { intros _. unfold src_ok. cbn [snd qtime fst]. repeat split; assumption. }
  { intros w Hw. discriminate Hw. }
  constructor; cbn [set_q ms_stat ms_rec ms_log ms_q]; try assumption.
  - apply Forall_q_add; [exact Hq|intros _; cbn [qtime fst]; exact Hct].
  - apply Forall_q_add; [exact Hv|intro V; cbn [qtime fst]; exact V].
Qed.

Lemma phaseP_qadd : forall pend s t e,
  phaseP pend s -> tmin <= t -> sourced (t, O, e) -> phaseP pend (set_q s (q_add tmax (ms_q s) t e)).
Proof.
  intros pend s t e Hp Ht He.
  destruct Hp as [done rem P l E1 E2 E3 E4 E5 E6 E7|evs txs Ep HL Hs HJ Hst].
  - destruct (q_add_front tmax tmin (ms_q s) P l t e E2 E3 Ht) as [l' [F1 [F2 F3]]].
    apply (ph_init _ _ done rem P l'); cbn [set_q ms_stat ms_rec ms_log ms_q]; try assumption.
    destruct F3 as [->|[_ F3]]; [exact E5|].
    eapply Permutation_Forall; [apply Permutation_sym; exact F3|]. constructor; [exact He|exact E5].
  - apply (ph_main _ _ evs txs); cbn [set_q ms_stat ms_rec ms_log ms_q]; try assumption.
    apply Forall_q_add; [exact Hs|intros _; exact He].
Qed.

Lemma fin_state_cases : forall src tgt s t,
  fin_state src tgt s t = s \/
  (fin_state src tgt s t = set_q s (q_add tmax (ms_q s) t (MTrans (Some src) tgt)) /\
   xtlt (Some t) (ms_rec s src) = true /\ xlt t tmax = true).
Proof.
  intros src tgt s t. unfold EventSISRel.fin_state.
  destruct (xtlt (Some t) (ms_rec s src)) eqn:A; [|left; reflexivity].
  destruct (xlt t tmax) eqn:B; [|left; reflexivity]. right. repeat split.
Qed.

Lemma qonly_refl : forall s, qonly s s.
Proof. intro s. repeat split. Qed.
Lemma qonly_trans : forall a b c, qonly a b -> qonly b c -> qonly a c.
Proof. intros a b c [A1 [A2 A3]] [B1 [B2 B3]]. repeat split; congruence. Qed.
Lemma qonly_setq : forall s q, qonly s (set_q s q).
Proof. intros s q. repeat split. Qed.

Lemma fn_rel_pres : forall pend clock time src tgt s s' cs,
  fn_rel time src tgt s s' cs -> FInvP pend clock s -> clock <= time -> ms_stat s src = stI -> mem tgt (gadj g src) = true ->
  FInvP pend clock s' /\ qonly s s'.
Proof.
  intros pend clock time src tgt s s' cs H [Hc Hp] Hct Hs Ha.
  assert (K : forall t, clock <= t -> FInvP pend clock (fin_state src tgt s t) /\ qonly s (fin_state src tgt s t)).
  { intros t Ht. destruct (fin_state_cases src tgt s t) as [->|[-> [A B]]].
    - split; [split; assumption|apply qonly_refl].
    - split; [split|apply qonly_setq].
      + apply FCore_qadd; assumption.
      + apply phaseP_qadd; [exact Hp| |exact I]. pose proof (f_tmin _ _ Hc). lra. }
  destruct H as [G|G Hz|d G Hr Hd Hre|d r d2 G Hr Hd Er Hlt Hd2].
  - split; [split; assumption|apply qonly_refl].
  - split; [split; assumption|apply qonly_refl].
  - apply K. rewrite tadd_eq. lra.
  - apply K. rewrite tadd_eq. rewrite tadd_eq in Hlt. lra.
Qed.

Lemma fna_rel_pres : forall pend clock time u nbrs s s' cs,
  fna_rel time u nbrs s s' cs -> FInvP pend clock s -> clock <= time -> ms_stat s u = stI ->
  (forall v, In v nbrs -> In v (gadj g u)) ->
  FInvP pend clock s' /\ qonly s s'.
Proof.
  intros pend clock time u nbrs s s' cs H. induction H as [s|v rest s s1 s2 c1 c2 H1 H2 IH]; intros Hi Hct Hs Hn.
  - split; [exact Hi|apply qonly_refl].
  - destruct (fn_rel_pres pend clock time u v s s1 c1 H1 Hi Hct Hs) as [Hi1 Hq1].
    { apply mem_In_true. apply Hn. left. reflexivity. }
    destruct IH as [Hi2 Hq2]; [exact Hi1|exact Hct| |intros w Hw; apply Hn; right; exact Hw|].
    + destruct Hq1 as [E _]. rewrite E. exact Hs.
    + split; [exact Hi2|eapply qonly_trans; eassumption].
Qed.

Lemma after_rel_pres : forall pend clock time src tgt s s' cs,
  after_rel time src tgt s s' cs -> FInvP pend clock s -> clock <= time ->
  (forall u, src = Some u -> ms_stat s u = stI /\ mem tgt (gadj g u) = true) ->
  FInvP pend clock s' /\ qonly s s'.
Proof.
  intros pend clock time src tgt s s' cs H Hi Hct Hs. destruct H as [E|u s' c E H].
  - split; [exact Hi|apply qonly_refl].
  - destruct (Hs u E) as [A B]. apply (fn_rel_pres pend clock time u tgt s s' c H Hi Hct A B).
Qed.

(* ---------------- popping the head ---------------- *)
Inductive popped (t : Q) (e : mev) (s0 : mst) : Prop :=
| pop_init : forall done u rem P l, i0 = done ++ [u] ++ rem -> e = MTrans None u -> t = tmin ->
    q_items (ms_q s0) = P ++ l -> front tmin P (q_ctr (ms_q s0)) -> map snd P = map (fun u => MTrans None u) rem ->
    Forall sourced l -> ms_log s0 = linit g tmin done -> ms_stat s0 = st_init done [] -> popped t e s0
| pop_main : forall evs txs, sourced (t, O, e) -> LL true evs txs (ms_log s0) (ms_stat s0) ->
    Forall sourced (q_items (ms_q s0)) -> txJ s0 txs -> strict_ok evs txs = true -> popped t e s0.

Lemma FInv_pop : forall clock s t c e rest,
  FInvP [] clock s -> q_items (ms_q s) = (t, c, e) :: rest ->
  clock <= t /\ xlt t tmax = true /\ src_ok g s (t, c, e) /\
  (forall v, e = MRec v -> ~ In v (rec_nodes rest)) /\
  FCore t (pop_state s rest) /\ popped t e (pop_state s rest).
Proof.
  intros clock s t c e rest [[Hm Ht Hn Hq Hv HK HN] Hp] Eq.
  destruct (MInv_pop g s _ rest Hm Eq) as [Hm' [Hsrc [Hle Hfresh]]].
  rewrite Eq in Hq, Hv. inversion Hq as [|? ? Hq1 Hq2]; subst. inversion Hv as [|? ? Hv1 Hv2]; subst.
  cbn [qtime fst] in Hq1, Hv1, Hle.
  split; [exact Hq1|]. split; [exact Hv1|]. split; [exact Hsrc|]. split; [intros v Ev; apply Hfresh; cbn [snd]; exact Ev|].
  split.
  { constructor; cbn [pop_state set_q ms_log ms_stat ms_q ms_rec q_items]; try assumption; try lra.
    intros u Hu. destruct (HK u Hu) as [r [E Hr]]. exists r. split; [exact E|lra]. }
  destruct Hp as [done rem P l E1 E2 E3 E4 E5 E6 E7|evs txs _ HL Hs HJ Hst].
  - rewrite Eq in E2. cbn [app] in E1. destruct P as [|p P'].
    + (* the initial block is used up: main phase from now on *)
      destruct rem as [|? ?]; [|discriminate E4]. rewrite app_nil_r in E1. subst done.
      cbn [app] in E2. subst l. inversion E5 as [|? ? S1 S2]; subst.
      apply (pop_main t e _ [] []); cbn [pop_state set_q ms_log ms_stat ms_q ms_rec q_items].
      * exact S1.
      * rewrite E6, E7. apply LL_start.
      * exact S2.
      * intros t' u v [].
      * reflexivity.
    + cbn [app] in E2. injection E2 as Ep Er. subst p rest.
      destruct rem as [|u rem']; [discriminate E4|]. cbn [map snd] in E4. injection E4 as Ee E4.
      inversion E3 as [|? ? [F1 F2] F3]; subst. cbn [qtime fst] in F1.
      apply (pop_init t (MTrans None u) _ done u rem' P' l); cbn [pop_state set_q ms_log ms_stat ms_q ms_rec q_items q_ctr app]; try assumption; reflexivity.
  - rewrite Eq in Hs. inversion Hs as [|? ? S1 S2]; subst.
    apply (pop_main t e _ evs txs); cbn [pop_state set_q ms_log ms_stat ms_q ms_rec q_items]; assumption.
Qed.

Lemma popped_phase : forall t e s0, popped t e s0 ->
  (exists u, e = MTrans None u /\ t = tmin /\ phaseP [u] s0 /\ ms_stat s0 u = stS /\ In u (gnodes g)) \/
  (sourced (t, O, e) /\ phaseP [] s0).
Proof.
  intros t e s0 [done u rem P l E1 Ee Et E2 E3 E4 E5 E6 E7|evs txs Hs HL Hq HJ Hst].
  - left. exists u. split; [exact Ee|]. split; [exact Et|]. split; [|split].
    + apply (ph_init _ _ done rem P l); assumption.
    + rewrite E7. unfold st_init. cbn [set_all fold_left]. apply (set_all_notin done (fun _ => stS) stI u).
      intro Hin. pose proof Hi0 as Hn. rewrite E1 in Hn. apply NoDup_remove_2 in Hn. apply Hn. apply in_or_app. left. exact Hin.
    + apply Hinc. rewrite E1. apply in_or_app. right. left. reflexivity.
  - right. split; [exact Hs|]. apply (ph_main _ _ evs txs); try assumption. reflexivity.
Qed.

(* ---------------- an infection ---------------- *)
Definition rt_ok (t : Q) (rt : xtime) : Prop := rt = None \/ exists d, 0 <= d /\ rt = Some (tadd t d).

Lemma rec_draw_ok : forall t v rt c0, rec_draw g gamma t v rt c0 -> rt_ok t rt.
Proof. intros t v rt c0 [d Hr Hd|Hz]; [right; exists d; split; [exact Hd|reflexivity]|left; reflexivity]. Qed.

Lemma FCore_inf : forall t src tgt s0 rt,
  FCore t s0 -> ms_stat s0 tgt = stS -> In tgt (gnodes g) -> rt_ok t rt ->
  (forall u, src = Some u -> ms_stat s0 u = stI /\ mem tgt (gadj g u) = true) ->
  FCore t (inf_state t src tgt s0 rt).
Proof.
  intros t src tgt s0 rt [Hm Ht Hn Hq Hv HK HN] HS Hin Hrt Hsrc.
  constructor; cbn [EventSISRel.inf_state ms_stat ms_rec ms_log ms_q].
  - apply (infect_state_inv g tmax t src tgt s0 rt Hm HS Hsrc).
  - exact Ht.
  - rewrite lnow_inf. lra.
  - destruct rt as [r|]; [|exact Hq]. destruct (xtlt (Some r) tmax); [|exact Hq].
    apply Forall_q_add; [exact Hq|]. intros _. cbn [qtime fst].
    destruct Hrt as [E|[d [Hd E]]]; [discriminate E|]. injection E as ->. rewrite tadd_eq. lra.
  - destruct rt as [r|]; [|exact Hv]. destruct (xtlt (Some r) tmax); [|exact Hv].
    apply Forall_q_add; [exact Hv|]. intro V. exact V.
  - intros u Hu. unfold fupdN in *. destruct (N.eqb u tgt); [discriminate Hu|]. apply HK. exact Hu.
  - intros u Hu. destruct (N.eq_dec u tgt) as [E|E]; [rewrite E; exact Hin|]. apply HN.
    unfold fupdN in Hu. destruct (N.eqb_spec u tgt) as [E2|_]; [contradiction|exact Hu].
Qed.

Lemma sourced_inf_queue : forall (s0 : mst) tgt (rt : xtime) l,
  Forall sourced l ->
  (forall q, q_items q = l ->
     Forall sourced (q_items (match rt with
                              | Some r => if xtlt rt tmax then q_add tmax q r (MRec tgt) else q
                              | None => q end))).
Proof.
  intros s0 tgt rt l Hl q Eq. destruct rt as [r|]; [|rewrite Eq; exact Hl].
  destruct (xtlt (Some r) tmax); [|rewrite Eq; exact Hl].
  apply Forall_q_add; [rewrite Eq; exact Hl|intros _; exact I].
Qed.

Lemma inf_main : forall t u tgt s0 rt evs txs,
  FCore t s0 -> LL true evs txs (ms_log s0) (ms_stat s0) -> Forall sourced (q_items (ms_q s0)) ->
  txJ s0 txs -> strict_ok evs txs = true ->
  ms_stat s0 tgt = stS -> ms_stat s0 u = stI -> xtlt (Some t) (ms_rec s0 u) = true -> mem tgt (gadj g u) = true ->
  xlt t tmax = true -> rt_ok t rt ->
  FInvP [] t (inf_state t (Some u) tgt s0 rt).
Proof.
  intros t u tgt s0 rt evs txs Hc HL Hs HJ Hst HS HI Hru Ha Hx Hrt.
  assert (Hin : In tgt (gnodes g)) by (apply (Hadj u); apply mem_In; exact Ha).
  split.
  - apply FCore_inf; try assumption. intros u' E. injection E as <-. split; assumption.
  - apply (ph_main _ _ ((t, tgt, stI) :: evs) ((t, Some u, tgt) :: txs)); cbn [EventSISRel.inf_state ms_stat ms_rec ms_log ms_q].
    + reflexivity.
    + apply (LL_inf g Hnd tmin tmax i0 Hi0 Hinc); try assumption.
      * intros _. exact HI.
      * apply mem_In. exact Ha.
      * apply (prev_le_lnow tmin). apply (f_now _ _ Hc).
    + apply (sourced_inf_queue s0 tgt rt _ Hs). reflexivity.
    + unfold txJ. cbn [EventSISRel.inf_state ms_rec]. intros t' u' v' [E|Hin']; unfold fupdN.
      * injection E as <- <- <-. destruct (N.eqb_spec u tgt) as [->|_]; [rewrite HS in HI; discriminate HI|exact Hru].
      * destruct (N.eqb_spec u' tgt) as [->|_]; [|apply (HJ t' u' v' Hin')].
        pose proof (HJ t' tgt v' Hin') as Hold. destruct (f_K _ _ Hc tgt HS) as [r [Er Hr]]. rewrite Er in Hold.
        apply xtlt_Some in Hold. destruct Hrt as [->|[d [Hd ->]]]; [reflexivity|]. apply xtlt_Some. rewrite tadd_eq. lra.
    + cbn [strict_ok]. change (N.eqb stI stI) with true. cbv iota. exact Hst.
Qed.

Lemma st_init_snoc : forall done u, fupdN (st_init done []) u stI = st_init (done ++ [u]) [].
Proof. intros done u. unfold st_init. cbn [set_all fold_left]. symmetry. apply (set_all_snoc (fun _ => stS) done u stI). Qed.

Lemma inf_init : forall u s0 rt done rem P l,
  FCore tmin s0 -> i0 = done ++ [u] ++ rem -> q_items (ms_q s0) = P ++ l -> front tmin P (q_ctr (ms_q s0)) ->
  map snd P = map (fun u => MTrans None u) rem -> Forall sourced l ->
  ms_log s0 = linit g tmin done -> ms_stat s0 = st_init done [] ->
  ms_stat s0 u = stS -> In u (gnodes g) -> rt_ok tmin rt ->
  FInvP [] tmin (inf_state tmin None u s0 rt).
Proof.
  intros u s0 rt done rem P l Hc E1 E2 E3 E4 E5 E6 E7 HS Hin Hrt. split.
  - apply FCore_inf; try assumption. intros u' E. discriminate E.
  - assert (Hq : exists l', q_items (match rt with
                                      | Some r => if xtlt rt tmax then q_add tmax (ms_q s0) r (MRec u) else ms_q s0
                                      | None => ms_q s0 end) = P ++ l' /\
                            front tmin P (q_ctr (match rt with
                                      | Some r => if xtlt rt tmax then q_add tmax (ms_q s0) r (MRec u) else ms_q s0
                                      | None => ms_q s0 end)) /\ Forall sourced l').
    { destruct rt as [r|]; [|exists l; repeat split; assumption].
      destruct (xtlt (Some r) tmax); [|exists l; repeat split; assumption].
      destruct (q_add_front tmax tmin (ms_q s0) P l r (MRec u) E2 E3) as [l' [F1 [F2 F3]]].
      { destruct Hrt as [E|[d [Hd E]]]; [discriminate E|]. injection E as ->. rewrite tadd_eq. lra. }
      exists l'. split; [exact F1|]. split; [exact F2|].
      destruct F3 as [->|[_ F3]]; [exact E5|].
      eapply Permutation_Forall; [apply Permutation_sym; exact F3|]. constructor; [exact I|exact E5]. }
    destruct Hq as [l' [F1 [F2 F3]]].
    apply (ph_init _ _ (done ++ [u]) rem P l'); cbn [EventSISRel.inf_state ms_stat ms_rec ms_log ms_q app]; try assumption.
    + rewrite E1, <- app_assoc. reflexivity.
    + rewrite E6. apply linit_snoc.
    + rewrite E7. apply st_init_snoc.
Qed.

(* ---------------- one transmission event ---------------- *)
Lemma mt_rel_pres : forall t src tgt s0 s1 c1,
  FCore t s0 -> popped t (MTrans src tgt) s0 -> xlt t tmax = true ->
  (forall u, src = Some u -> ms_stat s0 u = stI /\ xtlt (Some t) (ms_rec s0 u) = true /\ mem tgt (gadj g u) = true) ->
  mt_rel t src tgt s0 s1 c1 -> FInvP [] t s1.
Proof.
  intros t src tgt s0 s1 c1 Hc Hpop Hx Hsrc H.
  destruct H as [s' c HnS Haf|rt c0 s1 c1 s2 c2 HS Hrd Hfna Haf].
  - (* the target is infected already *)
    destruct (popped_phase _ _ _ Hpop) as [[u [Ee [Et [Hp [HuS Hin]]]]]|[Hs Hp]].
    + injection Ee as -> ->. contradiction.
    + destruct (after_rel_pres [] t t src tgt s0 s' c Haf (conj Hc Hp)) as [K _]; [lra| |exact K].
      intros u E. destruct (Hsrc u E) as [A [_ B]]. split; assumption.
  - pose proof (rec_draw_ok _ _ _ _ Hrd) as Hrt.
    assert (Hinf : FInvP [] t (inf_state t src tgt s0 rt) /\ (forall u, src = Some u -> ms_stat s0 u = stI /\ mem tgt (gadj g u) = true)).
    { destruct Hpop as [done u rem P l E1 Ee Et E2 E3 E4 E5 E6 E7|evs txs Hs HL Hq HJ Hst].
      - injection Ee as -> ->. subst t. split; [|intros u' E; discriminate E].
        apply (inf_init u s0 rt done rem P l); try assumption.
        apply Hinc. rewrite E1. apply in_or_app. right. left. reflexivity.
      - destruct src as [u|]; [|destruct Hs]. destruct (Hsrc u eq_refl) as [A [B C]].
        split; [|intros u' E; injection E as <-; split; assumption].
        apply (inf_main t u tgt s0 rt evs txs); assumption. }
    destruct Hinf as [Hi1 Hsrc'].
    destruct (fna_rel_pres [] t t tgt (gadj g tgt) _ s1 c1 Hfna Hi1) as [Hi2 Hq2]; [lra| |intros v Hv; exact Hv|].
    { cbn [EventSISRel.inf_state ms_stat]. unfold fupdN. rewrite N.eqb_refl. reflexivity. }
    destruct (after_rel_pres [] t t src tgt s1 s2 c2 Haf Hi2) as [K _]; [lra| |exact K].
    intros u E. destruct (Hsrc' u E) as [A B]. split; [|exact B].
    destruct Hq2 as [Es _]. rewrite Es. cbn [EventSISRel.inf_state ms_stat]. unfold fupdN.
    destruct (N.eqb u tgt); [reflexivity|exact A].
Qed.

(* ---------------- one recovery event ---------------- *)
Lemma rec_pres : forall clock s t c v rest,
  FInvP [] clock s -> q_items (ms_q s) = (t, c, MRec v) :: rest ->
  FInvP [] t (m_recover t v (pop_state s rest)).
Proof.
  intros clock s t c v rest Hi Eq.
  destruct (FInv_pop clock s t c (MRec v) rest Hi Eq) as [Hct [Hx [Hsrc [Hfresh [Hc Hpop]]]]].
  unfold src_ok in Hsrc. cbn [snd qtime fst] in Hsrc. destruct Hsrc as [HvI Hrv].
  destruct Hi as [Hcs _].
  destruct Hpop as [done u rem P l E1 Ee|evs txs Hs HL Hq HJ Hst]; [discriminate Ee|].
  cbn [pop_state set_q ms_log ms_stat ms_q ms_rec q_items] in *.
  destruct Hc as [_ Ht Hn Hq' Hv' HK HN]. cbn [pop_state set_q ms_log ms_stat ms_q ms_rec q_items] in *.
  split.
  - constructor; cbn [m_recover pop_state set_q ms_log ms_stat ms_q ms_rec q_items].
    + apply (recover_inv g s t c v rest (f_minv _ _ Hcs) Eq).
    + exact Ht.
    + rewrite lnow_rec. lra.
    + exact Hq'.
    + exact Hv'.
    + intros u Hu. destruct (N.eq_dec u v) as [E|E].
      * rewrite E. exists t. split; [exact Hrv|lra].
      * apply HK. unfold fupdN in Hu. destruct (N.eqb_spec u v) as [E2|_]; [contradiction|exact Hu].
    + intros u Hu. unfold fupdN in Hu. destruct (N.eqb u v); [discriminate Hu|]. apply HN. exact Hu.
  - apply (ph_main _ _ ((t, v, stS) :: evs) txs); cbn [m_recover pop_state set_q ms_log ms_stat ms_q ms_rec q_items].
    + reflexivity.
    + apply (LL_rec g Hnd tmin tmax i0 Hi0 Hinc); try assumption.
      * apply HN. exact HvI.
      * apply (prev_le_lnow tmin). exact Hn.
    + exact Hq.
    + exact HJ.
    + cbn [strict_ok]. change (N.eqb stS stI) with false. cbv iota. rewrite Hst, andb_true_r.
      apply forallb_forall. intros [[t' [u'|]] v'] Hin; cbn [fst snd]; [|reflexivity].
      destruct (N.eqb_spec u' v) as [->|_]; [|reflexivity]. cbn [negb orb].
      pose proof (HJ t' v v' Hin) as Hlt. cbn [pop_state set_q ms_rec] in Hlt. rewrite Hrv in Hlt. exact Hlt.
Qed.

(* ---------------- every run ---------------- *)
Definition FI (s : mst) : Prop := exists clock, FInvP [] clock s.

Lemma ml_rel_FI : forall s s' cs, ml_rel s s' cs -> FI s -> FI s'.
Proof.
  apply (ml_rel_ind_inv g tau gamma tmax FI).
  - intros s t c v rest [clock Hi] Eq. exists t. apply (rec_pres clock s t c v rest Hi Eq).
  - intros s t c src tgt rest s1 c1 [clock Hi] Eq Hm. exists t.
    destruct (FInv_pop clock s t c (MTrans src tgt) rest Hi Eq) as [Hct [Hx [Hsrc [_ [Hc Hpop]]]]].
    apply (mt_rel_pres t src tgt (pop_state s rest) s1 c1 Hc Hpop Hx); [|exact Hm].
    intros u ->. unfold src_ok in Hsrc. cbn [snd qtime fst] in Hsrc. exact Hsrc.
Qed.

Lemma FI_final : forall s, FI s -> q_items (ms_q s) = [] ->
  exists evs txs, LL true evs txs (ms_log s) (ms_stat s) /\ strict_ok evs txs = true.
Proof.
  intros s [clock [_ Hp]] Eq. destruct Hp as [done rem P l E1 E2 E3 E4 E5 E6 E7|evs txs _ HL Hs HJ Hst].
  - rewrite Eq in E2. symmetry in E2. apply app_eq_nil in E2. destruct E2 as [-> ->].
    destruct rem; [|discriminate E4]. cbn [app] in E1. rewrite app_nil_r in E1. subst done.
    exists [], []. split; [|reflexivity]. rewrite E6, E7. apply LL_start.
  - exists evs, txs. split; assumption.
Qed.

Theorem fast_SIS_logs : forall full fuel ds out tr,
  exec (fast_SIS g tau gamma tmax (Some i0) None tmin full fuel) ds [] = (Ok out, tr) ->
  exists evs txs lg st, LL true evs txs lg st /\ strict_ok evs txs = true /\
                        out = finish g tmin full (length i0) lg.
Proof.
  intros full fuel ds out tr H.
  destruct (fast_SIS_reachT g tau gamma tmax i0 tmin full fuel ds out tr H) as [s' [cs [H1 [H2 [H3 _]]]]].
  pose proof (ml_rel_FI _ _ _ H1 (ex_intro _ tmin FInv_init)) as Hf.
  destruct (FI_final s' Hf H2) as [evs [txs [HL Hst]]].
  exists evs, txs, (ms_log s'), (ms_stat s'). split; [exact HL|]. split; [exact Hst|exact H3].
Qed.

End Fast.
