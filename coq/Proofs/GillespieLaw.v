(* The jump distribution of the Gillespie_SIR / Gillespie_SIS model in a good
   state is the embedded jump chain of the network SIR / SIS Markov chain:
   recovery of an infectious node u has probability gamma*w_u / total, the
   transmission along an I-S link (u,v) has probability tau*w_uv / total, and
   these exhaust the mass (nothing else ever happens).  The holding rate is the
   rate handed to Expo in [loop], i.e. the same total. *)
From EoNV Require Import Prelude Samp Graph ListDict ListDictP Gillespie KldP GillespieInv SampP GillespieP.
From Coq Require Import Lqa Permutation.

(* ---------- generic facts about [law] ---------- *)
Lemma prob_nil : forall A (f : A -> bool), prob f [] = 0.
Proof. reflexivity. Qed.

Lemma prob_app : forall A (f : A -> bool) d1 d2, prob f (d1 ++ d2) == prob f d1 + prob f d2.
Proof. intros A f d1 d2. unfold prob. rewrite map_app. apply sumQ_app. Qed.

Lemma prob_scale : forall A (f : A -> bool) q d, prob f (scale q d) == q * prob f d.
Proof.
  intros A f q d. unfold prob, scale. rewrite map_map. cbn [fst snd].
  rewrite <- sumQ_map_scale. apply sumQ_map_ext_in. intros [a w] _. cbn [fst snd].
  destruct (f a); ring.
Qed.

Lemma prob_concat_map : forall A B (f : A -> bool) (h : B -> dist A) l,
  prob f (concat (map h l)) == sumQ (map (fun x => prob f (h x)) l).
Proof.
  intros A B f h. induction l as [|x l IH]; [reflexivity|].
  cbn [map concat]. rewrite prob_app, IH. reflexivity.
Qed.

Definition pr_choose (w : bool) (c : list (key * Q)) (cw : key * Q) : Q :=
  if w then snd cw / wsum c else 1 / Qnat (length c).

Lemma prob_choose_ret : forall B (h : key -> B) (f : B -> bool) w c,
  prob f (law (Choose w c (fun x => Ret (h x)))) ==
  sumQ (map (fun cw => (if f (h (fst cw)) then 1 else 0) * pr_choose w c cw) c).
Proof.
  intros B h f w c. cbn [law]. rewrite prob_concat_map. apply sumQ_map_ext_in. intros cw _.
  rewrite prob_scale. unfold prob. cbn [law map fst snd sumQ fold_right]. unfold pr_choose.
  destruct (f (h (fst cw))); ring.
Qed.

Lemma kinsert_perm : forall V (kv : key * V) l, Permutation (kinsert kv l) (kv :: l).
Proof.
  intros V kv l. induction l as [|h t IH]; cbn [kinsert]; [apply Permutation_refl|].
  destruct (kltb (fst kv) (fst h)); [apply Permutation_refl|].
  eapply Permutation_trans; [apply perm_skip; exact IH|apply perm_swap].
Qed.
Lemma ksort_perm : forall V (l : list (key * V)), Permutation (ksort l) l.
Proof.
  intros V l. induction l as [|h t IH]; cbn [ksort fold_right]; [apply Permutation_refl|].
  eapply Permutation_trans; [apply kinsert_perm|apply perm_skip; exact IH].
Qed.

Lemma elem_le_sum : forall (A : Type) (f : A -> Q) l x, (forall y, In y l -> 0 <= f y) -> In x l ->
  f x <= sumQ (map f l).
Proof.
  intros A f. induction l as [|a l IH]; intros x Hnn Hin; [destruct Hin|].
  cbn [map]. rewrite sumQ_cons.
  assert (Hrest : 0 <= sumQ (map f l)).
  { apply sumQ_nonneg. intros y Hy. apply in_map_iff in Hy. destruct Hy as [z [E Hz]]. subst y.
    apply Hnn. right. exact Hz. }
  destruct Hin as [E|Hin].
  - subst a. lra.
  - pose proof (IH x (fun y Hy => Hnn y (or_intror Hy)) Hin). pose proof (Hnn a (or_introl eq_refl)). lra.
Qed.

(* ---------- candidates of a _ListDict_ ---------- *)
Section Cands.
Variable L : kld.
Hypothesis HL : kinv L.

Definition cw_of (k : key) : key * Q := (k, if weighted L then wread key L k else 1).

Lemma kl_cands_perm : Permutation (kl_cands L) (map cw_of (items L)).
Proof. unfold kl_cands. apply ksort_perm. Qed.

Lemma cw_weight : forall k, In k (items L) -> snd (cw_of k) = absw key L k.
Proof. intros k Hk. unfold cw_of. cbn [snd]. symmetry. apply (absw_in key). exact HL. exact Hk. Qed.

Lemma wsum_cands : wsum (kl_cands L) == ld_total_weight key L.
Proof.
  unfold wsum. rewrite (sumQ_map_perm _ snd _ _ kl_cands_perm). rewrite map_map.
  rewrite (kl_total L HL). apply sumQ_map_ext_in. intros k Hk. rewrite (cw_weight k Hk). reflexivity.
Qed.

Lemma length_cands : length (kl_cands L) = length (items L).
Proof. rewrite (Permutation_length kl_cands_perm). apply map_length. Qed.

Lemma absw_nonneg : forall k, In k (items L) -> 0 <= absw key L k.
Proof.
  intros k Hk. rewrite (absw_in key L k HL Hk). destruct (weighted L) eqn:Hw; [|lra].
  apply (wread_nonneg key). exact HL. exact Hw.
Qed.

(* probability mass of candidate k under one [Choose] *)
Lemma choose_point_mass : forall (k : key), In k (items L) ->
  sumQ (map (fun cw => (if keqb (fst cw) k then 1 else 0) * pr_choose (weighted L) (kl_cands L) cw) (kl_cands L)) ==
  if weighted L then absw key L k / ld_total_weight key L else 1 / Qnat (length (items L)).
Proof.
  intros k Hk.
  rewrite (sumQ_map_perm _ _ _ _ kl_cands_perm). rewrite map_map.
  transitivity (sumQ (map (fun x => if keqb x k then
       (if weighted L then absw key L x / ld_total_weight key L else 1 / Qnat (length (items L))) else 0) (items L))).
  - apply sumQ_map_ext_in. intros x Hx. unfold pr_choose, cw_of. cbn [fst snd].
    destruct (keqb x k); [|ring]. rewrite (absw_in key L x HL Hx). destruct (weighted L) eqn:Hw.
    + rewrite wsum_cands. ring.
    + rewrite length_cands. ring.
  - rewrite (sumQ_indicator key keqb keqb_spec _ k (items L) (inv_nodup key L HL) Hk). reflexivity.
Qed.

Lemma choose_total_mass : 0 < ld_total_weight key L ->
  sumQ (map (fun cw => pr_choose (weighted L) (kl_cands L) cw) (kl_cands L)) == 1.
Proof.
  intro Hpos. rewrite (sumQ_map_perm _ _ _ _ kl_cands_perm). rewrite map_map.
  unfold pr_choose. destruct (weighted L) eqn:Hw.
  - transitivity (sumQ (map (fun x => / ld_total_weight key L * absw key L x) (items L))).
    + apply sumQ_map_ext_in. intros x Hx. rewrite wsum_cands, (absw_in key L x HL Hx).
      unfold cw_of. rewrite Hw. cbn [snd]. unfold Qdiv. ring.
    + rewrite sumQ_map_scale, <- (kl_total L HL). field. intro E. rewrite E in Hpos. apply (Qlt_irrefl 0). exact Hpos.
  - rewrite length_cands. rewrite (sumQ_map_const _ (1 / Qnat (length (items L))) (items L)).
    unfold ld_total_weight in Hpos. rewrite Hw in Hpos. field.
    intro E. rewrite E in Hpos. apply (Qlt_irrefl 0). exact Hpos.
Qed.

End Cands.

(* ---------- the labelled jump ---------- *)
Definition jump_lbl (trec ttot : Q) (s : gst) : samp (key + key) :=
  Flip (trec / ttot)
    (Choose (weighted (infs s)) (kl_cands (infs s)) (fun c => Ret (inl c)))
    (Choose (weighted (links s)) (kl_cands (links s)) (fun c => Ret (inr c))).

Definition apply_lbl (g : graph) (kind : model_kind) (full : bool) (t : Q) (s : gst) (l : key + key) : result gst :=
  match l with
  | inl c => rbind (keynode c) (fun u => match kind with SIR => sir_recover g full t u s | SIS => sis_recover g full t u s end)
  | inr c => rbind (keypair c) (fun uv => transmit g kind full t (fst uv) (snd uv) s)
  end.

(* the model's jump is the labelled jump followed by the deterministic update *)
Lemma event_st_labelled : forall g kind full t trec ttot s,
  event_st g kind full t trec ttot s = bind (jump_lbl trec ttot s) (fun l => liftr (apply_lbl g kind full t s l)).
Proof. reflexivity. Qed.

Definition is_rec (k : key) (l : key + key) : bool := match l with inl c => keqb c k | inr _ => false end.
Definition is_tr (k : key) (l : key + key) : bool := match l with inr c => keqb c k | inl _ => false end.

Section Law.
Variable g : graph.
Hypothesis Hg : wfg g.
Variable tau gamma : Q.
Hypothesis Htau : 0 <= tau.
Hypothesis Hgamma : 0 <= gamma.

Lemma total_nonneg : forall L : kld, kinv L -> 0 <= ld_total_weight key L.
Proof.
  intros L HL. rewrite (kl_total L HL). apply sumQ_nonneg. intros x Hx. apply in_map_iff in Hx.
  destruct Hx as [k [E Hk]]. subst x. apply absw_nonneg; assumption.
Qed.

Theorem jump_law : forall s, Inv g s ->
  let trec := total_rec gamma s in
  let ttot := trec + total_tr tau s in
  0 < ttot ->
  (* recovery of an infectious node *)
  (forall u, stat s u = stI ->
     prob (is_rec (knode u)) (law (jump_lbl trec ttot s)) == gamma * iw g u / ttot) /\
  (* transmission along an I-S link *)
  (forall u v, stat s u = stI -> stat s v = stS -> In v (gadj g u) ->
     prob (is_tr (kpair u v)) (law (jump_lbl trec ttot s)) == tau * lw g u v / ttot) /\
  (* nothing else ever happens *)
  mass (law (jump_lbl trec ttot s)) == 1.
Proof.
  intros s HI trec ttot Hpos.
  pose proof (i_infs g s HI) as HiI. pose proof (i_links g s HI) as HiL.
  pose proof (total_nonneg (infs s) HiI) as HWi. pose proof (total_nonneg (links s) HiL) as HWl.
  assert (Htrec0 : 0 <= trec) by (unfold trec, total_rec; apply Qmult_le_0_compat; assumption).
  assert (Httr0 : 0 <= total_tr tau s) by (unfold total_tr; apply Qmult_le_0_compat; assumption).
  assert (Hne : ~ ttot == 0) by (intro E; rewrite E in Hpos; apply (Qlt_irrefl 0); exact Hpos).
  assert (Hp0 : 0 <= trec / ttot).
  { unfold Qdiv. apply Qmult_le_0_compat; [exact Htrec0|]. apply Qinv_le_0_compat. apply Qlt_le_weak. exact Hpos. }
  assert (Hp1 : trec / ttot <= 1).
  { apply Qle_shift_div_r; [exact Hpos|]. unfold ttot. lra. }
  assert (Hclamp : clamp01 (trec / ttot) == trec / ttot).
  { unfold clamp01. destruct (Qltb (trec / ttot) 0) eqn:E1.
    - apply Qltb_true in E1. lra.
    - destruct (Qltb 1 (trec / ttot)) eqn:E2; [apply Qltb_true in E2; lra|reflexivity]. }
  assert (Hsplit : forall f, prob f (law (jump_lbl trec ttot s)) ==
            trec / ttot * prob f (law (Choose (weighted (infs s)) (kl_cands (infs s)) (fun c => Ret (inl c : key + key)))) +
            (1 - trec / ttot) * prob f (law (Choose (weighted (links s)) (kl_cands (links s)) (fun c => Ret (inr c : key + key))))).
  { intro f. unfold jump_lbl. cbn [law]. rewrite prob_app, !prob_scale, Hclamp. reflexivity. }
  split; [|split].
  - intros u Hu. rewrite Hsplit, !prob_choose_ret.
    assert (Hin : In (knode u) (items (infs s))).
    { apply (kl_items_abs (infs s) _ HiI). eapply oQeq_some_not_none. eapply oQeq_trans; [apply (i_ia g s HI)|].
      unfold knode. cbn [infs_spec]. rewrite Hu. cbn. reflexivity. }
    assert (Hz : sumQ (map (fun cw : key * Q => (if is_rec (knode u) (inr (fst cw)) then 1 else 0) *
                  pr_choose (weighted (links s)) (kl_cands (links s)) cw) (kl_cands (links s))) == 0).
    { cbn [is_rec]. transitivity (sumQ (map (fun _ : key * Q => 0) (kl_cands (links s)))).
      - apply sumQ_map_ext_in. intros; ring.
      - rewrite sumQ_map_const. ring. }
    rewrite Hz. cbn [is_rec].
    rewrite (choose_point_mass (infs s) HiI (knode u) Hin).
    assert (Habs : absw key (infs s) (knode u) == iw g u).
    { unfold absw. pose proof (i_ia g s HI (knode u)) as Ha. unfold knode in *. cbn [infs_spec] in Ha.
      rewrite Hu in Ha. cbn in Ha. destruct (kabs (infs s) [u]); [exact Ha|contradiction]. }
    destruct (weighted (infs s)) eqn:Hw.
    + rewrite Habs. unfold trec, total_rec.
      destruct (Qeq_dec (ld_total_weight key (infs s)) 0) as [E0|E0].
      * (* all weights are zero: both sides vanish *)
        assert (Hiw : iw g u == 0).
        { pose proof (elem_le_sum key (absw key (infs s)) (items (infs s)) (knode u)
                        (fun y Hy => absw_nonneg (infs s) HiI y Hy) Hin) as Hle.
          rewrite <- (kl_total (infs s) HiI), E0, Habs in Hle.
          pose proof (iw_nonneg g Hg u). lra. }
        rewrite E0, Hiw. unfold Qdiv. ring.
      * field. split; assumption.
    + unfold trec, total_rec, ld_total_weight. rewrite Hw.
      assert (Hlen : ~ Qnat (length (items (infs s))) == 0).
      { destruct (items (infs s)) as [|k0 r0]; [destruct Hin|]. cbn [length]. rewrite Qnat_S.
        pose proof (Qnat_nonneg (length r0)). lra. }
      assert (Hiw : iw g u == 1).
      { unfold iw. rewrite <- (i_winfs g s HI), Hw. reflexivity. }
      rewrite Hiw. field. split; assumption.
  - intros u v Hu Hv Huv. rewrite Hsplit, !prob_choose_ret.
    assert (Hin : In (kpair u v) (items (links s))).
    { apply (kl_items_abs (links s) _ HiL). eapply oQeq_some_not_none. eapply oQeq_trans; [apply (i_la g s HI)|].
      unfold kpair. cbn [links_spec]. rewrite Hu, Hv. assert (Hm : mem v (gadj g u) = true) by (apply mem_In; exact Huv).
      rewrite Hm. cbn. reflexivity. }
    assert (Hz : sumQ (map (fun cw : key * Q => (if is_tr (kpair u v) (inl (fst cw)) then 1 else 0) *
                  pr_choose (weighted (infs s)) (kl_cands (infs s)) cw) (kl_cands (infs s))) == 0).
    { cbn [is_tr]. transitivity (sumQ (map (fun _ : key * Q => 0) (kl_cands (infs s)))).
      - apply sumQ_map_ext_in. intros; ring.
      - rewrite sumQ_map_const. ring. }
    rewrite Hz. cbn [is_tr].
    rewrite (choose_point_mass (links s) HiL (kpair u v) Hin).
    assert (Habs : absw key (links s) (kpair u v) == lw g u v).
    { unfold absw. pose proof (i_la g s HI (kpair u v)) as Ha. unfold kpair in *. cbn [links_spec] in Ha.
      rewrite Hu, Hv in Ha. assert (Hm : mem v (gadj g u) = true) by (apply mem_In; exact Huv).
      rewrite Hm in Ha. cbn in Ha. destruct (kabs (links s) [u; v]); [exact Ha|contradiction]. }
    assert (H1p : 1 - trec / ttot == total_tr tau s / ttot).
    { unfold ttot. field. exact Hne. }
    rewrite H1p.
    destruct (weighted (links s)) eqn:Hw.
    + rewrite Habs. unfold total_tr.
      destruct (Qeq_dec (ld_total_weight key (links s)) 0) as [E0|E0].
      * assert (Hlw : lw g u v == 0).
        { pose proof (elem_le_sum key (absw key (links s)) (items (links s)) (kpair u v)
                        (fun y Hy => absw_nonneg (links s) HiL y Hy) Hin) as Hle.
          rewrite <- (kl_total (links s) HiL), E0, Habs in Hle.
          pose proof (lw_nonneg g Hg u v). lra. }
        rewrite E0, Hlw. unfold Qdiv. ring.
      * field. split; assumption.
    + unfold total_tr, ld_total_weight. rewrite Hw.
      assert (Hlen : ~ Qnat (length (items (links s))) == 0).
      { destruct (items (links s)) as [|k0 r0]; [destruct Hin|]. cbn [length]. rewrite Qnat_S.
        pose proof (Qnat_nonneg (length r0)). lra. }
      assert (Hlw : lw g u v == 1).
      { unfold lw. rewrite <- (i_wlinks g s HI), Hw. reflexivity. }
      rewrite Hlw. field. split; assumption.
  - unfold mass.
    assert (Hm : forall d : dist (key + key), sumQ (map snd d) == prob (fun _ => true) d).
    { intro d. unfold prob. apply sumQ_map_ext_in. intros; reflexivity. }
    rewrite Hm, Hsplit, !prob_choose_ret.
    assert (Hs1 : forall (L : kld) (inj : key -> key + key),
              sumQ (map (fun cw : key * Q => (if (fun _ : key + key => true) (inj (fst cw)) then 1 else 0) *
                      pr_choose (weighted L) (kl_cands L) cw) (kl_cands L)) ==
              sumQ (map (fun cw => pr_choose (weighted L) (kl_cands L) cw) (kl_cands L))).
    { intros L inj. apply sumQ_map_ext_in. intros; ring. }
    rewrite (Hs1 (infs s) inl), (Hs1 (links s) inr).
    destruct (Qlt_le_dec 0 (ld_total_weight key (infs s))) as [Hi1|Hi1];
      destruct (Qlt_le_dec 0 (ld_total_weight key (links s))) as [Hl1|Hl1].
    + rewrite (choose_total_mass (infs s) HiI Hi1), (choose_total_mass (links s) HiL Hl1). ring.
    + assert (El : ld_total_weight key (links s) == 0) by lra.
      assert (Ep : trec / ttot == 1).
      { assert (Ht : ttot == trec) by (unfold ttot, total_tr; rewrite El; ring).
        rewrite <- Ht. unfold Qdiv. apply Qmult_inv_r. exact Hne. }
      rewrite Ep, (choose_total_mass (infs s) HiI Hi1). ring.
    + assert (Ei : ld_total_weight key (infs s) == 0) by lra.
      assert (Ep : trec / ttot == 0) by (unfold trec, total_rec; rewrite Ei; unfold Qdiv; ring).
      rewrite Ep, (choose_total_mass (links s) HiL Hl1). ring.
    + exfalso. assert (Ei : ld_total_weight key (infs s) == 0) by lra.
      assert (El : ld_total_weight key (links s) == 0) by lra.
      unfold ttot, trec, total_rec, total_tr in Hpos. rewrite Ei, El in Hpos. lra.
Qed.

End Law.

(* ---------- where runs end ---------- *)
Section Final.
Variable g : graph.
Hypothesis Hg : wfg g.
Hypothesis Hnd : NoDup (gnodes g).
Variable kind : model_kind.
Variables tau gamma tmin : Q.
Variable tmax : xtime.
Hypothesis Htau : 0 <= tau.

(* unbounded horizon, positive recovery rate of every node: the run ends with
   no infected node (the I count of the last row is 0) *)
Theorem final_no_infected : forall s,
  GInv g kind tmin tmax s -> stopped tau gamma tmax s -> tmax = None ->
  0 < gamma -> (forall u, 0 < iw g u) ->
  (forall u, stat s u <> stI) /\ cnt (hd_counts (rows s)) 1 = 0%Z.
Proof.
  intros s HG Hstop Htm Hgam Hiw.
  pose proof (g_inv g kind tmin tmax s HG) as HI.
  pose proof (i_infs g s HI) as HiI. pose proof (i_links g s HI) as HiL.
  assert (Hno : forall u, stat s u <> stI).
  { intros u Hu.
    assert (Hin : In (knode u) (items (infs s))).
    { apply (kl_items_abs (infs s) _ HiI). eapply oQeq_some_not_none. eapply oQeq_trans; [apply (i_ia g s HI)|].
      unfold knode. cbn [infs_spec]. rewrite Hu. cbn. reflexivity. }
    destruct Hstop as [Hs|[Hs|Hs]].
    - apply Hs.
      assert (Habs : absw key (infs s) (knode u) == iw g u).
      { unfold absw. pose proof (i_ia g s HI (knode u)) as Ha. unfold knode in *. cbn [infs_spec] in Ha.
        rewrite Hu in Ha. cbn in Ha. destruct (kabs (infs s) [u]); [exact Ha|contradiction]. }
      pose proof (elem_le_sum key (absw key (infs s)) (items (infs s)) (knode u)
                    (fun y Hy => absw_nonneg (infs s) HiI y Hy) Hin) as Hle.
      rewrite <- (kl_total (infs s) HiI), Habs in Hle.
      pose proof (Hiw u) as Hu0. pose proof (total_nonneg (links s) HiL) as Hl0.
      unfold total_rec, total_tr.
      assert (H1 : 0 < gamma * ld_total_weight key (infs s)).
      { apply Qmult_lt_0_compat; [exact Hgam|]. eapply Qlt_le_trans; eassumption. }
      assert (H2 : 0 <= tau * ld_total_weight key (links s)) by (apply Qmult_le_0_compat; assumption).
      lra.
    - unfold is_empty in Hs. destruct (items (infs s)); [destruct Hin|discriminate Hs].
    - apply Hs. exact Htm. }
  split; [exact Hno|].
  pose proof (g_census g kind tmin tmax s HG) as Hcen.
  assert (Hz : cntst g (stat s) stI = 0%Z).
  { unfold cntst. assert (Hf : filter (fun u => N.eqb (stat s u) stI) (gnodes g) = []).
    { clear Hnd HG. generalize (gnodes g). intro G0. induction G0 as [|y G IH]; [reflexivity|]. cbn [filter].
      destruct (N.eqb_spec (stat s y) stI) as [E|E]; [exfalso; apply (Hno y); exact E|exact IH]. }
    rewrite Hf. reflexivity. }
  rewrite Hcen. unfold census. destruct kind; cbn [cnt nth]; exact Hz.
Qed.

End Final.
