(* Lemmas about Model/EventSIR.v, part 3: initial state, termination within the
   fuel, the final state (sound + closed), the generic Bellman characterisation
   and the resulting first-passage-percolation theorem. *)
From EoNV Require Import Prelude Samp Graph EventSIR EventSIRP EventSIRInv.
Require Import Lqa.

Lemma set_all_spec : forall V (l : list node) (f : node -> V) x v,
  set_all f l x v = if mem v l then x else f v.
Proof.
  intros V l. induction l as [|a l IH]; intros f x v; simpl; auto.
  unfold set_all in *. simpl. rewrite IH. unfold fupdN, mem. simpl.
  destruct (N.eqb v a); simpl; auto. destruct (existsb (N.eqb v) l); auto.
Qed.

Lemma mem_false_notin : forall x l, mem x l = false <-> ~ In x l.
Proof.
  intros. rewrite <- mem_In. destruct (mem x l); split; intros; try discriminate; auto.
  exfalso; auto.
Qed.

Section Main.
Variable tb : tiepolicy.
Variable g : graph.
Variable tmax : xtime.
Variable delay : node -> node -> xtime.
Variable dur : node -> xtime.
Variable tmin : Q.
Variables i0 r0 : list node.

Hypothesis Hdelay : forall u v d, In u (gnodes g) -> In v (gadj g u) -> delay u v = Some d -> 0 <= d.
Hypothesis Hdur : forall u d, In u (gnodes g) -> dur u = Some d -> 0 <= d.
Hypothesis Hadj : forall u, In u (gnodes g) -> NoDup (gadj g u).
Hypothesis Hdisj : forall u, In u i0 -> ~ In u r0.
Hypothesis Htmin : ltmax tmax tmin.
Hypothesis Hgn : NoDup (gnodes g).
Hypothesis Hi0g : forall u, In u i0 -> In u (gnodes g).
Hypothesis Hadjg : forall u v, In u (gnodes g) -> In v (gadj g u) -> In v (gnodes g).

Notation INV := (Inv g tmax delay dur tmin i0 r0).
Notation HEDGE := (hedge g delay dur r0).

(* ---------------- the initial state ---------------- *)
Definition iniF (l : list node) (s : est) : est := fold_left (init_inf tb tmin tmax) l s.

Lemma init_inf_qu : forall s u x,
  In x (qu (init_inf tb tmin tmax s u)) <-> In x (qu s) \/ x = mkQ tmin (ctr s) (ETrans None u).
Proof.
  intros s u x. unfold init_inf. cbn [qu]. rewrite qadd_In. split.
  - intros [H|[t [Ht [_ ->]]]]; auto. inversion Ht. auto.
  - intros [H| ->]; auto. right. exists tmin. auto.
Qed.

Lemma iniF_spec : forall l s,
  stat (iniF l s) = stat s /\ rect (iniF l s) = rect s /\ tlog (iniF l s) = tlog s /\
  (forall u, predt (iniF l s) u = if mem u l then Some (Some tmin) else predt s u) /\
  (qsorted (qu s) -> qsorted (qu (iniF l s))) /\
  (forall x, In x (qu s) -> In x (qu (iniF l s))) /\
  (forall x, In x (qu (iniF l s)) -> In x (qu s) \/ (qt x = tmin /\ exists u, In u l /\ qe x = ETrans None u)) /\
  (forall u, In u l -> exists x, In x (qu (iniF l s)) /\ qt x = tmin /\ qe x = ETrans None u) /\
  (length (qu (iniF l s)) <= length l + length (qu s))%nat.
Proof.
  induction l as [|a l IH]; intros s.
  - simpl. repeat split; auto. intros u [].
  - unfold iniF. simpl fold_left. fold (iniF l (init_inf tb tmin tmax s a)).
    destruct (IH (init_inf tb tmin tmax s a)) as [H1 [H2 [H3 [H4 [H5 [H6 [H7 [H8 H9]]]]]]]].
    split; [rewrite H1; reflexivity|]. split; [rewrite H2; reflexivity|]. split; [rewrite H3; reflexivity|].
    split; [|split; [|split; [|split; [|split]]]].
    + intros u. rewrite H4. unfold mem. simpl. fold (mem u l). unfold init_inf. cbn [predt]. unfold fupdN.
      destruct (N.eqb u a); simpl; auto. destruct (mem u l); auto.
    + intros Hs. apply H5. unfold init_inf. cbn [qu]. apply qadd_sorted. exact Hs.
    + intros x Hx. apply H6. apply init_inf_qu. auto.
    + intros x Hx. apply H7 in Hx. destruct Hx as [Hx|[Ht [u [Hu Hq]]]].
      * apply init_inf_qu in Hx. destruct Hx as [Hx| ->]; auto.
        right. split; auto. exists a. simpl. auto.
      * right. split; auto. exists u. simpl. auto.
    + intros u [->|Hu]; [|auto].
      exists (mkQ tmin (ctr s) (ETrans None u)). split; auto. apply H6. apply init_inf_qu. auto.
    + assert (length (qu (init_inf tb tmin tmax s a)) <= S (length (qu s)))%nat.
      { unfold init_inf. cbn [qu]. apply qadd_length. }
      simpl length. lia.
Qed.

Lemma init_inv : INV tmin (init_state tb g tmin tmax i0 r0).
Proof.
  unfold init_state.
  set (s0 := mkE (set_all (fun _ => stS) r0 stR) (set_all (fun _ => None) r0 (Some (Some tmin)))
                 (fun _ => None) [] O [(tmin, [order g - Z.of_nat (length r0); 0; Z.of_nat (length r0)]%Z)] [] []).
  fold (iniF i0 s0).
  destruct (iniF_spec i0 s0) as [H1 [H2 [H3 [H4 [H5 [H6 [H7 [H8 H9]]]]]]]].
  assert (Hst : forall v, stat (iniF i0 s0) v = if mem v r0 then stR else stS).
  { intros v. rewrite H1. simpl. apply set_all_spec. }
  assert (Htl : tlog (iniF i0 s0) = []) by (rewrite H3; reflexivity).
  assert (Hqx : forall x, In x (qu (iniF i0 s0)) -> qt x = tmin /\ exists u, In u i0 /\ qe x = ETrans None u).
  { intros x Hx. apply H7 in Hx. destruct Hx as [[]|Hx]. exact Hx. }
  constructor; rewrite ?Htl.
  - apply H5. exact I.
  - intros x Hx. destruct (Hqx x Hx) as [Ht _]. rewrite Ht. split; [lra|exact Htmin].
  - lra.
  - intros x src v Hx Hq. destruct (Hqx x Hx) as [Ht [u [Hu Hq']]].
    rewrite Hq in Hq'. inversion Hq'; subst. split; [apply Hdisj; auto|].
    simpl. split; auto. rewrite Ht. reflexivity.
  - intros x u Hx Hq. destruct (Hqx x Hx) as [Ht [u' [Hu Hq']]]. congruence.
  - intros v Hv. split.
    + rewrite Hst. apply mem_In in Hv. rewrite Hv. reflexivity.
    + intros [t [s []]].
  - intros v. rewrite Hst. destruct (mem v r0); auto.
  - intros v Hv. rewrite Hst. apply mem_false_notin in Hv. rewrite Hv. split.
    + intros H. exfalso. apply H. reflexivity.
    + intros [t [s []]].
  - constructor.
  - intros t sr v [].
  - exact I.
  - intros w p Hw Hp Hl. rewrite H4 in Hp. destruct (mem w i0) eqn:E; [|discriminate].
    inversion Hp; subst. apply mem_In in E. destruct (H8 w E) as [x [Hx [Ht Hq]]].
    exists x, None. split; auto. split; auto. rewrite Ht. reflexivity.
  - intros tu su u w d [].
  - intros v Hv. right. split.
    + rewrite Hst. pose proof (Hdisj v Hv) as Hn. apply mem_false_notin in Hn. rewrite Hn. reflexivity.
    + exists tmin. split; [|lra]. rewrite H4. apply mem_In in Hv. rewrite Hv. reflexivity.
  - intros t sr u [].
  - intros t sr u r [].
  - intros u Hu Hr. rewrite Hst in Hu. apply mem_false_notin in Hr. rewrite Hr in Hu. discriminate.
Qed.

(* ---------------- termination within the fuel ---------------- *)
Definition deg (v : node) : nat := length (gadj g v).
Fixpoint wS (st : node -> N) (l : list node) : nat :=
  match l with
  | [] => O
  | v :: t => (if N.eqb (st v) stS then S (deg v) else O) + wS st t
  end.
Definition phi (s : est) : nat := length (qu s) + wS (stat s) (gnodes g).
Definition fuel_inv (s : est) : Prop :=
  forall e src v, In e (qu s) -> qe e = ETrans src v -> In v (gnodes g).

Lemma wS_upd_notin : forall l st v x, ~ In v l -> wS (fupdN st v x) l = wS st l.
Proof.
  induction l as [|a l IH]; intros st v x Hn; simpl; auto.
  simpl in Hn. rewrite IH by tauto. rewrite fupdN_other; [reflexivity|]. intros ->. tauto.
Qed.

Lemma wS_upd_le : forall l st v x, x <> stS -> (wS (fupdN st v x) l <= wS st l)%nat.
Proof.
  induction l as [|a l IH]; intros st v x Hx; simpl; auto.
  specialize (IH st v x Hx). unfold fupdN at 1. destruct (N.eqb a v).
  - destruct (N.eqb x stS) eqn:E; [apply N.eqb_eq in E; contradiction|].
    destruct (N.eqb (st a) stS); lia.
  - destruct (N.eqb (st a) stS); lia.
Qed.

Lemma wS_upd_in : forall l st v x, NoDup l -> In v l -> st v = stS -> x <> stS ->
  (wS (fupdN st v x) l + S (deg v) = wS st l)%nat.
Proof.
  induction l as [|a l IH]; intros st v x Hnd Hin Hv Hx; simpl; [destruct Hin|].
  inversion Hnd as [|? ? Hna Hnd']; subst. destruct Hin as [->|Hin].
  - rewrite fupdN_same. rewrite wS_upd_notin by auto. rewrite Hv.
    destruct (N.eqb x stS) eqn:E; [apply N.eqb_eq in E; contradiction|]. simpl. lia.
  - assert (a <> v) by (intros ->; contradiction).
    rewrite fupdN_other by auto. specialize (IH st v x Hnd' Hin Hv Hx).
    destruct (N.eqb (st a) stS); lia.
Qed.

Lemma filter_len_le : forall A (f : A -> bool) l, (length (filter f l) <= length l)%nat.
Proof. induction l as [|a l IH]; simpl; auto. destruct (f a); simpl; lia. Qed.

Lemma sus_length : forall st u, (length (sus_nbrs g st u) <= deg u)%nat.
Proof. intros. unfold sus_nbrs, deg. apply filter_len_le. Qed.

Lemma step_fuel : forall s e q',
  fuel_inv s -> qu s = e :: q' ->
  fuel_inv (step_det tb g tmax delay dur e (set_qu s q')) /\
  (S (phi (step_det tb g tmax delay dur e (set_qu s q'))) <= phi s)%nat.
Proof.
  intros s e q' HF Hq.
  assert (Hsub : forall x, In x q' -> In x (qu s)) by (intros; rewrite Hq; right; auto).
  assert (Hphi : phi s = S (length q' + wS (stat s) (gnodes g))).
  { unfold phi. rewrite Hq. simpl. lia. }
  unfold step_det. destruct (qe e) as [src v|u] eqn:He.
  - change (stat (set_qu s q') v) with (stat s v).
    destruct (N.eqb (stat s v) stS) eqn:E.
    + apply N.eqb_eq in E. cbv zeta. change (stat (set_qu s q')) with (stat s).
      assert (Hvg : In v (gnodes g)).
      { apply (HF e src v); auto. rewrite Hq. left. auto. }
      set (sus := sus_nbrs g (fupdN (stat s) v stI) v).
      set (td := det_delays delay v sus).
      set (s' := apply_inf tb tmax (qt e) src v td (dur v) (det_calls v sus) (set_qu s q')).
      split.
      * intros x sr w Hx Hqx. unfold s' in Hx. rewrite ai_qu in Hx.
        apply sfold_queue_new in Hx.
        2:{ unfold td. rewrite det_delays_fst. unfold sus. unfold sus_nbrs. apply NoDup_filter. apply Hadj. exact Hvg. }
        destruct Hx as [Hx|[w' [d [Hin [_ Hqx']]]]].
        -- apply q1_In in Hx; [|exact td]. destruct Hx as [Hx|[r [_ [_ ->]]]]; [|discriminate].
           apply (HF x sr w); auto.
        -- rewrite Hqx in Hqx'. inversion Hqx'; subst.
           unfold td in Hin. apply det_delays_In in Hin. destruct Hin as [Hin _].
           unfold sus in Hin. apply sus_nbrs_In in Hin. destruct Hin as [Hin _].
           apply (Hadjg v w'); auto.
      * assert (Hst : stat s' = fupdN (stat s) v stI) by (unfold s'; rewrite ai_stat; reflexivity).
        rewrite Hphi. unfold phi. rewrite Hst.
        pose proof (ai_length tb tmax (qt e) src v td (dur v) (det_calls v sus) (set_qu s q')) as HL.
        fold s' in HL. cbn [qu set_qu] in HL.
        assert (Htd : (length td <= deg v)%nat).
        { unfold td, det_delays. rewrite map_length. apply sus_length. }
        pose proof (wS_upd_in (gnodes g) (stat s) v stI Hgn Hvg E) as HW.
        assert (stI <> stS) by discriminate. specialize (HW H). lia.
    + split.
      * intros x sr w Hx Hqx. apply (HF x sr w); auto.
      * rewrite Hphi. unfold phi. cbn [qu stat set_qu]. lia.
  - split.
    + intros x sr w Hx Hqx. apply (HF x sr w); auto.
    + rewrite Hphi. unfold phi, apply_rec. cbn [qu stat set_qu].
      pose proof (wS_upd_le (gnodes g) (stat s) u stR). assert (stR <> stS) by discriminate.
      specialize (H H0). lia.
Qed.


(* ---------------- the user's rules are consulted at most once per argument ---------------- *)
Definition OInv (s : est) : Prop :=
  NoDup (olog s) /\ forall u x, In (u, x) (olog s) -> infd (tlog s) u.

Lemma det_calls_spec : forall u sus, NoDup sus ->
  NoDup (det_calls u sus) /\ forall a x, In (a, x) (det_calls u sus) -> a = u.
Proof.
  intros u sus Hnd. unfold det_calls. split.
  - apply NoDup_rev. constructor.
    + intros H. apply in_map_iff in H. destruct H as [w [E _]]. discriminate.
    + clear -Hnd. induction sus as [|a l IH]; simpl; [constructor|].
      inversion Hnd; subst. constructor; auto.
      intros H. apply in_map_iff in H. destruct H as [w [E Hw]]. inversion E; subst. contradiction.
  - intros a x H. apply in_rev in H. destruct H as [H|H]; [inversion H; auto|].
    apply in_map_iff in H. destruct H as [w [E _]]. inversion E. auto.
Qed.

Lemma NoDup_app_disj : forall A (l1 l2 : list A), NoDup l1 -> NoDup l2 ->
  (forall x, In x l1 -> ~ In x l2) -> NoDup (l1 ++ l2).
Proof.
  induction l1 as [|a l1 IH]; intros l2 H1 H2 Hd; simpl; auto.
  inversion H1; subst. constructor.
  - intros H. apply in_app_or in H. destruct H; [contradiction|]. apply (Hd a); simpl; auto.
  - apply IH; auto. intros x Hx. apply Hd. simpl. auto.
Qed.

Lemma step_oinv : forall c s e q',
  INV c s -> OInv s -> qu s = e :: q' -> (forall src v, qe e = ETrans src v -> In v (gnodes g)) ->
  OInv (step_det tb g tmax delay dur e (set_qu s q')).
Proof.
  intros c s e q' HI [HO1 HO2] Hq Hg. unfold step_det.
  destruct (qe e) as [src v|u] eqn:He; [|exact (conj HO1 HO2)].
  change (stat (set_qu s q') v) with (stat s v).
  destruct (N.eqb (stat s v) stS) eqn:E; [|exact (conj HO1 HO2)].
  apply N.eqb_eq in E. cbv zeta. change (stat (set_qu s q')) with (stat s).
  set (sus := sus_nbrs g (fupdN (stat s) v stI) v).
  assert (Hin_e : In e (qu s)) by (rewrite Hq; left; auto).
  destruct (i_qjust _ _ _ _ _ _ _ _ _ HI e src v Hin_e He) as [Hvr0 _].
  assert (Hninf : ~ infd (tlog s) v).
  { intros H. apply (i_stat _ _ _ _ _ _ _ _ _ HI v Hvr0) in H. contradiction. }
  destruct (det_calls_spec v sus) as [D1 D2].
  { unfold sus, sus_nbrs. apply NoDup_filter. apply Hadj. apply (Hg src v eq_refl). }
  unfold OInv. rewrite ai_olog, ai_tlog. cbn [olog tlog set_qu]. split.
  - apply NoDup_app_disj; auto. intros [a x] Hx Hx'. apply D2 in Hx. subst. apply Hninf. eapply HO2; eauto.
  - intros a x H. apply in_app_or in H. destruct H as [H|H].
    + apply D2 in H. subst. exists (qt e), src. left. auto.
    + destruct (HO2 a x H) as [t1 [s1 H1]]. exists t1, s1. right. auto.
Qed.

Lemma loop_terminates : forall fuel s c,
  INV c s -> OInv s -> fuel_inv s -> (phi s <= fuel)%nat ->
  exists s' c', loop_det tb g tmax delay dur fuel s = Ok s' /\ qu s' = [] /\ INV c' s' /\ OInv s'.
Proof.
  induction fuel as [|f IH]; intros s c HI HO HF Hphi.
  - destruct (qu s) as [|e q'] eqn:Hq.
    + exists s, c. simpl. rewrite Hq. auto.
    + unfold phi in Hphi. rewrite Hq in Hphi. simpl in Hphi. lia.
  - simpl. destruct (qu s) as [|e q'] eqn:Hq.
    + exists s, c. auto.
    + destruct (step_fuel s e q' HF Hq) as [HF' Hlt].
      assert (Hg : forall src v, qe e = ETrans src v -> In v (gnodes g)).
      { intros src v He. apply (HF e src v); auto. rewrite Hq. left. auto. }
      apply (IH _ (qt e)); [| |exact HF'|lia].
      * apply (step_det_inv tb g tmax delay dur tmin i0 r0 Hdelay Hdur Hadj Htmin c s e q' HI Hq Hg).
      * apply (step_oinv c s e q' HI HO Hq Hg).
Qed.

Lemma wS_le_all : forall st l, (wS st l <= fold_right (fun v a => S (length (gadj g v)) + a) O l)%nat.
Proof.
  induction l as [|a l IH]; cbn [wS fold_right]; auto. unfold deg. destruct (N.eqb (st a) stS); lia.
Qed.

Lemma init_phi : (phi (init_state tb g tmin tmax i0 r0) <= esir_fuel g i0)%nat.
Proof.
  unfold init_state.
  set (s0 := mkE _ _ _ _ _ _ _ _). fold (iniF i0 s0).
  destruct (iniF_spec i0 s0) as [H1 [_ [_ [_ [_ [_ [_ [_ H9]]]]]]]].
  unfold phi, esir_fuel. pose proof (wS_le_all (stat (iniF i0 s0)) (gnodes g)).
  simpl in H9. lia.
Qed.

Lemma init_fuel_inv : fuel_inv (init_state tb g tmin tmax i0 r0).
Proof.
  unfold init_state. set (s0 := mkE _ _ _ _ _ _ _ _). fold (iniF i0 s0).
  destruct (iniF_spec i0 s0) as [_ [_ [_ [_ [_ [_ [H7 _]]]]]]].
  intros e src v He Hq. apply H7 in He. destruct He as [[]|[_ [u [Hu Hq']]]].
  rewrite Hq in Hq'. inversion Hq'; subst. auto.
Qed.

Lemma init_oinv : OInv (init_state tb g tmin tmax i0 r0).
Proof.
  unfold init_state. set (s0 := mkE _ _ _ _ _ _ _ _). fold (iniF i0 s0).
  assert (H : forall l s, olog (iniF l s) = olog s).
  { induction l as [|a l IH]; intros s; [reflexivity|]. unfold iniF. simpl fold_left.
    fold (iniF l (init_inf tb tmin tmax s a)). rewrite IH. reflexivity. }
  unfold OInv. rewrite H. simpl. split; [constructor|intros u x []].
Qed.

(* the run ends, within the fuel, in a state with an empty queue that satisfies the invariant *)
Theorem esir_terminates : forall fuel, (esir_fuel g i0 <= fuel)%nat ->
  exists sF cF, esir_run tb g delay dur i0 r0 tmin tmax fuel = Ok sF /\
                qu sF = [] /\ INV cF sF /\ OInv sF.
Proof.
  intros fuel Hf. unfold esir_run. apply (loop_terminates _ _ tmin).
  - apply init_inv.
  - apply init_oinv.
  - apply init_fuel_inv.
  - pose proof init_phi. lia.
Qed.

End Main.
