(* Proofs for C20: subsample / get_time_shift and the degree-distribution
   helpers of Model/Aux.v.  The statements are used by Props/C20.v. *)
From EoNV Require Import Prelude Aux.
From Coq Require Import Sorted Qpower Lqa Lia Setoid Morphisms.

(* difference quotient of a polynomial given by its coefficient list:
   p(y)-p(x) = (y-x) * pdq c x y *)
Fixpoint pdq (c : list Q) (x y : Q) : Q :=
  match c with [] => 0 | _ :: c' => peval c' y + x * pdq c' x y end.

(* ------------------------------------------------------------------ *)
(* Boolean comparisons on Q                                            *)
(* ------------------------------------------------------------------ *)

Lemma Qleb_true : forall a b, Qleb a b = true <-> a <= b.
Proof.
  intros a b. unfold Qleb. destruct (Qlt_le_dec b a) as [H|H]; split; intro H1.
  - discriminate.
  - exfalso. exact (Qlt_not_le _ _ H H1).
  - exact H.
  - reflexivity.
Qed.

Lemma Qleb_false : forall a b, Qleb a b = false <-> b < a.
Proof.
  intros a b. unfold Qleb. destruct (Qlt_le_dec b a) as [H|H]; split; intro H1.
  - exact H.
  - reflexivity.
  - discriminate.
  - exfalso. exact (Qlt_not_le _ _ H1 H).
Qed.

Lemma Qltb_true : forall a b, Qltb a b = true <-> a < b.
Proof.
  intros a b. unfold Qltb. destruct (Qlt_le_dec a b) as [H|H]; split; intro H1.
  - exact H.
  - reflexivity.
  - discriminate.
  - exfalso. exact (Qlt_not_le _ _ H1 H).
Qed.

(* ------------------------------------------------------------------ *)
(* sumQ                                                                *)
(* ------------------------------------------------------------------ *)

Lemma sumQ_nil : sumQ [] = 0.
Proof. reflexivity. Qed.

Lemma sumQ_cons : forall a l, sumQ (a :: l) = a + sumQ l.
Proof. reflexivity. Qed.

Lemma sumQ_app : forall l1 l2, sumQ (l1 ++ l2) == sumQ l1 + sumQ l2.
Proof.
  induction l1 as [|a l1 IH]; intros l2.
  - cbn [app]. rewrite sumQ_nil. ring.
  - cbn [app]. rewrite !sumQ_cons, IH. ring.
Qed.

Lemma sumQ_map_ext : forall {A} (f g : A -> Q) l,
  (forall a, In a l -> f a == g a) -> sumQ (map f l) == sumQ (map g l).
Proof.
  intros A f g. induction l as [|a l IH]; intros H.
  - reflexivity.
  - cbn [map]. rewrite !sumQ_cons. rewrite (H a (or_introl eq_refl)).
    rewrite IH; [reflexivity|]. intros b Hb. apply H. right. exact Hb.
Qed.

Lemma sumQ_map_scale : forall {A} (f : A -> Q) c l,
  sumQ (map (fun a => c * f a) l) == c * sumQ (map f l).
Proof.
  intros A f c. induction l as [|a l IH].
  - cbn [map]. rewrite sumQ_nil. ring.
  - cbn [map]. rewrite !sumQ_cons, IH. ring.
Qed.

Lemma sumQ_map_plus : forall {A} (f g : A -> Q) l,
  sumQ (map (fun a => f a + g a) l) == sumQ (map f l) + sumQ (map g l).
Proof.
  intros A f g. induction l as [|a l IH].
  - cbn [map]. rewrite sumQ_nil. ring.
  - cbn [map]. rewrite !sumQ_cons, IH. ring.
Qed.

Lemma sumQ_map_zero : forall {A} (l : list A), sumQ (map (fun _ => 0) l) == 0.
Proof.
  intros A. induction l as [|a l IH].
  - reflexivity.
  - cbn [map]. rewrite sumQ_cons, IH. ring.
Qed.

Lemma sumQ_swap : forall {A B} (g : A -> B -> Q) la lb,
  sumQ (map (fun a => sumQ (map (fun b => g a b) lb)) la) ==
  sumQ (map (fun b => sumQ (map (fun a => g a b) la)) lb).
Proof.
  intros A B g. induction la as [|a la IH]; intros lb.
  - cbn [map]. rewrite sumQ_nil. symmetry. apply sumQ_map_zero.
  - cbn [map]. rewrite sumQ_cons, IH.
    rewrite <- sumQ_map_plus. apply sumQ_map_ext. intros b _.
    rewrite sumQ_cons. reflexivity.
Qed.

(* ------------------------------------------------------------------ *)
(* Qnat                                                                *)
(* ------------------------------------------------------------------ *)

Lemma Qnat_0 : Qnat 0 = 0.
Proof. reflexivity. Qed.

Lemma Qnat_S : forall n, Qnat (S n) == Qnat n + 1.
Proof.
  intros n. unfold Qnat. rewrite Nat2Z.inj_succ. unfold Z.succ.
  rewrite inject_Z_plus. reflexivity.
Qed.

Lemma Qnat_pos : forall n, (0 < n)%nat -> 0 < Qnat n.
Proof.
  intros n H. unfold Qnat. change 0 with (inject_Z 0).
  rewrite <- Zlt_Qlt. lia.
Qed.

Lemma Qnat_nz : forall n, (0 < n)%nat -> ~ Qnat n == 0.
Proof.
  intros n H E. pose proof (Qnat_pos n H) as P. rewrite E in P.
  exact (Qlt_irrefl _ P).
Qed.

Lemma Qnat_length : forall {A} (l : list A),
  sumQ (map (fun _ => 1) l) == Qnat (length l).
Proof.
  intros A. induction l as [|a l IH].
  - reflexivity.
  - cbn [map length]. rewrite sumQ_cons, IH, Qnat_S. ring.
Qed.

Lemma length_pos : forall {A} (l : list A), l <> [] -> (0 < length l)%nat.
Proof. intros A [|a l] H; [congruence | cbn; lia]. Qed.

(* ------------------------------------------------------------------ *)
(* counting                                                            *)
(* ------------------------------------------------------------------ *)

Lemma count_nil : forall k, count k [] = 0%nat.
Proof. reflexivity. Qed.

Lemma count_cons : forall k d ds,
  count k (d :: ds) = if Nat.eq_dec d k then S (count k ds) else count k ds.
Proof. reflexivity. Qed.

Lemma sum_pick : forall (f : nat -> Q) d l, NoDup l -> In d l ->
  sumQ (map (fun k => if Nat.eq_dec d k then f k else 0) l) == f d.
Proof.
  intros f d. induction l as [|a l IH]; intros ND HIn.
  - destruct HIn.
  - inversion ND as [|a' l' Hna ND']; subst a' l'.
    cbn [map]. rewrite sumQ_cons.
    destruct (Nat.eq_dec d a) as [E|E].
    + subst a.
      rewrite (sumQ_map_ext _ (fun _ => 0)).
      * rewrite sumQ_map_zero. ring.
      * intros k Hk. destruct (Nat.eq_dec d k) as [E|E]; [|reflexivity].
        subst k. contradiction.
    + rewrite IH; [ring | exact ND' |].
      destruct HIn as [H|H]; [congruence | exact H].
Qed.

(* generic histogram identity *)
Lemma sum_count_gen : forall (f : nat -> Q) ds l, NoDup l ->
  (forall d, In d ds -> In d l) ->
  sumQ (map (fun k => f k * Qnat (count k ds)) l) == sumQ (map f ds).
Proof.
  intros f. induction ds as [|d ds IH]; intros l ND Hincl.
  - cbn [map]. rewrite sumQ_nil.
    rewrite (sumQ_map_ext _ (fun _ => 0)).
    + apply sumQ_map_zero.
    + intros k _. rewrite count_nil, Qnat_0. ring.
  - cbn [map]. rewrite sumQ_cons.
    rewrite (sumQ_map_ext _
      (fun k => (if Nat.eq_dec d k then f k else 0) + f k * Qnat (count k ds))).
    + rewrite sumQ_map_plus. rewrite sum_pick.
      * rewrite IH; [reflexivity | exact ND |].
        intros d' Hd'. apply Hincl. right. exact Hd'.
      * exact ND.
      * apply Hincl. left. reflexivity.
    + intros k _. rewrite count_cons.
      destruct (Nat.eq_dec d k) as [E|E].
      * rewrite Qnat_S. ring.
      * ring.
Qed.

Lemma sum_count_length : forall ds l, NoDup l ->
  (forall d, In d ds -> In d l) ->
  sumQ (map (fun k => Qnat (count k ds)) l) == Qnat (length ds).
Proof.
  intros ds l ND Hincl.
  rewrite <- Qnat_length.
  rewrite <- (sum_count_gen (fun _ => 1) ds l ND Hincl).
  apply sumQ_map_ext. intros k _. ring.
Qed.

(* weighted sums against Pk *)
Lemma sum_weighted : forall (f : nat -> Q) ds l, NoDup l ->
  (forall d, In d ds -> In d l) -> ds <> [] ->
  sumQ (map (fun k => Pk ds k * f k) l) == sumQ (map f ds) / Qnat (length ds).
Proof.
  intros f ds l ND Hincl Hne.
  assert (Hnz : ~ Qnat (length ds) == 0) by (apply Qnat_nz, length_pos; exact Hne).
  rewrite (sumQ_map_ext _ (fun k => (/ Qnat (length ds)) * (f k * Qnat (count k ds)))).
  - rewrite sumQ_map_scale. rewrite (sum_count_gen f ds l ND Hincl).
    field. exact Hnz.
  - intros k _. unfold Pk. field. exact Hnz.
Qed.

Lemma le_maxdeg : forall ds d, In d ds -> (d <= maxdeg ds)%nat.
Proof.
  induction ds as [|a ds IH]; intros d H.
  - destruct H.
  - unfold maxdeg. cbn [fold_right]. fold (maxdeg ds).
    destruct H as [H|H].
    + subst. lia.
    + apply IH in H. lia.
Qed.

Lemma ks_NoDup : forall ds, NoDup (ks ds).
Proof. intros ds. unfold ks. apply seq_NoDup. Qed.

Lemma ks_incl : forall ds d, In d ds -> In d (ks ds).
Proof.
  intros ds d H. unfold ks. apply in_seq. apply le_maxdeg in H. lia.
Qed.

(* ------------------------------------------------------------------ *)
(* Pk                                                                  *)
(* ------------------------------------------------------------------ *)

Lemma Pk_sum_keys : forall ds, ds <> [] -> sumQ (map (Pk ds) (Pk_keys ds)) == 1.
Proof.
  intros ds Hne.
  assert (Hnz : ~ Qnat (length ds) == 0) by (apply Qnat_nz, length_pos; exact Hne).
  rewrite (sumQ_map_ext _ (fun k => Pk ds k * (fun _ => 1) k)).
  - rewrite sum_weighted.
    + rewrite Qnat_length. field. exact Hnz.
    + unfold Pk_keys. apply NoDup_nodup.
    + intros d Hd. unfold Pk_keys. apply nodup_In. exact Hd.
    + exact Hne.
  - intros k _. ring.
Qed.

Lemma Pk_hist : forall ds k,
  Pk ds k * Qnat (length ds) == Qnat (count k ds) \/ ds = [].
Proof.
  intros ds k. destruct ds as [|d ds].
  - right. reflexivity.
  - left. unfold Pk. field. apply Qnat_nz. cbn [length]. lia.
Qed.

(* ------------------------------------------------------------------ *)
(* Qpow                                                                *)
(* ------------------------------------------------------------------ *)

Lemma Qpow_one : forall z, Qpow 1 z == 1.
Proof. intros z. unfold Qpow. apply Qpower_1. Qed.

Lemma Qpow_0 : forall x, Qpow x 0 == 1.
Proof. intros x. reflexivity. Qed.

Lemma Qpow_nat_S : forall x k,
  Qpow x (Z.of_nat (S k)) == x * Qpow x (Z.of_nat k).
Proof.
  intros x k. unfold Qpow. rewrite Nat2Z.inj_succ. unfold Z.succ.
  rewrite Z.add_comm. rewrite Qpower_plus' by lia.
  rewrite Qpower_1_r. reflexivity.
Qed.

Lemma Qpow_succ : forall x z, ~ x == 0 -> Qpow x (z + 1) == x * Qpow x z.
Proof.
  intros x z Hx. unfold Qpow. rewrite Qpower_plus by exact Hx.
  rewrite Qpower_1_r. ring.
Qed.

(* ------------------------------------------------------------------ *)
(* psi, psi', psi'' at 1                                               *)
(* ------------------------------------------------------------------ *)

Lemma psi_1 : forall ds, ds <> [] -> psi ds 1 == 1.
Proof.
  intros ds Hne.
  assert (Hnz : ~ Qnat (length ds) == 0) by (apply Qnat_nz, length_pos; exact Hne).
  unfold psi.
  rewrite (sum_weighted (fun k => Qpow 1 (Z.of_nat k)) ds (ks ds)
             (ks_NoDup ds) (ks_incl ds) Hne).
  rewrite (sumQ_map_ext _ (fun _ => 1)).
  - rewrite Qnat_length. field. exact Hnz.
  - intros k _. apply Qpow_one.
Qed.

Lemma psiP_1 : forall ds, ds <> [] -> psiP ds 1 == mean_k ds.
Proof.
  intros ds Hne. unfold psiP, mean_k.
  rewrite (sum_weighted (fun k => Qnat k * Qpow 1 (Z.of_nat k - 1)) ds (ks ds)
             (ks_NoDup ds) (ks_incl ds) Hne).
  rewrite (sumQ_map_ext _ Qnat).
  - reflexivity.
  - intros k _. rewrite Qpow_one. ring.
Qed.

Lemma psiDP_1 : forall ds, ds <> [] -> psiDP ds 1 == mean_k2mk ds.
Proof.
  intros ds Hne. unfold psiDP, mean_k2mk.
  rewrite (sum_weighted (fun k => Qnat k * (Qnat k - 1) * Qpow 1 (Z.of_nat k - 2))
             ds (ks ds) (ks_NoDup ds) (ks_incl ds) Hne).
  rewrite (sumQ_map_ext _ (fun d => Qnat d * Qnat d - Qnat d)).
  - reflexivity.
  - intros k _. rewrite Qpow_one. ring.
Qed.

Lemma R0_formula : forall ds T, ds <> [] -> ~ mean_k ds == 0 ->
  estimate_R0 ds T == T * mean_k2mk ds / mean_k ds.
Proof.
  intros ds T Hne Hm. unfold estimate_R0.
  rewrite (psiP_1 ds Hne), (psiDP_1 ds Hne). reflexivity.
Qed.

(* ------------------------------------------------------------------ *)
(* psi, psi', psi'' as polynomials                                     *)
(* ------------------------------------------------------------------ *)

Lemma psi_gen : forall (f : nat -> Q) x n s,
  sumQ (map (fun k => f k * Qpow x (Z.of_nat k)) (seq s n)) ==
  Qpow x (Z.of_nat s) * peval (map f (seq s n)) x.
Proof.
  intros f x. induction n as [|n IH]; intros s.
  - cbn [seq map peval]. rewrite sumQ_nil. ring.
  - cbn [seq map peval]. rewrite sumQ_cons, IH, Qpow_nat_S. ring.
Qed.

Lemma psi_peval : forall ds x, psi ds x == peval (Pk_coeffs ds) x.
Proof.
  intros ds x. unfold psi, Pk_coeffs, ks.
  rewrite psi_gen. change (Z.of_nat 0) with 0%Z. rewrite Qpow_0. ring.
Qed.

Lemma psiP_gen : forall (f : nat -> Q) x, ~ x == 0 -> forall n s,
  sumQ (map (fun k => f k * (Qnat k * Qpow x (Z.of_nat k - 1))) (seq s n)) ==
  Qpow x (Z.of_nat s - 1) * peval (pderiv_from (map f (seq s n)) s) x.
Proof.
  intros f x Hx. induction n as [|n IH]; intros s.
  - cbn [seq map pderiv_from peval]. rewrite sumQ_nil. ring.
  - cbn [seq map pderiv_from peval]. rewrite sumQ_cons, IH.
    replace (Z.of_nat (S s) - 1)%Z with ((Z.of_nat s - 1) + 1)%Z by lia.
    rewrite (Qpow_succ x _ Hx). ring.
Qed.

Lemma psiP_peval : forall ds x, ~ x == 0 ->
  psiP ds x == peval (pderiv (Pk_coeffs ds)) x.
Proof.
  intros ds x Hx. unfold psiP, Pk_coeffs, ks.
  cbn [seq map pderiv]. rewrite sumQ_cons.
  rewrite (psiP_gen (Pk ds) x Hx).
  change (Z.of_nat 1 - 1)%Z with 0%Z. rewrite Qpow_0, Qnat_0. ring.
Qed.

Lemma psiDP_gen : forall (f : nat -> Q) x, ~ x == 0 -> forall n t,
  sumQ (map (fun k => f k * (Qnat k * (Qnat k - 1) * Qpow x (Z.of_nat k - 2)))
            (seq (S t) n)) ==
  Qpow x (Z.of_nat t - 1) *
  peval (pderiv_from (pderiv_from (map f (seq (S t) n)) (S t)) t) x.
Proof.
  intros f x Hx. induction n as [|n IH]; intros t.
  - cbn [seq map pderiv_from peval]. rewrite sumQ_nil. ring.
  - cbn [seq map pderiv_from peval]. rewrite sumQ_cons, IH.
    replace (Z.of_nat (S t) - 2)%Z with (Z.of_nat t - 1)%Z by lia.
    replace (Z.of_nat (S t) - 1)%Z with ((Z.of_nat t - 1) + 1)%Z by lia.
    rewrite (Qpow_succ x _ Hx). rewrite (Qnat_S t). ring.
Qed.

Lemma psiDP_peval : forall ds x, ~ x == 0 ->
  psiDP ds x == peval (pderiv (pderiv (Pk_coeffs ds))) x.
Proof.
  intros ds x Hx. unfold psiDP, Pk_coeffs, ks.
  destruct (maxdeg ds) as [|m].
  - cbn [seq map pderiv pderiv_from peval]. rewrite sumQ_cons, sumQ_nil, Qnat_0. ring.
  - cbn [seq map pderiv pderiv_from]. rewrite !sumQ_cons.
    rewrite (psiDP_gen (Pk ds) x Hx).
    change (Z.of_nat 1 - 1)%Z with 0%Z. rewrite Qpow_0, Qnat_0.
    change (Qnat 1) with 1. ring.
Qed.

(* ------------------------------------------------------------------ *)
(* formal derivative = derivative                                      *)
(* ------------------------------------------------------------------ *)

Lemma pderiv_from_S : forall c k x,
  peval (pderiv_from c (S k)) x == peval c x + peval (pderiv_from c k) x.
Proof.
  induction c as [|a c IH]; intros k x.
  - cbn [pderiv_from peval]. ring.
  - cbn [pderiv_from peval]. rewrite (IH (S k)), (Qnat_S k). ring.
Qed.

Lemma pderiv_from_0 : forall c x,
  peval (pderiv_from c 0) x == x * peval (pderiv c) x.
Proof.
  intros [|a c] x.
  - cbn [pderiv_from pderiv peval]. ring.
  - cbn [pderiv_from pderiv peval]. rewrite Qnat_0. ring.
Qed.

Lemma pdq_diff : forall c x y, peval c y - peval c x == (y - x) * pdq c x y.
Proof.
  induction c as [|a c IH]; intros x y.
  - cbn [peval pdq]. ring.
  - cbn [peval pdq].
    setoid_replace (a + y * peval c y - (a + x * peval c x))
      with ((y - x) * peval c y + x * (peval c y - peval c x)) by ring.
    rewrite IH. ring.
Qed.

Lemma pdq_diag : forall c x, pdq c x x == peval (pderiv c) x.
Proof.
  induction c as [|a c IH]; intros x.
  - reflexivity.
  - cbn [pdq pderiv]. rewrite IH, pderiv_from_S, pderiv_from_0. reflexivity.
Qed.

Lemma pderiv_difference_quotient : forall c x y,
  peval c y - peval c x == (y - x) * pdq c x y /\ pdq c x x == peval (pderiv c) x.
Proof. intros c x y. split; [apply pdq_diff | apply pdq_diag]. Qed.

(* ------------------------------------------------------------------ *)
(* Pnk                                                                 *)
(* ------------------------------------------------------------------ *)

Lemma sum_if_count : forall (nd : list (nat * list nat)) k1 a,
  sumQ (map (fun dn => if Nat.eqb (fst dn) k1 then a else 0) nd) ==
  Qnat (count k1 (map fst nd)) * a.
Proof.
  intros nd k1 a. induction nd as [|dn nd IH].
  - cbn [map]. rewrite sumQ_nil, count_nil, Qnat_0. ring.
  - cbn [map]. rewrite sumQ_cons, IH, count_cons.
    destruct (Nat.eq_dec (fst dn) k1) as [E|E].
    + apply Nat.eqb_eq in E. rewrite E, Qnat_S. ring.
    + apply Nat.eqb_neq in E. rewrite E. ring.
Qed.

Lemma Pnk_row_sum : forall nd k1,
  (forall d l, In (d, l) nd -> length l = d) ->
  (0 < k1)%nat -> In k1 (map fst nd) ->
  sumQ (map (Pnk nd k1) (Pnk_row_keys nd k1)) == 1.
Proof.
  intros nd k1 Hlen Hk1 Hin.
  set (keys := Pnk_row_keys nd k1).
  set (c := 1 / (Qnat k1 * Qnat (count k1 (map fst nd)))).
  assert (Hk1nz : ~ Qnat k1 == 0) by (apply Qnat_nz; exact Hk1).
  assert (Hcnz : ~ Qnat (count k1 (map fst nd)) == 0).
  { apply Qnat_nz. unfold count. apply count_occ_In. exact Hin. }
  transitivity (sumQ (map (fun k2 => sumQ (map (fun dn : nat * list nat =>
      if Nat.eqb (fst dn) k1 then Qnat (count k2 (snd dn)) * c else 0) nd)) keys)).
  { apply sumQ_map_ext. intros k2 _. unfold Pnk. reflexivity. }
  rewrite <- (sumQ_swap (fun (dn : nat * list nat) k2 =>
      if Nat.eqb (fst dn) k1 then Qnat (count k2 (snd dn)) * c else 0) nd keys).
  rewrite (sumQ_map_ext _ (fun dn => if Nat.eqb (fst dn) k1 then Qnat k1 * c else 0)).
  - rewrite sum_if_count. unfold c. field. split; assumption.
  - intros [d l] Hdn. cbn [fst snd].
    destruct (Nat.eqb d k1) eqn:E.
    + apply Nat.eqb_eq in E.
      rewrite (sumQ_map_ext _ (fun k2 => c * Qnat (count k2 l))).
      * rewrite sumQ_map_scale. rewrite sum_count_length.
        -- rewrite (Hlen d l Hdn), E. ring.
        -- unfold keys, Pnk_row_keys. apply NoDup_nodup.
        -- intros x Hx. unfold keys, Pnk_row_keys. apply nodup_In.
           apply in_concat. exists l. split; [|exact Hx].
           apply in_map_iff. exists (d, l). split; [|exact Hdn].
           cbn [fst snd]. apply Nat.eqb_eq in E. rewrite E. reflexivity.
      * intros k2 _. ring.
    + apply sumQ_map_zero.
Qed.

(* ------------------------------------------------------------------ *)
(* get_time_shift                                                      *)
(* ------------------------------------------------------------------ *)

Lemma time_shift_gen : forall L times thr lst n i,
  length L = length times -> first_reach L thr n = Some i ->
  (n <= i)%nat /\
  exists t, nth_error times (i - n) = Some t /\
            time_shift_from times L thr lst = Ok t /\
            (forall j l, (j < i - n)%nat -> nth_error L j = Some l -> l < thr).
Proof.
  induction L as [|l ls IH]; intros times thr lst n i Hlen Hf.
  - discriminate.
  - destruct times as [|t ts]; [discriminate|].
    cbn [first_reach] in Hf. cbn [time_shift_from].
    destruct (Qleb thr l) eqn:E.
    + inversion Hf; subst i. split; [lia|]. exists t.
      rewrite Nat.sub_diag. split; [reflexivity|]. split; [reflexivity|].
      intros j l' Hj. lia.
    + cbn [length] in Hlen. injection Hlen as Hlen.
      destruct (IH ts thr (Some t) (S n) i Hlen Hf) as (Hle & t' & Hn & Hts & Hall).
      split; [lia|]. exists t'.
      replace (i - n)%nat with (S (i - S n)) by lia.
      split; [exact Hn|]. split; [exact Hts|].
      intros j l' Hj Hl'. destruct j as [|j].
      * cbn [nth_error] in Hl'. inversion Hl'; subst l'.
        apply Qleb_false. exact E.
      * cbn [nth_error] in Hl'. apply (Hall j l'); [lia | exact Hl'].
Qed.

Lemma time_shift_spec : forall times L thr i,
  length L = length times -> first_reach L thr 0 = Some i ->
  exists t, nth_error times i = Some t /\ get_time_shift times L thr = Ok t /\
            (forall j l, (j < i)%nat -> nth_error L j = Some l -> l < thr).
Proof.
  intros times L thr i Hlen Hf.
  destruct (time_shift_gen L times thr None 0%nat i Hlen Hf) as (_ & t & Hn & Hts & Hall).
  rewrite Nat.sub_0_r in Hn, Hall.
  exists t. split; [exact Hn|]. split; [exact Hts | exact Hall].
Qed.

Lemma last_cons : forall {A} (l : list A) a d, last (a :: l) d = last l a.
Proof.
  intros A. induction l as [|b l IH]; intros a d.
  - reflexivity.
  - change (last (a :: b :: l) d) with (last (b :: l) d).
    rewrite (IH b d), (IH b a). reflexivity.
Qed.

Lemma time_shift_none_gen : forall L times thr d n,
  length L = length times -> first_reach L thr n = None ->
  time_shift_from times L thr (Some d) = Ok (last times d).
Proof.
  induction L as [|l ls IH]; intros times thr d n Hlen Hf.
  - destruct times as [|t ts]; [reflexivity | discriminate].
  - destruct times as [|t ts]; [discriminate|].
    cbn [first_reach] in Hf. cbn [time_shift_from].
    destruct (Qleb thr l) eqn:E; [discriminate|].
    cbn [length] in Hlen. injection Hlen as Hlen.
    rewrite (IH ts thr t (S n) Hlen Hf). rewrite last_cons. reflexivity.
Qed.

Lemma time_shift_none : forall times L thr t ts,
  length L = length times -> first_reach L thr 0 = None -> times = t :: ts ->
  get_time_shift times L thr = Ok (last times t).
Proof.
  intros times L thr t ts Hlen Hf Ht. subst times.
  destruct L as [|l ls]; [discriminate|].
  unfold get_time_shift. cbn [first_reach] in Hf. cbn [time_shift_from].
  destruct (Qleb thr l) eqn:E; [discriminate|].
  cbn [length] in Hlen. injection Hlen as Hlen.
  rewrite (time_shift_none_gen ls ts thr t 1%nat Hlen Hf).
  rewrite last_cons. reflexivity.
Qed.

(* ------------------------------------------------------------------ *)
(* subsample                                                           *)
(* ------------------------------------------------------------------ *)

Section SubsampleP.
Variable V : Type.

Definition lastv (l : list (Q * V)) : option V :=
  match rev l with [] => None | (_, v) :: _ => Some v end.

Definition orelse (a b : option V) : option V :=
  match a with None => b | Some _ => a end.

Definition tle (a b : Q * V) : Prop := fst a <= fst b.
Definition tsorted (obs : list (Q * V)) : Prop := StronglySorted tle obs.

Lemma lastv_app : forall l1 l2, lastv (l1 ++ l2) = orelse (lastv l2) (lastv l1).
Proof.
  intros l1 l2. unfold lastv. rewrite rev_app_distr.
  destruct (rev l2) as [|[t v] r]; reflexivity.
Qed.

Lemma lastv_cons_ne : forall a l, lastv (a :: l) <> None.
Proof.
  intros [t v] l. change ((t, v) :: l) with ([(t, v)] ++ l).
  rewrite lastv_app. destruct (lastv l); discriminate.
Qed.

Lemma orelse_assoc : forall a b c, orelse (orelse a b) c = orelse a (orelse b c).
Proof. intros [a|] b c; reflexivity. Qed.

Lemma last_le_lastv : forall obs r,
  last_le obs r = lastv (filter (fun tv : Q * V => Qleb (fst tv) r) obs).
Proof. reflexivity. Qed.

Lemma filter_all : forall {A} (f : A -> bool) l,
  Forall (fun a => f a = true) l -> filter f l = l.
Proof.
  intros A f. induction l as [|a l IH]; intros H.
  - reflexivity.
  - inversion H as [|a' l' Ha Hl]; subst a' l'. cbn [filter]. rewrite Ha, IH; auto.
Qed.

Lemma filter_none : forall {A} (f : A -> bool) l,
  Forall (fun a => f a = false) l -> filter f l = [].
Proof.
  intros A f. induction l as [|a l IH]; intros H.
  - reflexivity.
  - inversion H as [|a' l' Ha Hl]; subst a' l'. cbn [filter]. rewrite Ha, IH; auto.
Qed.

Lemma last_le_split : forall obs1 obs2 r,
  Forall (fun tv : Q * V => fst tv <= r) obs1 ->
  last_le (obs1 ++ obs2) r = orelse (last_le obs2 r) (lastv obs1).
Proof.
  intros obs1 obs2 r HF. rewrite !last_le_lastv. rewrite filter_app.
  rewrite (filter_all _ obs1).
  - apply lastv_app.
  - eapply Forall_impl; [|exact HF]. intros tv H. apply Qleb_true. exact H.
Qed.

Lemma last_le_gt : forall obs2 r, tsorted obs2 ->
  match obs2 with [] => True | tv :: _ => r < fst tv end ->
  last_le obs2 r = None.
Proof.
  intros obs2 r HS Hh. rewrite last_le_lastv. rewrite filter_none; [reflexivity|].
  destruct obs2 as [|tv obs2]; [constructor|].
  inversion HS as [|a l HS' HF]; subst a l.
  constructor.
  - apply Qleb_false. exact Hh.
  - eapply Forall_impl; [|exact HF]. intros tv' H. apply Qleb_false.
    unfold tle in H. eapply Qlt_le_trans; [exact Hh | exact H].
Qed.

Lemma tsorted_app_r : forall l1 l2, tsorted (l1 ++ l2) -> tsorted l2.
Proof.
  induction l1 as [|a l1 IH]; intros l2 H.
  - exact H.
  - cbn [app] in H. inversion H as [|a' l' HS HF]; subst a' l'. apply IH. exact HS.
Qed.

Lemma adv_split : forall obs r cand obs2 c',
  adv obs r cand = (obs2, c') ->
  exists obs1, obs = obs1 ++ obs2 /\
    Forall (fun tv : Q * V => fst tv <= r) obs1 /\
    c' = orelse (lastv obs1) cand /\
    match obs2 with [] => True | tv :: _ => r < fst tv end.
Proof.
  induction obs as [|[t v] obs IH]; intros r cand obs2 c' H; cbn [adv] in H.
  - inversion H; subst obs2 c'. exists []. repeat split. constructor.
  - destruct (Qleb t r) eqn:E.
    + apply IH in H. destruct H as (obs1 & Hobs & HF & Hc & Hh).
      exists ((t, v) :: obs1). split; [rewrite Hobs; reflexivity|].
      split; [constructor; [apply Qleb_true; exact E | exact HF]|].
      split; [|exact Hh].
      rewrite Hc. change ((t, v) :: obs1) with ([(t, v)] ++ obs1).
      rewrite lastv_app. destruct (lastv obs1); reflexivity.
    + inversion H; subst obs2 c'. exists [].
      split; [reflexivity|]. split; [constructor|]. split; [reflexivity|].
      cbn [fst]. apply Qleb_false. exact E.
Qed.

Lemma scan_spec : forall reports obs cand,
  StronglySorted Qle reports -> tsorted obs ->
  (forall r, In r reports -> orelse (last_le obs r) cand <> None) ->
  exists out, scan reports obs cand = Ok out /\
              map Some out = map (fun r => orelse (last_le obs r) cand) reports.
Proof.
  induction reports as [|r rs IH]; intros obs cand HR HO Hne.
  - exists []. split; reflexivity.
  - cbn [scan]. destruct (adv obs r cand) as [obs2 c'] eqn:EA.
    apply adv_split in EA. destruct EA as (obs1 & Hobs & HF & Hc & Hh).
    subst obs.
    assert (HO2 : tsorted obs2) by (eapply tsorted_app_r; exact HO).
    assert (Hr : orelse (last_le (obs1 ++ obs2) r) cand = c').
    { rewrite (last_le_split _ _ _ HF). rewrite (last_le_gt _ _ HO2 Hh).
      cbn [orelse]. symmetry. exact Hc. }
    destruct c' as [v|].
    2: { exfalso. apply (Hne r); [left; reflexivity | exact Hr]. }
    inversion HR as [|r' rs' HRs HRf]; subst r' rs'.
    destruct (IH obs2 (Some v) HRs HO2) as (out & Hs & Hm).
    { intros r' _. destruct (last_le obs2 r'); discriminate. }
    exists (v :: out). rewrite Hs. split; [reflexivity|].
    cbn [map]. rewrite Hr. f_equal. rewrite Hm.
    apply map_ext_in. intros r' Hr'.
    rewrite last_le_split.
    + rewrite Hc. rewrite orelse_assoc. reflexivity.
    + eapply Forall_impl; [|exact HF]. intros tv Htv. cbv beta in Htv.
      eapply Qle_trans; [exact Htv|].
      rewrite Forall_forall in HRf. apply HRf. exact Hr'.
Qed.

Lemma tsorted_combine : forall times (vals : list V),
  StronglySorted Qle times -> tsorted (combine times vals).
Proof.
  induction times as [|t ts IH]; intros vals HS.
  - constructor.
  - destruct vals as [|v vs]; [constructor|].
    inversion HS as [|t' ts' HS' HF]; subst t' ts'.
    cbn [combine]. constructor.
    + apply IH. exact HS'.
    + apply Forall_forall. intros [t' v'] Hin. unfold tle. cbn [fst].
      apply in_combine_l in Hin. rewrite Forall_forall in HF. apply HF. exact Hin.
Qed.

End SubsampleP.

Lemma Qle_Transitive : Relations_1.Transitive Qle.
Proof. intros x y z. apply Qle_trans. Qed.

Lemma subsample_spec :
  forall (V : Type) (reports times : list Q) (vals : list V),
    Sorted Qle times -> Sorted Qle reports ->
    length vals = length times ->
    (exists r0 t0 rs ts, reports = r0 :: rs /\ times = t0 :: ts /\ t0 <= r0) ->
    exists out, subsample reports times vals = Ok out /\
                map Some out = map (last_le (combine times vals)) reports.
Proof.
  intros V reports times vals HT HR Hlen (r0 & t0 & rs & ts & Hr & Ht & Hle).
  subst reports times.
  destruct vals as [|v0 vs]; [discriminate|].
  apply (Sorted_StronglySorted Qle_Transitive) in HT.
  apply (Sorted_StronglySorted Qle_Transitive) in HR.
  unfold subsample.
  destruct (Qltb r0 t0) eqn:E.
  { apply Qltb_true in E. exfalso. exact (Qlt_not_le _ _ E Hle). }
  destruct (scan_spec V (r0 :: rs) (combine (t0 :: ts) (v0 :: vs)) None HR
              (tsorted_combine V _ _ HT)) as (out & Hs & Hm).
  { intros r Hin.
    assert (Hr0 : r0 <= r).
    { destruct Hin as [Hin|Hin]; [subst r; apply Qle_refl|].
      inversion HR as [|a l HRs HRf]; subst a l.
      rewrite Forall_forall in HRf. apply HRf. exact Hin. }
    assert (Ht0 : Qleb t0 r = true).
    { apply Qleb_true. eapply Qle_trans; [exact Hle | exact Hr0]. }
    rewrite last_le_lastv. cbn [combine filter fst]. rewrite Ht0.
    intro Hc. destruct (lastv V _) eqn:El in Hc; [discriminate|].
    exact (lastv_cons_ne V _ _ El). }
  exists out. split; [exact Hs|]. rewrite Hm.
  apply map_ext. intros r. destruct (last_le _ r); reflexivity.
Qed.

Lemma subsample_rejects :
  forall (V : Type) r0 rs t0 ts (vals : list V),
    r0 < t0 -> subsample (r0 :: rs) (t0 :: ts) vals = Err EoNError.
Proof.
  intros V r0 rs t0 ts vals H. unfold subsample.
  apply Qltb_true in H. rewrite H. reflexivity.
Qed.

Lemma subsample_multi :
  forall (V : Type) reports times (v1 v2 v3 : list V) a b c,
    subsample reports times v1 = Ok a -> subsample reports times v2 = Ok b ->
    subsample reports times v3 = Ok c ->
    subsample2 reports times v1 v2 = Ok (a, b) /\
    subsample3 reports times v1 v2 v3 = Ok (a, b, c).
Proof.
  intros V reports times v1 v2 v3 a b c H1 H2 H3.
  unfold subsample3, subsample2. rewrite H1, H2, H3. cbn [rbind fst snd].
  split; reflexivity.
Qed.
