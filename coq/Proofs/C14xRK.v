(* C14, proof side: EVERY explicit Runge-Kutta discretisation (any tableau, any step size, any number of steps;
   Euler, Heun, RK4, ...) of the node-level systems commutes with the relabelling action: the discrete solutions of the
   relabelled + re-ordered problem are, block by block, the re-ordered discrete solutions.  (The lift to the exact flow
   needs uniqueness of ODE solutions and is cited; scipy's odeint is an adaptive multistep method and is not covered by
   this statement either: it is what the numerical half of the check compares.) *)
From EoNV Require Import Prelude Vec Graph Rhs2D VecP Rhs2DP C14xDef C14xRhs C14xTop.
From Coq Require Import Permutation Lqa.

Section RK.
Variables (G : graph) (nodelist : list node) (idx : node -> nat) (tr : node -> node -> Q) (rc : node -> Q).
Variables (G' : graph) (nl2 : list node) (phi : node -> node) (idx' : node -> nat) (tr' : node -> node -> Q) (rc' : node -> Q).
Hypothesis R : relabel G nodelist idx tr rc G' nl2 phi idx' tr' rc'.
Variable sys : nat.
Notation n := (nN nodelist).
Notation f := (rhs2_node sys G nodelist idx tr rc).
Notation f' := (rhs2_node sys G' (map phi nl2) idx' tr' rc').
Notation L := (state_len sys n).
Notation srel0 := (state_rel nodelist idx nl2 sys).

Definition srel (W W' : vec) : Prop := length W = L /\ length W' = L /\ srel0 W W'.

Lemma srel_step V V' W W' h : srel V V' -> srel W W' -> srel (vadd V (smul h W)) (vadd V' (smul h W')).
Proof.
  intros (L1 & L1' & H1) (L2 & L2' & H2). split; [|split].
  - rewrite vadd_length by (rewrite smul_length; congruence). exact L1.
  - rewrite vadd_length by (rewrite smul_length; congruence). exact L1'.
  - apply state_rel_step; congruence || assumption.
Qed.
Lemma srel_zero V V' : srel V V' -> srel (map (fun _ => 0) V) (map (fun _ => 0) V').
Proof.
  intros (L1 & L1' & _). split; [rewrite map_length; exact L1|]. split; [rewrite map_length; exact L1'|].
  assert (Z : forall (A : vec) k, vnth k (map (fun _ => 0) A) == 0).
  { intros A k. unfold vnth. revert k. induction A as [|x A IH]; intros [|k]; cbn [map nth]; try reflexivity. apply IH. }
  assert (A1 : forall off, rel1 nodelist idx nl2 off (map (fun _ => 0) V) (map (fun _ => 0) V')) by (intros off i _; rewrite !Z; reflexivity).
  assert (A2 : forall off, rel2 nodelist idx nl2 off (map (fun _ => 0) V) (map (fun _ => 0) V')) by (intros off i j _ _; rewrite !Z; reflexivity).
  destruct sys as [|[|[|[|k]]]]; cbn [state_rel]; repeat split; try apply A1; try apply A2.
Qed.
Lemma srel_f V V' t : srel V V' -> srel (f V t) (f' V' t).
Proof.
  intros (L1 & L1' & H). pose proof (node_rhs_equivariant_rel _ _ _ _ _ _ _ _ _ _ _ R sys V V' t H) as E.
  split; [apply rhs2_node_length|]. split.
  - rewrite (veq_length _ _ E). apply (perm_state_length _ _ _ _ _ _ _ _ _ _ _ R).
  - apply (state_rel_perm _ _ _ _ _ _ _ _ _ _ _ R), E.
Qed.
Lemma srel_lcomb cs : forall ks ks' z z', Forall2 srel ks ks' -> srel z z' -> srel (lcomb cs ks z) (lcomb cs ks' z').
Proof.
  unfold lcomb. induction cs as [|c cs IH]; intros ks ks' z z' Hk Hz; [exact Hz|].
  destruct Hk as [|k k' ks ks' Hk Hks]; [exact Hz|]. cbn [combine fold_left fst snd].
  apply IH; [exact Hks|]. apply srel_step; assumption.
Qed.
Lemma Forall2_snoc {A B} (P : A -> B -> Prop) l l' x x' : Forall2 P l l' -> P x x' -> Forall2 P (l ++ [x]) (l' ++ [x']).
Proof. intros H Hx. induction H; cbn [app]; constructor; auto. Qed.
Lemma srel_stages h t V V' tab : srel V V' -> forall acc acc', Forall2 srel acc acc' ->
  Forall2 srel (rk_stages f h t V tab acc) (rk_stages f' h t V' tab acc').
Proof.
  intros HV. induction tab as [|[c a] tab IH]; intros acc acc' Ha; cbn [rk_stages]; [exact Ha|].
  apply IH. apply Forall2_snoc; [exact Ha|]. apply srel_f. apply srel_step; [exact HV|].
  apply srel_lcomb; [exact Ha|apply srel_zero, HV].
Qed.
Theorem rk_step_equivariant tab b h t V V' : srel V V' -> srel (rk_step tab b f h t V) (rk_step tab b f' h t V').
Proof.
  intros HV. unfold rk_step. apply srel_step; [exact HV|]. apply srel_lcomb; [|apply srel_zero, HV].
  apply srel_stages; [exact HV|constructor].
Qed.
Theorem rk_iter_equivariant tab b h k : forall t V V', srel V V' -> srel (rk_iter tab b f h t k V) (rk_iter tab b f' h t k V').
Proof.
  induction k as [|k IH]; intros t V V' HV; cbn [rk_iter]; [exact HV|]. apply IH, rk_step_equivariant, HV.
Qed.
(* from re-ordered initial data *)
Theorem rk_solution_equivariant tab b h k t V V' :
  length V = L -> veq V' (perm_state idx nl2 sys V) ->
  srel0 (rk_iter tab b f h t k V) (rk_iter tab b f' h t k V') /\
  (forall off, In off (node_blocks sys n) ->
     block_sum n off (rk_iter tab b f' h t k V') == block_sum n off (rk_iter tab b f h t k V)).
Proof.
  intros LV HV.
  assert (S0 : srel V V').
  { split; [exact LV|]. split; [rewrite (veq_length _ _ HV); apply (perm_state_length _ _ _ _ _ _ _ _ _ _ _ R)|].
    apply (state_rel_perm _ _ _ _ _ _ _ _ _ _ _ R), HV. }
  destruct (rk_iter_equivariant tab b h k t V V' S0) as (_ & _ & E). split; [exact E|].
  intros off Hoff. apply (block_sum_invariant _ _ _ _ _ _ _ _ _ _ _ R).
  destruct sys as [|[|[|[|j]]]]; cbn [node_blocks state_rel In] in *.
  - destruct Hoff as [<-|[]]. exact E.
  - destruct Hoff as [<-|[<-|[]]]; apply E.
  - destruct Hoff as [<-|[]]. apply E.
  - destruct Hoff as [<-|[<-|[]]]; apply E.
  - destruct Hoff.
Qed.
End RK.
