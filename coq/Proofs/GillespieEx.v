(* A concrete weighted contact network meeting every hypothesis of the Gillespie
   theorems (non-vacuity), and one scripted run on it. *)
From EoNV Require Import Prelude Samp Graph ListDict ListDictP Gillespie KldP GillespieInv SampP GillespieP GillespieLaw.
From Coq Require Import Lqa.

(* path 0 - 1 - 2 with a pendant 3 at node 1; edge weight 2 on {0,1}, 1/2 elsewhere;
   node weights 1, 3/2, 1, 1/4 *)
Definition ex_adj (u : node) : list node :=
  if N.eqb u 0 then [1%N] else if N.eqb u 1 then [0%N; 2%N; 3%N]
  else if N.eqb u 2 then [1%N] else if N.eqb u 3 then [1%N] else [].
Definition ex_ew (u v : node) : Q := if N.eqb (u + v) 1 then 2 else 1 # 2.
Definition ex_nw (u : node) : Q :=
  if N.eqb u 1 then 3 # 2 else if N.eqb u 3 then 1 # 4 else 1.
Definition ex_graph : graph :=
  mkGraph [0%N; 1%N; 2%N; 3%N] ex_adj ex_adj false ex_ew ex_nw true true.

Ltac case_node u :=
  unfold ex_adj;
  destruct (N.eqb_spec u 0) as [?|?]; [subst u|
  destruct (N.eqb_spec u 1) as [?|?]; [subst u|
  destruct (N.eqb_spec u 2) as [?|?]; [subst u|
  destruct (N.eqb_spec u 3) as [?|?]; [subst u|]]]].

Lemma ex_wfg : wfg ex_graph.
Proof.
  constructor; cbn [gadj ew nw ex_graph].
  - intro u. case_node u; repeat constructor; cbn; intuition discriminate.
  - intro u. case_node u; cbn; intuition discriminate.
  - intros u v. case_node u; cbn; intros H; intuition (subst; cbn; auto).
  - intros u v. unfold ex_ew. rewrite N.add_comm. reflexivity.
  - intros u v. unfold ex_ew. destruct (N.eqb (u + v) 1); lra.
  - intro u. unfold ex_nw. destruct (N.eqb u 1); [lra|]. destruct (N.eqb u 3); lra.
Qed.

Lemma ex_nodup : NoDup (gnodes ex_graph).
Proof. cbn. repeat constructor; cbn; intuition discriminate. Qed.

Lemma ex_adj_in : forall u v, In v (gadj ex_graph u) -> In v (gnodes ex_graph).
Proof. intros u v. cbn [gadj gnodes ex_graph]. case_node u; cbn; intuition (subst; auto). Qed.

Lemma ex_wf_init_SIR : wf_init ex_graph SIR [0%N] (Some [3%N]).
Proof.
  unfold wf_init, r0_list. repeat split.
  - repeat constructor; cbn; intuition.
  - repeat constructor; cbn; intuition.
  - intros x [E|[]]. subst x. cbn. auto.
  - intros x [E|[]]. subst x. cbn. auto 6.
  - intros y [E|[]] [E2|[]]. subst y. discriminate E2.
Qed.

Lemma ex_wf_init_SIS : wf_init ex_graph SIS [1%N; 2%N] None.
Proof.
  unfold wf_init, r0_list. repeat split.
  - repeat constructor; cbn; intuition discriminate.
  - constructor.
  - intros x [E|[E|[]]]; subst x; cbn; auto.
  - intros x [].
  - intros y _ [].
Qed.

Lemma ex_iw_pos : forall u, 0 < iw ex_graph u.
Proof. intro u. unfold iw, ex_graph. cbn [nwt nw]. unfold ex_nw. destruct (N.eqb u 1); [lra|]. destruct (N.eqb u 3); lra. Qed.

(* a scripted SIR run: 0 infects 1, 1 infects 2, 0 recovers, then tmax cuts the run *)
Definition ex_draws : list Q := [1#4; 1#2; 0; 1#1024; 1#4; 9#10; 0; 1#1024; 1#4; 1#10; 0; 1#1024; 5].
Definition ex_run := run_gillespie ex_graph SIR 1 1 (Some [0%N]) (Some [3%N]) None 0 (Some 2) true 50 ex_draws.

Lemma ex_run_rows :
  match fst ex_run with
  | Ok out => map (fun r => (Qred (fst r), snd r)) (so_rows out)
  | Err _ => []
  end = [(0, [2; 1; 1]%Z); (1 # 4, [1; 2; 1]%Z); (1 # 2, [0; 3; 1]%Z); (3 # 4, [0; 2; 2]%Z)].
Proof. vm_compute. reflexivity. Qed.
