(* C08, tree clause: "tree_okb accepts every tree" -- the graph-theoretic core, over an abstract symmetric adjacency
   `adj : nat -> nat -> bool` on positions.

   A PEELING ORDER is a duplicate-free list of vertices v_1, .., v_m in which every v_t has AT MOST ONE neighbour among
   the later ones v_{t+1}, .., v_m (forest_peelb), resp. EXACTLY one unless it is the last (tree_peelb).  Read from the
   back this is the inductive generation of a tree: start from the single vertex v_m and repeatedly attach a new pendant
   vertex to one vertex already present (the Inductive `pendant` below is that definition, and pendant_peel /
   peel_pendant show that the boolean test decides it).

   peel_no_bypass: in a graph with a (forest) peeling order, two distinct neighbours i, k of a vertex j are never joined
   by a walk that avoids j.  Proof by induction on the order: adding a pendant vertex creates no such walk. *)
From EoNV Require Import Prelude.
From Coq Require Import Lia List Arith Bool.
Import ListNotations.

Definition memn' (k : nat) (l : list nat) : bool := existsb (Nat.eqb k) l.
Lemma memn'_In k l : memn' k l = true <-> In k l.
Proof.
  unfold memn'. rewrite existsb_exists. split.
  - intros [y [Hy E]]. apply Nat.eqb_eq in E. subst y. exact Hy.
  - intros H. exists k. split; [exact H|apply Nat.eqb_refl].
Qed.
Lemma memn'_false k l : memn' k l = false <-> ~ In k l.
Proof.
  split.
  - intros H K. apply memn'_In in K. rewrite K in H. discriminate H.
  - intros H. destruct (memn' k l) eqn:E; [|reflexivity]. exfalso. apply H. apply memn'_In. exact E.
Qed.

(* ---------------- filters ---------------- *)
Lemma filter_nil_iff {A} (f : A -> bool) l : filter f l = [] <-> forall x, In x l -> f x = false.
Proof.
  split.
  - intros H x Hx. destruct (f x) eqn:E; [|reflexivity]. exfalso.
    assert (K : In x (filter f l)) by (apply filter_In; split; assumption). rewrite H in K. destruct K.
  - intros H. induction l as [|a l IH]; [reflexivity|]. cbn [filter]. rewrite (H a (or_introl eq_refl)).
    apply IH. intros x Hx. apply H. right. exact Hx.
Qed.
Lemma filter_le1_eq {A} (f : A -> bool) l a b : (length (filter f l) <= 1)%nat -> In a l -> In b l ->
  f a = true -> f b = true -> a = b.
Proof.
  induction l as [|x l IH]; intros HL Ha Hb Fa Fb; [destruct Ha|].
  cbn [filter] in HL. destruct (f x) eqn:E.
  - cbn [length] in HL. assert (Z : filter f l = []) by (destruct (filter f l); [reflexivity|cbn [length] in HL; lia]).
    assert (Z' := proj1 (filter_nil_iff f l) Z).
    destruct Ha as [<-|Ha]; destruct Hb as [<-|Hb]; try reflexivity; exfalso.
    + rewrite (Z' b Hb) in Fb. discriminate Fb.
    + rewrite (Z' a Ha) in Fa. discriminate Fa.
    + rewrite (Z' a Ha) in Fa. discriminate Fa.
  - destruct Ha as [<-|Ha]; [rewrite E in Fa; discriminate Fa|]. destruct Hb as [<-|Hb]; [rewrite E in Fb; discriminate Fb|].
    apply IH; assumption.
Qed.
Lemma filter_length_le {A} (f g : A -> bool) l : (forall y, g y = true -> f y = true) ->
  (length (filter g l) <= length (filter f l))%nat.
Proof.
  intros H. induction l as [|x l IH]; [apply Nat.le_refl|]. cbn [filter].
  destruct (g x) eqn:Eg; [rewrite (H x Eg); cbn [length]; lia|]. destruct (f x); cbn [length]; lia.
Qed.
Lemma filter_length_lt {A} (f g : A -> bool) l x : (forall y, g y = true -> f y = true) -> In x l ->
  f x = true -> g x = false -> (length (filter g l) < length (filter f l))%nat.
Proof.
  intros H. induction l as [|a l IH]; intros Hx Fx Gx; [destruct Hx|]. cbn [filter].
  assert (LE := filter_length_le f g l H). destruct Hx as [->|Hx].
  - rewrite Fx, Gx. cbn [length]. lia.
  - specialize (IH Hx Fx Gx). destruct (g a) eqn:Eg; [rewrite (H a Eg); cbn [length]; lia|].
    destruct (f a); cbn [length]; lia.
Qed.

Section Peel.
Variable adj : nat -> nat -> bool.
Hypothesis adj_sym : forall a b, adj a b = adj b a.

Definition deg_in (v : nat) (S : list nat) : nat := length (filter (adj v) S).

(* every vertex has at most one neighbour among the later ones: a forest, listed leaf (or isolated vertex) first *)
Fixpoint forest_peelb (ord : list nat) : bool :=
  match ord with
  | [] => true
  | v :: rest => negb (memn' v rest) && Nat.leb (deg_in v rest) 1 && forest_peelb rest
  end.
(* ... exactly one, except the last vertex: a tree (connected), listed leaf first *)
Fixpoint tree_peelb (ord : list nat) : bool :=
  match ord with
  | [] => true
  | v :: rest => negb (memn' v rest) && (match rest with [] => true | _ => Nat.eqb (deg_in v rest) 1 end) && tree_peelb rest
  end.

Lemma tree_forest_peel ord : tree_peelb ord = true -> forest_peelb ord = true.
Proof.
  induction ord as [|v rest IH]; [reflexivity|]. cbn [tree_peelb forest_peelb]. intros H.
  apply andb_prop in H. destruct H as [H H3]. apply andb_prop in H. destruct H as [H1 H2].
  rewrite H1, (IH H3). cbn [andb]. rewrite andb_true_r. apply Nat.leb_le.
  destruct rest as [|r rest']; [cbn; lia|]. apply Nat.eqb_eq in H2. lia.
Qed.
Lemma forest_peel_nodup ord : forest_peelb ord = true -> NoDup ord.
Proof.
  induction ord as [|v rest IH]; [constructor|]. cbn [forest_peelb]. intros H.
  apply andb_prop in H. destruct H as [H H3]. apply andb_prop in H. destruct H as [H1 _].
  constructor; [|apply IH; exact H3]. apply memn'_false. apply negb_true_iff. exact H1.
Qed.

(* the same as an inductive definition: vertex set generated from [] / a single vertex by adding a new vertex joined to
   at most one (exactly one) vertex already present *)
Inductive pendant (exact : bool) : list nat -> Prop :=
| pendant_nil : pendant exact []
| pendant_one v : pendant exact [v]
| pendant_add v u rest : ~ In v (u :: rest) -> pendant exact (u :: rest) ->
    (if exact then deg_in v (u :: rest) = 1 else deg_in v (u :: rest) <= 1)%nat -> pendant exact (v :: u :: rest).

Lemma pendant_forest ord : pendant false ord <-> forest_peelb ord = true.
Proof.
  split.
  - induction 1 as [|v|v u rest Hn _ IH Hd]; [reflexivity|reflexivity|].
    cbn [forest_peelb] in *. rewrite IH. rewrite (proj2 (memn'_false _ _) Hn). cbn [negb andb]. rewrite andb_true_r.
    apply Nat.leb_le. exact Hd.
  - induction ord as [|v rest IH]; intros H; [constructor|]. cbn [forest_peelb] in H.
    apply andb_prop in H. destruct H as [H H3]. apply andb_prop in H. destruct H as [H1 H2].
    destruct rest as [|u rest]; [constructor|]. constructor.
    + apply memn'_false. apply negb_true_iff. exact H1.
    + apply IH. exact H3.
    + apply Nat.leb_le. exact H2.
Qed.
Lemma pendant_tree ord : pendant true ord <-> tree_peelb ord = true.
Proof.
  split.
  - induction 1 as [|v|v u rest Hn _ IH Hd]; [reflexivity|reflexivity|].
    cbn [tree_peelb] in *. rewrite IH. rewrite (proj2 (memn'_false _ _) Hn). cbn [negb andb]. rewrite andb_true_r.
    apply Nat.eqb_eq. exact Hd.
  - induction ord as [|v rest IH]; intros H; [constructor|]. cbn [tree_peelb] in H.
    apply andb_prop in H. destruct H as [H H3]. apply andb_prop in H. destruct H as [H1 H2].
    destruct rest as [|u rest]; [constructor|]. constructor.
    + apply memn'_false. apply negb_true_iff. exact H1.
    + apply IH. exact H3.
    + apply Nat.eqb_eq. exact H2.
Qed.

(* walks inside the vertex set S whose vertices after the first avoid j *)
Inductive reach (S : list nat) (j : nat) : nat -> nat -> Prop :=
| reach_refl a : reach S j a a
| reach_step a c b : adj a c = true -> c <> j -> In c S -> reach S j c b -> reach S j a b.

Lemma reach_mono S S' j a b : incl S S' -> reach S j a b -> reach S' j a b.
Proof.
  intros HI H. induction H as [a|a c b E Nc Ic _ IH]; [constructor|]. apply (reach_step S' j a c b E Nc (HI c Ic) IH).
Qed.
(* the vertex before the last one *)
Lemma reach_last S j a b : reach S j a b -> a <> j -> In a S -> a = b \/ exists c, c <> j /\ In c S /\ adj c b = true.
Proof.
  intros H. induction H as [a|a c b E Nc Ic _ IH]; intros Na Ia; [left; reflexivity|].
  right. destruct (IH Nc Ic) as [<-|[c' [N' [I' E']]]].
  - exists a. repeat split; assumption.
  - exists c'. repeat split; assumption.
Qed.

(* removing the pendant vertex v *)
Lemma reach_drop v rest j a b : (forall x, In x (v :: rest) -> adj x x = false) -> (deg_in v rest <= 1)%nat ->
  reach (v :: rest) j a b -> b <> v ->
  (a <> v -> In a rest -> reach rest j a b) /\
  (a = v -> exists c, adj v c = true /\ In c rest /\ c <> j /\ reach rest j c b).
Proof.
  intros Irr Hd H Nb. induction H as [a|a c b E Nc Ic _ IH].
  - split; [intros _ _; constructor|]. intros ->. exfalso. apply Nb. reflexivity.
  - specialize (IH Nb). destruct IH as [IH1 IH2]. split.
    + intros Na Ia. destruct (Nat.eq_dec c v) as [->|Ncv].
      * destruct (IH2 eq_refl) as [c' [E' [I' [N' R']]]].
        assert (a = c') by (apply (filter_le1_eq (adj v) rest a c' Hd Ia I'); [rewrite adj_sym; exact E|exact E']).
        subst c'. exact R'.
      * assert (Ic' : In c rest) by (destruct Ic as [<-|Ic]; [exfalso; apply Ncv; reflexivity|exact Ic]).
        apply (reach_step rest j a c b E Nc Ic' (IH1 Ncv Ic')).
    + intros ->. assert (Ncv : c <> v).
      { intros ->. rewrite (Irr v (or_introl eq_refl)) in E. discriminate E. }
      assert (Ic' : In c rest) by (destruct Ic as [<-|Ic]; [exfalso; apply Ncv; reflexivity|exact Ic]).
      exists c. repeat split; try assumption. apply IH1; assumption.
Qed.

Definition no_bypass (S : list nat) : Prop :=
  forall j i k, In j S -> In i S -> In k S -> i <> k -> adj i j = true -> adj k j = true -> ~ reach S j i k.

Theorem peel_no_bypass ord : (forall x, In x ord -> adj x x = false) -> forest_peelb ord = true -> no_bypass ord.
Proof.
  induction ord as [|v rest IH]; intros Irr HP; [intros j i k []|].
  cbn [forest_peelb] in HP. apply andb_prop in HP. destruct HP as [HP H3]. apply andb_prop in HP. destruct HP as [_ Hd].
  apply Nat.leb_le in Hd.
  assert (IH' : no_bypass rest) by (apply IH; [intros x Hx; apply Irr; right; exact Hx|exact H3]).
  assert (NE : forall x y, In x (v :: rest) -> adj x y = true -> x <> y).
  { intros x y Hx E ->. rewrite (Irr y Hx) in E. discriminate E. }
  assert (TL : forall x, In x (v :: rest) -> x <> v -> In x rest).
  { intros x [<-|Hx] Nx; [exfalso; apply Nx; reflexivity|exact Hx]. }
  intros j i k Ij Ii Ik Nik Eij Ekj R.
  assert (Nij := NE i j Ii Eij). assert (Nkj := NE k j Ik Ekj).
  destruct (Nat.eq_dec j v) as [->|Njv].
  - (* the cut vertex is the pendant one: it has a single neighbour *)
    apply Nik. apply (filter_le1_eq (adj v) rest i k Hd (TL i Ii Nij) (TL k Ik Nkj)); rewrite adj_sym; assumption.
  - assert (Ij' := TL j Ij Njv). destruct (Nat.eq_dec i v) as [->|Niv].
    + (* the walk starts at the pendant vertex: its first step goes to the only neighbour, j *)
      destruct (proj2 (reach_drop v rest j v k Irr Hd R (fun E => Nik (eq_sym E))) eq_refl) as [c [E [Ic [Nc _]]]].
      apply Nc. apply (filter_le1_eq (adj v) rest c j Hd Ic Ij' E Eij).
    + assert (Ii' := TL i Ii Niv). destruct (Nat.eq_dec k v) as [->|Nkv].
      * (* the walk ends at the pendant vertex: its last step comes from the only neighbour, j *)
        destruct (reach_last _ _ _ _ R Nij Ii) as [E|[c [Nc [Ic E]]]]; [exact (Niv E)|].
        assert (Ncv := NE c v Ic E). apply Nc.
        apply (filter_le1_eq (adj v) rest c j Hd (TL c Ic Ncv) Ij'); [rewrite adj_sym; exact E|exact Ekj].
      * (* neither end is the pendant vertex: the walk lives in the smaller graph *)
        apply (IH' j i k Ij' Ii' (TL k Ik Nkv) Nik Eij Ekj).
        apply (proj1 (reach_drop v rest j i k Irr Hd R Nkv) Niv Ii').
Qed.
End Peel.
