(* Scripted execution only reaches leaves of the sampler program: whatever
   holds for every leaf that valid draws can reach holds for every result of
   [exec], for every draw script. *)
From EoNV Require Import Prelude Samp.
From EoNV Require Import ListDictP.

Inductive reach {A} : samp A -> A -> Prop :=
| r_ret : forall a, reach (Ret a) a
| r_expo : forall r k d a, ~ r == 0 -> 0 <= d -> reach (k d) a -> reach (Expo r k) a
| r_flip_t : forall p kt kf a, 0 < p -> reach kt a -> reach (Flip p kt kf) a
| r_flip_f : forall p kt kf a, p < 1 -> reach kf a -> reach (Flip p kt kf) a
| r_casc : forall ps k i a, reach (k i) a -> reach (Casc ps k) a
| r_choose : forall w c k x q a, In (x, q) c -> (w = true -> 0 < q) -> reach (k x) a -> reach (Choose w c k) a
| r_unif : forall c k x a, In x c -> reach (k x) a -> reach (Unif c k) a
| r_sample : forall pop n k i a, (n <= length pop)%nat ->
    reach (k (firstn n (rotate i pop))) a -> reach (Sample pop n k) a.

(* Python-level failures a program can end with *)
Inductive reach_err {A} : samp A -> err -> Prop :=
| e_fail : forall e, reach_err (Fail e) e
| e_expo0 : forall r k, r == 0 -> reach_err (Expo r k) ZeroDivision
| e_expo : forall r k d e, ~ r == 0 -> 0 <= d -> reach_err (k d) e -> reach_err (Expo r k) e
| e_flip_t : forall p kt kf e, 0 < p -> reach_err kt e -> reach_err (Flip p kt kf) e
| e_flip_f : forall p kt kf e, p < 1 -> reach_err kf e -> reach_err (Flip p kt kf) e
| e_casc : forall ps k i e, reach_err (k i) e -> reach_err (Casc ps k) e
| e_choose0 : forall w k, reach_err (Choose w [] k) IndexErr
| e_choose : forall w c k x q e, In (x, q) c -> (w = true -> 0 < q) -> reach_err (k x) e -> reach_err (Choose w c k) e
| e_unif0 : forall k, reach_err (Unif [] k) IndexErr
| e_unif : forall c k x e, In x c -> reach_err (k x) e -> reach_err (Unif c k) e
| e_sample0 : forall pop n k, (length pop < n)%nat -> reach_err (Sample pop n k) ValueErr
| e_sample : forall pop n k i e, (n <= length pop)%nat ->
    reach_err (k (firstn n (rotate i pop))) e -> reach_err (Sample pop n k) e.

Lemma unit_draw_spec : forall d, unit_draw d = true -> 0 <= d /\ d < 1.
Proof.
  intros d H. unfold unit_draw in H. apply andb_true_iff in H. destruct H as [H1 H2].
  apply negb_true_iff in H1. apply Qltb_false in H1. apply Qltb_true in H2. split; assumption.
Qed.

Lemma choose_exec_ok : forall w c ds tr x tr' ds',
  choose_exec w c ds tr = (Ok x, tr', ds') ->
  exists q, In (x, q) c /\ (w = true -> 0 < q).
Proof.
  intros w c ds. remember (length ds) as n eqn:Hn. revert ds Hn.
  induction n as [n IH] using lt_wf_ind. intros ds Hn tr x tr' ds' H.
  destruct c as [|c0 c']; [destruct ds; cbn in H; discriminate H|].
  destruct ds as [|r ds1]; [cbn in H; discriminate H|].
  cbn [choose_exec] in H.
  destruct (nth_error (c0 :: c') (rank r)) as [[k q]|] eqn:Hnth; [|discriminate H].
  destruct w.
  - destruct ds1 as [|u ds2]; [discriminate H|].
    destruct (Qltb 0 q) eqn:Hq.
    + injection H as Hx _ _. subst x. exists q. split; [eapply nth_error_In; exact Hnth|].
      intros _. apply Qltb_true. exact Hq.
    + apply (IH (length ds2)) in H.
      * exact H.
      * subst n. cbn [length]. lia.
      * reflexivity.
  - injection H as Hx _ _. subst x. exists q. split; [eapply nth_error_In; exact Hnth|].
    intro E. discriminate E.
Qed.

Lemma choose_exec_err : forall w c ds tr e tr' ds',
  choose_exec w c ds tr = (Err e, tr', ds') -> e = OutOfDraws \/ (c = [] /\ e = IndexErr).
Proof.
  intros w c ds. remember (length ds) as n eqn:Hn. revert ds Hn.
  induction n as [n IH] using lt_wf_ind. intros ds Hn tr e tr' ds' H.
  destruct c as [|c0 c'].
  - destruct ds; cbn in H; injection H as He _ _; right; (split; [reflexivity|symmetry; exact He]).
  - destruct ds as [|r ds1]; [cbn in H; injection H as He _ _; left; symmetry; exact He|].
    cbn [choose_exec] in H.
    destruct (nth_error (c0 :: c') (rank r)) as [[k q]|] eqn:Hnth;
      [|injection H as He _ _; left; symmetry; exact He].
    destruct w; [|discriminate H].
    destruct ds1 as [|u ds2]; [injection H as He _ _; left; symmetry; exact He|].
    destruct (Qltb 0 q); [discriminate H|].
    apply (IH (length ds2)) in H.
    + destruct H as [H|[H _]]; [left; exact H|discriminate H].
    + subst n. cbn [length]. lia.
    + reflexivity.
Qed.

Theorem exec_reach : forall A (m : samp A) ds tr a tr',
  exec m ds tr = (Ok a, tr') -> reach m a.
Proof.
  intros A m. induction m as [a0|e|r k IH|p kt IHt kf IHf|ps k IH|w c k IH|c k IH|pop n k IH];
    intros ds tr a tr' H; cbn [exec] in H.
  - injection H as Ha _. subst a0. constructor.
  - discriminate H.
  - destruct (Qeqb r 0) eqn:Er; [discriminate H|].
    destruct ds as [|d ds']; [discriminate H|].
    destruct (Qltb d 0) eqn:Ed; [discriminate H|].
    apply r_expo with d.
    + apply Qeqb_false. exact Er.
    + apply Qltb_false. exact Ed.
    + eapply IH. exact H.
  - destruct ds as [|d ds']; [discriminate H|].
    destruct (unit_draw d) eqn:Eu; [|discriminate H].
    apply unit_draw_spec in Eu. destruct Eu as [H0 H1].
    destruct (Qltb d p) eqn:Ep.
    + apply r_flip_t; [|eapply IHt; exact H]. apply Qltb_true in Ep.
      eapply Qle_lt_trans; eassumption.
    + apply r_flip_f; [|eapply IHf; exact H]. apply Qltb_false in Ep.
      eapply Qle_lt_trans; eassumption.
  - destruct ds as [|d ds']; [discriminate H|].
    destruct (unit_draw d); [|discriminate H].
    eapply r_casc. eapply IH. exact H.
  - destruct (choose_exec w c ds tr) as [[[x|e] tr1] ds1] eqn:Hc; [|discriminate H].
    destruct (choose_exec_ok w c ds tr x tr1 ds1 Hc) as [q [Hin Hq]].
    eapply r_choose; [exact Hin|exact Hq|]. eapply IH. exact H.
  - destruct c as [|c0 c']; [discriminate H|].
    destruct ds as [|d ds']; [discriminate H|].
    destruct (nth_error (c0 :: c') (rank d)) as [x|] eqn:Hn; [|discriminate H].
    eapply r_unif; [eapply nth_error_In; exact Hn|]. eapply IH. exact H.
  - destruct (Nat.ltb (length pop) n) eqn:El; [discriminate H|].
    destruct ds as [|d ds']; [discriminate H|].
    apply Nat.ltb_ge in El. eapply r_sample; [exact El|]. eapply IH. exact H.
Qed.

Theorem exec_reach_err : forall A (m : samp A) ds tr e tr',
  exec m ds tr = (Err e, tr') -> e = OutOfDraws \/ reach_err m e.
Proof.
  intros A m. induction m as [a0|e0|r k IH|p kt IHt kf IHf|ps k IH|w c k IH|c k IH|pop n k IH];
    intros ds tr e tr' H; cbn [exec] in H.
  - discriminate H.
  - injection H as He _. subst e0. right. constructor.
  - destruct (Qeqb r 0) eqn:Er.
    + injection H as He _. subst e. right. apply e_expo0. apply Qeqb_true. exact Er.
    + destruct ds as [|d ds']; [injection H as He _; left; symmetry; exact He|].
      destruct (Qltb d 0) eqn:Ed; [injection H as He _; left; symmetry; exact He|].
      destruct (IH d ds' _ e tr' H) as [E|E]; [left; exact E|right].
      apply e_expo with d; [apply Qeqb_false; exact Er|apply Qltb_false; exact Ed|exact E].
  - destruct ds as [|d ds']; [injection H as He _; left; symmetry; exact He|].
    destruct (unit_draw d) eqn:Eu; [|injection H as He _; left; symmetry; exact He].
    apply unit_draw_spec in Eu. destruct Eu as [H0 H1].
    destruct (Qltb d p) eqn:Ep.
    + destruct (IHt ds' _ e tr' H) as [E|E]; [left; exact E|right].
      apply e_flip_t; [|exact E]. apply Qltb_true in Ep. eapply Qle_lt_trans; eassumption.
    + destruct (IHf ds' _ e tr' H) as [E|E]; [left; exact E|right].
      apply e_flip_f; [|exact E]. apply Qltb_false in Ep. eapply Qle_lt_trans; eassumption.
  - destruct ds as [|d ds']; [injection H as He _; left; symmetry; exact He|].
    destruct (unit_draw d); [|injection H as He _; left; symmetry; exact He].
    destruct (IH _ ds' _ e tr' H) as [E|E]; [left; exact E|right]. eapply e_casc. exact E.
  - destruct (choose_exec w c ds tr) as [[[x|e1] tr1] ds1] eqn:Hc.
    + destruct (choose_exec_ok w c ds tr x tr1 ds1 Hc) as [q [Hin Hq]].
      destruct (IH x ds1 tr1 e tr' H) as [E|E]; [left; exact E|right].
      eapply e_choose; [exact Hin|exact Hq|exact E].
    + injection H as He _. subst e1.
      destruct (choose_exec_err w c ds tr e tr1 ds1 Hc) as [E|[Ec E]]; [left; exact E|right].
      subst c e. constructor.
  - destruct c as [|c0 c']; [injection H as He _; subst e; right; constructor|].
    destruct ds as [|d ds']; [injection H as He _; left; symmetry; exact He|].
    destruct (nth_error (c0 :: c') (rank d)) as [x|] eqn:Hn; [|injection H as He _; left; symmetry; exact He].
    destruct (IH x ds' _ e tr' H) as [E|E]; [left; exact E|right].
    eapply e_unif; [eapply nth_error_In; exact Hn|exact E].
  - destruct (Nat.ltb (length pop) n) eqn:El.
    + injection H as He _. subst e. right. apply e_sample0. apply Nat.ltb_lt. exact El.
    + destruct ds as [|d ds']; [injection H as He _; left; symmetry; exact He|].
      apply Nat.ltb_ge in El.
      destruct (IH _ ds' _ e tr' H) as [E|E]; [left; exact E|right].
      eapply e_sample; [exact El|exact E].
Qed.

(* reach through bind *)
Lemma reach_bind : forall A B (m : samp A) (f : A -> samp B) b,
  reach (bind m f) b -> exists a, reach m a /\ reach (f a) b.
Proof.
  intros A B m f. induction m as [a0|e|r k IH|p kt IHt kf IHf|ps k IH|w c k IH|c k IH|pop n k IH];
    intros b H; cbn [bind] in H.
  - exists a0. split; [constructor|exact H].
  - inversion H.
  - inversion H as [|? ? d ? Hr Hd Hk| | | | | |]; subst.
    destruct (IH d b Hk) as [a [Ha Hb]]. exists a. split; [eapply r_expo; eassumption|exact Hb].
  - inversion H as [| |? ? ? ? Hp Hk|? ? ? ? Hp Hk| | | |]; subst.
    + destruct (IHt b Hk) as [a [Ha Hb]]. exists a. split; [apply r_flip_t; assumption|exact Hb].
    + destruct (IHf b Hk) as [a [Ha Hb]]. exists a. split; [apply r_flip_f; assumption|exact Hb].
  - inversion H as [| | | |? ? i ? Hk| | |]; subst.
    destruct (IH i b Hk) as [a [Ha Hb]]. exists a. split; [eapply r_casc; exact Ha|exact Hb].
  - inversion H as [| | | | |? ? ? x q ? Hin Hq Hk| |]; subst.
    destruct (IH x b Hk) as [a [Ha Hb]]. exists a. split; [eapply r_choose; eassumption|exact Hb].
  - inversion H as [| | | | | |? ? x ? Hin Hk|]; subst.
    destruct (IH x b Hk) as [a [Ha Hb]]. exists a. split; [eapply r_unif; eassumption|exact Hb].
  - inversion H as [| | | | | | |? ? ? i ? Hl Hk]; subst.
    destruct (IH _ b Hk) as [a [Ha Hb]]. exists a. split; [eapply r_sample; eassumption|exact Hb].
Qed.

Lemma reach_err_bind : forall A B (m : samp A) (f : A -> samp B) e,
  reach_err (bind m f) e -> reach_err m e \/ exists a, reach m a /\ reach_err (f a) e.
Proof.
  intros A B m f. induction m as [a0|e0|r k IH|p kt IHt kf IHf|ps k IH|w c k IH|c k IH|pop n k IH];
    intros e H; cbn [bind] in H.
  - right. exists a0. split; [constructor|exact H].
  - left. inversion H; subst. constructor.
  - inversion H as [|? ? Hr|? ? d ? Hr Hd Hk| | | | | | | | |]; subst.
    + left. apply e_expo0. exact Hr.
    + destruct (IH d e Hk) as [E|[a [Ha Hb]]].
      * left. eapply e_expo; eassumption.
      * right. exists a. split; [eapply r_expo; eassumption|exact Hb].
  - inversion H as [| | |? ? ? ? Hp Hk|? ? ? ? Hp Hk| | | | | | |]; subst.
    + destruct (IHt e Hk) as [E|[a [Ha Hb]]].
      * left. apply e_flip_t; assumption.
      * right. exists a. split; [apply r_flip_t; assumption|exact Hb].
    + destruct (IHf e Hk) as [E|[a [Ha Hb]]].
      * left. apply e_flip_f; assumption.
      * right. exists a. split; [apply r_flip_f; assumption|exact Hb].
  - inversion H as [| | | | |? ? i ? Hk| | | | | |]; subst.
    destruct (IH i e Hk) as [E|[a [Ha Hb]]].
    + left. eapply e_casc. exact E.
    + right. exists a. split; [eapply r_casc; exact Ha|exact Hb].
  - inversion H as [| | | | | |? ?|? ? ? x q ? Hin Hq Hk| | | |]; subst.
    + left. constructor.
    + destruct (IH x e Hk) as [E|[a [Ha Hb]]].
      * left. eapply e_choose; eassumption.
      * right. exists a. split; [eapply r_choose; eassumption|exact Hb].
  - inversion H as [| | | | | | | |?|? ? x ? Hin Hk| |]; subst.
    + left. constructor.
    + destruct (IH x e Hk) as [E|[a [Ha Hb]]].
      * left. eapply e_unif; eassumption.
      * right. exists a. split; [eapply r_unif; eassumption|exact Hb].
  - inversion H as [| | | | | | | | | |? ? ? Hl|? ? ? i ? Hl Hk]; subst.
    + left. apply e_sample0. exact Hl.
    + destruct (IH _ e Hk) as [E|[a [Ha Hb]]].
      * left. eapply e_sample; eassumption.
      * right. exists a. split; [eapply r_sample; eassumption|exact Hb].
Qed.
