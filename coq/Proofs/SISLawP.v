(* basic_discrete_SIS: the law of a run of at most `fuel` steps (one fresh coin per tested
   contact) is the law of: first flip one coin for every (step k < fuel, arc (u, v)), then run
   the simulator with the rule "the coin of (k, u, v) came up".  Within a step every contact is
   visited once; different steps use different coins. *)
From EoNV Require Import Prelude Samp Graph Discrete DiscreteP DiscreteO DiscreteSISO DiscreteOP DeferredP DiscreteLawP DiscreteLawUP.
From Coq Require Import Permutation Lqa.

(* ---- the two interpretations give back the extracted model ---- *)
Section SISInterp.
Variable g : graph.
Variable enc : nat -> node -> node.
Variable ord : nat -> list node -> list node.
Variable tmin : Q.
Variable tmax : xtime.
Variable full : bool.

Lemma lazy_sis_cloop : forall p k infs cs new inf q,
  lazy p (sis_cloop_o enc k infs cs new inf q) = sis_cloop (simple_rules p) k infs cs new inf q.
Proof.
  intros p k infs cs. induction cs as [|[u v] cs IH]; intros new inf q; [reflexivity|].
  cbn [sis_cloop_o sis_cloop]. destruct (negb (mem v infs)); [|apply IH].
  cbn [oask obind lazy simple_rules r_test bind]. destruct (negb (mem v new)); rewrite !IH; reflexivity.
Qed.

Lemma eager_sis_cloop : forall tb R k infs cs new inf q,
  (forall u v j, r_test R u v j = Ret (tb (enc j u) v)) ->
  eager tb (sis_cloop_o enc k infs cs new inf q) = sis_cloop R k infs cs new inf q.
Proof.
  intros tb R k infs cs new inf q HR. revert new inf q.
  induction cs as [|[u v] cs IH]; intros new inf q; [reflexivity|].
  cbn [sis_cloop_o sis_cloop]. destruct (negb (mem v infs)); [|apply IH].
  rewrite HR. cbn [oask obind eager bind]. destruct (tb (enc k u) v); [destruct (negb (mem v new))|]; apply IH.
Qed.

Lemma lazy_sis_step : forall p k t s,
  seqv (lazy p (sis_step_o g enc ord tmax full k t s)) (sis_step g (simple_rules p) ord tmax full k t s).
Proof.
  intros p k t s. unfold sis_step_o, sis_step. apply lazy_bind_seqv.
  - apply seqv_eq. apply lazy_sis_cloop.
  - intros [[new inf] q]. apply lazy_bind_seqv.
    + destruct full; [apply lazy_picks|apply seqv_refl].
    + intro tp. apply seqv_refl.
Qed.

Lemma eager_sis_step : forall tb R k t s,
  (forall u v j, r_test R u v j = Ret (tb (enc j u) v)) ->
  (full = true -> forall j v c, r_pick R j v c = r_pick (simple_rules 0) j v c) ->
  seqv (eager tb (sis_step_o g enc ord tmax full k t s)) (sis_step g R ord tmax full k t s).
Proof.
  intros tb R k t s HR HP. unfold sis_step_o, sis_step. apply eager_bind_seqv.
  - apply seqv_eq. apply eager_sis_cloop. exact HR.
  - intros [[new inf] q]. apply eager_bind_seqv.
    + destruct full; [apply eager_picks; apply HP; reflexivity|apply seqv_refl].
    + intro tp. apply seqv_refl.
Qed.

Lemma lazy_sis_loop : forall p i0 fuel k t s,
  seqv (lazy p (sis_loop_o g enc ord tmin tmax full i0 fuel k t s))
       (sis_loop g (simple_rules p) ord tmin tmax full i0 fuel k t s).
Proof.
  intros p i0 fuel. induction fuel as [|f IH]; intros k t s; cbn [sis_loop_o sis_loop];
    destruct (nonempty (s_infs s) && xlt t tmax); try apply seqv_refl.
  apply lazy_bind_seqv; [apply lazy_sis_step|]. intro s'. apply IH.
Qed.

Lemma eager_sis_loop : forall tb R i0 fuel k t s,
  (forall u v j, r_test R u v j = Ret (tb (enc j u) v)) ->
  (full = true -> forall j v c, r_pick R j v c = r_pick (simple_rules 0) j v c) ->
  seqv (eager tb (sis_loop_o g enc ord tmin tmax full i0 fuel k t s))
       (sis_loop g R ord tmin tmax full i0 fuel k t s).
Proof.
  intros tb R i0 fuel k t s HR HP. revert k t s. induction fuel as [|f IH]; intros k t s; cbn [sis_loop_o sis_loop];
    destruct (nonempty (s_infs s) && xlt t tmax); try apply seqv_refl.
  apply eager_bind_seqv; [apply eager_sis_step; assumption|]. intro s'. apply IH.
Qed.

End SISInterp.

(* ---- freshness ---- *)
Section SISFresh.
Variable g : graph.
Variable enc : nat -> node -> node.
Variable ord : nat -> list node -> list node.
Variable tmin : Q.
Variable tmax : xtime.
Variable full : bool.
Hypothesis Hnd : NoDup (gnodes g).
Hypothesis Hadjnd : forall u, In u (gnodes g) -> NoDup (gadj g u).
Hypothesis Hord : forall k l, Permutation (ord k l) l.
Hypothesis Henc : forall k k' u u', In u (gnodes g) -> In u' (gnodes g) -> enc k u = enc k' u' -> k = k' /\ u = u'.

Definition ke (k : nat) (e : arc) : arc := (enc k (fst e), snd e).

Lemma sis_cloop_fresh : forall k infs cs new inf q, NoDup (map (ke k) cs) ->
  fresh_in (map (ke k) cs) (sis_cloop_o enc k infs cs new inf q).
Proof.
  intros k infs cs. induction cs as [|[u v] cs IH]; intros new inf q Hn; [exact I|].
  cbn [map] in *. change (ke k (u, v)) with (enc k u, v) in *.
  inversion Hn as [|x l Hx Hn']; subst.
  cbn [sis_cloop_o]. destruct (negb (mem v infs)).
  - cbn [oask obind fresh_in]. rewrite rm_cons_same, (rm_notin _ _ Hx).
    split; [left; reflexivity|]. split; [destruct (negb (mem v new))|]; apply IH; exact Hn'.
  - eapply fresh_mono; [apply IH; exact Hn'|]. apply incl_tl. apply incl_refl.
Qed.

Definition sis_inv (s : sst) : Prop := NoDup (s_infs s) /\ forall v, In v (s_infs s) -> In v (gnodes g).

Lemma sis_step_post : forall k t s, oall sis_inv (sis_step_o g enc ord tmax full k t s).
Proof.
  intros k t s. unfold sis_step_o. eapply oall_bind; [apply oall_true|].
  intros [[new inf] q] _. eapply oall_bind; [apply oall_true|]. intros tp _. cbn [oall]. split; cbn [s_infs].
  - unfold canon. apply NoDup_filter. exact Hnd.
  - intros v Hv. apply canon_In in Hv. apply Hv.
Qed.

Lemma ke_inj : forall k us x y, (forall u, In u us -> In u (gnodes g)) ->
  In x (contacts g us) -> In y (contacts g us) -> ke k x = ke k y -> x = y.
Proof.
  intros k us [u v] [u' v'] Hus Hx Hy E. apply contacts_In in Hx. apply contacts_In in Hy.
  unfold ke in E. cbn [fst snd] in E. injection E as E1 E2.
  destruct (Henc k k u u' (Hus u (proj1 Hx)) (Hus u' (proj1 Hy)) E1) as [_ E3]. subst. reflexivity.
Qed.

Lemma sis_step_fresh : forall k t s, sis_inv s ->
  fresh_in (step_keys g enc k) (sis_step_o g enc ord tmax full k t s).
Proof.
  intros k t s [Hs1 Hs2]. unfold sis_step_o.
  assert (Hus : forall u, In u (ord k (s_infs s)) -> In u (gnodes g)).
  { intros u Hu. apply Hs2. eapply Permutation_in; [apply Hord|exact Hu]. }
  eapply fresh_mono.
  - apply (fresh_bind _ _ (fun _ => True) _ _ (map (ke k) (contacts g (ord k (s_infs s)))) []).
    + apply sis_cloop_fresh. apply NoDup_map_inj_on.
      * apply contacts_NoDup.
        -- apply (Permutation_NoDup (Permutation_sym (Hord k (s_infs s)))). exact Hs1.
        -- intros u Hu. apply Hadjnd. apply Hus. exact Hu.
      * intros x y Hx Hy E. apply (ke_inj k (ord k (s_infs s)) x y Hus Hx Hy E).
    + apply oall_true.
    + intros [[new inf] q] _.
      apply (fresh_bind _ _ (fun _ => True) _ _ [] []).
      * destruct full; [apply picks_noask|exact I].
      * apply oall_true.
      * intros tp _. exact I.
      * intros e [].
    + intros e _ [].
  - rewrite app_nil_r. unfold step_keys. apply incl_map. apply contacts_incl. exact Hus.
Qed.

Lemma keys_from_In : forall n k e, In e (keys_from g enc k n) <->
  exists j u v, (k <= j < k + n)%nat /\ In (u, v) (contacts g (gnodes g)) /\ e = (enc j u, v).
Proof.
  intros n k e. unfold keys_from. rewrite in_flat_map. split.
  - intros [j [Hj He]]. apply in_seq in Hj. unfold step_keys in He. apply in_map_iff in He.
    destruct He as [[u v] [E Huv]]. exists j, u, v. split; [exact Hj|]. split; [exact Huv|symmetry; exact E].
  - intros [j [u [v [Hj [Huv E]]]]]. exists j. split; [apply in_seq; exact Hj|].
    unfold step_keys. apply in_map_iff. exists (u, v). split; [symmetry; exact E|exact Huv].
Qed.

Lemma keys_step_disj : forall k n e, In e (step_keys g enc k) -> ~ In e (keys_from g enc (S k) n).
Proof.
  intros k n e H1 H2. unfold step_keys in H1. apply in_map_iff in H1. destruct H1 as [[u v] [E Huv]].
  apply keys_from_In in H2. destruct H2 as [j [u' [v' [Hj [Huv' E']]]]].
  rewrite E' in E. cbn [fst snd] in E. injection E as E1 E2.
  apply contacts_In in Huv. apply contacts_In in Huv'.
  destruct (Henc k j u u' (proj1 Huv) (proj1 Huv') E1) as [E3 _]. lia.
Qed.

Lemma keys_from_S : forall k n, keys_from g enc k (S n) = step_keys g enc k ++ keys_from g enc (S k) n.
Proof. reflexivity. Qed.

Lemma keys_from_NoDup : forall n k, NoDup (keys_from g enc k n).
Proof.
  induction n as [|n IH]; intro k; [constructor|].
  rewrite keys_from_S. apply NoDup_app_gen.
  - unfold step_keys. apply NoDup_map_inj_on; [apply contacts_NoDup; assumption|].
    intros x y Hx Hy E. apply (ke_inj k (gnodes g) x y (fun u H => H) Hx Hy E).
  - apply IH.
  - intros e. apply keys_step_disj.
Qed.

Lemma sis_loop_fresh : forall i0 fuel k t s, sis_inv s ->
  fresh_in (keys_from g enc k fuel) (sis_loop_o g enc ord tmin tmax full i0 fuel k t s).
Proof.
  intros i0 fuel. induction fuel as [|f IH]; intros k t s Hs; cbn [sis_loop_o];
    destruct (nonempty (s_infs s) && xlt t tmax); try exact I.
  rewrite keys_from_S. apply (fresh_bind _ _ sis_inv).
  - apply sis_step_fresh. exact Hs.
  - apply sis_step_post.
  - intros s' Hs'. apply IH. exact Hs'.
  - intro e. apply keys_step_disj.
Qed.

Lemma sis_init_inv : forall i0, sis_inv (sis_init g tmin full i0).
Proof.
  intro i0. split; cbn [sis_init s_infs].
  - unfold canon. apply NoDup_filter. exact Hnd.
  - intros v Hv. apply canon_In in Hv. apply Hv.
Qed.

(* ---- the law ---- *)
Lemma sis_law_expect_full : forall p i0 fuel (f : dout -> bool),
  prob f (law (basic_discrete_SIS g p ord (Some i0) None tmin tmax full fuel)) ==
  expect (clamp01 p) (keys_from g enc O fuel) (fun kept =>
    prob f (law (basic_discrete_SIS_R g (sis_table_rules enc (tbl kept)) ord (Some i0) None tmin tmax full fuel))).
Proof.
  intros p i0 fuel f.
  unfold basic_discrete_SIS, basic_discrete_SIS_R. cbn [with_initial].
  rewrite <- (law_seqv _ _ _ (lazy_sis_loop g enc ord tmin tmax full p i0 fuel O tmin _)).
  rewrite (deferred p dout f _ (keys_from g enc O fuel) (keys_from_NoDup fuel O)
             (sis_loop_fresh i0 fuel O tmin _ (sis_init_inv i0))).
  apply expect_ext. intro kept.
  rewrite (law_seqv _ _ _ (eager_sis_loop g enc ord tmin tmax full (tbl kept) (sis_table_rules enc (tbl kept))
                             i0 fuel O tmin _ (fun _ _ _ => eq_refl) (fun _ _ _ _ => eq_refl))).
  reflexivity.
Qed.

Lemma sis_law_deferred_full : forall p i0 fuel (f : dout -> bool),
  prob f (law (basic_discrete_SIS g p ord (Some i0) None tmin tmax full fuel)) ==
  prob f (law (bind (perc_loop (simple_rules p) (keys_from g enc O fuel) [] [])
                    (fun kq => basic_discrete_SIS_R g (sis_table_rules enc (tbl (fst kq))) ord
                                 (Some i0) None tmin tmax full fuel))).
Proof.
  intros p i0 fuel f. rewrite sis_law_expect_full, perc_expect. apply expect_ext. intro kept. reflexivity.
Qed.

End SISFresh.

(* return_full_data = False: the deterministic rules of Model/Discrete.v (any pick table) *)
Lemma sis_law_deferred : forall g enc ord tmin tmax,
  NoDup (gnodes g) -> (forall u, In u (gnodes g) -> NoDup (gadj g u)) -> (forall k l, Permutation (ord k l) l) ->
  (forall k k' u u', In u (gnodes g) -> In u' (gnodes g) -> enc k u = enc k' u' -> k = k' /\ u = u') ->
  forall p pick i0 fuel (f : dout -> bool),
  prob f (law (basic_discrete_SIS g p ord (Some i0) None tmin tmax false fuel)) ==
  prob f (law (bind (perc_loop (simple_rules p) (keys_from g enc O fuel) [] [])
                    (fun kq => basic_discrete_SIS_R g (det_rules (fun u v k => meme (enc k u, v) (fst kq)) pick) ord
                                 (Some i0) None tmin tmax false fuel))).
Proof.
  intros g enc ord tmin tmax Hnd Hadjnd Hord Henc p pick i0 fuel f.
  rewrite (sis_law_expect_full g enc ord tmin tmax false Hnd Hadjnd Hord Henc), perc_expect.
  apply expect_ext. intro kept. unfold basic_discrete_SIS_R. cbn [with_initial app fst].
  rewrite <- (law_seqv _ _ _ (eager_sis_loop g enc ord tmin tmax false (tbl kept) (sis_table_rules enc (tbl kept))
                                i0 fuel O tmin _ (fun _ _ _ => eq_refl) (fun _ _ _ _ => eq_refl))).
  rewrite (law_seqv _ _ _ (eager_sis_loop g enc ord tmin tmax false (tbl kept)
                             (det_rules (fun u v k => meme (enc k u, v) kept) pick)
                             i0 fuel O tmin _ (fun _ _ _ => eq_refl) ltac:(intro H; discriminate H))).
  reflexivity.
Qed.

(* a concrete encoding of (step, node): k * M + u with M above every node *)
Definition enc_lin (M : N) (k : nat) (u : node) : node := (N.of_nat k * M + u)%N.

Lemma enc_lin_inj : forall g M, forallb (fun u => N.ltb u M) (gnodes g) = true ->
  forall k k' u u', In u (gnodes g) -> In u' (gnodes g) -> enc_lin M k u = enc_lin M k' u' -> k = k' /\ u = u'.
Proof.
  intros g M HM k k' u u' Hu Hu' E. rewrite forallb_forall in HM.
  pose proof (HM u Hu) as L1. pose proof (HM u' Hu') as L2. cbv beta in L1, L2.
  apply N.ltb_lt in L1. apply N.ltb_lt in L2. unfold enc_lin in E.
  assert (Ek : N.of_nat k = N.of_nat k').
  { destruct (N.lt_trichotomy (N.of_nat k) (N.of_nat k')) as [L|[Ek|L]]; [nia|exact Ek|nia]. }
  split; [apply Nnat.Nat2N.inj; exact Ek|]. rewrite Ek in E. lia.
Qed.
