(* C07: EBCM (theta, R) -> SIR compact effective degree (S_kappa, R, SI) under the binomial change of variables
     S_kappa = N sum_k c_k C(k,kappa) u^kappa v^(k-kappa),  u = theta - phi_R = phi_S + phi_I,  v = phi_R,  SI = N psihat'(theta) phi_I
   (Model/Pgf.v Phi_ced; every component a polynomial in theta).  Part 1: second formal derivative laws, powers of a
   linear polynomial, binomial coefficients as coefficients of (v + u z)^k, and the three binomial moments. *)
From EoNV Require Import Prelude Vec VecP Aux AuxP ICP Wrappers Pgf C07xPoly C07xHier Rhs.
From Coq Require Import Qpower Lqa Setoid Morphisms.

Notation D2 p x := (D (pderiv p) x).
Local Notation pw x k := (qpow x (Z.of_nat k)).

(* ---------- coefficientwise equal polynomials ---------- *)
Lemma pderiv_from_veq p q : veq p q -> forall k, veq (pderiv_from p k) (pderiv_from q k).
Proof. induction 1 as [|a b p q Hab _ IH]; intros k; cbn [pderiv_from]; constructor; [rewrite Hab; reflexivity|apply IH]. Qed.
Lemma pderiv_veq p q : veq p q -> veq (pderiv p) (pderiv q).
Proof. intros H. destruct H; cbn [pderiv]; [constructor|]. apply pderiv_from_veq. assumption. Qed.
Lemma D_veq p q x : veq p q -> D p x == D q x.
Proof. intros H. apply peval_veq, pderiv_veq, H. Qed.
Lemma padd_nil_r p : padd p [] = p. Proof. destruct p; reflexivity. Qed.
Lemma pderiv_from_padd_veq p : forall q k, veq (pderiv_from (padd p q) k) (padd (pderiv_from p k) (pderiv_from q k)).
Proof.
  induction p as [|a p IH]; intros [|b q] k; cbn [padd pderiv_from]; try apply veq_refl.
  constructor; [ring|apply IH].
Qed.
Lemma pderiv_padd_veq p q : veq (pderiv (padd p q)) (padd (pderiv p) (pderiv q)).
Proof.
  destruct p as [|a p], q as [|b q]; cbn [padd pderiv]; try apply veq_refl.
  - rewrite padd_nil_r. apply veq_refl.
  - apply pderiv_from_padd_veq.
Qed.
Lemma pderiv_from_pscale_veq a p : forall k, veq (pderiv_from (pscale a p) k) (pscale a (pderiv_from p k)).
Proof. induction p as [|b p IH]; intros k; cbn [pscale map pderiv_from]; constructor; [ring|apply IH]. Qed.
Lemma pderiv_pscale_veq a p : veq (pderiv (pscale a p)) (pscale a (pderiv p)).
Proof. destruct p as [|b p]; cbn [pscale map pderiv]; [constructor|]. apply pderiv_from_pscale_veq. Qed.

Lemma D2_padd p q x : D2 (padd p q) x == D2 p x + D2 q x.
Proof. rewrite (D_veq _ _ x (pderiv_padd_veq p q)). apply D_padd. Qed.
Lemma D2_pscale a p x : D2 (pscale a p) x == a * D2 p x.
Proof. rewrite (D_veq _ _ x (pderiv_pscale_veq a p)). apply D_pscale. Qed.

(* sum (t+j)(s+j) p_j x^j is linear in s *)
Lemma dd_S_l p : forall s t x,
  peval (pderiv_from (pderiv_from p (S s)) t) x == peval (pderiv_from (pderiv_from p s) t) x + peval (pderiv_from p t) x.
Proof.
  induction p as [|a p IH]; intros s t x; cbn [pderiv_from peval]; [ring|]. rewrite IH, (AuxP.Qnat_S s). ring.
Qed.
Lemma D_pderiv_from_0 p x : D (pderiv_from p 0) x == D p x + x * D2 p x.
Proof.
  destruct p as [|b p]; [cbn; ring|].
  change (pderiv_from (b :: p) 0) with ((Qnat 0 * b) :: pderiv (b :: p)). apply D_cons.
Qed.
Lemma D2_cons a p x : ~ x == 0 -> D2 (a :: p) x == 2 * D p x + x * D2 p x.
Proof.
  intros Hx. apply (Qmult_inj_l _ _ x Hx).
  change (pderiv (a :: p)) with (pderiv_from p 1).
  rewrite <- (pderiv_from_0 (pderiv_from p 1) x), dd_S_l, (pderiv_from_0 (pderiv_from p 0) x), D_pderiv_from_0, (pderiv_from_0 p x). ring.
Qed.
Lemma D2_pmul p : forall q x, ~ x == 0 ->
  D2 (pmul p q) x == D2 p x * peval q x + 2 * D p x * D q x + peval p x * D2 q x.
Proof.
  induction p as [|a p IH]; intros q x Hx; cbn [pmul].
  - cbn [pderiv peval]. ring.
  - rewrite D2_padd, D2_pscale, (D2_cons 0 (pmul p q) x Hx), (IH q x Hx), D_pmul, (D2_cons a p x Hx), D_cons. cbn [peval]. ring.
Qed.

(* ---------- powers of the linear polynomial v + u z ---------- *)
Section Lin.
Variables (u v : Q).
Let q : list Q := [v; u].
Lemma D_linq x : D q x == u. Proof. apply D_lin. Qed.
Lemma D2_linq x : D2 q x == 0. Proof. unfold q. cbn. ring. Qed.
Lemma D_lin_pow k x : D (ppow q (S k)) x == Qnat (S k) * peval (ppow q k) x * u.
Proof. rewrite D_ppow, D_linq. reflexivity. Qed.
Lemma D2_lin_pow1 x : ~ x == 0 -> D2 (ppow q 1) x == 0.
Proof. intros Hx. cbn [ppow]. rewrite (D2_pmul q [1] x Hx), D2_linq. cbn [pderiv pderiv_from peval]. ring. Qed.
Lemma D2_lin_pow k x : ~ x == 0 ->
  D2 (ppow q (S (S k))) x == Qnat (S (S k)) * Qnat (S k) * (u * u) * peval (ppow q k) x.
Proof.
  intros Hx. induction k as [|k IH].
  - change (ppow q 2) with (pmul q (ppow q 1)). rewrite (D2_pmul q _ x Hx), D2_linq, D2_lin_pow1 by exact Hx.
    rewrite (D_lin_pow 0), D_linq. cbn [ppow peval]. change (Qnat 2) with 2. change (Qnat 1) with 1. ring.
  - change (ppow q (S (S (S k)))) with (pmul q (ppow q (S (S k)))). rewrite (D2_pmul q _ x Hx), D2_linq, IH, D_lin_pow, D_linq.
    change (ppow q (S k)) with (pmul q (ppow q k)). rewrite peval_pmul. rewrite (AuxP.Qnat_S (S (S k))), (AuxP.Qnat_S (S k)). ring.
Qed.

(* coefficients of (v + u z)^k are C(k,kappa) u^kappa v^(k-kappa) *)
Lemma nth_padd p : forall r i, nth i (padd p r) 0 == nth i p 0 + nth i r 0.
Proof.
  induction p as [|a p IH]; intros [|b r] i; cbn [padd]; destruct i; cbn [nth]; try ring. apply IH.
Qed.
Lemma nth_pscale_q a p : forall i, nth i (pscale a p) 0 == a * nth i p 0.
Proof. induction p as [|b p IH]; intros [|i]; cbn [pscale map nth]; try ring. apply IH. Qed.
Lemma nth_pmul_lin r i :
  nth i (pmul q r) 0 == v * nth i r 0 + match i with O => 0 | S i' => u * nth i' r 0 end.
Proof.
  unfold q. cbn [pmul]. rewrite nth_padd, nth_pscale_q. destruct i as [|i]; cbn [nth]; [ring|].
  rewrite nth_padd, nth_pscale_q. destruct i as [|[|i]]; cbn [nth]; ring.
Qed.
Lemma binomial_gt : forall n k, (n < k)%nat -> binomial n k = 0%nat.
Proof.
  induction n as [|n IH]; intros [|k] H; cbn [binomial]; try lia. rewrite !IH by lia. reflexivity.
Qed.
Lemma binomial_n0 n : binomial n 0 = 1%nat. Proof. destruct n; reflexivity. Qed.
Lemma Qnat_add a b : Qnat (a + b) == Qnat a + Qnat b.
Proof. unfold Qnat. rewrite Nat2Z.inj_add, inject_Z_plus. reflexivity. Qed.
Lemma binom_coef : forall k i, nth i (ppow q k) 0 == Qnat (binomial k i) * pw u i * pw v (k - i).
Proof.
  induction k as [|k IH]; intros i.
  - cbn [ppow]. destruct i as [|i]; cbn [nth binomial minus]; [rewrite !pw_0; change (Qnat 1) with 1; ring|].
    destruct i; cbn [nth]; change (Qnat 0) with 0; ring.
  - change (ppow q (S k)) with (pmul q (ppow q k)). rewrite nth_pmul_lin. destruct i as [|i].
    + rewrite IH, !binomial_n0, Nat.sub_0_r, Nat.sub_0_r, pw_S. ring.
    + rewrite !IH. cbn [binomial]. rewrite Qnat_add. replace (S k - S i)%nat with (k - i)%nat by lia.
      destruct (Nat.ltb i k) eqn:E.
      * apply Nat.ltb_lt in E. replace (k - i)%nat with (S (k - S i)) by lia. rewrite !pw_S. ring.
      * apply Nat.ltb_ge in E. rewrite (binomial_gt k (S i)) by lia. change (Qnat 0) with 0. rewrite pw_S. ring.
Qed.
End Lin.

(* ---------- sums of the coefficients of a polynomial whose tail vanishes ---------- *)
Lemma allzero_evals p : (forall i, nth i p 0 == 0) -> forall s x,
  peval p x == 0 /\ peval (pderiv_from p s) x == 0 /\ peval (pdd_from p s) x == 0.
Proof.
  induction p as [|a p IH]; intros H s x; cbn [peval pderiv_from pdd_from]; [repeat split; reflexivity|].
  pose proof (H 0%nat) as H0. cbn [nth] in H0.
  destruct (IH (fun i => H (S i)) (S s) x) as (E1 & E2 & E3). rewrite H0, E1, E2, E3. repeat split; ring.
Qed.
Lemma sum_seq_S (f : nat -> Q) n : sumQ (map f (seq 0 (S n))) == f 0%nat + sumQ (map (fun i => f (S i)) (seq 0 n)).
Proof. cbn [seq map]. rewrite ICP.sumQ_cons, <- seq_shift, map_map. reflexivity. Qed.
Lemma coef_sums p : forall n s, (forall i, (n <= i)%nat -> nth i p 0 == 0) ->
  sumQ (map (fun i => nth i p 0) (seq 0 n)) == peval p 1 /\
  sumQ (map (fun i => Qnat (s + i) * nth i p 0) (seq 0 n)) == peval (pderiv_from p s) 1 /\
  sumQ (map (fun i => Qnat (s + i) * (Qnat (s + i) - 1) * nth i p 0) (seq 0 n)) == peval (pdd_from p s) 1.
Proof.
  induction p as [|a p IH]; intros n s H.
  - cbn [peval pderiv_from pdd_from]. repeat split; apply ICP.sumQ_map_zero; intros i _; destruct i; cbn [nth]; ring.
  - destruct n as [|n].
    + destruct (allzero_evals (a :: p) (fun i => H i (Nat.le_0_l i)) s 1) as (E1 & E2 & E3). rewrite E1, E2, E3. cbn. repeat split; reflexivity.
    + destruct (IH n (S s) (fun i Hi => H (S i) (le_n_S _ _ Hi))) as (E1 & E2 & E3).
      rewrite !sum_seq_S. cbn [nth peval pderiv_from pdd_from]. rewrite Nat.add_0_r.
      rewrite E1.
      rewrite (ICP.sumQ_map_ext (fun i => Qnat (s + S i) * nth i p 0) (fun i => Qnat (S s + i) * nth i p 0)) by (intros i _; replace (s + S i)%nat with (S s + i)%nat by lia; reflexivity).
      rewrite (ICP.sumQ_map_ext (fun i => Qnat (s + S i) * (Qnat (s + S i) - 1) * nth i p 0) (fun i => Qnat (S s + i) * (Qnat (S s + i) - 1) * nth i p 0))
        by (intros i _; replace (s + S i)%nat with (S s + i)%nat by lia; reflexivity).
      rewrite E2, E3. repeat split; ring.
Qed.

Lemma pw_comp x y k : x == y -> pw x k == pw y k.
Proof. intros E. unfold qpow. rewrite E. reflexivity. Qed.

(* ---------- the three binomial moments ---------- *)
Section Moments.
Variables (u v theta : Q).
Hypothesis Huv : u + v == theta.
Hypothesis Hth : ~ theta == 0.
Definition Tk (k i : nat) : Q := Qnat (binomial k i) * pw u i * pw v (k - i).

Lemma lin_at_1 k : peval (ppow [v; u] k) 1 == pw theta k.
Proof. rewrite peval_ppow. apply pw_comp. rewrite peval_lin, <- Huv. ring. Qed.

Lemma tail_vanishes k n : (k < n)%nat -> forall i, (n <= i)%nat -> nth i (ppow [v; u] k) 0 == 0.
Proof. intros Hk i Hi. rewrite binom_coef, (binomial_gt k i) by lia. change (Qnat 0) with 0. ring. Qed.

Lemma moment0 k n : (k < n)%nat -> sumQ (map (fun i => Tk k i) (seq 0 n)) == pw theta k.
Proof.
  intros Hk. destruct (coef_sums (ppow [v; u] k) n 0 (tail_vanishes k n Hk)) as (E & _ & _).
  rewrite <- lin_at_1, <- E. apply ICP.sumQ_map_ext. intros i _. unfold Tk. rewrite binom_coef. reflexivity.
Qed.
Lemma moment1 k n : (k < n)%nat ->
  theta * sumQ (map (fun i => Qnat i * Tk k i) (seq 0 n)) == Qnat k * u * pw theta k.
Proof.
  intros Hk. destruct (coef_sums (ppow [v; u] k) n 0 (tail_vanishes k n Hk)) as (_ & E & _).
  rewrite (ICP.sumQ_map_ext _ (fun i => Qnat (0 + i) * nth i (ppow [v; u] k) 0)) by (intros i _; unfold Tk; rewrite binom_coef; reflexivity).
  rewrite E, pderiv_from_0. destruct k as [|k].
  - cbn [ppow pderiv pderiv_from peval]. change (Qnat 0) with 0. ring.
  - rewrite D_lin_pow, lin_at_1, pw_S. ring.
Qed.
Lemma moment2 k n : (k < n)%nat ->
  theta * theta * sumQ (map (fun i => Qnat i * (Qnat i - 1) * Tk k i) (seq 0 n)) == Qnat k * (Qnat k - 1) * (u * u) * pw theta k.
Proof.
  intros Hk. destruct (coef_sums (ppow [v; u] k) n 0 (tail_vanishes k n Hk)) as (_ & _ & E).
  rewrite (ICP.sumQ_map_ext _ (fun i => Qnat (0 + i) * (Qnat (0 + i) - 1) * nth i (ppow [v; u] k) 0)) by (intros i _; unfold Tk; rewrite binom_coef; reflexivity).
  assert (H1 : ~ 1 == 0) by (intro H; discriminate H).
  rewrite E, pdd_from_0. destruct k as [|[|k]].
  - cbn [ppow pderiv pderiv_from peval]. change (Qnat 0) with 0. ring.
  - rewrite (D2_lin_pow1 u v 1 H1). change (Qnat 1) with 1. ring.
  - rewrite (D2_lin_pow u v k 1 H1), lin_at_1, !pw_S. rewrite (AuxP.Qnat_S (S k)). ring.
Qed.
End Moments.

(* ---------- sums over the degree classes ---------- *)
Fixpoint csum (f : nat -> Q) (cs : list Q) (k : nat) : Q :=
  match cs with [] => 0 | a :: cs' => a * f k + csum f cs' (S k) end.
Lemma csum_ext f h cs : forall k, (forall j, (j < length cs)%nat -> f (k + j)%nat == h (k + j)%nat) -> csum f cs k == csum h cs k.
Proof.
  induction cs as [|a cs IH]; intros k H; cbn [csum]; [reflexivity|].
  rewrite (IH (S k)).
  - pose proof (H 0%nat) as H0. rewrite Nat.add_0_r in H0. rewrite H0 by (cbn; lia). reflexivity.
  - intros j Hj. replace (S k + j)%nat with (k + S j)%nat by lia. apply H. cbn [length]. lia.
Qed.
Lemma csum_scal a f cs : forall k, csum (fun j => a * f j) cs k == a * csum f cs k.
Proof. induction cs as [|b cs IH]; intros k; cbn [csum]; [ring|]. rewrite IH. ring. Qed.
Lemma csum_add f h cs : forall k, csum (fun j => f j + h j) cs k == csum f cs k + csum h cs k.
Proof. induction cs as [|b cs IH]; intros k; cbn [csum]; [ring|]. rewrite IH. ring. Qed.
Lemma csum_swap (w : nat -> Q) (F : nat -> nat -> Q) (l : list nat) cs : forall k,
  sumQ (map (fun i => w i * csum (F i) cs k) l) == csum (fun j => sumQ (map (fun i => w i * F i j) l)) cs k.
Proof.
  induction cs as [|a cs IH]; intros k; cbn [csum].
  - apply ICP.sumQ_map_zero. intros; ring.
  - rewrite <- IH. rewrite <- (ICP.sumQ_map_scal a (fun i => w i * F i k) l), <- ICP.sumQ_map_add.
    apply ICP.sumQ_map_ext. intros i _. ring.
Qed.
Lemma csum_pw theta cs : forall k,
  csum (fun j => pw theta j) cs k == pw theta k * peval cs theta /\
  csum (fun j => Qnat j * pw theta j) cs k == pw theta k * peval (pderiv_from cs k) theta /\
  csum (fun j => Qnat j * (Qnat j - 1) * pw theta j) cs k == pw theta k * peval (pdd_from cs k) theta.
Proof.
  induction cs as [|a cs IH]; intros k; cbn [csum peval pderiv_from pdd_from]; [repeat split; ring|].
  destruct (IH (S k)) as (E1 & E2 & E3). rewrite E1, E2, E3, pw_S. repeat split; ring.
Qed.

(* ---------- absorption  (kappa+1) C(j,kappa+1) = (j-kappa) C(j,kappa) ---------- *)
Lemma binomial_absorb : forall j i, (S i * binomial j (S i) = (j - i) * binomial j i)%nat.
Proof.
  induction j as [|j IH]; intros i; [cbn; lia|].
  cbn [binomial]. destruct i as [|i].
  - rewrite !binomial_n0. pose proof (IH 0%nat) as H. rewrite binomial_n0 in H. lia.
  - pose proof (IH i) as H1. pose proof (IH (S i)) as H2.
    destruct (Nat.ltb i j) eqn:E.
    + apply Nat.ltb_lt in E. replace (S j - S i)%nat with (S (j - S i)) by lia. replace (j - i)%nat with (S (j - S i)) in H1 by lia. nia.
    + apply Nat.ltb_ge in E. rewrite (binomial_gt j (S i)) in * by lia. rewrite (binomial_gt j (S (S i))) by lia. replace (S j - S i)%nat with 0%nat by lia. lia.
Qed.
Lemma Qnat_mul a b : Qnat (a * b) == Qnat a * Qnat b.
Proof. unfold Qnat. rewrite Nat2Z.inj_mul, inject_Z_mult. reflexivity. Qed.
Lemma binomial_absorb_Q j i : Qnat (S i) * Qnat (binomial j (S i)) == Qnat (j - i) * Qnat (binomial j i).
Proof. rewrite <- !Qnat_mul, binomial_absorb. reflexivity. Qed.

Definition dpw (x : Q) (n : nat) : Q := match n with O => 0 | S m => Qnat (S m) * pw x m end.
Lemma D_ppow_dpw p n x : D (ppow p n) x == dpw (peval p x) n * D p x.
Proof. destruct n as [|n]; [cbn; ring|]. rewrite D_ppow, peval_ppow. unfold dpw. ring. Qed.
Lemma dpw_mul x n : x * dpw x n == Qnat n * pw x n.
Proof. destruct n as [|n]; cbn [dpw]; [change (Qnat 0) with 0; ring|]. rewrite pw_S. ring. Qed.
Lemma dpw_pred x j i : Qnat (j - i) * pw x (j - S i) == dpw x (j - i).
Proof.
  destruct (j - i)%nat as [|m] eqn:E; cbn [dpw]; [change (Qnat 0) with 0; ring|].
  replace (j - S i)%nat with m by lia. reflexivity.
Qed.
Lemma nth_shift_m1 l i : nth i (shift_m1 l) 0 = nth (S i) l 0.
Proof.
  destruct l as [|a l]; cbn [shift_m1 nth]; [destruct i; reflexivity|].
  revert i. induction l as [|b l IH]; intros [|i]; cbn [app nth]; try reflexivity; [destruct i; reflexivity|apply IH].
Qed.
Lemma vmul_map {A} (f h : A -> Q) l : vmul (map f l) (map h l) = map (fun x => f x * h x) l.
Proof. induction l as [|x l IH]; cbn [map vmul zipWith]; [reflexivity|]. fold (vmul (map f l) (map h l)). rewrite IH. reflexivity. Qed.
Lemma csum_zero cs : forall k, csum (fun _ => 0) cs k == 0.
Proof. induction cs as [|a cs IH]; intros k; cbn [csum]; [reflexivity|]. rewrite IH. ring. Qed.
Lemma csum_lin a b f h cs k : a * csum f cs k + b * csum h cs k == csum (fun j => a * f j + b * h j) cs k.
Proof. rewrite csum_add, !csum_scal. reflexivity. Qed.

(* ---------- the binomial moments without cancelling theta ---------- *)
Definition ddpw (x : Q) (n : nat) : Q := match n with S (S m) => Qnat (S (S m)) * Qnat (S m) * pw x m | _ => 0 end.
Lemma dpw_comp x y n : x == y -> dpw x n == dpw y n.
Proof. intros E. destruct n as [|n]; cbn [dpw]; [reflexivity|]. rewrite (pw_comp x y n E). reflexivity. Qed.
Section MomentsU.
Variables (u v theta : Q).
Hypothesis Huv : u + v == theta.
Lemma moment1u k n : (k < n)%nat -> sumQ (map (fun i => Qnat i * Tk u v k i) (seq 0 n)) == u * dpw theta k.
Proof.
  intros Hk. destruct (coef_sums (ppow [v; u] k) n 0 (tail_vanishes u v k n Hk)) as (_ & E & _).
  rewrite (ICP.sumQ_map_ext _ (fun i => Qnat (0 + i) * nth i (ppow [v; u] k) 0)) by (intros i _; unfold Tk; rewrite binom_coef; reflexivity).
  rewrite E, pderiv_from_0, D_ppow_dpw, D_lin. rewrite (dpw_comp (peval [v; u] 1) theta k) by (rewrite peval_lin, <- Huv; ring). ring.
Qed.
Lemma moment2u k n : (k < n)%nat ->
  sumQ (map (fun i => Qnat i * (Qnat i - 1) * Tk u v k i) (seq 0 n)) == u * u * ddpw theta k.
Proof.
  intros Hk. destruct (coef_sums (ppow [v; u] k) n 0 (tail_vanishes u v k n Hk)) as (_ & _ & E).
  rewrite (ICP.sumQ_map_ext _ (fun i => Qnat (0 + i) * (Qnat (0 + i) - 1) * nth i (ppow [v; u] k) 0)) by (intros i _; unfold Tk; rewrite binom_coef; reflexivity).
  assert (H1 : ~ 1 == 0) by (intro H; discriminate H).
  rewrite E, pdd_from_0. destruct k as [|[|k]]; cbn [ddpw].
  - cbn [ppow pderiv pderiv_from peval]. ring.
  - rewrite (D2_lin_pow1 u v 1 H1). ring.
  - rewrite (D2_lin_pow u v k 1 H1), (lin_at_1 u v theta Huv). ring.
Qed.
End MomentsU.
Lemma csum_dpw_S theta cs : forall k, csum (fun j => dpw theta j) cs (S k) == pw theta k * peval (pderiv_from cs (S k)) theta.
Proof.
  induction cs as [|a cs IH]; intros k; cbn [csum pderiv_from peval dpw]; [ring|]. rewrite IH, pw_S. ring.
Qed.
Lemma csum_dpw theta c : csum (fun j => dpw theta j) c 0 == D c theta.
Proof.
  destruct c as [|a cs]; cbn [csum pderiv dpw]; [cbn [peval]; ring|]. rewrite csum_dpw_S, pw_0. ring.
Qed.
Lemma csum_ddpw_SS theta cs : forall k, csum (fun j => ddpw theta j) cs (S (S k)) == pw theta k * peval (pdd_from cs (S (S k))) theta.
Proof.
  induction cs as [|a cs IH]; intros k; cbn [csum pdd_from peval ddpw]; [ring|]. rewrite IH, pw_S. rewrite (AuxP.Qnat_S (S k)). ring.
Qed.
Lemma csum_ddpw theta c : csum (fun j => ddpw theta j) c 0 == D2 c theta.
Proof.
  destruct c as [|a [|b cs]]; cbn [csum pderiv pderiv_from ddpw]; try (cbn [peval]; ring).
  rewrite csum_ddpw_SS, pw_0, pdd_from_SS. ring.
Qed.

(* ====================================================================== *)
(*  EBCM (theta, R)  ->  compact effective degree                          *)
(* ====================================================================== *)
Section Ced.
Variables (c : list Q) (t N tau g phiS0 phiR0 : Q) (ps psP : Q -> Q) (theta : Q).
Let u := peval (u_p tau g phiR0) theta.
Let v := peval (phiR_p tau g phiR0) theta.
Let du := D (u_p tau g phiR0) theta.
Let dv := D (phiR_p tau g phiR0) theta.
Let n := length c.
Local Notation a x := (D c x).
Local Notation b x := (D (pderiv c) x).
Let Sv (i : nat) : Q := peval (ced_sum N tau g phiR0 i c 0) theta.

Lemma uv_vals : v == phiR0 + g / tau * (1 - theta) /\ u + v == theta /\ du == 1 + g / tau /\ dv == - (g / tau).
Proof.
  unfold u, v, du, dv, u_p, phiR_p. rewrite !peval_psub, !D_psub, peval_pX, D_pX, !peval_lin, !D_lin.
  unfold Qdiv. repeat split; ring.
Qed.

Lemma ced_val i cs : forall k, peval (ced_sum N tau g phiR0 i cs k) theta == N * csum (fun j => Tk u v j i) cs k.
Proof.
  induction cs as [|ck cs IH]; intros k; cbn [ced_sum csum]; [cbn [peval]; ring|].
  rewrite peval_padd, IH. unfold ced_term. rewrite peval_pscale, peval_pmul, !peval_ppow. unfold Tk. fold u v. ring.
Qed.
Lemma ced_der i cs : forall k, D (ced_sum N tau g phiR0 i cs k) theta ==
  N * csum (fun j => Qnat (binomial j i) * (dpw u i * du * pw v (j - i) + pw u i * (dpw v (j - i) * dv))) cs k.
Proof.
  induction cs as [|ck cs IH]; intros k; cbn [ced_sum csum]; [cbn [pderiv peval]; ring|].
  rewrite D_padd, IH. unfold ced_term. rewrite D_pscale, D_pmul, !D_ppow_dpw, !peval_ppow. fold u v du dv. ring.
Qed.

Lemma Skappa_eq : pm_eval (Skappa_p c N tau g phiR0) theta = map Sv (seq 0 n).
Proof. unfold pm_eval, Skappa_p. rewrite map_map. reflexivity. Qed.

(* weighted sums over kappa of S_kappa *)
Lemma sumS (w : nat -> Q) :
  sumQ (map (fun i => w i * Sv i) (seq 0 n)) == N * csum (fun j => sumQ (map (fun i => w i * Tk u v j i) (seq 0 n))) c 0.
Proof.
  rewrite <- csum_swap, <- ICP.sumQ_map_scal. apply ICP.sumQ_map_ext. intros i _. unfold Sv. rewrite ced_val. ring.
Qed.

Lemma S_moment0 : sumQ (map Sv (seq 0 n)) == N * peval c theta.
Proof.
  destruct uv_vals as (_ & Huv & _).
  rewrite (ICP.sumQ_map_ext Sv (fun i => 1 * Sv i)) by (intros; ring). rewrite sumS.
  rewrite (csum_ext _ (fun j => pw theta j)).
  - destruct (csum_pw theta c 0) as (E & _). rewrite E, pw_0. ring.
  - intros j Hj. cbn [plus]. rewrite <- (moment0 u v theta Huv j n Hj). apply ICP.sumQ_map_ext. intros; ring.
Qed.
Lemma S_moment1 : sumQ (map (fun i => Qnat i * Sv i) (seq 0 n)) == N * u * a theta.
Proof.
  destruct uv_vals as (_ & Huv & _). rewrite sumS.
  rewrite (csum_ext _ (fun j => u * dpw theta j)) by (intros j Hj; cbn [plus]; apply (moment1u u v theta Huv j n Hj)).
  rewrite csum_scal, csum_dpw. ring.
Qed.
Lemma S_moment2 : sumQ (map (fun i => Qnat i * (Qnat i - 1) * Sv i) (seq 0 n)) == N * (u * u) * b theta.
Proof.
  destruct uv_vals as (_ & Huv & _). rewrite sumS.
  rewrite (csum_ext _ (fun j => u * u * ddpw theta j)) by (intros j Hj; cbn [plus]; apply (moment2u u v theta Huv j n Hj)).
  rewrite csum_scal, csum_ddpw. ring.
Qed.

(* S_kappa = 0 beyond the largest degree *)
Lemma Sv_zero i : (n <= i)%nat -> Sv i == 0.
Proof.
  intros Hi. unfold Sv. rewrite ced_val. rewrite (csum_ext _ (fun _ => 0)); [rewrite csum_zero; ring|].
  intros j Hj. cbn [plus]. unfold Tk. rewrite (binomial_gt j i) by (fold n in Hj; lia). change (Qnat 0) with 0. ring.
Qed.
Lemma nth_kS i : nth i (map (fun i => Qnat i * Sv i) (seq 0 n)) 0 == Qnat i * Sv i.
Proof.
  destruct (Nat.ltb i n) eqn:E.
  - apply Nat.ltb_lt in E. rewrite (nth_map_seq (fun i => Qnat i * Sv i) n i E). reflexivity.
  - apply Nat.ltb_ge in E. rewrite nth_overflow by (rewrite map_length, seq_length; exact E). rewrite Sv_zero by exact E. ring.
Qed.

(* the returned series: S = sum_kappa S_kappa = N psihat(theta), R = R *)
Lemma ced_outputs_agree R :
  vsum (drop_last 2 (Phi_ced c N tau g phiS0 phiR0 theta R)) == N * peval c theta /\
  vnth 0 (take_last 2 (Phi_ced c N tau g phiS0 phiR0 theta R)) == R.
Proof.
  unfold Phi_ced. rewrite drop_last_app, take_last_app by reflexivity. split; [|reflexivity].
  rewrite Skappa_eq. unfold vsum. apply S_moment0.
Qed.

Lemma ebcm_to_ced R :
  ps theta == peval c theta -> psP theta == a theta -> psP 1 == a 1 ->
  ~ tau == 0 -> ~ N == 0 -> ~ u == 0 -> ~ a theta == 0 -> ~ a 1 == 0 ->
  let e := dEBCM [theta; R] t N tau g ps psP phiS0 phiR0 in
  veq (dSIR_compact_effective_degree (Phi_ced c N tau g phiS0 phiR0 theta R) t N tau g)
      (DPhi_ced c N tau g phiS0 phiR0 theta (vnth 0 e) (vnth 1 e)).
Proof.
  intros E0 E1 E11 Ht HN Hu Ha Hc. cbv zeta.
  destruct uv_vals as (Hv & Huv & Hdu & Hdv).
  unfold Phi_ced, DPhi_ced, dSIR_compact_effective_degree.
  rewrite !drop_last_app, !take_last_app by reflexivity. cbn [vnth nth].
  rewrite Skappa_eq. rewrite map_length, seq_length. unfold arange.
  set (SI := peval (SI_p c N tau g phiS0 phiR0) theta).
  set (phiI := theta - phiS0 * a theta / a 1 - v).
  assert (HSI : SI == N * a theta * phiI) by (unfold SI, phiI; rewrite SI_val, Hv; reflexivity).
  assert (Hdth : vnth 0 (dEBCM [theta; R] t N tau g ps psP phiS0 phiR0) == - tau * phiI).
  { unfold dEBCM, phiI. cbn [vnth nth]. rewrite E1, E11, Hv. field. split; assumption. }
  assert (HdR : vnth 1 (dEBCM [theta; R] t N tau g ps psP phiS0 phiR0) == g * (N - R - N * peval c theta)).
  { unfold dEBCM. cbn [vnth nth]. rewrite E0. ring. }
  set (dth := vnth 0 (dEBCM [theta; R] t N tau g ps psP phiS0 phiR0)) in *.
  set (dR := vnth 1 (dEBCM [theta; R] t N tau g ps psP phiS0 phiR0)) in *.
  assert (Hdot : dot (map Sv (seq 0 n)) (map Qnat (seq 0 n)) == N * u * a theta).
  { unfold dot. rewrite vmul_map. rewrite <- S_moment1. apply ICP.sumQ_map_ext. intros; ring. }
  assert (Hkk : vsum (vmul (vmul (map Qnat (seq 0 n)) (vsubs (map Qnat (seq 0 n)) 1)) (map Sv (seq 0 n))) == N * (u * u) * b theta).
  { unfold vsubs. rewrite map_map, vmul_map, vmul_map. rewrite <- S_moment2. reflexivity. }
  assert (Heff : SI / dot (map Sv (seq 0 n)) (map Qnat (seq 0 n)) == phiI / u).
  { rewrite Hdot, HSI. field. repeat split; assumption. }
  apply veq_app.
  - apply veq_of_nth.
    + rewrite smul_length, vadd_length, vmul_length, !smul_length, shift_m1_length, vmul_length, !map_length, !seq_length.
      unfold Skappa_p. rewrite pm_push_length, map_length, seq_length. fold n. lia.
    + intros i Hi.
      assert (Hin : (i < n)%nat).
      { revert Hi. rewrite smul_length, vadd_length, vmul_length, !smul_length, shift_m1_length, vmul_length, !map_length, !seq_length. lia. }
      rewrite nth_smul by (rewrite vadd_length, vmul_length, !smul_length, shift_m1_length, vmul_length, !map_length, !seq_length; lia).
      rewrite nth_vadd by (rewrite ?vmul_length, ?smul_length, ?shift_m1_length, ?vmul_length, ?map_length, ?seq_length; lia).
      rewrite nth_vmul by (rewrite ?smul_length, ?map_length, ?seq_length; lia).
      rewrite !nth_smul by (rewrite ?shift_m1_length, ?vmul_length, ?map_length, ?seq_length; lia).
      rewrite nth_shift_m1, vmul_map, nth_kS.
      rewrite (nth_map_seq Qnat n i Hin), (nth_map_seq Sv n i Hin).
      unfold Skappa_p, pm_push. rewrite map_map. fold n.
      rewrite (nth_map_seq (fun x => D (ced_sum N tau g phiR0 x c 0) theta * dth) n i Hin).
      rewrite Heff, ced_der, Hdth. unfold Sv. rewrite !ced_val.
      setoid_replace (phiI / u * (- (tau + g) * Qnat i * (N * csum (fun j => Tk u v j i) c 0) + g * (Qnat (S i) * (N * csum (fun j => Tk u v j (S i)) c 0))))
        with (N * (phiI / u * - (tau + g) * Qnat i * csum (fun j => Tk u v j i) c 0 + phiI / u * g * Qnat (S i) * csum (fun j => Tk u v j (S i)) c 0)) by ring.
      rewrite csum_lin.
      setoid_replace (N * csum (fun j => Qnat (binomial j i) * (dpw u i * du * pw v (j - i) + pw u i * (dpw v (j - i) * dv))) c 0 * (- tau * phiI))
        with (N * csum (fun j => (- tau * phiI) * (Qnat (binomial j i) * (dpw u i * du * pw v (j - i) + pw u i * (dpw v (j - i) * dv)))) c 0) by (rewrite csum_scal; ring).
      apply Qmult_comp; [reflexivity|]. apply csum_ext. intros j _. cbn [plus]. unfold Tk.
      pose proof (dpw_mul u i) as M1. pose proof (binomial_absorb_Q j i) as M2. pose proof (dpw_pred v j i) as M3.
      rewrite pw_S, Hdu, Hdv.
      setoid_replace (phiI / u * g * Qnat (S i) * (Qnat (binomial j (S i)) * (u * pw u i) * pw v (j - S i)))
        with (phiI / u * g * (Qnat (S i) * Qnat (binomial j (S i))) * (u * pw u i) * pw v (j - S i)) by ring.
      rewrite M2.
      setoid_replace (phiI / u * g * (Qnat (j - i) * Qnat (binomial j i)) * (u * pw u i) * pw v (j - S i))
        with (phiI / u * g * Qnat (binomial j i) * (u * pw u i) * (Qnat (j - i) * pw v (j - S i))) by ring.
      rewrite M3.
      setoid_replace (phiI / u * - (tau + g) * Qnat i * (Qnat (binomial j i) * pw u i * pw v (j - i)))
        with (phiI / u * - (tau + g) * Qnat (binomial j i) * (Qnat i * pw u i) * pw v (j - i)) by ring.
      rewrite <- M1. field. split; assumption.
  - constructor; [|constructor; [|constructor]].
    + rewrite HdR. unfold vsum. rewrite S_moment0. ring.
    + assert (Hu' : u == theta - (phiR0 + g / tau * (1 - theta))) by (rewrite <- Hv, <- Huv; ring).
      assert (Hu2 : ~ theta - (phiR0 + g / tau * (1 - theta)) == 0) by (rewrite <- Hu'; exact Hu).
      rewrite Heff, Hkk, HSI, SI_der, Hdth, ?qpow2. unfold phiI. rewrite Hu', Hv.
      assert (Hu3 : ~ theta * tau - (phiR0 * tau + g * (1 - theta)) == 0).
      { intro H. apply Hu2.
        setoid_replace (theta - (phiR0 + g / tau * (1 - theta))) with ((theta * tau - (phiR0 * tau + g * (1 - theta))) / tau) by (field; exact Ht).
        rewrite H. field. exact Ht. }
      field. repeat split; assumption.
Qed.
End Ced.
