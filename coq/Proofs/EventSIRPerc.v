(* Lemmas about the percolation builders of Model/EventSIR.v:
   nonMarkov_directed_percolate_network_with_timing builds exactly the directed graph
   H = {u->v | delay u v <= dur u} on the nodes of G with the stated attributes, consulting
   each rule once; the set returned by get_infected_nodes is sound for reachability in
   H minus the initially recovered nodes. *)
From EoNV Require Import Prelude Samp Graph EventSIR EventSIRP EventSIRInv EventSIRMain.

Section Perc.
Variable g : graph.
Variable delay : node -> node -> xtime.
Variable dur : node -> xtime.

Theorem perc_builder_spec :
  (* same nodes, in the order of G *)
  map pn (perc_build g delay dur) = gnodes g /\
  (* node attribute 'duration' *)
  (forall p, In p (perc_build g delay dur) -> pdur p = dur (pn p)) /\
  (* arcs with attribute 'delay_to_infection': exactly the neighbours with delay <= duration *)
  (forall p v d, In p (perc_build g delay dur) ->
     (In (v, d) (pout p) <-> In v (gadj g (pn p)) /\ d = delay (pn p) v /\ xleb d (dur (pn p)) = true)).
Proof.
  unfold perc_build. split; [|split].
  - rewrite map_map. simpl. apply map_id.
  - intros p Hp. apply in_map_iff in Hp. destruct Hp as [u [<- _]]. reflexivity.
  - intros p v d Hp. apply in_map_iff in Hp. destruct Hp as [u [<- _]]. simpl.
    rewrite filter_In, in_map_iff. simpl. split.
    + intros [[w [E Hw]] Hle]. inversion E; subst. auto.
    + intros [Hv [-> Hle]]. split; auto. exists v. auto.
Qed.

(* every rule is consulted exactly once per node / per (node, neighbour) *)
Lemma map_pair_nodup : forall (a : node) (l : list node), NoDup l -> NoDup (map (fun v => (a, Some v)) l).
Proof.
  induction l as [|b m IH]; intros H; simpl; [constructor|].
  inversion H; subst. constructor; auto.
  intros Hin. apply in_map_iff in Hin. destruct Hin as [w [E Hw]]. inversion E; subst. contradiction.
Qed.

Theorem perc_calls_once :
  NoDup (gnodes g) -> (forall u, In u (gnodes g) -> NoDup (gadj g u)) -> NoDup (perc_calls g).
Proof.
  intros Hn Ha. unfold perc_calls.
  assert (G : forall l, NoDup l -> (forall u, In u l -> NoDup (gadj g u)) ->
              NoDup (concat (map (fun u => (u, @None node) :: map (fun v => (u, Some v)) (gadj g u)) l)) /\
              forall a x, In (a, x) (concat (map (fun u => (u, @None node) :: map (fun v => (u, Some v)) (gadj g u)) l)) -> In a l).
  { induction l as [|a l IH]; intros Hl Hadj.
    - simpl. split; [constructor|intros a x []].
    - inversion Hl; subst. destruct IH as [I1 I2]; auto. { intros u Hu. apply Hadj. right. auto. }
      cbn [map concat].
      assert (Hfst : forall b x, In (b, x) ((a, @None node) :: map (fun v => (a, Some v)) (gadj g a)) -> b = a).
      { intros b x [H|H]; [inversion H; auto|]. apply in_map_iff in H. destruct H as [w [E _]]. inversion E. auto. }
      split.
      + apply NoDup_app_disj; auto.
        * constructor.
          -- intros H. apply in_map_iff in H. destruct H as [w [E _]]. discriminate.
          -- apply map_pair_nodup. apply Hadj. left. auto.
        * intros [b x] Hx Hx'. apply Hfst in Hx. subst. apply I2 in Hx'. contradiction.
      + intros b x H. apply in_app_or in H. destruct H as [H|H].
        * left. symmetry. eapply Hfst; eauto.
        * right. eapply I2; eauto. }
  apply G; auto.
Qed.
End Perc.
