(* C10 for Gillespie_simple_contagion, both return modes on the same draw script: the arrays the
   plain mode returns are summary() of the node histories the full-data mode returns. *)
From EoNV Require Import Prelude Samp Graph ListDict ListDictP Gillespie KldP GillespieInv SampP Simple SimpleP
  SimpleExecS SimpleExec SimpleExecLog SimpleExecTop SimpleExecChk SimpleExecC10 SimpleExecFuel SimpleExecFlag.
From EoNV Require Import Investigation InvestigationP.

Theorem simple_plain_arrays_are_summary_of_full_run :
  forall g (Hg : wfg2 g) ic rstat tmin tmax sortable spont induced fuel ds o1 tr1 o2 tr2,
  Forall (sp_tr_ok g) spont -> Forall (in_tr_ok g) induced ->
  exec (simple g sortable spont induced ic rstat tmin tmax false fuel) ds [] = (Ok o1, tr1) ->
  exec (simple g sortable spont induced ic rstat tmin tmax true fuel) ds [] = (Ok o2, tr2) ->
  tr1 = tr2 /\ so_rows o1 = so_rows o2 /\ so_full o1 = None /\
  exists (evs : list gev) (fd : fulldata),
    so_full o2 = Some fd /\
    fd_hist fd = iv_hist (log_inv (gnodes g) rstat tmin ic (map ev3 evs)) /\
    so_rows o1 = log_arrays (gnodes g) rstat tmin ic (map ev3 evs) /\
    (covered g ic rstat spont induced -> increasing tmin (map ev3 evs) = true ->
       summary (mkInv (gnodes g) (fd_hist fd) None (Some rstat)) None = Ok (so_rows o1) /\
       consistent_b (mkInv (gnodes g) (fd_hist fd) None (Some rstat)) (so_rows o1) tmin (moves_of spont induced) = true).
Proof.
  intros g Hg ic rstat tmin tmax sortable spont induced fuel ds o1 tr1 o2 tr2 Hsp Hin H1 H2.
  destruct (simple_flag_independent g ic rstat tmin tmax sortable spont induced fuel ds) as [Etr Hos].
  rewrite H1, H2 in Etr, Hos. cbn [fst snd osim] in Etr, Hos. destruct Hos as [Er [Ef _]].
  split; [exact Etr|]. split; [exact Er|]. split; [exact Ef|].
  destruct (simple_summary_equals_arrays g Hg ic rstat tmin tmax sortable spont induced fuel ds o2 tr2 Hsp Hin H2)
    as [evs [fd [Hfd [Hh [Hr Hs]]]]].
  exists evs, fd. split; [exact Hfd|]. split; [exact Hh|]. split; [rewrite Er; exact Hr|].
  intros Hc Hi. rewrite Er. exact (Hs Hc Hi).
Qed.
