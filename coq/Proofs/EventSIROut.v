(* Lemmas about Model/EventSIR.v, part 6: the sampler entry point with table
   rules is the deterministic run; the rules are consulted once; outputs. *)
From EoNV Require Import Prelude Samp Graph EventSIR EventSIRP EventSIRInv EventSIRMain EventSIRChar EventSIRTop.
Require Import Lqa.

(* the generic loop with the user's tables as provider IS the deterministic loop *)
Lemma gloop_det : forall tb g tmin tmax delay dur full n0 fuel s,
  gloop tb g tmin tmax (det_provider delay dur) full n0 fuel s =
  match loop_det tb g tmax delay dur fuel s with
  | Ok s' => lift (finish g tmin full n0 s') Ret
  | Err e => Fail e
  end.
Proof.
  intros tb g tmin tmax delay dur full n0 fuel. induction fuel as [|f IH]; intros s.
  - simpl. destruct (qu s); reflexivity.
  - cbn [gloop loop_det]. destruct (qu s) as [|e q']; [reflexivity|].
    unfold step_det. cbv zeta. destruct (qe e) as [src v|u].
    + destruct (N.eqb (stat (set_qu s q') v) stS).
      * unfold det_provider. cbn [bind fst snd]. apply IH.
      * apply IH.
    + apply IH.
Qed.

(* fast_nonMarkov_SIR called with initial_infecteds (no rho) and table rules *)
Theorem fast_nonmarkov_det : forall tb g delay dur i0 r0 tmin tmax full fuel,
  fast_nonmarkov tb g (det_provider delay dur) (Some i0) r0 None tmin tmax full fuel =
  match esir_det tb g delay dur i0 (match r0 with Some l => l | None => [] end) tmin tmax full fuel with
  | Ok x => Ret x
  | Err e => Fail e
  end.
Proof.
  intros. unfold fast_nonmarkov, esir_det, esir_run. rewrite gloop_det.
  destruct (loop_det tb g tmax delay dur fuel _) as [s'|e]; simpl; [|reflexivity].
  destruct (finish g tmin full (length i0) s'); reflexivity.
Qed.

(* so on ANY draw script the sampler entry returns what esir_det returns *)
Corollary fast_nonmarkov_exec : forall tb g delay dur i0 r0 tmin tmax full fuel ds,
  fst (exec (fast_nonmarkov tb g (det_provider delay dur) (Some i0) r0 None tmin tmax full fuel) ds []) =
  esir_det tb g delay dur i0 (match r0 with Some l => l | None => [] end) tmin tmax full fuel.
Proof.
  intros. rewrite fast_nonmarkov_det.
  destruct (esir_det tb g delay dur i0 _ tmin tmax full fuel); reflexivity.
Qed.

(* each user rule is consulted at most once per argument, and only for infected nodes *)
Theorem esir_rules_once : forall tb g delay dur i0 r0 tmin tmax fuel,
  esir_okb g delay dur i0 r0 tmin tmax = true -> (esir_fuel g i0 <= fuel)%nat ->
  exists sF, esir_run tb g delay dur i0 r0 tmin tmax fuel = Ok sF /\
             NoDup (olog sF) /\ (forall u x, In (u, x) (olog sF) -> infd (tlog sF) u).
Proof.
  intros tb g delay dur i0 r0 tmin tmax fuel Hok Hf.
  destruct (okb_parts g delay dur i0 r0 tmin tmax Hok) as [H1 [H2 [H3 [H4 [H5 [H6 [H7 H8]]]]]]].
  destruct (esir_terminates tb g tmax delay dur tmin i0 r0 H5 H4 H2 H7 H8 H1 H6 H3 fuel Hf)
    as [sF [cF [Hrun [Hq [HI [HO1 HO2]]]]]].
  exists sF. auto.
Qed.

(* the array output: the rows after the |I0| set-up entries, and the rule-call log *)
Theorem esir_det_arrays : forall tb g delay dur i0 r0 tmin tmax fuel sF,
  esir_run tb g delay dur i0 r0 tmin tmax fuel = Ok sF ->
  esir_det tb g delay dur i0 r0 tmin tmax false fuel =
  Ok (mkOut (skipn (length i0) (rev (rows sF))) None, rev (olog sF)).
Proof. intros. unfold esir_det. rewrite H. reflexivity. Qed.

(* full data: whenever it is returned, transmissions() is the log the theorems speak about *)
Theorem esir_det_transmissions : forall tb g delay dur i0 r0 tmin tmax fuel sF o cs,
  esir_run tb g delay dur i0 r0 tmin tmax fuel = Ok sF ->
  esir_det tb g delay dur i0 r0 tmin tmax true fuel = Ok (o, cs) ->
  exists hs, so_full o = Some (mkFull hs (rev (tlog sF))) /\ cs = rev (olog sF).
Proof.
  intros tb g delay dur i0 r0 tmin tmax fuel sF o cs Hr Hd. unfold esir_det in Hd. rewrite Hr in Hd.
  simpl in Hd. unfold finish in Hd.
  destruct (all_ok _) as [hs|e]; simpl in Hd; [|discriminate].
  inversion Hd; subst. exists hs. auto.
Qed.
