(* basic_discrete_SIS under arbitrary rules: every reachable result is a [drun] of kind SIS
   (Proofs/DiscreteRun.v): one status map per unit step, every infectious node susceptible
   again after one step, new infections only next to an infectious node. *)
From EoNV Require Import Prelude Samp Graph Discrete DiscreteP SampP DiscreteChk DiscreteRun.
From EoNV Require Gillespie GillespieP.
From Coq Require Import Permutation.

Section SCLoop.
Variable R : rules.

Lemma sis_cloop_reach : forall (P : node -> node -> Prop) k infs cs new inf q r,
  (forall u v, In (u, v) cs -> P u v) ->
  reach (sis_cloop R k infs cs new inf q) r ->
  infok P inf -> map fst inf = rev new ->
  exists added,
    fst (fst r) = added ++ new /\ NoDup added /\
    (forall v, In v added -> mem v infs = false /\ ~ In v new /\ exists u, In (u, v) cs) /\
    infok P (snd (fst r)) /\ map fst (snd (fst r)) = rev (fst (fst r)).
Proof.
  intros P k infs cs. induction cs as [|[u v] cs IH]; intros new inf q r Hcs H Hok Hk.
  - cbn [sis_cloop] in H. apply reach_ret_inv in H. subst r. cbn [fst snd]. exists [].
    split; [reflexivity|]. split; [constructor|]. split; [intros x []|]. split; assumption.
  - assert (Hcs' : forall a b, In (a, b) cs -> P a b) by (intros a b Hab; apply Hcs; right; exact Hab).
    assert (Puv : P u v) by (apply Hcs; left; reflexivity).
    assert (W : forall new1 inf1 q1, new1 = new -> reach (sis_cloop R k infs cs new1 inf1 q1) r ->
              infok P inf1 -> map fst inf1 = rev new1 ->
              exists added, fst (fst r) = added ++ new /\ NoDup added /\
                (forall x, In x added -> mem x infs = false /\ ~ In x new /\ exists w, In (w, x) ((u, v) :: cs)) /\
                infok P (snd (fst r)) /\ map fst (snd (fst r)) = rev (fst (fst r))).
    { intros new1 inf1 q1 En Hr Hok1 Hk1. subst new1.
      destruct (IH _ _ _ _ Hcs' Hr Hok1 Hk1) as [added [A1 [A2 [A3 [A4 A5]]]]].
      exists added. split; [exact A1|]. split; [exact A2|]. split; [|split; assumption].
      intros x Hx. destruct (A3 x Hx) as [B1 [B2 [w Hw]]]. split; [exact B1|]. split; [exact B2|]. exists w. right. exact Hw. }
    cbn [sis_cloop] in H. destruct (mem v infs) eqn:Ei; cbn [negb] in H.
    + apply (W new inf q eq_refl H Hok Hk).
    + apply reach_bind in H. destruct H as [b [_ H]]. destruct b.
      * destruct (mem v new) eqn:En; cbn [negb] in H.
        { apply (W new (inf_append inf v u) ((k, u, v) :: q) eq_refl H).
          - apply inf_append_ok; assumption.
          - rewrite inf_append_keys. exact Hk. }
        { assert (Hok1 : infok P (inf ++ [(v, [u])])).
          { unfold infok. apply Forall_app. split; [exact Hok|]. constructor; [|constructor]. cbn [fst snd].
            split; [discriminate|]. intros x [Hx|[]]. subst x. exact Puv. }
          assert (Hk1 : map fst (inf ++ [(v, [u])]) = rev (v :: new)) by (rewrite map_app, Hk; reflexivity).
          destruct (IH _ _ _ _ Hcs' H Hok1 Hk1) as [added [A1 [A2 [A3 [A4 A5]]]]].
          exists (added ++ [v]). split; [rewrite A1, <- app_assoc; reflexivity|]. split.
          - apply NoDup_app_disj; [exact A2|constructor; [intros []|constructor]|].
            intros x Hx [Hv|[]]. subst x. destruct (A3 v Hx) as [_ [B2 _]]. apply B2. left. reflexivity.
          - split; [|split; assumption]. intros x Hx. apply in_app_or in Hx. destruct Hx as [Hx|[Hx|[]]].
            + destruct (A3 x Hx) as [B1 [B2 [w Hw]]]. split; [exact B1|]. split; [intro Hn; apply B2; right; exact Hn|]. exists w. right. exact Hw.
            + subst x. split; [exact Ei|]. split; [apply dmem_false; exact En|]. exists u. left. reflexivity. }
      * apply (W new inf ((k, u, v) :: q) eq_refl H Hok Hk).
Qed.

End SCLoop.

Definition dstatS (s : sst) (v : node) : N := if mem v (s_infs s) then stI else stS.

Section SISRun.
Variable g : graph.
Variable R : rules.
Variable ord : nat -> list node -> list node.
Variable tmin : Q.
Variable tmax : xtime.
Variable full : bool.
Variable i0 : list node.

Hypothesis Hnd : NoDup (gnodes g).
Hypothesis Hadj : forall u v, In u (gnodes g) -> In v (gadj g u) -> In v (gnodes g).
Hypothesis Hi0 : forall v, In v i0 -> In v (gnodes g).
Hypothesis Hi0nd : NoDup i0.
Hypothesis Hord : forall k l, Permutation (ord k l) l.
Hypothesis Hpick : full = true -> pick_sound R.

Notation cnt := (GillespieP.cntst g).

Record SInvS (s : sst) : Prop := {
  ss_nd : NoDup (s_infs s);
  ss_sub : forall v, In v (s_infs s) -> In v (gnodes g)
}.

Lemma dstatS_ok : forall s, GillespieP.stat_ok kSIS (dstatS s).
Proof. intros s x. unfold dstatS. destruct (mem x (s_infs s)); [right|left]; reflexivity. Qed.

Lemma cntS_I : forall s, SInvS s -> cnt (dstatS s) stI = lenZ (s_infs s).
Proof.
  intros s [H1 H2]. unfold GillespieP.cntst, lenZ. f_equal.
  rewrite <- (GillespieP.count_mem (s_infs s) (gnodes g) H1 Hnd H2). apply filter_len_ext. intros x _.
  unfold dstatS. destruct (mem x (s_infs s)); reflexivity.
Qed.

Lemma cntS_S : forall s, SInvS s -> cnt (dstatS s) stS = (order g - lenZ (s_infs s))%Z.
Proof.
  intros s Hs. rewrite <- (cntS_I s Hs). unfold GillespieP.cntst, order.
  rewrite (GillespieP.partition2 (dstatS s) (gnodes g) (dstatS_ok s)). lia.
Qed.

Lemma censusS : forall s, SInvS s ->
  GillespieP.census g kSIS (dstatS s) = [(order g - lenZ (s_infs s))%Z; lenZ (s_infs s)].
Proof. intros s Hs. unfold GillespieP.census. rewrite (cntS_S s Hs), (cntS_I s Hs). reflexivity. Qed.

Notation DRUNS := (drun g kSIS true tmin tmax full (init_status i0 []) (if full then rev (init_tx tmin i0) else [])).

Definition LInvS (k : nat) (t : Q) (s : sst) : Prop :=
  SInvS s /\ DRUNS k t (dstatS s) (s_rows s) (s_hlog s) (s_tlog s).

Lemma sis_step_LInv : forall k t s s', LInvS k t s -> nonempty (s_infs s) && xlt t tmax = true ->
  reach (sis_step g R ord tmax full k t s) s' -> LInvS (S k) (t + 1) s'.
Proof.
  intros k t s s' [Hs Hrun] Hc H. apply andb_true_iff in Hc. destruct Hc as [Hne Hlt].
  destruct Hs as [Snd Ssub]. unfold sis_step in H.
  set (us := ord k (s_infs s)) in *.
  assert (Pus : Permutation us (s_infs s)) by apply Hord.
  assert (Hus : forall u, In u us <-> In u (s_infs s)).
  { intro u. split; intro Hu; [eapply Permutation_in; [exact Pus|exact Hu]|eapply Permutation_in; [apply Permutation_sym; exact Pus|exact Hu]]. }
  assert (Husnd : NoDup us) by (apply (Permutation_NoDup (Permutation_sym Pus)); exact Snd).
  apply reach_bind in H. destruct H as [[[new inf] q] [Hc H]].
  destruct (sis_cloop_reach R (fun u v => In (u, v) (contacts g us)) _ _ _ _ _ _ _ (fun u v Huv => Huv) Hc) as
    [added [E1 [E2 [E3 [Iok Ikeys]]]]]; [constructor|reflexivity|].
  cbn [fst snd] in E1, Iok, Ikeys. rewrite app_nil_r in E1. subst new.
  apply reach_bind in H. destruct H as [tp [Htp H]]. apply reach_ret_inv in H. subst s'.
  assert (Hadded : forall v, In v added -> mem v (s_infs s) = false /\ In v (gnodes g) /\ exists u, In u (s_infs s) /\ In v (gadj g u)).
  { intros v Hv. destruct (E3 v Hv) as [B1 [_ [u Hu]]]. apply contacts_In in Hu. destruct Hu as [Hu Hg].
    split; [exact B1|]. split; [apply Hadj with u; [apply Ssub; apply Hus; exact Hu|exact Hg]|]. exists u. split; [apply Hus; exact Hu|exact Hg]. }
  assert (Hs' : SInvS (mkS (canon g added) ((t + 1, [(order g - lenZ (canon g added))%Z; lenZ (canon g added)]) :: s_rows s)
                           (if full && le_x (t + 1) tmax
                            then rev (map (fun v => (t + 1, v, stI)) (canon g added)) ++ rev (map (fun u => (t + 1, u, stS)) us) ++ s_hlog s
                            else s_hlog s) (fst tp) (mkL q (snd tp) (l_r (s_logs s))))).
  { constructor; cbn [s_infs]; [apply (canon_NoDup g Hnd)|intros v Hv; apply canon_In in Hv; apply Hv]. }
  split; [exact Hs'|]. cbn [s_rows s_hlog s_tlog].
  set (s' := mkS (canon g added) _ _ _ _) in *.
  assert (Hst' : forall v, dstatS s' v = if mem v (canon g added) then stI else stS) by reflexivity.
  assert (HstI : forall u, In u (s_infs s) -> dstatS s u = stI) by (intros u Hu; unfold dstatS; apply dmem_In in Hu; rewrite Hu; reflexivity).
  assert (Hmc : forall v, In v (gnodes g) -> mem v (canon g added) = mem v added).
  { intros v Hv. unfold canon. rewrite mem_filter. assert (M : mem v (gnodes g) = true) by (apply dmem_In; exact Hv). rewrite M. reflexivity. }
  (* transmissions *)
  assert (TX : exists tnew, fst tp = tnew ++ s_tlog s /\ tstep_ok g full t (dstatS s) (dstatS s') tnew).
  { destruct full eqn:Efull.
    - destruct (picks_reach R (Hpick eq_refl) _ _ _ _ _ _ Htp) as [ents [F1 [F2 F3]]].
      exists (rev ents). split; [exact F1|]. intros _.
      assert (K : forall v, In v (map tx_v (rev ents)) <-> In v added).
      { intro v. rewrite map_rev, <- in_rev, F2, Ikeys, <- in_rev. reflexivity. }
      split; [rewrite map_rev, F2, Ikeys, rev_involutive; exact E2|]. split.
      + intros e He. assert (Ha : In (tx_v e) added) by (apply K; apply in_map; exact He).
        apply in_rev in He. destruct (F3 e He) as [Et [u [cands [Es [Hin Hu]]]]].
        destruct (Hadded _ Ha) as [B1 [B2 _]].
        split; [exact Et|]. split; [exact B2|]. split; [unfold dstatS; rewrite B1; reflexivity|].
        split; [rewrite Hst', (Hmc _ B2); apply dmem_In in Ha; rewrite Ha; reflexivity|].
        exists u. split; [exact Es|].
        unfold infok in Iok. rewrite Forall_forall in Iok. destruct (Iok _ Hin) as [_ Hsrc]. cbn [fst snd] in Hsrc.
        apply Hsrc in Hu. apply contacts_In in Hu. destruct Hu as [Hu Hv].
        assert (Hui : In u (s_infs s)) by (apply Hus; exact Hu).
        split; [apply Ssub; exact Hui|]. split; [apply HstI; exact Hui|exact Hv].
      + intros v Hv H1 H2. apply K. rewrite Hst', (Hmc v Hv) in H2. destruct (mem v added) eqn:Ea; [apply dmem_In; exact Ea|discriminate].
    - apply reach_ret_inv in Htp. subst tp. exists []. split; [reflexivity|]. intro Hf. discriminate. }
  destruct TX as [tnew [Etl Htx]]. rewrite Etl.
  assert (Erow : [(order g - lenZ (canon g added))%Z; lenZ (canon g added)] = GillespieP.census g kSIS (dstatS s')) by (rewrite (censusS s' Hs'); reflexivity).
  rewrite Erow.
  assert (Ehl : (if full && le_x (t + 1) tmax
                 then rev (map (fun v => (t + 1, v, stI)) (canon g added)) ++ rev (map (fun u => (t + 1, u, stS)) us) ++ s_hlog s
                 else s_hlog s) =
                (if full && le_x (t + 1) tmax
                 then rev (map (fun v => (t + 1, v, stI)) (canon g added)) ++ rev (map (fun u => (t + 1, u, stS)) us) else []) ++ s_hlog s).
  { destruct (full && le_x (t + 1) tmax); [rewrite <- app_assoc|]; reflexivity. }
  rewrite Ehl.
  eapply drunS; [exact Hrun|exact Hlt| |apply dstatS_ok| | |exact Htx].
  - assert (Hex : exists u, In u (s_infs s)).
    { revert Hne. destruct (s_infs s) as [|u l]; [discriminate|]. intros _. exists u. left. reflexivity. }
    destruct Hex as [u Hu]. exists u. split; [apply Ssub; exact Hu|apply HstI; exact Hu].
  - intros v Hv. cbn match.
    assert (E0 : dstatS s v = if mem v (s_infs s) then stI else stS) by reflexivity.
    assert (E' : dstatS s' v = if mem v added then stI else stS) by (rewrite Hst', (Hmc v Hv); reflexivity).
    destruct (mem v (s_infs s)) eqn:Ei.
    + right. split; [exact E0|]. destruct (mem v added) eqn:Ea; [|exact E'].
      apply dmem_In in Ea. destruct (Hadded v Ea) as [B1 _]. congruence.
    + left. split; [exact E0|]. destruct (mem v added) eqn:Ea; [right|left; exact E'].
      split; [exact E'|]. apply dmem_In in Ea. destruct (Hadded v Ea) as [_ [_ [u [Hu Hg]]]].
      exists u. split; [apply Ssub; exact Hu|]. split; [apply HstI; exact Hu|exact Hg].
  - intros Hf Hle u Hu. rewrite Hf, Hle. cbn [andb].
    rewrite rev_app_distr, !rev_involutive, node_events_app.
    rewrite (node_events_map u (t + 1) stI (canon g added) (canon_NoDup g Hnd added)).
    rewrite (node_events_map u (t + 1) stS us Husnd).
    rewrite Hst', (Hmc u Hu). unfold dstatS. rewrite (mem_perm us (s_infs s) u Pus).
    destruct (mem u (s_infs s)) eqn:Ei.
    + destruct (mem u added) eqn:Ea; [|reflexivity]. apply dmem_In in Ea. destruct (Hadded u Ea) as [B1 _]. congruence.
    + destruct (mem u added); reflexivity.
Qed.

Lemma sis_loop_reach : forall fuel k t s out, LInvS k t s ->
  reach (sis_loop g R ord tmin tmax full i0 fuel k t s) out ->
  exists K tK sK, LInvS K tK sK /\ nonempty (s_infs sK) && xlt tK tmax = false /\ out = sis_finish g tmin full i0 sK.
Proof.
  induction fuel as [|f IH]; intros k t s out Hinv H; cbn [sis_loop] in H;
    destruct (nonempty (s_infs s) && xlt t tmax) eqn:Ec.
  - inversion H.
  - apply reach_ret_inv in H. exists k, t, s. split; [exact Hinv|]. split; [exact Ec|symmetry; exact H].
  - apply reach_bind in H. destruct H as [s' [Hstep H]].
    apply (IH (S k) (t + 1) s' out); [|exact H]. apply (sis_step_LInv k t s s' Hinv Ec Hstep).
  - apply reach_ret_inv in H. exists k, t, s. split; [exact Hinv|]. split; [exact Ec|symmetry; exact H].
Qed.

Lemma sis_init_LInv : LInvS O tmin (sis_init g tmin full i0).
Proof.
  set (s := sis_init g tmin full i0).
  assert (Hs : SInvS s).
  { constructor; cbn [sis_init s_infs s]; [apply (canon_NoDup g Hnd)|intros v Hv; apply canon_In in Hv; apply Hv]. }
  split; [exact Hs|].
  assert (El : lenZ (s_infs s) = lenZ i0).
  { cbn [s sis_init s_infs]. unfold lenZ. rewrite (NoDup_length_canon g i0 Hnd Hi0nd Hi0). reflexivity. }
  assert (Erows : s_rows s = [(tmin, GillespieP.census g kSIS (dstatS s))]).
  { rewrite (censusS s Hs), El. reflexivity. }
  rewrite Erows. change (s_hlog s) with (@nil hev).
  change (s_tlog s) with (if full then rev (init_tx tmin i0) else []).
  apply drun0; [|apply dstatS_ok].
  intros v Hv. unfold dstatS, init_status, s. cbn [sis_init s_infs].
  unfold canon. rewrite mem_filter. assert (M : mem v (gnodes g) = true) by (apply dmem_In; exact Hv). rewrite M.
  change (mem v []) with false. cbv iota. destruct (mem v i0); reflexivity.
Qed.

End SISRun.
