(* Lemmas about the initial-condition builders (Model/IC.v) and the wrappers
   (Model/Wrappers.v): status of a consistent request, degree-class sums,
   row 0 of the returned series, acceptance, structural conservation. *)
From EoNV Require Import Prelude Graph Aux Vec IC Wrappers VecP.
From Coq Require Import Lqa Setoid Morphisms Qpower.

(* ---------------- sums over lists ---------------- *)
Lemma sumQ_app a b : sumQ (a ++ b) == sumQ a + sumQ b.
Proof. unfold sumQ. induction a as [|x a IH]; cbn [app fold_right]; [ring|]. rewrite IH. ring. Qed.

Lemma sumQ_cons x a : sumQ (x :: a) = x + sumQ a. Proof. reflexivity. Qed.
Lemma sumQ_nil : sumQ [] = 0. Proof. reflexivity. Qed.

Lemma sumQ_map_ext {A} (f h : A -> Q) l :
  (forall x, In x l -> f x == h x) -> sumQ (map f l) == sumQ (map h l).
Proof.
  induction l as [|x l IH]; intros H; cbn [map]; [reflexivity|]. rewrite !sumQ_cons.
  rewrite (H x (or_introl eq_refl)), IH; [reflexivity|]. intros y Hy. apply H. right; exact Hy.
Qed.

Lemma sumQ_map_add {A} (f h : A -> Q) l :
  sumQ (map (fun x => f x + h x) l) == sumQ (map f l) + sumQ (map h l).
Proof. induction l as [|x l IH]; cbn [map]; rewrite ?sumQ_cons, ?sumQ_nil; [ring|]. rewrite IH. ring. Qed.

Lemma sumQ_map_scal {A} c (f : A -> Q) l : sumQ (map (fun x => c * f x) l) == c * sumQ (map f l).
Proof. induction l as [|x l IH]; cbn [map]; rewrite ?sumQ_cons, ?sumQ_nil; [ring|]. rewrite IH. ring. Qed.

Lemma sumQ_map_zero {A} (f : A -> Q) l : (forall x, In x l -> f x == 0) -> sumQ (map f l) == 0.
Proof.
  intros H. rewrite (sumQ_map_ext f (fun _ => 0) l H). clear H. induction l; cbn [map]; rewrite ?sumQ_cons, ?sumQ_nil; [reflexivity|].
  rewrite IHl. ring.
Qed.

(* a sum over seq a n whose only non-zero term is at d *)
Lemma sumQ_single (d : nat) (x : nat -> Q) a n :
  sumQ (map (fun k => if Nat.eqb d k then x k else 0) (seq a n))
  == if (Nat.leb a d && Nat.ltb d (a + n))%bool then x d else 0.
Proof.
  revert a; induction n as [|n IH]; intros a; cbn [seq map]; rewrite ?sumQ_cons, ?sumQ_nil.
  - destruct (Nat.leb a d && Nat.ltb d (a + 0))%bool eqn:E; [|reflexivity].
    apply andb_prop in E; destruct E as [E1 E2]; apply Nat.leb_le in E1; apply Nat.ltb_lt in E2; lia.
  - rewrite IH.
    destruct (Nat.eqb d a) eqn:Eda.
    + apply Nat.eqb_eq in Eda; subst a.
      replace (Nat.leb (S d) d) with false by (symmetry; apply Nat.leb_gt; lia).
      replace (Nat.leb d d) with true by (symmetry; apply Nat.leb_le; lia).
      replace (Nat.ltb d (d + S n)) with true by (symmetry; apply Nat.ltb_lt; lia).
      cbn [andb]. ring.
    + apply Nat.eqb_neq in Eda.
      replace (Nat.ltb d (S a + n)) with (Nat.ltb d (a + S n)) by (f_equal; lia).
      replace (Nat.leb (S a) d) with (Nat.leb a d); [ring|].
      destruct (Nat.leb a d) eqn:E1; symmetry; [apply Nat.leb_le; apply Nat.leb_le in E1; lia | apply Nat.leb_gt; apply Nat.leb_gt in E1; lia].
Qed.

Lemma Qnat_S n : Qnat (S n) == 1 + Qnat n.
Proof. unfold Qnat. rewrite Nat2Z.inj_succ. unfold Z.succ. rewrite inject_Z_plus. ring. Qed.
Lemma Qnat_plus a b : Qnat (a + b) == Qnat a + Qnat b.
Proof. unfold Qnat. rewrite Nat2Z.inj_add, inject_Z_plus. reflexivity. Qed.
Lemma Qnat_0 : Qnat 0 == 0. Proof. reflexivity. Qed.

Lemma cnt_cons p u l : cnt p (u :: l) == ind (p u) + cnt p l.
Proof. unfold cnt, ind; cbn. destruct (p u); cbn [length]; [rewrite Qnat_S|]; ring. Qed.
Lemma cnt_nil p : cnt p [] == 0. Proof. reflexivity. Qed.

Lemma cnt_ext p q l : (forall u, In u l -> p u = q u) -> cnt p l = cnt q l.
Proof.
  intros H. unfold cnt. f_equal. f_equal. induction l as [|x l IH]; cbn; [reflexivity|].
  rewrite (H x (or_introl eq_refl)). rewrite IH; [reflexivity|]. intros; apply H; right; assumption.
Qed.

(* ---------------- degree classes ---------------- *)
(* sum over the classes 0..m of h(k) * #(nodes of degree k with p) = sum over the nodes with p of h(degree) *)
Lemma class_sum_weighted (d : node -> nat) (p : node -> bool) (h : nat -> Q) (m : nat) (l : list node) :
  (forall u, In u l -> (d u <= m)%nat) ->
  sumQ (map (fun k => h k * cnt (fun u => Nat.eqb (d u) k && p u) l) (seq 0 (S m)))
  == sumQ (map (fun u => if p u then h (d u) else 0) l).
Proof.
  induction l as [|u l IH]; intros Hd.
  - cbn [map]. rewrite sumQ_nil. apply sumQ_map_zero. intros k _. rewrite cnt_nil. ring.
  - rewrite (sumQ_map_ext _ (fun k => (if Nat.eqb (d u) k then (if p u then h k else 0) else 0)
                                      + h k * cnt (fun u0 => Nat.eqb (d u0) k && p u0) l)).
    2:{ intros k _. rewrite cnt_cons. unfold ind. destruct (Nat.eqb (d u) k), (p u); cbn; ring. }
    rewrite sumQ_map_add, IH by (intros; apply Hd; right; assumption).
    rewrite (sumQ_single (d u) (fun k => if p u then h k else 0) 0 (S m)).
    assert (Hu : (d u <= m)%nat) by (apply Hd; left; reflexivity).
    replace (Nat.leb 0 (d u)) with true by (symmetry; apply Nat.leb_le; lia).
    replace (Nat.ltb (d u) (0 + S m)) with true by (symmetry; apply Nat.ltb_lt; lia).
    cbn [andb map]. rewrite sumQ_cons. reflexivity.
Qed.

Lemma maxdeg_ge ds x : In x ds -> (x <= maxdeg ds)%nat.
Proof.
  induction ds as [|y ds IH]; [intros []|]. unfold maxdeg in *. cbn [fold_right].
  intros [->|H]; [lia|]. specialize (IH H). lia.
Qed.
Lemma deg_le_max g u : In u (gnodes g) -> (deg g u <= gmaxdeg g)%nat.
Proof. intros H. apply maxdeg_ge. unfold degseq. apply in_map. exact H. Qed.

Lemma sumQ_ind_cnt (p : node -> bool) l : sumQ (map (fun u : node => if p u then 1 else 0) l) == cnt p l.
Proof. induction l as [|u l IH]; [reflexivity|]. cbn [map]. rewrite sumQ_cons, cnt_cons. unfold ind. rewrite IH. reflexivity. Qed.

(* C06 shared lemma: the degree classes partition the nodes *)
Lemma byclass_sum g p : vsum (byclass g p) == cnt p (gnodes g).
Proof.
  unfold vsum, byclass, classes.
  rewrite (sumQ_map_ext _ (fun k => 1 * cnt (fun u => Nat.eqb (deg g u) k && p u) (gnodes g))) by (intros; ring).
  rewrite (class_sum_weighted (deg g) p (fun _ => 1) (gmaxdeg g) (gnodes g)) by (intros; apply deg_le_max; assumption).
  apply sumQ_ind_cnt.
Qed.

(* sum_k N_k = N *)
Lemma cnt_true l : cnt (fun _ => true) l = Qnat (length l).
Proof. unfold cnt. f_equal. f_equal. induction l; cbn; congruence. Qed.
Lemma Nk_sum g : vsum (Nk_of g) == gN g.
Proof. unfold Nk_of. rewrite byclass_sum, cnt_true. reflexivity. Qed.

Lemma byclass_length g p : length (byclass g p) = S (gmaxdeg g).
Proof. unfold byclass, classes. rewrite map_length, seq_length. reflexivity. Qed.

Lemma nth_map_seq (f : nat -> Q) n k : (k < n)%nat -> nth k (map f (seq 0 n)) 0 = f k.
Proof.
  intros H. rewrite (nth_indep _ 0 (f 0%nat)) by (rewrite map_length, seq_length; lia).
  rewrite (map_nth f). rewrite seq_nth by lia. reflexivity.
Qed.

Lemma vnth_byclass g p k : (k <= gmaxdeg g)%nat ->
  vnth k (byclass g p) = cnt (fun u => Nat.eqb (deg g u) k && p u) (gnodes g).
Proof.
  intros Hk. unfold vnth, byclass, classes.
  apply (nth_map_seq (fun k0 => cnt (fun u => Nat.eqb (deg g u) k0 && p u) (gnodes g))). lia.
Qed.

(* sum_k k N_k (restricted to the nodes with p) = sum of their degrees; p = true: 2|E| *)
Lemma byclass_degsum g p :
  sumQ (map (fun k => Qnat k * vnth k (byclass g p)) (classes g))
  == sumQ (map (fun u => if p u then Qnat (deg g u) else 0) (gnodes g)).
Proof.
  unfold classes.
  rewrite (sumQ_map_ext _ (fun k => Qnat k * cnt (fun u => Nat.eqb (deg g u) k && p u) (gnodes g))).
  2:{ intros k Hk. apply in_seq in Hk. rewrite vnth_byclass by lia. reflexivity. }
  apply (class_sum_weighted (deg g) p Qnat (gmaxdeg g) (gnodes g)). intros; apply deg_le_max; assumption.
Qed.
Lemma Nk_degsum g : sumQ (map (fun k => Qnat k * vnth k (Nk_of g)) (classes g)) == degsum g.
Proof. unfold Nk_of. rewrite byclass_degsum. reflexivity. Qed.

(* ---------------- status of a consistent request ---------------- *)
Lemma mem_cons u x l : mem u (x :: l) = (N.eqb u x || mem u l)%bool.
Proof. reflexivity. Qed.
Lemma mem_In x l : mem x l = true <-> In x l.
Proof.
  unfold mem. rewrite existsb_exists. split.
  - intros [y [Hy E]]. apply N.eqb_eq in E. subst. exact Hy.
  - intros H. exists x. split; [exact H|apply N.eqb_refl].
Qed.

Lemma set_status_spec l : forall st s u, set_status st l s u = if mem u l then s else st u.
Proof.
  induction l as [|x l IH]; intros st s u; [reflexivity|].
  unfold set_status in *. cbn [fold_left]. rewrite IH, mem_cons. unfold fupdN.
  destruct (N.eqb u x), (mem u l); reflexivity.
Qed.

Definition reqR (rq : icreq) : list node := match rq_R rq with None => [] | Some r => r end.

Lemma wf_req_sets g sir rq I0 :
  wf_req g sir rq = true -> rq_I rq = Some I0 ->
  rq_rho rq = None /\ nodupb I0 = true /\ nodupb (reqR rq) = true /\ subsetb I0 (gnodes g) = true /\
  subsetb (reqR rq) (gnodes g) = true /\ existsb (fun u => mem u (reqR rq)) I0 = false /\
  (sir = false -> rq_R rq = None).
Proof.
  unfold wf_req, reqR. intros H E. rewrite E in H. destruct (rq_rho rq); [discriminate|].
  repeat (apply andb_prop in H; destruct H as [H ?]).
  repeat split; try assumption.
  - apply negb_true_iff; assumption.
  - intros ->. destruct (rq_R rq); [discriminate|reflexivity].
Qed.

Lemma init_status_ok g sir rq I0 :
  wf_req g sir rq = true -> rq_I rq = Some I0 ->
  exists st, initialize_node_status g I0 (rq_R rq) = Ok st /\ forall u, st u = req_status rq u.
Proof.
  intros W E. destruct (wf_req_sets g sir rq I0 W E) as (_ & _ & _ & HI & HR & HD & _).
  unfold initialize_node_status. fold (reqR rq). rewrite HD.
  unfold subsetb in HI, HR. rewrite HI, HR. cbn [negb].
  eexists; split; [reflexivity|]. intros u. rewrite !set_status_spec. unfold req_status. rewrite E. fold (reqR rq). reflexivity.
Qed.

Lemma existsb_mem_nil (l : list node) : existsb (fun u => mem u []) l = false.
Proof. induction l; cbn; auto. Qed.

(* with initial_recovereds deliberately dropped by a wrapper: the status of the request without R *)
Lemma init_status_noR g sir rq I0 :
  wf_req g sir rq = true -> rq_I rq = Some I0 ->
  exists st, initialize_node_status g I0 None = Ok st /\ forall u, st u = if mem u I0 then stI else stS.
Proof.
  intros W E. destruct (wf_req_sets g sir rq I0 W E) as (_ & _ & _ & HI & _).
  unfold initialize_node_status. cbn [existsb]. 
  rewrite existsb_mem_nil.
  unfold subsetb in HI. rewrite HI. cbn [negb forallb].
  eexists; split; [reflexivity|]. intros u. rewrite !set_status_spec. reflexivity.
Qed.

(* ---------------- counting ---------------- *)
Lemma cnt_or p q l : (forall u, In u l -> (p u && q u)%bool = false) ->
  cnt (fun u => (p u || q u)%bool) l == cnt p l + cnt q l.
Proof.
  induction l as [|x l IH]; intros H; [reflexivity|]. rewrite !cnt_cons, IH by (intros; apply H; right; assumption).
  specialize (H x (or_introl eq_refl)). unfold ind. destruct (p x), (q x); cbn in *; try discriminate; ring.
Qed.

Lemma cnt_none p l : (forall u, In u l -> p u = false) -> cnt p l == 0.
Proof.
  induction l as [|x l IH]; intros H; [reflexivity|]. rewrite cnt_cons, IH by (intros; apply H; right; assumption).
  rewrite (H x (or_introl eq_refl)). unfold ind. ring.
Qed.

Lemma nodupb_cons x l : nodupb (x :: l) = (negb (mem x l) && nodupb l)%bool.
Proof. reflexivity. Qed.

Lemma cnt_eq_one x l : nodupb l = true -> mem x l = true -> cnt (fun u => N.eqb u x) l == 1.
Proof.
  induction l as [|y l IH]; intros ND M; [discriminate|].
  rewrite nodupb_cons in ND. apply andb_prop in ND. destruct ND as [Ny ND]. apply negb_true_iff in Ny.
  rewrite cnt_cons. rewrite mem_cons in M. destruct (N.eqb x y) eqn:Exy.
  - apply N.eqb_eq in Exy. subst y. rewrite N.eqb_refl. unfold ind.
    rewrite cnt_none; [ring|]. intros u Hu. apply N.eqb_neq. intros ->. apply mem_In in Hu. congruence.
  - cbn in M. rewrite (N.eqb_sym y x), Exy. unfold ind. rewrite IH by assumption. ring.
Qed.

(* the number of nodes of l that belong to a duplicate-free sublist a is |a| *)
Lemma cnt_mem a : forall l, nodupb a = true -> nodupb l = true -> subsetb a l = true ->
  cnt (fun u => mem u a) l == Qnat (length a).
Proof.
  induction a as [|x a IH]; intros l NA NL SUB.
  - apply cnt_none. reflexivity.
  - rewrite nodupb_cons in NA. apply andb_prop in NA. destruct NA as [Nx NA]. apply negb_true_iff in Nx.
    unfold subsetb in SUB. cbn [forallb] in SUB. apply andb_prop in SUB. destruct SUB as [Mx SUB].
    rewrite (cnt_ext _ (fun u => (N.eqb u x || mem u a)%bool)) by reflexivity.
    rewrite cnt_or.
    + rewrite cnt_eq_one, IH by assumption. cbn [length]. rewrite Qnat_S. reflexivity.
    + intros u _. destruct (N.eqb u x) eqn:E; [|reflexivity]. apply N.eqb_eq in E. subst. rewrite Nx. reflexivity.
Qed.

Lemma cnt_partition3 (p q r : node -> bool) l :
  (forall u, In u l -> (p u = true /\ q u = false /\ r u = false) \/ (p u = false /\ q u = true /\ r u = false)
                       \/ (p u = false /\ q u = false /\ r u = true)) ->
  cnt p l + cnt q l + cnt r l == Qnat (length l).
Proof.
  induction l as [|x l IH]; intros H; [reflexivity|].
  rewrite !cnt_cons. cbn [length]. rewrite Qnat_S, <- IH by (intros; apply H; right; assumption).
  destruct (H x (or_introl eq_refl)) as [(->&->&->)|[(->&->&->)|(->&->&->)]]; unfold ind; ring.
Qed.

Lemma wf_ugraph_nodes g : wf_ugraph g = true -> nodupb (gnodes g) = true /\ gnodes g <> [].
Proof.
  unfold wf_ugraph, wf_graphb. intros H. repeat (apply andb_prop in H; destruct H as [H ?]).
  split; [assumption|]. destruct (gnodes g); [discriminate|congruence].
Qed.

(* the requested numbers of S, I, R nodes *)
Definition reqI_n (g : graph) (rq : icreq) : Q :=
  match rq_I rq with Some I0 => len I0 | None => rho_or_default g (rq_rho rq) * gN g end.
Definition reqR_n (g : graph) (rq : icreq) : Q :=
  match rq_I rq with Some _ => len (reqR rq) | None => 0 end.
Definition reqS_n (g : graph) (rq : icreq) : Q :=
  match rq_I rq with Some I0 => gN g - len I0 - len (reqR rq) | None => (1 - rho_or_default g (rq_rho rq)) * gN g end.

Lemma isR_req rq u : isR (req_status rq) u = match rq_I rq with Some _ => mem u (reqR rq) | None => false end.
Proof. unfold isR, req_status, reqR. destruct (rq_I rq); [|reflexivity]. destruct (mem u _); [reflexivity|]. destruct (mem u l); reflexivity. Qed.

Section ReqCounts.
Variables (g : graph) (sir : bool) (rq : icreq) (I0 : list node).
Hypothesis WG : wf_ugraph g = true.
Hypothesis W : wf_req g sir rq = true.
Hypothesis E : rq_I rq = Some I0.

Lemma disjoint_IR u : mem u I0 = true -> mem u (reqR rq) = false.
Proof.
  destruct (wf_req_sets g sir rq I0 W E) as (_ & _ & _ & _ & _ & HD & _).
  intros M. destruct (mem u (reqR rq)) eqn:MR; [|reflexivity].
  assert (existsb (fun u => mem u (reqR rq)) I0 = true) by (apply existsb_exists; exists u; split; [apply mem_In; assumption|assumption]).
  congruence.
Qed.

Lemma cnt_req_R : cnt (isR (req_status rq)) (gnodes g) == len (reqR rq).
Proof.
  destruct (wf_req_sets g sir rq I0 W E) as (_ & _ & NR & _ & SR & _ & _).
  destruct (wf_ugraph_nodes g WG) as [NG _].
  rewrite (cnt_ext _ (fun u => mem u (reqR rq))) by (intros; rewrite isR_req, E; reflexivity).
  apply cnt_mem; assumption.
Qed.

Lemma cnt_req_I : cnt (isI (req_status rq)) (gnodes g) == len I0.
Proof.
  destruct (wf_req_sets g sir rq I0 W E) as (_ & NI & _ & SI & _ & _ & _).
  destruct (wf_ugraph_nodes g WG) as [NG _].
  rewrite (cnt_ext _ (fun u => mem u I0)).
  - apply cnt_mem; assumption.
  - intros u _. unfold isI, req_status. rewrite E. fold (reqR rq).
    destruct (mem u I0) eqn:M; [rewrite (disjoint_IR u M); reflexivity|]. destruct (mem u (reqR rq)); reflexivity.
Qed.

Lemma cnt_req_S : cnt (isS (req_status rq)) (gnodes g) == gN g - len I0 - len (reqR rq).
Proof.
  rewrite <- cnt_req_I, <- cnt_req_R. unfold gN.
  rewrite <- (cnt_partition3 (isS (req_status rq)) (isI (req_status rq)) (isR (req_status rq))); [ring|].
  intros u _. unfold isS, isI, isR. unfold req_status. rewrite E. fold (reqR rq).
  destruct (mem u (reqR rq)); [right; right; auto|]. destruct (mem u I0); [right; left; auto| left; auto].
Qed.

Lemma notSI_is_R u : (negb (isS (req_status rq) u) && negb (isI (req_status rq) u))%bool = isR (req_status rq) u.
Proof.
  unfold isS, isI, isR, req_status. rewrite E. fold (reqR rq).
  destruct (mem u (reqR rq)); [reflexivity|]. destruct (mem u I0); reflexivity.
Qed.
End ReqCounts.

(* ---------------- basic facts ---------------- *)
Lemma gN_nonzero g : wf_ugraph g = true -> ~ gN g == 0.
Proof.
  intros W. destruct (wf_ugraph_nodes g W) as [_ NE]. unfold gN, Qnat. destruct (gnodes g) as [|x l]; [congruence|].
  cbn [length]. intros H. unfold Qeq in H. cbn in H. lia.
Qed.

Lemma const_solver_ok : solver_ok const_solver.
Proof. intros x. reflexivity. Qed.

Lemma wf_req_noR g rq : wf_req g false rq = true -> rq_R rq = None.
Proof.
  unfold wf_req. destruct (rq_I rq), (rq_rho rq); try discriminate; intros H.
  - repeat (apply andb_prop in H; destruct H as [H ?]). cbn in *. destruct (rq_R rq); [discriminate|reflexivity].
  - repeat (apply andb_prop in H; destruct H as [H ?]). destruct (rq_R rq); [discriminate|reflexivity].
  - destruct (rq_R rq); [discriminate|reflexivity].
Qed.

Lemma wf_req_rho g sir rq : wf_req g sir rq = true -> rq_I rq = None -> rq_R rq = None.
Proof.
  unfold wf_req. intros H E. rewrite E in H. destruct (rq_rho rq).
  - repeat (apply andb_prop in H; destruct H as [H ?]). destruct (rq_R rq); [discriminate|reflexivity].
  - destruct (rq_R rq); [discriminate|reflexivity].
Qed.

Lemma wf_req_not_both g sir rq I0 r : wf_req g sir rq = true -> rq_I rq = Some I0 -> rq_rho rq = Some r -> False.
Proof. unfold wf_req. intros H E1 E2. rewrite E1, E2 in H. discriminate. Qed.

Lemma byclass_ext g p q : (forall u, p u = q u) -> byclass g p = byclass g q.
Proof.
  intros H. unfold byclass. apply map_ext. intros k. apply cnt_ext. intros u _. rewrite H. reflexivity.
Qed.

(* the documented degree-class arrays of a request *)
Definition req_Sk (g : graph) (rq : icreq) : vec :=
  match rq_I rq with Some _ => byclass g (isS (req_status rq)) | None => smul (1 - rho_or_default g (rq_rho rq)) (Nk_of g) end.
Definition req_Ik (g : graph) (rq : icreq) : vec :=
  match rq_I rq with Some _ => byclass g (isI (req_status rq)) | None => smul (rho_or_default g (rq_rho rq)) (Nk_of g) end.
Definition req_Rk (g : graph) (rq : icreq) : vec :=
  match rq_I rq with Some _ => byclass g (isR (req_status rq)) | None => smul 0 (Nk_of g) end.

Lemma get_Nk_ok g sir rq :
  wf_ugraph g = true -> wf_req g sir rq = true ->
  get_Nk_and_IC g rq sir = Ok (mkNkic (Nk_of g) (req_Sk g rq) (req_Ik g rq) (req_Rk g rq)).
Proof.
  intros WG W. unfold get_Nk_and_IC, req_Sk, req_Ik, req_Rk.
  destruct (wf_ugraph_nodes g WG) as [_ NE].
  destruct (rq_I rq) as [I0|] eqn:E.
  - destruct (wf_req_sets g sir rq I0 W E) as (Hrho & _ & _ & _ & _ & _ & HsR). rewrite Hrho. cbn [isSome andb].
    assert (HR : (negb sir && isSome (rq_R rq))%bool = false).
    { destruct sir; [reflexivity|]. rewrite (HsR eq_refl). reflexivity. }
    rewrite HR. destruct (gnodes g) eqn:EG; [congruence|].
    destruct (init_status_ok g sir rq I0 W E) as [st [Hst Hreq]]. rewrite Hst. cbn [rbind].
    f_equal. f_equal; apply byclass_ext; intros u.
    + unfold isS. rewrite Hreq. reflexivity.
    + unfold isI. rewrite Hreq. reflexivity.
    + rewrite <- (notSI_is_R rq I0 E u). unfold isS, isI. rewrite Hreq. reflexivity.
  - rewrite (wf_req_rho g sir rq W E). cbn [isSome andb]. rewrite !andb_false_r.
    destruct (gnodes g) eqn:EG; [congruence|]. reflexivity.
Qed.

Lemma vsum_req_Sk g sir rq : wf_ugraph g = true -> wf_req g sir rq = true -> vsum (req_Sk g rq) == reqS_n g rq.
Proof.
  intros WG W. unfold req_Sk, reqS_n. destruct (rq_I rq) as [I0|] eqn:E.
  - rewrite byclass_sum. apply (cnt_req_S g sir rq I0 WG W E).
  - rewrite vsum_smul, Nk_sum. reflexivity.
Qed.
Lemma vsum_req_Ik g sir rq : wf_ugraph g = true -> wf_req g sir rq = true -> vsum (req_Ik g rq) == reqI_n g rq.
Proof.
  intros WG W. unfold req_Ik, reqI_n. destruct (rq_I rq) as [I0|] eqn:E.
  - rewrite byclass_sum. apply (cnt_req_I g sir rq I0 WG W E).
  - rewrite vsum_smul, Nk_sum. reflexivity.
Qed.
Lemma vsum_req_Rk g sir rq : wf_ugraph g = true -> wf_req g sir rq = true -> vsum (req_Rk g rq) == reqR_n g rq.
Proof.
  intros WG W. unfold req_Rk, reqR_n. destruct (rq_I rq) as [I0|] eqn:E.
  - rewrite byclass_sum. apply (cnt_req_R g sir rq I0 WG W E).
  - rewrite vsum_smul. ring.
Qed.

Lemma req_Sk_length g rq : length (req_Sk g rq) = S (gmaxdeg g).
Proof. unfold req_Sk. destruct (rq_I rq); [|rewrite smul_length]; apply byclass_length. Qed.
Lemma req_Ik_length g rq : length (req_Ik g rq) = S (gmaxdeg g).
Proof. unfold req_Ik. destruct (rq_I rq); [|rewrite smul_length]; apply byclass_length. Qed.
Lemma req_Rk_length g rq : length (req_Rk g rq) = S (gmaxdeg g).
Proof. unfold req_Rk. destruct (rq_I rq); [|rewrite smul_length]; apply byclass_length. Qed.

(* ======================= row 0 theorems ======================= *)
(* homogeneous mean field, SIS *)
Lemma row0_SIS_hmf g rq sv :
  wf_ugraph g = true -> wf_req g false rq = true -> solver_ok sv ->
  exists S I, SIS_homogeneous_meanfield_from_graph g rq sv = Ok [(nS, Sc S); (nI, Sc I)] /\
              S 0%nat == reqS_n g rq /\ I 0%nat == reqI_n g rq.
Proof.
  intros WG W OK. pose proof (gN_nonzero g WG) as NZ. pose proof (wf_req_noR g rq W) as NR.
  unfold SIS_homogeneous_meanfield_from_graph, SIS_homogeneous_meanfield, reqS_n, reqI_n, reqR, rho_or_default, comp, vnth.
  rewrite NR. destruct (rq_I rq) as [I0|] eqn:E, (rq_rho rq) as [r|] eqn:Er.
  - exfalso. exact (wf_req_not_both g false rq I0 r W E Er).
  - cbn [isSome andb]. eexists; eexists; split; [reflexivity|]. cbv beta. rewrite !OK. cbn [nth]. unfold len. cbn [length]. change (Qnat 0) with 0. split; [ring|reflexivity].
  - cbn [isSome andb]. eexists; eexists; split; [reflexivity|]. cbv beta. rewrite !OK. cbn [nth]. split; ring.
  - cbn [isSome andb]. eexists; eexists; split; [reflexivity|]. cbv beta. rewrite !OK. cbn [nth]. split; field; exact NZ.
Qed.

(* homogeneous mean field, SIR: every consistent request *)
Lemma row0_SIR_hmf g rq sv :
  wf_ugraph g = true -> wf_req g true rq = true -> solver_ok sv ->
  exists S I R, SIR_homogeneous_meanfield_from_graph g rq sv = Ok [(nS, Sc S); (nI, Sc I); (nR, Sc R)] /\
              S 0%nat == reqS_n g rq /\ I 0%nat == reqI_n g rq /\ R 0%nat == reqR_n g rq.
Proof.
  intros WG W OK. pose proof (gN_nonzero g WG) as NZ.
  unfold SIR_homogeneous_meanfield_from_graph, SIR_homogeneous_meanfield, reqS_n, reqI_n, reqR_n, reqR, rho_or_default, comp, vnth.
  destruct (rq_I rq) as [I0|] eqn:E.
  - destruct (wf_req_sets g true rq I0 W E) as (Hrho & _). rewrite Hrho. cbn [isSome andb].
    do 3 eexists; split; [reflexivity|]. cbv beta. rewrite !OK. cbn [nth]. repeat split; ring.
  - rewrite (wf_req_rho g true rq W E). cbn [isSome andb]. rewrite !andb_false_r.
    destruct (rq_rho rq) as [r|]; do 3 eexists; (split; [reflexivity|]); cbv beta; rewrite !OK; cbn [nth]; unfold len; cbn [length]; change (Qnat 0) with 0;
      repeat split; try ring; field; exact NZ.
Qed.

(* ---------------- witness graphs for the refutations ---------------- *)
Definition mk_ugraph (nodes : list node) (adj : node -> list node) : graph :=
  mkGraph nodes adj adj false (fun _ _ => 1) (fun _ => 1) false false.
(* path 0 - 1 - 2 *)
Definition path3 : graph :=
  mk_ugraph [0%N; 1%N; 2%N] (fun u => if N.eqb u 0 then [1%N] else if N.eqb u 1 then [0%N; 2%N] else if N.eqb u 2 then [1%N] else []).
(* star with centre 0 and leaves 1, 2, 3 *)
Definition star4 : graph :=
  mk_ugraph [0%N; 1%N; 2%N; 3%N] (fun u => if N.eqb u 0 then [1%N; 2%N; 3%N] else if N.leb u 3 then [0%N] else []).

(* ---------------- slices of X0 at time 0 ---------------- *)
Lemma slice0_app a b n : length a = n -> slice 0 n (a ++ b) = a.
Proof. intros <-. unfold slice. rewrite Nat.sub_0_r. cbn [skipn]. rewrite firstn_app, Nat.sub_diag, firstn_all. cbn. apply app_nil_r. Qed.
Lemma req_eta rq : rq_R rq = None -> mkReq (rq_I rq) None (rq_rho rq) = rq.
Proof. destruct rq; cbn; intros ->; reflexivity. Qed.

Ltac look := cbn [lookup app sname_eqb]; reflexivity.
Ltac lens := repeat (rewrite ?vsub_length, ?vmul_length, ?vadd_length, ?spow_arange_length, ?smul_length,
                             ?req_Sk_length, ?req_Ik_length, ?req_Rk_length, ?app_length); cbn [length]; lia.

(* heterogeneous mean field, SIS: S, I and (full data) the degree-class series Sk, Ik *)
Lemma row0_SIS_hetmf g rq full sv :
  wf_ugraph g = true -> wf_req g false rq = true -> solver_ok sv ->
  exists out S I, SIS_heterogeneous_meanfield_from_graph g rq full sv = Ok out /\
    lookup nS out = Some (Sc S) /\ lookup nI out = Some (Sc I) /\
    S 0%nat == reqS_n g rq /\ I 0%nat == reqI_n g rq /\
    (full = true -> exists Sk Ik, lookup nSk out = Some (Ve Sk) /\ lookup nIk out = Some (Ve Ik) /\
                                  Sk 0%nat = req_Sk g rq /\ Ik 0%nat = req_Ik g rq).
Proof.
  intros WG W OK. pose proof (wf_req_noR g rq W) as NR.
  unfold SIS_heterogeneous_meanfield_from_graph.
  assert (NB : (isSome (rq_rho rq) && isSome (rq_I rq))%bool = false).
  { destruct (rq_I rq) eqn:E, (rq_rho rq) eqn:Er; try reflexivity. exfalso; eapply wf_req_not_both; eauto. }
  rewrite NB, (req_eta rq NR), (get_Nk_ok g false rq WG W). cbn [rbind nk_Sk nk_Ik].
  unfold SIS_heterogeneous_meanfield. rewrite req_Sk_length, req_Ik_length, Nat.eqb_refl. cbn [negb].
  do 3 eexists. split; [reflexivity|]. split; [look|]. split; [look|].
  unfold vsumt, slc, sfrom. cbv beta. rewrite !OK.
  rewrite slice0_app by apply req_Sk_length.
  replace (slice_from (S (gmaxdeg g)) (req_Sk g rq ++ req_Ik g rq)) with (req_Ik g rq)
    by (rewrite <- (req_Sk_length g rq); symmetry; apply slice_from_app).
  split; [apply (vsum_req_Sk g false rq WG W)|]. split; [apply (vsum_req_Ik g false rq WG W)|].
  intros ->. do 2 eexists. split; [look|]. split; [look|]. cbv beta. rewrite !OK.
  rewrite slice0_app by apply req_Sk_length.
  split; [reflexivity|]. rewrite <- (req_Sk_length g rq). apply slice_from_app.
Qed.

(* heterogeneous mean field, SIR: S, I, R at tmin *)
Lemma spow_arange_1 n : veq (spow_arange 1 n) (map (fun _ => 1) (seq 0 n)).
Proof.
  unfold spow_arange. generalize 0%nat. induction n as [|n IH]; intros a; cbn [seq map]; constructor; [|apply IH].
  unfold qpow. apply Qpower_1.
Qed.
Lemma vmul_ones a n : length a = n -> veq (vmul a (map (fun _ => 1) (seq 0 n))) a.
Proof.
  revert n. generalize 0%nat. induction a as [|x a IH]; intros s n H; destruct n; cbn in *; try discriminate; constructor.
  - ring.
  - apply IH. lia.
Qed.
Lemma vmul_veq a b b' : veq b b' -> veq (vmul a b) (vmul a b').
Proof.
  intros H. revert a. induction H as [|y y' b b' Hy Hb IH]; intros [|x a]; cbn; constructor; [rewrite Hy; reflexivity|apply IH].
Qed.

Lemma row0_SIR_hetmf g rq full sv :
  wf_ugraph g = true -> wf_req g true rq = true -> solver_ok sv ->
  exists out, SIR_heterogeneous_meanfield_from_graph g rq full sv = Ok out /\
    (full = false -> exists S I R, out = [(nS, Sc S); (nI, Sc I); (nR, Sc R)] /\
        S 0%nat == reqS_n g rq /\ I 0%nat == reqI_n g rq /\ R 0%nat == reqR_n g rq) /\
    (full = true -> exists Sk Ik Rk, out = [(nSk, Ve Sk); (nIk, Ve Ik); (nRk, Ve Rk)] /\
        veq (Sk 0%nat) (req_Sk g rq) /\ veq (Ik 0%nat) (req_Ik g rq) /\ Rk 0%nat = req_Rk g rq).
Proof.
  intros WG W OK. unfold SIR_heterogeneous_meanfield_from_graph.
  rewrite (get_Nk_ok g true rq WG W). cbn [rbind nk_Sk nk_Ik nk_Rk].
  unfold SIR_heterogeneous_meanfield. rewrite req_Sk_length, req_Ik_length, req_Rk_length, Nat.eqb_refl. cbn [negb orb].
  assert (HS : veq (vmul (req_Sk g rq) (spow_arange 1 (length (req_Rk g rq)))) (req_Sk g rq)).
  { rewrite req_Rk_length. etransitivity; [apply vmul_veq, spow_arange_1|]. apply vmul_ones, req_Sk_length. }
  assert (HI : veq (vsub (vsub (vadd (vadd (req_Sk g rq) (req_Ik g rq)) (req_Rk g rq))
                               (vmul (req_Sk g rq) (spow_arange 1 (length (req_Rk g rq))))) (req_Rk g rq)) (req_Ik g rq)).
  { apply veq_of_nth; [lens|]. intros i Hi.
    assert (Li : (i < S (gmaxdeg g))%nat) by (revert Hi; lens).
    rewrite !nth_vsub, nth_vmul, !nth_vadd, nth_spow_arange by lens. unfold qpow. rewrite Qpower_1. ring. }
  pose proof (vsum_req_Sk g true rq WG W) as ES. pose proof (vsum_req_Ik g true rq WG W) as EI.
  pose proof (vsum_req_Rk g true rq WG W) as ER.
  destruct full; eexists; (split; [reflexivity|]); (split; [intros Hf; try discriminate Hf|intros Hf; try discriminate Hf]).
  - do 3 eexists. split; [reflexivity|]. unfold sfrom, comp, vnth. cbv beta. rewrite !OK. cbn [nth slice_from skipn].
    split; [exact HS|]. split; [exact HI|reflexivity].
  - do 3 eexists. split; [reflexivity|]. unfold vsumt, sfrom, comp, vnth. cbv beta. rewrite !OK. cbn [nth slice_from skipn].
    split; [rewrite (vsum_veq _ _ HS); exact ES|]. split; [rewrite (vsum_veq _ _ HI); exact EI|exact ER].
Qed.

(* ---------------- pair counts of a request ---------------- *)
Lemma esum_ext g f h : (forall u v, f u v == h u v) -> esum g f == esum g h.
Proof. intros H. unfold esum. apply sumQ_map_ext. intros e _. apply H. Qed.

Lemma cet_ext g st st' : (forall u, st u = st' u) -> count_edge_types_st g st = count_edge_types_st g st'.
Proof.
  intros H. unfold count_edge_types_st.
  f_equal; [f_equal|]; unfold esum; f_equal; apply map_ext; intros e; unfold isS, isI; rewrite !H; reflexivity.
Qed.

(* (SS, SI, II) of the request: explicit sets - counted over the edges of G (2 per S-S edge, 1 per S-I edge,
   2 per I-I edge); rho - (1-rho)^2, (1-rho)rho, rho^2 times the sum of the degrees *)
Definition req_pairs (g : graph) (rq : icreq) : Q * Q * Q :=
  match rq_I rq with
  | Some _ => count_edge_types_st g (req_status rq)
  | None => let r := rho_or_default g (rq_rho rq) in
            ((1 - r) * (1 - r) * degsum g, (1 - r) * r * degsum g, r * r * degsum g)
  end.
Definition pSS (x : Q * Q * Q) := fst (fst x).
Definition pSI (x : Q * Q * Q) := snd (fst x).
Definition pII (x : Q * Q * Q) := snd x.

Lemma count_edge_types_ok g sir rq I0 :
  wf_req g sir rq = true -> rq_I rq = Some I0 ->
  count_edge_types g I0 (rq_R rq) = Ok (count_edge_types_st g (req_status rq)).
Proof.
  intros W E. unfold count_edge_types. destruct (init_status_ok g sir rq I0 W E) as [st [-> Hst]]. cbn [rbind].
  f_equal. apply cet_ext. exact Hst.
Qed.

Lemma get_Nk_default g sir :
  get_Nk_and_IC g (mkReq None None (Some (1 / gN g))) sir = get_Nk_and_IC g (mkReq None None None) sir.
Proof. unfold get_Nk_and_IC. cbn [rq_rho rq_I rq_R isSome andb]. rewrite !andb_false_r. destruct (gnodes g); reflexivity. Qed.

Lemma req_default_eta rq : rq_I rq = None -> rq_R rq = None -> rq_rho rq = None -> mkReq None None None = rq.
Proof. destruct rq; cbn; intros -> -> ->; reflexivity. Qed.

Lemma weighted_Nk_sum g c :
  vsum (map (fun k => vnth k (Nk_of g) * Qnat k * c) (classes g)) == c * degsum g.
Proof.
  unfold vsum. rewrite <- Nk_degsum, <- sumQ_map_scal. apply sumQ_map_ext. intros; ring.
Qed.

Lemma weighted_Nk_sum2 g c1 c2 :
  vsum (map (fun k => vnth k (Nk_of g) * Qnat k * c1 * c2) (classes g)) == c1 * c2 * degsum g.
Proof.
  rewrite <- weighted_Nk_sum. unfold vsum. apply sumQ_map_ext. intros; ring.
Qed.

Lemma weighted_Nk_sum2' g c1 c2 :
  vsum (map (fun k => nth k (Nk_of g) 0 * Qnat k * c1 * c2) (classes g)) == c1 * c2 * degsum g.
Proof. exact (weighted_Nk_sum2 g c1 c2). Qed.

Lemma vsum_nth v : vsum v == sumQ (map (fun i => nth i v 0) (seq 0 (length v))).
Proof.
  induction v as [|x v IH]; [reflexivity|]. cbn [length seq map]. rewrite vsum_cons, sumQ_cons. cbn [nth].
  rewrite <- seq_shift, map_map. cbn [nth]. rewrite <- IH. reflexivity.
Qed.

(* np.dot(c*Nk, ks) = c * sum of the degrees *)
Lemma dot_Nk_ks g c : dot (smul c (Nk_of g)) (ksv (Nk_of g)) == c * degsum g.
Proof.
  unfold dot, ksv. rewrite vsum_nth.
  assert (L : length (Nk_of g) = S (gmaxdeg g)) by apply byclass_length.
  rewrite vmul_length, smul_length, arange_length, Nat.min_id, L.
  rewrite <- Nk_degsum, <- sumQ_map_scal. unfold classes. apply sumQ_map_ext. intros i Hi. apply in_seq in Hi.
  rewrite nth_vmul, nth_smul, nth_arange by (rewrite ?smul_length, ?arange_length, ?L; lia). unfold vnth. ring.
Qed.
Lemma dot_Nk_ks1 g : dot (Nk_of g) (ksv (Nk_of g)) == degsum g.
Proof.
  rewrite <- (Qmult_1_l (degsum g)), <- dot_Nk_ks. unfold dot. apply vsum_veq.
  apply veq_of_nth; [rewrite !vmul_length, smul_length; reflexivity|]. intros i Hi.
  rewrite vmul_length in Hi. unfold ksv in *. rewrite arange_length, Nat.min_id in Hi.
  rewrite !nth_vmul, nth_smul by (rewrite ?smul_length, ?arange_length; lia). ring.
Qed.

(* compact pairwise, SIS (and SIS compact effective degree, which is the same function) *)
Lemma row0_SIS_cp g rq full sv :
  wf_ugraph g = true -> wf_req g false rq = true -> solver_ok sv ->
  exists out S I, SIS_compact_pairwise_from_graph g rq full sv = Ok out /\
    lookup nS out = Some (Sc S) /\ lookup nI out = Some (Sc I) /\
    S 0%nat == reqS_n g rq /\ I 0%nat == reqI_n g rq /\
    (full = true -> exists Sk Ik SI SS II,
       lookup nSk out = Some (Ve Sk) /\ lookup nIk out = Some (Ve Ik) /\ lookup nSI out = Some (Sc SI) /\
       lookup nSS out = Some (Sc SS) /\ lookup nII out = Some (Sc II) /\
       Sk 0%nat = req_Sk g rq /\ veq (Ik 0%nat) (req_Ik g rq) /\
       SI 0%nat == pSI (req_pairs g rq) /\ SS 0%nat == pSS (req_pairs g rq) /\ II 0%nat == pII (req_pairs g rq)).
Proof.
  intros WG W OK. pose proof (wf_req_noR g rq W) as NR.
  unfold SIS_compact_pairwise_from_graph.
  assert (NB : (isSome (rq_rho rq) && isSome (rq_I rq))%bool = false).
  { destruct (rq_I rq) eqn:E, (rq_rho rq) eqn:Er; try reflexivity. exfalso; eapply wf_req_not_both; eauto. }
  rewrite NB.
  assert (HN : get_Nk_and_IC g (mkReq (rq_I rq) None match rq_rho rq with Some _ => rq_rho rq | None => match rq_I rq with Some _ => None | None => Some (1 / gN g) end end) false
               = Ok (mkNkic (Nk_of g) (req_Sk g rq) (req_Ik g rq) (req_Rk g rq))).
  { destruct (rq_rho rq) as [r|] eqn:Er.
    - rewrite <- Er, (req_eta rq NR). apply (get_Nk_ok g false rq WG W).
    - destruct (rq_I rq) as [I0|] eqn:E.
      + rewrite <- Er, <- E, (req_eta rq NR). apply (get_Nk_ok g false rq WG W).
      + rewrite get_Nk_default, (req_default_eta rq E NR Er). apply (get_Nk_ok g false rq WG W). }
  assert (HV : veq (vsub (vadd (req_Sk g rq) (req_Ik g rq)) (req_Sk g rq)) (req_Ik g rq)).
  { apply veq_of_nth; [lens|]. intros i Hi.
    rewrite nth_vsub, nth_vadd by (revert Hi; lens). ring. }
  destruct (rq_rho rq) as [r|] eqn:Er; [destruct (rq_I rq) as [I0|] eqn:E; [exfalso; eapply wf_req_not_both; eauto|]|destruct (rq_I rq) as [I0|] eqn:E].
  all: rewrite HN; cbn [rbind nk_Sk nk_Ik nk_Nk].
  2: rewrite <- NR, (count_edge_types_ok g false rq I0 W E); cbn [rbind]; destruct (count_edge_types_st g (req_status rq)) as [[ss si] ii] eqn:EC.
  all: unfold SIS_compact_pairwise; do 3 eexists; (split; [reflexivity|]); (split; [look|]); (split; [look|]);
    unfold vsumt, dlast, tlast, vnth; cbv beta; rewrite !OK; rewrite ?drop_last_app, ?take_last_app by reflexivity; cbn [nth].
  all: split; [apply (vsum_req_Sk g false rq WG W)|]; split; [rewrite (vsum_veq _ _ HV); apply (vsum_req_Ik g false rq WG W)|].
  all: intros ->; do 5 eexists; repeat (split; [look|]); cbv beta; rewrite !OK; rewrite ?drop_last_app, ?take_last_app by reflexivity; cbn [nth];
    (split; [reflexivity|]); (split; [apply HV|]); unfold req_pairs, pSS, pSI, pII; rewrite ?E, ?Er, ?EC; cbn [fst snd rho_or_default].
  - rewrite !weighted_Nk_sum2'. repeat split; ring.
  - repeat split; ring.
  - rewrite !weighted_Nk_sum2'. repeat split; ring.
Qed.

Lemma req_eta_full rq : mkReq (rq_I rq) (rq_R rq) (rq_rho rq) = rq.
Proof. destruct rq; reflexivity. Qed.

Lemma get_Nk_sir_default g rq :
  wf_ugraph g = true -> wf_req g true rq = true ->
  get_Nk_and_IC g (mkReq (rq_I rq) (rq_R rq) match rq_rho rq with Some _ => rq_rho rq | None => match rq_I rq with Some _ => None | None => Some (1 / gN g) end end) true
  = Ok (mkNkic (Nk_of g) (req_Sk g rq) (req_Ik g rq) (req_Rk g rq)).
Proof.
  intros WG W. destruct (rq_rho rq) as [r|] eqn:Er.
  - rewrite <- Er, req_eta_full. apply (get_Nk_ok g true rq WG W).
  - destruct (rq_I rq) as [I0|] eqn:E.
    + rewrite <- Er, <- E, req_eta_full. apply (get_Nk_ok g true rq WG W).
    + pose proof (wf_req_rho g true rq W E) as NR. rewrite NR, get_Nk_default, (req_default_eta rq E NR Er).
      apply (get_Nk_ok g true rq WG W).
Qed.

(* compact pairwise, SIR: S, I, R at tmin; full data: Sk, I, R, SS, SI *)
Lemma req_Sk_rho g rq : rq_I rq = None -> req_Sk g rq = smul (1 - rho_or_default g (rq_rho rq)) (Nk_of g).
Proof. unfold req_Sk. intros ->. reflexivity. Qed.

Lemma row0_SIR_cp g rq full sv :
  wf_ugraph g = true -> wf_req g true rq = true -> solver_ok sv ->
  exists out, SIR_compact_pairwise_from_graph g rq full sv = Ok out /\
    (full = false -> exists S I R, out = [(nS, Sc S); (nI, Sc I); (nR, Sc R)] /\
        S 0%nat == reqS_n g rq /\ I 0%nat == reqI_n g rq /\ R 0%nat == reqR_n g rq) /\
    (full = true -> exists Sk I R SS SI, out = [(nSk, Ve Sk); (nI, Sc I); (nR, Sc R); (nSS, Sc SS); (nSI, Sc SI)] /\
        Sk 0%nat = req_Sk g rq /\ I 0%nat == reqI_n g rq /\ R 0%nat == reqR_n g rq /\
        SS 0%nat == pSS (req_pairs g rq) /\ SI 0%nat == pSI (req_pairs g rq)).
Proof.
  intros WG W OK. unfold SIR_compact_pairwise_from_graph.
  assert (NB : (isSome (rq_rho rq) && isSome (rq_I rq))%bool = false).
  { destruct (rq_I rq) eqn:E, (rq_rho rq) eqn:Er; try reflexivity. exfalso; eapply wf_req_not_both; eauto. }
  rewrite NB. pose proof (get_Nk_sir_default g rq WG W) as HN.
  pose proof (vsum_req_Sk g true rq WG W) as ES. pose proof (vsum_req_Ik g true rq WG W) as EI.
  pose proof (vsum_req_Rk g true rq WG W) as ER.
  assert (HP : forall r, rq_I rq = None -> rho_or_default g (rq_rho rq) = r ->
               (1 - r) * dot (req_Sk g rq) (ksv (Nk_of g)) == pSS (req_pairs g rq) /\
               r * dot (req_Sk g rq) (ksv (Nk_of g)) == pSI (req_pairs g rq)).
  { intros r E Hr. rewrite (req_Sk_rho g rq E), Hr, dot_Nk_ks. unfold req_pairs, pSS, pSI. rewrite E, Hr. cbn [fst snd]. split; ring. }
  destruct (rq_rho rq) as [r|] eqn:Er; [destruct (rq_I rq) as [I0|] eqn:E; [exfalso; eapply wf_req_not_both; eauto|]|destruct (rq_I rq) as [I0|] eqn:E].
  all: rewrite HN; cbn [rbind nk_Sk nk_Ik nk_Nk nk_Rk].
  2: rewrite (count_edge_types_ok g true rq I0 W E); cbn [rbind]; destruct (count_edge_types_st g (req_status rq)) as [[ss si] ii] eqn:EC.
  all: unfold SIR_compact_pairwise; destruct full; eexists; (split; [reflexivity|]); (split; intros Hf; try discriminate Hf).
  all: try (do 5 eexists; (split; [reflexivity|]));  try (do 3 eexists; (split; [reflexivity|]));
    unfold vsumt, dlast, tlast, vnth; cbv beta; rewrite !OK; rewrite ?drop_last_app, ?take_last_app by reflexivity; cbn [nth].
  all: rewrite ?ES, ?EI, ?ER.
  - destruct (HP r eq_refl eq_refl) as [H1 H2]. split; [reflexivity|]. split; [ring|]. split; [reflexivity|]. split; assumption.
  - repeat split; try reflexivity; ring.
  - split; [reflexivity|]. split; [ring|]. split; [reflexivity|]. unfold req_pairs, pSS, pSI. rewrite E, EC. cbn [fst snd]. split; reflexivity.
  - repeat split; try reflexivity; ring.
  - destruct (HP (1 / gN g) eq_refl eq_refl) as [H1 H2]. split; [reflexivity|]. split; [ring|]. split; [reflexivity|]. split; assumption.
  - repeat split; try reflexivity; ring.
Qed.

(* super compact pairwise, SIS: S, I and (full data) SS, SI, II at tmin *)
Lemma row0_SIS_scp g rq full sv :
  wf_ugraph g = true -> wf_req g false rq = true -> solver_ok sv ->
  exists out S I, SIS_super_compact_pairwise_from_graph g rq full sv = Ok out /\
    lookup nS out = Some (Sc S) /\ lookup nI out = Some (Sc I) /\
    S 0%nat == reqS_n g rq /\ I 0%nat == reqI_n g rq /\
    (full = true -> exists SS SI II, lookup nSS out = Some (Sc SS) /\ lookup nSI out = Some (Sc SI) /\ lookup nII out = Some (Sc II) /\
       SS 0%nat == pSS (req_pairs g rq) /\ SI 0%nat == pSI (req_pairs g rq) /\ II 0%nat == pII (req_pairs g rq)).
Proof.
  intros WG W OK. pose proof (wf_req_noR g rq W) as NR. unfold SIS_super_compact_pairwise_from_graph.
  assert (NB : (isSome (rq_rho rq) && isSome (rq_I rq))%bool = false).
  { destruct (rq_I rq) eqn:E, (rq_rho rq) eqn:Er; try reflexivity. exfalso; eapply wf_req_not_both; eauto. }
  rewrite NB, (req_eta rq NR), (get_Nk_ok g false rq WG W). cbn [rbind nk_Sk nk_Ik nk_Nk].
  pose proof (vsum_req_Sk g false rq WG W) as ES. pose proof (vsum_req_Ik g false rq WG W) as EI.
  destruct (rq_I rq) as [I0|] eqn:E.
  - rewrite <- NR, (count_edge_types_ok g false rq I0 W E). cbn [rbind].
    destruct (count_edge_types_st g (req_status rq)) as [[ss si] ii] eqn:EC.
    unfold SIS_super_compact_pairwise. do 3 eexists. split; [reflexivity|]. split; [look|]. split; [look|].
    unfold comp, vnth. cbv beta. rewrite !OK. cbn [nth]. rewrite ES, EI. split; [ring|]. split; [reflexivity|].
    intros ->. do 3 eexists. split; [look|]. split; [look|]. split; [look|]. cbv beta. rewrite !OK. cbn [nth].
    unfold req_pairs, pSS, pSI, pII. rewrite E, EC. cbn [fst snd]. repeat split; reflexivity.
  - unfold SIS_super_compact_pairwise. do 3 eexists. split; [reflexivity|]. split; [look|]. split; [look|].
    unfold comp, vnth. cbv beta. rewrite !OK. cbn [nth]. rewrite ES, EI. split; [ring|]. split; [reflexivity|].
    intros ->. do 3 eexists. split; [look|]. split; [look|]. split; [look|]. cbv beta. rewrite !OK. cbn [nth].
    rewrite (req_Sk_rho g rq E), dot_Nk_ks, dot_Nk_ks1. unfold req_pairs, pSS, pSI, pII. rewrite E. cbn [fst snd]. repeat split; ring.
Qed.

(* heterogeneous pairwise, SIS: every consistent request is accepted, with and without full data *)
Lemma get_NkNl_accepts g sir rq : wf_req g sir rq = true -> exists kk, get_NkNl_and_IC g rq = Ok kk.
Proof.
  intros W. unfold get_NkNl_and_IC. destruct (rq_I rq) as [I0|] eqn:E.
  - destruct (wf_req_sets g sir rq I0 W E) as (Hrho & _). rewrite Hrho. cbn [isSome andb].
    destruct (init_status_ok g sir rq I0 W E) as [st [-> _]]. cbn [rbind]. eexists; reflexivity.
  - rewrite (wf_req_rho g sir rq W E). cbn [isSome andb]. rewrite !andb_false_r. eexists; reflexivity.
Qed.

Lemma accepts_SIS_hetpw g rq full sv :
  wf_ugraph g = true -> wf_req g false rq = true ->
  exists out, SIS_heterogeneous_pairwise_from_graph g rq full sv = Ok out.
Proof.
  intros WG W. pose proof (wf_req_noR g rq W) as NR. unfold SIS_heterogeneous_pairwise_from_graph.
  rewrite (req_eta rq NR), (get_Nk_ok g false rq WG W). cbn [rbind].
  destruct (get_NkNl_accepts g false rq W) as [kk ->]. cbn [rbind].
  unfold SIS_heterogeneous_pairwise. destruct full; eexists; reflexivity.
Qed.

(* ... and on the former witness of the crash the IkIl series starts at the I-I pair matrix of the request *)
Lemma row0_SIS_hetpw_full_example :
  exists kk out IkIl SkSl SkIl, get_NkNl_and_IC path3 (mkReq (Some [0%N; 1%N]) None None) = Ok kk /\
      SIS_heterogeneous_pairwise_from_graph path3 (mkReq (Some [0%N; 1%N]) None None) true const_solver = Ok out /\
      lookup nIkIl out = Some (Ma IkIl) /\ lookup nSkSl out = Some (Ma SkSl) /\ lookup nSkIl out = Some (Ma SkIl) /\
      Forall2 (Forall2 Qeq) (IkIl 0%nat) (kk_IkIl kk) /\ SkSl 0%nat = kk_SkSl kk /\ SkIl 0%nat = kk_SkIl kk /\
      kk_IkIl kk = [[0; 1]; [1; 0]].
Proof.
  do 5 eexists. split; [vm_compute; reflexivity|]. split; [vm_compute; reflexivity|].
  split; [vm_compute; reflexivity|]. split; [vm_compute; reflexivity|]. split; [vm_compute; reflexivity|].
  split; [|split; [vm_compute; reflexivity|split; vm_compute; reflexivity]].
  vm_compute. repeat constructor.
Qed.

(* heterogeneous pairwise, SIR, full data: the former witness of the SkSl/SkIl exchange now shows the documented order *)
Lemma row0_SIR_hetpw_full_example :
  exists kk out SkSl SkIl, get_NkNl_and_IC path3 (mkReq (Some [0%N]) None None) = Ok kk /\
      SIR_heterogeneous_pairwise_from_graph path3 (mkReq (Some [0%N]) None None) true const_solver = Ok out /\
      lookup nSkSl out = Some (Ma SkSl) /\ lookup nSkIl out = Some (Ma SkIl) /\
      SkSl 0%nat = kk_SkSl kk /\ SkIl 0%nat = kk_SkIl kk /\ kk_SkSl kk <> kk_SkIl kk.
Proof.
  do 4 eexists. split; [vm_compute; reflexivity|]. split; [vm_compute; reflexivity|].
  split; [vm_compute; reflexivity|]. split; [vm_compute; reflexivity|].
  split; [vm_compute; reflexivity|]. split; [vm_compute; reflexivity|]. vm_compute. intros H; discriminate H.
Qed.

(* ======================= conservation: structural cases ======================= *)
(* whatever the integrator returns, the tuple is built by subtraction from N *)
Lemma conserve_SIR_homogeneous_meanfield S0 I0 R0 sv t S I R :
  SIR_homogeneous_meanfield S0 I0 R0 sv = [(nS, Sc S); (nI, Sc I); (nR, Sc R)] -> S t + I t + R t == S0 + I0 + R0.
Proof. unfold SIR_homogeneous_meanfield. intros H. injection H as <- <- <-. ring. Qed.

Lemma conserve_SIS_homogeneous_pairwise S0 I0 SI0 SS0 n full sv out S I t :
  SIS_homogeneous_pairwise S0 I0 SI0 SS0 n full sv = Ok out ->
  lookup nS out = Some (Sc S) -> lookup nI out = Some (Sc I) -> S t + I t == S0 + I0.
Proof.
  unfold SIS_homogeneous_pairwise. destruct (Qltb _ _); [discriminate|]. intros H. injection H as <-.
  cbn [lookup app sname_eqb]. intros HS HI. injection HS as <-. injection HI as <-. ring.
Qed.

Lemma conserve_SIR_homogeneous_pairwise S0 I0 R0 SI0 SS0 n full sv out S I R t :
  SIR_homogeneous_pairwise S0 I0 R0 SI0 SS0 n full sv = Ok out ->
  lookup nS out = Some (Sc S) -> lookup nI out = Some (Sc I) -> lookup nR out = Some (Sc R) -> S t + I t + R t == S0 + I0 + R0.
Proof.
  unfold SIR_homogeneous_pairwise. destruct (Qltb _ _); [discriminate|]. intros H. injection H as <-.
  cbn [lookup app sname_eqb]. intros HS HI HR. injection HS as <-. injection HI as <-. injection HR as <-. ring.
Qed.

Lemma conserve_SIR_compact_pairwise Sk0 I0 R0 SS0 SI0 sv S I R t :
  SIR_compact_pairwise Sk0 I0 R0 SS0 SI0 false sv = [(nS, Sc S); (nI, Sc I); (nR, Sc R)] -> S t + I t + R t == I0 + R0 + vsum Sk0.
Proof. unfold SIR_compact_pairwise. intros H. injection H as <- <- <-. ring. Qed.

Lemma conserve_SIS_super_compact_pairwise S0 I0 SS0 SI0 II0 full sv S I t :
  lookup nS (SIS_super_compact_pairwise S0 I0 SS0 SI0 II0 full sv) = Some (Sc S) ->
  lookup nI (SIS_super_compact_pairwise S0 I0 SS0 SI0 II0 full sv) = Some (Sc I) -> S t + I t == S0 + I0.
Proof. unfold SIS_super_compact_pairwise. cbn [lookup app sname_eqb]. intros HS HI. injection HS as <-. injection HI as <-. ring. Qed.

Lemma conserve_SIR_super_compact_pairwise R0 SS0 SI0 N psihat full sv S I R t :
  lookup nS (SIR_super_compact_pairwise R0 SS0 SI0 N psihat full sv) = Some (Sc S) ->
  lookup nI (SIR_super_compact_pairwise R0 SS0 SI0 N psihat full sv) = Some (Sc I) ->
  lookup nR (SIR_super_compact_pairwise R0 SS0 SI0 N psihat full sv) = Some (Sc R) -> S t + I t + R t == N.
Proof. unfold SIR_super_compact_pairwise. cbn [lookup app sname_eqb]. intros HS HI HR. injection HS as <-. injection HI as <-. injection HR as <-. ring. Qed.

Lemma conserve_SIR_effective_degree Ssi0 I0 R0 full sv S I R t :
  lookup nS (SIR_effective_degree Ssi0 I0 R0 full sv) = Some (Sc S) ->
  lookup nI (SIR_effective_degree Ssi0 I0 R0 full sv) = Some (Sc I) ->
  lookup nR (SIR_effective_degree Ssi0 I0 R0 full sv) = Some (Sc R) -> S t + I t + R t == msum Ssi0 + I0 + R0.
Proof. unfold SIR_effective_degree. cbn [lookup app sname_eqb]. intros HS HI HR. injection HS as <-. injection HI as <-. injection HR as <-. ring. Qed.

Lemma conserve_SIR_compact_effective_degree Sk0 I0 R0 SI0 full sv S I R t :
  lookup nS (SIR_compact_effective_degree Sk0 I0 R0 SI0 full sv) = Some (Sc S) ->
  lookup nI (SIR_compact_effective_degree Sk0 I0 R0 SI0 full sv) = Some (Sc I) ->
  lookup nR (SIR_compact_effective_degree Sk0 I0 R0 SI0 full sv) = Some (Sc R) -> S t + I t + R t == vsum Sk0 + I0 + R0.
Proof. unfold SIR_compact_effective_degree. cbn [lookup app sname_eqb]. intros HS HI HR. injection HS as <-. injection HI as <-. injection HR as <-. ring. Qed.

Lemma conserve_EBCM N psihat R0 full sv S I R t :
  lookup nS (EBCM N psihat R0 full sv) = Some (Sc S) -> lookup nI (EBCM N psihat R0 full sv) = Some (Sc I) ->
  lookup nR (EBCM N psihat R0 full sv) = Some (Sc R) -> S t + I t + R t == N.
Proof. unfold EBCM. cbn [lookup app sname_eqb]. intros HS HI HR. injection HS as <-. injection HI as <-. injection HR as <-. ring. Qed.
